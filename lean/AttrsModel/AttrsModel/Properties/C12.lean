/-
  C12 — property theorems: `evolve` is the class's initializer applied to (changes ∪ current values of the
  other init fields), `assoc` an independent copy with the named fields replaced; unknown names are
  rejected; the original is untouched; the result satisfies the class invariants.  Helper lemmas are in
  Proofs/C12.lean; the initializer theorems used are `C01_values` and `C01_bind_iff`.
-/
import AttrsModel.Proofs.C12

namespace Attrs.C12
open Attrs.Init

/-- **C12_original_untouched**: neither operation changes the original's field values. -/
theorem C12_original_untouched (c : Case) : (model c).orig = c.cur := by
  unfold model failed
  cases c.op <;> simp only <;> repeat (first | rfl | split)

/-- the model of `evolve` on a readable original, in terms of the fault-free initializer run -/
theorem model_evolve (c : Case) (hop : c.op = .evolve)
    (hm : evolveMissing c.base.run.attrs c.cur c.changes = false) :
    model c =
      (match (runInit (evolveCase c)).exc with
       | some e => failed c e (runInit (evolveCase c)).trace
       | none =>
         match vetoFault (evolveCase c).run c.veto (runInit (evolveCase c)).values with
         | some f =>
           { exc := (runInit (withFault (evolveCase c) f)).exc, values := [], orig := c.cur, fresh := false,
             invariants := false, ident := [], trace := (runInit (withFault (evolveCase c) f)).trace,
             likeDirect := true }
         | none =>
           { exc := none, values := (runInit (evolveCase c)).values, orig := c.cur, fresh := true,
             invariants := !(cacheMisplaced c.base.run && (runInit (evolveCase c)).values.all (·.2.isSome)),
             ident := evolveIdent c.base.run.attrs c.changes (runInit (evolveCase c)).values,
             trace := (runInit (evolveCase c)).trace, likeDirect := true }) := by
  unfold model
  rw [hop]
  simp only [hm, Bool.false_eq_true, if_false]
  rfl

/-- **C12_evolve_is_init**: whenever every init field can be read, `evolve` raises whatever the class's
    initializer raises on the call `changes ∪ {alias ↦ current value}`; and when that call returns and no
    validator of the class rejects the new instance, `evolve` returns a fresh instance holding exactly the
    values (and having run exactly the callbacks) of that call — so every theorem about construction
    (C01/C02) applies to evolve's result. -/
theorem C12_evolve_is_init (c : Case) (hop : c.op = .evolve)
    (hm : evolveMissing c.base.run.attrs c.cur c.changes = false) :
    (∀ e, (runInit (evolveCase c)).exc = some e → (model c).exc = some e) ∧
    ((runInit (evolveCase c)).exc = none →
      vetoFault (evolveCase c).run c.veto (runInit (evolveCase c)).values = none →
      (model c).exc = none ∧ (model c).values = (runInit (evolveCase c)).values ∧ (model c).fresh = true ∧
      (model c).trace = (runInit (evolveCase c)).trace) := by
  rw [model_evolve c hop hm]
  constructor
  · intro e he; simp only [he]; rfl
  · intro he hv; simp [he, hv]

/-- **C12_evolve_values**: evolving a fully constructed instance with changes that all name init aliases, to a
    state no validator of the class rejects, succeeds and yields a fresh instance in which every changed field
    holds converter(new value), every other init field converter(current value), and every `init=False` field is
    re-derived from its default or factory (unset without one). -/
theorem C12_evolve_values (c : Case) (hwf : wf c = true) (hk : known c = []) (hop : c.op = .evolve)
    (hall : c.changes.all (fun kv => (c.base.run.attrs.filter (·.init)).any (·.alias == kv.1)) = true)
    (hv : vetoed c = false) :
    (model c).exc = none ∧ (model c).fresh = true ∧ (model c).values = expectedValues c := by
  have p := wfParts c hwf
  obtain ⟨e, v⟩ := runInit_evolve c p (known_nil c hk).1 hall
  have hvf : vetoFault (evolveCase c).run c.veto (runInit (evolveCase c)).values = none := by
    have := vetoFault_evolve c p (known_nil c hk).1 hall
    rw [hv] at this
    simpa using this
  obtain ⟨h1, h2, h3, _⟩ := (C12_evolve_is_init c hop (evolveMissing_false c p)).2 e hvf
  exact ⟨h1, h3, by rw [h2, v]⟩

/-- **C12_evolve_vetoed**: what the class refuses to construct `evolve` does not hand out — if a validator of ANY
    field that gets a statement (changed or carried over from the original, e.g. after the original was mutated
    into an invalid state, or a validator that looks at another field) rejects the instance holding the new
    values, `evolve` raises that validator's exception, having run the callbacks of a direct call up to and
    including that validator. -/
theorem C12_evolve_vetoed (c : Case) (hwf : wf c = true) (hk : known c = []) (hop : c.op = .evolve)
    (hall : c.changes.all (fun kv => (c.base.run.attrs.filter (·.init)).any (·.alias == kv.1)) = true)
    (hv : vetoed c = true) :
    (model c).exc = some .user ∧
    ∃ f, (model c).trace = C02.cutAt (some f) (C02.expectedTrace (evolveCase c).eff (evolveCase c).call) := by
  have p := wfParts c hwf
  obtain ⟨e, _⟩ := runInit_evolve c p (known_nil c hk).1 hall
  have hs := vetoFault_evolve c p (known_nil c hk).1 hall
  rw [hv] at hs
  obtain ⟨f, hf⟩ := Option.isSome_iff_exists.1 hs
  obtain ⟨h1, h2⟩ := runInit_withFault c p (known_nil c hk).1 hall f hf
  rw [model_evolve c hop (evolveMissing_false c p)]
  simp only [e, hf]
  exact ⟨h1, f, h2⟩

/-- **C12_evolve_trace**: a successful `evolve` runs exactly the user callbacks of a direct call of the class:
    pre-init, per field factory/converter(s), every validator, post-init — each once, in that order. -/
theorem C12_evolve_trace (c : Case) (hwf : wf c = true) (hk : known c = []) (hop : c.op = .evolve)
    (hall : c.changes.all (fun kv => (c.base.run.attrs.filter (·.init)).any (·.alias == kv.1)) = true)
    (hv : vetoed c = false) :
    (model c).trace = C02.expectedTrace (evolveCase c).eff (evolveCase c).call := by
  have p := wfParts c hwf
  obtain ⟨e, _⟩ := runInit_evolve c p (known_nil c hk).1 hall
  have hvf : vetoFault (evolveCase c).run c.veto (runInit (evolveCase c)).values = none := by
    have := vetoFault_evolve c p (known_nil c hk).1 hall
    rw [hv] at this
    simpa using this
  obtain ⟨_, _, _, h4⟩ := (C12_evolve_is_init c hop (evolveMissing_false c p)).2 e hvf
  rw [h4]
  have hok : callOk (params (evolveCase c).run.attrs) (evolveCase c).call = true := by
    rw [← hall]; exact callOk_evolve c p
  have hwf2 : C02.wf (evolveCase c) = true := by
    unfold C02.wf
    rw [setFault_none (evolveCase c) (evolveCase_fault c p), wf_evolveCase c p, hok]
    rfl
  exact C02.C02_trace (evolveCase c) hwf2 (known_nil c hk).1 (evolveCase_fault c p)

/-- **C12_unknown_typeerror**: a change whose name is not the alias of an init field makes `evolve` raise
    TypeError (and, by `C12_evolve_values` / `C12_evolve_vetoed`, nothing else does). -/
theorem C12_unknown_typeerror (c : Case) (hwf : wf c = true) (hk : known c = []) (hop : c.op = .evolve)
    (hbad : c.changes.all (fun kv => (c.base.run.attrs.filter (·.init)).any (·.alias == kv.1)) = false) :
    (model c).exc = some .typeError := by
  have p := wfParts c hwf
  have hok : callOk (params (evolveCase c).run.attrs) (evolveCase c).call = false := by
    rw [← hbad]; exact callOk_evolve c p
  have := (C01.C01_bind_iff (evolveCase c) (wf_evolveCase c p) (known_nil c hk).1).2 hok
  exact (C12_evolve_is_init c hop (evolveMissing_false c p)).1 _ this

/-- **C12_typeerror_iff**: for a fully constructed original, `evolve` raises TypeError exactly when some change
    does not name the alias of an init field (in particular: a private field's name instead of its alias,
    an `init=False` field, a method, a class constant, any other attribute of the instance). -/
theorem C12_typeerror_iff (c : Case) (hwf : wf c = true) (hk : known c = []) (hop : c.op = .evolve) :
    (model c).exc = some .typeError ↔
      c.changes.all (fun kv => (c.base.run.attrs.filter (·.init)).any (·.alias == kv.1)) = false := by
  constructor
  · intro h
    cases hall : c.changes.all (fun kv => (c.base.run.attrs.filter (·.init)).any (·.alias == kv.1)) with
    | false => rfl
    | true =>
      cases hv : vetoed c with
      | false =>
        have := (C12_evolve_values c hwf hk hop hall hv).1
        rw [this] at h
        cases h
      | true =>
        have := (C12_evolve_vetoed c hwf hk hop hall hv).1
        rw [this] at h
        cases h
  · exact C12_unknown_typeerror c hwf hk hop

theorem isField_eq (c : Case) (p : WfParts c) :
    (fun (kv : String × Val) => c.cur.any (·.1 == kv.1)) = (fun kv => c.base.run.attrs.any (·.name == kv.1)) := by
  funext kv; exact any_cur_eq c p kv.1

/-- **C12_assoc_spec**: `assoc` with field names only returns a fresh object whose fields are the original's
    with exactly the named ones replaced (raw: no converter, no validator, no hook runs — whatever the values,
    also ones a validator would reject), a field the original does not hold staying unset unless named. -/
theorem C12_assoc_spec (c : Case) (hwf : wf c = true) (hop : c.op = .assoc)
    (hall : c.changes.all (fun kv => c.base.run.attrs.any (·.name == kv.1)) = true) :
    (model c).exc = none ∧ (model c).fresh = true ∧ (model c).trace = [] ∧
    (model c).values =
      c.cur.map (fun kv => (kv.1, match lookup kv.1 c.changes with | some w => some w | none => kv.2)) := by
  have p := wfParts c hwf
  have hl : assocLoop (fun n => c.cur.any (·.1 == n)) c.changes = none := by
    apply assocLoop_all_fields
    rw [← hall]; congr 1; exact isField_eq c p
  unfold model
  rw [hop]
  simp only [hl, assocValues_eq]
  exact ⟨trivial, trivial, trivial, rfl⟩

/-- **C12_assoc_unknown_notfound**: a name that is not a field — whatever else it names: an attribute of every
    tuple (`count`, `index`, `__len__`, `__doc__` …), a method, a property, a class constant, an instance attribute,
    a dunder — makes `assoc` raise AttrsAttributeNotFoundError; no result is handed out and the original is
    untouched. -/
theorem C12_assoc_unknown_notfound (c : Case) (hwf : wf c = true) (hop : c.op = .assoc)
    (hbad : c.changes.all (fun kv => c.base.run.attrs.any (·.name == kv.1)) = false) :
    (model c).exc = some .notFound ∧ (model c).values = [] ∧ (model c).orig = c.cur := by
  have p := wfParts c hwf
  have hl : assocLoop (fun n => c.cur.any (·.1 == n)) c.changes = some .notFound := by
    apply assocLoop_notFound
    rw [← hbad]; congr 1; exact isField_eq c p
  unfold model
  rw [hop]
  simp only [hl]
  exact ⟨rfl, rfl, rfl⟩

/-- **C12_assoc_notfound_iff**: `assoc` raises AttrsAttributeNotFoundError exactly when some name is no field; a
    field is accepted whatever its name is (also `count` or `index`). -/
theorem C12_assoc_notfound_iff (c : Case) (hwf : wf c = true) (hop : c.op = .assoc) :
    (model c).exc = some .notFound ↔
      c.changes.all (fun kv => c.base.run.attrs.any (·.name == kv.1)) = false := by
  constructor
  · intro h
    cases hall : c.changes.all (fun kv => c.base.run.attrs.any (·.name == kv.1)) with
    | false => rfl
    | true =>
      have := (C12_assoc_spec c hwf hop hall).1
      rw [this] at h
      cases h
  · intro h; exact (C12_assoc_unknown_notfound c hwf hop h).1

/-- **C12_result_invariants**: outside the known findings, whatever either operation returns satisfies the
    class invariants (equal to, and hashing like, an instance rebuilt from its own values; frozen iff the
    class is). -/
theorem C12_result_invariants (c : Case) (hwf : wf c = true) (hk : known c = [])
    (he : (model c).exc = none) : (model c).invariants = true := by
  have p := wfParts c hwf
  cases hop : c.op with
  | evolve =>
    have hcm := (known_nil c hk).2 hop
    cases hall : c.changes.all (fun kv => (c.base.run.attrs.filter (·.init)).any (·.alias == kv.1)) with
    | false => rw [C12_unknown_typeerror c hwf hk hop hall] at he; cases he
    | true =>
      cases hv : vetoed c with
      | true => rw [(C12_evolve_vetoed c hwf hk hop hall hv).1] at he; cases he
      | false =>
        obtain ⟨e, _⟩ := runInit_evolve c p (known_nil c hk).1 hall
        have hvf : vetoFault (evolveCase c).run c.veto (runInit (evolveCase c)).values = none := by
          have := vetoFault_evolve c p (known_nil c hk).1 hall
          rw [hv] at this
          simpa using this
        rw [model_evolve c hop (evolveMissing_false c p)]
        simp only [e, hvf, hcm, Bool.false_and, Bool.not_false]
  | assoc =>
    unfold model failed at he ⊢
    simp only [hop] at he ⊢
    split
    · rfl
    · rename_i e h; simp [h] at he

/-- **C12_evolve_identity**: in the result of a successful `evolve` of a fully constructed instance, every init
    field without converter holds the very object that was given for it — the change if the field is named
    (also when that object merely equals the current one), else the object the original holds. -/
theorem C12_evolve_identity (c : Case) (hwf : wf c = true) (hk : known c = []) (hop : c.op = .evolve)
    (hall : c.changes.all (fun kv => (c.base.run.attrs.filter (·.init)).any (·.alias == kv.1)) = true)
    (hv : vetoed c = false)
    (a : Attr) (ha : a ∈ c.base.run.attrs) (hi : a.init = true) (hc : a.conv = none) :
    (a.name, identDemand (c.changes.any (·.1 == a.alias))) ∈ (model c).ident := by
  have p := wfParts c hwf
  obtain ⟨e, v⟩ := runInit_evolve c p (known_nil c hk).1 hall
  have hvf : vetoFault (evolveCase c).run c.veto (runInit (evolveCase c)).values = none := by
    have := vetoFault_evolve c p (known_nil c hk).1 hall
    rw [hv] at this
    simpa using this
  rw [v] at hvf
  have hid : (model c).ident = evolveIdent c.base.run.attrs c.changes (expectedValues c) := by
    rw [model_evolve c hop (evolveMissing_false c p)]
    simp only [e, v, hvf]
  rw [hid]
  unfold evolveIdent expectedValues
  rw [zip_map_filterMap]
  refine List.mem_filterMap.2 ⟨a, ha, ?_⟩
  obtain ⟨w, hw⟩ := Option.isSome_iff_exists.1 (lookup_evolve_kw c p a ha hi).2
  simp only [hi, if_true, hc, Option.isSome_none, hw, Option.map_some, identOf_some]

/-- **C12_assoc_identity**: the result of `assoc` with field names only holds, in every named field, the very
    object given (also when it equals the old one), and shares every other field's object with the original
    (a shallow copy); a field the original does not hold stays unset unless it is named. -/
theorem C12_assoc_identity (c : Case) (hwf : wf c = true) (hop : c.op = .assoc)
    (hall : c.changes.all (fun kv => c.base.run.attrs.any (·.name == kv.1)) = true)
    (kv : String × Option Val) (hkv : kv ∈ c.cur) :
    (kv.1, identDemandV (c.changes.any (·.1 == kv.1)) kv.2) ∈ (model c).ident := by
  have p := wfParts c hwf
  have hl : assocLoop (fun n => c.cur.any (·.1 == n)) c.changes = none := by
    apply assocLoop_all_fields
    rw [← hall]; congr 1; exact isField_eq c p
  have hid : (model c).ident = assocIdent c.cur c.changes := by
    unfold model
    rw [hop]
    simp only [hl]
  rw [hid]
  unfold assocIdent
  refine List.mem_map.2 ⟨kv, hkv, ?_⟩
  have hany := lookup_isSome_eq_any kv.1 c.changes
  cases hl2 : lookup kv.1 c.changes with
  | some u =>
    rw [hl2] at hany
    simp only [← hany, Option.isSome_some, identOf_some, identDemandV, identDemand, if_true]
  | none =>
    rw [hl2] at hany
    simp only [← hany, Option.isSome_none]
    cases hv : kv.2 with
    | none => rfl
    | some w => rfl

/-- **C12_model_meets_spec**: the model satisfies the declarative specification on every well-formed case
    outside the listed known findings (K2, K3). -/
theorem C12_model_meets_spec (c : Case) (hwf : wf c = true) (hk : known c = []) :
    spec c (model c) = true := by
  unfold spec
  simp only [C12_original_untouched, beq_self_eq_true, Bool.true_and]
  cases hop : c.op with
  | evolve =>
    simp only
    cases hall : c.changes.all (fun kv => (c.base.run.attrs.filter (·.init)).any (·.alias == kv.1)) with
    | true =>
      have hlike : (model c).likeDirect = true := by
        have p := wfParts c hwf
        rw [model_evolve c hop (evolveMissing_false c p)]
        repeat (first | rfl | split)
      cases hv : vetoed c with
      | true =>
        have := (C12_evolve_vetoed c hwf hk hop hall hv).1
        simp [this, hlike]
      | false =>
        obtain ⟨e, f, v⟩ := C12_evolve_values c hwf hk hop hall hv
        have hi := C12_result_invariants c hwf hk e
        have hid : (c.base.run.attrs.filter (·.init)).all (fun a => a.conv.isSome ||
            (model c).ident.contains (a.name, identDemand (c.changes.any (·.1 == a.alias)))) = true := by
          rw [List.all_eq_true]
          intro a ha
          obtain ⟨ha1, ha2⟩ := List.mem_filter.1 ha
          cases hc : a.conv with
          | some _ => rfl
          | none =>
            simp only [Option.isSome_none, Bool.false_or, List.contains_iff_mem]
            exact C12_evolve_identity c hwf hk hop hall hv a ha1 ha2 hc
        simp only [e, f, hi, hid, hlike, beq_self_eq_true, Bool.and_true, Bool.true_and, if_true,
          Bool.false_eq_true, if_false]
        rw [v]
        exact beq_iff_eq.2 rfl
    | false =>
      have := C12_unknown_typeerror c hwf hk hop hall
      simp [this]
  | assoc =>
    simp only
    cases hall : c.changes.all (fun kv => c.base.run.attrs.any (·.name == kv.1)) with
    | true =>
      obtain ⟨e, f, t, v⟩ := C12_assoc_spec c hwf hop hall
      have hi := C12_result_invariants c hwf hk e
      have hid : c.cur.all (fun kv =>
          (model c).ident.contains (kv.1, identDemandV (c.changes.any (·.1 == kv.1)) kv.2)) = true := by
        rw [List.all_eq_true]
        intro kv hkv
        simp only [List.contains_iff_mem]
        exact C12_assoc_identity c hwf hop hall kv hkv
      simp only [e, f, t, hi, hid, beq_self_eq_true, Bool.and_true, Bool.true_and, if_true]
      rw [v]
      exact beq_iff_eq.2 rfl
    | false =>
      have := (C12_assoc_unknown_notfound c hwf hop hall).1
      simp [this]

/-! ### known findings and non-vacuity -/

/-- the K3 witness: an instance of the K3 class of `C01.k3Witness` (a frozen dict class two levels below a
    frozen slotted one, legacy collection) evolved without changes -/
def k3Witness : Case :=
  { base := C01.k3Witness, op := .evolve, cur := [("x", some "v0")], changes := [], veto := [],
    copyNeedsAll := true }

/-- **C12_known_slot_belief_witness** (K3): evolve constructs through the same initializer, so on a K3 class
    the model — like the code — returns an instance whose field reads as unset. -/
theorem C12_known_slot_belief_witness :
    ∃ c, wf c = true ∧ "K3" ∈ known c ∧ spec c (model c) = false :=
  ⟨k3Witness, by decide, by decide, by decide⟩

/-- the K2 witness: a frozen dict hash-caching class whose cache attribute is a slot of a base -/
def k2Witness : Case :=
  { base := { run := { cfg := { frozen := true, slots := false, cacheHash := true, isExc := false, pre := .none,
                                post := false, clsHook := false, runValidators := true, collectByMro := true },
                       attrs := [{ name := "x", alias := "x", dflt := .none, init := true, kwOnly := false,
                                   conv := none, validators := 0, onSet := .unset, isSlot := false, type := none,
                                   convType := none }],
                       own := ["x"], bases := [], cacheIsSlot := true, fault := none },
              call := { pos := [], kw := [] }, isDefine := true, clsOnSet := .unset },
    op := .evolve, cur := [("x", some "v0")], changes := [("x", "t1")], veto := [], copyNeedsAll := false }

/-- **C12_known_cache_misplaced_witness** (K2): the evolved instance cannot be hashed, so the invariants fail
    (an `assoc` result can: the copy's cache is reset in the slot, see `cacheMisplaced`). -/
theorem C12_known_cache_misplaced_witness :
    ∃ c, wf c = true ∧ "K2" ∈ known c ∧ spec c (model c) = false :=
  ⟨k2Witness, by decide, by decide, by decide⟩

example : wf { k2Witness with op := .assoc } = true ∧ known { k2Witness with op := .assoc } = [] ∧
    spec { k2Witness with op := .assoc } (model { k2Witness with op := .assoc }) = true :=
  ⟨by decide, by decide, by decide⟩

/-- a slotted class with a converted init field, an `init=False` factory field and a keyword-only field with
    a private name; the second field was reassigned before -/
def sample : Case :=
  { base := { run := { cfg := { frozen := false, slots := true, cacheHash := false, isExc := false, pre := .none,
                                post := false, clsHook := false, runValidators := true, collectByMro := true },
                       attrs := [{ name := "x", alias := "x", dflt := .none, init := true, kwOnly := false,
                                   conv := some { takesSelf := false, takesField := false }, validators := 1,
                                   onSet := .unset, isSlot := true, type := none, convType := none },
                                 { name := "y", alias := "y", dflt := .factory true, init := false, kwOnly := false,
                                   conv := none, validators := 0, onSet := .unset, isSlot := true, type := none,
                                   convType := none },
                                 { name := "_z", alias := "z", dflt := .value, init := true, kwOnly := true,
                                   conv := none, validators := 0, onSet := .unset, isSlot := true, type := none,
                                   convType := none }],
                       own := ["x", "y", "_z"], bases := [], cacheIsSlot := false, fault := none },
              call := { pos := [], kw := [] }, isDefine := true, clsOnSet := .unset },
    op := .evolve, cur := [("x", some "conv.x(t1)"), ("y", some "w"), ("_z", some "t2")],
    changes := [("z", "t3")],
    -- the validator of `x` rejects instances whose `_z` is bad
    veto := [{ field := "x", idx := 0, watch := "_z" }], copyNeedsAll := true }

/-- non-vacuity: the hypotheses of `C12_evolve_values` / `C12_model_meets_spec` are satisfiable by a
    non-trivial evolve case, … -/
example : wf sample = true ∧ known sample = [] ∧
    sample.changes.all (fun kv => (sample.base.run.attrs.filter (·.init)).any (·.alias == kv.1)) = true ∧
    (model sample).values = [("x", some "conv.x(conv.x(t1))"), ("y", some "factory.y(self)"), ("_z", some "t3")] := by
  refine ⟨by decide, by decide, by decide, by decide⟩

/-- … those of `C12_unknown_typeerror` by one naming the field instead of its alias, … -/
example : wf { sample with changes := [("_z", "t3")] } = true ∧ known { sample with changes := [("_z", "t3")] } = [] ∧
    (model { sample with changes := [("_z", "t3")] }).exc = some .typeError := by
  refine ⟨by decide, by decide, by decide⟩

/-- … and those of `C12_assoc_spec` / `C12_assoc_unknown_notfound` by assoc cases. -/
example : wf { sample with op := .assoc, changes := [("_z", "t3")] } = true ∧
    (model { sample with op := .assoc, changes := [("_z", "t3")] }).values =
      [("x", some "conv.x(t1)"), ("y", some "w"), ("_z", some "t3")] ∧
    wf { sample with op := .assoc, changes := [("z", "t3")] } = true ∧
    (model { sample with op := .assoc, changes := [("z", "t3")] }).exc = some .notFound := by
  refine ⟨by decide, by decide, by decide, by decide⟩

/-- … and those of `C12_evolve_identity` / `C12_assoc_identity` by changes that *equal* the current values: the
    named fields hold the object passed, the others the original's, a converted field another object. -/
example : wf { sample with changes := [("z", "t2")] } = true ∧
    (model { sample with changes := [("z", "t2")] }).ident = [("x", .other), ("_z", .passed)] ∧
    wf { sample with op := .assoc, changes := [("x", "conv.x(t1)"), ("_z", "t2")] } = true ∧
    (model { sample with op := .assoc, changes := [("x", "conv.x(t1)"), ("_z", "t2")] }).ident =
      [("x", .passed), ("y", .orig), ("_z", .passed)] := by
  refine ⟨by decide, by decide, by decide, by decide⟩

/-- non-vacuity of `C12_evolve_vetoed`: the validator of `x` looks at `_z` — (1) changing ONLY `_z` to a bad value is
    refused, after pre-init/converter callbacks and up to that validator; (2) so is an evolve that changes nothing
    relevant after the original's `_z` was mutated into a bad state (carried-over invalid value); (3) with no bad
    value around the same evolve succeeds. -/
example : wf { sample with changes := [("z", "bad1")] } = true ∧ known { sample with changes := [("z", "bad1")] } = [] ∧
    vetoed { sample with changes := [("z", "bad1")] } = true ∧
    (model { sample with changes := [("z", "bad1")] }).exc = some .user ∧
    (model { sample with changes := [("z", "bad1")] }).trace =
      [{ id := { kind := "conv", field := "x", idx := 0 }, args := ["conv.x(t1)"] },
       { id := { kind := "factory", field := "y", idx := 0 }, args := ["self"] },
       { id := { kind := "validator", field := "x", idx := 0 }, args := ["self", "attr.x", "conv.x(conv.x(t1))"] }] := by
  refine ⟨by decide, by decide, by decide, by decide, by decide⟩

/-- the original's `_z` was reassigned to a bad value -/
def mutatedSample : Case :=
  { sample with cur := [("x", some "conv.x(t1)"), ("y", some "w"), ("_z", some "bad0")], changes := [] }

example : wf mutatedSample = true ∧ vetoed mutatedSample = true ∧ (model mutatedSample).exc = some .user ∧
    vetoed sample = false := by
  refine ⟨by decide, by decide, by decide, by decide⟩

/-- a dict instance whose `init=False` field `y` is unset -/
def unsetSample : Case :=
  { sample with op := .assoc, copyNeedsAll := false, cur := [("x", some "v"), ("y", none), ("_z", some "t2")] }

/-- assoc stores a value the validators would reject without asking them, and leaves an unset field of a dict
    instance unset unless it is named -/
example : (model { sample with op := .assoc, changes := [("_z", "bad1")] }).exc = none ∧
    (model { sample with op := .assoc, changes := [("_z", "bad1")] }).trace = [] ∧
    wf { unsetSample with changes := [("x", "n1")] } = true ∧
    (model { unsetSample with changes := [("x", "n1")] }).ident = [("x", .passed), ("y", .unset), ("_z", .orig)] ∧
    (model { unsetSample with changes := [("y", "n1")] }).values =
      [("x", some "v"), ("y", some "n1"), ("_z", some "t2")] := by
  refine ⟨by decide, by decide, by decide, by decide, by decide⟩

/-- the former K12a shape (repaired in /repo): `count` is no field of `sample` but an attribute of every tuple -/
def tupleNameCase : Case := { sample with op := .assoc, changes := [("count", "t9")] }

/-- a class with a FIELD named `count` (and one named `index`) -/
def countFieldCase : Case :=
  { base := { run := { cfg := { frozen := false, slots := false, cacheHash := false, isExc := false, pre := .none,
                                post := false, clsHook := false, runValidators := true, collectByMro := true },
                       attrs := [{ name := "count", alias := "count", dflt := .none, init := true, kwOnly := false,
                                   conv := none, validators := 0, onSet := .unset, isSlot := false, type := none,
                                   convType := none },
                                 { name := "index", alias := "index", dflt := .value, init := true, kwOnly := false,
                                   conv := none, validators := 0, onSet := .unset, isSlot := false, type := none,
                                   convType := none }],
                       own := ["count", "index"], bases := [], cacheIsSlot := false, fault := none },
              call := { pos := [], kw := [] }, isDefine := false, clsOnSet := .unset },
    op := .assoc, cur := [("count", some "t1"), ("index", some "dflt.index")],
    changes := [("count", "n1"), ("index", "n2")], veto := [], copyNeedsAll := false }

/-- **C12_tuple_names_rejected** (was known finding K12a): names that resolve on every fields tuple are no fields:
    `assoc(inst, count=…)` / `index` / `__len__` / `__doc__` raise AttrsAttributeNotFoundError like any other
    non-field name — alone, after a genuine field, or before one — and hand out nothing; a FIELD that is itself
    named `count` / `index` is replaced like any other field. -/
theorem C12_tuple_names_rejected :
    wf tupleNameCase = true ∧ known tupleNameCase = [] ∧ spec tupleNameCase (model tupleNameCase) = true ∧
    (model tupleNameCase).exc = some .notFound ∧ (model tupleNameCase).values = [] ∧
    (model { tupleNameCase with changes := [("index", "t9")] }).exc = some .notFound ∧
    (model { tupleNameCase with changes := [("x", "n1"), ("__len__", "t9")] }).exc = some .notFound ∧
    (model { tupleNameCase with changes := [("__doc__", "t9"), ("x", "n1")] }).exc = some .notFound ∧
    (model { tupleNameCase with changes := [("describe", "t9")] }).exc = some .notFound ∧
    wf countFieldCase = true ∧ (model countFieldCase).exc = none ∧
    (model countFieldCase).values = [("count", some "n1"), ("index", some "n2")] ∧
    (model { countFieldCase with changes := [("count", "n1"), ("__len__", "n2")] }).exc = some .notFound := by
  refine ⟨by decide, by decide, by decide, by decide, by decide, by decide, by decide, by decide, by decide,
    by decide, by decide, by decide, by decide⟩

end Attrs.C12
