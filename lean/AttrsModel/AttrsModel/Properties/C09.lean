/-
  C09 — property theorems.  Field lists, tuples and value domains are arbitrary (any length, any
  type with a strict total order); the decision tables are checked exhaustively.
  Helper lemmas: Proofs/C09.lean (tuple comparison), Proofs/C09Tables.lean (tables), Proofs/C09Case.lean.
-/
import AttrsModel.Proofs.C09Case
import AttrsModel.Proofs.SrcFuncs
import AttrsModel.Proofs.SrcWrap

namespace Attrs.C09

/-! ### generated method = tuple comparison of the keyed order fields -/

/-- **C09_is_tuple_compare**: for a class that could be built and for which ordering is generated, and a
    same-class operand, each of the four methods `C.__op__(x, y)` and each operator in both directions
    returns exactly the declarative tuple comparison (`declCmp`: the operator applied at the first position
    that is neither identical nor equal, else the comparison of the equal lengths) of the documented order
    tuple (`declItems`: the order-participating fields, inherited first, each through its order key);
    the value comparisons performed are exactly those up to that position. -/
theorem C09_is_tuple_compare (c : Case) (hb : built c = true) (hg : generated c = true)
    (hs : sameClass c = true) (op : Op) :
    (directCall c op).1 = declCmp op (declItems c true) ∧
    (directCall c op).2 = declTrace op (declItems c true) ∧
    binop c op true = declCmp op (declItems c true) ∧
    binop c op false = declCmp op (declItems c false) := by
  have hf := built_fields c hb
  unfold directCall
  rw [direct_same c hg hs, binop_same c hg hs, binop_same c hg hs, orderItems_decl c true hf,
    orderItems_decl c false hf, tupleCmp_eq_declCmp, tupleCmp_eq_declCmp, tupleCmp_trace]
  exact ⟨rfl, rfl, rfl, rfl⟩

/-- **C09_keys_every_comparison**: each call of a generated method on a same-class operand applies the key
    function of every keyed order-participating field to self's value and then to other's — once each, in
    field order, whatever the values are and whatever was compared before (the model keeps no memory);
    with an operand of another class no key function is applied at all. -/
theorem C09_keys_every_comparison (c : Case) (hb : built c = true) (hg : generated c = true) (op : Op) :
    keyCalls c (resolve c .C op) =
      if sameClass c then declKeyTags c ++ declKeyTags c else [] := by
  cases hs : sameClass c
  · simp [keyCalls, resolve, status_gen c hg, implOfStatus, rhsKls_other c hs]
  · simp [keyCalls, resolve, status_gen c hg, implOfStatus, rhsKls_same c hs,
      keyTags_decl c (built_fields c hb)]

/-- all positions identical or equal ⇒ the tuples are equal: `<`, `>` give False, `<=`, `>=` True,
    whatever the operators of the values would say -/
theorem C09_tuple_all_equal (op : Op) (its : List Item) (h : ∀ it ∈ its, eqish it = true) :
    (tupleCmp op its).1 = lenRes op := by
  rw [tupleCmp_eq_declCmp]; exact declCmp_all_equal op its h

/-- the first-difference rule: the result is what the operator gives on the first pair that is neither
    identical nor equal (an exception if that `==` raised), whatever follows -/
theorem C09_tuple_first_difference (op : Op) (pre post : List Item) (it : Item)
    (hpre : ∀ p ∈ pre, eqish p = true) (hit : eqish it = false) :
    (tupleCmp op (pre ++ it :: post)).1 = if it.s.eq = .raises then .raised else Res.ofOut (it.s.get op) := by
  rw [tupleCmp_eq_declCmp]; exact declCmp_first_difference op pre post it hpre hit

/-- over natural numbers the model's tuple comparison is Lean's own lexicographic order on `List Nat`
    (`same` flags may mark equal numbers as one object, as CPython's small-int cache does) -/
theorem C09_nat_is_lex (l : List (Bool × Nat × Nat)) (h : ∀ t ∈ l, t.1 = true → t.2.1 = t.2.2) :
    (tupleCmp .lt (l.map natItem)).1 = Res.ofBool (decide (l.map (·.2.1) < l.map (·.2.2))) ∧
    (tupleCmp .le (l.map natItem)).1 = Res.ofBool (decide (l.map (·.2.1) ≤ l.map (·.2.2))) ∧
    (tupleCmp .gt (l.map natItem)).1 = Res.ofBool (decide (l.map (·.2.2) < l.map (·.2.1))) ∧
    (tupleCmp .ge (l.map natItem)).1 = Res.ofBool (decide (l.map (·.2.2) ≤ l.map (·.2.1))) := by
  simp only [tupleCmp_eq_declCmp]; exact nat_lex l h

example : (tupleCmp .lt ([(false, 1, 1), (false, 0, 2)].map natItem)).1 = .T := by decide

/-- hence, over the naturals, the generated `<` is transitive across three instances (tuples of any length) -/
theorem C09_nat_transitive (xs ys zs : List Nat) (h1 : xs.length = ys.length) (h2 : ys.length = zs.length)
    (a : (tupleCmp .lt (natTuple xs ys)).1 = .T) (b : (tupleCmp .lt (natTuple ys zs)).1 = .T) :
    (tupleCmp .lt (natTuple xs zs)).1 = .T := by
  rw [natTuple_lt _ _ h1] at a
  rw [natTuple_lt _ _ h2] at b
  rw [natTuple_lt _ _ (h1.trans h2)]
  have a' : xs < ys := by
    by_cases h : xs < ys
    · exact h
    · simp [h, Res.ofBool] at a
  have b' : ys < zs := by
    by_cases h : ys < zs
    · exact h
    · simp [h, Res.ofBool] at b
  have : xs < zs := List.lt_trans a' b'
  simp [this, Res.ofBool]

example : (tupleCmp .lt (natTuple [1, 0] [1, 2])).1 = .T ∧ (tupleCmp .lt (natTuple [1, 2] [2, 0])).1 = .T := by decide

/-! ### mutual consistency -/

/-- **C09_flip** (tuples): if the converse comparisons of the values are the mirror of the direct ones
    (`b > a` is `a < b`, `b >= a` is `a <= b`, `b == a` is `a == b`), then `x < y` is `y > x`,
    `x <= y` is `y >= x`, and so on — as values, not just as truth values. -/
theorem C09_flip_tuples (its : List Item) :
    (tupleCmp .lt its).1 = (tupleCmp .gt (its.map Item.flip)).1 ∧
    (tupleCmp .le its).1 = (tupleCmp .ge (its.map Item.flip)).1 ∧
    (tupleCmp .gt its).1 = (tupleCmp .lt (its.map Item.flip)).1 ∧
    (tupleCmp .ge its).1 = (tupleCmp .le (its.map Item.flip)).1 := by
  simp only [tupleCmp_eq_declCmp]; exact flip_lt_gt its

/-- **C09_flip**: on a class with generated ordering, for two instances of the class (whose field values'
    reflected comparisons agree, as the model assumes): `x < y` is `y > x`, `x <= y` is `y >= x`,
    `x > y` is `y < x`, `x >= y` is `y <= x` — as values, whatever the field lists and the values. -/
theorem C09_flip (c : Case) (hb : built c = true) (hg : generated c = true) (hs : sameClass c = true) :
    binop c .lt true = binop c .gt false ∧ binop c .le true = binop c .ge false ∧
    binop c .gt true = binop c .lt false ∧ binop c .ge true = binop c .le false := by
  have h := fun op => C09_is_tuple_compare c hb hg hs op
  rw [(h .lt).2.2.1, (h .le).2.2.1, (h .gt).2.2.1, (h .ge).2.2.1,
      (h .lt).2.2.2, (h .le).2.2.2, (h .gt).2.2.2, (h .ge).2.2.2, declItems_rev c]
  exact flip_lt_gt _

/-- **C09_le_iff** (tuples): over a strict total order, `x <= y` iff `x < y` or the tuples are equal
    (every position identical or equal); likewise for `>=`; and the results are plain booleans. -/
theorem C09_le_iff_tuples (its : List Item) (h : TotalItems its) :
    (tupleCmp .le its).1.isTruthy = ((tupleCmp .lt its).1.isTruthy || its.all eqish) ∧
    (tupleCmp .ge its).1.isTruthy = ((tupleCmp .gt its).1.isTruthy || its.all eqish) := by
  simp only [tupleCmp_eq_declCmp]; exact le_iff_total its h

/-- **C09_le_iff**: the same on a class whose order-participating values come from a strict total order
    compatible with `==` and identity (`orderly`). -/
theorem C09_le_iff (c : Case) (hb : built c = true) (hg : generated c = true) (hs : sameClass c = true)
    (ho : orderly c = true) :
    (binop c .le true).isTruthy = ((binop c .lt true).isTruthy || tuplesEqual c) ∧
    (binop c .ge true).isTruthy = ((binop c .gt true).isTruthy || tuplesEqual c) := by
  have h := fun op => C09_is_tuple_compare c hb hg hs op
  rw [(h .lt).2.2.1, (h .le).2.2.1, (h .gt).2.2.1, (h .ge).2.2.1]
  exact le_iff_total _ (orderly_total c ho)

/-- non-vacuity of the hypotheses of `C09_is_tuple_compare`, `C09_flip`, `C09_le_iff`: a built class with
    generated ordering over two totally ordered fields, unequal tuples -/
example : ∃ c, built c = true ∧ generated c = true ∧ sameClass c = true ∧ orderly c = true ∧
    (declItems c true).length = 2 ∧ tuplesEqual c = false ∧ binop c .lt true = .T :=
  ⟨{ (default : Case) with
      fields := [
        { (default : Field) with name := "a", raw := ⟨true, natScript 1 1⟩ },
        { (default : Field) with name := "b", order := .key, ok := ⟨false, natScript 0 2⟩ }] },
    by decide⟩

/-- one tuple position over an abstract value domain -/
def domItem {α : Type} (d : Dom α) (t : Bool × α × α) : Item := { tag := "", same := t.1, s := d.script t.2.1 t.2.2 }
/-- the same position seen from the other operand -/
def domItemRev {α : Type} (d : Dom α) (t : Bool × α × α) : Item := { tag := "", same := t.1, s := d.script t.2.2 t.2.1 }

/-- **C09_flip / C09_le_iff over any strict total order**: for every type with a `<` that is a strict
    total order compatible with `==` (hypothesis `StrictTotal`), and tuples of any length over it:
    `x < y` = `y > x`, `x <= y` = `y >= x`, `x <= y` ⇔ `x < y` ∨ tuples equal, `x >= y` ⇔ `x > y` ∨ equal. -/
theorem C09_consistent_any_total_order {α : Type} (d : Dom α) (hd : d.StrictTotal) (l : List (Bool × α × α))
    (hsame : ∀ t ∈ l, t.1 = true → t.2.1 = t.2.2) :
    (tupleCmp .lt (l.map (domItem d))).1 = (tupleCmp .gt (l.map (domItemRev d))).1 ∧
    (tupleCmp .le (l.map (domItem d))).1 = (tupleCmp .ge (l.map (domItemRev d))).1 ∧
    (tupleCmp .le (l.map (domItem d))).1.isTruthy =
      ((tupleCmp .lt (l.map (domItem d))).1.isTruthy || (l.map (domItem d)).all eqish) ∧
    (tupleCmp .ge (l.map (domItem d))).1.isTruthy =
      ((tupleCmp .gt (l.map (domItem d))).1.isTruthy || (l.map (domItem d)).all eqish) := by
  have hrev : l.map (domItemRev d) = (l.map (domItem d)).map Item.flip := by
    rw [List.map_map]
    apply List.map_congr_left
    intro t _
    simp only [Function.comp, domItemRev, domItem, Item.flip, (d.script_total hd t.2.1 t.2.2).2.2]
  have htot : TotalItems (l.map (domItem d)) := by
    intro it hit
    obtain ⟨t, ht, rfl⟩ := List.mem_map.1 hit
    have := d.script_total hd t.2.1 t.2.2
    exact ⟨this.1, fun hs => this.2.1 (hsame t ht hs)⟩
  have hf := C09_flip_tuples (l.map (domItem d))
  have hl := C09_le_iff_tuples _ htot
  rw [hrev]
  exact ⟨hf.1, hf.2.1, hl.1, hl.2⟩

/-- the natural numbers are such a domain (non-vacuity of `StrictTotal`) -/
example : natDom.StrictTotal := natDom_strictTotal

/-- over a strict total order exactly one of `x < y`, tuples equal, `x > y` holds -/
theorem C09_trichotomy (its : List Item) (h : TotalItems its) :
    ((tupleCmp .lt its).1 = .T ∧ its.all eqish = false ∧ (tupleCmp .gt its).1 = .F) ∨
    ((tupleCmp .lt its).1 = .F ∧ its.all eqish = true ∧ (tupleCmp .gt its).1 = .F) ∨
    ((tupleCmp .lt its).1 = .F ∧ its.all eqish = false ∧ (tupleCmp .gt its).1 = .T) := by
  simp only [tupleCmp_eq_declCmp]
  induction its with
  | nil => simp [declCmp, lenRes]
  | cons it rest ih =>
    have hit := h it List.mem_cons_self
    have hrest : TotalItems rest := fun j hj => h j (List.mem_cons_of_mem _ hj)
    have st := total_step it hit.1 hit.2
    simp only [declCmp, List.find?_cons, List.all_cons] at ih ⊢
    cases he : eqish it
    · obtain ⟨h1, _, _, h4⟩ := st.2 he
      rcases h4 with ⟨a, b⟩ | ⟨a, b⟩ <;> simp [h1, a, b, Script.get, Res.ofOut]
    · simpa using ih hrest

/-! ### fields that do not take part -/

/-- `g` rewrites fields without touching names, arguments and placement, and leaves every field that
    takes part in ordering alone -/
def OnlyNonparticipating (g : Field → Field) (fs : List Field) : Prop :=
  ∀ f ∈ fs, (g f).name = f.name ∧ (g f).cmp = f.cmp ∧ (g f).eq = f.eq ∧ (g f).order = f.order ∧
    (g f).inBase = f.inBase ∧ (f.orderPart = true → g f = f)

/-- **C09_nonparticipating_irrelevant**: rewriting the values (comparison scripts) of fields that do not
    take part in ordering — in any way — changes nothing that is observed: results, traces, statuses,
    definition-time outcome. -/
theorem C09_nonparticipating_irrelevant (c : Case) (g : Field → Field) (h : OnlyNonparticipating g c.fields) :
    model { c with fields := c.fields.map g } = model c := by
  have hres : ∀ f ∈ c.fields, (g f).resolved = f.resolved := by
    intro f hf; obtain ⟨_, h2, h3, h4, _, _⟩ := h f hf
    simp [Field.resolved, h2, h3, h4]
  have hpart : ∀ f ∈ c.fields, (g f).orderPart = f.orderPart := by
    intro f hf; simp [Field.orderPart, hres f hf]
  have hFE : fieldErrs { c with fields := c.fields.map g } = fieldErrs c := by
    unfold fieldErrs
    exact patch_filter_map g (fun f => f.resolved.isNone) (·.name) c.fields
      (fun f hf => by simp [hres f hf]) (fun f hf _ => (h f hf).1)
  have hAL : ∀ b, attrList { c with fields := c.fields.map g } b = (attrList c b).map g := by
    intro b
    unfold attrList
    have e1 := map_filter_patch g (·.inBase) c.fields (fun f hf => (h f hf).2.2.2.2.1)
    have e2 := map_filter_patch g (fun f => !f.inBase) c.fields (fun f hf => by simp [(h f hf).2.2.2.2.1])
    cases b <;> simp [e1, e2]
  have hmem : ∀ b, ∀ f ∈ attrList c b, f ∈ c.fields := by
    intro b f hf
    unfold attrList at hf
    cases b
    · simp only [Bool.false_eq_true, if_false] at hf
      rcases List.mem_append.1 hf with hf | hf <;> exact (List.mem_filter.1 hf).1
    · simp only [if_true] at hf
      exact (List.mem_filter.1 hf).1
  have hOI : ∀ b fwd, orderItems { c with fields := c.fields.map g } b fwd = orderItems c b fwd := by
    intro b fwd
    unfold orderItems
    rw [hAL b]
    exact patch_filter_map g Field.orderPart _ (attrList c b)
      (fun f hf => hpart f (hmem b f hf))
      (fun f hf hp => by rw [(h f (hmem b f hf)).2.2.2.2.2 hp])
  have hKT : ∀ b, keyTags { c with fields := c.fields.map g } b = keyTags c b := by
    intro b
    unfold keyTags
    rw [hAL b]
    exact patch_filter_map g (fun f => f.orderPart && f.orderView != .raw) _ (attrList c b)
      (fun f hf => by simp [Field.orderPart, Field.orderView, hres f (hmem b f hf)])
      (fun f hf hp => by
        have hp' : f.orderPart = true := by
          simp only [Bool.and_eq_true] at hp; exact hp.1
        rw [(h f (hmem b f hf)).2.2.2.2.2 hp'])
  have hKC : ∀ impl, keyCalls { c with fields := c.fields.map g } impl = keyCalls c impl := by
    intro impl
    cases impl <;> simp [keyCalls, hKT]
  have hRes : ∀ k op, resolve { c with fields := c.fields.map g } k op = resolve c k op := fun _ _ => rfl
  have hSt : ∀ op, statusOf { c with fields := c.fields.map g } op = statusOf c op := fun _ => rfl
  have hCE : clsErr { c with fields := c.fields.map g } = clsErr c := rfl
  have hCall : ∀ impl op b, callImpl { c with fields := c.fields.map g } impl op b = callImpl c impl op b := by
    intro impl op b
    cases impl <;> simp [callImpl, hOI]
  have hBin : ∀ op b, binop { c with fields := c.fields.map g } op b = binop c op b := by
    intro op b
    simp only [binop, hCall, hRes]
  have hDir : ∀ op, directCall { c with fields := c.fields.map g } op = directCall c op := by
    intro op
    simp only [directCall, hCall, hRes]
  have hB : built { c with fields := c.fields.map g } = built c := by
    simp only [built, hCE, hFE]
  simp only [model, hB, hSt, hBin, hDir, hCE, hFE, hKC, hRes]

/-- non-vacuity: such a rewriting exists and does change the case -/
example : ∃ (c : Case) (g : Field → Field), OnlyNonparticipating g c.fields ∧ c.fields.map g ≠ c.fields :=
  ⟨{ (default : Case) with fields := [{ (default : Field) with name := "a", order := .f }] },
   fun f => { f with raw := { f.raw with same := true } }, by
     intro f hf
     simp at hf
     subst hf
     decide, by decide⟩

/-! ### other classes -/

/-- **C09_notimpl**: on a class with generated ordering, for an operand of any other class — an instance
    of a subclass (plain or attrs), of the base class, or of an unrelated class — each of the four methods
    returns NotImplemented without comparing any value, and each operator raises TypeError in both
    directions (CPython's dispatch tries the other side's reflected method, which also declines). -/
theorem C09_notimpl (c : Case) (hg : generated c = true) (hs : sameClass c = false) (op : Op) :
    directCall c op = (.NI, []) ∧ binop c op true = .typeErr ∧ binop c op false = .typeErr :=
  ⟨callImpl_other c hg hs .C op true, binop_other c hg hs op true, binop_other c hg hs op false⟩

example : ∃ c, generated c = true ∧ sameClass c = false :=
  ⟨{ (default : Case) with rhs := .sub }, by decide, by decide⟩

/-! ### resolution tables -/

/-- **C09_resolution** (class level, exhaustive over api × cmp × eq × order × auto_detect × own methods,
    four-state flags, keyword defaults from `Generated/Tables.lean`): the definition-time outcome and
    whether ordering is generated are exactly the documented table `declClass` — `cmp` mixed with
    `eq`/`order` and `order=True` with `eq=False` are ValueErrors, explicit `order`/`cmp` win, otherwise
    ordering mirrors `eq`, except that `define` leaves it off unless `order` is passed. -/
theorem C09_resolution (c : Case) (hd : ¬ (c.api = .define ∧ c.cmp ≠ .unset)) :
    clsErr c = (if declRejects c then .valueError else .ok) ∧ generated c = declGenerated c :=
  class_table c hd

/-- the defaults the table is about, as found in the source (T1) -/
theorem C09_defaults_documented :
    kwDefault Generated.attrsKw "order" = some Lit.none ∧ kwDefault Generated.attrsKw "eq" = some Lit.none ∧
    kwDefault Generated.attrsKw "cmp" = some Lit.none ∧ kwDefault Generated.attrsKw "auto_detect" = some (Lit.bool false) ∧
    kwDefault Generated.defineKw "order" = some (Lit.bool false) ∧ kwDefault Generated.defineKw "eq" = some Lit.none ∧
    kwDefault Generated.defineKw "cmp" = none ∧ kwDefault Generated.defineKw "auto_detect" = some (Lit.bool true) :=
  ⟨kw_attrs_order, kw_attrs_eq, kw_attrs_cmp, kw_attrs_ad, kw_define_order, kw_define_eq, kw_define_cmp, kw_define_ad⟩

/-- under attr.s, with neither `cmp` nor `order` given, ordering mirrors `eq` -/
theorem C09_resolution_attrs_mirrors_eq (c : Case) (ha : c.api = .attrS) (hc : c.cmp.given = false)
    (ho : c.order.given = false) :
    clsErr c = .ok ∧
    generated c = (if c.eq.given then c.eq.val else !(declAutoDetect c && !c.own.isEmpty)) := by
  obtain ⟨h1, h2⟩ := class_table c (by simp [ha])
  rw [h1, h2]
  cases hcm : c.cmp <;> cases hor : c.order <;> cases heq : c.eq <;>
    simp_all [declRejects, declGenerated, declClass, onOff, Arg4.given, Arg4.val]

/-- under define ordering is off unless `order` is passed; `order=None` mirrors `eq` -/
theorem C09_resolution_define (c : Case) (ha : c.api = .define) (hc : c.cmp = .unset) :
    (c.order = .unset → clsErr c = .ok ∧ generated c = false) ∧
    (c.order = .non → clsErr c = .ok ∧
      generated c = (if c.eq.given then c.eq.val else !(declAutoDetect c && !c.own.isEmpty))) := by
  obtain ⟨h1, h2⟩ := class_table c (by simp [hc])
  rw [h1, h2]
  constructor <;> intro ho <;> cases heq : c.eq <;>
    simp [declRejects, declGenerated, declClass, hc, ho, heq, ha, onOff, Arg4.given, Arg4.val]

/-- `order=True` with `eq=False`, and `cmp` mixed with `eq` or `order`, are rejected with ValueError by
    every front-end -/
theorem C09_resolution_rejects (c : Case) (hd : ¬ (c.api = .define ∧ c.cmp ≠ .unset)) :
    (c.cmp.given = false → c.eq = .f → c.order = .t → clsErr c = .valueError) ∧
    (c.cmp.given = true → (c.eq.given = true ∨ c.order.given = true) → clsErr c = .valueError) := by
  obtain ⟨h1, _⟩ := class_table c hd
  rw [h1]
  constructor
  · intro hc he ho
    cases hcm : c.cmp <;> simp_all [declRejects, declClass, Arg4.given, Arg4.val, onOff]
  · intro hc h
    rcases h with h | h <;> simp [declRejects, declClass, hc, h]

/-- **C09_resolution** (field level, exhaustive over cmp × eq × order in {unset, True, False, key}):
    `attr.ib` raises exactly for `cmp` mixed with `eq`/`order` and for an ordering request on a field with
    `eq=False`; otherwise participation and the key used are the documented ones: `order=` wins, else
    `cmp=`, else ordering mirrors `eq=` including its key. -/
theorem C09_resolution_field (f : Field) :
    (f.resolved.isNone = fieldRejected f) ∧
    (fieldRejected f = false → f.orderPart = (declPart f).1 ∧ f.orderView = (declPart f).2) :=
  field_ok f

/-- with neither `cmp=` nor `order=`, a field takes part in ordering iff it takes part in equality, through
    the same key -/
theorem C09_resolution_field_mirrors_eq (f : Field) (hc : f.cmp = .unset) (ho : f.order = .unset) :
    f.resolved.isSome = true ∧ f.orderPart = (f.eq != .f) ∧ f.orderView = (if f.eq = .key then .ek else .raw) := by
  cases he : f.eq <;>
    simp [Field.resolved, Field.orderPart, Field.orderView, determineAttrib, decideCallable, hc, ho, he]

/-! ### the model satisfies the specification -/

/-- **C09_model_meets_spec**: the model satisfies the declarative specification on every case
    (no well-formedness hypothesis is needed; there are no known deviations for this property). -/
theorem C09_model_meets_spec (c : Case) : spec c (model c) = true := by
  have specSame_model : built c = true → generated c = true → sameClass c = true → specSame c (model c) = true := by
    intro hb hg hs
    have h := fun op => C09_is_tuple_compare c hb hg hs op
    have hfl := C09_flip c hb hg hs
    have hle := C09_le_iff c hb hg hs
    have hops : ∀ op, (model c).ops.get op = binop c op true := by
      intro op; cases op <;> simp [model, hb, ResQ.get]
    have hrops : ∀ op, (model c).rops.get op = binop c op false := by
      intro op; cases op <;> simp [model, hb, ResQ.get]
    have hdir : ∀ op, (model c).direct.get op = (directCall c op).1 := by
      intro op; cases op <;> simp [model, hb, ResQ.get]
    have htr : ∀ op, (model c).trace.get op = (directCall c op).2 := by
      intro op; cases op <;> simp [model, hb, TrQ.get]
    have hkeys : ∀ op, (model c).keys.get op = keyTags c false ++ keyTags c false := by
      intro op
      cases op <;>
        simp [model, hb, TrQ.get, keyCalls, resolve, status_gen c hg, implOfStatus, rhsKls_same c hs]
    unfold specSame
    simp only [Bool.and_eq_true, List.all_eq_true, Bool.or_eq_true, Bool.not_eq_true', beq_iff_eq]
    obtain ⟨f1, f2, f3, f4⟩ := hfl
    have e1 : (model c).ops.lt = binop c .lt true := hops .lt
    have e2 : (model c).ops.le = binop c .le true := hops .le
    have e3 : (model c).ops.gt = binop c .gt true := hops .gt
    have e4 : (model c).ops.ge = binop c .ge true := hops .ge
    have r1 : (model c).rops.lt = binop c .lt false := hrops .lt
    have r2 : (model c).rops.le = binop c .le false := hrops .le
    have r3 : (model c).rops.gt = binop c .gt false := hrops .gt
    have r4 : (model c).rops.ge = binop c .ge false := hrops .ge
    refine ⟨⟨⟨⟨⟨?_, ?_⟩, ?_⟩, ?_⟩, ?_⟩, ?_⟩
    · intro op _
      rw [hdir, hops, hrops, htr, (h op).1, (h op).2.1, (h op).2.2.1, (h op).2.2.2]
      refine ⟨⟨⟨⟨rfl, rfl⟩, rfl⟩, ?_⟩, ?_⟩
      · intro t ht
        exact List.contains_iff_mem.2 (declTrace_allowed op _ t ht)
      · intro t ht
        rw [hkeys, keyTags_decl c (built_fields c hb)] at ht
        apply List.contains_iff_mem.2
        rcases List.mem_append.1 ht with h' | h' <;> exact h'
    · rw [e1, r3, f1]
    · rw [e2, r4, f2]
    · rw [e3, r1, f3]
    · rw [e4, r2, f4]
    · cases ho : orderly c
      · left; rfl
      · right
        obtain ⟨l1, l2⟩ := hle ho
        rw [e1, e2, e3, e4, l1, l2]
        simp
  have specOther_model : built c = true → generated c = true → sameClass c = false → specOther (model c) = true := by
    intro hb hg hs
    have h := fun op => C09_notimpl c hg hs op
    have hk := rhsKls_other c hs
    simp [specOther, model, hb, ResQ.all, keyCalls, resolve, status_gen c hg, implOfStatus, hk, (h .lt).1, (h .le).1, (h .gt).1, (h .ge).1,
      (h .lt).2.1, (h .le).2.1, (h .gt).2.1, (h .ge).2.1, (h .lt).2.2, (h .le).2.2, (h .gt).2.2, (h .ge).2.2]
  unfold spec
  split
  · rfl
  · rename_i hd
    have hd' : ¬ (c.api = .define ∧ c.cmp ≠ .unset) := by
      intro h; apply hd; simp [h.1, h.2]
    obtain ⟨hce, hgen⟩ := class_table c hd'
    have hfe := fieldErrs_decl c
    by_cases hb : built c = true
    · have hcls := built_clsErr c hb
      have hrej : declRejects c = false := by
        cases hr : declRejects c
        · rfl
        · rw [hr] at hce; simp [hcls] at hce
      have hany : c.fields.any fieldRejected = false := by
        rw [Bool.eq_false_iff]; intro h
        obtain ⟨f, hf, hr⟩ := List.any_eq_true.1 h
        rw [built_fields c hb f hf] at hr; cases hr
      have hfnil : (c.fields.filter fieldRejected).map (·.name) = [] := by
        rw [← hfe]
        have : (fieldErrs c).isEmpty = true := by unfold built at hb; simp at hb; simpa using hb.2
        simpa using this
      have hm1 : (model c).fieldErrs = [] := by simp [model, hb]
      have hm2 : (model c).clsErr = .ok := by simp [model, hb]
      have hm3 : (model c).built = true := by simp [model, hb]
      have hst : (model c).status.toList = [statusOf c .lt, statusOf c .le, statusOf c .gt, statusOf c .ge] := by
        simp [model, hb, StQ.toList]
      rw [hm1, hm2, hm3, hfnil, hrej, hany, hst, ← hgen]
      cases hg : generated c
      · simp [status_not_gen c hg]
      · cases hs : sameClass c
        · simp [status_gen c hg, specOther_model hb hg hs]
        · simp [status_gen c hg, specSame_model hb hg hs]
    · have hb' : built c = false := by simpa using hb
      have hm1 : (model c).fieldErrs = fieldErrs c := by simp [model, hb']
      have hm2 : (model c).clsErr = clsErr c := by simp [model, hb']
      have hm3 : (model c).built = false := by simp [model, hb']
      rw [hm1, hm2, hm3, hfe, hce]
      have hcond : (declRejects c || c.fields.any fieldRejected) = true := by
        cases hr : declRejects c
        · simp only [Bool.false_or]
          rw [hr] at hce
          unfold built at hb'
          simp only [hce] at hb'
          have hne : (fieldErrs c).isEmpty = false := by simpa using hb'
          rw [hfe] at hne
          cases hl : c.fields.filter fieldRejected with
          | nil => rw [hl] at hne; simp at hne
          | cons f rest =>
            have hmem : f ∈ c.fields.filter fieldRejected := by rw [hl]; exact List.mem_cons_self
            obtain ⟨h1, h2⟩ := List.mem_filter.1 hmem
            exact List.any_eq_true.2 ⟨f, h1, h2⟩
        · rfl
      rw [hcond]
      cases hr : declRejects c <;> simp

/-! ### T1b: the resolution functions as written in /repo's source on this run -/

/-- **C09_source_determine_attrs**: `_determine_attrs_eq_order`, translated from the current source
    (`Gen.determine_attrs_eq_order`, regenerated on every run), computes exactly the hand-written model
    `determineAttrs` that `C09_resolution` is about — for every combination of `cmp`, `eq`, `order`, `default_eq`
    in {None, True, False}: same effective pair, ValueError in the same cases. -/
theorem C09_source_determine_attrs (env : Py.Env) (ext : Py.Ext) (cmp eq order d : Option Bool) :
    Gen.determine_attrs_eq_order env ext (Src.embOB cmp) (Src.embOB eq) (Src.embOB order) (Src.embOB d) =
      match determineAttrs cmp eq order d with
      | .ok (e, o) => .ok (Py.mkTup [Src.embOB e, Src.embOB o])
      | .error _ => .error .valueError :=
  Src.determine_attrs env ext cmp eq order d

/-- **C09_source_determine_attrib**: `_determine_attrib_eq_order(cmp, eq, order, True)` translated from the current
    source computes the model's `determineAttrib` (`C09_resolution_field`): same effective booleans, ValueError in
    the same cases, and `eq_key` / `order_key` are the very callables the model's views name. -/
theorem C09_source_determine_attrib (env : Py.Env) (ext : Py.Ext) (kc ke ko : Nat) (cmp eq order : FArg) :
    Gen.determine_attrib_eq_order env ext (Src.embFArg kc cmp) (Src.embFArg ke eq) (Src.embFArg ko order) Py.vTrue =
      match determineAttrib cmp eq order with
      | some (e, ev, o, ov) =>
        .ok (Py.mkTup [Py.vBool e, Src.viewKey kc ke ko ev, Py.vBool o, Src.viewKey kc ke ko ov])
      | none => .error .valueError :=
  Src.determine_attrib env ext kc ke ko cmp eq order

/-- **C09_source_wrap_order**: the body of `attrs(...).wrap` translated from the current source calls
    `add_eq` / `add_order` exactly as the declarative table `Src.wrapModel` says — ordering generated iff the class is
    not an auto_exc exception and the effective `order` flag is True, or unset and (auto-detection off or no own
    `__lt__`/`__le__`/`__gt__`/`__ge__`) — for every effective `eq`/`order` ∈ {None, True, False}, own `__eq__`,
    `__lt__`, auto_detect, exception base (256 rows, kernel-evaluated). -/
theorem C09_source_wrap_order : ∀ (es ev os ov oe olt ad eb : Bool),
    Src.srcWrap (Src.sliceOrder es ev os ov oe olt ad eb) =
      Src.wrapModel (Src.sliceOrder es ev os ov oe olt ad eb) :=
  Src.wrap_slice_order

end Attrs.C09
