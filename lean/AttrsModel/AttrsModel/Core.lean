/-
  Core protocol shared by every property: a property check is a model, a decidable
  specification on observations, a well-formedness predicate on cases and a list of
  known-deviation predicates.  Core Lean only (no Mathlib) so the driver compiles natively.
-/
import Lean.Data.Json

open Lean

namespace Attrs

/-- One property's executable pieces.  `C` is the case (input), `O` the observation. -/
structure Check (C O : Type) where
  /-- what attrs does, according to the model -/
  model : C → O
  /-- what the property demands of an observation -/
  spec  : C → O → Bool
  /-- the property's own preconditions on cases (generators emit only wf cases) -/
  wf    : C → Bool
  /-- ids of the listed known deviations this case falls under -/
  known : C → List String

/-- Verdict for one line of the protocol. -/
structure Reply where
  agree     : Bool
  specModel : Bool
  specObs   : Bool
  wf        : Bool
  known     : List String
  model     : Json
  deriving ToJson

def runCheck {C O : Type} [FromJson C] [FromJson O] [ToJson O] [BEq O]
    (chk : Check C O) (case obs : Json) : Except String Reply := do
  let c ← fromJson? (α := C) case
  let o ← fromJson? (α := O) obs
  let m := chk.model c
  pure { agree := m == o, specModel := chk.spec c m, specObs := chk.spec c o,
         wf := chk.wf c, known := chk.known c, model := toJson m }

/-- Python-style truthiness classes of an `==` result produced by a scripted comparison object. -/
inductive Outcome where
  | T        -- True
  | F        -- False
  | truthy   -- a non-bool truthy object
  | falsy    -- a non-bool falsy object
  deriving DecidableEq, Repr, FromJson, ToJson, Inhabited

def Outcome.isTruthy : Outcome → Bool
  | .T | .truthy => true
  | .F | .falsy => false

end Attrs

namespace Attrs

/-- A Python literal as it appears in a table extracted from the source (T1). -/
inductive Lit where
  | bool (b : Bool)
  | int (n : Int)
  | str (s : String)
  | none
  | other (src : String)   -- any other expression, kept as source text
  deriving DecidableEq, Repr, Lean.FromJson, Lean.ToJson, Inhabited

/-- lookup in a keyword-default table -/
def kwDefault (tbl : List (String × Lit)) (k : String) : Option Lit :=
  (tbl.find? (·.1 == k)).map (·.2)

end Attrs
