/-
  PyLite: the value domain and the handful of Python operations that the source-to-Lean translator
  (harness/funcs_from_source.py, tie T1b) targets.  Core Lean only.

  The translator turns the *decision functions* of /repo/src/attr (straight-line code, `if`, `return`, `raise`,
  `is`/`is not`/`==`/`in`, `and`/`or`/`not`, tuples, `any`, `callable`, calls of other translated functions and of
  un-modelled helpers) into Lean definitions over this domain, in `Generated/Funcs.lean`, on every run.  The
  meaning given to each Python construct is fixed here, once, and is part of the trusted base:

  * objects are atoms: `None`, the two bools, ints, strs, callables (`fn`), other objects (`obj`), or flat tuples of
    atoms; `is` on None/True/False is structural equality (they are singletons); `==` is Python's numeric tower on
    bool/int (`True == 1`) and structural otherwise;
  * un-modelled helpers (`_has_own_attribute`, `issubclass`, `isinstance`, …) are an uninterpreted, total, effect-free
    function `ext : String → List PV → PV`; free variables of a closure (`frozen`, `auto_detect`, …) and module
    globals (`PY_3_10_PLUS`, …) are read through `env : String → PV`;
  * `builder.<method>(args)` statements are *effects*, collected in order.
-/
namespace Attrs.Py

inductive Atom where
  | none | bool (b : Bool) | int (i : Int) | str (s : String)
  | fn (id : Nat)      -- a callable that is not True/False/None
  | obj (id : Nat)     -- any other object (classes, builders, dicts …)
  deriving DecidableEq, Repr, Inhabited

inductive PV where
  | a (x : Atom)
  | tup (xs : List Atom)
  deriving DecidableEq, Repr, Inhabited

inductive PyErr where
  | valueError | typeError | internal
  | other (name : String)     -- any other exception class, by name (`FrozenInstanceError`, …)
  deriving DecidableEq, Repr, Inhabited

/-- one `builder.<name>(args)` call (or the `_ClassBuilder(...)` construction) -/
structure Eff where
  name : String
  args : List PV
  deriving DecidableEq, Repr, Inhabited

abbrev Env := String → PV
abbrev Ext := String → List PV → PV

@[match_pattern] abbrev vNone : PV := .a .none
@[match_pattern] abbrev vBool (b : Bool) : PV := .a (.bool b)
@[match_pattern] abbrev vTrue : PV := .a (.bool true)
@[match_pattern] abbrev vFalse : PV := .a (.bool false)
@[match_pattern] abbrev vInt (i : Int) : PV := .a (.int i)
@[match_pattern] abbrev vStr (s : String) : PV := .a (.str s)
@[match_pattern] abbrev vFn (n : Nat) : PV := .a (.fn n)
@[match_pattern] abbrev vObj (n : Nat) : PV := .a (.obj n)

/-- a tuple display `(x, y, …)`; a nested tuple member is outside the fragment and becomes an opaque object -/
def mkTup (xs : List PV) : PV :=
  .tup (xs.map fun | .a x => x | .tup _ => .obj 0)

/-- the members of a tuple value (iteration, `in`, `any`) -/
def items : PV → List PV
  | .tup xs => xs.map .a
  | .a _ => []

def atomTruthy : Atom → Bool
  | .none => false
  | .bool b => b
  | .int i => i != 0
  | .str s => s != ""
  | .fn _ => true
  | .obj _ => true

/-- Python truthiness -/
def truthy : PV → Bool
  | .a x => atomTruthy x
  | .tup xs => !xs.isEmpty

/-- `x is y` (identity; the fragment only ever tests against None / True / False or compares two opaque objects) -/
def pyIs (x y : PV) : PV := vBool (decide (x = y))
def pyIsNot (x y : PV) : PV := vBool (!decide (x = y))

def atomNum : Atom → Option Int
  | .bool b => some (if b then 1 else 0)
  | .int i => some i
  | _ => none

/-- `x == y` on atoms: bool/int compare numerically, everything else structurally -/
def atomEq (x y : Atom) : Bool :=
  match atomNum x, atomNum y with
  | some i, some j => i == j
  | _, _ => decide (x = y)

def pyEqB : PV → PV → Bool
  | .a x, .a y => atomEq x y
  | .tup xs, .tup ys => xs.length == ys.length && (xs.zip ys).all fun p => atomEq p.1 p.2
  | _, _ => false

def pyEq (x y : PV) : PV := vBool (pyEqB x y)
def pyNe (x y : PV) : PV := vBool (!pyEqB x y)

/-- `x in (a, b, …)`: identity or equality with a member -/
def pyIn (x c : PV) : PV := vBool ((items c).any fun m => decide (x = m) || pyEqB x m)
def pyNotIn (x c : PV) : PV := vBool (!(items c).any fun m => decide (x = m) || pyEqB x m)

def pyNot (x : PV) : PV := vBool (!truthy x)
/-- `a and b` / `a or b` with both operands already evaluated (used when `b` is effect-free) -/
def pyAnd (x y : PV) : PV := if truthy x then y else x
def pyOr (x y : PV) : PV := if truthy x then x else y
/-- `any(t)` -/
def pyAny (t : PV) : PV := vBool ((items t).any truthy)
/-- `all(t)` -/
def pyAll (t : PV) : PV := vBool ((items t).all truthy)
/-- `callable(x)` within the fragment: only `fn` atoms (and opaque objects are not) -/
def pyCallable : PV → PV
  | .a (.fn _) => vTrue
  | _ => vFalse
/-- `isinstance(x, str)` -/
def pyIsStr : PV → PV
  | .a (.str _) => vTrue
  | _ => vFalse
/-- `s.lower()` (ASCII lowering, as in the C19 model; the tables only contain ASCII letters) -/
def pyLower : PV → PV
  | .a (.str s) => vStr (String.ofList (s.toList.map fun c => if 'A' ≤ c ∧ c ≤ 'Z' then Char.ofNat (c.toNat + 32) else c))
  | v => v
/-- `s.lstrip("_")`-style: strip leading characters that occur in `chars` -/
def pyLstrip (s chars : PV) : PV :=
  match s, chars with
  | .a (.str s), .a (.str cs) => vStr (String.ofList (s.toList.dropWhile fun c => cs.toList.contains c))
  | v, _ => v
/-- the i-th member of a tuple (tuple unpacking) -/
def nth (t : PV) (i : Nat) : PV :=
  match (items t)[i]? with
  | some v => v
  | none => vNone

end Attrs.Py
