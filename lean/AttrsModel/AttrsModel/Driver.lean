/- Dispatch table of the driver: property id → check. -/
import AttrsModel.Spec.C03

namespace Attrs
open Lean

def dispatch (p : String) (case obs : Json) : Except String Reply :=
  match p with
  | "C03" => runCheck C03.check case obs
  | _ => .error s!"unknown property {p}"

end Attrs
