/-
  C17 — the executable model of part B (scheduled operations, then everybody runs to completion)
  meets the declarative specification, for every case: all histories, all schedules, any number of
  definitions, any pre-existing entries.
-/
import AttrsModel.Proofs.C17Loop

namespace Attrs.C17

theorem scriptText_injective (a b : Nat) (h : scriptText a = scriptText b) : a = b := by
  have h' := congrArg String.toList h
  simp only [scriptText, String.toList_append] at h'
  exact toString_nat_injective _ _ (String.toList_inj.1 (List.append_cancel_left h'))

theorem scriptId_text (c : CacheCase) (n : Nat)
    (h : n ∈ c.defs.map (·.script) ++ c.pre.map (·.2.2)) : scriptId c (scriptText n) = n := by
  unfold scriptId
  cases hf : (c.defs.map (·.script) ++ c.pre.map (·.2.2)).find? (fun k => scriptText k == scriptText n) with
  | none =>
    have := (List.find?_eq_none.1 hf) n h
    simp at this
  | some k =>
    have := List.find?_some hf
    have : scriptText k = scriptText n := by simpa using this
    exact scriptText_injective _ _ this

theorem entryOf_map (c : CacheCase) (cache : Cache) (fn : String) :
    entryOf (cache.map (fun e => (e.1, scriptId c e.2))) fn = (cache.get fn).map (scriptId c) := by
  induction cache with
  | nil => rfl
  | cons x cache ih =>
    obtain ⟨k, v⟩ := x
    simp only [entryOf, List.map_cons, List.find?_cons, Cache.get]
    by_cases h : (k == fn) = true
    · simp [h]
    · simp only [h]
      simpa [entryOf] using ih

theorem get_of_mem_nodup (cache : Cache) (hn : nodupStr (cache.map (·.1)) = true) (k v : String)
    (h : (k, v) ∈ cache) : cache.get k = some v := by
  induction cache with
  | nil => simp at h
  | cons x cache ih =>
    obtain ⟨a, b⟩ := x
    simp only [List.map_cons, nodupStr, Bool.and_eq_true, Bool.not_eq_true', List.contains_eq_mem,
      decide_eq_false_iff_not] at hn
    simp only [Cache.get]
    rcases List.mem_cons.1 h with he | hr
    · simp only [Prod.mk.injEq] at he
      obtain ⟨h1, h2⟩ := he
      subst h1; subst h2; simp
    · by_cases hk : (a == k) = true
      · have : a = k := by simpa using hk
        subst this
        exfalso
        apply hn.1
        exact List.mem_map.2 ⟨(a, v), hr, rfl⟩
      · simp only [hk]
        exact ih hn.2 hr

theorem run_length (s : State) (sched : List Nat) : (run s sched).threads.length = s.threads.length := by
  have := congrArg List.length (run_scripts s sched)
  simpa using this

theorem finalState_is_run (c : CacheCase) : ∃ sched, finalState c = run (initState c) sched := by
  obtain ⟨s1, h1⟩ := foldl_stepOp_is_run c.sched (initState c)
  obtain ⟨s2, h2⟩ := finishAll_is_run (c.sched.foldl stepOp (initState c))
  exact ⟨s1 ++ s2, by rw [finalState, h2, h1, run_append]⟩

theorem initState_good (c : CacheCase) : Good (initState c) := by
  apply good_start
  intro t ht
  simp only [List.mem_map] at ht
  obtain ⟨d, _, hd⟩ := ht
  subst hd; rfl

/-- what the final state of any case looks like, thread by thread -/
theorem finalState_thread (c : CacheCase) (i : Nat) (d : Def) (hd : c.defs[i]? = some d) :
    ∃ t code, (finalState c).threads[i]? = some t ∧ t.code? = some code ∧
      t.script = scriptText d.script ∧
      (finalState c).cache.get code.filename = some (scriptText d.script) := by
  obtain ⟨sched, hs⟩ := finalState_is_run c
  have hgood : Good (finalState c) := by rw [hs]; exact run_good _ _ (initState_good c)
  have hscripts : (finalState c).threads.map (·.script) = c.defs.map (fun d => scriptText d.script) := by
    rw [hs, run_scripts]; simp [initState, Thread.start]
  have hlt : i < c.defs.length := by
    rcases Nat.lt_or_ge i c.defs.length with h | h
    · exact h
    · rw [List.getElem?_eq_none h] at hd; cases hd
  -- every thread is finished
  obtain ⟨s1, h1⟩ := foldl_stepOp_is_run c.sched (initState c)
  have hlen1 : (c.sched.foldl stepOp (initState c)).threads.length = c.defs.length := by
    rw [h1, run_length]; simp [initState]
  obtain ⟨t, ht, hfin⟩ := finishAll_finished (c.sched.foldl stepOp (initState c)) i (by omega)
  have ht' : (finalState c).threads[i]? = some t := ht
  have hscript : t.script = scriptText d.script := by
    have := congrArg (fun l => l[i]?) hscripts
    simp only [List.getElem?_map, ht', hd, Option.map_some] at this
    simpa using this
  obtain ⟨code, hcode⟩ : ∃ code, t.code? = some code := by
    cases hc : t.code? with
    | none => simp [Thread.isFinished, hc] at hfin
    | some k => exact ⟨k, rfl⟩
  have hmem : t ∈ (finalState c).threads := List.mem_of_getElem? ht'
  obtain ⟨hg, _⟩ := code_of_good _ hgood t hmem code hcode
  exact ⟨t, code, ht', hcode, hscript, by rw [hg, hscript]⟩

theorem files_getElem (c : CacheCase) (i : Nat) (d : Def) (hd : c.defs[i]? = some d) :
    ∃ f, (cacheModel c).files[i]? = some f ∧
      entryOf (cacheModel c).entries f = some d.script := by
  obtain ⟨t, code, ht, hcode, _, hget⟩ := finalState_thread c i d hd
  refine ⟨code.filename, ?_, ?_⟩
  · simp [cacheModel, List.getElem?_map, ht, hcode]
  · simp only [cacheModel]
    rw [entryOf_map, hget]
    simp only [Option.map_some, Option.some.injEq]
    apply scriptId_text
    apply List.mem_append_left
    exact List.mem_map.2 ⟨d, List.mem_of_getElem? hd, rfl⟩

theorem cacheModel_files_length (c : CacheCase) : (cacheModel c).files.length = c.defs.length := by
  obtain ⟨sched, hs⟩ := finalState_is_run c
  simp [cacheModel, hs, run_length, initState]

theorem cacheModel_meets_spec (c : CacheCase) (hwf : cacheWf c = true) :
    cacheSpec c (cacheModel c) = true := by
  have hzip : ∀ p ∈ c.defs.zip (cacheModel c).files,
      entryOf (cacheModel c).entries p.2 = some p.1.script := by
    intro p hp
    obtain ⟨i, hi⟩ := List.mem_iff_getElem?.1 hp
    obtain ⟨h1, h2⟩ := List.getElem?_zip_eq_some.1 hi
    obtain ⟨f, hf, he⟩ := files_getElem c i p.1 h1
    rw [hf] at h2
    simp only [Option.some.injEq] at h2
    rw [← h2]; exact he
  simp only [cacheSpec, Bool.and_eq_true]
  refine ⟨⟨⟨⟨⟨⟨?_, ?_⟩, ?_⟩, ?_⟩, ?_⟩, ?_⟩, ?_⟩
  · simp [cacheModel_files_length]
  · rw [List.all_eq_true]
    intro p hp
    simp [hzip p hp]
  · rw [List.all_eq_true]
    intro p hp
    rw [List.all_eq_true]
    intro q hq
    by_cases hpq : p.2 = q.2
    · have h1 := hzip p hp
      have h2 := hzip q hq
      rw [hpq, h2] at h1
      have : q.1.script = p.1.script := by simpa using h1
      simp [this]
    · simp [hpq]
  · rw [List.all_eq_true]
    intro p hp
    obtain ⟨sched, hs⟩ := finalState_is_run c
    have hn : nodupStr ((preCache c).map (·.1)) = true := by
      simp only [cacheWf, Bool.and_eq_true] at hwf
      exact hwf.2
    have hmem : (candidate (uniqueFilename c.funcName c.modul p.1) p.2.1, scriptText p.2.2) ∈ preCache c :=
      List.mem_map.2 ⟨p, hp, rfl⟩
    have hget := get_of_mem_nodup (preCache c) hn _ _ hmem
    have hfin : (finalState c).cache.get (candidate (uniqueFilename c.funcName c.modul p.1) p.2.1)
        = some (scriptText p.2.2) := by
      rw [hs]; exact run_mono _ _ _ _ hget
    simp only [cacheModel]
    rw [entryOf_map, hfin]
    simp only [Option.map_some, beq_iff_eq, Option.some.injEq]
    apply scriptId_text
    apply List.mem_append_right
    exact List.mem_map.2 ⟨p, hp, rfl⟩
  · simp [cacheModel]
  · simp [cacheModel]
  · simp [cacheModel]

theorem gcase_wf (c : CacheCase) (hwf : cacheWf c = true) : cacheWf (gcase c) = true := by
  simp only [cacheWf, Bool.and_eq_true, bne_iff_ne, ne_eq, List.all_eq_true] at hwf ⊢
  obtain ⟨⟨⟨h1, h2⟩, _⟩, _⟩ := hwf
  refine ⟨⟨⟨h1, ?_⟩, by simp [gcase]⟩, by simp [gcase, preCache, nodupStr]⟩
  intro d hd
  simp only [gcase, List.mem_filterMap] at hd
  obtain ⟨d0, hd0, hmap⟩ := hd
  cases hg : d0.gscript with
  | none => simp [hg] at hmap
  | some g =>
    simp only [hg, Option.map_some, Option.some.injEq] at hmap
    subst hmap
    exact h2 d0 hd0

/-- both scripts of every definition: the executable model meets the specification -/
theorem histModel_meets_spec (c : CacheCase) (hwf : cacheWf c = true) : histSpec c (histModel c) = true := by
  have h1 := cacheModel_meets_spec c hwf
  have h2 := cacheModel_meets_spec (gcase c) (gcase_wf c hwf)
  have e1 : (histModel c).main = cacheModel c := rfl
  have e2 : (histModel c).sub c = cacheModel (gcase c) := rfl
  simp only [histSpec, e1, e2, h1, h2, Bool.and_self]

end Attrs.C17
