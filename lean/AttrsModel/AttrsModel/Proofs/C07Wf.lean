/-
  C07 — consequences of the preconditions `wf`.
-/
import AttrsModel.Proofs.C07Inv

namespace Attrs.C07

theorem wfAll_get (cs : List Cls) (k0 : Nat) (h : wfAll cs k0 = true) :
    ∀ i c, cs[i]? = some c → wfCls (k0 + i) c = true := by
  induction cs generalizing k0 with
  | nil => intro i c hc; simp at hc
  | cons x xs ih =>
    simp only [wfAll, Bool.and_eq_true] at h
    intro i c hc
    cases i with
    | zero => simp only [List.getElem?_cons_zero, Option.some.injEq] at hc; subst hc; simpa using h.1
    | succ j =>
      have := ih (k0 + 1) h.2 j c (by simpa using hc)
      simpa [Nat.add_assoc, Nat.add_comm 1 j] using this

structure WfFacts (c : Case) : Prop where
  nonempty : c.classes ≠ []
  lastKind : (lastCls c).kind ≠ .plain
  cls : ∀ i k, c.classes[i]? = some k → wfCls i k = true
  fresh : ∀ k ∈ c.classes, ∀ n ∈ addName k.tr, ∀ k' ∈ c.classes, n ∉ declNames k'
  abs : match c.abs with
    | some (fe, ds) => lastCls c = encodeCls (lastCls c) fe ds ∧ (ds.map (·.name)).Nodup
    | none => c.twins = []

theorem wf_facts (c : Case) (h : wf c = true) : WfFacts c := by
  simp only [wf, Bool.and_eq_true] at h
  obtain ⟨⟨⟨⟨h1, h2⟩, h3⟩, h4⟩, h5⟩ := h
  refine ⟨?_, ?_, ?_, ?_, ?_⟩
  · intro he; simp [he] at h1
  · intro he; simp [he] at h2
  · intro i k hk; simpa using wfAll_get c.classes 0 h3 i k hk
  · intro k hk n hn k' hk' hmem
    rw [nodupStr_iff, List.nodup_append] at h4
    refine h4.2.2 n ?_ n ?_ rfl
    · exact List.mem_flatMap.2 ⟨k, hk, hn⟩
    · rw [List.mem_eraseDups]
      exact List.mem_flatMap.2 ⟨k', hk', hmem⟩
  · cases ha : c.abs with
    | none => simpa [ha] using h5
    | some p =>
      obtain ⟨fe, ds⟩ := p
      simp only [ha, Bool.and_eq_true, beq_iff_eq, nodupStr_iff] at h5
      exact h5

theorem lastCls_eq {c : Case} {last : Cls} (h : c.classes.getLast? = some last) : lastCls c = last := by
  simp [lastCls, h]

theorem getLast_index {cs : List Cls} {last : Cls} (h : cs.getLast? = some last) :
    cs[cs.length - 1]? = some last := by
  rw [List.getLast?_eq_getElem?] at h; exact h

theorem dropLast_get {cs : List Cls} {i : Nat} {c : Cls} (h : cs.dropLast[i]? = some c) : cs[i]? = some c := by
  rw [List.getElem?_eq_some_iff] at h ⊢
  obtain ⟨hi, he⟩ := h
  simp only [List.length_dropLast] at hi
  refine ⟨by omega, ?_⟩
  rw [← he, List.getElem_dropLast]

theorem specFinalOwn_nodup {c : Case} (W : WfFacts c) (m : Nat) : (names (specFinalOwn c.classes m)).Nodup := by
  unfold specFinalOwn
  by_cases hA : isAttrsCls c.classes m = true
  · simp only [hA, if_true, names_map_defaultAlias]
    have hget : ∃ k, c.classes[m]? = some k := by
      cases hq : c.classes[m]? with
      | none => simp [isAttrsCls, hq] at hA
      | some k => exact ⟨k, rfl⟩
    obtain ⟨k, hk⟩ := hget
    rw [clsAt_of_get hk]
    refine List.Nodup.sublist (List.Sublist.map _ List.filter_sublist) ?_
    apply names_applyTr_nodup
    · rw [names_kwIf]; exact specOwn_nodup (W.cls m k hk)
    · intro n hn hmem
      rw [names_kwIf] at hmem
      have hkm : k ∈ c.classes := List.mem_of_getElem? hk
      exact W.fresh k hkm n hn k hkm (names_specOwn_subset k n hmem)
  · simp [hA]

theorem mro_facts {c : Case} (W : WfFacts c) (N : Nat) :
    ∀ m, m < N → N ≤ c.classes.length →
      (mroOf c.classes m).head? = some m ∧ ∀ m' ∈ mroOf c.classes m, m' < N := by
  intro m hm hN
  have hlt : m < c.classes.length := by omega
  have hk : c.classes[m]? = some c.classes[m] := by simp [hlt]
  have hw := W.cls m _ hk
  simp only [wfCls, Bool.and_eq_true, List.all_eq_true, decide_eq_true_eq, beq_iff_eq] at hw
  obtain ⟨⟨⟨⟨⟨⟨hhead, htail⟩, _⟩, _⟩, _⟩, _⟩, _⟩ := hw
  simp only [mroOf, hk]
  refine ⟨hhead, ?_⟩
  intro m' hm'
  cases hq : c.classes[m].mro with
  | nil => simp [hq] at hm'
  | cons x tl =>
    simp only [hq, List.head?_cons, Option.some.injEq, List.tail_cons] at hhead htail hm'
    rcases List.mem_cons.1 hm' with rfl | h
    · omega
    · have := htail m' h; omega

end Attrs.C07
