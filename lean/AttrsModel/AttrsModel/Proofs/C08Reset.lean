/-
  C08 — the inherited-hook reset: what the slotted build writes under `__setattr__`, as a decision, and when
  that decision coincides with the dict build's.
-/
import AttrsModel.Proofs.C08Cells

namespace Attrs.C08

/-- the slotted build's decision, read off the code: no own `__setattr__` written, no user one, and a direct
    base carries an attrs-made one -/
def slotsReset (c : Case) : Bool := c.setattrMode == .none && !c.customSetattr && directHooked c

theorem setattr_not_slotName0 (c : Case) (hn : WFNames c) (hb : WFBody c) : "__setattr__" ∉ slotNames0 c := by
  intro h
  rcases (mem_slotNames0 c _ h).1 with h | h | h
  · exact special_not_own c hn _ (by decide) h
  · exact absurd h.1 (by decide)
  · obtain ⟨f, hf, _⟩ := mem_cpropNames c _ h
    have := hb.specialNotCprop ("__setattr__", .cprop f) hf rfl
    cases this

theorem setattr_not_cprop (c : Case) (hb : WFBody c) : "__setattr__" ∉ cpropNames c := by
  intro h
  obtain ⟨f, hf, _⟩ := mem_cpropNames c _ h
  have := hb.specialNotCprop ("__setattr__", .cprop f) hf rfl
  cases this

/-- after the setattr block the key is carried unchanged to the new class dict -/
theorem get_setattr_newDict (c : Case) (hn : WFNames c) (hb : WFBody c) :
    Dict.get (newDict c) "__setattr__" = Dict.get (cd1 c) "__setattr__" := by
  have h5 := setattr_not_slotName0 c hn hb
  rw [get_newDict c _ h5 (by decide), get_cd3 c _ h5 (by decide) (by decide),
    get_cd2 c _ (setattr_not_cprop c hb) (by intro e; exact absurd e (by decide))]

/-- nothing in the filtered copy is `object.__setattr__` -/
theorem cd0_not_objSetattr (c : Case) (k : String) : Dict.get (cd0 c) k ≠ some .objSetattr := by
  intro h
  have hm := get_mem _ _ _ h
  unfold cd0 clsDict at hm
  obtain ⟨hm, _⟩ := List.mem_filter.1 hm
  rcases List.mem_append.1 hm with hm | hm
  · obtain ⟨kv, _, e⟩ := List.mem_map.1 hm
    have := congrArg Prod.snd e
    simp at this
  · cases hs : c.setattrMode <;> rw [hs] at hm <;> simp at hm

/-- the model's `setattrReset` is exactly the decision -/
theorem setattrReset_eq (c : Case) (hn : WFNames c) (hb : WFBody c) : (model c).setattrReset = slotsReset c := by
  have e : (model c).setattrReset = (Dict.get (newDict c) "__setattr__" == some .objSetattr) := rfl
  rw [e, get_setattr_newDict c hn hb]
  unfold slotsReset cd1
  cases hm : c.setattrMode with
  | none =>
    dsimp only
    cases hc : (!c.customSetattr && directHooked c) with
    | true =>
      simp only [if_true]
      rw [get_set_same]
      have h1 : (some Entry.objSetattr == some Entry.objSetattr) = true := by decide
      have h2 : (SetattrMode.none == SetattrMode.none) = true := by decide
      rw [h1, h2, Bool.true_and]
      exact hc.symm
    | false =>
      simp only [Bool.false_eq_true, if_false]
      rw [get_set_other _ _ _ _ (by decide)]
      have := cd0_not_objSetattr c "__setattr__"
      have hf : (Dict.get (cd0 c) "__setattr__" == some Entry.objSetattr) = false := by simpa using this
      rw [hf]
      have h2 : (SetattrMode.none == SetattrMode.none) = true := by decide
      rw [h2, Bool.true_and]
      exact hc.symm
  | frozen =>
    dsimp only
    have := cd0_not_objSetattr c "__setattr__"
    have hf : (Dict.get (cd0 c) "__setattr__" == some Entry.objSetattr) = false := by simpa using this
    rw [hf]; rfl
  | hooks =>
    dsimp only
    have := cd0_not_objSetattr c "__setattr__"
    have hf : (Dict.get (cd0 c) "__setattr__" == some Entry.objSetattr) = false := by simpa using this
    rw [hf]; rfl

/-- single inheritance from a class that itself defines the flag (every attrs class built with slots does;
    a dict-built one does once it wrote or reset a `__setattr__`): both builds decide alike -/
theorem reset_agree_direct (c : Case) (b : Base) (rest : List Base) (hm : c.mro = b :: rest)
    (hd : b.direct = true) (hf : b.ownSetattr.isSome = true) (hr : ∀ b' ∈ rest, b'.direct = false) :
    slotsReset c = dictReset c := by
  unfold slotsReset dictReset directHooked
  rw [hm]
  have hrest : rest.any (fun b => b.direct && b.ownSetattr == some true) = false := by
    apply List.any_eq_false.2
    intro b' hb'
    simp [hr b' hb']
  cases ho : b.ownSetattr with
  | none => rw [ho] at hf; cases hf
  | some v =>
    simp only [List.any_cons, hd, ho, hrest, List.findSome?_cons, Bool.true_and, Bool.or_false, Option.getD_some]
    cases v <;> simp

end Attrs.C08
