/-
  T1b: `_frozen_setattrs` / `_frozen_delattrs` as translated from /repo's source on this run against the documented
  behaviour of frozen instances: every set / delete raises FrozenInstanceError, except the exception bookkeeping
  names (the T1 tables `Generated.frozenExcSetNames` / `frozenExcDelNames`) on instances of `BaseException`, which are
  handed to `BaseException.__setattr__` / `__delattr__` unchanged.  For every attribute name (any string).
-/
import AttrsModel.Generated.Funcs
import AttrsModel.Generated.Tables

namespace Attrs.Src
open Attrs.Py

theorem memb (n m : String) :
    (decide (PV.a (Atom.str n) = PV.a (Atom.str m)) || pyEqB (PV.a (Atom.str n)) (PV.a (Atom.str m))) = (n == m) := by
  by_cases h : n = m
  · subst h; simp [pyEqB, atomEq, atomNum]
  · simp [pyEqB, atomEq, atomNum, h]

theorem pyIn_strs (n : String) (names : List String) :
    truthy (pyIn (vStr n) (mkTup (names.map vStr))) = names.contains n := by
  simp only [pyIn, items, mkTup, truthy, atomTruthy, List.map_map, List.any_map, Function.comp_def, memb,
    List.contains_eq_any_beq]

/-- `_frozen_setattrs` as written in the source -/
theorem frozen_setattrs_spec (env : Env) (ext : Ext) (self value : PV) (isExc : Bool) (n : String)
    (hext : ext "isinstance" [self, env "BaseException"] = vBool isExc) :
    Gen.frozen_setattrs env ext self (vStr n) value [] =
      if isExc && Generated.frozenExcSetNames.contains n
      then .ok (vNone, [Eff.mk "BaseException.__setattr__" [self, vStr n, value]])
      else .error (.other "FrozenInstanceError") := by
  have h := pyIn_strs n Generated.frozenExcSetNames
  unfold Gen.frozen_setattrs
  simp only [hext]
  cases isExc <;> cases hc : Generated.frozenExcSetNames.contains n <;>
    simp_all [Generated.frozenExcSetNames, pyAnd, truthy, atomTruthy] <;> rfl

/-- `_frozen_delattrs` as written in the source -/
theorem frozen_delattrs_spec (env : Env) (ext : Ext) (self : PV) (isExc : Bool) (n : String)
    (hext : ext "isinstance" [self, env "BaseException"] = vBool isExc) :
    Gen.frozen_delattrs env ext self (vStr n) [] =
      if isExc && Generated.frozenExcDelNames.contains n
      then .ok (vNone, [Eff.mk "BaseException.__delattr__" [self, vStr n]])
      else .error (.other "FrozenInstanceError") := by
  have h := pyIn_strs n Generated.frozenExcDelNames
  unfold Gen.frozen_delattrs
  simp only [hext]
  cases isExc <;> cases hc : Generated.frozenExcDelNames.contains n <;>
    simp_all [Generated.frozenExcDelNames, pyAnd, truthy, atomTruthy] <;> rfl

end Attrs.Src
