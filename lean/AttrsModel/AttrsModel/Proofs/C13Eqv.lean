/-
  C13 — the comparison of results (`eqv`, exact but for the order of set members) is reflexive.
-/
import AttrsModel.Proofs.C13Basic

namespace Attrs.C13

theorem all2_refl {α : Type} (p : α → α → Bool) : ∀ xs : List α, (∀ x ∈ xs, p x x = true) → all2 p xs xs = true
  | [], _ => rfl
  | x :: r, h => by
    simp only [all2, Bool.and_eq_true]
    exact ⟨h x (by simp), all2_refl p r (fun y hy => h y (by simp [hy]))⟩

theorem size_pos (x : Out) : 0 < x.size := by
  cases x <;> simp [Out.size] <;> omega

theorem mem_sizeL : ∀ (xs : List Out) (x : Out), x ∈ xs → x.size ≤ sizeL xs
  | [], _, h => by simp at h
  | y :: r, x, h => by
    simp only [sizeL]
    rcases List.mem_cons.1 h with h | h
    · subst h; omega
    · have := mem_sizeL r x h; omega

theorem mem_sizeF : ∀ (xs : List (FI × Out)) (p : FI × Out), p ∈ xs → p.2.size ≤ sizeF xs
  | [], _, h => by simp at h
  | (f, y) :: r, p, h => by
    simp only [sizeF]
    rcases List.mem_cons.1 h with h | h
    · subst h; simp
    · have := mem_sizeF r p h; omega

theorem mem_sizeR : ∀ (xs : List (String × Out)) (p : String × Out), p ∈ xs → p.2.size ≤ sizeR xs
  | [], _, h => by simp at h
  | (f, y) :: r, p, h => by
    simp only [sizeR]
    rcases List.mem_cons.1 h with h | h
    · subst h; simp
    · have := mem_sizeR r p h; omega

theorem mem_sizeP : ∀ (xs : List (Out × Out)) (p : Out × Out), p ∈ xs → p.1.size + p.2.size ≤ sizeP xs
  | [], _, h => by simp at h
  | (k, y) :: r, p, h => by
    simp only [sizeP]
    rcases List.mem_cons.1 h with h | h
    · subst h; simp
    · have := mem_sizeP r p h; omega

theorem eqvN_refl : ∀ (n : Nat) (x : Out), x.size < n → eqvN n x x = true
  | 0, x, h => by omega
  | n + 1, .atom a, _ => by simp [eqvN]
  | n + 1, .inst s c h fs, hs => by
    simp only [eqvN, beq_self_eq_true, Bool.true_and]
    apply all2_refl
    intro p hp
    have := mem_sizeF fs p hp
    simp only [Out.size] at hs
    simp [eqvN_refl n p.2 (by omega)]
  | n + 1, .ser c f v, hs => by
    simp only [Out.size] at hs
    simp [eqvN, eqvN_refl n v (by omega)]
  | n + 1, .coll s k xs, hs => by
    simp only [Out.size] at hs
    have hall : ∀ x ∈ xs, eqvN n x x = true := fun x hx => by
      have := mem_sizeL xs x hx
      exact eqvN_refl n x (by omega)
    simp only [eqvN, beq_self_eq_true, Bool.true_and]
    split
    · simp only [Bool.and_eq_true, List.all_eq_true, List.any_eq_true]
      exact ⟨fun x hx => ⟨x, hx, hall x hx⟩, fun x hx => ⟨x, hx, hall x hx⟩⟩
    · exact all2_refl _ xs hall
  | n + 1, .dict s k ps, hs => by
    simp only [Out.size] at hs
    simp only [eqvN, beq_self_eq_true, Bool.true_and]
    apply all2_refl
    intro p hp
    have := mem_sizeP ps p hp
    have h1 := size_pos p.1
    have h2 := size_pos p.2
    simp [eqvN_refl n p.1 (by omega), eqvN_refl n p.2 (by omega)]
  | n + 1, .record k ps, hs => by
    simp only [Out.size] at hs
    have hall : all2 (fun p q => p.1 == q.1 && eqvN n p.2 q.2) ps ps = true := by
      apply all2_refl
      intro p hp
      have := mem_sizeR ps p hp
      simp [eqvN_refl n p.2 (by omega)]
    cases ps with
    | nil => simp [eqvN, all2]
    | cons p r => simp only [eqvN, beq_self_eq_true, Bool.true_and]; exact hall

theorem eqv_refl (x : Out) : eqv x x = true := eqvN_refl _ x (by omega)

theorem Res.eqv_refl (r : Res) : r.eqv r = true := by
  cases r <;> simp [Res.eqv, C13.eqv_refl]

end Attrs.C13
