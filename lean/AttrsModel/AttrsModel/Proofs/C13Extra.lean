/-
  C13 — astuple against asdict on container-free trees; the round trip for flat public classes.
-/
import AttrsModel.Proofs.C13Struct

namespace Attrs.C13

/-! ### astuple = asdict without the names (trees of scalars and instances) -/

mutual
def instOnly : PVal → Bool
  | .atom _ => true
  | .inst _ _ fs => instOnlyF fs
  | .coll _ _ => false
  | .dict _ _ => false
def instOnlyF : List (FI × PVal) → Bool
  | [] => true
  | (_, v) :: r => instOnly v && instOnlyF r
end

mutual
/-- drop the names: the mapping made for an instance becomes the tuple of its values -/
def strip (tf : TF) : Out → Out
  | .record _ items => tfOut tf (stripR tf items)
  | .atom a => .atom a
  | .inst s c h fs => .inst s c h fs
  | .ser c f v => .ser c f v
  | .coll s k xs => .coll s k xs
  | .dict s k ps => .dict s k ps
def stripR (tf : TF) : List (String × Out) → List Out
  | [] => []
  | (_, v) :: r => strip tf v :: stripR tf r
end

mutual
theorem tfield_eq_strip (o : Opts) (hs : o.ser = .off) (c : Nat) (f : FI) : ∀ v : PVal, instOnly v = true →
    tfield o o.filter v = (fieldD o c f v).map (strip o.tf)
  | .atom a, _ => by simp [tfield, fieldD, serFieldAtom, serApplies, hs, strip]
  | .inst c' h fs, hi => by
    have ih := tupleOf_eq_strip o hs c' fs (by simpa [instOnly] using hi)
    simp only [tfield, fieldD, hs, ih]
    cases fieldsD o c' fs <;> simp [strip]
  | .coll k xs, hi => by simp [instOnly] at hi
  | .dict k ps, hi => by simp [instOnly] at hi
theorem tupleOf_eq_strip (o : Opts) (hs : o.ser = .off) (c : Nat) : ∀ fs : List (FI × PVal),
    instOnlyF fs = true → tupleOf o o.filter fs = (fieldsD o c fs).map (stripR o.tf)
  | [], _ => by simp [tupleOf, fieldsD, stripR]
  | (f, v) :: r, hi => by
    simp only [instOnlyF, Bool.and_eq_true] at hi
    have ihv := tfield_eq_strip o hs c f v hi.1
    have ihr := tupleOf_eq_strip o hs c r hi.2
    by_cases hp : passes o.filter f v = true
    · simp only [tupleOf, fieldsD, hp, if_true, ihv, ihr]
      cases fieldD o c f v <;> cases fieldsD o c r <;> simp [stripR]
    · simp [tupleOf, fieldsD, hp, ihr]
end

/-! ### round trip -/

def lookup (kw : List (String × Out)) (n : String) : Option Out := (kw.find? (fun p => p.1 == n)).map (·.2)

def toScalar : Out → Option PVal
  | .atom a => some (.atom a)
  | _ => none

def bindAll (kw : List (String × Out)) : List FI → Option (List (FI × PVal))
  | [] => some []
  | f :: r =>
    match (lookup kw f.name).bind toScalar, bindAll kw r with
    | some v, some rest => some ((f, v) :: rest)
    | _, _ => none

/-- `cls(**kw)` for a class all of whose fields are public `__init__` arguments (others: not modelled):
    every keyword must name a field and every field must be given -/
def construct (cls : Nat) (fis : List FI) (kw : List (String × Out)) : Option PVal :=
  if fis.all (fun f => f.init && publicName f.name) && kw.all (fun p => fis.any (fun f => f.name == p.1)) then
    (bindAll kw fis).map (fun fs => PVal.inst cls none fs)
  else none

def flatItems (fs : List (FI × PVal)) : List (String × Out) := fs.map (fun p => (p.1.name, embed p.2))

def allAtoms (fs : List (FI × PVal)) : Bool := fs.all (fun p => isAtom p.2)

theorem fieldsD_flat (o : Opts) (c : Nat) (hf : o.filter = .none) (hs : o.ser = .off) :
    ∀ fs : List (FI × PVal), allAtoms fs = true → fieldsD o c fs = .ok (flatItems fs)
  | [], _ => rfl
  | (f, v) :: r, h => by
    simp only [allAtoms, List.all_cons, Bool.and_eq_true] at h
    have ih := fieldsD_flat o c hf hs r h.2
    cases v with
    | atom a => simp [fieldsD, hf, fieldD, serFieldAtom, serApplies, hs, ih, flatItems, embed, passes]
    | inst _ _ _ => simp [isAtom] at h
    | coll _ _ => simp [isAtom] at h
    | dict _ _ => simp [isAtom] at h

theorem flatD_flat (o : Opts) (c : Nat) (hf : o.filter = .none) (hs : o.ser = .off) :
    ∀ fs : List (FI × PVal), flatD o c fs = flatItems fs
  | [] => rfl
  | (f, v) :: r => by
    have ih := flatD_flat o c hf hs r
    simp [flatD, hf, hs, serFlat, ih, flatItems, passes]

theorem lookup_flatItems : ∀ (full : List (FI × PVal)), namesDistinct (full.map (·.1.name)) = true →
    ∀ p ∈ full, lookup (flatItems full) p.1.name = some (embed p.2)
  | [], _, p, hp => by simp at hp
  | q :: r, hd, p, hp => by
    simp only [List.map_cons, namesDistinct, Bool.and_eq_true, Bool.not_eq_true'] at hd
    rcases List.mem_cons.1 hp with h | h
    · subst h; simp [lookup, flatItems]
    · have hne : (q.1.name == p.1.name) = false := by
        have hmem : p.1.name ∈ r.map (·.1.name) := List.mem_map.2 ⟨p, h, rfl⟩
        cases hq : q.1.name == p.1.name with
        | false => rfl
        | true =>
          have : q.1.name = p.1.name := by simpa using hq
          rw [this] at hd
          have hc : (r.map (·.1.name)).contains p.1.name = true := by simpa using hmem
          have h1 := hd.1
          rw [hc] at h1
          exact absurd h1 (by decide)
      have ih := lookup_flatItems r hd.2 p h
      simp only [lookup, flatItems, List.map_cons, List.find?_cons, hne] at ih ⊢
      exact ih

theorem bindAll_flat (full : List (FI × PVal)) (hd : namesDistinct (full.map (·.1.name)) = true)
    (ha : allAtoms full = true) : ∀ (suffix : List (FI × PVal)), (∀ p ∈ suffix, p ∈ full) →
    bindAll (flatItems full) (suffix.map (·.1)) = some suffix
  | [], _ => rfl
  | p :: r, hsub => by
    have hp : p ∈ full := hsub p (by simp)
    have hl := lookup_flatItems full hd p hp
    have hat : isAtom p.2 = true := by
      simp only [allAtoms, List.all_eq_true] at ha
      exact ha p hp
    have ih := bindAll_flat full hd ha r (fun q hq => hsub q (by simp [hq]))
    obtain ⟨f, v⟩ := p
    cases v with
    | atom a => simp [bindAll, hl, ih, embed, toScalar]
    | inst _ _ _ => simp [isAtom] at hat
    | coll _ _ => simp [isAtom] at hat
    | dict _ _ => simp [isAtom] at hat

theorem construct_flat (cls : Nat) (fs : List (FI × PVal)) (hd : namesDistinct (fs.map (·.1.name)) = true)
    (ha : allAtoms fs = true) (hpub : fs.all (fun p => publicName p.1.name && p.1.init) = true) :
    construct cls (fs.map (·.1)) (flatItems fs) = some (.inst cls none fs) := by
  have h1 : (fs.map (·.1)).all (fun f => f.init && publicName f.name) = true := by
    simp only [List.all_eq_true, List.mem_map] at hpub ⊢
    rintro f ⟨p, hp, rfl⟩
    have := hpub p hp
    simp only [Bool.and_eq_true] at this ⊢
    exact ⟨this.2, this.1⟩
  have h2 : (flatItems fs).all (fun p => (fs.map (·.1)).any (fun f => f.name == p.1)) = true := by
    simp only [flatItems, List.all_eq_true, List.mem_map, List.any_eq_true]
    rintro q ⟨p, hp, rfl⟩
    exact ⟨p.1, ⟨p, hp, rfl⟩, by simp⟩
  simp only [construct, h1, h2, Bool.and_self, if_true, bindAll_flat fs hd ha fs (fun p hp => hp), Option.map]

end Attrs.C13
