/-
  C04 — lemmas about the cache life cycle over arbitrary histories.
-/
import AttrsModel.Proofs.C04Hash
import AttrsModel.Proofs.C04Table

namespace Attrs.C04

theorem readCell_writeCell (L : Layout) (x : Inst) (v : Cell) : readCell L (writeCell L x v) = v := by
  unfold readCell writeCell
  cases L.hasSlot <;> simp

theorem writeCell_vals (L : Layout) (x : Inst) (v : Cell) : (writeCell L x v).vals = x.vals := by
  unfold writeCell
  cases L.hasSlot <;> simp

theorem newInst_vals (L : Layout) (vs : List Nat) : (newInst L vs).vals = vs := by
  unfold newInst
  cases L.initCache <;> cases L.initDirect <;> simp [writeCell_vals]

/-- outside K1/K2 a freshly constructed instance of a caching class has an empty, readable cache -/
theorem newInst_read (L : Layout) (n : Node) (vs : List Nat) (hg : L.hres = .gen n)
    (hc : n.facts.cacheOn = true) (h1 : k1 L = false) (h2 : k2 L = false) :
    readCell L (newInst L vs) = .empty := by
  simp only [k1, hg, hc, Bool.true_and, Bool.not_eq_false'] at h1
  simp only [k2, hg, hc, h1, Bool.true_and] at h2
  unfold newInst
  simp only [h1, if_true]
  by_cases hd : L.initDirect = true
  · simp only [hd, Bool.true_and] at h2
    simp [hd, readCell, h2]
  · simp only [hd, Bool.false_eq_true, if_false, readCell_writeCell]

/-- what a hash call on an instance with a readable cache returns -/
theorem hashCall_gen (c : Case) (L : Layout) (n : Node) (idx : Nat) (x : Inst) (hg : L.hres = .gen n)
    (hr : n.facts.cacheOn = true → readCell L x ≠ .absent) :
    (hashCall c L idx x).1 = .ok ∧
    ((hashCall c L idx x).2.1 = fresh c n x.vals ∨
      (∃ h, readCell L x = .full h ∧ (hashCall c L idx x).2.1 = h ∧ (hashCall c L idx x).2.2.1 = false ∧
        (hashCall c L idx x).2.2.2 = x)) := by
  unfold hashCall
  simp only [hg]
  by_cases hc : n.facts.cacheOn = true
  · simp only [hc, if_true]
    have := hr hc
    cases hcell : readCell L x with
    | absent => exact absurd hcell this
    | empty => simp
    | full h => simp
  · simp [hc]

theorem hashOfFresh_gen (c : Case) (L : Layout) (n : Node) (idx : Nat) (alt : List Nat)
    (hg : L.hres = .gen n) (h1 : k1 L = false) (h2 : k2 L = false) :
    hashOfFresh c L idx alt = some (fresh c n alt) := by
  unfold hashOfFresh hashCall
  simp only [hg]
  by_cases hc : n.facts.cacheOn = true
  · simp [hc, newInst_read L n alt hg hc h1 h2, newInst_vals]
  · simp [hc, newInst_vals]

theorem fresh_agree (c : Case) (n : Node) (as bs : List Nat)
    (h : agreeOn c.veq c.key n.fields as bs = true) : fresh c n as = fresh c n bs :=
  hashInputs_agree c.vh c.veq c.key (n.k + 2) (case_contract c) n.fields as bs h

/-- the result of a hash operation satisfies the local specification, provided the cache is readable
    and the value returned is not stale -/
theorem hashOp_spec (c : Case) (L : Layout) (n : Node) (insts : List Inst) (i : Nat) (alt : List Nat)
    (x : Inst) (hg : L.hres = .gen n) (hx : insts[i]? = some x)
    (hr : n.facts.cacheOn = true → readCell L x ≠ .absent) (h1 : k1 L = false) (h2 : k2 L = false)
    (hgood : ((hashOp c L insts i alt).1.out == .ok && !(hashOp c L insts i alt).1.sameUncached) = false) :
    specOp c L (.hash i alt) (hashOp c L insts i alt).1 = true := by
  obtain ⟨hok, hcase⟩ := hashCall_gen c L n i x hg hr
  have hfa := hashOfFresh_gen c L n insts.length alt hg h1 h2
  unfold hashOp at hgood ⊢
  simp only [hx, hg, hfa] at hgood ⊢
  generalize hashCall c L i x = r at hok hcase hgood
  rcases r with ⟨out, h, comp, x'⟩
  simp only at hok hcase hgood
  subst hok
  have hh : h = fresh c n x.vals := by
    simpa using hgood
  subst hh
  simp only [specOp, hg, beq_self_eq_true, Bool.true_and, Bool.and_true, Option.some.injEq,
    Bool.and_eq_true, Bool.or_eq_true, Bool.not_eq_true', beq_iff_eq]
  refine ⟨?_, ?_⟩
  · by_cases ha : agreeOn c.veq c.key n.fields x.vals alt = true
    · right; simp [fresh_agree c n x.vals alt ha]
    · left; simpa using ha
  · cases he : L.eres with
    | ident => simp
    | gen m =>
      simp only [eqCall, he]
      by_cases hm : (m.fields == n.fields && hashWithinEq n.fields &&
          eqChain c.veq c.key m.fields x.vals alt) = true
      · rw [Bool.or_eq_true]; right
        simp only [Bool.and_eq_true, beq_iff_eq] at hm
        obtain ⟨⟨hmf, hw⟩, hec⟩ := hm
        rw [hmf] at hec
        simp [fresh_agree c n x.vals alt (eqChain_agree c.veq c.key n.fields x.vals alt hw hec)]
      · rw [Bool.or_eq_true]; left
        have : (m.fields == n.fields && hashWithinEq n.fields && eqChain c.veq c.key m.fields x.vals alt) = false := by
          simpa using hm
        rw [this]; rfl

/-- the facts about a layout the cache argument needs (proved for `layoutOf` of a chain below) -/
structure LayoutOk (L : Layout) (n : Node) : Prop where
  noSlotOfDict : L.copyMode = .dict → L.hasSlot = false
  reset : L.stateReset = L.initCache

/-- every instance has a readable cache (matters only when the resolved hash caches) -/
def Readable (L : Layout) (n : Node) (insts : List Inst) : Prop :=
  n.facts.cacheOn = true → ∀ x ∈ insts, readCell L x ≠ .absent

theorem copyInst_readable (L : Layout) (n : Node) (deep : Bool) (x : Inst) (hg : L.hres = .gen n)
    (hc : n.facts.cacheOn = true) (h1 : k1 L = false) (hok : LayoutOk L n)
    (hu : (L.copyMode != .unsupported) = true)
    (hx : readCell L x ≠ .absent) : readCell L (copyInst L deep x) ≠ .absent := by
  simp only [k1, hg, hc, Bool.true_and, Bool.not_eq_false'] at h1
  unfold copyInst
  cases hun : L.copyMode with
  | unsupported => simp [hun] at hu
  | state => simp [hok.reset, h1, readCell_writeCell]
  | dict =>
    have hs := hok.noSlotOfDict hun
    simp only [readCell, hs, Bool.false_eq_true, if_false] at hx ⊢
    cases deep
    · simpa using hx
    · cases hd : x.dict <;> simp_all

def isCopyOp : Op → Bool
  | .copy _ | .deepcopy _ | .pickle _ | .assoc _ _ => true
  | _ => false

theorem readCell_vals (L : Layout) (y : Inst) (vs : List Nat) :
    readCell L { y with vals := vs } = readCell L y := by
  unfold readCell; cases L.hasSlot <;> simp

/-- `assoc` never hands over a populated cache -/
theorem assocInst_not_full (L : Layout) (x : Inst) (ch : List (Nat × Nat)) (h : List Nat) :
    readCell L (assocInst L x ch) ≠ .full h := by
  unfold assocInst
  simp only [readCell_vals]
  cases hc : readCell L (copyInst L false x) with
  | absent => simp [readCell_vals, hc]
  | empty => simp [readCell_vals, hc]
  | full h' => simp [readCell_writeCell]

theorem assocInst_readable (L : Layout) (x : Inst) (ch : List (Nat × Nat))
    (hx : readCell L (copyInst L false x) ≠ .absent) : readCell L (assocInst L x ch) ≠ .absent := by
  unfold assocInst
  simp only [readCell_vals]
  cases hc : readCell L (copyInst L false x) with
  | absent => exact absurd hc hx
  | empty => simp [readCell_vals, hc]
  | full h' => simp [readCell_writeCell]

theorem assocInst_unreadable (L : Layout) (x : Inst) (ch : List (Nat × Nat))
    (hx : readCell L (copyInst L false x) = .absent) : readCell L (assocInst L x ch) = .absent := by
  unfold assocInst
  simp only [readCell_vals, hx]

theorem mem_set_ne {α : Type} (l : List α) (i : Nat) (a y : α) (h : y ∈ l.set i a) : y = a ∨ y ∈ l := by
  rcases List.mem_or_eq_of_mem_set h with h | h
  · exact Or.inr h
  · exact Or.inl h

theorem step_readable (c : Case) (L : Layout) (n : Node) (insts : List Inst) (op : Op)
    (hg : L.hres = .gen n) (h1 : k1 L = false) (h2 : k2 L = false) (hok : LayoutOk L n)
    (hu : isCopyOp op = true → (L.copyMode != .unsupported) = true) (hr : Readable L n insts) :
    Readable L n (step c L insts op).2 := by
  intro hc y hy
  have hr' := hr hc
  cases op with
  | hash i alt =>
    simp only [step, hashOp] at hy
    cases hx : insts[i]? with
    | none => simp only [hx] at hy; exact hr' y hy
    | some x =>
      simp only [hx] at hy
      rcases mem_set_ne _ _ _ _ hy with rfl | hy
      · have hxm : x ∈ insts := List.mem_of_getElem? hx
        have hxr := hr' x hxm
        unfold hashCall
        simp only [hg, hc, if_true]
        cases hcell : readCell L x with
        | absent => exact absurd hcell hxr
        | empty => simp [readCell_writeCell]
        | full h => simp [hcell]
      · exact hr' y hy
  | copy i =>
    simp only [step] at hy
    cases hx : insts[i]? with
    | none => simp only [hx] at hy; exact hr' y hy
    | some x =>
      simp only [hx, List.mem_append, List.mem_singleton] at hy
      rcases hy with hy | rfl
      · exact hr' y hy
      · exact copyInst_readable L n false x hg hc h1 hok (hu rfl) (hr' x (List.mem_of_getElem? hx))
  | deepcopy i =>
    simp only [step] at hy
    cases hx : insts[i]? with
    | none => simp only [hx] at hy; exact hr' y hy
    | some x =>
      simp only [hx, List.mem_append, List.mem_singleton] at hy
      rcases hy with hy | rfl
      · exact hr' y hy
      · exact copyInst_readable L n true x hg hc h1 hok (hu rfl) (hr' x (List.mem_of_getElem? hx))
  | pickle i =>
    simp only [step] at hy
    cases hx : insts[i]? with
    | none => simp only [hx] at hy; exact hr' y hy
    | some x =>
      simp only [hx, List.mem_append, List.mem_singleton] at hy
      rcases hy with hy | rfl
      · exact hr' y hy
      · exact copyInst_readable L n true x hg hc h1 hok (hu rfl) (hr' x (List.mem_of_getElem? hx))
  | evolve i ch =>
    simp only [step] at hy
    cases hx : insts[i]? with
    | none => simp only [hx] at hy; exact hr' y hy
    | some x =>
      simp only [hx, List.mem_append, List.mem_singleton] at hy
      rcases hy with hy | rfl
      · exact hr' y hy
      · rw [newInst_read L n _ hg hc h1 h2]; simp
  | assoc i ch =>
    simp only [step] at hy
    cases hx : insts[i]? with
    | none => simp only [hx] at hy; exact hr' y hy
    | some x =>
      simp only [hx, List.mem_append, List.mem_singleton] at hy
      rcases hy with hy | rfl
      · exact hr' y hy
      · exact assocInst_readable L x ch
          (copyInst_readable L n false x hg hc h1 hok (hu rfl) (hr' x (List.mem_of_getElem? hx)))
  | set i f v =>
    simp only [step] at hy
    cases hx : insts[i]? with
    | none => simp only [hx] at hy; exact hr' y hy
    | some x =>
      simp only [hx] at hy
      by_cases hf : L.leafFrozen = true
      · simp only [hf, if_true] at hy; exact hr' y hy
      · simp only [hf, Bool.false_eq_true, if_false] at hy
        rcases mem_set_ne _ _ _ _ hy with rfl | hy
        · have := hr' x (List.mem_of_getElem? hx)
          simpa [readCell] using this
        · exact hr' y hy

def stale (p : Op × Res) : Bool := isHashOp p.1 && p.2.out == .ok && !p.2.sameUncached

theorem step_length (c : Case) (L : Layout) (insts : List Inst) (op : Op) :
    (step c L insts op).2.length = insts.length + (match op with
      | .copy i | .deepcopy i | .pickle i | .evolve i _ | .assoc i _ => if i < insts.length then 1 else 0
      | _ => 0) := by
  cases op with
  | hash i alt =>
    simp only [step, hashOp]
    cases hx : insts[i]? <;> simp
  | copy i =>
    simp only [step]
    cases hx : insts[i]? with
    | none => have := List.getElem?_eq_none_iff.1 hx; simp; omega
    | some x => have := (List.getElem?_eq_some_iff.1 hx).1; simp [this]
  | deepcopy i =>
    simp only [step]
    cases hx : insts[i]? with
    | none => have := List.getElem?_eq_none_iff.1 hx; simp; omega
    | some x => have := (List.getElem?_eq_some_iff.1 hx).1; simp [this]
  | pickle i =>
    simp only [step]
    cases hx : insts[i]? with
    | none => have := List.getElem?_eq_none_iff.1 hx; simp; omega
    | some x => have := (List.getElem?_eq_some_iff.1 hx).1; simp [this]
  | evolve i ch =>
    simp only [step]
    cases hx : insts[i]? with
    | none => have := List.getElem?_eq_none_iff.1 hx; simp; omega
    | some x => have := (List.getElem?_eq_some_iff.1 hx).1; simp [this]
  | assoc i ch =>
    simp only [step]
    cases hx : insts[i]? with
    | none => have := List.getElem?_eq_none_iff.1 hx; simp; omega
    | some x => have := (List.getElem?_eq_some_iff.1 hx).1; simp [this]
  | set i f v =>
    simp only [step]
    cases hx : insts[i]? with
    | none => simp
    | some x => cases L.leafFrozen <;> simp

/-- **the local specification holds along every well-formed history** (resolved hash generated by attrs,
    outside K1/K2, no stale value returned) -/
theorem specOps_run_gen (c : Case) (L : Layout) (n : Node) (hg : L.hres = .gen n)
    (h1 : k1 L = false) (h2 : k2 L = false) (hok : LayoutOk L n) :
    ∀ (ops : List Op) (insts : List Inst) (hashed : List Nat), Readable L n insts →
      wfOps c L.nFields (L.copyMode != .unsupported) insts.length hashed ops = true →
      ((ops.zip (runOps c L insts ops)).any stale) = false →
      specOps c L ops (runOps c L insts ops) = true := by
  intro ops
  induction ops with
  | nil => intro insts hashed _ _ _; simp [runOps, specOps]
  | cons op rest ih =>
    intro insts hashed hr hwf hst
    simp only [runOps, List.zip_cons_cons, List.any_cons, Bool.or_eq_false_iff] at hst
    simp only [runOps, specOps, Bool.and_eq_true]
    have hlen := step_length c L insts op
    cases op with
    | hash i alt =>
      simp only [wfOps, Bool.and_eq_true, decide_eq_true_eq] at hwf
      obtain ⟨x, hx⟩ : ∃ x, insts[i]? = some x := ⟨insts[i]'hwf.1.1, List.getElem?_eq_getElem hwf.1.1⟩
      refine ⟨?_, ?_⟩
      · apply hashOp_spec c L n insts i alt x hg hx (fun hc => hr hc x (List.mem_of_getElem? hx)) h1 h2
        have := hst.1
        simpa [stale, isHashOp, step] using this
      · apply ih _ (i :: hashed) (step_readable c L n insts _ hg h1 h2 hok (by simp [isCopyOp]) hr)
        · rw [hlen]; simpa using hwf.2
        · exact hst.2
    | copy i =>
      simp only [wfOps, Bool.and_eq_true, decide_eq_true_eq] at hwf
      refine ⟨by simp [specOp], ?_⟩
      apply ih _ hashed (step_readable c L n insts _ hg h1 h2 hok (fun _ => hwf.1.2) hr)
      · rw [hlen]; simpa [hwf.1.1] using hwf.2
      · exact hst.2
    | deepcopy i =>
      simp only [wfOps, Bool.and_eq_true, decide_eq_true_eq] at hwf
      refine ⟨by simp [specOp], ?_⟩
      apply ih _ hashed (step_readable c L n insts _ hg h1 h2 hok (fun _ => hwf.1.2) hr)
      · rw [hlen]; simpa [hwf.1.1] using hwf.2
      · exact hst.2
    | pickle i =>
      simp only [wfOps, Bool.and_eq_true, decide_eq_true_eq] at hwf
      refine ⟨by simp [specOp], ?_⟩
      apply ih _ hashed (step_readable c L n insts _ hg h1 h2 hok (fun _ => hwf.1.2) hr)
      · rw [hlen]; simpa [hwf.1.1] using hwf.2
      · exact hst.2
    | evolve i ch =>
      simp only [wfOps, Bool.and_eq_true, decide_eq_true_eq] at hwf
      refine ⟨by simp [specOp], ?_⟩
      apply ih _ hashed (step_readable c L n insts _ hg h1 h2 hok (by simp [isCopyOp]) hr)
      · rw [hlen]; simpa [hwf.1.1] using hwf.2
      · exact hst.2
    | assoc i ch =>
      simp only [wfOps, Bool.and_eq_true, decide_eq_true_eq] at hwf
      refine ⟨by simp [specOp], ?_⟩
      apply ih _ hashed (step_readable c L n insts _ hg h1 h2 hok (fun _ => hwf.1.1.2) hr)
      · rw [hlen]; simpa [hwf.1.1.1] using hwf.2
      · exact hst.2
    | set i f v =>
      simp only [wfOps, Bool.and_eq_true, decide_eq_true_eq] at hwf
      refine ⟨by simp [specOp], ?_⟩
      apply ih _ hashed (step_readable c L n insts _ hg h1 h2 hok (by simp [isCopyOp]) hr)
      · rw [hlen]; simpa using hwf.2
      · exact hst.2

theorem hashOp_spec_nongen (c : Case) (L : Layout) (insts : List Inst) (i : Nat) (alt : List Nat)
    (hng : ∀ n, L.hres ≠ .gen n) (hi : i < insts.length) :
    specOp c L (.hash i alt) (hashOp c L insts i alt).1 = true := by
  have hx : insts[i]? = some (insts[i]'hi) := List.getElem?_eq_getElem hi
  unfold hashOp
  simp only [hx, specOp]
  cases hh : L.hres with
  | gen n => exact absurd hh (hng n)
  | ident => simp [hashCall, hh]
  | const => simp [hashCall, hh]
  | unhashable => simp

theorem specOps_run_nongen (c : Case) (L : Layout) (hng : ∀ n, L.hres ≠ .gen n) :
    ∀ (ops : List Op) (insts : List Inst) (hashed : List Nat),
      wfOps c L.nFields (L.copyMode != .unsupported) insts.length hashed ops = true →
      specOps c L ops (runOps c L insts ops) = true := by
  intro ops
  induction ops with
  | nil => intro insts hashed _; simp [runOps, specOps]
  | cons op rest ih =>
    intro insts hashed hwf
    simp only [runOps, specOps, Bool.and_eq_true]
    have hlen := step_length c L insts op
    cases op with
    | hash i alt =>
      simp only [wfOps, Bool.and_eq_true, decide_eq_true_eq] at hwf
      refine ⟨hashOp_spec_nongen c L insts i alt hng hwf.1.1, ?_⟩
      apply ih _ (i :: hashed)
      rw [hlen]; simpa using hwf.2
    | copy i =>
      simp only [wfOps, Bool.and_eq_true, decide_eq_true_eq] at hwf
      refine ⟨by simp [specOp], ?_⟩
      apply ih _ hashed
      rw [hlen]; simpa [hwf.1.1] using hwf.2
    | deepcopy i =>
      simp only [wfOps, Bool.and_eq_true, decide_eq_true_eq] at hwf
      refine ⟨by simp [specOp], ?_⟩
      apply ih _ hashed
      rw [hlen]; simpa [hwf.1.1] using hwf.2
    | pickle i =>
      simp only [wfOps, Bool.and_eq_true, decide_eq_true_eq] at hwf
      refine ⟨by simp [specOp], ?_⟩
      apply ih _ hashed
      rw [hlen]; simpa [hwf.1.1] using hwf.2
    | evolve i ch =>
      simp only [wfOps, Bool.and_eq_true, decide_eq_true_eq] at hwf
      refine ⟨by simp [specOp], ?_⟩
      apply ih _ hashed
      rw [hlen]; simpa [hwf.1.1] using hwf.2
    | assoc i ch =>
      simp only [wfOps, Bool.and_eq_true, decide_eq_true_eq] at hwf
      refine ⟨by simp [specOp], ?_⟩
      apply ih _ hashed
      rw [hlen]; simpa [hwf.1.1.1] using hwf.2
    | set i f v =>
      simp only [wfOps, Bool.and_eq_true, decide_eq_true_eq] at hwf
      refine ⟨by simp [specOp], ?_⟩
      apply ih _ hashed
      rw [hlen]; simpa using hwf.2

/-! ### computed once -/

def isFull : Cell → Bool
  | .full _ => true
  | _ => false

/-- the cache of instance `i` is populated -/
def cellFull (L : Layout) (insts : List Inst) (i : Nat) : Bool :=
  match insts[i]? with
  | some x => isFull (readCell L x)
  | none => false

def computes (i : Nat) (ops : List Op) (rs : List Res) : Nat :=
  ((ops.zip rs).filter (fun p => isHashOn i p.1 && computed p.2)).length

/-- a populated cache stays populated, whatever happens next -/
theorem step_cellFull (c : Case) (L : Layout) (insts : List Inst) (op : Op) (i : Nat)
    (h : cellFull L insts i = true) : cellFull L (step c L insts op).2 i = true := by
  unfold cellFull at h ⊢
  cases hx : insts[i]? with
  | none => simp [hx] at h
  | some x =>
    simp only [hx] at h
    have hi : i < insts.length := (List.getElem?_eq_some_iff.1 hx).1
    cases op with
    | hash j alt =>
      simp only [step, hashOp]
      cases hy : insts[j]? with
      | none => simp [hx, h]
      | some y =>
        simp only
        by_cases hij : j = i
        · subst hij
          have : y = x := by simpa [hx] using hy.symm
          subst this
          simp only [List.getElem?_set_self hi]
          unfold hashCall
          cases hh : L.hres with
          | gen n =>
            simp only
            by_cases hc : n.facts.cacheOn = true
            · simp only [hc, if_true]
              cases hcell : readCell L y with
              | absent => simp [hcell, isFull] at h
              | empty => simp [hcell, isFull] at h
              | full hv => simpa [hcell] using h
            · simpa [hc] using h
          | ident => simpa using h
          | const => simpa using h
          | unhashable => simpa using h
        · simp [List.getElem?_set_ne hij, hx, h]
    | copy j =>
      simp only [step]
      cases hy : insts[j]? <;> simp [hx, h, List.getElem?_append_left hi]
    | deepcopy j =>
      simp only [step]
      cases hy : insts[j]? <;> simp [hx, h, List.getElem?_append_left hi]
    | pickle j =>
      simp only [step]
      cases hy : insts[j]? <;> simp [hx, h, List.getElem?_append_left hi]
    | evolve j ch =>
      simp only [step]
      cases hy : insts[j]? <;> simp [hx, h, List.getElem?_append_left hi]
    | assoc j ch =>
      simp only [step]
      cases hy : insts[j]? <;> simp [hx, h, List.getElem?_append_left hi]
    | set j f v =>
      simp only [step]
      cases hy : insts[j]? with
      | none => simp [hx, h]
      | some y =>
        cases L.leafFrozen
        · simp only [Bool.false_eq_true, if_false]
          by_cases hij : j = i
          · subst hij
            have : y = x := by simpa [hx] using hy.symm
            subst this
            simpa [List.getElem?_set_self hi, readCell] using h
          · simp [List.getElem?_set_ne hij, hx, h]
        · simp [hx, h]

/-- a computing hash call on instance `i` happens only on an unpopulated cache and populates it -/
theorem hashOp_computed (c : Case) (L : Layout) (n : Node) (insts : List Inst) (i : Nat) (alt : List Nat)
    (hg : L.hres = .gen n) (hc : n.facts.cacheOn = true)
    (hcomp : computed (hashOp c L insts i alt).1 = true) :
    cellFull L insts i = false ∧ cellFull L (hashOp c L insts i alt).2 i = true := by
  unfold hashOp at hcomp ⊢
  unfold cellFull
  cases hx : insts[i]? with
  | none => simp [hx, computed, Res.plain] at hcomp
  | some x =>
    have hi : i < insts.length := (List.getElem?_eq_some_iff.1 hx).1
    simp only [hx] at hcomp ⊢
    unfold hashCall at hcomp ⊢
    simp only [hg, hc, if_true] at hcomp ⊢
    cases hcell : readCell L x with
    | absent => simp [hcell, computed] at hcomp
    | full h => simp [hcell, computed] at hcomp
    | empty =>
      simp [isFull, List.getElem?_set_self hi, readCell_writeCell]

theorem computes_cons (i : Nat) (op : Op) (ops : List Op) (r : Res) (rs : List Res) :
    computes i (op :: ops) (r :: rs) =
      (if (isHashOn i op && computed r) = true then 1 else 0) + computes i ops rs := by
  unfold computes
  simp only [List.zip_cons_cons, List.filter_cons]
  split <;> simp <;> omega

/-- **at most one computing call per instance**, from any state, along any history -/
theorem computes_bound (c : Case) (L : Layout) (n : Node) (hg : L.hres = .gen n)
    (hc : n.facts.cacheOn = true) :
    ∀ (ops : List Op) (insts : List Inst) (i : Nat),
      computes i ops (runOps c L insts ops) ≤ (if cellFull L insts i = true then 0 else 1) := by
  intro ops
  induction ops with
  | nil => intro insts i; simp [computes, runOps]
  | cons op rest ih =>
    intro insts i
    simp only [runOps, computes_cons]
    have ihs := ih (step c L insts op).2 i
    by_cases hhead : (isHashOn i op && computed (step c L insts op).1) = true
    · -- the head is a computing call on `i`
      simp only [hhead, if_true]
      cases op with
      | hash j alt =>
        simp only [isHashOn, Bool.and_eq_true, beq_iff_eq] at hhead
        obtain ⟨hij, hcomp⟩ := hhead
        subst hij
        simp only [step] at hcomp ihs
        obtain ⟨hbefore, hafter⟩ := hashOp_computed c L n insts i alt hg hc hcomp
        simp only [hafter, if_true] at ihs
        simp only [hbefore, Bool.false_eq_true, if_false, step]
        omega
      | copy j => simp [isHashOn] at hhead
      | deepcopy j => simp [isHashOn] at hhead
      | pickle j => simp [isHashOn] at hhead
      | evolve j ch => simp [isHashOn] at hhead
      | assoc j ch => simp [isHashOn] at hhead
      | set j f v => simp [isHashOn] at hhead
    · simp only [hhead, Bool.false_eq_true, if_false, Nat.zero_add]
      by_cases hf : cellFull L insts i = true
      · have := step_cellFull c L insts op i hf
        simp only [this, if_true] at ihs
        simp only [hf, if_true]
        exact ihs
      · simp only [hf, Bool.false_eq_true, if_false]
        split at ihs <;> omega

theorem onceOk_run (c : Case) (L : Layout) (n : Node) (hg : L.hres = .gen n)
    (hc : n.facts.cacheOn = true) (ops : List Op) (insts : List Inst) (m : Nat) :
    onceOk ops (runOps c L insts ops) m = true := by
  unfold onceOk
  simp only [List.all_eq_true, decide_eq_true_eq]
  intro i _
  have := computes_bound c L n hg hc ops insts i
  unfold computes at this
  split at this <;> omega

theorem resolveHash_mem : ∀ (lf : List Node) (n : Node), resolveHash lf = .gen n →
    n ∈ lf ∧ n.outcome = .generated := by
  intro lf
  induction lf with
  | nil => intro n h; simp [resolveHash] at h
  | cons m rest ih =>
    intro n h
    unfold resolveHash at h
    cases ho : m.outcome with
    | generated =>
      simp only [ho, HRes.gen.injEq] at h
      subst h
      exact ⟨List.mem_cons_self, ho⟩
    | unhashable => simp [ho] at h
    | untouched =>
      simp only [ho] at h
      cases hh : m.cls.ownHash with
      | func => simp [hh] at h
      | noneVal => simp [hh] at h
      | delegate =>
        simp only [hh] at h
        exact ⟨List.mem_cons_of_mem _ (ih n h).1, (ih n h).2⟩
      | no =>
        simp only [hh] at h
        by_cases he : m.cls.ownEq = true
        · simp [he] at h
        · simp only [he, Bool.false_eq_true, if_false] at h
          exact ⟨List.mem_cons_of_mem _ (ih n h).1, (ih n h).2⟩

/-- the layout of a chain has the properties the cache argument uses -/
theorem layoutOf_ok (outF : Facts → Outcome) (c : Case) (n : Node) :
    LayoutOk (layoutOf (nodesWith outF c)) n := by
  refine ⟨?_, rfl⟩
  intro hu
  simp only [layoutOf] at hu ⊢
  split at hu
  · simp at hu
  · split at hu
    · simp at hu
    · rename_i hns
      simp only [Bool.or_eq_true, not_or, Bool.not_eq_true] at hns
      have h2 := hns.2
      rw [List.any_eq_false] at h2 ⊢
      intro m hm
      have := h2 m hm
      simp only [Bool.not_eq_true] at this
      simp [this]

theorem kindOf_err (n : Node) : isErrKind (kindOf n) = n.err.isSome := by
  unfold kindOf isErrKind
  cases he : n.err with
  | some e => cases e <;> simp
  | none =>
    simp only
    cases n.outcome with
    | generated => simp
    | unhashable => simp
    | untouched =>
      unfold naturalKind
      cases n.cls.ownHash <;> simp
      cases n.cls.ownEq <;> simp

theorem specKind_kindOf (n : Node) : specKind n (kindOf n) = true := by
  unfold kindOf
  cases he : n.err with
  | some e =>
    unfold Node.err at he
    by_cases ha : n.isAttrs = true
    · simp only [ha, if_true] at he
      unfold defErr at he
      cases e with
      | typeError =>
        simp only [specKind]
        by_cases hm : n.facts.mixErr = true
        · simp [hm] at he
        · simp only [hm, Bool.false_eq_true, if_false] at he
          by_cases h1 : (n.facts.cacheOn && n.outcome != Outcome.generated) = true
          · simp only [Bool.and_eq_true] at h1
            simp [h1.1, h1.2]
          · simp only [h1, Bool.false_eq_true, if_false] at he
            by_cases h2 : (n.facts.cacheOn && !n.facts.initOn) = true
            · simp only [Bool.and_eq_true] at h2
              simp [h2.1, h2.2]
            · simp [h2] at he
      | valueError =>
        simp only [specKind]
        by_cases hm : n.facts.mixErr = true
        · exact hm
        · simp only [hm, Bool.false_eq_true, if_false] at he
          split at he
          · simp at he
          · split at he <;> simp at he
    · simp [ha] at he
  | none =>
    simp only
    cases ho : n.outcome with
    | generated => simp [specKind, ho]
    | unhashable => simp [specKind, ho]
    | untouched =>
      unfold naturalKind
      cases hh : n.cls.ownHash <;> simp [specKind, ho, naturalKind, hh]
      cases n.cls.ownEq <;> simp

theorem specClasses_classObs : ∀ ns : List Node, specClasses ns (classObs ns) = true := by
  intro ns
  induction ns with
  | nil => simp [classObs, specClasses]
  | cons n rest ih =>
    unfold classObs
    have hk := kindOf_err n
    unfold isErrKind at hk
    by_cases he : n.err.isSome = true
    · simp only [he, if_true, specClasses, specKind_kindOf, Bool.true_and]
      rw [he] at hk
      simp [hk]
    · simp only [he, Bool.false_eq_true, if_false, specClasses, specKind_kindOf, Bool.true_and]
      have he' : n.err.isSome = false := by simpa using he
      rw [he'] at hk
      simp [hk, ih]

theorem classObs_any_err : ∀ ns : List Node, (classObs ns).any isErrKind = !built ns := by
  intro ns
  induction ns with
  | nil => simp [classObs, built]
  | cons n rest ih =>
    unfold classObs built
    by_cases he : n.err.isSome = true
    · have : n.err.isNone = false := by
        cases h : n.err <;> simp_all
      simp [he, kindOf_err, this]
    · have he' : n.err.isSome = false := by simpa using he
      have : n.err.isNone = true := by
        cases h : n.err <;> simp_all
      simp only [he, Bool.false_eq_true, if_false, List.any_cons, kindOf_err, Bool.false_or,
        List.all_cons, this, Bool.true_and]
      rw [ih]; rfl

theorem runOps_length (c : Case) (L : Layout) : ∀ (ops : List Op) (insts : List Inst),
    (runOps c L insts ops).length = ops.length := by
  intro ops
  induction ops with
  | nil => intro insts; simp [runOps]
  | cons op rest ih => intro insts; simp [runOps, ih]

/-- a history without hash operations satisfies the local specification trivially -/
theorem specOps_nohash (c : Case) (L : Layout) : ∀ (ops : List Op) (rs : List Res),
    ops.any isHashOp = false → rs.length = ops.length → specOps c L ops rs = true := by
  intro ops
  induction ops with
  | nil => intro rs _ hl; cases rs <;> simp_all [specOps]
  | cons op rest ih =>
    intro rs hh hl
    cases rs with
    | nil => simp at hl
    | cons r rs =>
      simp only [List.any_cons, Bool.or_eq_false_iff] at hh
      simp only [specOps, Bool.and_eq_true]
      refine ⟨?_, ih rs hh.2 (by simpa using hl)⟩
      cases op <;> simp_all [specOp, isHashOp]

/-- every hash operation of a well-formed history succeeds (resolved hash generated, outside K1/K2) -/
theorem runOps_never_raises (c : Case) (L : Layout) (n : Node) (hg : L.hres = .gen n)
    (h1 : k1 L = false) (h2 : k2 L = false) (hok : LayoutOk L n) :
    ∀ (ops : List Op) (insts : List Inst) (hashed : List Nat), Readable L n insts →
      wfOps c L.nFields (L.copyMode != .unsupported) insts.length hashed ops = true →
      ∀ p ∈ ops.zip (runOps c L insts ops), isHashOp p.1 = true → p.2.out = .ok := by
  intro ops
  induction ops with
  | nil => intro insts hashed _ _ p hp; simp [runOps] at hp
  | cons op rest ih =>
    intro insts hashed hr hwf p hp hh
    simp only [runOps, List.zip_cons_cons, List.mem_cons] at hp
    have hlen := step_length c L insts op
    have hcopy : isCopyOp op = true → (L.copyMode != .unsupported) = true := by
      intro hc
      cases op <;> simp_all [isCopyOp, wfOps]
    have hr' := step_readable c L n insts op hg h1 h2 hok hcopy hr
    rcases hp with rfl | hp
    · cases op with
      | hash i alt =>
        simp only [wfOps, Bool.and_eq_true, decide_eq_true_eq] at hwf
        have hx : insts[i]? = some (insts[i]'hwf.1.1) := List.getElem?_eq_getElem hwf.1.1
        have := (hashCall_gen c L n i _ hg (fun hc => hr hc _ (List.mem_of_getElem? hx))).1
        simpa [step, hashOp, hx] using this
      | copy i => simp [isHashOp] at hh
      | deepcopy i => simp [isHashOp] at hh
      | pickle i => simp [isHashOp] at hh
      | evolve i ch => simp [isHashOp] at hh
      | assoc i ch => simp [isHashOp] at hh
      | set i f v => simp [isHashOp] at hh
    · cases op with
      | hash i alt =>
        simp only [wfOps, Bool.and_eq_true, decide_eq_true_eq] at hwf
        exact ih _ (i :: hashed) hr' (by rw [hlen]; simpa using hwf.2) p hp hh
      | copy i =>
        simp only [wfOps, Bool.and_eq_true, decide_eq_true_eq] at hwf
        exact ih _ hashed hr' (by rw [hlen]; simpa [hwf.1.1] using hwf.2) p hp hh
      | deepcopy i =>
        simp only [wfOps, Bool.and_eq_true, decide_eq_true_eq] at hwf
        exact ih _ hashed hr' (by rw [hlen]; simpa [hwf.1.1] using hwf.2) p hp hh
      | pickle i =>
        simp only [wfOps, Bool.and_eq_true, decide_eq_true_eq] at hwf
        exact ih _ hashed hr' (by rw [hlen]; simpa [hwf.1.1] using hwf.2) p hp hh
      | evolve i ch =>
        simp only [wfOps, Bool.and_eq_true, decide_eq_true_eq] at hwf
        exact ih _ hashed hr' (by rw [hlen]; simpa [hwf.1.1] using hwf.2) p hp hh
      | assoc i ch =>
        simp only [wfOps, Bool.and_eq_true, decide_eq_true_eq] at hwf
        exact ih _ hashed hr' (by rw [hlen]; simpa [hwf.1.1.1] using hwf.2) p hp hh
      | set i f v =>
        simp only [wfOps, Bool.and_eq_true, decide_eq_true_eq] at hwf
        exact ih _ hashed hr' (by rw [hlen]; simpa using hwf.2) p hp hh

/-! ### a cached value is the hash of the current fields, as long as no field is written -/

/-- every populated cache holds the hash of the instance's current field values -/
def Fresh (c : Case) (L : Layout) (n : Node) (insts : List Inst) : Prop :=
  ∀ x ∈ insts, ∀ h, readCell L x = .full h → h = fresh c n x.vals

def isSetOp : Op → Bool
  | .set _ _ _ => true
  | _ => false

theorem newInst_not_full (L : Layout) (vs : List Nat) (h : List Nat) : readCell L (newInst L vs) ≠ .full h := by
  unfold newInst readCell writeCell
  cases L.initCache <;> cases L.initDirect <;> cases L.hasSlot <;> simp

theorem copyInst_fresh (c : Case) (L : Layout) (n : Node) (deep : Bool) (x : Inst)
    (hx : ∀ h, readCell L x = .full h → h = fresh c n x.vals) (hnm : L.copyMode ≠ .state → L.hasSlot = false) :
    ∀ h, readCell L (copyInst L deep x) = .full h → h = fresh c n (copyInst L deep x).vals := by
  intro h hh
  unfold copyInst at hh ⊢
  cases hu : L.copyMode with
  | state =>
    simp only [hu] at hh
    cases h2 : L.stateReset
    · simp only [h2, Bool.false_eq_true, if_false, readCell] at hh
      cases h1 : L.hasSlot <;> simp [h1] at hh
    · simp [h2, readCell_writeCell] at hh
  | dict =>
    have hs := hnm (by simp [hu])
    simp only [hu, readCell, hs, Bool.false_eq_true, if_false] at hh hx ⊢
    cases deep
    · exact hx h (by simpa using hh)
    · cases hd : x.dict <;> simp_all
  | unsupported =>
    have hs := hnm (by simp [hu])
    simp only [hu, readCell, hs, Bool.false_eq_true, if_false] at hh hx ⊢
    cases deep
    · exact hx h (by simpa using hh)
    · cases hd : x.dict <;> simp_all

theorem step_fresh (c : Case) (L : Layout) (n : Node) (insts : List Inst) (op : Op)
    (hg : L.hres = .gen n) (hnm : isCopyOp op = true → L.copyMode ≠ .state → L.hasSlot = false)
    (hns : isSetOp op = false) (hf : Fresh c L n insts) : Fresh c L n (step c L insts op).2 := by
  intro y hy h hh
  cases op with
  | hash i alt =>
    simp only [step, hashOp] at hy
    cases hx : insts[i]? with
    | none => simp only [hx] at hy; exact hf y hy h hh
    | some x =>
      simp only [hx] at hy
      rcases mem_set_ne _ _ _ _ hy with rfl | hy
      · have hxm : x ∈ insts := List.mem_of_getElem? hx
        unfold hashCall at hh ⊢
        simp only [hg] at hh ⊢
        by_cases hc : n.facts.cacheOn = true
        · simp only [hc, if_true] at hh ⊢
          cases hcell : readCell L x with
          | absent => simp [hcell] at hh
          | empty =>
            simp only [hcell, readCell_writeCell, Cell.full.injEq] at hh ⊢
            simp [writeCell_vals, hh]
          | full h' =>
            simp only [hcell, Cell.full.injEq] at hh ⊢
            subst hh
            exact hf x hxm _ hcell
        · simp only [hc, Bool.false_eq_true, if_false] at hh ⊢; exact hf x hxm h hh
      · exact hf y hy h hh
  | copy i =>
    simp only [step] at hy
    cases hx : insts[i]? with
    | none => simp only [hx] at hy; exact hf y hy h hh
    | some x =>
      simp only [hx, List.mem_append, List.mem_singleton] at hy
      rcases hy with hy | rfl
      · exact hf y hy h hh
      · exact copyInst_fresh c L n false x (hf x (List.mem_of_getElem? hx)) (hnm rfl) h hh
  | deepcopy i =>
    simp only [step] at hy
    cases hx : insts[i]? with
    | none => simp only [hx] at hy; exact hf y hy h hh
    | some x =>
      simp only [hx, List.mem_append, List.mem_singleton] at hy
      rcases hy with hy | rfl
      · exact hf y hy h hh
      · exact copyInst_fresh c L n true x (hf x (List.mem_of_getElem? hx)) (hnm rfl) h hh
  | pickle i =>
    simp only [step] at hy
    cases hx : insts[i]? with
    | none => simp only [hx] at hy; exact hf y hy h hh
    | some x =>
      simp only [hx, List.mem_append, List.mem_singleton] at hy
      rcases hy with hy | rfl
      · exact hf y hy h hh
      · exact copyInst_fresh c L n true x (hf x (List.mem_of_getElem? hx)) (hnm rfl) h hh
  | evolve i ch =>
    simp only [step] at hy
    cases hx : insts[i]? with
    | none => simp only [hx] at hy; exact hf y hy h hh
    | some x =>
      simp only [hx, List.mem_append, List.mem_singleton] at hy
      rcases hy with hy | rfl
      · exact hf y hy h hh
      · exact absurd hh (newInst_not_full L _ h)
  | assoc i ch =>
    simp only [step] at hy
    cases hx : insts[i]? with
    | none => simp only [hx] at hy; exact hf y hy h hh
    | some x =>
      simp only [hx, List.mem_append, List.mem_singleton] at hy
      rcases hy with hy | rfl
      · exact hf y hy h hh
      · exact absurd hh (assocInst_not_full L x ch h)
  | set i f v => simp [isSetOp] at hns

/-- **without field writes no hash call ever returns a stale value**: every successful hash operation of
    the history returns the uncached value (arbitrary length, any mix of hash / copy / deepcopy / pickle /
    evolve) -/
theorem runOps_uncached (c : Case) (L : Layout) (n : Node) (hg : L.hres = .gen n) :
    ∀ (ops : List Op) (insts : List Inst), Fresh c L n insts → ops.any isSetOp = false →
      (∀ op ∈ ops, isCopyOp op = true → L.copyMode ≠ .state → L.hasSlot = false) →
      ∀ p ∈ ops.zip (runOps c L insts ops), stale p = false := by
  intro ops
  induction ops with
  | nil => intro insts _ _ _ p hp; simp [runOps] at hp
  | cons op rest ih =>
    intro insts hf hns hnm p hp
    simp only [List.any_cons, Bool.or_eq_false_iff] at hns
    simp only [runOps, List.zip_cons_cons, List.mem_cons] at hp
    rcases hp with rfl | hp
    · cases op with
      | hash i alt =>
        simp only [stale, isHashOp, step, hashOp, Bool.true_and]
        cases hx : insts[i]? with
        | none => simp [Res.plain]
        | some x =>
          have hxm : x ∈ insts := List.mem_of_getElem? hx
          simp only [hg]
          unfold hashCall
          simp only [hg]
          by_cases hc : n.facts.cacheOn = true
          · simp only [hc, if_true]
            cases hcell : readCell L x with
            | absent => simp
            | empty => simp
            | full h' => simp [hf x hxm h' hcell]
          · simp [hc]
      | copy i => simp [stale, isHashOp]
      | deepcopy i => simp [stale, isHashOp]
      | pickle i => simp [stale, isHashOp]
      | evolve i ch => simp [stale, isHashOp]
      | assoc i ch => simp [stale, isHashOp]
      | set i f v => simp [stale, isHashOp]
    · exact ih _ (step_fresh c L n insts op hg (hnm op List.mem_cons_self) hns.1 hf) hns.2
        (fun o ho => hnm o (List.mem_cons_of_mem _ ho)) p hp

theorem known_nil (c : Case) (hk : known c = [])
    (hb : built (nodesWith codeOutcome c) = true) (hh : hasHashOp c = true) :
    k1 (layoutOf (nodesWith codeOutcome c)) = false ∧ k2 (layoutOf (nodesWith codeOutcome c)) = false ∧
    k5 c (layoutOf (nodesWith codeOutcome c)) (model c).results = false := by
  unfold known at hk
  simp only [hb, hh, Bool.and_self, if_true, List.append_eq_nil_iff] at hk
  obtain ⟨⟨h1, h2⟩, h5⟩ := hk
  refine ⟨?_, ?_, ?_⟩
  · by_cases h : k1 (layoutOf (nodesWith codeOutcome c)) = true
    · simp [h] at h1
    · simpa using h
  · by_cases h : k2 (layoutOf (nodesWith codeOutcome c)) = true
    · simp [h] at h2
    · simpa using h
  · by_cases h : k5 c (layoutOf (nodesWith codeOutcome c)) (model c).results = true
    · simp [h] at h5
    · simpa using h

/-- allowing copies where they were not used keeps a history well-formed -/
theorem wfOps_mono (c : Case) (nF : Nat) (u v : Bool) (huv : u = true → v = true) :
    ∀ (ops : List Op) (n : Nat) (hashed : List Nat), wfOps c nF u n hashed ops = true →
      wfOps c nF v n hashed ops = true := by
  intro ops
  induction ops with
  | nil => intro n hashed _; simp [wfOps]
  | cons o rest ih =>
    intro n hashed hw
    cases o <;> simp only [wfOps, Bool.and_eq_true] at hw ⊢
    · exact ⟨hw.1, ih _ _ hw.2⟩
    · exact ⟨⟨hw.1.1, huv hw.1.2⟩, ih _ _ hw.2⟩
    · exact ⟨⟨hw.1.1, huv hw.1.2⟩, ih _ _ hw.2⟩
    · exact ⟨⟨hw.1.1, huv hw.1.2⟩, ih _ _ hw.2⟩
    · exact ⟨hw.1, ih _ _ hw.2⟩
    · exact ⟨hw.1, ih _ _ hw.2⟩
    · exact ⟨⟨⟨hw.1.1.1, huv hw.1.1.2⟩, hw.1.2⟩, ih _ _ hw.2⟩

theorem wfOps_copy_uniform (c : Case) (nF : Nat) (u : Bool) :
    ∀ (ops : List Op) (n : Nat) (hashed : List Nat), wfOps c nF u n hashed ops = true →
      ∀ op ∈ ops, isCopyOp op = true → u = true := by
  intro ops
  induction ops with
  | nil => intro n hashed _ op hop; simp at hop
  | cons o rest ih =>
    intro n hashed hw op hop hc
    simp only [List.mem_cons] at hop
    cases o with
    | hash i alt =>
      simp only [wfOps, Bool.and_eq_true] at hw
      rcases hop with rfl | hop
      · simp [isCopyOp] at hc
      · exact ih _ _ hw.2 op hop hc
    | copy i =>
      simp only [wfOps, Bool.and_eq_true] at hw
      rcases hop with rfl | hop
      · exact hw.1.2
      · exact ih _ _ hw.2 op hop hc
    | deepcopy i =>
      simp only [wfOps, Bool.and_eq_true] at hw
      rcases hop with rfl | hop
      · exact hw.1.2
      · exact ih _ _ hw.2 op hop hc
    | pickle i =>
      simp only [wfOps, Bool.and_eq_true] at hw
      rcases hop with rfl | hop
      · exact hw.1.2
      · exact ih _ _ hw.2 op hop hc
    | evolve i ch =>
      simp only [wfOps, Bool.and_eq_true] at hw
      rcases hop with rfl | hop
      · simp [isCopyOp] at hc
      · exact ih _ _ hw.2 op hop hc
    | assoc i ch =>
      simp only [wfOps, Bool.and_eq_true] at hw
      rcases hop with rfl | hop
      · exact hw.1.1.2
      · exact ih _ _ hw.2 op hop hc
    | set i f v =>
      simp only [wfOps, Bool.and_eq_true] at hw
      rcases hop with rfl | hop
      · simp [isCopyOp] at hc
      · exact ih _ _ hw.2 op hop hc

/-! ### K1 and K2 are tight: in these shapes *every* hash call fails -/

def Unreadable (L : Layout) (insts : List Inst) : Prop := ∀ x ∈ insts, readCell L x = .absent

theorem newInst_unreadable (L : Layout) (vs : List Nat) (hk : k1 L = true ∨ k2 L = true) :
    readCell L (newInst L vs) = .absent := by
  unfold newInst
  rcases hk with hk | hk
  · unfold k1 at hk
    cases hh : L.hres with
    | gen n =>
      simp only [hh, Bool.and_eq_true, Bool.not_eq_true'] at hk
      simp [hk.2, readCell]
    | ident => simp [hh] at hk
    | const => simp [hh] at hk
    | unhashable => simp [hh] at hk
  · unfold k2 at hk
    cases hh : L.hres with
    | gen n =>
      simp only [hh, Bool.and_eq_true] at hk
      simp [hk.1.1.2, hk.1.2, hk.2, readCell]
    | ident => simp [hh] at hk
    | const => simp [hh] at hk
    | unhashable => simp [hh] at hk

theorem copyInst_unreadable (L : Layout) (deep : Bool) (x : Inst)
    (hu : L.copyMode = .state → L.stateReset = false) (hx : readCell L x = .absent) :
    readCell L (copyInst L deep x) = .absent := by
  unfold copyInst
  cases hun : L.copyMode with
  | state =>
    simp only [hu hun, Bool.false_eq_true, if_false, readCell]
    cases L.hasSlot <;> simp
  | dict =>
    unfold readCell at hx ⊢
    cases hs : L.hasSlot
    · simp only [hs, Bool.false_eq_true, if_false] at hx ⊢
      cases deep <;> simp [hx]
    · simp
  | unsupported =>
    unfold readCell at hx ⊢
    cases hs : L.hasSlot
    · simp only [hs, Bool.false_eq_true, if_false] at hx ⊢
      cases deep <;> simp [hx]
    · simp

theorem step_unreadable (c : Case) (L : Layout) (n : Node) (insts : List Inst) (op : Op)
    (hg : L.hres = .gen n) (hc : n.facts.cacheOn = true) (hk : k1 L = true ∨ k2 L = true)
    (hu : isCopyOp op = true → L.copyMode = .state → L.stateReset = false) (hr : Unreadable L insts) :
    Unreadable L (step c L insts op).2 := by
  intro y hy
  cases op with
  | hash i alt =>
    simp only [step, hashOp] at hy
    cases hx : insts[i]? with
    | none => simp only [hx] at hy; exact hr y hy
    | some x =>
      simp only [hx] at hy
      rcases mem_set_ne _ _ _ _ hy with rfl | hy
      · have hxr := hr x (List.mem_of_getElem? hx)
        unfold hashCall
        simp [hg, hc, hxr]
      · exact hr y hy
  | copy i =>
    simp only [step] at hy
    cases hx : insts[i]? with
    | none => simp only [hx] at hy; exact hr y hy
    | some x =>
      simp only [hx, List.mem_append, List.mem_singleton] at hy
      rcases hy with hy | rfl
      · exact hr y hy
      · exact copyInst_unreadable L false x (hu rfl) (hr x (List.mem_of_getElem? hx))
  | deepcopy i =>
    simp only [step] at hy
    cases hx : insts[i]? with
    | none => simp only [hx] at hy; exact hr y hy
    | some x =>
      simp only [hx, List.mem_append, List.mem_singleton] at hy
      rcases hy with hy | rfl
      · exact hr y hy
      · exact copyInst_unreadable L true x (hu rfl) (hr x (List.mem_of_getElem? hx))
  | pickle i =>
    simp only [step] at hy
    cases hx : insts[i]? with
    | none => simp only [hx] at hy; exact hr y hy
    | some x =>
      simp only [hx, List.mem_append, List.mem_singleton] at hy
      rcases hy with hy | rfl
      · exact hr y hy
      · exact copyInst_unreadable L true x (hu rfl) (hr x (List.mem_of_getElem? hx))
  | evolve i ch =>
    simp only [step] at hy
    cases hx : insts[i]? with
    | none => simp only [hx] at hy; exact hr y hy
    | some x =>
      simp only [hx, List.mem_append, List.mem_singleton] at hy
      rcases hy with hy | rfl
      · exact hr y hy
      · exact newInst_unreadable L _ hk
  | assoc i ch =>
    simp only [step] at hy
    cases hx : insts[i]? with
    | none => simp only [hx] at hy; exact hr y hy
    | some x =>
      simp only [hx, List.mem_append, List.mem_singleton] at hy
      rcases hy with hy | rfl
      · exact hr y hy
      · exact assocInst_unreadable L x ch (copyInst_unreadable L false x (hu rfl) (hr x (List.mem_of_getElem? hx)))
  | set i f v =>
    simp only [step] at hy
    cases hx : insts[i]? with
    | none => simp only [hx] at hy; exact hr y hy
    | some x =>
      simp only [hx] at hy
      by_cases hf : L.leafFrozen = true
      · simp only [hf, if_true] at hy; exact hr y hy
      · simp only [hf, Bool.false_eq_true, if_false] at hy
        rcases mem_set_ne _ _ _ _ hy with rfl | hy
        · have := hr x (List.mem_of_getElem? hx)
          simpa [readCell] using this
        · exact hr y hy

/-- in the K1 / K2 shapes no hash call of any history succeeds -/
theorem runOps_known_shapes_raise (c : Case) (L : Layout) (n : Node) (hg : L.hres = .gen n)
    (hc : n.facts.cacheOn = true) (hk : k1 L = true ∨ k2 L = true)
    :
    ∀ (ops : List Op) (insts : List Inst), Unreadable L insts →
      (∀ op ∈ ops, isCopyOp op = true → L.copyMode = .state → L.stateReset = false) →
      ∀ p ∈ ops.zip (runOps c L insts ops), isHashOp p.1 = true → p.2.out ≠ .ok := by
  intro ops
  induction ops with
  | nil => intro insts _ _ p hp; simp [runOps] at hp
  | cons op rest ih =>
    intro insts hr hu p hp hh
    simp only [runOps, List.zip_cons_cons, List.mem_cons] at hp
    rcases hp with rfl | hp
    · cases op with
      | hash i alt =>
        simp only [step, hashOp]
        cases hx : insts[i]? with
        | none => simp [Res.plain]
        | some x =>
          have hxr := hr x (List.mem_of_getElem? hx)
          simp [hashCall, hg, hc, hxr]
      | copy i => simp [isHashOp] at hh
      | deepcopy i => simp [isHashOp] at hh
      | pickle i => simp [isHashOp] at hh
      | evolve i ch => simp [isHashOp] at hh
      | assoc i ch => simp [isHashOp] at hh
      | set i f v => simp [isHashOp] at hh
    · exact ih _ (step_unreadable c L n insts op hg hc hk (hu op List.mem_cons_self) hr)
        (fun o ho => hu o (List.mem_cons_of_mem _ ho)) p hp hh

theorem specOps_false_of_raise (c : Case) (L : Layout) (n : Node) (hg : L.hres = .gen n) :
    ∀ (ops : List Op) (rs : List Res),
      (∃ p ∈ ops.zip rs, isHashOp p.1 = true ∧ p.2.out ≠ .ok) → specOps c L ops rs = false := by
  intro ops
  induction ops with
  | nil => intro rs h; simp at h
  | cons op rest ih =>
    intro rs h
    cases rs with
    | nil => simp at h
    | cons r rs =>
      obtain ⟨p, hp, hh, ho⟩ := h
      simp only [List.zip_cons_cons, List.mem_cons] at hp
      simp only [specOps, Bool.and_eq_false_iff]
      rcases hp with rfl | hp
      · left
        cases op with
        | hash i alt =>
          simp only [specOp, hg, Bool.and_eq_false_iff]
          left; left; left
          simpa using ho
        | copy i => simp [isHashOp] at hh
        | deepcopy i => simp [isHashOp] at hh
        | pickle i => simp [isHashOp] at hh
        | evolve i ch => simp [isHashOp] at hh
        | assoc i ch => simp [isHashOp] at hh
        | set i f v => simp [isHashOp] at hh
      · right; exact ih rs ⟨p, hp, hh, ho⟩

theorem copyInst_vals (L : Layout) (deep : Bool) (x : Inst) : (copyInst L deep x).vals = x.vals := by
  unfold copyInst
  cases L.copyMode <;> simp
  cases L.stateReset <;> simp [writeCell_vals]

theorem assocInst_vals (L : Layout) (x : Inst) (ch : List (Nat × Nat)) :
    (assocInst L x ch).vals = applyChanges x.vals ch := by
  unfold assocInst
  simp only [readCell_vals]
  cases readCell L (copyInst L false x) <;> simp [writeCell_vals, copyInst_vals]

end Attrs.C04
