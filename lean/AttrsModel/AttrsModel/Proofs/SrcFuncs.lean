/-
  T1b lemmas: the decision functions *translated from /repo's source on this run* (`Attrs.Gen.*`,
  Generated/Funcs.lean) compute what the hand-written models (`Model/C09`, `Model/C14`, `Model/C07`) compute.
  Property-level statements live in Properties/C09.lean, C14.lean, C01.lean, C04.lean, C15.lean.
-/
import AttrsModel.Generated.Funcs
import AttrsModel.Model.C09
import AttrsModel.Model.C14
import AttrsModel.Model.C07

namespace Attrs.Src
open Attrs.Py

/-- Python's None / True / False for an optional boolean -/
def embOB : Option Bool → PV
  | none => vNone
  | some b => vBool b

/-- a per-field `cmp=` / `eq=` / `order=` argument as the Python object passed (`key n` = a callable) -/
def embFArg (k : Nat) : C09.FArg → PV
  | .unset => vNone
  | .t => vTrue
  | .f => vFalse
  | .key => vFn k

/-- which object ends up in `eq_key` / `order_key` for a model view, given the three callables passed -/
def viewKey (kc ke ko : Nat) : C09.View → PV
  | .raw => vNone
  | .ck => vFn kc
  | .ek => vFn ke
  | .ok => vFn ko

def embTri : C14.Tri → PV
  | .non => vNone
  | .t => vTrue
  | .f => vFalse

/-- `_determine_attrs_eq_order` as written in the source = `C09.determineAttrs` -/
theorem determine_attrs (env : Env) (ext : Ext) (cmp eq order d : Option Bool) :
    Gen.determine_attrs_eq_order env ext (embOB cmp) (embOB eq) (embOB order) (embOB d) =
      match C09.determineAttrs cmp eq order d with
      | .ok (e, o) => .ok (mkTup [embOB e, embOB o])
      | .error _ => .error .valueError := by
  rcases cmp with _ | _ | _ <;> rcases eq with _ | _ | _ <;> rcases order with _ | _ | _ <;>
    rcases d with _ | _ | _ <;> rfl

/-- `_determine_attrib_eq_order(cmp, eq, order, True)` as written in the source = `C09.determineAttrib`:
    same effective booleans, and the key objects are exactly the callables the model's views name -/
theorem determine_attrib (env : Env) (ext : Ext) (kc ke ko : Nat) (cmp eq order : C09.FArg) :
    Gen.determine_attrib_eq_order env ext (embFArg kc cmp) (embFArg ke eq) (embFArg ko order) vTrue =
      match C09.determineAttrib cmp eq order with
      | some (e, ev, o, ov) => .ok (mkTup [vBool e, viewKey kc ke ko ev, vBool o, viewKey kc ke ko ov])
      | none => .error .valueError := by
  cases cmp <;> cases eq <;> cases order <;> rfl

theorem items_mkTup_strs (ds : List String) : items (mkTup (ds.map vStr)) = ds.map vStr := by
  simp [items, mkTup, List.map_map, Function.comp_def]

/-- the loop of `_determine_whether_to_implement` over a tuple of names -/
theorem find_own (ext : Ext) (cls : PV) (own : String → Bool)
    (hext : ∀ d, ext "_has_own_attribute" [cls, vStr d] = vBool (own d)) (ds : List String) :
    ((ds.map vStr).find? (fun d => truthy (ext "_has_own_attribute" [cls, d]))).isSome = ds.any own := by
  induction ds with
  | nil => rfl
  | cons d ds ih =>
    simp only [List.map_cons, List.find?_cons, List.any_cons, hext d]
    cases h : own d <;> simp_all [truthy, atomTruthy]

/-- `_determine_whether_to_implement` as written in the source = `C14.determine`, for every class dict, flag,
    tuple of dunder names (any length) and default, when `_has_own_attribute` means membership in the class dict -/
theorem whether_to_implement (env : Env) (ext : Ext) (cls : PV) (cd : C14.Dict)
    (hext : ∀ d, ext "_has_own_attribute" [cls, vStr d] = vBool (C14.hasOwn cd d))
    (flag : C14.Tri) (autoDetect : Bool) (dunders : List String) (dflt : Bool) :
    Gen.determine_whether_to_implement env ext cls (embTri flag) (vBool autoDetect) (mkTup (dunders.map vStr))
        (vBool dflt) = .ok (vBool (C14.determine cd flag autoDetect dunders dflt)) := by
  have hf := find_own ext cls (C14.hasOwn cd) hext dunders
  unfold Gen.determine_whether_to_implement C14.determine
  rw [items_mkTup_strs]
  generalize (dunders.map vStr).find? (fun d => truthy (ext "_has_own_attribute" [cls, d])) = fd at hf
  cases flag <;> cases autoDetect <;> cases fd <;> cases hany : dunders.any (C14.hasOwn cd) <;>
    simp_all [embTri, truthy, atomTruthy, pyOr, pyAnd, pyIs, pure, Except.pure]

/-- `_determine_whether_to_implement` never raises -/
theorem whether_to_implement_total (env : Env) (ext : Ext) (cls flag ad ds dflt : PV) :
    ∃ v, Gen.determine_whether_to_implement env ext cls flag ad ds dflt = .ok v := by
  unfold Gen.determine_whether_to_implement
  split
  · exact ⟨_, rfl⟩
  · split
    · exact ⟨_, rfl⟩
    · split <;> exact ⟨_, rfl⟩

/-- `_default_init_alias_for` as written in the source strips exactly the leading underscores (`C07.lstripUnderscore`) -/
theorem default_alias (env : Env) (ext : Ext) (s : String) :
    Gen.default_init_alias_for env ext (vStr s) = .ok (vStr (C07.lstripUnderscore s)) := by
  have h1 : ("_" : String).toList = ['_'] := by decide
  have h2 : (fun c : Char => ['_'].contains c) = (fun c => c == '_') := by
    funext c
    cases h : (c == '_') <;> simp_all
  unfold Gen.default_init_alias_for C07.lstripUnderscore pyLstrip
  simp only [h1, h2]
  rfl

end Attrs.Src
