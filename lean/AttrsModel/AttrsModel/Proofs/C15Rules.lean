/-
  C15 — every failing check of the model is an applicable rule of the table (soundness), every applicable
  rule makes some check fail (completeness).
-/
import AttrsModel.Proofs.C15Bridge

namespace Attrs.C15

theorem rule_mem_all (r : Rule) : r ∈ Rule.all := by cases r <;> simp [Rule.all]
theorem may_mem_all (r : MayRule) : r ∈ MayRule.all := by cases r <;> simp [MayRule.all]

theorem allowed_of_rule {c : Case} (r : Rule) (h : r.applies c = true) : allowedKind c r.kind = true := by
  unfold allowedKind
  rw [Bool.or_eq_true]; left
  rw [List.any_eq_true]
  exact ⟨r, rule_mem_all r, by simp [h]⟩

theorem allowed_of_may {c : Case} (r : MayRule) (h : r.applies c = true) : allowedKind c r.kind = true := by
  unfold allowedKind
  rw [Bool.or_eq_true]; right
  rw [List.any_eq_true]
  exact ⟨r, may_mem_all r, by simp [h]⟩

theorem mustFail_of_rule {c : Case} (r : Rule) (h : r.applies c = true) : mustFail c = true := by
  unfold mustFail
  rw [List.any_eq_true]
  exact ⟨r, rule_mem_all r, h⟩

def mayFail (c : Case) : Bool := MayRule.all.any (·.applies c)

/-! ### field checks -/

theorem mem_made {c : Case} {f : Field} (hf : f ∈ c.fields) (hb : f.bare = false) : f ∈ c.made := by
  simp [Case.made, hf, hb]

theorem secondDefault_cond (f : Field) :
    (f.deco && decide (defaultSources f ≥ 2)) = (f.deco && (f.dflt || f.factory || f.decoMore != 0)) := by
  unfold defaultSources
  cases f.deco <;> cases f.dflt <;> cases f.factory <;> simp
  all_goals (try omega)
  cases f.decoMore <;> simp <;> omega

theorem fieldChecks_sound (c : Case) (f : Field) (hf : f ∈ c.fields) :
    ∀ p ∈ fieldChecks f, p.1 = true → ∃ r : Rule, r.applies c = true ∧ r.kind = p.2 := by
  intro p hp h1
  unfold fieldChecks at hp
  cases hb : f.bare
  · have hm := mem_made hf hb
    simp only [hb, Bool.false_eq_true, if_false, List.mem_cons, List.mem_nil_iff, or_false] at hp
    rcases hp with rfl | rfl | rfl | rfl | rfl
    · exact ⟨.fieldCmpMixed, by simp only [Rule.applies, List.any_eq_true]; exact ⟨f, hm, h1⟩, rfl⟩
    · refine ⟨.fieldOrderWithoutEq, ?_, rfl⟩
      simp only [Rule.applies, List.any_eq_true]
      refine ⟨f, hm, ?_⟩
      simp only [Field.effEq, Field.effOrder] at h1
      revert h1
      cases f.cmp <;> cases f.eq <;> cases f.order <;> decide
    · exact ⟨.fieldHashNotBool, by simp only [Rule.applies, List.any_eq_true]; exact ⟨f, hm, h1⟩, rfl⟩
    · refine ⟨.defaultAndFactory, ?_, rfl⟩
      simp only [Rule.applies, List.any_eq_true]
      exact ⟨f, hm, by simpa [Bool.and_comm] using h1⟩
    · exact ⟨.secondDefault, by
        simp only [Rule.applies, List.any_eq_true]
        exact ⟨f, hm, by rw [secondDefault_cond]; exact h1⟩, rfl⟩
  · simp [hb] at hp

theorem fieldRule_complete (c : Case) (P : Field → Bool) (h : c.made.any P = true)
    (hP : ∀ f, f.bare = false → P f = true → ∃ p ∈ fieldChecks f, p.1 = true) :
    ∃ p ∈ c.fields.flatMap fieldChecks, p.1 = true := by
  rw [List.any_eq_true] at h
  obtain ⟨f, hf, hpf⟩ := h
  simp only [Case.made, List.mem_filter, Bool.not_eq_true'] at hf
  obtain ⟨p, hp, h1⟩ := hP f hf.2 hpf
  exact ⟨p, List.mem_flatMap.2 ⟨f, hf.1, hp⟩, h1⟩

/-! ### decoration checks: soundness -/

theorem defineCheck_sound (c : Case) (h1 : (c.api == .define && c.baseFrozen && c.onSetattr.isHook) = true) :
    (∃ r : Rule, r.applies c = true ∧ r.kind = .valueError) ∨
      (∃ r : MayRule, r.applies c = true ∧ r.kind = .valueError) := by
  simp only [Bool.and_eq_true, beq_iff_eq] at h1
  obtain ⟨⟨ha, hb⟩, hh⟩ := h1
  rw [isHook_eq_userHooks] at hh
  cases hs : c.ownSetattr
  · exact Or.inl ⟨.hooksOnFrozen, by simp [Rule.applies, Case.frozenClass, hb, hs, hh], rfl⟩
  · exact Or.inr ⟨.defineHooksBelowFrozenHidden, by simp [MayRule.applies, ha, hb, hs, hh], rfl⟩

theorem eqOrder_sound (c : Case) (h1 : c.eqOrderFails = true) :
    ∃ r : Rule, r.applies c = true ∧ r.kind = .valueError := by
  rw [eqOrderFails_eq, Bool.or_eq_true] at h1
  rcases h1 with h | h
  · exact ⟨.cmpMixed, h, rfl⟩
  · exact ⟨.orderWithoutEq, h, rfl⟩

/-- the checks of `attrs.wrap`, reached only when the eq/order arguments were accepted -/
theorem wrapChecks_sound (c : Case) (he : c.eqOrderFails = false) :
    ∀ p ∈ wrapChecks c c.annotationMode, p.1 = true →
      (∃ r : Rule, r.applies c = true ∧ r.kind = p.2) ∨
        (∃ r : MayRule, r.applies c = true ∧ r.kind = p.2) := by
  intro p hp h1
  simp only [wrapChecks, List.mem_cons, List.mem_nil_iff, or_false] at hp
  rcases hp with rfl | rfl | rfl | rfl | rfl | rfl | rfl | rfl | rfl | rfl | rfl
  · -- own __setattr__ + frozen
    simp only [hasOwnSetattr_eq, Case.isFrozen, Bool.and_eq_true, Bool.or_eq_true, Bool.not_eq_true'] at h1
    refine (Or.inl ⟨.frozenWithOwnSetattr, ?_, rfl⟩)
    simp only [Rule.applies, Bool.and_eq_true]
    obtain ⟨⟨hd, hs⟩, hf | ⟨_, hn⟩⟩ := h1
    · exact ⟨⟨hd, hs⟩, hf⟩
    · rw [hs] at hn; cases hn
  · -- unannotated
    simp only at h1
    rw [unannCond_eq] at h1
    exact (Or.inl ⟨.unannotated, h1, rfl⟩)
  · exact (Or.inl ⟨.annotationAndType, h1, rfl⟩)
  · simp only at h1
    rw [orderLoop_false] at h1
    exact (Or.inl ⟨.mandatoryAfterDefault, h1, rfl⟩)
  · -- add_str
    simp only at h1
    rw [genRepr_eq] at h1
    exact Or.inr ⟨.strWithoutAnyRepr, h1, rfl⟩
  · -- add_setattr
    simp only [Bool.and_eq_true, Bool.not_eq_true', hasOwnSetattr_eq] at h1
    obtain ⟨⟨hf, hsa⟩, hd, hs⟩ := h1
    have hnf : c.isFrozen = false := by simp [Case.isFrozen, hf, hs]
    refine (Or.inl ⟨.hooksWithOwnSetattr, ?_, rfl⟩)
    simp only [Rule.applies, Case.someFieldHooked, hd, hs, hf, Bool.not_false, Bool.and_true, Bool.true_and]
    rw [← builderOn_notFrozen c hnf]
    exact hsa
  · simp only at h1
    rw [hashArg_eq] at h1
    exact (Or.inl ⟨.hashNotBool, h1, rfl⟩)
  · -- cache_hash without generated hash
    simp only [Bool.and_eq_true, Bool.not_eq_true'] at h1
    rw [addsHash_eq c (genEq_eq c he)] at h1
    exact (Or.inl ⟨.cacheHashNoHash, by simp [Rule.applies, h1.1, h1.2], rfl⟩)
  · -- class-level hooks on frozen
    simp only [Bool.and_eq_true] at h1
    have hb := builderOn_frozen c h1.1
    simp only [Case.attrs] at hb
    rw [hb, Bool.and_eq_true] at h1
    exact (Or.inl ⟨.hooksOnFrozen, by simp [Rule.applies, ← isFrozen_eq, h1.1, h1.2.1], rfl⟩)
  · -- field-level on_setattr on frozen
    simp only [Bool.and_eq_true, List.any_eq_true, bne_iff_ne] at h1
    obtain ⟨hf, a, ha, hne⟩ := h1
    cases hon : a.onSetattr
    · exact absurd hon hne
    · refine (Or.inl ⟨.fieldHooksOnFrozen, ?_, rfl⟩)
      simp only [Rule.applies, ← isFrozen_eq, hf, Bool.true_and, List.any_eq_true]
      exact ⟨a, ha, by simp [hon]⟩
    · refine (Or.inr ⟨.fieldNoopOnFrozen, ?_, rfl⟩)
      simp only [MayRule.applies, ← isFrozen_eq, hf, Bool.true_and, List.any_eq_true]
      exact ⟨a, ha, by simp [hon]⟩
  · simp only [Bool.and_eq_true, Bool.not_eq_true'] at h1
    rw [genInit_eq] at h1
    exact (Or.inl ⟨.cacheHashNoInit, by simp [Rule.applies, h1.1, h1.2], rfl⟩)

/-! ### completeness: an applicable rule makes some check fail -/

theorem mem_checks_of_field {c : Case} {p : Bool × Exc} (h : p ∈ c.fields.flatMap fieldChecks) : p ∈ checks c :=
  List.mem_append_left _ h

theorem mem_checks_of_all {c : Case} {p : Bool × Exc} (h : p ∈ allChecks c) : p ∈ checks c :=
  List.mem_append_right _ h

/-- membership of the i-th `attrs.wrap` check in the flat list -/
theorem mem_checks_of_wrap {c : Case} {p : Bool × Exc} (h : p ∈ wrapChecks c c.annotationMode) : p ∈ checks c :=
  mem_checks_of_all (List.mem_cons_of_mem _ (List.mem_cons_of_mem _ h))

theorem rule_complete (c : Case) (r : Rule) (h : r.applies c = true) : ∃ p ∈ checks c, p.1 = true := by
  cases r
  case mandatoryAfterDefault =>
    simp only [Rule.applies] at h
    refine ⟨(orderLoop false (effAttrs c c.annotationMode), .valueError), mem_checks_of_wrap (by simp [wrapChecks]), ?_⟩
    simp only [orderLoop_false]; exact h
  case orderWithoutEq =>
    exact ⟨(c.eqOrderFails, .valueError), mem_checks_of_all (by simp [allChecks]), by
      simp only [eqOrderFails_eq, h, Bool.or_true]⟩
  case cmpMixed =>
    exact ⟨(c.eqOrderFails, .valueError), mem_checks_of_all (by simp [allChecks]), by
      simp only [eqOrderFails_eq, h, Bool.true_or]⟩
  case fieldOrderWithoutEq =>
    simp only [Rule.applies] at h
    obtain ⟨p, hp, h1⟩ := fieldRule_complete c _ h (fun f hb hP =>
      ⟨(f.cmp == .none && !f.effEq && f.effOrder, .valueError), by simp [fieldChecks, hb], by
        simp only [Field.effEq, Field.effOrder]
        revert hP
        cases f.cmp <;> cases f.eq <;> cases f.order <;> decide⟩)
    exact ⟨p, mem_checks_of_field hp, h1⟩
  case fieldCmpMixed =>
    simp only [Rule.applies] at h
    obtain ⟨p, hp, h1⟩ := fieldRule_complete c _ h (fun f hb hP =>
      ⟨(f.cmp != .none && (f.eq != .none || f.order != .none), .valueError), by simp [fieldChecks, hb], hP⟩)
    exact ⟨p, mem_checks_of_field hp, h1⟩
  case defaultAndFactory =>
    simp only [Rule.applies] at h
    obtain ⟨p, hp, h1⟩ := fieldRule_complete c _ h (fun f hb hP =>
      ⟨(f.factory && f.dflt, .valueError), by simp [fieldChecks, hb], by simpa [Bool.and_comm] using hP⟩)
    exact ⟨p, mem_checks_of_field hp, h1⟩
  case secondDefault =>
    simp only [Rule.applies] at h
    obtain ⟨p, hp, h1⟩ := fieldRule_complete c _ h (fun f hb hP =>
      ⟨(f.deco && (f.dflt || f.factory || f.decoMore != 0), .defaultAlreadySet), by simp [fieldChecks, hb], by
        rw [← secondDefault_cond]; exact hP⟩)
    exact ⟨p, mem_checks_of_field hp, h1⟩
  case annotationAndType =>
    simp only [Rule.applies] at h
    exact ⟨((ownSource c c.annotationMode).any (fun f => f.annotated && f.typeArg), .valueError),
      mem_checks_of_wrap (by simp [wrapChecks]), h⟩
  case unannotated =>
    refine ⟨(!c.these && c.annotationMode && c.fields.any Field.unann, .unannotated),
      mem_checks_of_wrap (by simp [wrapChecks]), ?_⟩
    simp only [unannCond_eq]; exact h
  case cacheHashNoHash =>
    simp only [Rule.applies, Bool.and_eq_true, Bool.not_eq_true'] at h
    cases he : c.eqOrderFails
    · refine ⟨(c.cacheHash && !c.addsHash, .typeError), mem_checks_of_wrap (by simp [wrapChecks]), ?_⟩
      simp [addsHash_eq c (genEq_eq c he), h.1, h.2]
    · exact ⟨(c.eqOrderFails, .valueError), mem_checks_of_all (by simp [allChecks]), he⟩
  case cacheHashNoInit =>
    simp only [Rule.applies, Bool.and_eq_true, Bool.not_eq_true'] at h
    refine ⟨(c.cacheHash && !c.genInit, .typeError), mem_checks_of_wrap (by simp [wrapChecks]), ?_⟩
    simp [genInit_eq, h.1, h.2]
  case hashNotBool =>
    simp only [Rule.applies] at h
    refine ⟨(c.hashArg == .bad, .typeError), mem_checks_of_wrap (by simp [wrapChecks]), ?_⟩
    simp only [hashArg_eq]; exact h
  case fieldHashNotBool =>
    simp only [Rule.applies] at h
    obtain ⟨p, hp, h1⟩ := fieldRule_complete c _ h (fun f hb hP =>
      ⟨(f.hash == .bad, .typeError), by simp [fieldChecks, hb], hP⟩)
    exact ⟨p, mem_checks_of_field hp, h1⟩
  case hooksOnFrozen =>
    simp only [Rule.applies, Bool.and_eq_true] at h
    cases hd : (c.api == .define && c.baseFrozen)
    · refine ⟨(c.isFrozen && (builderOn c (effAttrs c c.annotationMode)).isHook, .valueError),
        mem_checks_of_wrap (by simp [wrapChecks]), ?_⟩
      have hb := builderOn_frozen c h.1
      simp only [Case.attrs] at hb
      simp only [hb, isFrozen_eq, h.1, h.2, hd, Bool.not_false, Bool.and_self]
    · refine ⟨(c.api == .define && c.baseFrozen && c.onSetattr.isHook, .valueError),
        mem_checks_of_all (by simp [allChecks]), ?_⟩
      simp only [hd, isHook_eq_userHooks, h.2, Bool.and_self]
  case fieldHooksOnFrozen =>
    simp only [Rule.applies, Bool.and_eq_true, List.any_eq_true] at h
    obtain ⟨hf, a, ha, hon⟩ := h
    refine ⟨(c.isFrozen && (effAttrs c c.annotationMode).any (fun a => a.onSetattr != .none), .valueError),
      mem_checks_of_wrap (by simp [wrapChecks]), ?_⟩
    simp only [isFrozen_eq, hf, Bool.true_and, List.any_eq_true]
    refine ⟨a, ha, ?_⟩
    rw [beq_iff_eq] at hon
    simp [hon]
  case hooksWithOwnSetattr =>
    simp only [Rule.applies, Bool.and_eq_true, Bool.not_eq_true'] at h
    obtain ⟨⟨⟨hd, hs⟩, hf⟩, hh⟩ := h
    have hnf : c.isFrozen = false := by simp [Case.isFrozen, hf, hs]
    refine ⟨(!c.frozen && saNonEmpty (effAttrs c c.annotationMode) (builderOn c (effAttrs c c.annotationMode))
        && c.hasOwnSetattr, .valueError), mem_checks_of_wrap (by simp [wrapChecks]), ?_⟩
    have hb := builderOn_notFrozen c hnf
    simp only [Case.attrs] at hb
    simp only [hf, Bool.not_false, Bool.true_and, hasOwnSetattr_eq, hd, hs, Bool.and_self, Bool.and_true]
    unfold saNonEmpty
    rw [hb]
    exact hh
  case frozenWithOwnSetattr =>
    simp only [Rule.applies, Bool.and_eq_true] at h
    refine ⟨(c.hasOwnSetattr && c.isFrozen, .valueError), mem_checks_of_wrap (by simp [wrapChecks]), ?_⟩
    simp [hasOwnSetattr_eq, Case.isFrozen, h.1.1, h.1.2, h.2]

theorem may_complete (c : Case) (r : MayRule) (h : r.applies c = true) : ∃ p ∈ checks c, p.1 = true := by
  cases r
  case fieldNoopOnFrozen =>
    simp only [MayRule.applies, Bool.and_eq_true, List.any_eq_true] at h
    obtain ⟨hf, a, ha, hon⟩ := h
    refine ⟨(c.isFrozen && (effAttrs c c.annotationMode).any (fun a => a.onSetattr != .none), .valueError),
      mem_checks_of_wrap (by simp [wrapChecks]), ?_⟩
    simp only [isFrozen_eq, hf, Bool.true_and, List.any_eq_true]
    refine ⟨a, ha, ?_⟩
    rw [beq_iff_eq] at hon
    simp [hon]
  case defineHooksBelowFrozenHidden =>
    simp only [MayRule.applies, Bool.and_eq_true] at h
    refine ⟨(c.api == .define && c.baseFrozen && c.onSetattr.isHook, .valueError),
      mem_checks_of_all (by simp [allChecks]), ?_⟩
    simp [isHook_eq_userHooks, h.1.1.1, h.1.1.2, h.2]
  case strWithoutAnyRepr =>
    simp only [MayRule.applies] at h
    refine ⟨(c.str && !c.genRepr && !c.ownRepr, .valueError), mem_checks_of_wrap (by simp [wrapChecks]), ?_⟩
    simp only [genRepr_eq]; exact h

theorem allowed_cases {c : Case} {k : Exc} (h : allowedKind c k = true) :
    (∃ r : Rule, r.applies c = true ∧ r.kind = k) ∨ (∃ r : MayRule, r.applies c = true ∧ r.kind = k) := by
  unfold allowedKind at h
  rw [Bool.or_eq_true, List.any_eq_true, List.any_eq_true] at h
  rcases h with ⟨r, _, hr⟩ | ⟨r, _, hr⟩
  · left; simp only [Bool.and_eq_true, beq_iff_eq] at hr; exact ⟨r, hr.1, hr.2⟩
  · right; simp only [Bool.and_eq_true, beq_iff_eq] at hr; exact ⟨r, hr.1, hr.2⟩


end Attrs.C15
