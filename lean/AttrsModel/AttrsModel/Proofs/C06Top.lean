/-
  C06 — histories (induction over arbitrary-length assignment sequences), the initial snapshot, and the
  shape theorem behind K6 (hooks are inherited only through "plain class, then slotted attrs class").
-/
import AttrsModel.Proofs.C06Run

namespace Attrs.C06
open Attrs.Init (Val Conv Event EventId)

/-! ### histories -/

theorem steps_ok (cs : List Cls) (rt : CState) (l : Cls) (e0 : Eff) (hl : Leaf cs rt l e0)
    (hk : rt.inheritsHooks = false) (rv : Bool) (fault : Option (Nat × Nat)) (k : Option FaultKind)
    (ps : List String) (hps : ∀ f ∈ fieldsOf cs, f.name ∈ ps) (h : List Assign) (i : Nat) (st : Store) :
    stepsOk cs rv fault k i (snapshot ps st) h (runHistory rt rv fault k ps i st h) = true := by
  induction h generalizing i st with
  | nil => rfl
  | cons a rest ih =>
    simp only [runHistory, stepsOk, Bool.and_eq_true]
    obtain ⟨h1, h2⟩ := step_ok cs rt l e0 hl rv (faultAt fault i) k ps st a
      (if (assign rt rv (faultAt fault i) st a.name a.value).2.exc.isNone then ctorVal rt rv a else none)
    refine ⟨⟨h1, ?_⟩, ih (i + 1) _⟩
    -- the construction clause
    unfold ctorOk
    simp only
    cases hdd : isDefineDefault cs a.name with
    | false => simp
    | true =>
      cases hexc : (assign rt rv (faultAt fault i) st a.name a.value).2.exc with
      | some x => simp
      | none =>
        simp only [Option.map_none]
        obtain ⟨f, hf, hget⟩ := h2 hdd hexc
        have hinit : f.init = true := by
          unfold isDefineDefault at hdd
          rw [hl.last, hf] at hdd
          simp only [Bool.and_eq_true] at hdd
          exact hdd.2
        have hct := ctorVal_plain cs rt rv a f hl.inv hk hf hinit
        have hmem : a.name ∈ ps := by
          obtain ⟨hfm, hfn⟩ := fieldOf_mem cs a.name f hf
          rw [← hfn]; exact hps f hfm
        simp [hct, snapGet_snapshot ps _ a.name hmem, hget]

/-! ### the initial snapshot -/

theorem presetStore_get (rt : CState) (hn : (rt.attrs.map (·.name)).Nodup) (n : String) :
    (presetStore rt).get n = if (rt.attrs.map (·.name)).contains n then some (initVal n) else none := by
  unfold presetStore
  rw [foldl_set_get rt.attrs (fun f => initVal f.name) [] n hn]
  cases hfind : rt.attrs.find? (fun f => f.name == n) with
  | some f =>
    have hfn : f.name = n := by simpa using List.find?_some hfind
    have hm : n ∈ rt.attrs.map (·.name) := by
      rw [List.mem_map]; exact ⟨f, List.mem_of_find?_eq_some hfind, hfn⟩
    simp [hfn, hm]
  | none =>
    have hm : n ∉ rt.attrs.map (·.name) := by
      intro hm
      rw [List.mem_map] at hm
      obtain ⟨f, hf, hfn⟩ := hm
      have := List.find?_eq_none.1 hfind f hf
      simp [hfn] at this
    simp [hm, Store.get, Init.lookup]

theorem initSnap_eq (cs : List Cls) (rt : CState) (hinv : Inv cs rt) (preset : Bool) (h : List Assign) :
    initSnap cs preset h = snapshot (probes rt h) (if preset then presetStore rt else []) := by
  unfold initSnap probesOf probes snapshot
  rw [← hinv.attrs]
  apply List.map_congr_left
  intro n _
  cases preset with
  | false => simp [Store.get, Init.lookup]
  | true => simp [presetStore_get rt hinv.nodup n]

theorem model_defErr (c : Case) : (model c).defErr = defErrOf (defineChain c.cls) := by
  unfold model defErrOf
  cases defineChain c.cls <;> rfl

/-! ### hooks are inherited only through the K6 shape -/

/-- somewhere in the chain a slotted attrs class sits directly below a plain class -/
def Confused (cs : List Cls) : Prop :=
  ∃ a P S rest, cs = a ++ P :: S :: rest ∧ P.kind = .plain ∧ S.kind = .attrs ∧ S.slots = true

def lastIsPlain (cs : List Cls) : Prop := ∃ a P, cs = a ++ [P] ∧ P.kind = .plain

theorem Confused.snoc {cs : List Cls} (h : Confused cs) (c : Cls) : Confused (cs ++ [c]) := by
  obtain ⟨a, P, S, rest, rfl, h1, h2, h3⟩ := h
  exact ⟨a, P, S, rest ++ [c], by simp, h1, h2, h3⟩

/-- where a hooked `__setattr__` on a (clean) prefix can come from -/
def HookInv (pre : List Cls) (s : CState) : Prop :=
  s.impl.isHooked = true →
    (s.wroteHooks = true ∧ s.flagOwn = some true ∧ s.flagRes = true) ∨
    (s.wroteHooks = false ∧ s.flagOwn = none ∧ s.flagRes = true ∧ lastIsPlain pre) ∨
    (s.wroteHooks = false ∧ Confused pre)

theorem hookInv_step (pre : List Cls) (b : CState) (c : Cls) (s : CState) (hb : HookInv pre b)
    (hplain : b.impl.plainish = true) (hc : cleanCls c = true) (hd : defineCls b c = .ok s) :
    HookInv (pre ++ [c]) s := by
  unfold cleanCls at hc
  simp only [Bool.and_eq_true, Bool.not_eq_true'] at hc
  obtain ⟨hfa, hown⟩ := hc
  have hbf := plainish_not_frozen _ hplain
  unfold defineCls at hd
  cases hk : c.kind with
  | plain =>
    simp only [hk] at hd
    cases hd
    intro hh
    have hbh : b.impl.isHooked = true := by simpa [definePlain, hown] using hh
    rcases hb hbh with ⟨_, _, h3⟩ | ⟨_, _, h3, _⟩ | ⟨_, h2⟩
    · right; left
      exact ⟨rfl, rfl, by simpa [definePlain] using h3, pre, c, rfl, hk⟩
    · right; left
      exact ⟨rfl, rfl, by simpa [definePlain] using h3, pre, c, rfl, hk⟩
    · right; right
      exact ⟨rfl, h2.snoc c⟩
  | attrs =>
    simp only [hk] at hd
    obtain ⟨e0, he, hr, rfl⟩ := defineAttrs_ok b c s hd
    have hnf : isFrozenOf b c = false := by simp [isFrozenOf, hfa, hbf]
    intro hh
    unfold finish at hh ⊢
    dsimp only at hh ⊢
    simp only [hnf, hown, hasCustomOf, Bool.and_false, Bool.not_false, Bool.true_and, Bool.false_eq_true,
      if_false] at hh ⊢
    cases hse : (saOf b c e0).isEmpty with
    | false =>
      left
      simp
    | true =>
      simp only [hse, Bool.not_true, Bool.false_eq_true, if_false] at hh ⊢
      cases hs : c.slots with
      | true =>
        simp only [hs, if_true] at hh ⊢
        cases hfo : (b.flagOwn == some true) with
        | true => simp [hfo, Impl.isHooked] at hh
        | false =>
          simp only [hfo, Bool.false_eq_true, if_false] at hh ⊢
          have hne : b.flagOwn ≠ some true := by simpa using hfo
          right; right
          refine ⟨trivial, ?_⟩
          rcases hb hh with ⟨_, h2, _⟩ | ⟨_, _, _, a, P, hp, hP⟩ | ⟨_, h2⟩
          · exact absurd h2 hne
          · exact ⟨a, P, c, [], by simp [hp], hP, hk, hs⟩
          · exact h2.snoc c
      | false =>
        simp only [hs, Bool.false_eq_true, if_false] at hh ⊢
        cases hfr : b.flagRes with
        | true => simp [hfr, Impl.isHooked] at hh
        | false =>
          simp only [hfr, Bool.false_eq_true, if_false] at hh ⊢
          right; right
          refine ⟨trivial, ?_⟩
          rcases hb hh with ⟨_, _, h3⟩ | ⟨_, _, h3, _⟩ | ⟨_, h2⟩
          · rw [hfr] at h3; cases h3
          · rw [hfr] at h3; cases h3
          · exact h2.snoc c

theorem hookInv_chain (cs : List Cls) (pre : List Cls) (b : CState) (i : Nat) (s : CState)
    (hb : HookInv pre b) (hplain : b.impl.plainish = true) (hc : cs.all cleanCls = true)
    (hd : defineFrom b i cs = .ok s) : HookInv (pre ++ cs) s := by
  induction cs generalizing pre b i with
  | nil => simp only [defineFrom] at hd; cases hd; simpa using hb
  | cons c rest ih =>
    simp only [List.all_cons, Bool.and_eq_true] at hc
    simp only [defineFrom] at hd
    obtain ⟨t, ht, hp⟩ := defineCls_clean b c hplain hc.1
    rw [ht] at hd
    have := ih (pre ++ [c]) t (i + 1) (hookInv_step pre b c t hb hplain hc.1 ht) hp hc.2 hd
    simpa [List.append_assoc] using this

theorem defineFrom_append (pre cs : List Cls) (b : CState) (i : Nat) :
    defineFrom b i (pre ++ cs) =
      match defineFrom b i pre with
      | .ok s => defineFrom s (i + pre.length) cs
      | .error e => .error e := by
  induction pre generalizing b i with
  | nil => simp [defineFrom]
  | cons c rest ih =>
    simp only [List.cons_append, defineFrom, List.length_cons]
    cases hd : defineCls b c with
    | error e => rfl
    | ok s =>
      simp only
      rw [ih]
      have : i + 1 + rest.length = i + (rest.length + 1) := by omega
      rw [this]

/-! ### small helpers for Properties/C06.lean -/

theorem known_nil (c : Case) (rt : CState) (hd : defineChain c.cls = .ok rt) (hk : known c = []) :
    rt.inheritsHooks = false := by
  unfold known at hk
  rw [hd] at hk
  cases h : rt.inheritsHooks with
  | false => rfl
  | true => simp [h] at hk


/-- the nearest definition wins: `fieldOf` written out as a walk from the class under test up to the root -/
def nearest : List Cls → String → Option Field
  | [], _ => none
  | c :: rest, n =>
    match nearest rest n with
    | some f => some f
    | none => match c.kind with
      | .attrs => c.fields.find? (fun f => f.name == n)
      | .plain => none

theorem find_resolveAttrs (base own : List Field) (n : String) :
    (resolveAttrs base own).find? (fun f => f.name == n) =
      match own.find? (fun f => f.name == n) with
      | some f => some f
      | none => base.find? (fun f => f.name == n) := by
  unfold resolveAttrs
  rw [List.find?_append]
  cases ho : own.find? (fun f => f.name == n) with
  | some f =>
    have hfn : f.name = n := by simpa using List.find?_some ho
    have hany : own.any (fun x => x.name == n) = true := by
      rw [List.any_eq_true]; exact ⟨f, List.mem_of_find?_eq_some ho, by simp [hfn]⟩
    have : (base.filter (fun b => !own.any (·.name == b.name))).find? (fun f => f.name == n) = none := by
      rw [List.find?_eq_none]
      intro x hx hxn
      rw [List.mem_filter] at hx
      have hxn' : x.name = n := by simpa using hxn
      rw [hxn'] at hx
      simp [hany] at hx
    simp [this]
  | none =>
    have hnone : own.any (fun x => x.name == n) = false := by
      rw [List.any_eq_false]
      intro x hx
      have := List.find?_eq_none.1 ho x hx
      simpa using this
    have : (base.filter (fun b => !own.any (·.name == b.name))).find? (fun f => f.name == n) =
        base.find? (fun f => f.name == n) := by
      induction base with
      | nil => rfl
      | cons b rest ih =>
        simp only [List.filter_cons, List.find?_cons]
        by_cases hb : b.name = n
        · have : (b.name == n) = true := by simp [hb]
          simp [hb, hnone]
        · have hbn : (b.name == n) = false := by simpa using hb
          split
          · simp [hbn, ih]
          · simp [hbn, ih]
    simp [this]

theorem fieldOf_fold (cs : List Cls) (acc : List Field) (n : String) :
    (cs.foldl fieldsStep acc).find? (fun f => f.name == n) =
      match nearest cs n with
      | some f => some f
      | none => acc.find? (fun f => f.name == n) := by
  induction cs generalizing acc with
  | nil => rfl
  | cons c rest ih =>
    simp only [List.foldl_cons, nearest]
    rw [ih]
    cases nearest rest n with
    | some f => rfl
    | none =>
      cases hk : c.kind with
      | plain => simp [fieldsStep, hk]
      | attrs =>
        simp only [fieldsStep, hk]
        rw [find_resolveAttrs]


theorem hitPos_none (n : Nat) : hitPos none n = none := rfl


theorem plainStore_atomic (rt : CState) (st : Store) (n : String) (v : Val) (tr : List Event)
    (h : (plainStore rt st n v tr).2.exc ≠ none) : (plainStore rt st n v tr).1 = st := by
  unfold plainStore at h ⊢
  by_cases hc : (rt.hasDict || rt.slotNames.contains n) = true
  · rw [if_pos hc] at h; exact absurd rfl h
  · rw [if_neg hc]


end Attrs.C06
