/-
  C18 — helper lemmas: the constructor checks are the documented argument domain; the model meets the spec.
-/
import AttrsModel.Proofs.C18Hash
import AttrsModel.Proofs.C18Trace

namespace Attrs.C18

theorem funcValid_documented (fn : ReFuncArg) : funcValid fn = docFuncValid fn := by
  cases fn with
  | dflt => rfl
  | named s =>
    simp only [funcValid, docFuncValid, Generated.matchesReFuncs, List.contains_cons, List.contains_nil, Bool.or_false, Bool.or_assoc]

theorem first_eq_none' {a b : Option ExcKind} : first a b = none ↔ a = none ∧ b = none := by
  cases a <;> simp [first]

theorem matchesReErr_none (bo : BuildOracle) (r fl : Nat) (fn : ReFuncArg) :
    matchesReErr bo r fl fn = none ↔ reArgsOk bo r fl fn = true := by
  unfold matchesReErr reArgsOk
  rw [funcValid_documented]
  cases docFuncValid fn
  · simp
  · cases hp : bo.isPattern r
    · cases hc : bo.compile r fl <;> simp
    · by_cases hf : fl = 0 <;> simp [hf]

theorem needCallable_none (v : V) : needCallable v = none ↔ v.callable = true := by
  unfold needCallable; cases v.callable <;> simp

theorem needCallableOrNone_none (v : V) : needCallableOrNone v = none ↔ (v.isNoneV || v.callable) = true := by
  unfold needCallableOrNone; cases (v.isNoneV || v.callable) <;> simp

theorem excArgErr_none (e : ExcArg) : excArgErr e = none ↔ e.classes.all ExcClass.valid = true := by
  unfold excArgErr; cases e.classes.all ExcClass.valid <;> simp

mutual
theorem buildErr_none (bo : BuildOracle) : ∀ (v : V), buildErr bo v = none ↔ validArgs bo v = true
  | .instOf _ => by simp [buildErr, validArgs]
  | .matchesRe r fl fn => by simp [buildErr, validArgs, matchesReErr_none]
  | .optional v => by simp [buildErr, validArgs, buildErr_none bo v]
  | .optionalSeq _ vs => by simp [buildErr, validArgs, buildErrL_none bo vs]
  | .in_ _ => by simp [buildErr, validArgs]
  | .isCallable => by simp [buildErr, validArgs]
  | .deepIter m it => by
      simp [buildErr, validArgs, first_eq_none', buildErr_none bo m, buildErr_none bo it, needCallable_none,
        needCallableOrNone_none, and_assoc]
  | .deepIterSeq _ ms it => by
      simp [buildErr, validArgs, first_eq_none', buildErrL_none bo ms, buildErr_none bo it,
        needCallableOrNone_none, and_assoc]
  | .deepMap k v m => by
      simp [buildErr, validArgs, first_eq_none', buildErr_none bo k, buildErr_none bo v, buildErr_none bo m,
        needCallable_none, needCallableOrNone_none, and_assoc]
  | .num _ _ => by simp [buildErr, validArgs]
  | .maxLen _ => by simp [buildErr, validArgs]
  | .minLen _ => by simp [buildErr, validArgs]
  | .not_ v _ e => by simp [buildErr, validArgs, first_eq_none', buildErr_none bo v, excArgErr_none]
  | .or_ vs => by simp [buildErr, validArgs, buildErrL_none bo vs]
  | .and_ vs => by simp [buildErr, validArgs, buildErrL_none bo vs]
  | .andRaw _ vs => by simp [buildErr, validArgs, buildErrL_none bo vs]
  | .probe _ _ => by simp [buildErr, validArgs]
  | .junk => by simp [buildErr, validArgs]
  | .noneV => by simp [buildErr, validArgs]
theorem buildErrL_none (bo : BuildOracle) : ∀ (vs : List V), buildErrL bo vs = none ↔ validArgsL bo vs = true
  | [] => by simp [buildErrL, validArgsL]
  | v :: vs => by simp [buildErrL, validArgsL, first_eq_none', buildErr_none bo v, buildErrL_none bo vs]
end

theorem known_nil (c : Case) (h : known c = []) :
    equalParams c = true → k9 c.eqOracle c.tree c.tree2 = false := by
  unfold known knownK9 at h
  intro he
  cases hk : k9 c.eqOracle c.tree c.tree2
  · rfl
  · simp [he, hk] at h

theorem stepsOk_model (c : Case) (xs : List Nat) : stepsOk c xs (xs.map (stepOf c)) = true := by
  induction xs with
  | nil => rfl
  | cons x xs ih =>
    have hout : (eval c.oracle (norm c.tree) x).1 =
        (if sat c.oracle c.tree x then none else some (excOf c.oracle c.tree x)) := by
      rw [norm_sound, eval_out]; rfl
    have hret : ∀ out, (isProbe c.tree = true ∨ retNoneOf c.tree out = true) := by
      intro out; cases c.tree <;> simp [isProbe, retNoneOf]
    simp [stepsOk, stepOf, hout, hret, ih]

theorem model_meets_spec (c : Case) (hwf : wf c = true) (hk : known c = []) : spec c (model c) = true := by
  unfold spec
  cases hv : validArgs c.buildOracle c.tree
  · simp
  · have hb : buildErr c.buildOracle c.tree = none := (buildErr_none _ _).2 hv
    simp only [wf, Bool.and_eq_true] at hwf
    obtain ⟨⟨⟨⟨hs1, hs2⟩, _⟩, _⟩, hcoh⟩ := hwf
    have hsteps := stepsOk_model c c.more
    have hout : (eval c.oracle (norm c.tree) 0).1 =
        (if sat c.oracle c.tree 0 then none else some (excOf c.oracle c.tree 0)) := by
      rw [norm_sound, eval_out]; rfl
    have hret : ∀ out, (isProbe c.tree = true ∨ retNoneOf c.tree out = true) := by
      intro out; cases c.tree <;> simp [isProbe, retNoneOf]
    cases hv2 : validArgs c.buildOracle c.tree2
    · have hb2 : buildErr c.buildOracle c.tree2 ≠ none := by
        intro h; rw [(buildErr_none _ _).1 h] at hv2; cases hv2
      cases hb2' : buildErr c.buildOracle c.tree2 with
      | none => exact absurd hb2' hb2
      | some k => simp [model, hb, hb2', hout, hret, hsteps]
    · have hb2 : buildErr c.buildOracle c.tree2 = none := (buildErr_none _ _).2 hv2
      cases hsame : sameUpTo c.eqOracle c.tree c.tree2
      · simp [model, hb, hb2, hout, hret, hsteps]
      · have hep : equalParams c = true := by simp [equalParams, hv, hv2, hsame]
        have hk9 := known_nil c hk hep
        have hcoh : coherent c.eqOracle c.tree c.tree2 = true := by simpa [hv, hv2] using hcoh
        have heq := veq_norm c.eqOracle c.tree c.tree2 hs1 hs2 hsame hk9 hcoh
        cases hph : (paramsHashable c.eqOracle c.tree && paramsHashable c.eqOracle c.tree2)
        · simp [model, hb, hb2, hout, hret, heq, hsteps]
        · simp only [Bool.and_eq_true] at hph
          obtain ⟨a1, a2, a3⟩ := vhash_norm c.eqOracle c.tree c.tree2 hs1 hs2 hsame hk9 hcoh hph.1 hph.2
          simp [model, hb, hb2, hout, hret, heq, a1, a2, a3, hsteps]


end Attrs.C18
