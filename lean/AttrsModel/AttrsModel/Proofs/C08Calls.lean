/-
  C08 — what the functions of the new class see: every function the property talks about is reachable and
  sees the new class (property setters and deleters included, after the K08a repair).
-/
import AttrsModel.Proofs.C08Cells

namespace Attrs.C08

theorem setattr_custom (c : Case) (hb : WFBody c) (k : String) (it : Item) (hm : (k, it) ∈ c.body) :
    k = "__setattr__" → c.customSetattr = true := by
  intro e
  rw [← hb.custom]
  exact List.any_eq_true.2 ⟨(k, it), hm, by simp [e]⟩

/-- a cached property of the body that survives the filter is one of `cached_properties` -/
theorem cachedProps_of_body (c : Case) (hb : WFBody c) (k : String) (f : Fn) (hm : (k, Item.cprop f) ∈ c.body)
    (hk : keepKey c k = true) : (k, f) ∈ cachedProps c := by
  obtain ⟨r1, _, _, _⟩ := not_reserved k (hb.reserved _ hm)
  have hg : Dict.get (cd1 c) k = some (.orig (.cprop f)) := by
    rw [get_cd1 c k r1 (setattr_custom c hb k _ hm)]
    exact get_cd0_body c hb k _ hm hk
  unfold cachedProps
  exact List.mem_filterMap.2 ⟨(k, .orig (.cprop f)), get_mem _ _ _ hg, rfl⟩

theorem bodyCprops_of_cached (c : Case) (h : (cachedProps c).isEmpty = false) : (bodyCprops c).isEmpty = false := by
  cases hcp : cachedProps c with
  | nil => rw [hcp] at h; cases h
  | cons nf rest =>
    have hm : nf ∈ cachedProps c := by rw [hcp]; exact List.mem_cons_self
    obtain ⟨hbm, hk⟩ := mem_cachedProps c nf.1 nf.2 hm
    have : nf.1 ∈ bodyCprops c := by
      unfold bodyCprops
      apply List.mem_filterMap.2
      refine ⟨(nf.1, .cprop nf.2), hbm, ?_⟩
      have := (keepKey_elim c nf.1 hk).1
      simp only [notField, this]
      rfl
    cases hbc : bodyCprops c with
    | nil => rw [hbc] at this; cases this
    | cons _ _ => rfl

/-- the shadowed `__getattr__` is what the body had -/
theorem origGetattr_body (c : Case) (hb : WFBody c) (it : Item) (hm : ("__getattr__", it) ∈ c.body)
    (hk : keepKey c "__getattr__" = true) : origGetattr c = some (.orig it) := by
  unfold origGetattr
  rw [get_cd1 c _ (by decide) (by intro e; exact absurd e (by decide))]
  exact get_cd0_body c hb _ it hm hk

/-- a function that uses the class does so through an existing cell holding the original class -/
theorem uses_head (c : Case) (hw : WFCells c) (f : Fn) (hf : f ∈ allFns c) (hu : f.uses = true) :
    ∃ i, i ∈ f.cells ∧ f.cells.headD 0 = i ∧ lookupN i c.cells = some .old := by
  have := hw.fnsOk f hf
  unfold fnOk at this
  simp only [Bool.and_eq_true, hu, Bool.not_true, Bool.false_or] at this
  cases hc : f.cells with
  | nil => rw [hc] at this; simp at this
  | cons i rest =>
    rw [hc] at this
    refine ⟨i, List.mem_cons_self, rfl, ?_⟩
    simpa using this.2

theorem seen_new (c : Case) (hw : WFCells c) (f : Fn) (hf : f ∈ allFns c) (hu : f.uses = true)
    (hr : ∀ i ∈ f.cells, CellId.user i ∈ reachedCells c) : seen c f = .new := by
  obtain ⟨i, hi, hh, hl⟩ := uses_head c hw f hf hu
  unfold seen
  rw [hh]
  exact (finalCell_new_iff c hw i).2 ⟨hl, hr i hi⟩

theorem mem_allFns (c : Case) (k : String) (it : Item) (hm : (k, it) ∈ c.body) (f : Fn) (hf : f ∈ itemFns it) :
    f ∈ allFns c := List.mem_flatMap.2 ⟨(k, it), hm, hf⟩

theorem ids_mem (f : Fn) (i : Nat) (hi : i ∈ f.cells) : CellId.user i ∈ f.ids :=
  List.mem_map.2 ⟨i, hi, rfl⟩

/-- labels of an item's parts carry the item's key; parts are among the item's functions -/
theorem itemParts_key (k : String) (it : Item) (l : Label) (f : Fn) (h : (l, f) ∈ itemParts k it) :
    l.1 = k ∧ f ∈ itemFns it := by
  cases it with
  | fn g => simp [itemParts] at h; simp [h, itemFns]
  | cm g => simp [itemParts] at h; simp [h, itemFns]
  | sm g => simp [itemParts] at h; simp [h, itemFns]
  | cprop g => simp [itemParts] at h; simp [h, itemFns]
  | «opaque» g => simp [itemParts] at h; simp [h, itemFns]
  | plain => simp [itemParts] at h
  | prop g s d =>
    simp only [itemParts, List.mem_append] at h
    rcases h with (h | h) | h
    · cases g with
      | none => cases h
      | some g' => simp at h; simp [h, itemFns]
    · cases s with
      | none => cases h
      | some s' => simp at h; simp [h, itemFns]
    · cases d with
      | none => cases h
      | some d' => simp at h; simp [h, itemFns]

/-- **every entry of `calls`**: the function sees the new class, unless it is hidden in an object attrs
    cannot look into -/
theorem calls_entry (c : Case) (hb : WFBody c) (hw : WFCells c) (l : Label) (v : CellVal)
    (h : (l, v) ∈ calls c) :
    v = .new ∨ isOpaqueKey c l.1 = true := by
  unfold calls at h
  obtain ⟨kv, hkv, hin⟩ := List.mem_flatMap.1 h
  obtain ⟨k, it⟩ := kv
  dsimp only at hin
  split at hin
  · rename_i hreach
    obtain ⟨lf, hlf, e⟩ := List.mem_map.1 hin
    obtain ⟨hparts, hu⟩ := List.mem_filter.1 hlf
    obtain ⟨l', f⟩ := lf
    cases e
    obtain ⟨hkey, hfn⟩ := itemParts_key k it l' f hparts
    have hall := mem_allFns c k it hkv f hfn
    unfold reachable at hreach
    simp only [Bool.and_eq_true, Bool.or_eq_true, beq_iff_eq, Bool.not_eq_true'] at hreach
    obtain ⟨hk, hcl⟩ := hreach
    -- the cells of the entry found under `k`, or of the shadowed `__getattr__`, are reached
    have hreached : ∀ id ∈ entryCells (.orig it), id ∈ reachedCells c := by
      intro id hid
      rcases hcl with (hget | hcp) | hga
      · exact reached_of_dict c k _ hget id hid
      · cases it <;> simp [isCprop] at hcp
        simp [entryCells] at hid
      · obtain ⟨hk2, hne⟩ := hga
        subst hk2
        exact reached_of_origGetattr c _ hne (origGetattr_body c hb it hkv hk) id hid
    cases it with
    | plain => simp [itemParts] at hparts
    | «opaque» g =>
      refine Or.inr ?_
      rw [hkey]
      exact List.any_eq_true.2 ⟨(k, .opaque g), hkv, by simp⟩
    | cprop g =>
      simp [itemParts] at hparts
      obtain ⟨_, rfl⟩ := hparts
      have hmem := cachedProps_of_body c hb k f hkv hk
      exact Or.inl (seen_new c hw f hall hu (fun i hi => reached_of_cprop c k f hmem i hi))
    | fn g =>
      simp [itemParts] at hparts
      obtain ⟨_, rfl⟩ := hparts
      exact Or.inl (seen_new c hw f hall hu (fun i hi => hreached _ (by simpa [entryCells] using ids_mem f i hi)))
    | cm g =>
      simp [itemParts] at hparts
      obtain ⟨_, rfl⟩ := hparts
      exact Or.inl (seen_new c hw f hall hu (fun i hi => hreached _ (by simpa [entryCells] using ids_mem f i hi)))
    | sm g =>
      simp [itemParts] at hparts
      obtain ⟨_, rfl⟩ := hparts
      exact Or.inl (seen_new c hw f hall hu (fun i hi => hreached _ (by simpa [entryCells] using ids_mem f i hi)))
    | prop g s d =>
      simp only [itemParts, List.mem_append] at hparts
      rcases hparts with (hp | hp) | hp
      · cases g with
        | none => cases hp
        | some g' =>
          simp at hp
          obtain ⟨_, rfl⟩ := hp
          exact Or.inl (seen_new c hw f hall hu
            (fun i hi => hreached _ (by
              have := ids_mem f i hi
              simp only [entryCells, optIds, List.mem_append]
              exact Or.inl (Or.inl this))))
      · cases s with
        | none => cases hp
        | some s' =>
          simp at hp
          obtain ⟨_, rfl⟩ := hp
          exact Or.inl (seen_new c hw f hall hu
            (fun i hi => hreached _ (by
              have := ids_mem f i hi
              simp only [entryCells, optIds, List.mem_append]
              exact Or.inl (Or.inr this))))
      · cases d with
        | none => cases hp
        | some d' =>
          simp at hp
          obtain ⟨_, rfl⟩ := hp
          exact Or.inl (seen_new c hw f hall hu
            (fun i hi => hreached _ (by
              have := ids_mem f i hi
              simp only [entryCells, optIds, List.mem_append]
              exact Or.inr this)))
  · cases hin

/-- every entry is new or opaque -/
theorem calls_all_new (c : Case) (hb : WFBody c) (hw : WFCells c) :
    (calls c).all (fun lv => lv.2 == .new || isOpaqueKey c lv.1.1) = true := by
  apply List.all_eq_true.2
  intro lv hlv
  obtain ⟨l, v⟩ := lv
  rcases calls_entry c hb hw l v hlv with h | h
  · simp [h]
  · simp [h]

end Attrs.C08
