/-
  C14 — lemmas about class dicts as association lists (`get`, `has`, `set`, `erase`, `applyWrites`),
  for arbitrary lists (any length, duplicates allowed).
-/
import AttrsModel.Model.C14

namespace Attrs.C14

theorem Dict.get_nil (k : String) : Dict.get [] k = .absent := rfl

theorem Dict.get_cons (p : String × Slot) (d : Dict) (k : String) :
    Dict.get (p :: d) k = if p.1 == k then p.2 else Dict.get d k := by
  simp only [Dict.get, List.find?_cons]
  cases h : p.1 == k <;> simp

theorem Dict.has_cons (p : String × Slot) (d : Dict) (k : String) :
    Dict.has (p :: d) k = (p.1 == k || Dict.has d k) := by
  simp [Dict.has]

theorem Dict.get_erase (d : Dict) (k n : String) :
    (d.erase k).get n = if n == k then .absent else d.get n := by
  induction d with
  | nil => simp [Dict.erase, Dict.get]
  | cons p d ih =>
    simp only [Dict.erase, List.filter_cons] at ih ⊢
    by_cases hp : p.1 = k
    · subst hp
      simp only [bne_self_eq_false, Bool.false_eq_true, if_false]
      rw [ih, Dict.get_cons]
      by_cases hn : n = p.1
      · subst hn; simp
      · have : (p.1 == n) = false := by simpa using fun h => hn h.symm
        simp [hn, this]
    · have hpk : (p.1 != k) = true := by simpa using hp
      simp only [hpk, if_true, Dict.get_cons]
      rw [ih]
      by_cases hn : n = k
      · subst hn
        have : (p.1 == n) = false := by simpa using hp
        simp [this]
      · simp [hn]

theorem Dict.has_erase (d : Dict) (k n : String) :
    (d.erase k).has n = (n != k && d.has n) := by
  induction d with
  | nil => simp [Dict.erase, Dict.has]
  | cons p d ih =>
    simp only [Dict.erase, List.filter_cons] at ih ⊢
    by_cases hp : p.1 = k
    · subst hp
      simp only [bne_self_eq_false, Bool.false_eq_true, if_false]
      rw [ih, Dict.has_cons]
      by_cases hn : n = p.1
      · subst hn; simp
      · have : (p.1 == n) = false := by simpa using fun h => hn h.symm
        simp [this]
    · have hpk : (p.1 != k) = true := by simpa using hp
      simp only [hpk, if_true, Dict.has_cons]
      rw [ih]
      by_cases hn : n = k
      · subst hn
        have : (p.1 == n) = false := by simpa using hp
        simp [this]
      · have : (n != k) = true := by simpa using hn
        simp [this]

theorem Dict.get_set (d : Dict) (k : String) (v : Slot) (n : String) :
    (d.set k v).get n = if n == k then v else d.get n := by
  simp only [Dict.set, Dict.get_cons, Dict.get_erase]
  by_cases h : n = k
  · subst h; simp
  · have : (k == n) = false := by simpa using fun e => h e.symm
    simp [h, this]

theorem Dict.has_set (d : Dict) (k : String) (v : Slot) (n : String) :
    (d.set k v).has n = (n == k || d.has n) := by
  simp only [Dict.set, Dict.has_cons, Dict.has_erase]
  by_cases h : n = k
  · subst h; simp
  · have h1 : (k == n) = false := by simpa using fun e => h e.symm
    have h2 : (n == k) = false := by simpa using h
    have h3 : (n != k) = true := by simpa using h
    simp [h1, h2, h3]

/-- the value last written under `n`, if any -/
def lastWrite (ws : List (String × Slot)) (n : String) : Option Slot :=
  ws.foldl (fun acc w => if w.1 == n then some w.2 else acc) none

theorem foldl_lastWrite_some (ws : List (String × Slot)) (n : String) (a : Option Slot) :
    ws.foldl (fun acc w => if w.1 == n then some w.2 else acc) a =
      match lastWrite ws n with | some v => some v | none => a := by
  induction ws generalizing a with
  | nil => simp [lastWrite]
  | cons w ws ih =>
    simp only [lastWrite, List.foldl_cons]
    rw [ih, ih (if w.1 == n then some w.2 else none)]
    cases h : lastWrite ws n <;> cases hw : w.1 == n <;> simp

theorem lastWrite_nil (n : String) : lastWrite [] n = none := rfl

theorem lastWrite_cons (w : String × Slot) (ws : List (String × Slot)) (n : String) :
    lastWrite (w :: ws) n =
      match lastWrite ws n with | some v => some v | none => if w.1 == n then some w.2 else none := by
  simp only [lastWrite, List.foldl_cons]
  rw [foldl_lastWrite_some]
  rfl

theorem lastWrite_append (a b : List (String × Slot)) (n : String) :
    lastWrite (a ++ b) n = match lastWrite b n with | some v => some v | none => lastWrite a n := by
  simp only [lastWrite, List.foldl_append]
  rw [foldl_lastWrite_some]
  rfl

theorem applyWrites_nil (d : Dict) : applyWrites d [] = d := rfl

theorem applyWrites_cons (d : Dict) (w : String × Slot) (ws : List (String × Slot)) :
    applyWrites d (w :: ws) = applyWrites (d.set w.1 w.2) ws := rfl

/-- after a sequence of writes a key holds the last value written under it, else what it held before -/
theorem get_applyWrites (d : Dict) (ws : List (String × Slot)) (n : String) :
    (applyWrites d ws).get n = (lastWrite ws n).getD (d.get n) := by
  induction ws generalizing d with
  | nil => simp [applyWrites, lastWrite]
  | cons w ws ih =>
    rw [applyWrites_cons, ih, lastWrite_cons]
    cases h : lastWrite ws n with
    | some v => rfl
    | none =>
      simp only [Dict.get_set]
      by_cases hw : n = w.1
      · subst hw; simp
      · have : (w.1 == n) = false := by simpa using fun e => hw e.symm
        simp [hw, this]

theorem has_applyWrites (d : Dict) (ws : List (String × Slot)) (n : String) :
    (applyWrites d ws).has n = ((lastWrite ws n).isSome || d.has n) := by
  induction ws generalizing d with
  | nil => simp [applyWrites, lastWrite]
  | cons w ws ih =>
    rw [applyWrites_cons, ih, lastWrite_cons, Dict.has_set]
    cases h : lastWrite ws n with
    | some v => simp
    | none =>
      by_cases hw : n = w.1
      · subst hw; simp
      · have : (w.1 == n) = false := by simpa using fun e => hw e.symm
        simp [hw, this]

/-- erasing a list of keys -/
theorem get_foldl_erase (ks : List String) (d : Dict) (n : String) :
    (ks.foldl Dict.erase d).get n = if ks.contains n then .absent else d.get n := by
  induction ks generalizing d with
  | nil => simp
  | cons k ks ih =>
    simp only [List.foldl_cons, ih, Dict.get_erase, List.contains_cons]
    cases h1 : ks.contains n <;> cases h2 : n == k <;> simp

theorem has_foldl_erase (ks : List String) (d : Dict) (n : String) :
    (ks.foldl Dict.erase d).has n = (!ks.contains n && d.has n) := by
  induction ks generalizing d with
  | nil => simp
  | cons k ks ih =>
    simp only [List.foldl_cons, ih, Dict.has_erase, List.contains_cons]
    cases h1 : ks.contains n <;> cases h2 : n == k <;> simp [bne, h2]

/-- a body of user-bound names -/
theorem get_userDict (body : List String) (n : String) :
    Dict.get (body.map (fun m => (m, Slot.user))) n = if body.contains n then .user else .absent := by
  induction body with
  | nil => simp [Dict.get]
  | cons m body ih =>
    simp only [List.map_cons, Dict.get_cons, ih, List.contains_cons]
    by_cases h : m = n
    · subst h; simp
    · have h1 : (m == n) = false := by simpa using h
      have h2 : (n == m) = false := by simpa using fun e => h e.symm
      simp [h1, h2]

theorem has_userDict (body : List String) (n : String) :
    Dict.has (body.map (fun m => (m, Slot.user))) n = body.contains n := by
  induction body with
  | nil => simp [Dict.has]
  | cons m body ih =>
    simp only [List.map_cons, Dict.has_cons, ih, List.contains_cons]
    by_cases h : m = n
    · subst h; simp
    · have h1 : (m == n) = false := by simpa using h
      have h2 : (n == m) = false := by simpa using fun e => h e.symm
      simp [h1, h2]

theorem get_implicitHash (d : Dict) (n : String) :
    (implicitHash d).get n =
      if n == "__hash__" && d.has "__eq__" && !d.has "__hash__" then .pyNone else d.get n := by
  unfold implicitHash
  by_cases h : (d.has "__eq__" && !d.has "__hash__") = true
  · simp only [h, if_true, Dict.get_set]
    by_cases hn : n = "__hash__"
    · subst hn; simp at h; simp [h]
    · simp [hn]
  · have h' : (d.has "__eq__" && !d.has "__hash__") = false := by simpa using h
    simp only [h', Bool.false_eq_true, if_false]
    cases hn : n == "__hash__" <;> simp [Bool.and_assoc, h']

theorem has_implicitHash (d : Dict) (n : String) :
    (implicitHash d).has n = (d.has n || (n == "__hash__" && d.has "__eq__")) := by
  unfold implicitHash
  by_cases h : (d.has "__eq__" && !d.has "__hash__") = true
  · simp only [h, if_true, Dict.has_set]
    simp at h
    by_cases hn : n = "__hash__"
    · subst hn; simp [h]
    · have hb : (n == "__hash__") = false := by simpa using hn
      simp [hb]
  · have h' : (d.has "__eq__" && !d.has "__hash__") = false := by simpa using h
    simp only [h', Bool.false_eq_true, if_false]
    by_cases hn : n = "__hash__"
    · subst hn
      cases h1 : d.has "__eq__" <;> cases h2 : d.has "__hash__" <;> simp_all
    · simp [hn]

end Attrs.C14
