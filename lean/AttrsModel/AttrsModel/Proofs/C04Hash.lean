/-
  C04 — lemmas about hash inputs, equality chains and the scripted value domain (arbitrary field lists).
-/
import AttrsModel.Spec.C04Base

namespace Attrs.C04

variable {V : Type}

/-- values that agree on the participating fields give the same list of hashed operands -/
theorem partVals_agree (vh : V → Nat) (veq : V → V → Bool) (key : V → V)
    (hc : ∀ a b, veq a b = true → vh a = vh b) :
    ∀ (fs : List Field) (as bs : List V), agreeOn veq key fs as bs = true →
      (partVals key fs as).map vh = (partVals key fs bs).map vh := by
  intro fs
  induction fs with
  | nil => intro as bs _; cases as <;> cases bs <;> simp [partVals]
  | cons f fs ih =>
    intro as bs h
    cases as with
    | nil => simp [agreeOn] at h
    | cons a as =>
      cases bs with
      | nil => simp [agreeOn] at h
      | cons b bs =>
        simp only [agreeOn, Bool.and_eq_true, Bool.or_eq_true, Bool.not_eq_true'] at h
        by_cases hp : hashPart f = true
        · have hv : veq (keyed key f a) (keyed key f b) = true := by
            rcases h.1 with h1 | h1
            · simp [hp] at h1
            · exact h1
          simp only [partVals, hp, if_true, List.map_cons, hc _ _ hv, ih as bs h.2]
        · simp only [partVals, hp, Bool.false_eq_true, if_false, ih as bs h.2]

theorem hashInputs_agree (vh : V → Nat) (veq : V → V → Bool) (key : V → V) (salt : Nat)
    (hc : ∀ a b, veq a b = true → vh a = vh b) (fs : List Field) (as bs : List V)
    (h : agreeOn veq key fs as bs = true) :
    hashInputs vh key salt fs as = hashInputs vh key salt fs bs := by
  simp only [hashInputs, partVals_agree vh veq key hc fs as bs h]

/-- instances that the generated `__eq__` calls equal agree on every hashed field, provided every
    hashed field is also compared -/
theorem eqChain_agree (veq : V → V → Bool) (key : V → V) :
    ∀ (fs : List Field) (as bs : List V), hashWithinEq fs = true → eqChain veq key fs as bs = true →
      agreeOn veq key fs as bs = true := by
  intro fs
  induction fs with
  | nil => intro as bs _ _; simp [agreeOn]
  | cons f fs ih =>
    intro as bs hw he
    cases as with
    | nil => simp [eqChain] at he
    | cons a as =>
      cases bs with
      | nil => simp [eqChain] at he
      | cons b bs =>
        simp only [hashWithinEq, List.all_cons, Bool.and_eq_true, Bool.or_eq_true,
          Bool.not_eq_true'] at hw
        simp only [eqChain, Bool.and_eq_true] at he
        simp only [agreeOn, Bool.and_eq_true, Bool.or_eq_true, Bool.not_eq_true']
        refine ⟨?_, ih as bs (by simpa [hashWithinEq] using hw.2) he.2⟩
        by_cases hp : hashPart f = true
        · right
          have hq : eqPart f = true := by
            rcases hw.1 with h1 | h1
            · simp [hp] at h1
            · exact h1
          simpa [hq] using he.1
        · left; simpa using hp

/-- reflexivity of agreement needs reflexive `==` only on the values actually hashed -/
theorem agreeOn_refl (veq : V → V → Bool) (key : V → V) (hr : ∀ a, veq a a = true) :
    ∀ (fs : List Field) (as : List V), fs.length ≤ as.length → agreeOn veq key fs as as = true := by
  intro fs
  induction fs with
  | nil => intro as _; simp [agreeOn]
  | cons f fs ih =>
    intro as hl
    cases as with
    | nil => simp at hl
    | cons a as =>
      simp only [agreeOn, hr, Bool.or_true, Bool.true_and]
      exact ih as (by simpa using hl)

/-- values of non-participating fields are irrelevant -/
theorem agreeOn_of_eq_on_part (veq : V → V → Bool) (key : V → V) (hr : ∀ a, veq a a = true) :
    ∀ (fs : List Field) (as bs : List V), as.length = fs.length → bs.length = fs.length →
      (∀ i (hi : i < fs.length) (ha : i < as.length) (hb : i < bs.length),
          hashPart fs[i] = true → as[i] = bs[i]) →
      agreeOn veq key fs as bs = true := by
  intro fs
  induction fs with
  | nil => intro as bs _ _ _; simp [agreeOn]
  | cons f fs ih =>
    intro as bs hla hlb h
    cases as with
    | nil => simp at hla
    | cons a as =>
      cases bs with
      | nil => simp at hlb
      | cons b bs =>
        simp only [agreeOn, Bool.and_eq_true, Bool.or_eq_true, Bool.not_eq_true']
        constructor
        · by_cases hp : hashPart f = true
          · right
            have := h 0 (by simp) (by simp) (by simp) (by simpa using hp)
            simp only [List.getElem_cons_zero] at this
            rw [this]; exact hr _
          · left; simpa using hp
        · apply ih as bs (by simpa using hla) (by simpa using hlb)
          intro i hi ha hb hp
          have := h (i + 1) (by simpa using hi) (by simpa using ha) (by simpa using hb) (by simpa using hp)
          simpa using this

/-! ### the scripted domain honours the hash contract -/

theorem case_contract (c : Case) (a b : Nat) (h : c.veq a b = true) : c.vh a = c.vh b := by
  simp only [Case.veq, beq_iff_eq] at h
  unfold Case.vh
  rw [h]

theorem case_veq_refl (c : Case) (a : Nat) : c.veq a a = true := by simp [Case.veq]

end Attrs.C04
