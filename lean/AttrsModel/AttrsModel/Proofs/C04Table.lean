/-
  C04 — lemmas about the decision table and the chain of nodes.
-/
import AttrsModel.Spec.C04Base

namespace Attrs.C04

/-- `detected` presupposes that no hash argument was given (it is computed that way by `facts`) -/
def Facts.valid (f : Facts) : Bool := !f.detected || f.hashArg.isNone

theorem facts_valid (c : Cls) (fz ex : Bool) : (facts c fz ex).valid = true := by
  simp only [Facts.valid, facts]
  cases hashArgOf c <;> simp

theorem table_generated (f : Facts) (hv : f.valid = true) (h : legacyRow f = false) :
    codeOutcome f = .generated ↔ docGenerated f = true := by
  unfold codeOutcome docGenerated
  unfold legacyRow at h
  unfold Facts.valid at hv
  rcases f with ⟨mix, ha, eqOn, fz, exc, det, co, io, sl⟩
  cases ha with
  | none => cases eqOn <;> cases fz <;> cases exc <;> cases det <;> simp_all
  | some b => cases b <;> cases eqOn <;> cases fz <;> cases exc <;> cases det <;> simp_all

theorem table_unhashable (f : Facts) (hv : f.valid = true) (h : legacyRow f = false) :
    codeOutcome f = .unhashable ↔ docUnhashable f = true := by
  unfold codeOutcome docUnhashable
  unfold legacyRow at h
  unfold Facts.valid at hv
  rcases f with ⟨mix, ha, eqOn, fz, exc, det, co, io, sl⟩
  cases ha with
  | none => cases eqOn <;> cases fz <;> cases exc <;> cases det <;> simp_all
  | some b => cases b <;> cases eqOn <;> cases fz <;> cases exc <;> cases det <;> simp_all

theorem table_untouched (f : Facts) (hv : f.valid = true) (h : legacyRow f = false) :
    codeOutcome f = .untouched ↔ docUntouched f = true := by
  unfold codeOutcome docUntouched
  unfold legacyRow at h
  unfold Facts.valid at hv
  rcases f with ⟨mix, ha, eqOn, fz, exc, det, co, io, sl⟩
  cases ha with
  | none => cases eqOn <;> cases fz <;> cases exc <;> cases det <;> simp_all
  | some b => cases b <;> cases eqOn <;> cases fz <;> cases exc <;> cases det <;> simp_all

/-- outside the legacy row exactly one of the three documented conditions holds -/
theorem doc_partition (f : Facts) (hv : f.valid = true) (h : legacyRow f = false) :
    (docGenerated f || docUnhashable f || docUntouched f) = true ∧
    (docGenerated f && docUnhashable f) = false ∧
    (docGenerated f && docUntouched f) = false ∧
    (docUnhashable f && docUntouched f) = false := by
  unfold docGenerated docUnhashable docUntouched
  unfold legacyRow at h
  unfold Facts.valid at hv
  rcases f with ⟨mix, ha, eqOn, fz, exc, det, co, io, sl⟩
  cases ha with
  | none => cases eqOn <;> cases fz <;> cases exc <;> cases det <;> simp_all
  | some b => cases b <;> cases eqOn <;> cases fz <;> cases exc <;> cases det <;> simp_all

theorem code_eq_doc (f : Facts) (hv : f.valid = true) (h : legacyRow f = false) :
    codeOutcome f = docOutcome f := by
  unfold codeOutcome docOutcome docGenerated docUnhashable
  unfold legacyRow at h
  unfold Facts.valid at hv
  rcases f with ⟨mix, ha, eqOn, fz, exc, det, co, io, sl⟩
  cases ha with
  | none => cases eqOn <;> cases fz <;> cases exc <;> cases det <;> simp_all
  | some b => cases b <;> cases eqOn <;> cases fz <;> cases exc <;> cases det <;> simp_all

/-- the legacy row does not depend on the bases -/
theorem legacyRow_ctx (c : Cls) (fz ex : Bool) :
    legacyRow (facts c fz ex) = legacyRow (facts c false false) := by
  simp [legacyRow, facts]

theorem wfCls_not_legacy (c : Cls) (h : wfCls c = true) (hp : (c.api == Api.plain) = false) (fz ex : Bool) :
    legacyRow (facts c fz ex) = false := by
  rw [legacyRow_ctx]
  unfold wfCls at h
  simp only [Bool.and_eq_true, Bool.or_eq_true, hp, Bool.false_eq_true, false_or,
    Bool.not_eq_true'] at h
  exact h.2.2

/-- on well-formed classes the code's table and the documented table build the same chain -/
theorem nodesFrom_code_doc (ex sf : Bool) (cs : List Cls) (h : cs.all wfCls = true) :
    ∀ k fz inh, nodesFrom codeOutcome ex sf k fz inh cs = nodesFrom docOutcome ex sf k fz inh cs := by
  induction cs with
  | nil => intro k fz inh; rfl
  | cons c rest ih =>
    intro k fz inh
    simp only [List.all_cons, Bool.and_eq_true] at h
    unfold nodesFrom
    by_cases hp : (c.api == Api.plain) = true
    · simp only [hp, if_true]; rw [ih h.2]
    · have hp' : (c.api == Api.plain) = false := by simpa using hp
      simp only [hp', Bool.false_eq_true, if_false]
      rw [code_eq_doc _ (facts_valid c _ ex) (wfCls_not_legacy c h.1 hp' _ ex), ih h.2]

theorem nodes_code_doc (c : Case) (h : c.chain.all wfCls = true) :
    nodesWith codeOutcome c = nodesWith docOutcome c :=
  nodesFrom_code_doc c.excBase (c.side.any Side.frozen) c.chain h 0 false []

/-- plain classes never get a generated hash (they have no decorator) -/
theorem nodesFrom_plain_untouched (outF : Facts → Outcome) (ex sf : Bool) (cs : List Cls) :
    ∀ k fz inh n, n ∈ nodesFrom outF ex sf k fz inh cs → n.isAttrs = false →
      n.outcome = .untouched ∧ n.facts.cacheOn = false ∧ n.facts.slotsEff = false := by
  induction cs with
  | nil => intro k fz inh n hn; simp [nodesFrom] at hn
  | cons c rest ih =>
    intro k fz inh n hn hpl
    unfold nodesFrom at hn
    by_cases hp : (c.api == Api.plain) = true
    · simp only [hp, if_true, List.mem_cons] at hn
      rcases hn with rfl | hn
      · simp [plainFacts]
      · exact ih _ _ _ n hn hpl
    · have hp' : (c.api == Api.plain) = false := by simpa using hp
      simp only [hp', Bool.false_eq_true, if_false, List.mem_cons] at hn
      rcases hn with rfl | hn
      · simp at hpl
      · exact ih _ _ _ n hn hpl

/-! ### the keyword defaults (re-checked against the source through Generated/Tables.lean) -/

def flagOpt : Flag → Option Bool
  | .t => some true
  | .f => some false
  | _ => none

/-- `unsafe_hash` takes precedence over `hash`; both default to None in every API -/
theorem hashArgOf_flags (c : Cls) (h : (c.api == Api.plain) = false) :
    hashArgOf c = (match flagOpt c.unsafeHash with | some b => some b | none => flagOpt c.hash) := by
  unfold hashArgOf argOf
  cases ha : c.api <;> simp [ha] at h <;> cases c.unsafeHash <;> cases c.hash <;> decide

end Attrs.C04
