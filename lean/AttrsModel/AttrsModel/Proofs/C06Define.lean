/-
  C06 — definition time: the model state after a prefix of the chain against the declarative reading
  of that prefix (`frozenOf`, `fieldsOf`, `hasDictOf`), and the two tables (`mustReject`, `mustAccept`).
-/
import AttrsModel.Proofs.C06Pipe

namespace Attrs.C06
open Attrs.Init (Val Conv Event EventId)

/-! ### the declarative folds, one class at a time -/

theorem fieldsOf_snoc (pre : List Cls) (c : Cls) :
    fieldsOf (pre ++ [c]) = match c.kind with
      | .attrs => resolveAttrs (fieldsOf pre) c.fields
      | .plain => fieldsOf pre := by
  simp only [fieldsOf, List.foldl_append, List.foldl_cons, List.foldl_nil, fieldsStep]
  cases c.kind <;> rfl

theorem frozenOf_snoc (pre : List Cls) (c : Cls) :
    frozenOf (pre ++ [c]) = match c.kind with
      | .attrs => c.frozenArg || (frozenOf pre && !c.ownSetattr)
      | .plain => frozenOf pre && !c.ownSetattr := by
  simp only [frozenOf, List.foldl_append, List.foldl_cons, List.foldl_nil]
  cases c.kind <;> rfl

theorem hasDictOf_snoc (pre : List Cls) (c : Cls) : hasDictOf (pre ++ [c]) = (hasDictOf pre || c.givesDict) := by
  simp [hasDictOf, List.any_append]

/-! ### `resolveAttrs` -/

theorem mem_resolveAttrs (base own : List Field) (f : Field) :
    f ∈ resolveAttrs base own ↔ (f ∈ base ∧ own.any (·.name == f.name) = false) ∨ f ∈ own := by
  simp [resolveAttrs, List.mem_append, List.mem_filter]

theorem resolveAttrs_nodup (base own : List Field) (hb : (base.map (·.name)).Nodup) (ho : (own.map (·.name)).Nodup) :
    ((resolveAttrs base own).map (·.name)).Nodup := by
  unfold resolveAttrs
  rw [List.map_append, List.nodup_append]
  refine ⟨?_, ho, ?_⟩
  · exact (List.Nodup.sublist ((List.filter_sublist).map _) hb)
  · intro a ha b hb' hab
    rw [List.mem_map] at ha hb'
    obtain ⟨fa, hfa, rfl⟩ := ha
    obtain ⟨fb, hfb, rfl⟩ := hb'
    rw [List.mem_filter] at hfa
    have : own.any (fun x => x.name == fa.name) = true := by
      rw [List.any_eq_true]
      exact ⟨fb, hfb, by simp [hab]⟩
    simp [this] at hfa

/-! ### every error is a ValueError -/

theorem defineWrap_err (c : Cls) (b : Bool) (e : Exc) (h : defineWrap c b = .error e) : e = .valueError := by
  unfold defineWrap at h
  dsimp only at h
  cases b with
  | false => simp at h
  | true =>
    simp only [if_true] at h
    split at h <;> first | (cases h; rfl) | cases h | (simp at h; exact h.symm) | simp at h

theorem defineAttrs_err (base : CState) (c : Cls) (e : Exc) (h : defineAttrs base c = .error e) : e = .valueError := by
  unfold defineAttrs at h
  split at h
  · rename_i e' he
    cases h
    unfold eff0Of at he
    split at he
    · exact defineWrap_err _ _ _ he
    · cases he
  · split at h
    · cases h; rfl
    · cases h

theorem defineCls_err (base : CState) (c : Cls) (e : Exc) (h : defineCls base c = .error e) : e = .valueError := by
  unfold defineCls at h
  split at h
  · cases h
  · exact defineAttrs_err _ _ _ h

/-! ### `sa_attrs` against the field list -/

/-- the `sa_attrs` entry of one field under class-level value `e` -/
def entryOf (e : Eff) (a : Field) : Option Entry :=
  match a.onSet with
  | .chain l => some { field := a, hook := l }
  | .noop => none
  | .unset => e.chain.map (fun l => { field := a, hook := l })

theorem saAttrs_eq (attrs : List Field) (e : Eff) : saAttrs attrs e = attrs.filterMap (entryOf e) := rfl

theorem entryOf_field (e : Eff) (a : Field) (x : Entry) (h : entryOf e a = some x) : x.field = a := by
  unfold entryOf at h
  split at h
  · cases h; rfl
  · cases h
  · cases hc : e.chain with
    | none => simp [hc] at h
    | some l => simp [hc] at h; rw [← h]

/-- with distinct names the table lookup is the entry of the field of that name -/
theorem find_saAttrs (attrs : List Field) (e : Eff) (n : String) (hn : (attrs.map (·.name)).Nodup) :
    (saAttrs attrs e).find? (fun x => x.field.name == n) =
      match attrs.find? (fun f => f.name == n) with
      | some f => entryOf e f
      | none => none := by
  rw [saAttrs_eq]
  induction attrs with
  | nil => rfl
  | cons a rest ih =>
    have hn' : (rest.map (·.name)).Nodup := by
      simp only [List.map_cons, List.nodup_cons] at hn; exact hn.2
    have hnot : a.name ∉ rest.map (·.name) := by
      simp only [List.map_cons, List.nodup_cons] at hn; exact hn.1
    simp only [List.filterMap_cons, List.find?_cons]
    by_cases han : a.name = n
    · have hb : (a.name == n) = true := by simp [han]
      simp only [hb]
      cases he : entryOf e a with
      | some x =>
        have := entryOf_field e a x he
        simp [this, han]
      | none =>
        simp only
        -- no later field has that name
        have hnone : (rest.filterMap (entryOf e)).find? (fun x => x.field.name == n) = none := by
          rw [List.find?_eq_none]
          intro x hx
          rw [List.mem_filterMap] at hx
          obtain ⟨b, hb', hbx⟩ := hx
          have := entryOf_field e b x hbx
          intro hxn
          apply hnot
          rw [List.mem_map]
          exact ⟨b, hb', by rw [han]; simpa [this] using hxn⟩
        exact hnone
    · have hb : (a.name == n) = false := by simp [han]
      simp only [hb]
      cases he : entryOf e a with
      | some x =>
        have := entryOf_field e a x he
        simp only [List.find?_cons, this, hb]
        exact ih hn'
      | none => exact ih hn'

theorem saAttrs_isEmpty (attrs : List Field) (e : Eff) :
    (saAttrs attrs e).isEmpty = true ↔ ∀ a ∈ attrs, entryOf e a = none := by
  rw [saAttrs_eq, List.isEmpty_iff, List.filterMap_eq_nil_iff]

/-- in a frozen class a non-empty table is always rejected by the initializer's checks -/
theorem sa_nonempty_frozen_rejected (attrs : List Field) (e : Eff) (h : (saAttrs attrs e).isEmpty = false) :
    e.hasCls = true ∨ attrs.any (fun a => a.onSet != .unset) = true := by
  have : ¬ ∀ a ∈ attrs, entryOf e a = none := by
    intro hall
    have := (saAttrs_isEmpty attrs e).2 hall
    simp [this] at h
  have ⟨a, ha, hne⟩ : ∃ a ∈ attrs, entryOf e a ≠ none := by
    apply Classical.byContradiction
    intro hcon
    apply this
    intro a ha
    apply Classical.byContradiction
    intro hh
    exact hcon ⟨a, ha, hh⟩
  unfold entryOf at hne
  cases hon : a.onSet with
  | chain l =>
    right
    rw [List.any_eq_true]
    exact ⟨a, ha, by simp [hon]⟩
  | noop => simp [hon] at hne
  | unset =>
    left
    simp only [hon] at hne
    cases e <;> simp_all [Eff.chain, Eff.hasCls]

/-! ### normalisation only drops inert chains -/

/-- the class-level value `attrs()` sees for a class that is not below a frozen base, as a chain:
    this is what the statement calls the class-level hook -/
theorem eff0_chain (base : CState) (c : Cls) (hb : (base.impl == .frozen) = false) (hf : c.frozenArg = false) :
    ∃ e0, eff0Of base c = .ok e0 ∧ e0.chain = clsChain c := by
  unfold eff0Of defineWrap clsChain
  simp only [hb, hf]
  cases hd : c.isDefine <;> cases hc : c.clsOn <;> simp [ClsOn.toEff, Eff.chain]

theorem normalise_chain (attrs : List Field) (e : Eff) :
    (normalise attrs e).chain = e.chain ∨
    ((normalise attrs e).chain = none ∧ ∃ h, e.chain = some h ∧ ∀ f ∈ attrs, inert f h = true) := by
  have hV : anyValidator attrs = false → ∀ f ∈ attrs, f.validators = 0 := by
    intro h f hf
    unfold anyValidator at h
    rw [List.any_eq_false] at h
    simpa using h f hf
  have hC : anyConverter attrs = false → ∀ f ∈ attrs, f.conv = none := by
    intro h f hf
    unfold anyConverter at h
    rw [List.any_eq_false] at h
    have := h f hf
    cases hc : f.conv <;> simp_all
  cases e with
  | none => left; rfl
  | noop => left; rfl
  | list l => left; rfl
  | dflt =>
    cases hv : anyValidator attrs <;> cases hc : anyConverter attrs
    · right
      refine ⟨by simp [normalise, hv, hc, Eff.chain], [.convert, .validate], rfl, ?_⟩
      intro f hf
      simp [inert, inertSetter, hV hv f hf, hC hc f hf]
    · left; simp [normalise, hv, hc]
    · left; simp [normalise, hv, hc]
    · left; simp [normalise, hv, hc]
  | bare s =>
    cases s with
    | user i => left; rfl
    | frozen => left; rfl
    | validate =>
      simp only [normalise]
      cases hv : anyValidator attrs
      · right
        refine ⟨by simp [Eff.chain], [.validate], rfl, ?_⟩
        intro f hf
        simp [inert, inertSetter, hV hv f hf]
      · left; simp
    | convert =>
      simp only [normalise]
      cases hc : anyConverter attrs
      · right
        refine ⟨by simp [Eff.chain], [.convert], rfl, ?_⟩
        intro f hf
        simp [inert, inertSetter, hC hc f hf]
      · left; simp

/-- the model's table entry of a field against the statement's reading of its chain: identical, or dropped
    because the chain could not do anything for any field -/
theorem entryOf_vs_fieldChain (attrs : List Field) (e0 : Eff) (c : Cls) (he : e0.chain = clsChain c) (f : Field)
    (hf : f ∈ attrs) :
    entryOf (normalise attrs e0) f = (fieldChain c f).map (fun h => { field := f, hook := h }) ∨
    (entryOf (normalise attrs e0) f = none ∧ ∃ h, fieldChain c f = some h ∧ inert f h = true) := by
  unfold entryOf fieldChain
  cases hon : f.onSet with
  | chain l => left; rfl
  | noop => left; rfl
  | unset =>
    simp only
    rcases normalise_chain attrs e0 with h | ⟨h1, h, h2, h3⟩
    · left; rw [h, he]
    · right
      rw [h1, ← he, h2]
      exact ⟨rfl, h, rfl, h3 f hf⟩

/-! ### hook selection does not look at the hook objects -/

/-- replace every user hook object by another one (`ρ` on identities) -/
def Setter.rename (ρ : Nat → Nat) : Setter → Setter
  | .user i => .user (ρ i)
  | s => s

def FieldOn.rename (ρ : Nat → Nat) : FieldOn → FieldOn
  | .chain l => .chain (l.map (Setter.rename ρ))
  | x => x

def Field.rename (ρ : Nat → Nat) (f : Field) : Field := { f with onSet := f.onSet.rename ρ }

def Eff.rename (ρ : Nat → Nat) : Eff → Eff
  | .bare s => .bare (s.rename ρ)
  | .list l => .list (l.map (Setter.rename ρ))
  | e => e

def Entry.rename (ρ : Nat → Nat) (x : Entry) : Entry :=
  { field := x.field.rename ρ, hook := x.hook.map (Setter.rename ρ) }

theorem anyValidator_rename (ρ : Nat → Nat) (attrs : List Field) :
    anyValidator (attrs.map (Field.rename ρ)) = anyValidator attrs := by
  unfold anyValidator; rw [List.any_map]; rfl

theorem anyConverter_rename (ρ : Nat → Nat) (attrs : List Field) :
    anyConverter (attrs.map (Field.rename ρ)) = anyConverter attrs := by
  unfold anyConverter; rw [List.any_map]; rfl

theorem normalise_rename (ρ : Nat → Nat) (attrs : List Field) (e : Eff) :
    normalise (attrs.map (Field.rename ρ)) (e.rename ρ) = (normalise attrs e).rename ρ := by
  cases e with
  | none => rfl
  | noop => rfl
  | list l => rfl
  | dflt =>
    simp only [Eff.rename, normalise, anyValidator_rename, anyConverter_rename]
    split <;> rfl
  | bare s =>
    cases s with
    | user i => rfl
    | frozen => rfl
    | validate =>
      simp only [Eff.rename, Setter.rename, normalise, anyValidator_rename]
      split <;> rfl
    | convert =>
      simp only [Eff.rename, Setter.rename, normalise, anyConverter_rename]
      split <;> rfl

theorem chain_rename (ρ : Nat → Nat) (e : Eff) :
    (e.rename ρ).chain = e.chain.map (fun l => l.map (Setter.rename ρ)) := by
  cases e <;> rfl

theorem entryOf_rename (ρ : Nat → Nat) (e : Eff) (a : Field) :
    entryOf (e.rename ρ) (a.rename ρ) = (entryOf e a).map (Entry.rename ρ) := by
  unfold entryOf
  cases h : a.onSet with
  | chain l => simp [Field.rename, FieldOn.rename, h, Entry.rename]
  | noop => simp [Field.rename, FieldOn.rename, h]
  | unset =>
    simp only [Field.rename, FieldOn.rename, h, chain_rename]
    cases e.chain with
    | none => rfl
    | some l => simp [Entry.rename, Field.rename, FieldOn.rename, h]

theorem saAttrs_rename (ρ : Nat → Nat) (attrs : List Field) (e : Eff) :
    saAttrs (attrs.map (Field.rename ρ)) (e.rename ρ) = (saAttrs attrs e).map (Entry.rename ρ) := by
  rw [saAttrs_eq, saAttrs_eq]
  induction attrs with
  | nil => rfl
  | cons a rest ih =>
    simp only [List.map_cons, List.filterMap_cons, entryOf_rename]
    cases entryOf e a with
    | none => simpa using ih
    | some x => simpa using ih

end Attrs.C06
