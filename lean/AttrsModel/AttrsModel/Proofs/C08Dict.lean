/-
  C08 — lemmas about the association-list dictionary of the model (`Dict.get/set/del`, filters, folds).
-/
import AttrsModel.Spec.C08

namespace Attrs.C08

theorem get_set_same (d : Dict) (k : String) (v : Entry) : Dict.get (Dict.set d k v) k = some v := by
  induction d with
  | nil => simp [Dict.set, Dict.get]
  | cons kv rest ih =>
    obtain ⟨k', v'⟩ := kv
    by_cases h : k' = k
    · simp [Dict.set, Dict.get, h]
    · simp [Dict.set, Dict.get, h, ih]

theorem get_set_other (d : Dict) (k k' : String) (v : Entry) (h : k' ≠ k) :
    Dict.get (Dict.set d k v) k' = Dict.get d k' := by
  induction d with
  | nil => simp [Dict.set, Dict.get, Ne.symm h]
  | cons kv rest ih =>
    obtain ⟨k0, v0⟩ := kv
    by_cases h0 : k0 = k
    · subst h0
      simp [Dict.set, Dict.get, Ne.symm h]
    · by_cases h1 : k0 = k'
      · subst h1; simp [Dict.set, Dict.get, h0]
      · simp [Dict.set, Dict.get, h0, h1, ih]

theorem get_del_other (d : Dict) (k k' : String) (h : k' ≠ k) :
    Dict.get (Dict.del d k) k' = Dict.get d k' := by
  induction d with
  | nil => simp [Dict.del, Dict.get]
  | cons kv rest ih =>
    obtain ⟨k0, v0⟩ := kv
    by_cases h0 : k0 = k
    · subst h0
      simp [Dict.del, Dict.get, Ne.symm h]
    · by_cases h1 : k0 = k'
      · subst h1; simp [Dict.del, Dict.get, h0]
      · simp [Dict.del, Dict.get, h0, h1, ih]

theorem get_foldl_del_other (ks : List String) (d : Dict) (k' : String) (h : k' ∉ ks) :
    Dict.get (ks.foldl Dict.del d) k' = Dict.get d k' := by
  induction ks generalizing d with
  | nil => rfl
  | cons k ks ih =>
    simp only [List.foldl_cons]
    rw [ih _ (fun hm => h (List.mem_cons_of_mem _ hm))]
    exact get_del_other d k k' (fun e => h (e ▸ List.mem_cons_self))

theorem get_foldl_set_other {α : Type} (xs : List α) (key : α → String) (val : α → Entry) (d : Dict) (k' : String)
    (h : ∀ x ∈ xs, key x ≠ k') :
    Dict.get (xs.foldl (fun d x => Dict.set d (key x) (val x)) d) k' = Dict.get d k' := by
  induction xs generalizing d with
  | nil => rfl
  | cons x xs ih =>
    simp only [List.foldl_cons]
    rw [ih _ (fun y hy => h y (List.mem_cons_of_mem _ hy))]
    exact get_set_other d (key x) k' (val x) (fun e => h x List.mem_cons_self e.symm)

theorem get_filter_key (d : Dict) (p : String → Bool) (k : String) :
    Dict.get (d.filter (fun kv => p kv.1)) k = if p k then Dict.get d k else none := by
  induction d with
  | nil => simp [Dict.get]
  | cons kv rest ih =>
    obtain ⟨k0, v0⟩ := kv
    by_cases hp : p k0 = true
    · by_cases h0 : k0 = k
      · subst h0; simp [hp, Dict.get]
      · simp [hp, Dict.get, h0, ih]
    · have hp' : p k0 = false := by simpa using hp
      by_cases h0 : k0 = k
      · subst h0; simp [hp', ih]
      · simp [hp', Dict.get, h0, ih]

theorem get_append (d1 d2 : Dict) (k : String) :
    Dict.get (d1 ++ d2) k = match Dict.get d1 k with | some e => some e | none => Dict.get d2 k := by
  induction d1 with
  | nil => simp [Dict.get]
  | cons kv rest ih =>
    obtain ⟨k0, v0⟩ := kv
    by_cases h0 : k0 = k
    · simp [Dict.get, h0]
    · simp [Dict.get, h0, ih]

/-- a body entry is found under its key when keys are distinct -/
theorem get_map_orig (body : List (String × Item)) (k : String) (it : Item)
    (hn : (body.map (·.1)).Nodup) (hm : (k, it) ∈ body) :
    Dict.get (body.map (fun kv => (kv.1, Entry.orig kv.2))) k = some (.orig it) := by
  induction body with
  | nil => cases hm
  | cons kv rest ih =>
    obtain ⟨k0, v0⟩ := kv
    have hn' : (∀ (x : Item), ¬(k0, x) ∈ rest) ∧ (rest.map (·.1)).Nodup := by simpa using hn
    rcases List.mem_cons.1 hm with h | h
    · cases h; simp [Dict.get]
    · have : k0 ≠ k := fun e => hn'.1 it (e ▸ h)
      simp [Dict.get, this, ih hn'.2 h]

theorem get_map_orig_none (body : List (String × Item)) (k : String) (h : ∀ kv ∈ body, kv.1 ≠ k) :
    Dict.get (body.map (fun kv => (kv.1, Entry.orig kv.2))) k = none := by
  induction body with
  | nil => rfl
  | cons kv rest ih =>
    obtain ⟨k0, v0⟩ := kv
    have : k0 ≠ k := h (k0, v0) List.mem_cons_self
    simp [Dict.get, this, ih (fun x hx => h x (List.mem_cons_of_mem _ hx))]

/-- distinct keys: a key is bound to one object -/
theorem nodup_body_unique {β : Type} (body : List (String × β)) (hn : (body.map (·.1)).Nodup) (k : String) (a b : β)
    (ha : (k, a) ∈ body) (hb : (k, b) ∈ body) : a = b := by
  induction body with
  | nil => cases ha
  | cons kv rest ih =>
    obtain ⟨k0, v0⟩ := kv
    have hn' : (∀ (x : β), ¬(k0, x) ∈ rest) ∧ (rest.map (·.1)).Nodup := by simpa using hn
    rcases List.mem_cons.1 ha with h1 | h1
    · rcases List.mem_cons.1 hb with h2 | h2
      · cases h1; cases h2; rfl
      · cases h1; exact absurd h2 (hn'.1 b)
    · rcases List.mem_cons.1 hb with h2 | h2
      · cases h2; exact absurd h1 (hn'.1 a)
      · exact ih hn'.2 h1 h2

/-- what is found in a dict is one of its values -/
theorem get_mem (d : Dict) (k : String) (e : Entry) (h : Dict.get d k = some e) : (k, e) ∈ d := by
  induction d with
  | nil => simp [Dict.get] at h
  | cons kv rest ih =>
    obtain ⟨k0, v0⟩ := kv
    by_cases h0 : k0 = k
    · simp [Dict.get, h0] at h; subst h; subst h0; exact List.mem_cons_self
    · simp [Dict.get, h0] at h; exact List.mem_cons_of_mem _ (ih h)

theorem mem_set (d : Dict) (k : String) (v : Entry) (a : String) (e : Entry)
    (h : (a, e) ∈ Dict.set d k v) : (a, e) ∈ d ∨ (a = k ∧ e = v) := by
  induction d with
  | nil => simp [Dict.set] at h; exact Or.inr h
  | cons kv rest ih =>
    obtain ⟨k0, v0⟩ := kv
    by_cases h0 : k0 = k
    · simp only [Dict.set, h0, if_true] at h
      rcases List.mem_cons.1 h with h | h
      · cases h; exact Or.inr ⟨rfl, rfl⟩
      · exact Or.inl (List.mem_cons_of_mem _ h)
    · simp only [Dict.set, h0, if_false] at h
      rcases List.mem_cons.1 h with h | h
      · exact Or.inl (h ▸ List.mem_cons_self)
      · rcases ih h with h | h
        · exact Or.inl (List.mem_cons_of_mem _ h)
        · exact Or.inr h

theorem mem_del (d : Dict) (k : String) (a : String) (e : Entry) (h : (a, e) ∈ Dict.del d k) : (a, e) ∈ d := by
  induction d with
  | nil => simp [Dict.del] at h
  | cons kv rest ih =>
    obtain ⟨k0, v0⟩ := kv
    by_cases h0 : k0 = k
    · simp only [Dict.del, h0, if_true] at h; exact List.mem_cons_of_mem _ h
    · simp only [Dict.del, h0, if_false] at h
      rcases List.mem_cons.1 h with h | h
      · exact h ▸ List.mem_cons_self
      · exact List.mem_cons_of_mem _ (ih h)

end Attrs.C08
