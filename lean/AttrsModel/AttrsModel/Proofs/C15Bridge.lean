/-
  C15 — `defError` as one flat check list, and the bridge between each check of the model (code order) and
  the declarative rules of the specification.
-/
import AttrsModel.Proofs.C15

namespace Attrs.C15

/-! ### keyword defaults read from the source (T1) -/

theorem kw_define_autoDetect : kwBool Generated.defineKw "auto_detect" = true := by decide
theorem kw_attrs_autoDetect : kwBool Generated.attrsKw "auto_detect" = false := by decide
theorem kw_define_autoExc : kwBool Generated.defineKw "auto_exc" = true := by decide
theorem kw_attrs_autoExc : kwBool Generated.attrsKw "auto_exc" = false := by decide
theorem kw_define_order : kwDefault Generated.defineKw "order" = some (Lit.bool false) := by decide
theorem kw_attrs_order : kwDefault Generated.attrsKw "order" = some Lit.none := by decide

/-! ### vocabulary: the model's class facts are the documented notions -/

theorem autoDetectB_eq (c : Case) : c.autoDetectB = c.detect := by
  unfold Case.autoDetectB Case.detect Case.tbl OptB.get
  cases c.autoDetect <;> cases c.api <;>
    simp [kw_define_autoDetect, kw_attrs_autoDetect]

theorem isExc_eq (c : Case) : c.isExc = c.excClass := by
  unfold Case.isExc Case.excClass Case.autoExcB Case.tbl OptB.get
  cases c.autoExc <;> cases c.api <;> cases c.isBaseExc <;>
    simp [kw_define_autoExc, kw_attrs_autoExc]

theorem orderArg_eq (c : Case) : c.orderArg = c.orderAsked := by
  unfold Case.orderArg Case.orderAsked Case.tbl
  cases c.order <;> cases c.api <;> simp [kw_define_order, kw_attrs_order]

theorem isFrozen_eq (c : Case) : c.isFrozen = c.frozenClass := rfl

theorem hasOwnSetattr_eq (c : Case) : c.hasOwnSetattr = (c.detect && c.ownSetattr) := by
  simp [Case.hasOwnSetattr, autoDetectB_eq]

theorem whether_eq (flag : F3) (d o : Bool) : whether flag d o = generated flag d o := by
  cases flag <;> cases d <;> cases o <;> rfl

theorem genRepr_eq (c : Case) : c.genRepr = c.reprGenerated := by
  simp [Case.genRepr, Case.reprGenerated, whether_eq, autoDetectB_eq]

theorem genInit_eq (c : Case) : c.genInit = c.initGenerated := by
  simp [Case.genInit, Case.initGenerated, whether_eq, autoDetectB_eq]

theorem hashArg_eq (c : Case) : c.hashArg = c.hashAsked := by
  unfold Case.hashArg Case.hashAsked
  rw [autoDetectB_eq]
  cases c.unsafeHash <;> cases c.hash <;> cases c.detect <;> cases c.ownHash <;> rfl

theorem eqOrderFails_eq (c : Case) :
    c.eqOrderFails = (Rule.applies c .cmpMixed || Rule.applies c .orderWithoutEq) := by
  simp only [Case.eqOrderFails, Rule.applies, orderArg_eq]
  cases c.cmp <;> cases c.eq <;> cases c.orderAsked <;> cases c.api <;> decide

theorem genEq_eq (c : Case) (h : c.eqOrderFails = false) : c.genEq = c.eqGenerated := by
  unfold Case.genEq Case.eqGenerated Case.eqPassed Case.eqAsked
  rw [whether_eq, autoDetectB_eq]
  unfold Case.eqOrderFails at h
  revert h
  unfold detEqOrder
  cases c.cmp <;> cases c.eq <;> cases c.orderArg <;> cases c.api <;> simp

theorem addsHash_eq (c : Case) (h : c.genEq = c.eqGenerated) : c.addsHash = c.hashGenerated := by
  unfold Case.addsHash Case.hashGenerated
  rw [hashArg_eq, isExc_eq, isFrozen_eq, h]
  cases c.hashAsked <;> cases c.excClass <;> cases c.eqGenerated <;> cases c.frozenClass <;> rfl

theorem isHook_eq_userHooks (c : Case) : c.onSetattr.isHook = c.userHooks := by
  unfold CHook.isHook Case.userHooks
  cases c.onSetattr <;> rfl

/-- on a class that is not frozen the builder's class-level hook is exactly "hooks in force" -/
theorem builderOn_notFrozen (c : Case) (h : c.isFrozen = false) :
    (builderOn c c.attrs).isHook = c.classHooksInForce := by
  unfold builderOn Case.classHooksInForce Case.passedOn
  have hf : c.frozen = false := by
    unfold Case.isFrozen at h; cases hfr : c.frozen <;> simp_all
  simp only [h, hf]
  cases c.onSetattr <;> cases c.api <;> cases c.baseFrozen <;>
    cases (c.attrs.any (·.validator)) <;> cases (c.attrs.any (·.converter)) <;> decide

/-- on a frozen class nothing is dropped: the hook is the user's unless `define` replaced it by NO_OP -/
theorem builderOn_frozen (c : Case) (h : c.isFrozen = true) :
    (builderOn c c.attrs).isHook = (c.userHooks && !(c.api == .define && c.baseFrozen)) := by
  unfold builderOn Case.passedOn Case.userHooks
  simp only [h, if_true]
  unfold Case.isFrozen at h
  revert h
  cases c.onSetattr <;> cases c.api <;> cases c.baseFrozen <;> cases c.frozen <;> cases c.ownSetattr <;> decide

theorem unannCond_eq (c : Case) :
    (!c.these && c.annotationMode && c.fields.any Field.unann) = Rule.applies c .unannotated := by
  simp only [Rule.applies]
  unfold Case.annotationMode
  cases c.autoAttribs <;> cases c.api <;> cases c.these <;> cases (c.fields.any Field.unann) <;> rfl

/-! ### one flat list of checks -/

/-- the decoration phase in code order: `define.wrap`, `_determine_attrs_eq_order`, `attrs.wrap` in the
    auto_attribs mode that is finally in effect -/
def allChecks (c : Case) : List (Bool × Exc) :=
  (c.api == .define && c.baseFrozen && c.onSetattr.isHook, .valueError) ::
  (c.eqOrderFails, .valueError) :: wrapChecks c c.annotationMode

def checks (c : Case) : List (Bool × Exc) := c.fields.flatMap fieldChecks ++ allChecks c

theorem attrsErr_ne_unannotated (c : Case) (aa : Bool)
    (h : (!c.these && aa && c.fields.any Field.unann) = false) :
    attrsErr c aa ≠ some .unannotated := by
  intro hh
  obtain ⟨p, hp, h1, h2⟩ := firstFail_some_mem hh
  simp only [wrapChecks, List.mem_cons, List.mem_nil_iff, or_false] at hp
  rcases hp with rfl | rfl | rfl | rfl | rfl | rfl | rfl | rfl | rfl | rfl | rfl | rfl
  all_goals first
    | (simp at h2; done)
    | (simp only at h1; rw [h] at h1; exact absurd h1 (by decide))

theorem phase2_eq (c : Case) : phase2 c = firstFail (allChecks c) := by
  unfold phase2 allChecks
  cases hapi : c.api
  · -- attr.s
    have : c.annotationMode = (c.autoAttribs == .t) := by
      unfold Case.annotationMode; rw [hapi]; cases c.autoAttribs <;> rfl
    have hd : (Api.attrS == Api.define) = false := by decide
    simp [attrsErr, this, firstFail_cons, hd]
  · -- define
    simp only [defineErr, beq_self_eq_true, Bool.true_and, firstFail_cons]
    by_cases hb : (c.baseFrozen && c.onSetattr.isHook) = true
    · simp [hb]
    · simp only [hb, Bool.false_eq_true, if_false]
      cases haa : c.autoAttribs
      · -- unset: try annotations, fall back
        cases hu : (!c.these && c.fields.any Field.unann)
        · have hm : c.annotationMode = true := by
            unfold Case.annotationMode; rw [hapi, haa]; simp [hu]
          have hne := attrsErr_ne_unannotated c true (by simpa using hu)
          rw [hm]
          simp only [attrsErr, firstFail_cons] at hne ⊢
          split
          · rename_i heq; exact absurd heq hne
          · rfl
        · have hm : c.annotationMode = false := by
            unfold Case.annotationMode; rw [hapi, haa]; simp [hu]
          rw [hm]
          have hu' : (!c.these && true && c.fields.any Field.unann) = true := by simpa using hu
          simp only [attrsErr, wrapChecks, firstFail_cons, hu', Bool.and_false, Bool.false_and,
            Bool.false_eq_true, if_false, if_true]
          cases c.eqOrderFails <;> cases (c.hasOwnSetattr && c.isFrozen) <;> simp
      · have hm : c.annotationMode = true := by
          unfold Case.annotationMode; rw [haa]
        simp [hm, attrsErr, firstFail_cons]
      · have hm : c.annotationMode = false := by
          unfold Case.annotationMode; rw [haa]
        simp [hm, attrsErr, firstFail_cons]
  · -- make_class
    have : c.annotationMode = (c.autoAttribs == .t) := by
      unfold Case.annotationMode; rw [hapi]; cases c.autoAttribs <;> rfl
    have hd : (Api.makeClass == Api.define) = false := by decide
    simp [attrsErr, this, firstFail_cons, hd]

theorem defError_eq (c : Case) : defError c = firstFail (checks c) := by
  unfold defError checks phase1
  rw [firstFail_append, phase2_eq]
  cases firstFail (List.flatMap fieldChecks c.fields) <;> rfl

end Attrs.C15
