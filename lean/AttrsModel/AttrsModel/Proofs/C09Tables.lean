/-
  C09 — the finite decision tables: per-field and class-level resolution of cmp/eq/order, checked
  exhaustively against the documented tables of Spec/C09 (keyword defaults from Generated/Tables).
-/
import AttrsModel.Spec.C09
namespace Attrs.C09

theorem kw_attrs_cmp : kwDefault Generated.attrsKw "cmp" = some Lit.none := by decide
theorem kw_attrs_eq : kwDefault Generated.attrsKw "eq" = some Lit.none := by decide
theorem kw_attrs_order : kwDefault Generated.attrsKw "order" = some Lit.none := by decide
theorem kw_attrs_ad : kwDefault Generated.attrsKw "auto_detect" = some (Lit.bool false) := by decide
theorem kw_define_cmp : kwDefault Generated.defineKw "cmp" = none := by decide
theorem kw_define_eq : kwDefault Generated.defineKw "eq" = some Lit.none := by decide
theorem kw_define_order : kwDefault Generated.defineKw "order" = some (Lit.bool false) := by decide
theorem kw_define_ad : kwDefault Generated.defineKw "auto_detect" = some (Lit.bool true) := by decide

/-- field level: rejected exactly when documented; otherwise participation and key as documented -/
theorem field_table (cmp eq order : FArg) (f : Field) (h1 : f.cmp = cmp) (h2 : f.eq = eq) (h3 : f.order = order) :
    (f.resolved.isNone = fieldRejected f) ∧
    (fieldRejected f = false → (f.orderPart, f.orderView) = declPart f) := by
  cases cmp <;> cases eq <;> cases order <;>
    simp [Field.resolved, Field.orderPart, Field.orderView, determineAttrib, decideCallable, fieldRejected, declPart,
      FArg.given, h1, h2, h3]

/-- class level: the step-by-step resolution of the three front-ends is the documented table -/
theorem class_table (c : Case) (hd : ¬ (c.api = .define ∧ c.cmp ≠ .unset)) :
    clsErr c = (if declRejects c then .valueError else .ok) ∧ generated c = declGenerated c := by
  rcases c with ⟨api, cmp, eq, order, ad, own, bo, so, fields, rhs⟩
  cases api <;> cases cmp <;> cases eq <;> cases order <;> cases ad <;> cases own <;>
    simp_all [clsErr, generated, classFlags, argValue, determineAttrs, whetherToImplement, autoDetect, autoDetectValue,
      kw_attrs_cmp, kw_attrs_eq, kw_attrs_order, kw_attrs_ad, kw_define_cmp, kw_define_eq, kw_define_order, kw_define_ad,
      declRejects, declGenerated, declClass, declAutoDetect, Arg4.given, Arg4.val, onOff, bind, Except.bind]

end Attrs.C09
