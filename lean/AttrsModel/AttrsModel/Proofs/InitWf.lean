/-
  From the decidable well-formedness predicates of the specs to the hypotheses of the body theorem.
-/
import AttrsModel.Proofs.InitBody

namespace Attrs.Init

@[simp] theorem eff_attrs (c : Case) : c.eff.attrs = c.run.attrs := rfl
@[simp] theorem eff_fault (c : Case) : c.eff.fault = c.run.fault := rfl
@[simp] theorem eff_own (c : Case) : c.eff.own = c.run.own := rfl
@[simp] theorem eff_bases (c : Case) : c.eff.bases = c.run.bases := rfl

theorem nodup_map_inj {α β : Type} (f : α → β) (l : List α) (h : (l.map f).Nodup)
    (a : α) (ha : a ∈ l) (b : α) (hb : b ∈ l) (hab : f a = f b) : a = b := by
  induction l with
  | nil => cases ha
  | cons x l ih =>
    have h2 : (∀ y ∈ l, ¬f y = f x) ∧ (l.map f).Nodup := by simpa using h
    rcases List.mem_cons.1 ha with ha1 | ha2
    · rcases List.mem_cons.1 hb with hb1 | hb2
      · rw [ha1, hb1]
      · exact absurd (by rw [← hab, ha1]) (h2.1 b hb2)
    · rcases List.mem_cons.1 hb with hb1 | hb2
      · exact absurd (by rw [hab, hb1]) (h2.1 a ha2)
      · exact ih h2.2 ha2 hb2

theorem aliasInj_of_nodup (attrs : List Attr) (h : ((attrs.filter (·.init)).map (·.alias)).Nodup) :
    AliasInj attrs := by
  intro a ha b hb hai hbi hab
  exact nodup_map_inj (·.alias) _ h a (List.mem_filter.2 ⟨ha, hai⟩) b (List.mem_filter.2 ⟨hb, hbi⟩) hab

/-- the spec-level well-formedness of C01 plus a well-formed call give the body hypotheses -/
theorem bodyOK_of_wf (c : Case) (hwf : C01.wf c = true) (hk : C01.known c = [])
    (hok : callOk (params c.run.attrs) c.call = true) : BodyOK c.eff c.call := by
  unfold C01.wf at hwf
  simp only [Bool.and_eq_true, C01.distinct, decide_eq_true_eq, List.all_eq_true, eff_attrs, eff_fault] at hwf
  obtain ⟨⟨⟨⟨⟨⟨⟨_, hn⟩, hc⟩, ha⟩, _⟩, hp⟩, hkw⟩, _⟩ := hwf
  refine ⟨⟨hok, aliasInj_of_nodup _ (of_decide_eq_true ha), ?_, ?_⟩, of_decide_eq_true hn, ?_, ?_⟩
  · intro v hv; simpa using hp v hv
  · intro kv hkv; simpa using hkw kv hkv
  · intro a ha'; simpa using hc a ha'
  · intro a ha'
    unfold C01.known at hk
    by_cases hany : c.eff.attrs.any (C01.misplaced c.eff) = true
    · rw [if_pos hany] at hk; cases hk
    · have : c.eff.attrs.any (C01.misplaced c.eff) = false := by simpa using hany
      exact List.any_eq_false.1 this a ha' |> fun h => by simpa using h

end Attrs.Init
