/-
  C16 — lemmas: what one step does to the world, for an arbitrary `Leak` parameter and for `noLeak`.
-/
import AttrsModel.Spec.C16

namespace Attrs.C16

set_option linter.unusedSimpArgs false

/-! ### the tables extracted from the source license no write -/

theorem currentLeak_eq_noLeak : currentLeak = noLeak := by decide

/-! ### one decorator application -/

theorem decoApply_noLeak_cells (args : Args) (cell : Cells) (v : ClassView) :
    (decoApply noLeak args cell v).1 = cell := by
  unfold decoApply
  cases args.api <;> simp [noLeak]

/-- frame: a cell changes only if the leak parameter licenses it -/
theorem decoApply_frame (lk : Leak) (args : Args) (cell : Cells) (v : ClassView) :
    (lk.hashCell = false → (decoApply lk args cell v).1.hash = cell.hash) ∧
    (lk.onSetattrCell = false → (decoApply lk args cell v).1.onSetattr = cell.onSetattr) := by
  unfold decoApply
  cases args.api <;> constructor <;> intro h <;> simp [h]

/-- the hash-detection statement changes the value only on the trigger -/
theorem detectHash_eq (x : Tri) (ad : Bool) (own : OwnMethods) (h : ¬ (x = .n ∧ ad = true ∧ hasOwnHash own = true)) :
    detectHash x ad own = x := by
  unfold detectHash
  split
  · rename_i hc
    exfalso; apply h
    simp only [Bool.and_eq_true, beq_iff_eq] at hc
    exact ⟨hc.1.1, hc.1.2, hc.2⟩
  · rfl

/-- the define prologue rebinds `on_setattr` to something else only if it was `None` -/
theorem defineHook_eq (fr bf : Bool) (cell : Hook) (h : cell ≠ .n) : (defineHook fr cell bf).1.getD cell = cell := by
  cases cell <;> cases fr <;> cases bf <;> first | (exact absurd rfl h) | rfl

theorem set_of_getElem? {α : Type} (l : List α) (i : Nat) (a : α) (h : l[i]? = some a) : l.set i a = l := by
  obtain ⟨hi, rfl⟩ := List.getElem?_eq_some_iff.1 h
  exact List.set_getElem_self hi

/-! ### definitions leave the world alone -/

theorem mkApply_noLeak_world (c : Case) (w : World) (m : MkArgs) : (mkApply noLeak c w m).1 = w := by
  simp [mkApply, noLeak]

theorem step_noLeak_def (c : Case) (w : World) (s : Step) (h : s.isDef = true) : (step noLeak c w s).1 = w := by
  cases s with
  | defDeco i f =>
    simp only [step]
    split
    · rename_i args cell _ hc
      simp only [decoApply_noLeak_cells, set_of_getElem? _ _ _ hc]
    · rfl
  | defMk m => simp only [step, mkApply_noLeak_world]
  | _ => simp [Step.isDef] at h

/-- a change of the process environment is invisible to the world of a definition -/
theorem step_env (lk : Leak) (c : Case) (w : World) (s : Step) (h : s.isEnv = true) : (step lk c w s).1 = w := by
  cases s <;> first | rfl | simp [Step.isEnv] at h

/-- a user operation does the same whatever the leak parameter is -/
theorem step_userOp_lk (lk lk' : Leak) (c : Case) (w : World) (s : Step) (h : s.isDef = false) :
    step lk c w s = step lk' c w s := by
  cases s <;> first | rfl | simp [Step.isDef] at h

theorem run_noLeak_erase (c : Case) (steps : List Step) :
    ∀ w, (run noLeak c w steps).1 = (run noLeak c w (userOps steps)).1 := by
  induction steps with
  | nil => intro w; rfl
  | cons s rest ih =>
    intro w
    by_cases h : s.isDef = true
    · have hu : userOps (s :: rest) = userOps rest := by simp [userOps, h]
      rw [hu]
      simp only [run, step_noLeak_def c w s h]
      exact ih w
    · have h' : s.isDef = false := by simpa using h
      by_cases he : s.isEnv = true
      · have hu : userOps (s :: rest) = userOps rest := by simp [userOps, he]
        rw [hu]
        simp only [run, step_env noLeak c w s he]
        exact ih w
      · have he' : s.isEnv = false := by simpa using he
        have hu : userOps (s :: rest) = s :: userOps rest := by simp [userOps, h', he']
        rw [hu]
        simp only [run]
        exact ih _

theorem userOps_of_all_defs (steps : List Step) (h : ∀ s ∈ steps, s.isDef = true) : userOps steps = [] := by
  simp only [userOps, List.filter_eq_nil_iff]
  intro s hs
  simp [h s hs]

/-! ### what a history does to each component of the world (for `noLeak`) -/

/-- a user operation touches neither closure cells nor the make_class dict -/
theorem step_userOp_cells (lk : Leak) (c : Case) (w : World) (s : Step) (h : s.isDef = false) :
    (step lk c w s).1.cells = w.cells ∧ (step lk c w s).1.mkHooks = w.mkHooks := by
  cases s with
  | defDeco i f => simp [Step.isDef] at h
  | defMk m => simp [Step.isDef] at h
  | caValidator j => simp only [step]; split <;> exact ⟨rfl, rfl⟩
  | caDefault j =>
    simp only [step]
    split
    · split <;> exact ⟨rfl, rfl⟩
    · exact ⟨rfl, rfl⟩
  | _ => exact ⟨rfl, rfl⟩

theorem step_noLeak_cells (c : Case) (w : World) (s : Step) : (step noLeak c w s).1.cells = w.cells := by
  by_cases h : s.isDef = true
  · rw [step_noLeak_def c w s h]
  · exact (step_userOp_cells noLeak c w s (by simpa using h)).1

theorem step_noLeak_mkHooks (c : Case) (w : World) (s : Step) : (step noLeak c w s).1.mkHooks = w.mkHooks := by
  by_cases h : s.isDef = true
  · rw [step_noLeak_def c w s h]
  · exact (step_userOp_cells noLeak c w s (by simpa using h)).2

theorem run_noLeak_cells (c : Case) (steps : List Step) : ∀ w, (run noLeak c w steps).1.cells = w.cells := by
  induction steps with
  | nil => intro w; rfl
  | cons s rest ih => intro w; simp only [run]; rw [ih, step_noLeak_cells]

theorem run_noLeak_mkHooks (c : Case) (steps : List Step) : ∀ w, (run noLeak c w steps).1.mkHooks = w.mkHooks := by
  induction steps with
  | nil => intro w; rfl
  | cons s rest ih => intro w; simp only [run]; rw [ih, step_noLeak_mkHooks]

/-! ### shared counting attrs and container sizes: only the user's operations count (any leak parameter) -/

/-- effect of one step on counting attr number `k` -/
def bump (s : Step) (k : Nat) (st : CaState) : CaState :=
  match s with
  | .caValidator j => if j = k then { st with nValid := st.nValid + 1 } else st
  | .caDefault j => if j = k then { st with hasDefault := true } else st
  | .defDeco .. | .defMk .. | .valAppend | .convAppend | .hookAppend | .metaSet | .validatorsOff | .validatorsOn | .use _ => st

theorem caExpected_cons (s : Step) (rest : List Step) (k : Nat) (st : CaState) :
    caExpected (s :: rest) k st = caExpected rest k (bump s k st) := by
  cases s with
  | caValidator j =>
    by_cases h : j = k
    · subst h
      simp [caExpected, bump, countValidator, Nat.add_assoc, Nat.add_comm 1]
    · have : (Step.caValidator j == Step.caValidator k) = false := by simp [h]
      simp [caExpected, bump, countValidator, this, h]
  | caDefault j =>
    by_cases h : j = k
    · subst h
      simp [caExpected, bump, countValidator]
    · have h' : ¬ k = j := fun e => h e.symm
      simp [caExpected, bump, countValidator, h, h']
  | _ => simp [caExpected, bump, countValidator]

theorem step_cas (lk : Leak) (c : Case) (w : World) (s : Step) (k : Nat) :
    (step lk c w s).1.cas[k]? = (w.cas[k]?).map (bump s k) := by
  cases hk : w.cas[k]? with
  | none =>
    cases s with
    | defDeco i f => simp only [step]; split <;> simp [hk]
    | defMk m => simp [step, mkApply, hk]
    | caValidator j => simp only [step]; split <;> simp [List.getElem?_modify, hk]
    | caDefault j =>
      simp only [step]
      split
      · split <;> simp [List.getElem?_modify, hk]
      · simp [hk]
    | _ => simp [step, hk]
  | some st =>
    cases s with
    | defDeco i f => simp only [step]; split <;> simp [hk, bump]
    | defMk m => simp [step, mkApply, hk, bump]
    | caValidator j =>
      simp only [step]
      split
      · by_cases h : j = k <;> simp [List.getElem?_modify, hk, bump, h]
      · rename_i hn
        have h : ¬ j = k := by intro e; subst e; simp [hk] at hn
        simp [hk, bump, h]
    | caDefault j =>
      simp only [step]
      split
      · rename_i st' hs
        split
        · rename_i hd
          by_cases h : j = k
          · subst h
            have : st' = st := by simpa [hk] using hs.symm
            subst this
            cases st'; simp_all [bump]
          · simp [hk, bump, h]
        · by_cases h : j = k <;> simp [List.getElem?_modify, hk, bump, h]
      · rename_i hn
        have h : ¬ j = k := by intro e; subst e; simp [hk] at hn
        simp [hk, bump, h]
    | _ => simp [step, hk, bump]

theorem getElem?_casExpected (cas : List CaState) (ops : List Step) (k : Nat) :
    (casExpected cas ops)[k]? = (cas[k]?).map (caExpected ops k) := by
  simp only [casExpected, List.getElem?_map, List.getElem?_zipIdx, Option.map_map]
  cases cas[k]? <;> simp

theorem caExpected_nil (k : Nat) (st : CaState) : caExpected [] k st = st := by
  cases st; simp [caExpected, countValidator]

theorem run_cas (lk : Leak) (c : Case) (steps : List Step) :
    ∀ w, (run lk c w steps).1.cas = casExpected w.cas steps := by
  induction steps with
  | nil =>
    intro w
    apply List.ext_getElem?
    intro k
    simp only [run, getElem?_casExpected]
    cases w.cas[k]? <;> simp [caExpected_nil]
  | cons s rest ih =>
    intro w
    simp only [run]
    rw [ih]
    apply List.ext_getElem?
    intro k
    simp only [getElem?_casExpected, step_cas, Option.map_map]
    cases w.cas[k]? <;> simp [caExpected_cons]

/-- the four container sizes of a world -/
def sizes (w : World) : List Nat := [w.valLen, w.convLen, w.hookLen, w.metaSize]

def sizesExpected (w : World) (ops : List Step) : List Nat :=
  [w.valLen + countOp .valAppend ops, w.convLen + countOp .convAppend ops,
   w.hookLen + countOp .hookAppend ops, w.metaSize + countOp .metaSet ops]

theorem step_sizes (lk : Leak) (c : Case) (w : World) (s : Step) (rest : List Step) :
    sizesExpected (step lk c w s).1 rest = sizesExpected w (s :: rest) := by
  cases s with
  | defDeco i f =>
    simp only [step]
    split <;> simp [sizesExpected, countOp]
  | defMk m => simp [step, mkApply, sizesExpected, countOp]
  | caValidator j =>
    simp only [step]
    split <;> simp [sizesExpected, countOp]
  | caDefault j =>
    simp only [step]
    split
    · split <;> simp [sizesExpected, countOp]
    · simp [sizesExpected, countOp]
  | _ => simp [step, sizesExpected, countOp, Nat.add_assoc, Nat.add_comm 1]

theorem run_sizes (lk : Leak) (c : Case) (steps : List Step) :
    ∀ w, sizes (run lk c w steps).1 = sizesExpected w steps := by
  induction steps with
  | nil => intro w; simp [run, sizes, sizesExpected, countOp]
  | cons s rest ih =>
    intro w
    simp only [run]
    rw [ih, step_sizes]

/-- a definition step changes neither counting attrs nor sizes, whatever the leak parameter -/
theorem step_def_cas_sizes (lk : Leak) (c : Case) (w : World) (s : Step) (h : s.isDef = true) :
    (step lk c w s).1.cas = w.cas ∧ sizes (step lk c w s).1 = sizes w := by
  cases s with
  | defDeco i f =>
    simp only [step]
    split <;> exact ⟨rfl, rfl⟩
  | defMk m => exact ⟨rfl, rfl⟩
  | _ => simp [Step.isDef] at h

/-! ### the original behaviour (`allLeak`): which applications can change the world at all -/

theorem decoApply_allLeak_hash (args : Args) (cell : Cells) (v : ClassView) (ha : args.api = .attrS)
    (h : ¬ (cell.hash = .n ∧ (resolve args).autoDetect = true ∧ hasOwnHash v.own = true)) :
    (decoApply allLeak args cell v).1 = cell := by
  unfold decoApply
  simp only [ha, allLeak, Bool.true_and, detectHash_eq _ _ _ h]
  cases cell; simp

theorem decoApply_allLeak_onSetattr (args : Args) (cell : Cells) (v : ClassView) (ha : args.api ≠ .attrS)
    (h : cell.onSetattr ≠ .n) : (decoApply allLeak args cell v).1 = cell := by
  have key : (defineCore (resolve args) cell.onSetattr v).1.getD cell.onSetattr = cell.onSetattr := by
    have := defineHook_eq (resolve args).frozen v.base.setattrFrozen cell.onSetattr h
    unfold defineCore
    split <;> simp_all
  unfold decoApply
  cases hapi : args.api with
  | attrS => exact absurd hapi ha
  | define | frozen =>
    simp only [allLeak, if_true, key]

/-- can this step change the world under the original behaviour? -/
def triggers (c : Case) (w : World) : Step → Bool
  | .defDeco i f =>
    match c.decos[i]?, w.cells[i]? with
    | some args, some cell =>
      if args.api == .attrS then cell.hash == .n && (resolve args).autoDetect && hasOwnHash f.own
      else cell.onSetattr == .n
    | _, _ => false
  | .defMk m => !m.useList && !w.mkHooks.isEmpty
  | _ => false

theorem step_allLeak_untriggered (c : Case) (w : World) (s : Step) (h : s.isDef = true)
    (ht : triggers c w s = false) : (step allLeak c w s).1 = w := by
  cases s with
  | defDeco i f =>
    simp only [step]
    simp only [triggers] at ht
    split
    · rename_i args cell hd hc
      simp only [hd, hc] at ht
      have : (decoApply allLeak args cell (classView c w f)).1 = cell := by
        by_cases ha : args.api = .attrS
        · apply decoApply_allLeak_hash _ _ _ ha
          simp only [ha, beq_self_eq_true, if_true] at ht
          intro hh
          simp [classView, hh.1, hh.2.1] at ht
          simp [classView, ht] at hh
        · apply decoApply_allLeak_onSetattr _ _ _ ha
          have hne : (args.api == Api.attrS) = false := by simpa using ha
          simp only [hne, Bool.false_eq_true, if_false] at ht
          simpa using ht
      simp only [this, set_of_getElem? _ _ _ hc]
    · rfl
  | defMk m =>
    simp only [triggers] at ht
    simp only [mkApply, step, allLeak, Bool.true_and]
    by_cases hu : m.useList = true
    · simp [hu]
    · have hm : w.mkHooks = [] := by
        simp only [hu, Bool.not_false, Bool.true_and, Bool.not_eq_eq_eq_not, Bool.not_false] at ht
        simpa using ht
      cases w; simp_all
  | _ => simp [Step.isDef] at h

/-- no definition of the history is a trigger at the moment it is executed -/
def quiet (c : Case) : World → List Step → Bool
  | _, [] => true
  | w, s :: rest => !triggers c w s && quiet c (step allLeak c w s).1 rest

theorem run_allLeak_quiet (c : Case) (steps : List Step) :
    ∀ w, quiet c w steps = true → (run allLeak c w steps).1 = (run allLeak c w (userOps steps)).1 := by
  induction steps with
  | nil => intro w _; rfl
  | cons s rest ih =>
    intro w hq
    simp only [quiet, Bool.and_eq_true, Bool.not_eq_eq_eq_not, Bool.not_true] at hq
    by_cases h : s.isDef = true
    · have hu : userOps (s :: rest) = userOps rest := by simp [userOps, h]
      have hw := step_allLeak_untriggered c w s h hq.1
      rw [hu]
      simp only [run, hw]
      exact ih w (hw ▸ hq.2)
    · have h' : s.isDef = false := by simpa using h
      by_cases he : s.isEnv = true
      · have hu : userOps (s :: rest) = userOps rest := by simp [userOps, he]
        have hw := step_env allLeak c w s he
        rw [hu]
        simp only [run, hw]
        exact ih w (hw ▸ hq.2)
      · have he' : s.isEnv = false := by simpa using he
        have hu : userOps (s :: rest) = s :: userOps rest := by simp [userOps, h', he']
        rw [hu]
        simp only [run]
        exact ih _ hq.2

theorem run_noLeak_results (c : Case) (steps : List Step) (w : World) (h : ∀ s ∈ steps, s.isDef = true) :
    (run noLeak c w steps).2 = steps.map (fun s => (step noLeak c w s).2) := by
  induction steps with
  | nil => rfl
  | cons s rest ih =>
    have hs := h s List.mem_cons_self
    simp only [run, List.map_cons, step_noLeak_def c w s hs]
    rw [ih (fun t ht => h t (List.mem_cons_of_mem _ ht))]

/-! ### the process environment: only the history's own switch operations move it -/

def envVal : Step → Bool
  | .validatorsOff => false
  | _ => true

theorem envRun_last (steps : List Step) :
    ∀ r, envRun r steps = ((steps.filter (·.isSwitch)).getLast?.map envVal).getD r := by
  induction steps with
  | nil => intro r; rfl
  | cons s rest ih =>
    intro r
    cases s
    case validatorsOff =>
      rw [List.filter_cons_of_pos (by rfl), List.getLast?_cons]
      simp only [envRun, ih]
      cases (rest.filter (·.isSwitch)).getLast? <;> simp [envVal]
    case validatorsOn =>
      rw [List.filter_cons_of_pos (by rfl), List.getLast?_cons]
      simp only [envRun, ih]
      cases (rest.filter (·.isSwitch)).getLast? <;> simp [envVal]
    all_goals
      rw [List.filter_cons_of_neg (by simp [Step.isSwitch])]
      simp only [envRun, ih]

theorem envRun_expected (steps : List Step) : envRun true steps = envExpected steps := by
  rw [envRun_last, envExpected]
  cases h : (steps.filter (·.isSwitch)).getLast? with
  | none => rfl
  | some s => cases s <;> rfl

end Attrs.C16
