/-
  C18 — helper lemmas: order of evaluation of disjunctions, loops and deep_* validators; shallow traces.
-/
import AttrsModel.Proofs.C18Trace

namespace Attrs.C18

/-- a disjunction runs its elements in order up to the first that accepts -/
theorem or_first_accept (o : Oracle) (pre : List V) (v : V) (post : List V) (x : Nat)
    (hpre : ∀ u ∈ pre, ∃ k, (eval o u x).1 = some k ∧ isSub k .exception = true)
    (hv : (eval o v x).1 = none) :
    evalAny o (pre ++ v :: post) x = (none, pre.flatMap (fun u => (eval o u x).2) ++ (eval o v x).2) := by
  induction pre with
  | nil => simp [evalAny_cons, orElse, hv]
  | cons u pre ih =>
    obtain ⟨k, hk, hs⟩ := hpre u (by simp)
    have := ih (fun w hw => hpre w (by simp [hw]))
    simp [evalAny_cons, this, orElse, hk, hs, List.flatMap_cons]

/-- … or up to the first that raises something that is no `Exception`, which propagates -/
theorem or_first_base (o : Oracle) (pre : List V) (v : V) (post : List V) (x : Nat) (k : ExcKind)
    (hpre : ∀ u ∈ pre, ∃ k, (eval o u x).1 = some k ∧ isSub k .exception = true)
    (hv : (eval o v x).1 = some k) (hk : isSub k .exception = false) :
    evalAny o (pre ++ v :: post) x = (some k, pre.flatMap (fun u => (eval o u x).2) ++ (eval o v x).2) := by
  induction pre with
  | nil => simp [evalAny_cons, orElse, hv, hk]
  | cons u pre ih =>
    obtain ⟨k', hk', hs⟩ := hpre u (by simp)
    have := ih (fun w hw => hpre w (by simp [hw]))
    simp [evalAny_cons, this, orElse, hk', hs, List.flatMap_cons]

/-- … and when every element fails with an `Exception`, all are run and ValueError is raised -/
theorem or_all_fail (o : Oracle) (vs : List V) (x : Nat)
    (h : ∀ u ∈ vs, ∃ k, (eval o u x).1 = some k ∧ isSub k .exception = true) :
    evalAny o vs x = (some .valueError, vs.flatMap (fun u => (eval o u x).2)) := by
  induction vs with
  | nil => simp [raise]
  | cons u vs ih =>
    obtain ⟨k, hk, hs⟩ := h u (by simp)
    have := ih (fun w hw => h w (by simp [hw]))
    simp [evalAny_cons, this, orElse, hk, hs, List.flatMap_cons]

/-- loops: members are visited in order up to the first failing one -/
theorem forEach_first_failure {α : Type} (f : α → R) (pre : List α) (y : α) (post : List α) (k : ExcKind)
    (hpre : ∀ u ∈ pre, (f u).1 = none) (hy : (f y).1 = some k) :
    forEach f (pre ++ y :: post) = (some k, pre.flatMap (fun u => (f u).2) ++ (f y).2) := by
  induction pre with
  | nil => simp [forEach, andThen, hy]
  | cons u pre ih =>
    have hu := hpre u (by simp)
    have := ih (fun w hw => hpre w (by simp [hw]))
    simp [forEach, this, andThen, hu, List.flatMap_cons]

theorem forEach_all_ok {α : Type} (f : α → R) (ys : List α) (h : ∀ u ∈ ys, (f u).1 = none) :
    forEach f ys = (none, ys.flatMap (fun u => (f u).2)) := by
  induction ys with
  | nil => simp [forEach, ok]
  | cons u ys ih =>
    have hu := h u (by simp)
    have := ih (fun w hw => h w (by simp [hw]))
    simp [forEach, this, andThen, hu, List.flatMap_cons]

/-- deep_iterable: the iterable validator runs first; if it fails no member is looked at -/
theorem deepIter_container_first (o : Oracle) (m it : V) (x : Nat) (k : ExcKind)
    (hit : it.isNoneV = false) (h : (eval o it x).1 = some k) :
    eval o (.deepIter m it) x = (some k, (eval o it x).2) := by
  simp [eval, hit, andThen, h]

/-- deep_iterable: then the members in iteration order, up to the first failing member -/
theorem deepIter_member_order (o : Oracle) (m it : V) (x : Nat) (pre : List Item) (i : Item) (post : List Item)
    (k : ExcKind) (hit : it.isNoneV = true ∨ (eval o it x).1 = none)
    (hitems : (o.iter x).items = pre ++ i :: post)
    (hpre : ∀ j ∈ pre, (eval o m j.key).1 = none) (hi : (eval o m i.key).1 = some k) :
    eval o (.deepIter m it) x =
      (some k, (if it.isNoneV then [] else (eval o it x).2) ++
        (pre.flatMap (fun j => (eval o m j.key).2) ++ (eval o m i.key).2)) := by
  have hf := forEach_first_failure (fun j : Item => eval o m j.key) pre i post k hpre hi
  simp only [eval, hitems, hf]
  cases hn : it.isNoneV
  · have : (eval o it x).1 = none := by
      rcases hit with h | h
      · rw [hn] at h; cases h
      · exact h
    simp [andThen, this]
  · simp [andThen, ok]

/-- deep_iterable: an exception ending the iteration surfaces only after every member yielded before it
    has been validated -/
theorem deepIter_stop_last (o : Oracle) (m : V) (x : Nat) (k : ExcKind)
    (hstop : (o.iter x).stop = some k) (hall : ∀ j ∈ (o.iter x).items, (eval o m j.key).1 = none) :
    eval o (.deepIter m .noneV) x = (some k, (o.iter x).items.flatMap (fun j => (eval o m j.key).2)) := by
  have hf := forEach_all_ok (fun j : Item => eval o m j.key) (o.iter x).items hall
  simp [eval, V.isNoneV, hf, hstop, stopR, andThen, raise, ok]

/-- deep_mapping: per key, the key validator, then the lookup `value[key]`, then the value validator -/
theorem deepMap_item_order (o : Oracle) (kv vv : V) (i : Item) :
    (andThen (eval o kv i.key) (getR i.get (fun y => eval o vv y))) =
      (match (eval o kv i.key).1 with
       | some k => (some k, (eval o kv i.key).2)
       | none => (match i.get with
          | .ok y => ((eval o vv y).1, (eval o kv i.key).2 ++ (eval o vv y).2)
          | .exc k => (some k, (eval o kv i.key).2)
          | .na => (some .other, (eval o kv i.key).2))) := by
  unfold andThen
  cases h : (eval o kv i.key).1 with
  | some k => rfl
  | none => cases hg : i.get <;> simp [getR, raise]

/-! a tree without deep_* hands the root value itself to every user validator -/

mutual
def shallow : V → Bool
  | .deepIter _ _ | .deepIterSeq _ _ _ | .deepMap _ _ _ => false
  | .optional v => shallow v
  | .optionalSeq _ vs => shallowL vs
  | .not_ v _ _ => shallow v
  | .or_ vs => shallowL vs
  | .and_ vs => shallowL vs
  | .andRaw _ vs => shallowL vs
  | _ => true
def shallowL : List V → Bool
  | [] => true
  | v :: vs => shallow v && shallowL vs
end

mutual
theorem trace_shallow (o : Oracle) : ∀ (v : V) (x : Nat), shallow v = true → ∀ e ∈ (eval o v x).2, e.2 = x
  | .instOf _, x, _ => by simp [eval, ofPrim_trace]
  | .matchesRe _ _ _, x, _ => by simp [eval, ofPrim_trace]
  | .optional v, x, h => by
      intro e he
      simp only [eval] at he
      split at he
      · simp [ok] at he
      · exact trace_shallow o v x (by simpa [shallow] using h) e he
  | .optionalSeq _ vs, x, h => by
      intro e he
      simp only [eval] at he
      split at he
      · simp [ok] at he
      · exact traceAll_shallow o vs x (by simpa [shallow] using h) e he
  | .in_ _, x, _ => by simp [eval, inR_trace]
  | .isCallable, x, _ => by
      intro e he
      simp only [eval] at he
      split at he <;> simp [ok, raise] at he
  | .deepIter _ _, _, h => by simp [shallow] at h
  | .deepIterSeq _ _ _, _, h => by simp [shallow] at h
  | .deepMap _ _ _, _, h => by simp [shallow] at h
  | .num _ _, x, _ => by simp [eval, ofPrim_trace]
  | .maxLen _, x, _ => by simp [eval, lenVal_trace]
  | .minLen _, x, _ => by simp [eval, lenVal_trace]
  | .not_ v _ _, x, h => by
      intro e he
      simp only [eval, notR_trace] at he
      exact trace_shallow o v x (by simpa [shallow] using h) e he
  | .or_ vs, x, h => by
      intro e he
      simp only [eval] at he
      exact traceAny_shallow o vs x (by simpa [shallow] using h) e he
  | .and_ vs, x, h => by
      intro e he
      simp only [eval] at he
      exact traceAll_shallow o vs x (by simpa [shallow] using h) e he
  | .andRaw _ vs, x, h => by
      intro e he
      simp only [eval] at he
      exact traceAll_shallow o vs x (by simpa [shallow] using h) e he
  | .probe p _, x, _ => by
      intro e he
      simp only [eval, List.mem_singleton] at he
      subst he
      rfl
  | .junk, x, _ => by simp [eval, raise]
  | .noneV, x, _ => by simp [eval, raise]
theorem traceAll_shallow (o : Oracle) : ∀ (vs : List V) (x : Nat), shallowL vs = true →
    ∀ e ∈ (evalAll o vs x).2, e.2 = x
  | [], x, _ => by simp [ok]
  | v :: vs, x, h => by
      have h' : shallow v = true ∧ shallowL vs = true := by simpa [shallowL] using h
      intro e he
      rw [evalAll_cons] at he
      rcases mem_andThen he with h1 | h1
      · exact trace_shallow o v x h'.1 e h1
      · exact traceAll_shallow o vs x h'.2 e h1
theorem traceAny_shallow (o : Oracle) : ∀ (vs : List V) (x : Nat), shallowL vs = true →
    ∀ e ∈ (evalAny o vs x).2, e.2 = x
  | [], x, _ => by simp [raise]
  | v :: vs, x, h => by
      have h' : shallow v = true ∧ shallowL vs = true := by simpa [shallowL] using h
      intro e he
      rw [evalAny_cons] at he
      rcases mem_orElse he with h1 | h1
      · exact trace_shallow o v x h'.1 e h1
      · exact traceAny_shallow o vs x h'.2 e h1
end


end Attrs.C18
