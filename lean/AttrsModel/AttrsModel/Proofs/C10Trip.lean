/-
  C10 — the round trip itself: what `roundtrip` leaves on the new instance, for each way the class resolves
  its state methods.
-/
import AttrsModel.Proofs.C10Hist

namespace Attrs.C10

theorem transfer_tok (op : Op) (t : String) : transfer op (.tok t) = .tok t := by
  unfold transfer; split <;> rfl

theorem transfer_ne_wrap (op : Op) (hop : op ≠ .copy) (v : Val) (h : List String) : transfer op v ≠ .wrap h := by
  unfold transfer
  have : (op == Op.copy) = false := by simpa using hop
  simp only [this, Bool.false_eq_true, if_false]
  cases v <;> simp [sanitize]

/-- the state handed to `__setstate__`: the names of the state, each with its (transferred) value -/
theorem lookup_state {L : Layout} {x : Inst} {names : List String} {st : List (String × Val)} (op : Op)
    (hst : getstateGen L x names = some st) (n : String) :
    lookup n (st.map (fun p => (p.1, transfer op p.2))) =
      if n ∈ names then some (transfer op ((read L x n).getD .none)) else none := by
  obtain ⟨hk, hv⟩ := getstateGen_spec names hst
  have hg : ∀ p ∈ st.map (fun p => (p.1, transfer op p.2)),
      p.2 = (fun k => transfer op ((read L x k).getD .none)) p.1 := by
    intro p hp
    obtain ⟨q, hq, hqp⟩ := List.mem_map.1 hp
    subst hqp
    simp [hv q hq]
  rw [lookup_of_fun (fun k => transfer op ((read L x k).getD .none)) _ hg]
  have : (st.map (fun p => (p.1, transfer op p.2))).map (·.1) = names := by
    rw [List.map_map]; exact hk
  rw [this]

/-- restoring a state taken from `x` with the generated pair for `names`: every name of the state gets
    `x`'s value back (reduced through the transport), nothing else is set, the cache is reset iff the class caches -/
theorem setstate_of_getstate {L : Layout} {x : Inst} {names : List String} {cache : Bool} (op : Op)
    {st : List (String × Val)} (hst : getstateGen L x names = some st)
    (hc : cache = true → writable L CACHE = true) :
    ∃ y, setstateGen L Inst.empty names cache (st.map (fun p => (p.1, transfer op p.2))) = some y ∧
      (∀ m, m ≠ CACHE → read L y m = if m ∈ names then (read L x m).map (transfer op) else none) ∧
      (cache = true → read L y CACHE = some .none) ∧
      (cache = false → CACHE ∉ names → read L y CACHE = none) := by
  obtain ⟨hk, hv⟩ := getstateGen_spec names hst
  have hread : ∀ n ∈ names, ∃ v, read L x n = some v := by
    intro n hn
    rw [← hk] at hn
    obtain ⟨p, hp, hpn⟩ := List.mem_map.1 hn
    exact ⟨p.2, by rw [← hpn]; exact hv p hp⟩
  obtain ⟨y, hy⟩ := setstateGen_some Inst.empty names cache (st.map (fun p => (p.1, transfer op p.2)))
    (fun n hn _ => by
      obtain ⟨v, hv⟩ := hread n hn
      exact writable_of_read (by rw [hv]; rfl)) hc
  refine ⟨y, hy, ?_, ?_, ?_⟩
  · intro m hm
    rw [setstateGen_read hy m (Or.inl hm), lookup_state op hst, read_empty]
    by_cases hmn : m ∈ names
    · obtain ⟨v, hv⟩ := hread m hmn
      simp [hmn, hv]
    · simp [hmn]
  · intro hct
    subst hct
    exact setstateGen_cache hy
  · intro hcf hcn
    rw [setstateGen_read hy CACHE (Or.inr hcf), lookup_state op hst, read_empty]
    simp [hcn]

/-- what a successful round trip guarantees -/
structure TripOK (s : Summary) (op : Op) (x y : Inst) : Prop where
  fields : ∀ n ∈ s.names, read s.layout y n = read s.layout x n
  cacheGS : s.gs ≠ .dflt → s.cached = true → k1 s = false → inhLosesCache s = false →
    read s.layout y CACHE = some .none
  cacheDflt : s.gs = .dflt → read s.layout y CACHE = (read s.layout x CACHE).map (transfer op)

theorem cached_lastCache {s : Summary} (I : Inv s) (hc : s.cached = true) (hk1 : k1 s = false) :
    s.lastCache = true := by
  unfold Summary.cached at hc
  unfold k1 at hk1
  cases hh : s.hash with
  | identity => rw [hh] at hc; simp at hc
  | unhashable => rw [hh] at hc; simp at hc
  | gen ns ch fv ow =>
    rw [hh] at hc hk1
    simp only at hc
    subst hc
    cases ow with
    | false => simp at hk1
    | true => exact (I.hashOwn _ _ _ hh).2.1.symm

theorem cached_writable {s : Summary} (I : Inv s) (hc : s.cached = true) : writable s.layout CACHE = true := by
  unfold Summary.cached at hc
  cases hh : s.hash with
  | identity => rw [hh] at hc; simp at hc
  | unhashable => rw [hh] at hc; simp at hc
  | gen ns ch fv ow =>
    rw [hh] at hc
    simp only at hc
    subst hc
    exact I.hashCacheW _ _ _ hh

/-- **the round trip**, for an instance whose fields are all set (to tokens), outside an inherited pair that lacks fields (opt-out) and the failing
    default reductions (K11 / K10b) -/
theorem roundtrip_ok {s : Summary} (I : Inv s) (hok : s.ok = true) {op : Op} {x : Inst} {t : String → String}
    (hx : ∀ n ∈ s.names, read s.layout x n = some (.tok (t n)))
    (hk4 : inhLosesFields s = false)
    (hd : s.gs = .dflt → (isLow op && refuses01 s) = false ∧ (s.frozen && anySlotSet s.layout x) = false) :
    ∃ y, roundtrip s op x = .ok y ∧ TripOK s op x y := by
  have hne : ∀ n ∈ s.names, n ≠ CACHE := fun n hn => mem_names_ne_cache I hok hn
  unfold roundtrip
  cases hg : s.gs with
  | gen names cache own =>
    simp only
    -- the generated pair knows exactly the class's fields (as a set)
    have hsub : ∀ n ∈ names, n ∈ s.names := I.gsSub _ _ _ hg
    have hsup : ∀ n ∈ s.names, n ∈ names := by
      cases own with
      | true => intro n hn; rw [(I.gsOwn _ _ hg).1]; exact hn
      | false =>
        unfold inhLosesFields at hk4
        rw [hg] at hk4
        simp only [List.any_eq_false, Bool.not_eq_true', List.contains_eq_mem] at hk4
        intro n hn
        simpa using hk4 n hn
    obtain ⟨st, hst⟩ := getstateGen_some (L := s.layout) (i := x) names
      (fun n hn => by rw [hx n (hsub n hn)]; rfl)
    rw [hst]
    simp only
    have hcn : CACHE ∉ names := fun h => hne _ (hsub _ h) rfl
    by_cases hlow : (isLow op && st.isEmpty && !cache) = true
    · simp only [hlow, if_true]
      simp only [Bool.and_eq_true, List.isEmpty_iff, Bool.not_eq_true'] at hlow
      have hnil : names = [] := by
        have := (getstateGen_spec names hst).1
        rw [hlow.1.2] at this
        exact this.symm
      refine ⟨_, rfl, ?_, ?_, ?_⟩
      · intro n hn
        have := hsup n hn
        rw [hnil] at this
        simp at this
      · intro _ hc hk1 h10c
        -- a caching class's generated pair always transports a state: this branch is not taken
        exfalso
        have hcf : cache = false := hlow.2
        cases own with
        | true =>
          have := (I.gsOwn _ _ hg).2
          rw [cached_lastCache I hc hk1] at this
          rw [this] at hcf; cases hcf
        | false =>
          unfold inhLosesCache at h10c
          rw [hg, hcf] at h10c
          simp [hc] at h10c
      · intro h; rw [hg] at h; cases h
    · simp only [hlow, Bool.false_eq_true, if_false]
      obtain ⟨y, hy, hf, hct, _⟩ := setstate_of_getstate (cache := cache) op hst
        (fun hc => by subst hc; exact I.gsCacheW _ _ hg)
      rw [hy]
      refine ⟨y, rfl, ?_, ?_, ?_⟩
      · intro n hn
        rw [hf n (hne n hn), hx n hn]
        simp [hsup n hn, transfer_tok]
      · intro _ hc hk1 h10c
        apply hct
        cases own with
        | true => rw [(I.gsOwn _ _ hg).2]; exact cached_lastCache I hc hk1
        | false =>
          unfold inhLosesCache at h10c
          rw [hg] at h10c
          cases cache with
          | true => rfl
          | false => simp [hc] at h10c
      · intro h; rw [hg] at h; cases h
  | user =>
    simp only
    obtain ⟨st, hst⟩ := getstateGen_some (L := s.layout) (i := x) s.names (fun n hn => by rw [hx n hn]; rfl)
    rw [hst]
    simp only
    obtain ⟨y, hy, hf, hct, _⟩ := setstate_of_getstate (cache := s.cached) op hst (cached_writable I)
    rw [hy]
    refine ⟨y, rfl, ?_, ?_, ?_⟩
    · intro n hn
      rw [hf n (hne n hn), hx n hn]
      simp [hn, transfer_tok]
    · intro _ hc _ _; exact hct hc
    · intro h; rw [hg] at h; cases h
  | dflt =>
    simp only
    obtain ⟨h1, h2⟩ := hd hg
    simp only [h1, h2, Bool.false_eq_true, if_false]
    refine ⟨_, rfl, ?_, ?_, ?_⟩
    · intro n hn
      have : read s.layout
          { dict := fun n => (x.dict n).map (transfer op),
            slot := fun n => if n ∈ s.layout.slotNames then (x.slot n).map (transfer op) else none } n =
          (read s.layout x n).map (transfer op) := by
        unfold read
        by_cases hs : n ∈ s.layout.slotNames
        · simp [hs]
        · cases s.layout.hasDict <;> simp [hs]
      rw [this, hx n hn]
      simp [transfer_tok]
    · intro h; exact absurd hg h
    · intro _
      unfold read
      by_cases hs : CACHE ∈ s.layout.slotNames
      · simp [hs]
      · cases s.layout.hasDict <;> simp [hs]

/-- **the cached hash value never travels** through deepcopy / pickle, nor through `copy.copy` when the class
    resolves generated (or its own) state methods — on *every* instance and class, known findings included -/
theorem roundtrip_not_carried {s : Summary} (I : Inv s) (hok : s.ok = true) {op : Op} {x y : Inst}
    (h : roundtrip s op x = .ok y) (hop : op ≠ .copy ∨ s.gs ≠ .dflt) (w : List String) :
    read s.layout y CACHE ≠ some (.wrap w) := by
  have hne : ∀ n ∈ s.names, n ≠ CACHE := fun n hn => mem_names_ne_cache I hok hn
  unfold roundtrip at h
  cases hg : s.gs with
  | gen names cache own =>
    rw [hg] at h
    simp only at h
    have hcn : CACHE ∉ names := fun hh => hne _ (I.gsSub _ _ _ hg _ hh) rfl
    cases hst : getstateGen s.layout x names with
    | none => rw [hst] at h; simp at h
    | some st =>
      rw [hst] at h
      simp only at h
      split at h
      · simp only [Except.ok.injEq] at h; subst h; rw [read_empty]; simp
      · cases hy : setstateGen s.layout Inst.empty names cache (st.map (fun p => (p.1, transfer op p.2))) with
        | none => rw [hy] at h; simp at h
        | some y' =>
          rw [hy] at h
          simp only [Except.ok.injEq] at h; subst h
          cases cache with
          | true => rw [setstateGen_cache hy]; simp
          | false =>
            rw [setstateGen_read hy CACHE (Or.inr rfl), lookup_state op hst, read_empty]
            simp [hcn]
  | user =>
    rw [hg] at h
    simp only at h
    have hcn : CACHE ∉ s.names := fun hh => hne _ hh rfl
    cases hst : getstateGen s.layout x s.names with
    | none => rw [hst] at h; simp at h
    | some st =>
      rw [hst] at h
      simp only at h
      cases hy : setstateGen s.layout Inst.empty s.names s.cached (st.map (fun p => (p.1, transfer op p.2))) with
      | none => rw [hy] at h; simp at h
      | some y' =>
        rw [hy] at h
        simp only [Except.ok.injEq] at h; subst h
        cases hc : s.cached with
        | true => rw [hc] at hy; rw [setstateGen_cache hy]; simp
        | false =>
          rw [hc] at hy
          rw [setstateGen_read hy CACHE (Or.inr rfl), lookup_state op hst, read_empty]
          simp [hcn]
  | dflt =>
    rw [hg] at h
    have hop' : op ≠ .copy := by
      rcases hop with hop | hop
      · exact hop
      · exact absurd hg hop
    simp only at h
    split at h
    · simp at h
    · split at h
      · simp at h
      · simp only [Except.ok.injEq] at h; subst h
        unfold read
        by_cases hs : CACHE ∈ s.layout.slotNames
        · simp only [hs, if_true]
          cases x.slot CACHE with
          | none => simp
          | some v => simpa using transfer_ne_wrap op hop' v w
        · simp only [hs, if_false]
          cases s.layout.hasDict with
          | false => simp
          | true =>
            simp only [if_true]
            cases x.dict CACHE with
            | none => simp
            | some v => simpa using transfer_ne_wrap op hop' v w

end Attrs.C10
