/-
  C11 — auxiliary definitions and lemmas used in the statements and proofs of `Properties/C11.lean`:
  histories of renderings, the witness system for the shared-state variant, small facts about
  `collect` / `accept` / `expected`, and the concrete cases of the non-vacuity examples.
-/
import AttrsModel.Proofs.C11Refine
import AttrsModel.Proofs.C11Term
import AttrsModel.Proofs.C11Name
import AttrsModel.Proofs.C11Threads
import AttrsModel.Proofs.C11Script
import AttrsModel.Spec.C11

namespace Attrs.C11

theorem collect_all_ok {ι : Type} (xs : List ι) (lbl r : ι → String) (g : ι → String × Out)
    (hg : ∀ x ∈ xs, g x = (lbl x, .ok (r x))) :
    collect (xs.map g) = .ok (xs.map fun x => lbl x ++ r x) := by
  induction xs with
  | nil => rfl
  | cons x rest ih =>
    have ih' := ih fun y hy => hg y (List.mem_cons_of_mem _ hy)
    simp only [List.map_cons, hg x List.mem_cons_self, collect, ih']


/-- the state after an arbitrary history of `repr` calls (any roots, faults armed or not) -/
def runHistory (h : Heap) (fuel : Nat) : List (Bool × Nat) → St → St
  | [], s => s
  | (a, id) :: rest, s => runHistory h fuel rest ((reprNode h a fuel id).run s).1

theorem restored_runHistory (h : Heap) (fuel : Nat) (hist : List (Bool × Nat)) (s : St) :
    Restored s (runHistory h fuel hist s) := by
  induction hist generalizing s with
  | nil => exact Restored.refl s
  | cons x rest ih =>
    obtain ⟨a, id⟩ := x
    exact (clean_reprNode h a fuel id s).trans (ih _)


def wClass : Cls :=
  { scopes := [], name := "C", reprNs := none, layers := [[⟨"a", .on, true⟩]], str := false, plainStr := false,
    ovr := false }

/-- `x = C(a=1)` -/
def wHeap : Heap := { classes := [wClass], nodes := [.inst 0 [("a", 1)], .atom "1"] }

def wShared : ShSys :=
  { already := some [], guard := fun _ => [], pr := fun _ => reprNode wHeap false wHeap.fuel 0 }


def sharedRepr (h : Heap) (armed warm : Bool) (fuel root : Nat) : ShSys :=
  { already := (entry warm).already, guard := fun _ => [], pr := fun _ => reprNode h armed fuel root }


theorem accept_self (e : Out) (h : e ≠ .oof) : accept e e = true := by
  cases e with
  | ok s => simp [accept]
  | exc k => simp only [accept]; split <;> simp [Out.isExc]
  | oof => exact absurd rfl h

theorem expected_eq' (c : Case) (hcls : ∀ cl ∈ c.heap.classes, cl.wf = true) (armed : Bool) :
    specVal displayName c.heap armed c.heap.fuel [] c.root = expected c armed := by
  unfold expected
  exact specVal_congr_name displayName specName c.heap armed (fun cl hcl => displayName_eq cl (hcls cl hcl)) _ _ _

theorem classes_wf_of_wf (c : Case) (hwf : wf c = true) : ∀ cl ∈ c.heap.classes, cl.wf = true := by
  simp only [wf, Bool.and_eq_true, List.all_eq_true] at hwf
  exact hwf.1.2

theorem expected_eq (c : Case) (hwf : wf c = true) (armed : Bool) :
    specVal displayName c.heap armed c.heap.fuel [] c.root = expected c armed :=
  expected_eq' c (classes_wf_of_wf c hwf) armed

theorem expected_ne_oof (c : Case) (armed : Bool) : expected c armed ≠ .oof :=
  specVal_ne_oof specName c.heap armed c.heap.fuel [] c.root (unvisited_nil_lt_fuel c.heap)


def exA : Cls where
  scopes := [⟨"mk", true⟩, ⟨"Outer", false⟩]
  name := "A"
  reprNs := none
  layers := [[⟨"p", .on, true⟩], [⟨"q", .call "Rq" true .post false, false⟩, ⟨"h", .off, true⟩]]
  str := true
  plainStr := true
  ovr := true

def exB : Cls where
  scopes := []
  name := "B"
  reprNs := some "ns"
  layers := [[⟨"x", .on, true⟩]]
  str := false
  plainStr := false
  ovr := false

def exCase : Case where
  heap := { classes := [exA, exB], nodes := [.inst 0 [("p", 1), ("q", 2), ("h", 0)], .list [0, 2], .inst 1 [("x", 0)]] }
  root := 0
  warm := false
  threads := 2
  sched := [0, 1, 1, 0, 1, 1, 1]


def exNode : Cls where
  scopes := []
  name := "Node"
  reprNs := none
  layers := [[⟨"a", .call "Ra" true .no true, true⟩, ⟨"b", .on, true⟩]]
  str := false
  plainStr := false
  ovr := false

def exChild : Cls where
  scopes := []
  name := "Child"
  reprNs := none
  layers := [[⟨"p", .call "Rp" true .pre false, true⟩]]
  str := false
  plainStr := false
  ovr := false

/-- `n = Node(a=Child(p=7), b=[n])`: `Child`'s callable raises, `Node.a`'s tolerant callable swallows it -/
def exSwallow : Case where
  heap := { classes := [exNode, exChild],
            nodes := [.inst 0 [("a", 1), ("b", 2)], .inst 1 [("p", 3)], .list [0], .atom "7"] }
  root := 0
  warm := false
  threads := 0
  sched := []

def exU : Cls where
  scopes := []
  name := "A"
  reprNs := none
  layers := [[⟨"p", .on, false⟩, ⟨"q", .on, true⟩]]
  str := false
  plainStr := false
  ovr := false

def exUCase (nodes : List Node) : Case :=
  { heap := { classes := [exU], nodes := nodes }, root := 0, warm := true, threads := 0, sched := [] }


end Attrs.C11
