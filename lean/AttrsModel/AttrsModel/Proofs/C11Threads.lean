/-
  C11 — thread systems: when every thread owns its bookkeeping state, a step of one thread leaves
  what every thread will eventually return untouched.
-/
import AttrsModel.Proofs.C11Refine

namespace Attrs.C11

/-- a step of thread `t` does not change what thread `u` is going to end with -/
theorem Sys.finish_step (y : Sys) (t u : Nat) : (y.step t).finish u = y.finish u := by
  unfold Sys.step Sys.finish
  cases hp : y.pr t with
  | done a => rfl
  | step upd k =>
    dsimp only
    by_cases hut : u = t
    · subst hut
      simp only [if_true, hp, Prog.run]
    · simp only [hut, if_false]

theorem Sys.finish_exec (y : Sys) (sched : List Nat) (u : Nat) : (y.exec sched).finish u = y.finish u := by
  unfold Sys.exec
  induction sched generalizing y with
  | nil => rfl
  | cons t rest ih => rw [List.foldl_cons, ih, Sys.finish_step]

/-- number of atomic steps a computation takes from a state when nothing interferes -/
def stepsLeft : Prog α → St → Nat
  | .done _, _ => 0
  | .step u k, s => stepsLeft (k s) (u s) + 1

/-! ### the shared variant, threads one after the other -/

/-- what thread `t` sees of the shared system -/
def ShSys.view (y : ShSys) (t : Nat) : St := { already := y.already, guard := y.guard t }

/-- in the shared system, a thread that runs alone for its number of steps ends with its
    sequential result; the other threads' computations and guards are untouched -/
theorem ShSys.exec_solo (y : ShSys) (t : Nat) :
    (y.exec (List.replicate (stepsLeft (y.pr t) (y.view t)) t)).pr t
        = .done ((y.pr t).run (y.view t)).2 ∧
    (y.exec (List.replicate (stepsLeft (y.pr t) (y.view t)) t)).view t
        = ((y.pr t).run (y.view t)).1 ∧
    ∀ u, u ≠ t →
      (y.exec (List.replicate (stepsLeft (y.pr t) (y.view t)) t)).pr u = y.pr u ∧
      (y.exec (List.replicate (stepsLeft (y.pr t) (y.view t)) t)).guard u = y.guard u := by
  generalize hn : stepsLeft (y.pr t) (y.view t) = n
  induction n generalizing y with
  | zero =>
    cases hp : y.pr t with
    | done a => simp [ShSys.exec, Prog.run, hp]
    | step u k => rw [hp] at hn; simp [stepsLeft] at hn
  | succ n ih =>
    cases hp : y.pr t with
    | done a => rw [hp] at hn; simp [stepsLeft] at hn
    | step u k =>
      rw [hp] at hn
      simp only [stepsLeft, Nat.add_right_cancel_iff] at hn
      have hpr : (y.step t).pr t = k (y.view t) := by simp [ShSys.step, hp, ShSys.view]
      have hview : (y.step t).view t = u (y.view t) := by simp [ShSys.step, hp, ShSys.view]
      have hother : ∀ v, v ≠ t → (y.step t).pr v = y.pr v ∧ (y.step t).guard v = y.guard v := by
        intro v hv; simp [ShSys.step, hp, hv]
      obtain ⟨h1, h2, h3⟩ := ih (y.step t) (by rw [hpr, hview]; exact hn)
      have hexec : y.exec (List.replicate (n + 1) t) = (y.step t).exec (List.replicate n t) := by
        simp [ShSys.exec, List.replicate_succ]
      rw [hexec]
      refine ⟨?_, ?_, fun v hv => ?_⟩
      · rw [h1, hpr, hview]; rfl
      · rw [h2, hpr, hview]; rfl
      · rw [(h3 v hv).1, (h3 v hv).2]; exact hother v hv

/-- run the listed threads to completion, one after the other -/
def ShSys.runSeq (y : ShSys) : List Nat → ShSys
  | [] => y
  | t :: rest => (y.exec (List.replicate (stepsLeft (y.pr t) (y.view t)) t)).runSeq rest

theorem ShSys.runSeq_complete (h : Heap) (armed : Bool) (fuel root : Nat) :
    ∀ (ts : List Nat) (y : ShSys), ts.Nodup →
      (∀ u, Sim h [] (y.view u)) → (∀ u ∈ ts, y.pr u = reprNode h armed fuel root) →
      (∀ t ∈ ts, ((y.runSeq ts).pr t) = .done (specVal displayName h armed fuel [] root)) ∧
      (∀ u, u ∉ ts → (y.runSeq ts).pr u = y.pr u) := by
  intro ts
  induction ts with
  | nil => intro y _ _ _; exact ⟨fun t ht => (by cases ht), fun _ _ => rfl⟩
  | cons t rest ih =>
    intro y hnd hsim hpr
    have hnd' := List.nodup_cons.1 hnd
    obtain ⟨h1, h2, h3⟩ := ShSys.exec_solo y t
    have hpt : y.pr t = reprNode h armed fuel root := hpr t List.mem_cons_self
    have hres := refines_reprNode h armed fuel [] root (y.view t) (hsim t)
    have hrest := clean_reprNode h armed fuel root (y.view t)
    -- the system after thread t has run
    let y' := y.exec (List.replicate (stepsLeft (y.pr t) (y.view t)) t)
    have hsim' : ∀ u, Sim h [] (y'.view u) := by
      intro u
      by_cases hu : u = t
      · subst hu
        show Sim h [] ((y.exec _).view u)
        rw [h2, hpt]
        exact sim_restored (hsim u) hrest
      · have hy' : y'.view t = ((y.pr t).run (y.view t)).1 := h2
        rw [hpt] at hy'
        have hal : (y'.view u).alreadyL = (y.view u).alreadyL := by
          have : (y'.view t).alreadyL = (y.view t).alreadyL := by rw [hy']; exact hrest.alreadyL
          simpa [ShSys.view, St.alreadyL] using this
        have hg : (y'.view u).guard = (y.view u).guard := (h3 u hu).2
        obtain ⟨s1, s2⟩ := hsim u
        exact ⟨fun i => by rw [hal]; exact s1 i, fun i => by rw [hg]; exact s2 i⟩
    have hpr' : ∀ u ∈ rest, y'.pr u = reprNode h armed fuel root := by
      intro u hu
      have hut : u ≠ t := fun e => hnd'.1 (e ▸ hu)
      exact (h3 u hut).1.trans (hpr u (List.mem_cons_of_mem _ hu))
    obtain ⟨ih1, ih2⟩ := ih y' hnd'.2 hsim' hpr'
    refine ⟨fun v hv => ?_, fun u hu => ?_⟩
    · rcases List.mem_cons.1 hv with rfl | hv'
      · show (y'.runSeq rest).pr v = _
        rw [ih2 v hnd'.1]
        show (y.exec _).pr v = _
        rw [h1, hpt, hres]
      · exact ih1 v hv'
    · have hut : u ≠ t := fun e => hu (e ▸ List.mem_cons_self)
      have hur : u ∉ rest := fun e => hu (List.mem_cons_of_mem _ e)
      show (y'.runSeq rest).pr u = _
      rw [ih2 u hur]
      exact (h3 u hut).1

end Attrs.C11
