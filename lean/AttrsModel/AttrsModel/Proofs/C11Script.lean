/-
  C11, T3 part — executing the script the model generator emits IS the model's `attrsRepr` around the
  model's f-string body: equal as resumptions (same atomic steps), hence in every state and under
  every interleaving.
-/
import AttrsModel.Model.C11IR
import AttrsModel.Proofs.C11Refine

namespace Attrs.C11.IR

/-! ### resumptions form a monad -/

@[simp] theorem bind_done (a : α) (g : α → Prog β) : (Prog.done a).bind g = g a := rfl
@[simp] theorem bind_step (u : St → St) (k : St → Prog α) (g : α → Prog β) :
    (Prog.step u k).bind g = .step u (fun s => (k s).bind g) := rfl

theorem bind_assoc (p : Prog α) (f : α → Prog β) (g : β → Prog γ) :
    (p.bind f).bind g = p.bind (fun a => (f a).bind g) := by
  induction p with
  | done a => rfl
  | step u k ih => simp only [bind_step, ih]

theorem bind_pure (p : Prog α) : p.bind .done = p := by
  induction p with
  | done a => rfl
  | step u k ih => simp only [bind_step, ih]

/-! ### helper globals -/

theorem affix_consistent : Generated.c17ReprAffix = Generated.c17ReprCallAffix := by decide

theorem helperCall_eq (n : String) : helperCall n = helperGlobal n := by
  unfold helperCall helperGlobal; rw [affix_consistent]

theorem helperGlobal_inj {a b : String} (h : helperGlobal a = helperGlobal b) : a = b := by
  unfold helperGlobal at h
  have h' := congrArg String.toList h
  simp only [String.toList_append] at h'
  have h1 := List.append_cancel_right h'
  have h2 := List.append_cancel_left h1
  have := congrArg String.ofList h2
  simpa [String.ofList_toList] using this

def specOf (a : Field) : Option CallSpec :=
  match a.repr with
  | .call t r f tol => some { tag := t, recurse := r, fault := f, tol := tol }
  | _ => none

theorem lookup_genGlobs (attrs : List Field) (hnd : (attrs.map (·.name)).Nodup) (a : Field)
    (ha : a ∈ attrs) (sp : CallSpec) (hsp : specOf a = some sp) :
    (attrs.filterMap genGlob).lookup (helperGlobal a.name) = some sp := by
  induction attrs with
  | nil => cases ha
  | cons b rest ih =>
    simp only [List.map_cons, List.nodup_cons] at hnd
    by_cases hab : b = a
    · subst hab
      unfold specOf at hsp
      cases hr : b.repr with
      | call t r f tol =>
        rw [hr] at hsp
        simp only [Option.some.injEq] at hsp
        simp [genGlob, hr, hsp]
      | on => rw [hr] at hsp; cases hsp
      | off => rw [hr] at hsp; cases hsp
    · have har : a ∈ rest := by
        rcases List.mem_cons.1 ha with h | h
        · exact absurd h.symm hab
        · exact h
      have hne : b.name ≠ a.name := by
        intro e
        exact hnd.1 (e ▸ List.mem_map.2 ⟨a, har, rfl⟩)
      have ih' := ih hnd.2 har
      cases hr : b.repr with
      | call t r f tol =>
        have hk : (helperGlobal a.name == helperGlobal b.name) = false := by
          simp only [beq_eq_false_iff_ne, ne_eq]
          exact fun e => hne (helperGlobal_inj e).symm
        simp [genGlob, hr, List.lookup, hk, ih']
      | on => simpa [List.filterMap_cons, genGlob, hr] using ih'
      | off => simpa [List.filterMap_cons, genGlob, hr] using ih'

/-! ### fragments -/

/-- the IR fragment emitted for a repr-enabled field -/
def toFragIR (a : Field) : FragIR :=
  { label := a.name, acc := if a.init then .selfDot a.name else .getattrNothing a.name,
    fmt := match a.repr with
      | .call _ _ _ _ => .helper (helperCall a.name)
      | _ => .bangR }

theorem genFragIR_eq (fs : List Field) : fs.filterMap genFragIR = (fs.filter enabled).map toFragIR := by
  induction fs with
  | nil => rfl
  | cons a rest ih =>
    cases hr : a.repr <;> simp [genFragIR, enabled, toFragIR, hr, ih]

theorem evalFragIR_gen (env : Env) (attrs : List Field) (hnd : (attrs.map (·.name)).Nodup) (a : Field)
    (ha : a ∈ attrs) (he : enabled a = true) :
    evalFragIR env (attrs.filterMap genGlob) (toFragIR a) = evalFrag env.sub env.armed env.vals (toFrag a) := by
  obtain ⟨name, rp, init⟩ := a
  cases rp with
  | off => simp [enabled] at he
  | on =>
    cases init <;> cases hl : env.vals.lookup name <;>
      simp [evalFragIR, evalFrag, toFragIR, toFrag, evalAcc, access, hl]
  | call t r f tol =>
    have hlk := lookup_genGlobs attrs hnd ⟨name, .call t r f tol, init⟩ ha
      { tag := t, recurse := r, fault := f, tol := tol } rfl
    simp only at hlk
    cases init <;> cases hl : env.vals.lookup name <;>
      simp [evalFragIR, evalFrag, toFragIR, toFrag, evalAcc, access, hl, helperCall_eq, hlk]

theorem frags_gen (env : Env) (attrs : List Field) (hnd : (attrs.map (·.name)).Nodup) :
    (attrs.filterMap genFragIR).map (fun fr => (fr.label ++ "=", evalFragIR env (attrs.filterMap genGlob) fr)) =
      (genFrags attrs).map (fun fr => (fr.name ++ "=", evalFrag env.sub env.armed env.vals fr)) := by
  rw [genFragIR_eq, genFrags_eq, List.map_map, List.map_map]
  refine List.map_congr_left fun a ha => ?_
  have hm := List.mem_filter.1 ha
  simp only [Function.comp]
  rw [evalFragIR_gen env attrs hnd a hm.1 hm.2]
  rfl

theorem evalName_gen (c : Cls) : evalName c (genName c.reprNs) = displayName c := by
  unfold displayName genName
  cases c.reprNs <;> rfl

/-! ### the script -/

theorem bind_ite (c : Prop) [Decidable c] (p q : Prog α) (g : α → Prog β) :
    (if c then p else q).bind g = if c then p.bind g else q.bind g := by
  split <;> rfl

/-- **executing the generated script is the model's bookkeeping around the model's f-string** -/
theorem execScript_gen (attrs : List Field) (ns : Option String) (env : Env)
    (hnd : (attrs.map (·.name)).Nodup) :
    execScript (genScript attrs ns) env =
      attrsRepr env.self
        (render (evalName env.cls (genName ns) ++ "(") ")"
          ((genFrags attrs).map fun fr => (fr.name ++ "=", evalFrag env.sub env.armed env.vals fr))) := by
  unfold execScript genScript attrsRepr withFinally
  simp only [execBlock, execStmt, bind_done, bind_step, bind_assoc, frags_gen env attrs hnd]
  congr 1
  funext s
  cases hs : s.already with
  | none =>
    simp only [bind_done, bind_step, bind_assoc, ↓reduceIte]
    congr 1
    funext _
    congr 1
    funext r
    congr 1
    funext s2
    by_cases hc : s2.alreadyL.contains env.self = true
    · simp only [hc, if_true, bind_done]
    · simp only [hc, Bool.false_eq_true, if_false, bind_done]
  | some a =>
    simp only [bind_done, bind_step]
    congr 1
    funext s1
    by_cases h1 : s1.alreadyL.contains env.self = true
    · simp only [h1, if_true, bind_done]
    · simp only [h1, Bool.false_eq_true, if_false, bind_done, bind_step, bind_assoc]
      congr 1
      funext _
      congr 1
      funext r
      congr 1
      funext s2
      by_cases hc : s2.alreadyL.contains env.self = true
      · simp only [hc, if_true, bind_done]
      · simp only [hc, Bool.false_eq_true, if_false, bind_done]

/-- a heap whose instances are rendered by the generated script is the model's heap rendering -/
theorem reprNodeS_gen (sc : Script) (h : Heap) (armed : Bool)
    (hcls : ∀ c ∈ h.classes, sc = genScript c.fields c.reprNs ∧ (c.fields.map (·.name)).Nodup) :
    ∀ fuel id, reprNodeS sc h armed fuel id = reprNode h armed fuel id := by
  intro fuel
  induction fuel with
  | zero => intro id; rfl
  | succ fuel ih =>
    intro id
    have hfun : reprNodeS sc h armed fuel = reprNode h armed fuel := funext ih
    unfold reprNodeS reprNode
    rw [hfun]
    cases hn : h.nodes[id]? with
    | none => rfl
    | some node =>
      cases node with
      | inst ci vals =>
        dsimp only
        cases hc : h.classes[ci]? with
        | none => rfl
        | some c =>
          obtain ⟨hsc, hnd⟩ := hcls c (List.mem_of_getElem? hc)
          dsimp only
          rw [hsc, execScript_gen c.fields c.reprNs _ hnd, evalName_gen]
      | _ => rfl

end Attrs.C11.IR
