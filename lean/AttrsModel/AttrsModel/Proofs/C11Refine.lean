/-
  C11 — the stateful model computes the stateless ancestor-path rendering: whenever the
  bookkeeping state represents the set of ancestors, `reprNode` returns `specVal`.
-/
import AttrsModel.Proofs.C11Clean

namespace Attrs.C11

theorem joinSep_eq (l : List String) : joinSep l = ", ".intercalate l := by
  induction l with
  | nil => simp [joinSep, String.intercalate_nil]
  | cons a rest ih =>
    cases rest with
    | nil => simp [joinSep, String.intercalate_singleton]
    | cons b r => simp only [joinSep, String.intercalate_cons_cons, ih]

/-! ### the simulation relation -/

def isInst (h : Heap) (i : Nat) : Bool :=
  match h.nodes[i]? with
  | some (.inst _ _) => true
  | _ => false

def isCont (h : Heap) (i : Nat) : Bool :=
  match h.nodes[i]? with
  | some (.list _) | some (.tuple _) | some (.dict _) => true
  | _ => false

/-- the bookkeeping state holds exactly the ancestors: attrs instances in `already_repring`,
    containers in CPython's list -/
def Sim (h : Heap) (anc : List Nat) (s : St) : Prop :=
  (∀ i, i ∈ s.alreadyL ↔ (i ∈ anc ∧ isInst h i = true)) ∧
  (∀ i, i ∈ s.guard ↔ (i ∈ anc ∧ isCont h i = true))

def Refines (h : Heap) (anc : List Nat) (p : Prog Out) (o : Out) : Prop :=
  ∀ s, Sim h anc s → (p.run s).2 = o

theorem sim_restored {h : Heap} {anc : List Nat} {s t : St} (hs : Sim h anc s) (hr : Restored s t) :
    Sim h anc t := by
  obtain ⟨h1, h2⟩ := hs
  refine ⟨fun i => ?_, fun i => ?_⟩
  · rw [hr.alreadyL]; exact h1 i
  · rw [hr.1]; exact h2 i

theorem sim_entry (h : Heap) (warm : Bool) : Sim h [] (entry warm) := by
  constructor <;> intro i <;> cases warm <;> simp [entry, St.alreadyL]

theorem sim_push_inst {h : Heap} {anc : List Nat} {s t : St} {id : Nat} (hs : Sim h anc s)
    (hi : isInst h id = true) (ha : t.alreadyL = id :: s.alreadyL) (hg : t.guard = s.guard) :
    Sim h (id :: anc) t := by
  obtain ⟨h1, h2⟩ := hs
  have hnc : isCont h id = false := by
    unfold isInst at hi; unfold isCont
    split at hi <;> simp_all
  refine ⟨fun i => ?_, fun i => ?_⟩
  · rw [ha]
    simp only [List.mem_cons, h1 i]
    constructor
    · rintro (rfl | ⟨h3, h4⟩)
      · exact ⟨Or.inl rfl, hi⟩
      · exact ⟨Or.inr h3, h4⟩
    · rintro ⟨rfl | h3, h4⟩
      · exact Or.inl rfl
      · exact Or.inr ⟨h3, h4⟩
  · rw [hg]
    simp only [List.mem_cons, h2 i]
    constructor
    · rintro ⟨h3, h4⟩; exact ⟨Or.inr h3, h4⟩
    · rintro ⟨rfl | h3, h4⟩
      · rw [hnc] at h4; cases h4
      · exact ⟨h3, h4⟩

theorem sim_push_cont {h : Heap} {anc : List Nat} {s t : St} {id : Nat} (hs : Sim h anc s)
    (hi : isCont h id = true) (ha : t.alreadyL = s.alreadyL) (hg : t.guard = id :: s.guard) :
    Sim h (id :: anc) t := by
  obtain ⟨h1, h2⟩ := hs
  have hnc : isInst h id = false := by
    unfold isCont at hi; unfold isInst
    split at hi <;> simp_all
  refine ⟨fun i => ?_, fun i => ?_⟩
  · rw [ha]
    simp only [List.mem_cons, h1 i]
    constructor
    · rintro ⟨h3, h4⟩; exact ⟨Or.inr h3, h4⟩
    · rintro ⟨rfl | h3, h4⟩
      · rw [hnc] at h4; cases h4
      · exact ⟨h3, h4⟩
  · rw [hg]
    simp only [List.mem_cons, h2 i]
    constructor
    · rintro (rfl | ⟨h3, h4⟩)
      · exact ⟨Or.inl rfl, hi⟩
      · exact ⟨Or.inr h3, h4⟩
    · rintro ⟨rfl | h3, h4⟩
      · exact Or.inl rfl
      · exact Or.inr ⟨h3, h4⟩

/-! ### sequences of parts -/

theorem refines_seqP {ι : Type} (h : Heap) (anc : List Nat) (xs : List ι)
    (f : ι → String × Prog Out) (g : ι → String × Out)
    (hl : ∀ x ∈ xs, (f x).1 = (g x).1) (hc : ∀ x ∈ xs, Clean (f x).2)
    (hr : ∀ x ∈ xs, Refines h anc (f x).2 (g x).2) :
    ∀ s, Sim h anc s → ((seqP (xs.map f)).run s).2 = collect (xs.map g) := by
  induction xs with
  | nil => intro s _; simp [seqP, collect]
  | cons x rest ih =>
    intro s hs
    have hx := hr x List.mem_cons_self s hs
    have hcl := hc x List.mem_cons_self s
    have hl' := hl x List.mem_cons_self
    have ih' := ih (fun y hy => hl y (List.mem_cons_of_mem _ hy))
      (fun y hy => hc y (List.mem_cons_of_mem _ hy)) (fun y hy => hr y (List.mem_cons_of_mem _ hy))
    cases hfx : f x with
    | mk lbl p =>
      cases hgx : g x with
      | mk lbl' o =>
        rw [hfx, hgx] at hl'
        rw [hfx] at hx hcl
        rw [hgx] at hx
        simp only at hl' hx hcl
        subst hl'
        simp only [List.map_cons, hfx, hgx, seqP, run_bind, hx]
        cases o with
        | ok str =>
          have hs' : Sim h anc (p.run s).1 := sim_restored hs hcl
          have hrest := ih' (p.run s).1 hs'
          simp only [run_bind, hrest, collect]
          cases collect (rest.map g) <;> simp
        | exc k => simp [collect]
        | oof => simp [collect]

theorem refines_render {ι : Type} (h : Heap) (anc : List Nat) (pre post : String) (xs : List ι)
    (f : ι → String × Prog Out) (g : ι → String × Out)
    (hl : ∀ x ∈ xs, (f x).1 = (g x).1) (hc : ∀ x ∈ xs, Clean (f x).2)
    (hr : ∀ x ∈ xs, Refines h anc (f x).2 (g x).2) :
    Refines h anc (render pre post (xs.map f)) (fmt pre post (xs.map g)) := by
  intro s hs
  unfold render fmt
  rw [run_bind, refines_seqP h anc xs f g hl hc hr s hs]
  cases collect (xs.map g) <;> simp [joinSep_eq]

theorem refines_bind_done {h : Heap} {anc : List Nat} {p : Prog Out} {o : Out} (f : Out → Out)
    (hr : Refines h anc p o) : Refines h anc (p.bind fun r => .done (f r)) (f o) := by
  intro s hs
  rw [run_bind, hr s hs]; rfl

theorem refines_tolerate {h : Heap} {anc : List Nat} (tol : Bool) {inner : Prog Out} {o : Out}
    (hr : Refines h anc inner o) :
    Refines h anc (tolerate tol inner) (if tol then swallow o else o) := by
  unfold tolerate
  cases tol with
  | true => exact refines_bind_done swallow hr
  | false => exact hr

/-! ### fragments -/

/-- the fragment `_make_repr_script` emits for a repr-enabled field -/
def toFrag (a : Field) : Frag :=
  { name := a.name, viaGetattr := !a.init,
    fmt := match a.repr with
      | .call t r f c => .callG t r f c
      | _ => .bangR }

/-- the generated fragments are those of the repr-enabled fields, in field order -/
theorem genFrags_eq (fs : List Field) : genFrags fs = (fs.filter enabled).map toFrag := by
  induction fs with
  | nil => rfl
  | cons a rest ih =>
    unfold genFrags at ih ⊢
    cases hr : a.repr <;>
      simp [enabled, toFrag, hr, ih]

theorem refines_callRepr {h : Heap} {anc : List Nat} (armed : Bool) (tag : String) (rc : Bool)
    (fault : Fault) {inner : Prog Out} {o : Out} (hr : Refines h anc inner o) :
    Refines h anc (callRepr armed tag rc fault inner) (showCall armed tag rc fault o) := by
  intro s hs
  unfold callRepr showCall
  by_cases h1 : (armed && fault == .pre) = true
  · simp [h1]
  · simp only [h1, Bool.false_eq_true, if_false]
    cases rc with
    | true =>
      simp only [if_true, run_bind, hr s hs]
      cases o with
      | ok str => by_cases h2 : (armed && fault == .post) = true <;> simp [h2]
      | exc k => simp
      | oof => simp
    | false =>
      simp only [Bool.false_eq_true, if_false]
      by_cases h2 : (armed && fault == .post) = true <;> simp [h2]

theorem refines_evalFrag {h : Heap} {anc : List Nat} (rec : Nat → Prog Out) (srec : Nat → Out)
    (armed : Bool) (vals : List (String × Nat)) (a : Field) (he : enabled a = true)
    (hr : ∀ i, Refines h anc (rec i) (srec i)) :
    Refines h anc (evalFrag rec armed vals (toFrag a)) (specField srec armed vals a) := by
  obtain ⟨name, rp, init⟩ := a
  have hin : Refines h anc (Prog.done (Out.ok "NOTHING")) (Out.ok "NOTHING") := fun _ _ => rfl
  unfold evalFrag specField access
  simp only [toFrag]
  cases hlk : vals.lookup name with
  | some i =>
    dsimp only
    cases rp with
    | on => simpa [showWith] using hr i
    | off => simp [enabled] at he
    | call t r f c => exact refines_callRepr armed t r f (refines_tolerate c (hr i))
  | none =>
    cases init with
    | true => intro s _; simp
    | false =>
      simp only [Bool.not_false, if_true, Bool.false_eq_true, if_false]
      cases rp with
      | on => simpa [showWith] using hin
      | off => simp [enabled] at he
      | call t r f c => exact refines_callRepr armed t r f (refines_tolerate c hin)

/-! ### the two guards -/

theorem refines_attrsRepr {h : Heap} {anc : List Nat} (id : Nat) (hi : isInst h id = true)
    {body : Prog Out} {o : Out} (hc : Clean body) (hr : Refines h (id :: anc) body o) :
    Refines h anc (attrsRepr id body) (if anc.contains id then .ok "..." else o) := by
  intro s hs
  have hmem : id ∈ anc ↔ id ∈ s.alreadyL := by
    rw [hs.1 id]; exact ⟨fun x => ⟨x, hi⟩, fun x => x.1⟩
  cases hsa : s.already with
  | none =>
    have hL : s.alreadyL = [] := by simp [St.alreadyL, hsa]
    have hn : anc.contains id = false := by
      rw [hL] at hmem
      cases hcn : anc.contains id with
      | false => rfl
      | true => exact absurd (hmem.1 (by simpa using hcn)) (by simp)
    rw [run_attrsRepr_none id body s hsa, run_withFinally, hn]
    have hs1 : Sim h (id :: anc) { s with already := some [id] } :=
      sim_push_inst hs hi (by simp [St.alreadyL, hsa]) rfl
    obtain ⟨_, a1, _⟩ := hc { s with already := some [id] }
    have ha := a1 [id] rfl
    simp [St.alreadyL, ha, hr _ hs1]
  | some a =>
    have hL : s.alreadyL = a := by simp [St.alreadyL, hsa]
    cases hca : a.contains id with
    | true =>
      have : anc.contains id = true := by
        rw [hL] at hmem
        simpa using hmem.2 (by simpa using hca)
      rw [run_attrsRepr_hit id body s a hsa hca, this]; rfl
    | false =>
      have hn : anc.contains id = false := by
        rw [hL] at hmem
        cases hcn : anc.contains id with
        | false => rfl
        | true =>
          have := hmem.1 (by simpa using hcn)
          simp at hca
          exact absurd this hca
      rw [run_attrsRepr_miss id body s a hsa hca, run_withFinally, hn]
      have hs1 : Sim h (id :: anc) { s with already := some (id :: a) } :=
        sim_push_inst hs hi (by simp [St.alreadyL, hsa]) rfl
      obtain ⟨_, a1, _⟩ := hc { s with already := some (id :: a) }
      have ha := a1 (id :: a) rfl
      simp [St.alreadyL, ha, hr _ hs1]

theorem refines_guarded {h : Heap} {anc : List Nat} (id : Nat) (dots : String)
    (hi : isCont h id = true) {body : Prog Out} {o : Out} (hr : Refines h (id :: anc) body o) :
    Refines h anc (guarded id dots body) (if anc.contains id then .ok dots else o) := by
  intro s hs
  have hmem : id ∈ anc ↔ id ∈ s.guard := by
    rw [hs.2 id]; exact ⟨fun x => ⟨x, hi⟩, fun x => x.1⟩
  cases hcg : s.guard.contains id with
  | true =>
    have : anc.contains id = true := by simpa using hmem.2 (by simpa using hcg)
    rw [run_guarded_hit id dots body s hcg, this]; rfl
  | false =>
    have hn : anc.contains id = false := by
      cases hcn : anc.contains id with
      | false => rfl
      | true =>
        have := hmem.1 (by simpa using hcn)
        simp at hcg
        exact absurd this hcg
    rw [run_guarded_miss id dots body s hcg, hn]
    have hs1 : Sim h (id :: anc) { s with guard := id :: s.guard } := sim_push_cont hs hi rfl rfl
    simp [hr _ hs1]

/-! ### the main refinement -/

/-- **stateful = stateless**, for every fuel, every ancestor path, every node, every state
    representing that path (with the generated class-name fragment; see `displayName_eq`) -/
theorem refines_reprNode (h : Heap) (armed : Bool) :
    ∀ fuel anc id, Refines h anc (reprNode h armed fuel id) (specVal displayName h armed fuel anc id) := by
  intro fuel
  induction fuel with
  | zero => intro anc id s _; rfl
  | succ fuel ih =>
    intro anc id
    unfold reprNode specVal
    cases hn : h.nodes[id]? with
    | none => intro s _; rfl
    | some node =>
      cases node with
      | atom str => intro s _; rfl
      | list items =>
        have hi : isCont h id = true := by simp [isCont, hn]
        exact refines_guarded id _ hi
          (refines_render h (id :: anc) _ _ items _ (fun i => ("", specVal displayName h armed fuel (id :: anc) i))
            (fun _ _ => rfl) (fun i _ => clean_reprNode h armed fuel i) (fun i _ => ih (id :: anc) i))
      | tuple items =>
        have hi : isCont h id = true := by simp [isCont, hn]
        exact refines_guarded id _ hi
          (refines_render h (id :: anc) _ _ items _ (fun i => ("", specVal displayName h armed fuel (id :: anc) i))
            (fun _ _ => rfl) (fun i _ => clean_reprNode h armed fuel i) (fun i _ => ih (id :: anc) i))
      | dict items =>
        have hi : isCont h id = true := by simp [isCont, hn]
        exact refines_guarded id _ hi
          (refines_render h (id :: anc) _ _ items _
            (fun kv => (kv.1 ++ ": ", specVal displayName h armed fuel (id :: anc) kv.2))
            (fun _ _ => rfl) (fun kv _ => clean_reprNode h armed fuel kv.2)
            (fun kv _ => ih (id :: anc) kv.2))
      | inst ci vals =>
        dsimp only
        cases hc : h.classes[ci]? with
        | none => intro s _; rfl
        | some c =>
          have hi : isInst h id = true := by simp [isInst, hn]
          dsimp only
          rw [genFrags_eq, List.map_map]
          have hbody := refines_render h (id :: anc) (displayName c ++ "(") ")" (c.fields.filter enabled)
            ((fun fr => (fr.name ++ "=", evalFrag (reprNode h armed fuel) armed vals fr)) ∘ toFrag)
            (fun f => (f.name ++ "=", specField (specVal displayName h armed fuel (id :: anc)) armed vals f))
            (fun _ _ => rfl)
            (fun f _ => clean_evalFrag _ _ _ _ (clean_reprNode h armed fuel))
            (fun f hf => refines_evalFrag _ _ armed vals f (List.mem_filter.1 hf).2 (ih (id :: anc)))
          refine refines_bind_done _ (refines_attrsRepr id hi (clean_render _ _ _ fun x hx => ?_) hbody)
          obtain ⟨f, _, rfl⟩ := List.mem_map.1 hx
          exact clean_evalFrag _ _ _ _ (clean_reprNode h armed fuel)

end Attrs.C11
