/-
  T1b: the body of `define(...).wrap(cls)` as translated from /repo's source on this run (`Gen.define_wrap`) against a
  declarative statement of what `define` adds on top of `attrs(...)`: the class-level `on_setattr` it passes on
  (default pipe for mutable classes, `NO_OP` below a frozen base, ValueError for hooks below a frozen base) and the
  `auto_attribs` retry (first `True`, on `UnannotatedAttributeError` again with `False` and *the same* other
  arguments).  Proved for every list of bases (any length), every position of the frozen base among them.
-/
import AttrsModel.Generated.Funcs

namespace Attrs.Src
open Attrs.Py

/-- the three kinds of `on_setattr=` argument `define` distinguishes -/
inductive OnSet where
  | unset      -- None
  | noop       -- setters.NO_OP
  | hooks      -- anything else
  deriving DecidableEq, Repr

/-- objects standing for `setters.NO_OP`, a user's hook (list), `_DEFAULT_ON_SETATTR`, `_frozen_setattrs` -/
def oNoOp : PV := vObj 50
def oHooks : PV := vObj 51
def oDefault : PV := vObj 52
def oFrozenSetattrs : PV := vObj 60

def OnSet.pv : OnSet → PV
  | .unset => vNone
  | .noop => oNoOp
  | .hooks => oHooks

/-- what `define` is documented to hand to `attrs(on_setattr=…)` -/
def defineOnSetattr (o : OnSet) (frozen anyFrozenBase : Bool) : Except PyErr PV :=
  if anyFrozenBase then (if o = .hooks then .error .valueError else .ok oNoOp)
  else if !frozen && o = .unset then .ok oDefault
  else .ok o.pv

/-- the calls of `do_it(cls, auto_attribs, on_setattr)` (= `attrs(maybe_cls=cls, …)`) it makes -/
def defineCalls (cls aa s : PV) : List Eff :=
  if aa = vNone then
    [Eff.mk "try:do_it" [cls, vTrue, s], Eff.mk "except UnannotatedAttributeError:do_it" [cls, vFalse, s]]
  else [Eff.mk "do_it" [cls, aa, s]]

theorem find_frozen_base (ext : Ext) (fsa : PV) (bases : List Atom) (fb : Atom → Bool)
    (hs : ∀ b, pyIs (ext "getattr" [.a b, vStr "__setattr__"]) fsa = vBool (fb b)) :
    ((bases.map PV.a).find? (fun b => truthy (pyIs (ext "getattr" [b, vStr "__setattr__"]) fsa))).isSome =
      bases.any fb := by
  induction bases with
  | nil => rfl
  | cons b bs ih =>
    simp only [List.map_cons, List.find?_cons, List.any_cons, hs b]
    cases h : fb b <;> simp_all [truthy, atomTruthy]

/-- `define(...).wrap` as written in the source = the documented behaviour, for every `on_setattr` kind, `frozen`,
    `auto_attribs` ∈ {None, True, False} and every tuple of bases -/
theorem define_wrap_spec (env : Env) (ext : Ext) (cls : PV) (o : OnSet) (frozen : Bool) (aa : Option Bool)
    (bases : List Atom) (fb : Atom → Bool)
    (h1 : env "on_setattr" = o.pv) (h2 : env "setters.NO_OP" = oNoOp) (h3 : env "_DEFAULT_ON_SETATTR" = oDefault)
    (h4 : env "_frozen_setattrs" = oFrozenSetattrs) (h5 : env "frozen" = vBool frozen)
    (h6 : env "auto_attribs" = (match aa with | none => vNone | some b => vBool b))
    (hb : ext "getattr" [cls, vStr "__bases__"] = .tup bases)
    (hs : ∀ b, pyIs (ext "getattr" [.a b, vStr "__setattr__"]) oFrozenSetattrs = vBool (fb b)) :
    Gen.define_wrap env ext cls [] =
      match defineOnSetattr o frozen (bases.any fb) with
      | .error e => .error e
      | .ok s => .ok (vObj 2, defineCalls cls (match aa with | none => vNone | some b => vBool b) s) := by
  have hf := find_frozen_base ext oFrozenSetattrs bases fb hs
  unfold Gen.define_wrap
  simp only [h1, h2, h3, h4, h5, h6, hb, items]
  generalize (bases.map PV.a).find? (fun b => truthy (pyIs (ext "getattr" [b, vStr "__setattr__"]) oFrozenSetattrs)) = fd at hf
  cases fd <;> cases hany : bases.any fb <;> simp [hany] at hf <;>
    cases o <;> cases frozen <;> rcases aa with _ | _ | _ <;> rfl

end Attrs.Src
