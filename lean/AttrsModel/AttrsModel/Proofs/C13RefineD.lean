/-
  C13 — the model of `asdict` / `_asdict_anything` computes the reference (promised shape, then built),
  for arbitrary trees, with no exclusion.
-/
import AttrsModel.Proofs.C13Basic

namespace Attrs.C13

/-- the position the reference is at corresponds to the `is_key` flag the code carries
    (irrelevant when retaining) -/
def ctxOK (o : Opts) (ctx : Ctx) (isKey : Bool) : Prop :=
  o.retain = true ∨
  match ctx with
  | .key => isKey = true
  | .member => isKey = false
  | .field _ _ => False

def notField : Ctx → Prop
  | .field _ _ => False
  | _ => True

theorem targetKind_of_ctxOK {o : Opts} {ctx : Ctx} {isKey : Bool} (hc : ctxOK o ctx isKey) (k : CKind) :
    (if o.retain then k else if isKey then CKind.tuple else CKind.list) = targetKind o ctx k := by
  unfold targetKind
  rcases hc with h | h
  · simp [h]
  · cases ctx <;> simp_all

theorem ctxOK_member {o : Opts} {ctx : Ctx} {isKey : Bool} (hnf : notField ctx) (hc : ctxOK o ctx isKey) :
    ctxOK o (memberCtx ctx) isKey := by
  rcases hc with h | h
  · exact Or.inl h
  · cases ctx with
    | field c f => exact absurd hnf (by simp [notField])
    | member => exact Or.inr h
    | key => exact Or.inr h

theorem notField_member (ctx : Ctx) : notField (memberCtx ctx) := by
  cases ctx <;> simp [memberCtx, notField]

theorem opaqueAt_notField {m : SerMode} {ctx : Ctx} (hnf : notField ctx) : opaqueAt m ctx = false := by
  cases ctx with
  | field c f => exact absurd hnf (by simp [notField])
  | member => rfl
  | key => rfl

mutual
theorem anything_refines (o : Opts) : ∀ (v : PVal) (ctx : Ctx) (isKey : Bool), notField ctx →
    ctxOK o ctx isKey → anything o isKey v = realise (shapeD o ctx v)
  | .atom a, ctx, isKey, hnf, _ => by
    cases ctx with
    | field c f => exact absurd hnf (by simp [notField])
    | member =>
      cases hs : o.ser <;> cases ha : a.isScalar <;>
        simp [anything, shapeD, serLeaf, serAt, serApplies, realise, hs, ha]
    | key =>
      cases hs : o.ser <;> cases ha : a.isScalar <;>
        simp [anything, shapeD, serLeaf, serAt, serApplies, realise, hs, ha]
  | .inst c h fs, ctx, isKey, hnf, _ => by
    simp [anything, shapeD, opaqueAt_notField hnf, realise, fieldsD_refines o c fs]
  | .coll k xs, ctx, isKey, hnf, hc => by
    have hitems := itemsD_refines o xs (memberCtx ctx) isKey (notField_member ctx) (ctxOK_member hnf hc)
    simp only [anything, shapeD, opaqueAt_notField hnf, realise, hitems, targetKind_of_ctxOK hc k,
      Bool.false_eq_true, if_false]
    congr 1
    funext ys
    exact codeColl_eq_pyColl _ ys
  | .dict dk ps, ctx, isKey, hnf, _ => by
    simp [anything, shapeD, opaqueAt_notField hnf, realise, pairsD_refines o ps]

theorem fieldD_refines (o : Opts) (c : Nat) (f : FI) : ∀ (v : PVal),
    fieldD o c f v = realise (shapeD o (.field c f) v)
  | .atom a => by
    cases hs : o.ser <;> cases ha : a.isScalar <;>
      simp [fieldD, shapeD, serFieldAtom, serAt, serApplies, realise, hs, ha]
  | .inst c' h fs => by
    by_cases hw : o.ser = .wrap
    · simp [fieldD, shapeD, opaqueAt, hw, serAt, realise]
    · simp [fieldD, shapeD, opaqueAt, hw, realise, fieldsD_refines o c' fs]
  | .coll k xs => by
    by_cases hw : o.ser = .wrap
    · simp [fieldD, shapeD, opaqueAt, hw, serAt, realise]
    · have hitems := itemsD_refines o xs .member false (by simp [notField]) (Or.inr (by simp))
      have hk : (if o.retain then k else CKind.list) = targetKind o (.field c f) k := by
        unfold targetKind; cases o.retain <;> simp
      simp only [fieldD, shapeD, opaqueAt, hw, realise, hitems, memberCtx, beq_iff_eq, if_false, hk]
      congr 1
      funext ys
      exact codeColl_eq_pyColl _ ys
  | .dict dk ps => by
    by_cases hw : o.ser = .wrap
    · simp [fieldD, shapeD, opaqueAt, hw, serAt, realise]
    · simp [fieldD, shapeD, opaqueAt, hw, realise, pairsD_refines o ps]

theorem fieldsD_refines (o : Opts) (c : Nat) : ∀ (fs : List (FI × PVal)),
    fieldsD o c fs = realiseR (shapeDFields o c fs)
  | [] => by simp [fieldsD, shapeDFields, realiseR]
  | (f, v) :: r => by
    have ihr := fieldsD_refines o c r
    by_cases hp : passes o.filter f v = true
    · simp [fieldsD, shapeDFields, hp, realiseR, ihr, fieldD_refines o c f v]
    · simp [fieldsD, shapeDFields, hp, ihr]

theorem itemsD_refines (o : Opts) : ∀ (xs : List PVal) (ctx : Ctx) (isKey : Bool), notField ctx →
    ctxOK o ctx isKey → itemsD o isKey xs = realiseL (shapeDItems o ctx xs)
  | [], _, _, _, _ => by simp [itemsD, shapeDItems, realiseL]
  | x :: r, ctx, isKey, hnf, hc => by
    simp [itemsD, shapeDItems, realiseL, anything_refines o x ctx isKey hnf hc,
      itemsD_refines o r ctx isKey hnf hc]

theorem pairsD_refines (o : Opts) : ∀ (ps : List (PVal × PVal)),
    pairsD o ps = realiseP (shapeDPairs o ps)
  | [] => by simp [pairsD, shapeDPairs, realiseP]
  | (k, v) :: r => by
    simp [pairsD, shapeDPairs, realiseP,
      anything_refines o k .key true (by simp [notField]) (Or.inr (by simp)),
      anything_refines o v .member false (by simp [notField]) (Or.inr (by simp)),
      pairsD_refines o r]
end

end Attrs.C13
