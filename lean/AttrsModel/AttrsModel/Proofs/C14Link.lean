/-
  C14 — the model's code-shaped decisions coincide with the documented table of Spec/C14.lean.
  Every lemma here is for an arbitrary case (any body, any base-defined names).
-/
import AttrsModel.Spec.C14
import AttrsModel.Proofs.C14Dict

namespace Attrs.C14

/-! ### keyword defaults read from the T1 tables = the documented ones -/

theorem kw_auto_detect (api : Api) : kw api "auto_detect" = some (.bool (doc api).autoDetect) := by
  cases api <;> decide
theorem kw_slots (api : Api) : kw api "slots" = some (.bool (doc api).slots) := by
  cases api <;> decide
theorem kw_frozen (api : Api) : kw api "frozen" = some (.bool (doc api).frozen) := by
  cases api <;> decide
theorem kw_auto_exc (api : Api) : kw api "auto_exc" = some (.bool (doc api).autoExc) := by
  cases api <;> decide
theorem kw_str (api : Api) : kw api "str" = some (.bool (doc api).str) := by
  cases api <;> decide
theorem kw_match_args (api : Api) : kw api "match_args" = some (.bool (doc api).matchArgs) := by
  cases api <;> decide
theorem kw_cache_hash (api : Api) : kw api "cache_hash" = some (.bool (doc api).cacheHash) := by
  cases api <;> decide
theorem kw_repr (api : Api) : kw api "repr" = some .none := by cases api <;> decide
theorem kw_eq (api : Api) : kw api "eq" = some .none := by cases api <;> decide
theorem kw_init (api : Api) : kw api "init" = some .none := by cases api <;> decide
theorem kw_gss (api : Api) : kw api "getstate_setstate" = some .none := by cases api <;> decide
theorem kw_hash (api : Api) : kw api "hash" = some .none := by cases api <;> decide
theorem kw_unsafe_hash (api : Api) : kw api "unsafe_hash" = some .none := by cases api <;> decide
theorem kw_on_setattr (api : Api) : kw api "on_setattr" = some .none := by cases api <;> decide
theorem kw_order (api : Api) :
    kw api "order" = some (if (doc api).orderMirrorsEq then .none else .bool false) := by
  cases api <;> decide
theorem kw_cmp (api : Api) : litTri (kw api "cmp") = .non := by cases api <;> decide

theorem autoDetect_eq (c : Case) : autoDetect c = sAuto c := by
  unfold autoDetect sAuto optB; cases c.oAutoDetect <;> simp [kw_auto_detect, litBool]
theorem slots_eq (c : Case) : slots c = sSlots c := by
  unfold slots sSlots optB; cases c.oSlots <;> simp [kw_slots, litBool]
theorem frozenFlag_eq (c : Case) : frozenFlag c = sFrozenFlag c := by
  unfold frozenFlag sFrozenFlag optB; cases c.oFrozen <;> simp [kw_frozen, litBool]
theorem autoExc_eq (c : Case) : autoExc c = sAutoExc c := by
  unfold autoExc sAutoExc optB; cases c.oAutoExc <;> simp [kw_auto_exc, litBool]
theorem strFlag_eq (c : Case) : strFlag c = sStr c := by
  unfold strFlag sStr optB; cases c.oStr <;> simp [kw_str, litBool]
theorem matchArgsFlag_eq (c : Case) : matchArgsFlag c = sMatchArgs c := by
  unfold matchArgsFlag sMatchArgs optB; cases c.oMatchArgs <;> simp [kw_match_args, litBool]
theorem cacheHash_eq (c : Case) : cacheHash c = sCacheHash c := by
  unfold cacheHash sCacheHash optB; cases c.oCacheHash <;> simp [kw_cache_hash, litBool]

/-! ### flags -/

def triOf : Option Bool → Tri
  | some true => .t
  | some false => .f
  | none => .non

theorem tri_repr (c : Case) : tri c.api "repr" c.fRepr = triOf (written c.fRepr) := by
  cases h : c.fRepr <;> simp [tri, written, triOf, kw_repr, litTri]
theorem tri_init (c : Case) : tri c.api "init" c.fInit = triOf (written c.fInit) := by
  cases h : c.fInit <;> simp [tri, written, triOf, kw_init, litTri]
theorem tri_gss (c : Case) : tri c.api "getstate_setstate" c.fGss = triOf (written c.fGss) := by
  cases h : c.fGss <;> simp [tri, written, triOf, kw_gss, litTri]
theorem tri_eq (c : Case) : tri c.api "eq" c.fEq = triOf (written c.fEq) := by
  cases h : c.fEq <;> simp [tri, written, triOf, kw_eq, litTri]
theorem tri_cmp (c : Case) : tri c.api "cmp" c.fCmp = triOf (written c.fCmp) := by
  cases h : c.fCmp <;> simp [tri, written, triOf, kw_cmp]

/-- what `order=` resolves to: written value, `None`, or the signature's default -/
theorem tri_order (c : Case) :
    tri c.api "order" c.fOrder =
      match c.fOrder with
      | .t => .t | .f => .f | .non => .non
      | .unset => if (doc c.api).orderMirrorsEq then .non else .f := by
  cases h : c.fOrder <;> simp [tri, kw_order]
  cases (doc c.api).orderMirrorsEq <;> simp [litTri]

/-- the documented error conditions of `_determine_attrs_eq_order` -/
def cmpMix (c : Case) : Bool :=
  (written c.fCmp).isSome && ((written c.fEq).isSome || (written c.fOrder).isSome)
def orderNeedsEq (c : Case) : Bool := sEqFlag c == some false && sOrderFlag c == some true

/-- **`_determine_attrs_eq_order` = the documented resolution**: cmp is shorthand for both, a missing
    order mirrors the eq flag (attr.s; `order=None` anywhere) or is off (define), and the two error rules. -/
theorem eqOrderOf_eq (c : Case) (hcmp : c.api = .attrS ∨ c.fCmp = .unset) :
    eqOrderOf c =
      if cmpMix c || orderNeedsEq c then .error "valueError"
      else .ok (triOf (sEqFlag c), triOf (sOrderFlag c)) := by
  unfold eqOrderOf
  rw [tri_cmp, tri_eq, tri_order]
  unfold cmpMix orderNeedsEq sOrderFlag sEqFlag eqOrder
  rcases hcmp with h | h
  · rw [h]
    cases c.fCmp <;> cases c.fEq <;> cases c.fOrder <;> simp [written, triOf, doc]
  · rw [h]
    cases (doc c.api).orderMirrorsEq <;> cases c.fEq <;> cases c.fOrder <;> simp [written, triOf]

/-! ### own names -/

theorem hasOwn_classDict (body : List String) (n : String) :
    hasOwn (classDict body) n = (body.contains n || (n == "__hash__" && body.contains "__eq__")) := by
  simp [hasOwn, classDict, has_implicitHash, has_userDict]

theorem get_classDict (body : List String) (n : String) :
    (classDict body).get n =
      if body.contains n then .user
      else if n == "__hash__" && body.contains "__eq__" then .pyNone else .absent := by
  simp only [classDict, get_implicitHash, has_userDict, get_userDict]
  cases h1 : body.contains n <;> cases h2 : n == "__hash__" <;> cases h3 : body.contains "__eq__" <;>
    cases h4 : body.contains "__hash__" <;> simp_all

/-- **`_determine_whether_to_implement` = the documented table** (any dict, any tuple of dunders) -/
theorem determine_eq_tell (cd : Dict) (flag : Option Bool) (ad : Bool) (ns : List String) (dflt : Bool) :
    determine cd (triOf flag) ad ns dflt = tell flag ad (ns.any (hasOwn cd)) dflt := by
  unfold determine tell
  cases flag with
  | none => cases ad <;> cases h : ns.any (hasOwn cd) <;> simp [triOf, h]
  | some b => cases b <;> simp [triOf]

theorem reprDec_eq (c : Case) : reprDec c = wantRepr c := by
  unfold reprDec wantRepr
  rw [tri_repr, determine_eq_tell, autoDetect_eq]
  simp [reprNames, ownsAny, owns, hasOwn_classDict]

theorem initDec_eq (c : Case) : initDec c = wantInit c := by
  unfold initDec wantInit
  rw [tri_init, determine_eq_tell, autoDetect_eq]
  simp [initNames, ownsAny, owns, hasOwn_classDict]

theorem gssDec_eq (c : Case) : gssDec c = wantGss c := by
  unfold gssDec wantGss
  rw [tri_gss, determine_eq_tell, autoDetect_eq, slots_eq]
  simp [gssNames, ownsAny, owns, hasOwn_classDict]

theorem matchArgsDec_eq (c : Case) : matchArgsDec c = wantMatchArgs c := by
  unfold matchArgsDec wantMatchArgs
  rw [matchArgsFlag_eq]
  simp [owns, hasOwn_classDict]

theorem isExc_eq (c : Case) : isExc c = sIsExc c := by
  unfold isExc sIsExc; rw [autoExc_eq]

theorem isFrozen_eq (c : Case) : isFrozen c = sFrozen c := by
  unfold isFrozen hasFrozenBase basesFrozen midSetattr sFrozen
  rw [frozenFlag_eq, hasOwn_classDict]
  simp only [owns]
  cases sFrozenFlag c <;> cases c.body.contains "__setattr__" <;> cases c.attrsBase <;> simp

theorem hasCustomSetattr_eq (c : Case) : hasCustomSetattr c = (sAuto c && owns c "__setattr__") := by
  unfold hasCustomSetattr
  rw [autoDetect_eq, hasOwn_classDict]
  simp [owns]

/-- no error from `_determine_attrs_eq_order` -/
def eqOrderOk (c : Case) : Prop := (cmpMix c || orderNeedsEq c) = false

theorem eqTri_eq (c : Case) (hcmp : c.api = .attrS ∨ c.fCmp = .unset) (h : eqOrderOk c) :
    eqTri c = triOf (sEqFlag c) := by
  unfold eqTri; rw [eqOrderOf_eq c hcmp]; unfold eqOrderOk at h; simp [h]

theorem orderTri_eq (c : Case) (hcmp : c.api = .attrS ∨ c.fCmp = .unset) (h : eqOrderOk c) :
    orderTri c = triOf (sOrderFlag c) := by
  unfold orderTri; rw [eqOrderOf_eq c hcmp]; unfold eqOrderOk at h; simp [h]

theorem eqDet_eq (c : Case) (hcmp : c.api = .attrS ∨ c.fCmp = .unset) (h : eqOrderOk c) :
    eqDet c = wantEqRaw c := by
  unfold eqDet wantEqRaw
  rw [eqTri_eq c hcmp h, determine_eq_tell, autoDetect_eq]
  simp [eqNames, ownsAny, owns, hasOwn_classDict]

theorem eqDec_eq (c : Case) (hcmp : c.api = .attrS ∨ c.fCmp = .unset) (h : eqOrderOk c) :
    eqDec c = wantEq c := by
  unfold eqDec wantEq; rw [eqDet_eq c hcmp h, isExc_eq]

theorem orderDec_eq (c : Case) (hcmp : c.api = .attrS ∨ c.fCmp = .unset) (h : eqOrderOk c) :
    orderDec c = wantOrder c := by
  unfold orderDec wantOrder
  rw [orderTri_eq c hcmp h, determine_eq_tell, autoDetect_eq, isExc_eq]
  simp [orderNames, ownsAny, owns, hasOwn_classDict]

/-! ### hash -/

def hflagTri : HFlag → HTri
  | .t => .t | .f => .f | .bad => .bad | _ => .non

theorem hashArg_eq (c : Case) : hashArg c = hflagTri (sHash c) := by
  unfold hashArg sHash
  cases h1 : c.fUnsafeHash <;> cases h2 : c.fHash <;>
    simp [htri, kw_hash, kw_unsafe_hash, litTri, hflagTri]

theorem hashDec_eq (c : Case) (hcmp : c.api = .attrS ∨ c.fCmp = .unset) (h : eqOrderOk c)
    (hbad : sHash c ≠ .bad) : hashDec c = wantHash c := by
  unfold hashDec hashLocal wantHash
  rw [hashArg_eq, eqDet_eq c hcmp h, isExc_eq, isFrozen_eq, autoDetect_eq, hasOwn_classDict]
  simp only [ownsHash, owns]
  rcases Bool.eq_false_or_eq_true (sAuto c) with e1 | e1 <;>
  rcases Bool.eq_false_or_eq_true (c.body.contains "__hash__") with e2 | e2 <;>
  rcases Bool.eq_false_or_eq_true (c.body.contains "__eq__") with e3 | e3 <;>
  rcases Bool.eq_false_or_eq_true (sIsExc c) with e4 | e4 <;>
  rcases Bool.eq_false_or_eq_true (wantEqRaw c) with e5 | e5 <;>
  rcases Bool.eq_false_or_eq_true (sFrozen c) with e6 | e6 <;>
  cases hsh : sHash c <;> simp_all +decide [hflagTri]

/-! ### on_setattr -/

def toS : OnSetV → SOnSet
  | .non | .noOp => .off
  | .hook => .custom
  | .validate => .validate
  | .dflt => .default

/-- define below a frozen class with an explicit hook -/
def frozenBaseHook (c : Case) : Bool :=
  c.api != .attrS && c.attrsBase == .frozen && !(c.plainMid && c.baseDefines.contains "__setattr__") &&
    (c.onSetattr == .hook || c.onSetattr == .validate)

theorem clsOnSet_eq (c : Case) :
    (frozenBaseHook c = true → clsOnSet c = .error "valueError") ∧
    (frozenBaseHook c = false → ∃ o, clsOnSet c = .ok o ∧ toS o = sOnSet c) := by
  unfold frozenBaseHook clsOnSet sOnSet onSetPassed basesFrozen midSetattr
  rw [frozenFlag_eq]
  cases c.api <;> cases c.onSetattr <;> cases sFrozenFlag c <;> cases c.attrsBase <;>
    cases (c.plainMid && c.baseDefines.contains "__setattr__") <;> simp [toS]

theorem effective_toS (o : OnSetV) : effective o = (toS o != .off) := by
  cases o <;> decide

/-- whether a hook is in force when the builder looks (`builderOnSet`), in documented terms -/
theorem effective_builderOnSet (c : Case) (h : frozenBaseHook c = false) :
    effective (builderOnSet c) =
      if sFrozen c then sOnSet c != .off
      else match sOnSet c with
        | .custom => true
        | .validate | .default => c.fieldValidator
        | .off => false := by
  obtain ⟨o, ho, hs⟩ := (clsOnSet_eq c).2 h
  unfold builderOnSet clsOnSetV
  rw [ho, isFrozen_eq, ← hs]
  cases sFrozen c <;> cases o <;> cases c.fieldValidator <;> simp +decide [effective, toS]

theorem hooks_eq (c : Case) (h : frozenBaseHook c = false) (h2 : (sFrozen c && sOnSet c != .off) = false) :
    hooks c = sHooks c := by
  unfold hooks sHooks
  rw [effective_builderOnSet c h, frozenFlag_eq]
  cases hf : sFrozen c <;> cases hs : sOnSet c <;> simp_all

end Attrs.C14
