/-
  C05 — helper lemmas about the class logic: first definer along an MRO, decoration of a class below a
  frozen one, rejected definitions, chains of arbitrary depth.
-/
import AttrsModel.Spec.C05

namespace Attrs.C05
open Attrs.Init

/-! ### attribute lookup along an MRO -/

theorem firstSome_append_none {α : Type} (pre l : List (Option α)) (h : ∀ x ∈ pre, x = none) :
    firstSome (pre ++ l) = firstSome l := by
  induction pre with
  | nil => rfl
  | cons x pre ih =>
    have hx : x = none := h x List.mem_cons_self
    subst hx
    exact ih (fun y hy => h y (List.mem_cons_of_mem _ hy))

theorem resolveSet_some (k : SetK) (mro : List Node) : resolveSet (some k) mro = k := rfl
theorem resolveDel_some (k : DelK) (mro : List Node) : resolveDel (some k) mro = k := rfl

/-- lookup through a class without an own definition continues in its MRO -/
theorem resolveSet_none_cons (n : Node) (mro : List Node) :
    resolveSet none (n :: mro) = resolveSet n.set mro := rfl
theorem resolveDel_none_cons (n : Node) (mro : List Node) :
    resolveDel none (n :: mro) = resolveDel n.del mro := rfl

/-- the first definer wins, whatever comes after it and however many classes without a definition
    come before it -/
theorem resolveSet_first_definer (pre post : List Node) (n : Node) (k : SetK)
    (hpre : ∀ x ∈ pre, x.set = none) (hn : n.set = some k) :
    resolveSet none (pre ++ n :: post) = k := by
  unfold resolveSet
  rw [firstSome_cons_none']
  rw [List.map_append, firstSome_append_none _ _ (by
    intro x hx
    obtain ⟨y, hy, rfl⟩ := List.mem_map.1 hx
    exact hpre y hy)]
  simp [firstSome, hn]
where firstSome_cons_none' : ∀ {α : Type} (l : List (Option α)), firstSome (none :: l) = firstSome l := fun _ => rfl

theorem resolveDel_first_definer (pre post : List Node) (n : Node) (k : DelK)
    (hpre : ∀ x ∈ pre, x.del = none) (hn : n.del = some k) :
    resolveDel none (pre ++ n :: post) = k := by
  unfold resolveDel
  show (firstSome ((pre ++ n :: post).map (·.del))).getD .obj = k
  rw [List.map_append, firstSome_append_none _ _ (by
    intro x hx
    obtain ⟨y, hy, rfl⟩ := List.mem_map.1 hx
    exact hpre y hy)]
  simp [firstSome, hn]

/-! ### decorating one class -/

/-- a non-empty `sa_attrs` means a hook at class or field level -/
theorem anyHooked_imp (k : ClsOn) (fs : List FieldFacts) (h : anyHooked k fs = true) :
    hookish k = true ∨ fs.any (·.onSet != .unset) = true := by
  unfold anyHooked at h
  rw [List.any_eq_true] at h
  obtain ⟨f, hf, hh⟩ := h
  cases ho : f.onSet <;> simp [ho] at hh
  · left; exact hh
  · right; rw [List.any_eq_true]; exact ⟨f, hf, by simp [ho]⟩

/-- on a class that is built frozen, `add_setattr` can only have written its hook closure if the
    definition is rejected afterwards (`_make_init_script` runs for `__init__` and `__attrs_init__`) -/
theorem runsAdd_rejected (s : ClassSpec) (mroN : List Node) (k : ClsOn)
    (hf : isFrozenCls s mroN = true) (hr : rejects s mroN k = false) : runsAdd s mroN k = false := by
  cases hra : runsAdd s mroN k with
  | false => rfl
  | true =>
    exfalso
    unfold runsAdd at hra
    simp only [Bool.and_eq_true] at hra
    rcases anyHooked_imp _ _ hra.2 with h1 | h1 <;> simp [rejects, hf, h1] at hr

theorem decorate_ok (s : ClassSpec) (mroN basesN : List Node) (n : Node) (h : decorate s mroN basesN = .ok n) :
    ∃ k, classOnSet s basesN = .ok k ∧ rejects s mroN k = false ∧ n = nodeOf s mroN basesN k := by
  unfold decorate at h
  split at h
  · cases h
  · rename_i k hk
    split at h
    · cases h
    · rename_i hr
      injection h with h
      exact ⟨k, hk, by simpa using hr, h.symm⟩

/-- a class that `attrs.wrap` considers frozen (argument or inherited) gets the frozen pair, or is rejected -/
theorem decorate_frozen (s : ClassSpec) (mroN basesN : List Node) (n : Node)
    (hf : isFrozenCls s mroN = true) (h : decorate s mroN basesN = .ok n) :
    n.set = some .frozen ∧ n.del = some .frozen ∧ n.rset = .frozen ∧ n.rdel = .frozen ∧ n.frozen = true := by
  obtain ⟨k, _, hr, rfl⟩ := decorate_ok s mroN basesN n h
  have hra := runsAdd_rejected s mroN k hf hr
  simp [nodeOf, ownSetOf, ownDelOf, hf, hra, resolveSet_some, resolveDel_some]

/-- every rejection is a ValueError -/
theorem decorate_error (s : ClassSpec) (mroN basesN : List Node) (e : Exc) (h : decorate s mroN basesN = .error e) :
    e = .valueError := by
  unfold decorate at h
  split at h
  · rename_i e' he
    injection h with h
    subst h
    unfold classOnSet defineOnSet at he
    split at he
    · dsimp only at he
      split at he
      · split at he
        · injection he with he; exact he.symm
        · cases he
      · cases he
    · cases he
  · split at h
    · injection h with h; exact h.symm
    · cases h

/-- a definition is only ever refused for a specification that mentions hooks or a custom `__setattr__`
    (given CPython-consistent MRO data) -/
theorem decorate_error_hookStuff (s : ClassSpec) (mroN basesN : List Node) (e : Exc) (ha : s.attrs = true)
    (hcons : resolveSet none mroN = .frozen → basesN.any (·.rset == .frozen) = true)
    (h : decorate s mroN basesN = .error e) : hasHookStuff s = true := by
  unfold hasHookStuff
  simp only [ha, Bool.true_and, Bool.or_eq_true]
  unfold decorate at h
  split at h
  · -- define.wrap refused: an explicit hook below a frozen base
    rename_i e' he
    unfold classOnSet defineOnSet at he
    split at he
    · dsimp only at he
      split at he
      · split at he
        · rename_i hh; exact Or.inl (Or.inl hh)
        · cases he
      · cases he
    · cases he
  · rename_i k hk
    split at h
    · rename_i hr
      unfold rejects at hr
      simp only [Bool.or_eq_true, Bool.and_eq_true] at hr
      rcases hr with ((hr | hr) | hr) | hr
      · exact Or.inr (by unfold hasOwnSet at hr; simp only [Bool.and_eq_true] at hr; exact hr.1.2)
      · exact Or.inr (by unfold hasOwnSet at hr; simp only [Bool.and_eq_true] at hr; exact hr.2.2)
      · -- frozen ∧ class-level hook
        obtain ⟨hf, hh⟩ := hr
        unfold builderOnSet at hh
        rw [if_pos hf] at hh
        unfold classOnSet at hk
        split at hk
        · -- define
          unfold defineOnSet at hk
          dsimp only at hk
          split at hk
          · split at hk
            · cases hk
            · injection hk with hk; subst hk; simp [hookish] at hh
          · rename_i hnb
            injection hk with hk
            subst hk
            split at hh
            · -- the default pipe on a class that is frozen by inheritance without a frozen direct base
              rename_i hd
              simp only [Bool.and_eq_true, Bool.not_eq_true', beq_iff_eq] at hd
              exfalso
              unfold isFrozenCls at hf
              simp only [hd.1, Bool.false_or, beq_iff_eq] at hf
              unfold bodySet at hf
              split at hf
              · simp [resolveSet_some] at hf
              · split at hf
                · simp [resolveSet_some] at hf
                · exact hnb (hcons hf)
            · exact Or.inl (Or.inl hh)
        · injection hk with hk; subst hk; exact Or.inl (Or.inl hh)
      · exact Or.inl (Or.inr hr.2)
    · cases h

/-! ### defining a hierarchy -/

theorem buildFrom_error_hookStuff (specs : List ClassSpec) (acc : List Node) (i j : Nat) (e : Exc)
    (hc : consistentFrom acc specs = true) (h : buildFrom acc specs i = .error (j, e)) :
    specs.any hasHookStuff = true := by
  induction specs generalizing acc i with
  | nil => simp [buildFrom] at h
  | cons s rest ih =>
    unfold consistentFrom at hc
    simp only [Bool.and_eq_true] at hc
    unfold buildFrom at h
    cases hd : defineClass acc s with
    | error e' =>
      unfold defineClass at hd
      split at hd
      · rename_i ha
        have := decorate_error_hookStuff s _ _ e' ha (by
          intro hfz
          have h1 := hc.1
          unfold consistentAt at h1
          simpa [hfz] using h1) hd
        simp [this]
      · cases hd
    | ok n =>
      rw [hd] at h hc
      have := ih (n :: acc) (i + 1) hc.2 h
      simp [this]

/-- shape of a single-inheritance chain on top of `n` already defined classes: every class lists exactly
    the previous one as base and all earlier ones, nearest first, as MRO -/
def isChainFrom : Nat → List ClassSpec → Prop
  | _, [] => True
  | n, s :: rest => s.mro = List.range n ∧ s.bases = (if n = 0 then [] else [0]) ∧ isChainFrom (n + 1) rest

theorem pick_range (acc : List Node) : pick acc (List.range acc.length) = acc := by
  unfold pick
  induction acc with
  | nil => rfl
  | cons a l ih =>
    rw [List.length_cons, List.range_succ_eq_map, List.filterMap_cons]
    simp only [List.getElem?_cons_zero, List.filterMap_map]
    have : ((fun x => (a :: l)[x]?) ∘ Nat.succ) = (fun x => l[x]?) := by
      funext x; simp
    rw [this, ih]

/-- the most recently defined class is frozen (both methods resolve to the frozen pair), and its resolved
    methods are what lookup through the classes below it gives -/
def FrozenTop : List Node → Prop
  | [] => False
  | t :: rest => t.rset = .frozen ∧ t.rdel = .frozen ∧ t.rset = resolveSet t.set rest ∧ t.rdel = resolveDel t.del rest

theorem defineClass_coherent (acc : List Node) (s : ClassSpec) (n : Node) (h : defineClass acc s = .ok n) :
    n.rset = resolveSet n.set (pick acc s.mro) ∧ n.rdel = resolveDel n.del (pick acc s.mro) := by
  unfold defineClass at h
  split at h
  · obtain ⟨k, _, _, rfl⟩ := decorate_ok _ _ _ _ h
    exact ⟨rfl, rfl⟩
  · injection h with h; subst h; exact ⟨rfl, rfl⟩

/-- one more class on top of a frozen one, without a `__setattr__`/`__delattr__` of its own in the body:
    plain or attrs-decorated in any way, it is frozen again (or its definition is refused) -/
theorem defineClass_below_frozen (acc : List Node) (s : ClassSpec) (n : Node) (htop : FrozenTop acc)
    (hmro : s.mro = List.range acc.length)
    (hus : s.userSet = false) (hud : s.userDel = false) (hb : s.builtin = false)
    (h : defineClass acc s = .ok n) : FrozenTop (n :: acc) := by
  have hcoh := defineClass_coherent acc s n h
  rw [hmro, pick_range] at hcoh
  cases acc with
  | nil => exact htop.elim
  | cons t rest =>
    obtain ⟨ht1, ht2, ht3, ht4⟩ := htop
    have hbs : bodySet s = none := by simp [bodySet, hus, hb]
    have hbd : bodyDel s = none := by simp [bodyDel, hud, hb]
    have hres : resolveSet none (t :: rest) = .frozen := by rw [resolveSet_none_cons, ← ht3]; exact ht1
    have hresd : resolveDel none (t :: rest) = .frozen := by rw [resolveDel_none_cons, ← ht4]; exact ht2
    unfold defineClass at h
    rw [hmro, pick_range] at h
    split at h
    · have hf : isFrozenCls s (t :: rest) = true := by simp [isFrozenCls, hbs, hres]
      obtain ⟨_, _, h3, h4, _⟩ := decorate_frozen _ _ _ _ hf h
      exact ⟨h3, h4, hcoh.1, hcoh.2⟩
    · injection h with h
      subst h
      refine ⟨?_, ?_, hcoh.1, hcoh.2⟩
      · show resolveSet (bodySet s) (t :: rest) = .frozen
        rw [hbs]; exact hres
      · show resolveDel (bodyDel s) (t :: rest) = .frozen
        rw [hbd]; exact hresd

/-- a class decorated with `frozen=True` (attr.s, define or attrs.frozen) is frozen, whatever it inherits -/
theorem defineClass_frozenArg (acc : List Node) (s : ClassSpec) (n : Node) (ha : s.attrs = true)
    (hf : s.frozenArg = true) (hmro : s.mro = List.range acc.length) (h : defineClass acc s = .ok n) :
    FrozenTop (n :: acc) := by
  have hcoh := defineClass_coherent acc s n h
  rw [hmro, pick_range] at hcoh
  unfold defineClass at h
  rw [if_pos ha] at h
  obtain ⟨_, _, h3, h4, _⟩ := decorate_frozen _ _ _ _ (by simp [isFrozenCls, hf]) h
  exact ⟨h3, h4, hcoh.1, hcoh.2⟩

theorem buildFrom_chain_frozen (specs : List ClassSpec) (acc acc' : List Node) (i : Nat) (htop : FrozenTop acc)
    (hchain : isChainFrom acc.length specs)
    (hbody : ∀ s ∈ specs, s.userSet = false ∧ s.userDel = false ∧ s.builtin = false)
    (h : buildFrom acc specs i = .ok acc') : FrozenTop acc' := by
  induction specs generalizing acc i with
  | nil => simp [buildFrom] at h; subst h; exact htop
  | cons s rest ih =>
    unfold buildFrom at h
    obtain ⟨hm, _, hrest⟩ := hchain
    obtain ⟨h1, h2, h3⟩ := hbody s List.mem_cons_self
    cases hd : defineClass acc s with
    | error e => rw [hd] at h; cases h
    | ok n =>
      rw [hd] at h
      exact ih (n :: acc) (i + 1) (defineClass_below_frozen acc s n htop hm h1 h2 h3 hd)
        (by simpa using hrest) (fun s' hs' => hbody s' (List.mem_cons_of_mem _ hs')) h

end Attrs.C05
