/-
  C06 — the operational pipe (`runPipe`: state-passing, early exit) refines the declarative run
  (`chainEvents` / `chainVal` cut at the fault position or at `setters.frozen`).
-/
import AttrsModel.Spec.C06

namespace Attrs.C06
open Attrs.Init (Val Conv Event EventId)

/-- invoke a list of callbacks in order, stop at the one that raises -/
def perform (fault : Option Nat) (tr : List Event) : List Event → List Event × Option Exc
  | [] => (tr, none)
  | e :: es =>
    match call fault tr e with
    | (tr', some x) => (tr', some x)
    | (tr', none) => perform fault tr' es

theorem perform_append (fault : Option Nat) (xs ys : List Event) (tr : List Event) :
    perform fault tr (xs ++ ys) =
      match perform fault tr xs with
      | (tr', some x) => (tr', some x)
      | (tr', none) => perform fault tr' ys := by
  induction xs generalizing tr with
  | nil => simp [perform]
  | cons e es ih =>
    simp only [List.cons_append, perform]
    cases h : call fault tr e with
    | mk tr' r =>
      cases r with
      | some x => simp
      | none => simp [ih]

/-- what `perform` does, in closed form -/
theorem perform_spec (fault : Option Nat) (evs : List Event) (tr : List Event) :
    perform fault tr evs =
      match fault with
      | some p =>
        if tr.length ≤ p ∧ p < tr.length + evs.length then
          (tr ++ evs.take (p - tr.length + 1), (evs[p - tr.length]?).map (fun e => Exc.user (tok e.id)))
        else (tr ++ evs, none)
      | none => (tr ++ evs, none) := by
  induction evs generalizing tr with
  | nil =>
    cases fault with
    | none => simp [perform]
    | some p =>
      simp only [perform, List.length_nil, Nat.add_zero, List.append_nil]
      have : ¬ (tr.length ≤ p ∧ p < tr.length) := by omega
      simp [this]
  | cons e es ih =>
    cases fault with
    | none =>
      simp only [perform, call]
      have := ih (tr ++ [e])
      simp only at this
      simp [this]
    | some p =>
      simp only [perform, call]
      by_cases hp : p = tr.length
      · subst hp
        simp
      · have hne : ¬ (some p = some tr.length) := by simpa using hp
        simp only [hne, if_false]
        rw [ih (tr ++ [e])]
        simp only [List.length_append, List.length_cons, List.length_nil]
        by_cases hr : tr.length ≤ p ∧ p < tr.length + (es.length + 1)
        · have hr' : tr.length + (0 + 1) ≤ p ∧ p < tr.length + (0 + 1) + es.length := by omega
          simp only [hr, hr', and_self, if_true]
          have h1 : p - tr.length = (p - (tr.length + (0 + 1))) + 1 := by omega
          rw [h1]
          simp [List.take_succ_cons, List.append_assoc]
        · have hr' : ¬ (tr.length + (0 + 1) ≤ p ∧ p < tr.length + (0 + 1) + es.length) := by omega
          simp [hr, hr', List.append_assoc]

/-- from the empty trace: cut at the fault position if it is one of the callbacks -/
theorem perform_nil (fault : Option Nat) (evs : List Event) :
    perform fault [] evs =
      match hitPos fault evs.length with
      | some p => (evs.take (p + 1), (evs[p]?).map (fun e => Exc.user (tok e.id)))
      | none => (evs, none) := by
  rw [perform_spec]
  cases fault with
  | none => simp [hitPos]
  | some p =>
    by_cases h : p < evs.length <;> simp [hitPos, h]

theorem runValidators_perform (fault : Option Nat) (f : Field) (v : Val) (idxs : List Nat) (tr : List Event) :
    runValidators fault f v idxs tr = perform fault tr (idxs.map (fun i => validatorEvent f i v)) := by
  induction idxs generalizing tr with
  | nil => rfl
  | cons i rest ih =>
    simp only [runValidators, List.map_cons, perform]
    cases h : call fault tr (validatorEvent f i v) with
    | mk tr' r =>
      cases r with
      | some x => rfl
      | none => simp [ih]

/-- a setter other than `frozen`: perform its callbacks, then return its value -/
theorem runSetter_perform (rv : Bool) (fault : Option Nat) (f : Field) (s : Setter) (tr : List Event) (v : Val)
    (hs : s ≠ .frozen) :
    runSetter rv fault f s tr v =
      match perform fault tr (setterEvents rv f s v) with
      | (tr', some x) => (tr', .error x)
      | (tr', none) => (tr', .ok (pureApply f s v)) := by
  cases s with
  | frozen => exact absurd rfl hs
  | user i =>
    simp only [runSetter, setterEvents, perform, pureApply]
    cases h : call fault tr (hookEvent i f v) with
    | mk tr' r => cases r <;> rfl
  | validate =>
    simp only [runSetter, setterEvents, pureApply]
    cases rv with
    | false => simp [perform]
    | true =>
      simp only [Bool.not_true, Bool.false_eq_true, if_false, if_true]
      by_cases hz : f.validators = 0
      · simp [hz, perform]
      · have : (f.validators == 0) = false := by simpa using hz
        simp only [this, Bool.false_eq_true, if_false, runValidators_perform]
        cases perform fault tr (List.map (fun i => validatorEvent f i v) (List.range f.validators)) with
        | mk tr' r => cases r <;> rfl
  | convert =>
    simp only [runSetter, setterEvents, pureApply, Init.convApply]
    cases hc : f.conv with
    | none => simp [perform, Field.toInit, hc]
    | some c =>
      simp only [perform]
      cases h : call fault tr (convEvent f c v) with
      | mk tr' r => cases r <;> simp [Field.toInit, hc]

/-- **the pipe in closed form**: perform the callbacks of the undisturbed run; if none of them raises the
    result is the left-to-right fold, unless `setters.frozen` is in the pipe -/
theorem runPipe_perform (rv : Bool) (fault : Option Nat) (f : Field) (h : List Setter) (tr : List Event) (v : Val) :
    runPipe rv fault f h tr v =
      match perform fault tr (chainEvents rv f h v) with
      | (tr', some x) => (tr', .error x)
      | (tr', none) =>
        if h.contains .frozen then (tr', .error .frozenAttribute) else (tr', .ok (chainVal f h v)) := by
  induction h generalizing tr v with
  | nil => simp [runPipe, chainEvents, perform, chainVal]
  | cons s rest ih =>
    by_cases hs : s = .frozen
    · subst hs
      simp [runPipe, runSetter, chainEvents, perform]
    · have hce : chainEvents rv f (s :: rest) v = setterEvents rv f s v ++ chainEvents rv f rest (pureApply f s v) := by
        cases s <;> first | rfl | exact absurd rfl hs
      have hcont : (s :: rest).contains Setter.frozen = rest.contains Setter.frozen := by
        have : (Setter.frozen == s) = false := by
          cases s <;> first | rfl | exact absurd rfl hs
        simp only [List.contains_cons, this, Bool.false_or]
      rw [hce, perform_append, hcont]
      simp only [runPipe]
      rw [runSetter_perform rv fault f s tr v hs]
      cases hp : perform fault tr (setterEvents rv f s v) with
      | mk tr' r =>
        cases r with
        | some x => rfl
        | none =>
          simp only
          rw [ih]
          simp [chainVal]

/-- the pipe started on a fresh assignment, against the declarative run -/
theorem runPipe_spec (rv : Bool) (fault : Option Nat) (f : Field) (h : List Setter) (v : Val) :
    runPipe rv fault f h [] v =
      match hitPos fault (chainEvents rv f h v).length with
      | some p => ((chainEvents rv f h v).take (p + 1),
                   .error (((chainEvents rv f h v)[p]?).map (fun e => Exc.user (tok e.id))).get!)
      | none =>
        if h.contains .frozen then (chainEvents rv f h v, .error .frozenAttribute)
        else (chainEvents rv f h v, .ok (chainVal f h v)) := by
  rw [runPipe_perform, perform_nil]
  cases hh : hitPos fault (chainEvents rv f h v).length with
  | none => rfl
  | some p =>
    have hp : p < (chainEvents rv f h v).length := by
      unfold hitPos at hh
      cases fault with
      | none => simp at hh
      | some q =>
        simp only at hh
        split at hh
        · cases hh; assumption
        · simp at hh
    simp [hp]

/-! ### nested pipes -/

theorem runPipe_append (rv : Bool) (fault : Option Nat) (f : Field) (a b : List Setter) (tr : List Event) (v : Val) :
    runPipe rv fault f (a ++ b) tr v =
      match runPipe rv fault f a tr v with
      | (tr', .ok v') => runPipe rv fault f b tr' v'
      | (tr', .error x) => (tr', .error x) := by
  induction a generalizing tr v with
  | nil => simp [runPipe]
  | cons s rest ih =>
    simp only [List.cons_append, runPipe]
    cases runSetter rv fault f s tr v with
    | mk tr' r =>
      cases r with
      | error x => rfl
      | ok v' => simp only; exact ih tr' v'

theorem runPipe_single (rv : Bool) (fault : Option Nat) (f : Field) (s : Setter) (tr : List Event) (v : Val) :
    runPipe rv fault f [s] tr v = runSetter rv fault f s tr v := by
  simp only [runPipe]
  cases runSetter rv fault f s tr v with
  | mk tr' r => cases r <;> rfl

mutual
/-- calling a hook expression the way the real (nested) pipe objects are called is running its flattening -/
theorem runHook_flat (rv : Bool) (fault : Option Nat) (f : Field) :
    ∀ (h : Hook) (tr : List Event) (v : Val),
      runHook rv fault f h tr v = runPipe rv fault f h.flatten tr v
  | .leaf s, tr, v => by simp only [runHook, Hook.flatten, runPipe_single]
  | .pipe l, tr, v => by
    simp only [runHook, Hook.flatten]
    exact runHooks_flat rv fault f l tr v
theorem runHooks_flat (rv : Bool) (fault : Option Nat) (f : Field) :
    ∀ (l : List Hook) (tr : List Event) (v : Val),
      runHooks rv fault f l tr v = runPipe rv fault f (flattenList l) tr v
  | [], tr, v => by simp only [runHooks, flattenList, runPipe]
  | h :: t, tr, v => by
    simp only [runHooks, flattenList, runPipe_append]
    rw [runHook_flat rv fault f h tr v]
    cases runPipe rv fault f h.flatten tr v with
    | mk tr' r =>
      cases r with
      | error x => rfl
      | ok v' => simp only; exact runHooks_flat rv fault f t tr' v'
end

theorem flattenList_append (a b : List Hook) : flattenList (a ++ b) = flattenList a ++ flattenList b := by
  induction a with
  | nil => simp [flattenList]
  | cons h t ih => simp [flattenList, ih, List.append_assoc]

theorem flattenList_leaves (l : List Setter) : flattenList (l.map Hook.leaf) = l := by
  induction l with
  | nil => simp [flattenList]
  | cons s t ih => simp [flattenList, Hook.flatten, ih]

theorem frozen_not_mem {h : List Setter} (e : h.contains Setter.frozen = false) : Setter.frozen ∉ h := by
  intro hm; rw [List.contains_iff_mem.2 hm] at e; cases e

/-! ### inert chains (what the builder's normalisation drops) -/

/-- a `validate` without validators or a `convert` without converter -/
def inertSetter (f : Field) : Setter → Bool
  | .validate => f.validators == 0
  | .convert => f.conv.isNone
  | _ => false

/-- every setter of the chain is inert -/
def inert (f : Field) (h : List Setter) : Bool := h.all (inertSetter f)

theorem inert_spec (rv : Bool) (f : Field) (h : List Setter) (v : Val) (hi : inert f h = true) :
    chainEvents rv f h v = [] ∧ chainVal f h v = v ∧ h.contains .frozen = false := by
  induction h generalizing v with
  | nil => simp [chainEvents, chainVal]
  | cons s rest ih =>
    simp only [inert, List.all_cons, Bool.and_eq_true] at hi
    obtain ⟨hs, hr⟩ := hi
    cases s with
    | user i => simp [inertSetter] at hs
    | frozen => simp [inertSetter] at hs
    | validate =>
      have hz : f.validators = 0 := by simpa [inertSetter] using hs
      have h1 : pureApply f .validate v = v := rfl
      obtain ⟨e1, e2, e3⟩ := ih v (by simpa [inert] using hr)
      refine ⟨?_, ?_, ?_⟩
      · simp [chainEvents, setterEvents, hz, h1, e1]
      · simpa [chainVal, List.foldl_cons, h1] using e2
      · simpa [List.contains_cons] using e3
    | convert =>
      have hz : f.conv = none := by simpa [inertSetter] using hs
      have h1 : pureApply f .convert v = v := by simp [pureApply, Init.convApply, Field.toInit, hz]
      obtain ⟨e1, e2, e3⟩ := ih v (by simpa [inert] using hr)
      refine ⟨?_, ?_, ?_⟩
      · simp [chainEvents, setterEvents, hz, h1, e1]
      · simpa [chainVal, List.foldl_cons, h1] using e2
      · simpa [List.contains_cons] using e3

theorem inertSetter_of_effective (f : Field) (s : Setter) (he : Setter.effective f s = true) :
    inertSetter f s = false := by
  cases s with
  | user i => rfl
  | frozen => rfl
  | validate => simpa [Setter.effective, inertSetter] using he
  | convert =>
    simp only [Setter.effective] at he
    cases hc : f.conv with
    | none => simp [hc] at he
    | some c => simp [inertSetter, hc]

/-- a setter that can do something for the field makes the chain not inert -/
theorem not_inert_of_effective (f : Field) (h : List Setter) (he : h.any (Setter.effective f) = true) :
    inert f h = false := by
  induction h with
  | nil => simp at he
  | cons s rest ih =>
    simp only [List.any_cons, Bool.or_eq_true] at he
    simp only [inert, List.all_cons]
    rcases he with he | he
    · simp [inertSetter_of_effective f s he]
    · have := ih he
      simp only [inert] at this
      simp [this]

end Attrs.C06
