/-
  Helper lemmas for C12 (evolve / assoc): the keyword call `evolve` builds is a well-formed call of the
  class's initializer; it binds iff every change names an init alias; what it passes for each field.
-/
import AttrsModel.Spec.C12
import AttrsModel.Properties.C01
import AttrsModel.Properties.C02

namespace Attrs.C12
open Attrs.Init

/-! ### association lists -/

theorem lookup_append (k : String) (xs ys : List (String × Val)) :
    lookup k (xs ++ ys) = (match lookup k xs with | some v => some v | none => lookup k ys) := by
  induction xs with
  | nil => rfl
  | cons kv xs ih =>
    obtain ⟨k', v⟩ := kv
    simp only [List.cons_append, lookup]
    split
    · rfl
    · exact ih

theorem lookup_isSome_eq_any (k : String) (l : List (String × Val)) :
    (lookup k l).isSome = l.any (·.1 == k) := by
  induction l with
  | nil => rfl
  | cons kv l ih =>
    obtain ⟨k', v⟩ := kv
    simp only [lookup, List.any_cons]
    by_cases hk : k' = k
    · simp [hk]
    · have : (k' == k) = false := by simpa using hk
      simp only [this, Bool.false_eq_true, if_false, Bool.false_or]
      exact ih

theorem lookup_none_of_any_false (k : String) (l : List (String × Val)) (h : l.any (·.1 == k) = false) :
    lookup k l = none := by
  have := lookup_isSome_eq_any k l
  rw [h] at this
  simpa using this

theorem curOf_mem (cur : List (String × Option Val)) (n : String) (v : Val) (h : curOf cur n = some v) :
    ∃ kv ∈ cur, kv.2 = some v := by
  unfold curOf at h
  split at h
  · rename_i m w hf
    exact ⟨(m, w), List.mem_of_find?_eq_some hf, h⟩
  · cases h

/-! ### the call `evolve` makes -/

/-- the entry `evolve` adds for init field `a`: its current value by alias, unless overridden -/
def restEntry (cur : List (String × Option Val)) (changes : List (String × Val)) (a : Attr) : Option (String × Val) :=
  if changes.any (·.1 == a.alias) then none else (curOf cur a.name).map (fun v => (a.alias, v))

/-- the current values `evolve` passes on: init fields not overridden, by alias -/
def rest (attrs : List Attr) (cur : List (String × Option Val)) (changes : List (String × Val)) : List (String × Val) :=
  (attrs.filter (·.init)).filterMap (restEntry cur changes)

theorem evolveCall_kw (attrs : List Attr) (cur : List (String × Option Val)) (changes : List (String × Val)) :
    (evolveCall attrs cur changes).kw = changes ++ rest attrs cur changes := rfl

theorem evolveCall_pos (attrs : List Attr) (cur : List (String × Option Val)) (changes : List (String × Val)) :
    (evolveCall attrs cur changes).pos = [] := rfl

theorem restEntry_some (cur : List (String × Option Val)) (changes : List (String × Val)) (a : Attr)
    (kv : String × Val) (h : restEntry cur changes a = some kv) :
    kv.1 = a.alias ∧ changes.any (·.1 == a.alias) = false ∧ curOf cur a.name = some kv.2 := by
  unfold restEntry at h
  split at h
  · cases h
  · rename_i hc
    cases hv : curOf cur a.name with
    | none => simp [hv] at h
    | some v =>
      simp only [hv, Option.map_some, Option.some.injEq] at h
      subst h
      exact ⟨rfl, Bool.eq_false_iff.2 hc, rfl⟩

theorem mem_rest (attrs : List Attr) (cur : List (String × Option Val)) (changes : List (String × Val))
    (kv : String × Val) (h : kv ∈ rest attrs cur changes) :
    ∃ a ∈ attrs, a.init = true ∧ kv.1 = a.alias ∧ changes.any (·.1 == a.alias) = false ∧
      curOf cur a.name = some kv.2 := by
  unfold rest at h
  obtain ⟨a, ha, hf⟩ := List.mem_filterMap.1 h
  obtain ⟨ha1, ha2⟩ := List.mem_filter.1 ha
  exact ⟨a, ha1, ha2, restEntry_some cur changes a kv hf⟩

/-- an init field that is not overridden and currently holds `v` is passed `v` (aliases being distinct) -/
theorem lookup_filterMap_restEntry (cur : List (String × Option Val)) (changes : List (String × Val))
    (l : List Attr) (a : Attr) (ha : a ∈ l) (hinj : ∀ b ∈ l, b.alias = a.alias → b = a)
    (hc : changes.any (·.1 == a.alias) = false) (v : Val) (hv : curOf cur a.name = some v) :
    lookup a.alias (l.filterMap (restEntry cur changes)) = some v := by
  induction l with
  | nil => cases ha
  | cons b l ih =>
    by_cases hb : b.alias = a.alias
    · have : b = a := hinj b List.mem_cons_self hb
      subst this
      have : restEntry cur changes b = some (b.alias, v) := by simp [restEntry, hc, hv]
      simp [this, lookup]
    · have ha' : a ∈ l := by
        rcases List.mem_cons.1 ha with h | h
        · exact absurd (by rw [h]) hb
        · exact h
      have ih' := ih ha' (fun c hc' => hinj c (List.mem_cons_of_mem _ hc'))
      cases hr : restEntry cur changes b with
      | none => simp only [List.filterMap_cons, hr]; exact ih'
      | some kv =>
        have hk := (restEntry_some cur changes b kv hr).1
        obtain ⟨k, w⟩ := kv
        have hne : (k == a.alias) = false := by
          have : k = b.alias := hk
          simpa [this] using hb
        simp only [List.filterMap_cons, hr, lookup, hne, Bool.false_eq_true, if_false]
        exact ih'

theorem nodup_filterMap_restEntry (cur : List (String × Option Val)) (changes : List (String × Val))
    (l : List Attr) (h : (l.map (·.alias)).Nodup) :
    ((l.filterMap (restEntry cur changes)).map (·.1)).Nodup := by
  induction l with
  | nil => simp
  | cons b l ih =>
    have h2 : (∀ y ∈ l, ¬y.alias = b.alias) ∧ (l.map (·.alias)).Nodup := by simpa using h
    cases hr : restEntry cur changes b with
    | none => simp only [List.filterMap_cons, hr]; exact ih h2.2
    | some kv =>
      have hk := (restEntry_some cur changes b kv hr).1
      simp only [List.filterMap_cons, hr, List.map_cons, List.nodup_cons]
      refine ⟨?_, ih h2.2⟩
      intro hm
      obtain ⟨kv', hkv', hkk⟩ := List.mem_map.1 hm
      obtain ⟨a, ha, hf⟩ := List.mem_filterMap.1 hkv'
      have := (restEntry_some cur changes a kv' hf).1
      exact h2.1 a ha (by rw [← this, hkk, hk])

/-! ### from `C12.wf` to the hypotheses of the initializer theorems -/

structure WfParts (c : Case) : Prop where
  names : c.cur.map (·.1) = c.base.run.attrs.map (·.name)
  chNodup : (c.changes.map (·.1)).Nodup
  chTok : ∀ kv ∈ c.changes, kv.2 ≠ NOTHING
  curTok : ∀ kv ∈ c.cur, kv.2 ≠ some NOTHING
  base : C01.wf { c.base with call := { pos := [], kw := [] } } = true
  aliasNodup : ((c.base.run.attrs.filter (·.init)).map (·.alias)).Nodup
  set : ∀ a ∈ c.base.run.attrs, a.init = true → (curOf c.cur a.name).isSome = true
  full : c.op = .evolve ∨ (∀ kv ∈ c.cur, kv.2.isSome = true) ∨ c.copyNeedsAll = false

theorem wfParts (c : Case) (h : wf c = true) : WfParts c := by
  unfold wf at h
  simp only [Bool.and_eq_true, Bool.or_eq_true, C01.distinct, decide_eq_true_eq, List.all_eq_true,
    beq_iff_eq, bne_iff_ne, ne_eq, List.mem_filter, and_imp] at h
  obtain ⟨⟨⟨⟨⟨⟨h1, h2⟩, h3⟩, h4⟩, h5⟩, h6⟩, h7⟩ := h
  have h5' := h5
  unfold C01.wf at h5'
  simp only [Bool.and_eq_true, C01.distinct, decide_eq_true_eq] at h5'
  refine ⟨h1, h2, h3, h4, h5, h5'.1.1.1.1.2, h6, ?_⟩
  rcases h7 with (h | h) | h
  · exact Or.inl h
  · exact Or.inr (Or.inl h)
  · exact Or.inr (Or.inr (by simpa using h))

theorem WfParts.inj {c : Case} (p : WfParts c) : AliasInj c.base.run.attrs :=
  aliasInj_of_nodup _ p.aliasNodup

theorem evolveMissing_false (c : Case) (p : WfParts c) :
    evolveMissing c.base.run.attrs c.cur c.changes = false := by
  unfold evolveMissing
  rw [List.any_eq_false]
  intro a ha
  obtain ⟨ha1, ha2⟩ := List.mem_filter.1 ha
  obtain ⟨v, hv⟩ := Option.isSome_iff_exists.1 (p.set a ha1 ha2)
  simp [hv]

theorem known_evolveCase (c : Case) : C01.known (evolveCase c) = C01.known c.base := rfl

/-- the call `evolve` makes is a well-formed call of the class's initializer: distinct keywords, no
    sentinel values -/
theorem wf_evolveCase (c : Case) (p : WfParts c) : C01.wf (evolveCase c) = true := by
  have hb := p.base
  unfold C01.wf at hb ⊢
  simp only [Bool.and_eq_true, C01.distinct, decide_eq_true_eq] at hb ⊢
  obtain ⟨⟨⟨⟨⟨⟨⟨h1, h2⟩, h3⟩, h4⟩, _⟩, _⟩, _⟩, h8⟩ := hb
  refine ⟨⟨⟨⟨⟨⟨⟨h1, h2⟩, h3⟩, h4⟩, ?_⟩, ?_⟩, ?_⟩, h8⟩
  · show ((c.changes ++ rest c.base.run.attrs c.cur c.changes).map (·.1)).Nodup
    rw [List.map_append, List.nodup_append]
    refine ⟨p.chNodup, nodup_filterMap_restEntry _ _ _ p.aliasNodup, ?_⟩
    intro x hx y hy hxy
    obtain ⟨kv, hkv, rfl⟩ := List.mem_map.1 hx
    obtain ⟨kv', hkv', rfl⟩ := List.mem_map.1 hy
    obtain ⟨a, _, _, hk, hc, _⟩ := mem_rest _ _ _ kv' hkv'
    have : c.changes.any (·.1 == a.alias) = true :=
      List.any_eq_true.2 ⟨kv, hkv, by simp [← hk, hxy]⟩
    rw [hc] at this
    cases this
  · rfl
  · show (c.changes ++ rest c.base.run.attrs c.cur c.changes).all (·.2 != NOTHING) = true
    rw [List.all_eq_true]
    intro kv hkv
    rcases List.mem_append.1 hkv with h | h
    · simpa using p.chTok kv h
    · obtain ⟨a, _, _, _, _, hv⟩ := mem_rest _ _ _ kv h
      obtain ⟨kv', hkv', hv'⟩ := curOf_mem _ _ _ hv
      have := p.curTok kv' hkv'
      rw [hv'] at this
      simpa using this

/-! ### binding -/

theorem params_any (attrs : List Attr) (k : String) :
    (params attrs).any (·.name == k) = (attrs.filter (·.init)).any (·.alias == k) := by
  rw [Bool.eq_iff_iff]
  simp only [List.any_eq_true, List.mem_filter]
  constructor
  · rintro ⟨q, hq, hk⟩
    obtain ⟨b, hb, hbi, rfl⟩ := mem_params attrs q hq
    exact ⟨b, ⟨hb, hbi⟩, hk⟩
  · rintro ⟨b, ⟨hb, hbi⟩, hk⟩
    exact ⟨paramOf b, paramOf_mem_params attrs b hb hbi, hk⟩

theorem posTaken_evolve (attrs : List Attr) (cur : List (String × Option Val)) (changes : List (String × Val)) :
    posTaken (params attrs) (evolveCall attrs cur changes) = [] := by
  simp [posTaken, evolveCall]

/-- what `evolve` passes for an init field: the change if there is one, else the current value -/
theorem lookup_evolve_kw (c : Case) (p : WfParts c) (a : Attr) (ha : a ∈ c.base.run.attrs) (hi : a.init = true) :
    lookup a.alias (evolveCall c.base.run.attrs c.cur c.changes).kw = passedFor c a ∧
    (passedFor c a).isSome = true := by
  rw [evolveCall_kw, lookup_append]
  unfold passedFor
  cases hl : lookup a.alias c.changes with
  | some v => simp
  | none =>
    have hc : c.changes.any (·.1 == a.alias) = false := by
      rw [← lookup_isSome_eq_any, hl]; rfl
    obtain ⟨v, hv⟩ := Option.isSome_iff_exists.1 (p.set a ha hi)
    have := lookup_filterMap_restEntry c.cur c.changes (c.base.run.attrs.filter (·.init)) a
      (List.mem_filter.2 ⟨ha, hi⟩)
      (fun b hb hab => p.inj b (List.mem_filter.1 hb).1 a ha (by simpa using (List.mem_filter.1 hb).2) hi hab)
      hc v hv
    simp only [rest, this, hv, Option.isSome_some, and_self]

theorem passed_evolve (c : Case) (p : WfParts c) (a : Attr) (ha : a ∈ c.base.run.attrs) (hi : a.init = true) :
    passed (params c.base.run.attrs) (evolveCall c.base.run.attrs c.cur c.changes) a.alias = passedFor c a := by
  unfold passed
  rw [posTaken_evolve]
  simp only [List.map_nil, List.zip_nil_left, lookup]
  exact (lookup_evolve_kw c p a ha hi).1

/-- **the call binds iff every change names the alias of an init field** -/
theorem callOk_evolve (c : Case) (p : WfParts c) :
    callOk (params c.base.run.attrs) (evolveCall c.base.run.attrs c.cur c.changes) =
      c.changes.all (fun kv => (c.base.run.attrs.filter (·.init)).any (·.alias == kv.1)) := by
  have h2 : (rest c.base.run.attrs c.cur c.changes).all
      (fun kv => (params c.base.run.attrs).any (·.name == kv.1)) = true := by
    rw [List.all_eq_true]
    intro kv hkv
    obtain ⟨a, ha, hi, hk, _, _⟩ := mem_rest _ _ _ kv hkv
    rw [params_any, List.any_eq_true]
    exact ⟨a, List.mem_filter.2 ⟨ha, hi⟩, by simp [hk]⟩
  have h4 : (params c.base.run.attrs).all (fun q => q.dflt.isSome ||
      supplied (params c.base.run.attrs) (evolveCall c.base.run.attrs c.cur c.changes) q) = true := by
    rw [List.all_eq_true]
    intro q hq
    obtain ⟨a, ha, hi, rfl⟩ := mem_params _ q hq
    have hs : supplied (params c.base.run.attrs) (evolveCall c.base.run.attrs c.cur c.changes) (paramOf a) = true := by
      unfold supplied
      rw [posTaken_evolve]
      simp only [List.any_nil, Bool.false_or]
      have := lookup_evolve_kw c p a ha hi
      rw [← this.1, lookup_isSome_eq_any] at this
      exact this.2
    simp [hs]
  unfold callOk
  rw [posTaken_evolve, h4, evolveCall_kw, List.all_append, h2]
  simp [params_any, evolveCall_pos]

/-- the initializer's expected value under evolve's call, in evolve's own terms -/
theorem expected_evolve (c : Case) (p : WfParts c) (a : Attr) (ha : a ∈ c.base.run.attrs) :
    C01.expectedValue c.base.run.attrs (evolveCall c.base.run.attrs c.cur c.changes) a =
      (if a.init then (passedFor c a).map (convApply a)
       else match a.dflt with
         | .none => none
         | .value => some (convApply a (dfltVal a))
         | .factory ts => some (convApply a (factoryVal a ts))) := by
  unfold C01.expectedValue C01.rawOf participates
  cases hi : a.init with
  | true =>
    obtain ⟨v, hv⟩ := Option.isSome_iff_exists.1 (lookup_evolve_kw c p a ha hi).2
    simp [passed_evolve c p a ha hi, hv]
  | false => cases hd : a.dflt <;> simp

/-! ### assoc -/

theorem any_cur_eq (c : Case) (p : WfParts c) (k : String) :
    c.cur.any (·.1 == k) = c.base.run.attrs.any (·.name == k) := by
  have h1 : c.cur.any (·.1 == k) = (c.cur.map (·.1)).any (· == k) := by rw [List.any_map]; rfl
  have h2 : c.base.run.attrs.any (·.name == k) = (c.base.run.attrs.map (·.name)).any (· == k) := by
    rw [List.any_map]; rfl
  rw [h1, h2, p.names]

theorem assocValues_eq (cur : List (String × Option Val)) (changes : List (String × Val)) :
    assocValues cur changes =
      cur.map (fun kv => (kv.1, match lookup kv.1 changes with | some w => some w | none => kv.2)) := by
  unfold assocValues
  apply List.map_congr_left
  intro kv _
  obtain ⟨n, v⟩ := kv
  rfl

/-! ### which object a field holds -/

theorem zip_map_filterMap {α β γ : Type} (l : List α) (f : α → β) (h : α × β → Option γ) :
    (l.zip (l.map f)).filterMap h = l.filterMap (fun a => h (a, f a)) := by
  induction l with
  | nil => rfl
  | cons a l ih => simp only [List.map_cons, List.zip_cons_cons, List.filterMap_cons, ih]

theorem identOf_some (changed : Bool) (v : Val) :
    identOf changed false (some v) = identDemand changed := by
  cases changed <;> rfl

theorem known_nil (c : Case) (hk : known c = []) :
    C01.known c.base = [] ∧ (c.op = .evolve → cacheMisplaced c.base.run = false) := by
  unfold known at hk
  obtain ⟨h1, h2⟩ := List.append_eq_nil_iff.1 hk
  refine ⟨h1, ?_⟩
  intro hop
  cases hm : cacheMisplaced c.base.run
  · rfl
  · simp [hm, hop] at h2

/-! ### assoc's loop over the names -/

theorem assocLoop_all_fields (isField : String → Bool) (l : List (String × Val))
    (h : l.all (fun kv => isField kv.1) = true) : assocLoop isField l = none := by
  induction l with
  | nil => rfl
  | cons kv l ih =>
    simp only [List.all_cons, Bool.and_eq_true] at h
    simp only [assocLoop, h.1, if_true]
    exact ih h.2

/-- the first name that is no field raises AttrsAttributeNotFoundError -/
theorem assocLoop_notFound (isField : String → Bool) (l : List (String × Val))
    (hbad : l.all (fun kv => isField kv.1) = false) :
    assocLoop isField l = some .notFound := by
  induction l with
  | nil => simp at hbad
  | cons kv l ih =>
    simp only [List.all_cons, Bool.and_eq_false_iff] at hbad
    cases hf : isField kv.1 with
    | true =>
      simp only [assocLoop, hf, if_true]
      rcases hbad with h | h
      · rw [hf] at h; cases h
      · exact ih h
    | false => simp only [assocLoop, hf, Bool.false_eq_true, if_false]

/-! ### validators whose verdict depends on the instance -/

theorem setFault_none (k : Init.Case) (h : k.run.fault = none) :
    ({ k with run := { k.run with fault := none } } : Init.Case) = k := by
  obtain ⟨run, call, d, s⟩ := k
  obtain ⟨cfg, attrs, own, bases, cis, fault⟩ := run
  simp only at h
  subst h
  rfl

/-- the rejecting validator is one of the initializer's validator calls -/
theorem vetoFault_mem (r : RunIn) (veto : List Veto) (vals : List (String × Option Val)) (f : EventId)
    (h : vetoFault r veto vals = some f) :
    r.cfg.runValidators = true ∧ ∃ a ∈ r.attrs.filter participates, ∃ i, i < a.validators ∧
      f = { kind := "validator", field := a.name, idx := i } := by
  unfold vetoFault at h
  split at h
  · rename_i hr
    refine ⟨hr, ?_⟩
    cases hf : (validatorIds r.attrs).find? (fun ni => vetoFires veto vals ni.1 ni.2) with
    | none => simp [hf] at h
    | some ni =>
      simp only [hf, Option.map_some, Option.some.injEq] at h
      have hm := List.mem_of_find?_eq_some hf
      unfold validatorIds at hm
      obtain ⟨a, ha, hmi⟩ := List.mem_flatMap.1 hm
      obtain ⟨i, hi, rfl⟩ := List.mem_map.1 hmi
      exact ⟨a, ha, i, List.mem_range.1 hi, h.symm⟩
  · cases h

theorem vetoFault_isSome (r : RunIn) (veto : List Veto) (vals : List (String × Option Val)) :
    (vetoFault r veto vals).isSome =
      (r.cfg.runValidators && (validatorIds r.attrs).any (fun ni => vetoFires veto vals ni.1 ni.2)) := by
  unfold vetoFault
  cases hr : r.cfg.runValidators with
  | false => simp
  | true =>
    simp only [if_true, Option.isSome_map, Bool.true_and]
    rw [Bool.eq_iff_iff]
    simp only [List.find?_isSome, List.any_eq_true]

/-- a validator call of the initializer is part of its fault-free trace -/
theorem hits_validator (r : RunIn) (call : Call) (a : Attr) (ha : a ∈ r.attrs.filter participates) (i : Nat)
    (hi : i < a.validators) (hr : r.cfg.runValidators = true) :
    C02.hits (some { kind := "validator", field := a.name, idx := i }) (C02.expectedTrace r call) = true := by
  unfold C02.hits C02.expectedTrace
  simp only [hr, if_true, List.any_append, Bool.or_eq_true]
  refine Or.inl (Or.inr ?_)
  unfold C02.validatorEventsOf
  rw [List.any_eq_true]
  refine ⟨C02.ev "validator" a.name i ["self", "attr." ++ a.name, convApply a (C01.rawOf r.attrs call a)], ?_, ?_⟩
  · exact List.mem_flatMap.2 ⟨a, ha, List.mem_map.2 ⟨i, List.mem_range.2 hi, rfl⟩⟩
  · simp [C02.ev]

/-- the fault-free run of the initializer on evolve's call, when every change names an init alias: it returns,
    and stores exactly the declared values -/
theorem runInit_evolve (c : Case) (p : WfParts c) (hk : C01.known c.base = [])
    (hall : c.changes.all (fun kv => (c.base.run.attrs.filter (·.init)).any (·.alias == kv.1)) = true) :
    (runInit (evolveCase c)).exc = none ∧ (runInit (evolveCase c)).values = expectedValues c := by
  have hok : callOk (params (evolveCase c).run.attrs) (evolveCase c).call = true := by
    rw [← hall]; exact callOk_evolve c p
  obtain ⟨e, v⟩ := C01.C01_values (evolveCase c) (wf_evolveCase c p) hk hok
  refine ⟨e, ?_⟩
  rw [v]
  unfold expectedValues
  apply List.map_congr_left
  intro a ha
  rw [show (evolveCase c).call = evolveCall c.base.run.attrs c.cur c.changes from rfl]
  exact congrArg (Prod.mk a.name) (expected_evolve c p a ha)

/-- the model's first rejecting validator exists iff the declarative `vetoed` says so -/
theorem vetoFault_evolve (c : Case) (p : WfParts c) (hk : C01.known c.base = [])
    (hall : c.changes.all (fun kv => (c.base.run.attrs.filter (·.init)).any (·.alias == kv.1)) = true) :
    (vetoFault (evolveCase c).run c.veto (runInit (evolveCase c)).values).isSome = vetoed c := by
  rw [vetoFault_isSome, (runInit_evolve c p hk hall).2]
  rfl

theorem evolveCase_fault (c : Case) (p : WfParts c) : (evolveCase c).run.fault = none := by
  have hb := p.base
  unfold C01.wf at hb
  simp only [Bool.and_eq_true, eff_fault] at hb
  show c.base.run.fault = none
  simpa using hb.1.1.1.1.1.1.1

/-- the run in which a validator call raises: the validator's exception comes out -/
theorem runInit_withFault (c : Case) (p : WfParts c) (hk : C01.known c.base = [])
    (hall : c.changes.all (fun kv => (c.base.run.attrs.filter (·.init)).any (·.alias == kv.1)) = true)
    (f : EventId) (hf : vetoFault (evolveCase c).run c.veto (runInit (evolveCase c)).values = some f) :
    (runInit (withFault (evolveCase c) f)).exc = some .user ∧
    (runInit (withFault (evolveCase c) f)).trace =
      C02.cutAt (some f) (C02.expectedTrace (evolveCase c).eff (evolveCase c).call) := by
  have hok : callOk (params (evolveCase c).run.attrs) (evolveCase c).call = true := by
    rw [← hall]; exact callOk_evolve c p
  have hwf2 : C02.wf (withFault (evolveCase c) f) = true := by
    unfold C02.wf
    have : ({ withFault (evolveCase c) f with run := { (withFault (evolveCase c) f).run with fault := none } } : Init.Case)
        = evolveCase c := by
      have := setFault_none (evolveCase c) (evolveCase_fault c p)
      simpa [withFault] using this
    rw [this, wf_evolveCase c p]
    simpa [withFault] using hok
  have hk2 : C02.known (withFault (evolveCase c) f) = [] := hk
  obtain ⟨hr, a, ha, i, hi, rfl⟩ := vetoFault_mem _ _ _ f hf
  have hexc := C02.C02_exception_propagates _ hwf2 hk2
  have htr := C02.C02_fault_prefix _ hwf2 hk2
  have heff : (withFault (evolveCase c) { kind := "validator", field := a.name, idx := i }).eff.fault =
      some { kind := "validator", field := a.name, idx := i } := rfl
  have hsame : C02.expectedTrace (withFault (evolveCase c) { kind := "validator", field := a.name, idx := i }).eff
      (withFault (evolveCase c) { kind := "validator", field := a.name, idx := i }).call =
      C02.expectedTrace (evolveCase c).eff (evolveCase c).call := rfl
  rw [heff, hsame] at hexc htr
  refine ⟨?_, htr⟩
  rw [hexc, hits_validator (evolveCase c).eff (evolveCase c).call a ha i hi hr]
  rfl

end Attrs.C12
