/-
  C07 — the MRO collector (`gather, then keep the last of every name`) equals the declarative rule
  (`far to near; a declaration survives iff no nearer class declares the name`), abstractly in the
  blocks each class exposes.
-/
import AttrsModel.Proofs.C07Lists

namespace Attrs.C07

section Abstract
variable (E D : Nat → List Attr) (isA : Nat → Bool)

/-- the collector, read near → far -/
def Rr : List Nat → List Attr
  | [] => []
  | m :: rest => (Rr rest).filter (fun a => !(names (E m)).contains a.name) ++ keepLast (E m)

/-- shadowing fold over declared blocks -/
def Ss : List Nat → List Attr
  | [] => []
  | m :: rest => (Ss rest).filter (fun a => !(names (D m)).contains a.name) ++ D m

/-- every attrs class exposes what it declares; a plain class exposes and declares nothing -/
def Good : List Nat → Prop
  | [] => True
  | m :: rest => (if isA m then E m = D m else (E m = [] ∧ D m = [])) ∧ Good rest

theorem keepLast_flatMap_reverse (ms : List Nat) : keepLast (ms.reverse.flatMap E) = Rr E ms := by
  induction ms with
  | nil => rfl
  | cons m rest ih =>
    rw [List.reverse_cons, List.flatMap_append, keepLast_append]
    simp [Rr, ih]

theorem filter_self_names (l : List Attr) : l.filter (fun a => !(names l).contains a.name) = [] := by
  rw [List.filter_eq_nil_iff]
  intro a ha
  simp [names]
  exact ⟨a, ha, rfl⟩

/-- gather-then-keep-last = shadowing fold, when the exposed blocks are `Good` -/
theorem Rr_eq_Ss (hD : ∀ m, (names (D m)).Nodup) (ms : List Nat) (hG : Good E D isA ms) :
    Rr E ms = Ss D ms := by
  induction ms with
  | nil => rfl
  | cons m rest ih =>
    obtain ⟨h1, h2⟩ := hG
    by_cases hm : isA m = true
    · simp only [hm, if_true] at h1
      simp only [Rr, Ss, h1, ih h2, keepLast_of_nodup (hD m)]
    · simp only [hm] at h1
      simp only [Rr, Ss, h1.1, h1.2, ih h2, keepLast_nil, names_nil, List.append_nil]

end Abstract

end Attrs.C07
