/-
  C04 — the concrete cases used by the witness theorems of the known deviations (they are also the
  `witness` entries of known_findings.d/C04.json and the corpus).
-/
import AttrsModel.Spec.C04Base

namespace Attrs.C04

def cls0 : Cls :=
  { api := .attrS, eq := .unset, cmp := .unset, hash := .unset, unsafeHash := .unset, init := .unset,
    frozen := .unset, slots := .unset, autoDetect := .unset, autoExc := .unset, cacheHash := .unset, getstateSetstate := .unset,
    ownHash := .no, ownEq := false, ownNe := false, ownInit := false, fields := [] }

def fa : Field := { name := "a", eq := .t, hash := none }
def fb : Field := { name := "b", eq := .t, hash := none }

/-- K1: `@attr.s(unsafe_hash=True, cache_hash=True) class C0: a`, `@attr.s(eq=False) class C1(C0): b`;
    `hash(C1(0, 1))` -/
def witnessK1 : Case :=
  { excBase := false, side := [], sideFirst := false,
    chain := [{ cls0 with unsafeHash := .t, cacheHash := .t, fields := [fa] },
              { cls0 with eq := .f, fields := [fb] }],
    eqc := [0, 1, 2], hcode := [0, 1, 2], keyMap := [0, 1, 2],
    insts := [[0, 1]], ops := [.hash 0 [0, 1]] }


/-- K2: `@attr.s(frozen=True, slots=True, cache_hash=True) class C0: a`,
    `@attr.s(cache_hash=True) class C1(C0): b` (frozen by inheritance, dict class); `hash(C1(0, 1))` -/
def witnessK2 : Case :=
  { excBase := false, side := [], sideFirst := false,
    chain := [{ cls0 with frozen := .t, slots := .t, cacheHash := .t, fields := [fa] },
              { cls0 with cacheHash := .t, fields := [fb] }],
    eqc := [0, 1, 2], hcode := [0, 1, 2], keyMap := [0, 1, 2],
    insts := [[0, 1]], ops := [.hash 0 [0, 1]] }


/-- K5: `x = C(0); hash(x); y = copy.copy(x); y.a = 1; hash(y)` on a dict cache_hash class -/
def witnessK5 : Case :=
  { excBase := false, side := [], sideFirst := false,
    chain := [{ cls0 with unsafeHash := .t, cacheHash := .t, fields := [fa] }],
    eqc := [0, 1, 2], hcode := [0, 1, 2], keyMap := [0, 1, 2],
    insts := [[0]], ops := [.hash 0 [0], .copy 0, .set 1 0 1, .hash 1 [1]] }


/-- a healthy caching class: `@attr.s(unsafe_hash=True, cache_hash=True) class C0: a`;
    `x = C0(0); hash(x); hash(x)` -/
def witnessOk : Case :=
  { excBase := false, side := [], sideFirst := false,
    chain := [{ cls0 with unsafeHash := .t, cacheHash := .t, fields := [fa] }],
    eqc := [0, 1, 2], hcode := [0, 1, 2], keyMap := [0, 1, 2],
    insts := [[0]], ops := [.hash 0 [0], .hash 0 [1]] }

/-- `@attr.s(frozen=True) class S0: pass`, `class S1: pass`, `@attr.s class C0(S1, S0): pass` — the frozen
    base is listed second, behind a plain mixin -/
def witnessMI : Case :=
  { excBase := false,
    side := [{ cls := { cls0 with api := .plain }, via := none, plainAbove := false },
             { cls := { cls0 with frozen := .t }, via := none, plainAbove := false }],
    sideFirst := true,
    chain := [cls0],
    eqc := [0, 1, 2], hcode := [0, 1, 2], keyMap := [0, 1, 2], insts := [], ops := [] }

end Attrs.C04
