/-
  C08 — the model of the slotted build satisfies the declarative specification (struct cases).
-/
import AttrsModel.Proofs.C08Calls
import AttrsModel.Proofs.C08Cached

namespace Attrs.C08

theorem lookupS_map_keys {β γ : Type} (body : List (String × β)) (g : String → β → γ)
    (hn : (body.map (·.1)).Nodup) (k : String) (b : β) (hm : (k, b) ∈ body) :
    lookupS k (body.map (fun kv => (kv.1, g kv.1 kv.2))) = some (g k b) := by
  induction body with
  | nil => cases hm
  | cons kv rest ih =>
    obtain ⟨k0, v0⟩ := kv
    have hn' : (∀ (x : β), ¬(k0, x) ∈ rest) ∧ (rest.map (·.1)).Nodup := by simpa using hn
    rcases List.mem_cons.1 hm with h | h
    · cases h; simp [lookupS]
    · have : k0 ≠ k := fun e => hn'.1 b (e ▸ h)
      simp [lookupS, this, ih hn'.2 h]

theorem lookupS_map_self {γ : Type} (l : List String) (g : String → γ) (k : String) (hm : k ∈ l) :
    lookupS k (l.map (fun n => (n, g n))) = some (g k) := by
  induction l with
  | nil => cases hm
  | cons n rest ih =>
    by_cases h : n = k
    · subst h; simp [lookupS]
    · rcases List.mem_cons.1 hm with h' | h'
      · exact absurd h'.symm h
      · simp [lookupS, h, ih h']

theorem lookupN_rewrite (r : Nat → Bool) (cells : List (Nat × CellVal)) (i : Nat) :
    lookupN i (cells.map (fun iv => (iv.1, rewrite (r iv.1) iv.2))) = (lookupN i cells).map (rewrite (r i)) := by
  induction cells with
  | nil => rfl
  | cons jw rest ih =>
    obtain ⟨j, w⟩ := jw
    by_cases h : j = i
    · subst h; simp [lookupN]
    · simp [lookupN, h, ih]

theorem lookupN_finalCells (c : Case) (i : Nat) :
    lookupN i (finalCells c) =
      (lookupN i c.cells).map (rewrite ((reachedCells c).contains (.user i))) :=
  lookupN_rewrite (fun j => (reachedCells c).contains (.user j)) c.cells i

theorem keepKey_intro (c : Case) (k : String) (h1 : (attrNames c).contains k = false) (h2 : k ≠ "__dict__")
    (h3 : k ≠ "__weakref__") : keepKey c k = true := by
  unfold keepKey
  rw [h1]
  simp [h2, h3]

/-! ### the conjuncts of `spec` -/

theorem spec_keys (c : Case) (hb : WFBody c) :
    c.body.all (fun kv => !protectedKey c kv.1 kv.2 || lookupS kv.1 (model c).keys == some .same) = true := by
  apply List.all_eq_true.2
  intro kv hkv
  obtain ⟨k, it⟩ := kv
  cases hp : protectedKey c k it with
  | false => rfl
  | true =>
    unfold protectedKey at hp
    simp only [Bool.and_eq_true, Bool.not_eq_true', notField] at hp
    obtain ⟨⟨⟨hnf, hlay⟩, hncp⟩, hga⟩ := hp
    have hlay' : k ≠ "__dict__" ∧ k ≠ "__weakref__" ∧ k ≠ "__slots__" := by
      simp only [List.contains_cons, List.contains_nil, Bool.or_false, Bool.or_eq_false_iff,
        beq_eq_false_iff_ne] at hlay
      exact ⟨hlay.1, hlay.2.1, hlay.2.2⟩
    have hk : keepKey c k = true := keepKey_intro c k hnf hlay'.1 hlay'.2.1
    have hc : ∀ f, it ≠ .cprop f := by
      intro f e; rw [e] at hncp; simp at hncp
    have hg : k = "__getattr__" → (cachedProps c).isEmpty = true := by
      intro e
      cases he : (cachedProps c).isEmpty with
      | true => rfl
      | false =>
        have := bodyCprops_of_cached c he
        rw [e, this] at hga
        simp at hga
    have hkept := kept c hb k it hkv hk hc hlay'.2.2 hg
    have : (model c).keys = c.body.map (fun kv => (kv.1, keyStatus c kv.1 kv.2)) := rfl
    rw [this, lookupS_map_keys c.body (keyStatus c) hb.keysNodup k it hkv]
    unfold keyStatus
    rw [hkept]
    simp

theorem spec_slotCount (c : Case) (hn : WFNames c) (hl : WFLayout c) :
    c.own.all (fun f => lookupS f (model c).slotCount == some 1) = true := by
  apply List.all_eq_true.2
  intro f hf
  have : (model c).slotCount = c.own.map (fun n => (n, slotCountOf c n)) := rfl
  rw [this, lookupS_map_self c.own (slotCountOf c) f hf, slotCount_own c hn hl f hf]
  rfl

theorem spec_setUnknown (c : Case) : ((model c).hasDict || (model c).setUnknown == .attributeError) = true := by
  have h1 : (model c).hasDict = instHasDict c := rfl
  have h2 : (model c).setUnknown =
      if c.setattrMode == .frozen || !instHasDict c then .attributeError else .ok := rfl
  rw [h1, h2]
  cases instHasDict c <;> simp

theorem spec_demanded (c : Case) (hb : WFBody c) :
    (demandedLabels c).all (fun l => (calls c).any (·.1 == l)) = true := by
  apply List.all_eq_true.2
  intro l hl
  unfold demandedLabels at hl
  obtain ⟨kv, hkv, hin⟩ := List.mem_flatMap.1 hl
  obtain ⟨k, it⟩ := kv
  dsimp only at hin
  split at hin
  · rename_i hcond
    simp only [Bool.and_eq_true, bne_iff_ne, notField, Bool.not_eq_true'] at hcond
    obtain ⟨⟨hnf, hd⟩, hw⟩ := hcond
    have hk : keepKey c k = true := keepKey_intro c k hnf hd hw
    obtain ⟨lf, hlf, e⟩ := List.mem_map.1 hin
    obtain ⟨hdp, hu⟩ := List.mem_filter.1 hlf
    obtain ⟨l', f⟩ := lf
    cases e
    have hparts : (l', f) ∈ itemParts k it := by
      unfold demandedParts at hdp
      cases it <;> first | exact hdp | cases hdp
    have hreach : reachable c k it = true := by
      unfold reachable
      rw [hk]
      simp only [Bool.true_and, Bool.or_eq_true, beq_iff_eq, Bool.and_eq_true, Bool.not_eq_true']
      by_cases hcp : ∃ g, it = .cprop g
      · obtain ⟨g, rfl⟩ := hcp
        exact Or.inl (Or.inr rfl)
      · by_cases hga : k = "__getattr__" ∧ (cachedProps c).isEmpty = false
        · exact Or.inr hga
        · refine Or.inl (Or.inl ?_)
          have hs : k ≠ "__slots__" := by
            intro e
            have := hb.layoutPlain (k, it) hkv (by rw [e]; rfl)
            dsimp only at this
            rw [this] at hparts
            simp [itemParts] at hparts
          apply kept c hb k it hkv hk (fun g e => hcp ⟨g, e⟩) hs
          intro e
          cases he : (cachedProps c).isEmpty with
          | true => rfl
          | false => exact absurd ⟨e, he⟩ hga
    apply List.any_eq_true.2
    refine ⟨(l', seen c f), ?_, by simp⟩
    unfold calls
    apply List.mem_flatMap.2
    refine ⟨(k, it), hkv, ?_⟩
    dsimp only
    rw [hreach]
    simp only [if_true]
    exact List.mem_map.2 ⟨(l', f), List.mem_filter.2 ⟨hparts, hu⟩, rfl⟩
  · cases hin

theorem spec_cells (c : Case) (hw : WFCells c) :
    c.cells.all (fun iv => iv.2 == .old || lookupN iv.1 (model c).cells == some iv.2) = true := by
  apply List.all_eq_true.2
  intro iv hiv
  obtain ⟨i, v⟩ := iv
  have : (model c).cells = finalCells c := rfl
  rw [this, lookupN_finalCells, lookupN_of_mem i c.cells v hw.idsNodup hiv]
  cases v <;> simp [rewrite]

theorem spec_cached (c : Case) :
    (decide (model c).cachedComputes.Nodup &&
     c.accesses.all (fun a => (model c).cachedComputes.contains a) &&
     (model c).cachedComputes.all (fun a => c.accesses.contains a) &&
     ((model c).cachedReturns == c.accesses.map (fun a => token a 1))) = true := by
  obtain ⟨h1, h2, h3⟩ := runAccesses_spec c.accesses { stored := [], log := [] } cinv_init
  have e1 : (model c).cachedComputes = (runAccesses c.accesses { stored := [], log := [] }).1.log := rfl
  have e2 : (model c).cachedReturns = (runAccesses c.accesses { stored := [], log := [] }).2 := rfl
  rw [e1, e2, h2]
  simp only [Bool.and_eq_true, decide_eq_true_eq, List.all_eq_true, beq_self_eq_true, and_true]
  refine ⟨⟨h1.nodup, ?_⟩, ?_⟩
  · intro a ha
    have := (h3 a).2 (Or.inr ha)
    simpa using this
  · intro a ha
    rcases (h3 a).1 ha with h | h
    · cases h
    · simpa using h

theorem has_isub (c : Case) (hn : WFNames c) (hb : WFBody c) :
    Dict.has (newDict c) "__attrs_init_subclass__" = c.body.any (·.1 == "__attrs_init_subclass__") := by
  have hkk : keepKey c "__attrs_init_subclass__" = true := by
    unfold keepKey
    rw [special_not_attr c hn _ (by decide)]
    decide
  cases ha : c.body.any (·.1 == "__attrs_init_subclass__") with
  | true =>
    obtain ⟨kv, hkv, hk⟩ := List.any_eq_true.1 ha
    obtain ⟨k, it⟩ := kv
    have hk' : k = "__attrs_init_subclass__" := by simpa using hk
    subst hk'
    have hc : ∀ f, it ≠ .cprop f := by
      intro f e
      have := hb.specialNotCprop (_, it) hkv rfl
      rw [e] at this; cases this
    have := kept c hb _ it hkv hkk hc (by decide) (by intro e; exact absurd e (by decide))
    unfold Dict.has
    rw [this]; rfl
  | false =>
    have hnot : ∀ kv ∈ c.body, kv.1 ≠ "__attrs_init_subclass__" := by
      intro kv hkv e
      have := List.any_eq_false.1 ha kv hkv
      simp [e] at this
    have hnc : "__attrs_init_subclass__" ∉ cpropNames c := by
      intro h
      obtain ⟨f, hf, _⟩ := mem_cpropNames c _ h
      exact hnot _ hf rfl
    have h5 : "__attrs_init_subclass__" ∉ slotNames0 c := keep_not_slotName0 c _ hkk hnc
    unfold Dict.has
    rw [get_newDict_untouched c _ (by decide) (by intro e; exact absurd e (by decide)) hnc
      (by intro e; exact absurd e (by decide)) h5 (by decide) (by decide) (by decide), get_cd0, hkk]
    simp only [if_true]
    unfold clsDict
    rw [get_append, get_map_orig_none c.body _ hnot]
    cases c.setattrMode <;> rfl

theorem spec_isub (c : Case) (hn : WFNames c) (hb : WFBody c) :
    (model c).initSubclass =
      (if c.mro.any (·.initSubclass) && !c.body.any (·.1 == "__attrs_init_subclass__") then [.new] else []) := by
  have : (model c).initSubclass = initSubclassCalls c := rfl
  rw [this]
  unfold initSubclassCalls
  rw [has_isub c hn hb]

theorem known_nil (c : Case) (h : known c = []) : resetDiffers c = false := by
  unfold known at h
  cases h3 : resetDiffers c <;> simp_all

/-- the model satisfies the declarative specification on every well-formed struct case outside the listed
    known findings -/
theorem struct_meets_spec (c : Case) (hwf : wf c = true) (hk : known c = []) : spec c (model c) = true := by
  have hn := wf_names c hwf
  have hb := wf_body c hwf
  have hl := wf_layout c hwf
  have hw := wf_cells c hwf
  have k3 := known_nil c hk
  have hreset : (model c).setattrReset = dictReset c := by
    unfold resetDiffers at k3
    simpa using k3
  have hcached := spec_cached c
  simp only [Bool.and_eq_true] at hcached
  have hmi : (model c).initSubclass = initSubclassCalls c := rfl
  have hmh : (model c).hookCalls = hookCalls c := rfl
  unfold spec
  simp only [Bool.and_eq_true]
  refine ⟨⟨⟨⟨⟨⟨⟨⟨⟨⟨⟨⟨⟨⟨⟨⟨⟨⟨⟨⟨⟨spec_keys c hb, spec_slotCount c hn hl⟩, ?_⟩, ?_⟩, ?_⟩, spec_setUnknown c⟩, rfl⟩,
    spec_demanded c hb⟩, calls_all_new c hb hw⟩, spec_cells c hw⟩, hcached.1.1.1⟩, hcached.1.1.2⟩,
    hcached.1.2⟩, hcached.2⟩, ?_⟩, ?_⟩, ?_⟩, ?_⟩, ?_⟩, ?_⟩, ?_⟩, ?_⟩
  · have : (model c).hasDict = instHasDict c := rfl
    rw [this, hasDict_iff c hn hb]; simp
  · have : (model c).weakrefable = instWeakrefable c := rfl
    rw [this, weakrefable_iff c hn hb hl]; simp
  · rw [getUnknown_ok c hn hb]; rfl
  · have := spec_isub c hn hb
    simp only [Bool.and_eq_true] at this
    rw [this]; simp
  · rw [hreset]; simp
  · have : (model c).assignAgree = ((model c).setattrReset == dictReset c) := rfl
    rw [this, hreset]; simp
  · rfl
  · rw [hmh]
    unfold hookCalls
    split
    · rfl
    · exact calls_all_new c hb hw
  · rw [hmi, hmh]
    unfold hookCalls
    cases he : (initSubclassCalls c).isEmpty with
    | true => simp
    | false =>
      simp only [Bool.false_eq_true, if_false, Bool.false_or]
      exact spec_demanded c hb
  · rfl
  · rfl

end Attrs.C08
