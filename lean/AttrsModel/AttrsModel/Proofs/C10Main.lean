/-
  C10 — assembly: the model's observation of a well-formed case outside the known findings.
-/
import AttrsModel.Proofs.C10Obs

namespace Attrs.C10

theorem known_nil {c : Case} (h : known c = []) (hl : isLegacy c.op = false) :
    k1 (summarize (fullChain c)) = false ∧ k2 (summarize (fullChain c)) = false ∧
    k5 (summarize (fullChain c)) c = false ∧ optOutLoses (summarize (fullChain c)) = false ∧
    dfltFails (summarize (fullChain c)) c = false ∧
    k10d (summarize (fullChain c)) c = false ∧ k10e (summarize (fullChain c)) c = false := by
  unfold known at h
  simp only [hl, Bool.false_eq_true, if_false] at h
  generalize k1 (summarize (fullChain c)) = a1 at *
  generalize k2 (summarize (fullChain c)) = a2 at *
  generalize k5 (summarize (fullChain c)) c = a5 at *
  generalize optOutLoses (summarize (fullChain c)) = a4 at *
  generalize dfltFails (summarize (fullChain c)) c = d at *
  generalize optedOut c = o at *
  generalize k10d (summarize (fullChain c)) c = ad at *
  generalize k10e (summarize (fullChain c)) c = ae at *
  cases a1 <;> cases a2 <;> cases a4 <;> cases a5 <;> cases d <;> cases o <;> cases ad <;> cases ae <;> simp at h ⊢

/-- after the repair an attrs class resolves a pair generated for a base only by opting out itself, so outside
    the opt-out finding the resolved pair covers every field and the hash cache -/
theorem inh_false {s : Summary} (I : Inv s) (hla : s.lastAttrs = true) (h : optOutLoses s = false) :
    inhLosesFields s = false ∧ inhLosesCache s = false := by
  cases hg : s.gs with
  | dflt => simp [inhLosesFields, inhLosesCache, hg]
  | user => simp [inhLosesFields, inhLosesCache, hg]
  | gen ns ch ow =>
    cases ow with
    | true => simp [inhLosesFields, inhLosesCache, hg]
    | false =>
      have := I.gsInherited hla _ _ hg
      unfold optOutLoses at h
      rw [this] at h
      simpa using h

/-- everything the theorems need about one non-legacy case -/
structure Run (c : Case) (x f y : Inst) : Prop where
  model : model c = observeCopy (summarize (fullChain c)) c x f y
  trip : roundtrip (summarize (fullChain c)) c.op x = .ok y
  ok : TripOK (summarize (fullChain c)) c.op x y
  hx : ∀ n ∈ (summarize (fullChain c)).names, read (summarize (fullChain c)).layout x n = some (.tok (cur c n))
  hf : ∀ n ∈ (summarize (fullChain c)).names, read (summarize (fullChain c)).layout f n = some (.tok (cur c n))

theorem run_of_wf {c : Case} (hwf : wf c = true) (hk : known c = []) (hl : isLegacy c.op = false)
    (hne : c.exc = false) :
    ∃ i0 x f y, Wf (summarize (fullChain c)) c i0 ∧ Run c x f y ∧
      read (summarize (fullChain c)).layout x CACHE = read (summarize (fullChain c)).layout
        (if c.hashedBefore then (doHash (summarize (fullChain c)) i0).inst else i0) CACHE ∧
      read (summarize (fullChain c)).layout f CACHE = read (summarize (fullChain c)).layout i0 CACHE := by
  obtain ⟨i0, W⟩ := wf_unpack hwf
  have I := inv_summarize (fullChain c)
  obtain ⟨_, _, _, hoo, hdf, _, _⟩ := known_nil hk hl
  have hk4 := (inh_false I W.lastAttrs hoo).1
  obtain ⟨x, hxe, hx, hcx⟩ := history_spec I W c.hashedBefore
  obtain ⟨f, hfe, hf, hcf⟩ := history_spec I W false
  have hd : (summarize (fullChain c)).gs = .dflt →
      (isLow c.op && refuses01 (summarize (fullChain c))) = false ∧
      ((summarize (fullChain c)).frozen && anySlotSet (summarize (fullChain c)).layout x) = false := by
    intro hg
    unfold dfltFails at hdf
    rw [hg, hxe, hne] at hdf
    simp only [beq_self_eq_true, Bool.true_and, Bool.or_eq_false_iff, Bool.not_false] at hdf
    exact hdf
  obtain ⟨y, hy, T⟩ := roundtrip_ok I W.ok hx hk4 hd
  refine ⟨i0, x, f, y, W, ⟨?_, hy, T, hx, hf⟩, hcx, by simpa using hcf⟩
  unfold model
  simp only [hxe, hfe, hne, Bool.false_eq_true, if_false]
  cases hop : c.op with
  | legacy len => rw [hop] at hl; simp [isLegacy] at hl
  | copy => simp only; rw [hop] at hy; rw [hy]
  | deepcopy => simp only; rw [hop] at hy; rw [hy]
  | pickle p => simp only; rw [hop] at hy; rw [hy]

/-- the specification of a non-legacy operation, as one conjunction -/
def specRT (c : Case) (o : Obs) : Bool :=
  o.exc == Option.none && o.distinct && o.sameClass &&
  o.fields == (summarize (fullChain c)).names.map (fun n => (n, some (cur c n))) &&
  ((summarize (fullChain c)).eq.isNone || o.eqOrig == .T) &&
  (!hashGenerated (summarize (fullChain c)) ||
    (o.hashCopy == .ok && o.hashEqFresh && ((c.hashedBefore && c.mutate.isSome) || o.hashEqOrig))) &&
  (c.op == .copy || o.cacheAfter != .carried)

theorem spec_nonlegacy (c : Case) (o : Obs) (hl : isLegacy c.op = false) : spec c o = specRT c o := by
  unfold spec specRT
  cases hop : c.op with
  | legacy len => rw [hop] at hl; simp [isLegacy] at hl
  | copy => rfl
  | deepcopy => rfl
  | pickle p => rfl

theorem chain_no_slots (chain : List Cls) (s : Summary) (h : chain.all (fun k => !k.slots) = true)
    (hs : s.slotsAttr = none ∧ s.slotNames = []) :
    (chain.foldl step s).slotsAttr = none ∧ (chain.foldl step s).slotNames = [] := by
  induction chain generalizing s with
  | nil => exact hs
  | cons k r ih =>
    simp only [List.all_cons, Bool.and_eq_true, Bool.not_eq_true'] at h
    apply ih _ (by simpa using h.2)
    simp [step, slotDecl, h.1, hs.1, hs.2]


end Attrs.C10
