/-
  C07 — lemmas for the named property theorems: once-per-name for both collectors, nearest-wins.
-/
import AttrsModel.Proofs.C07Final

namespace Attrs.C07

/-! ### both collectors: names distinct and disjoint from the class's own names -/

theorem collectMro_not_taken (M : Mros) (tbl : Table) (taken : List String) (ms : List Nat) :
    ∀ a ∈ collectMro M tbl taken ms, a.name ∉ taken := by
  intro a ha
  have := mem_of_mem_keepLast ha
  simp only [mroGather, List.mem_flatMap, expose, List.mem_map, List.mem_filter] at this
  obtain ⟨_, _, b, ⟨_, hb⟩, rfl⟩ := this
  simp only [Bool.not_eq_true', Bool.or_eq_false_iff] at hb
  simpa using hb.2

theorem collectMro_nodup (M : Mros) (tbl : Table) (taken : List String) (ms : List Nat) :
    (names (collectMro M tbl taken ms)).Nodup := keepLast_nodup _

/-- invariant of the legacy walk: what has been collected is duplicate-free, is recorded in `taken`, and
    avoids the names that were taken at the start -/
structure LegInv (taken0 taken : List String) (acc : List Attr) : Prop where
  nodup : (names acc).Nodup
  sub : ∀ n ∈ names acc, n ∈ taken
  mono : ∀ n ∈ taken0, n ∈ taken
  avoid : ∀ n ∈ names acc, n ∉ taken0

theorem legacyInner_inv (taken0 : List String) (l : List Attr) (taken : List String) (acc : List Attr)
    (h : LegInv taken0 taken acc) :
    LegInv taken0 (legacyInner l taken acc).2 (legacyInner l taken acc).1 := by
  induction l generalizing taken acc with
  | nil => simpa [legacyInner] using h
  | cons x l ih =>
    simp only [legacyInner]
    by_cases hx : taken.contains x.name = true
    · simp only [hx, if_true]; exact ih _ _ h
    · simp only [hx]
      apply ih
      have hx' : x.name ∉ taken := by simpa using hx
      refine ⟨?_, ?_, ?_, ?_⟩
      · rw [names_append, List.nodup_append]
        refine ⟨h.nodup, by simp [names], ?_⟩
        intro a ha b hb
        simp only [names_cons, inherit_name, names_nil, List.mem_singleton] at hb
        subst hb
        intro hab; subst hab
        exact hx' (h.sub _ ha)
      · intro n hn
        simp only [names_append, names_cons, inherit_name, names_nil, List.mem_append, List.mem_singleton] at hn
        rcases hn with hn | rfl
        · exact List.mem_cons_of_mem _ (h.sub n hn)
        · exact List.mem_cons_self
      · intro n hn; exact List.mem_cons_of_mem _ (h.mono n hn)
      · intro n hn
        simp only [names_append, names_cons, inherit_name, names_nil, List.mem_append, List.mem_singleton] at hn
        rcases hn with hn | rfl
        · exact h.avoid n hn
        · intro hmem; exact hx' (h.mono _ hmem)

theorem legacyOuter_inv (M : Mros) (tbl : Table) (taken0 : List String) (bs : List Nat) (taken : List String)
    (acc : List Attr) (h : LegInv taken0 taken acc) :
    (names (legacyOuter M tbl bs taken acc)).Nodup ∧ ∀ n ∈ names (legacyOuter M tbl bs taken acc), n ∉ taken0 := by
  induction bs generalizing taken acc with
  | nil => exact ⟨h.nodup, h.avoid⟩
  | cons b bs ih =>
    simp only [legacyOuter]
    exact ih _ _ (legacyInner_inv taken0 _ _ _ h)

theorem collectLegacy_nodup (M : Mros) (tbl : Table) (taken : List String) (ms : List Nat) :
    (names (collectLegacy M tbl taken ms)).Nodup ∧ ∀ n ∈ names (collectLegacy M tbl taken ms), n ∉ taken :=
  legacyOuter_inv M tbl taken ms taken [] ⟨by simp, by simp, fun _ h => h, by simp⟩

/-- the collected block, whichever collector -/
def baseOf (M : Mros) (tbl : Table) (c : Cls) (byMro : Bool) (own : List Attr) : List Attr :=
  if byMro then collectMro M tbl (own.map (·.name)) c.mro.tail
  else collectLegacy M tbl (own.map (·.name)) c.mro.tail

theorem preList_eq (M : Mros) (tbl : Table) (c : Cls) (byMro : Bool) (own : List Attr) :
    preList M tbl c byMro own = kwIf c.kwOnly (baseOf M tbl c byMro own) ++ kwIf c.kwOnly own := by
  unfold preList baseOf kwIf
  cases byMro <;> rfl

theorem baseOf_facts (M : Mros) (tbl : Table) (c : Cls) (byMro : Bool) (own : List Attr) :
    (names (baseOf M tbl c byMro own)).Nodup ∧
    (∀ n ∈ names (baseOf M tbl c byMro own), n ∉ names own) ∧
    (∀ a ∈ baseOf M tbl c byMro own, a.inherited = true) := by
  unfold baseOf
  cases byMro with
  | true =>
    refine ⟨collectMro_nodup _ _ _ _, ?_, collectMro_inherited _ _ _ _⟩
    intro n hn
    obtain ⟨a, ha, rfl⟩ := mem_names.1 hn
    exact collectMro_not_taken _ _ _ _ a ha
  | false =>
    exact ⟨(collectLegacy_nodup _ _ _ _).1, (collectLegacy_nodup _ _ _ _).2, collectLegacy_inherited _ _ _ _⟩

/-! ### nearest wins, declaratively: the shadowing fold finds a name in the nearest class that declares it -/

theorem find_filter_other (l : List Attr) (n : String) (p : Attr → Bool)
    (hp : ∀ a ∈ l, a.name = n → p a = true) :
    (l.filter p).find? (fun a => a.name == n) = l.find? (fun a => a.name == n) := by
  induction l with
  | nil => rfl
  | cons x l ih =>
    have ih' := ih (fun a ha => hp a (List.mem_cons_of_mem _ ha))
    by_cases hx : x.name = n
    · have := hp x List.mem_cons_self hx
      simp [List.filter_cons, this, List.find?_cons, hx]
    · have hx' : (x.name == n) = false := by simpa using hx
      by_cases hpx : p x = true
      · simp [List.filter_cons, hpx, List.find?_cons, hx', ih']
      · simp [List.filter_cons, hpx, List.find?_cons, hx', ih']

theorem find_none_of_not_mem (l : List Attr) (n : String) (h : n ∉ names l) :
    l.find? (fun a => a.name == n) = none := by
  rw [List.find?_eq_none]
  intro a ha hn
  exact h (mem_names.2 ⟨a, ha, by simpa using hn⟩)

theorem Ss_find (D : Nat → List Attr) (ms : List Nat) (n : String) :
    (Ss D ms).find? (fun a => a.name == n) =
      (ms.find? (fun m => decide (n ∈ names (D m)))).bind (fun m => (D m).find? (fun a => a.name == n)) := by
  induction ms with
  | nil => rfl
  | cons m rest ih =>
    rw [Ss, List.find?_append, List.find?_cons]
    by_cases hm : n ∈ names (D m)
    · have hnone : ((Ss D rest).filter (fun a => !(names (D m)).contains a.name)).find? (fun a => a.name == n) = none := by
        rw [List.find?_eq_none]
        intro a ha hn
        have h1 : a.name = n := by simpa using hn
        have h2 := (List.mem_filter.1 ha).2
        rw [h1] at h2
        simp [hm] at h2
      rw [hnone, decide_eq_true hm]
      rfl
    · have hD : (D m).find? (fun a => a.name == n) = none := find_none_of_not_mem _ _ hm
      rw [find_filter_other _ _ _ (by intro a _ ha; rw [ha]; simp [hm]), hD, decide_eq_false hm, ih]
      simp

end Attrs.C07
