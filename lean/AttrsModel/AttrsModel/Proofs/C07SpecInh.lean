/-
  C07 — the declarative inherited block of the Spec (`specInh`) is the shadowing fold `Ss`.
-/
import AttrsModel.Proofs.C07Collect

namespace Attrs.C07

/-- declared block of class `m` as seen from a class that takes the names `taken` itself -/
def Dspec (cs : List Cls) (taken : List String) (m : Nat) : List Attr :=
  ((specFinalOwn cs m).filter (fun a => !taken.contains a.name)).map inherit

@[simp] theorem inherit_name (a : Attr) : (inherit a).name = a.name := rfl
@[simp] theorem setKw_name (a : Attr) : (setKw a).name = a.name := rfl
@[simp] theorem inherit_inherited (a : Attr) : (inherit a).inherited = true := rfl

theorem names_map_inherit (l : List Attr) : names (l.map inherit) = names l := by
  simp [names, Function.comp_def]

theorem names_map_setKw (l : List Attr) : names (l.map setKw) = names l := by
  simp [names, Function.comp_def]

theorem mem_Dspec_untaken {cs : List Cls} {taken : List String} {m : Nat} {a : Attr}
    (h : a ∈ Dspec cs taken m) : taken.contains a.name = false := by
  simp only [Dspec, List.mem_map, List.mem_filter] at h
  obtain ⟨b, ⟨_, hb⟩, rfl⟩ := h
  simpa using hb

theorem mem_Ss_untaken {cs : List Cls} {taken : List String} (ms : List Nat) {a : Attr}
    (h : a ∈ Ss (Dspec cs taken) ms) : taken.contains a.name = false := by
  induction ms with
  | nil => simp [Ss] at h
  | cons m rest ih =>
    simp only [Ss, List.mem_append, List.mem_filter] at h
    rcases h with h | h
    · exact ih h.1
    · exact mem_Dspec_untaken h

theorem declares_iff_Dspec {cs : List Cls} {taken : List String} {m : Nat} {n : String}
    (hn : taken.contains n = false) :
    declares cs m n = (names (Dspec cs taken m)).contains n := by
  simp only [declares, Dspec, names_map_inherit]
  rw [Bool.eq_iff_iff]
  simp only [List.any_eq_true, List.contains_iff_mem, mem_names, List.mem_filter, beq_iff_eq]
  constructor
  · rintro ⟨a, ha, rfl⟩; exact ⟨a, ⟨ha, by simpa using hn⟩, rfl⟩
  · rintro ⟨a, ⟨ha, _⟩, rfl⟩; exact ⟨a, ha, rfl⟩

theorem specInh_eq_Ss (cs : List Cls) (taken : List String) (nearer ms : List Nat) :
    specInh cs taken nearer ms =
      (Ss (Dspec cs taken) ms).filter (fun a => nearer.all (fun j => !declares cs j a.name)) := by
  induction ms generalizing nearer with
  | nil => simp [specInh, Ss]
  | cons m rest ih =>
    simp only [specInh, Ss, List.filter_append, ih, List.filter_filter]
    congr 1
    · apply List.filter_congr
      intro a ha
      have hu := mem_Ss_untaken rest ha
      simp only [List.all_cons, declares_iff_Dspec hu]
      rw [Bool.and_comm]
    · simp only [Dspec, List.filter_map, List.filter_filter]
      congr 1
      apply List.filter_congr
      intro a _
      simp [Function.comp_def, Bool.and_comm]

theorem specInh_nil_eq_Ss (cs : List Cls) (taken : List String) (ms : List Nat) :
    specInh cs taken [] ms = Ss (Dspec cs taken) ms := by
  rw [specInh_eq_Ss]
  induction (Ss (Dspec cs taken) ms) <;> simp_all

end Attrs.C07
