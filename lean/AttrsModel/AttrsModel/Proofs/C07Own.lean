/-
  C07 — own-field discovery: the counter sort sorts; the decorator's auto_attribs inference and the three
  discovery branches produce the Spec's `specOwn`; names of own fields.
-/
import AttrsModel.Proofs.C07SpecInh

namespace Attrs.C07

/-! ### `sorted(key=counter)` -/

def ctr (i : Item) : Nat := i.val.counter

theorem insertByCounter_perm (x : Item) (l : List Item) : (insertByCounter x l).Perm (x :: l) := by
  induction l with
  | nil => simp [insertByCounter]
  | cons y ys ih =>
    simp only [insertByCounter]
    split
    · exact List.Perm.refl _
    · exact (List.Perm.cons y ih).trans (List.Perm.swap x y ys)

theorem sortByCounter_perm (l : List Item) : (sortByCounter l).Perm l := by
  induction l with
  | nil => simp [sortByCounter]
  | cons x xs ih =>
    simp only [sortByCounter]
    exact (insertByCounter_perm x _).trans (List.Perm.cons x ih)

theorem insertByCounter_sorted (x : Item) (l : List Item) (h : l.Pairwise (fun a b => ctr a ≤ ctr b)) :
    (insertByCounter x l).Pairwise (fun a b => ctr a ≤ ctr b) := by
  induction l with
  | nil => simp [insertByCounter]
  | cons y ys ih =>
    simp only [insertByCounter]
    rw [List.pairwise_cons] at h
    split
    · rename_i hlt
      rw [List.pairwise_cons]
      refine ⟨?_, List.pairwise_cons.2 h⟩
      intro b hb
      rcases List.mem_cons.1 hb with rfl | hb
      · exact Nat.le_of_lt hlt
      · exact Nat.le_trans (Nat.le_of_lt hlt) (h.1 b hb)
    · rename_i hge
      rw [List.pairwise_cons]
      refine ⟨?_, ih h.2⟩
      intro b hb
      rcases List.mem_cons.1 ((insertByCounter_perm x ys).mem_iff.1 hb) with rfl | hb
      · exact Nat.le_of_not_lt hge
      · exact h.1 b hb

theorem sortByCounter_sorted (l : List Item) : (sortByCounter l).Pairwise (fun a b => ctr a ≤ ctr b) := by
  induction l with
  | nil => simp [sortByCounter]
  | cons x xs ih => exact insertByCounter_sorted x _ ih

theorem mem_sortByCounter {l : List Item} {a : Item} : a ∈ sortByCounter l ↔ a ∈ l :=
  (sortByCounter_perm l).mem_iff

theorem inj_of_pairwise_lt {s : List Item} (hs : s.Pairwise (fun a b => ctr a < ctr b)) :
    ∀ a b, a ∈ s → b ∈ s → ctr a = ctr b → a = b := by
  induction s with
  | nil => intro a b ha; simp at ha
  | cons x xs ih =>
    intro a b ha hb hab
    rw [List.pairwise_cons] at hs
    rcases List.mem_cons.1 ha with ha' | ha' <;> rcases List.mem_cons.1 hb with hb' | hb'
    · rw [ha', hb']
    · subst ha'; exact absurd hab (Nat.ne_of_lt (hs.1 b hb'))
    · subst hb'; exact absurd hab.symm (Nat.ne_of_lt (hs.1 a ha'))
    · exact ih hs.2 a b ha' hb' hab

/-- a list that is already strictly sorted by counter is what sorting any permutation of it gives -/
theorem sortByCounter_eq_of_perm {l s : List Item} (hp : l.Perm s)
    (hs : s.Pairwise (fun a b => ctr a < ctr b)) : sortByCounter l = s := by
  refine List.Perm.eq_of_pairwise (le := fun a b => ctr a ≤ ctr b) ?_ (sortByCounter_sorted l)
    (hs.imp (fun h => Nat.le_of_lt h)) ((sortByCounter_perm l).trans hp)
  intro a b ha hb h1 h2
  exact inj_of_pairwise_lt hs a b (hp.mem_iff.1 (mem_sortByCounter.1 ha)) hb (Nat.le_antisymm h1 h2)

theorem kind_beq_ad : (Kind.attrS == Kind.define) = false := by decide
theorem kind_beq_dd : (Kind.define == Kind.define) = true := by decide

/-! ### discovery branches vs `specOwn` -/

theorem classVarPrefixes_documented : Generated.classVarPrefixes = documentedClassVarPrefixes := by decide

@[simp] theorem annotatedDoc_eq : annotatedDoc = annotated := by
  funext i
  unfold annotatedDoc annotated isClassVarDoc isClassVar
  rw [classVarPrefixes_documented]
  cases i.ann <;> rfl


theorem filterMap_ite {α β : Type} (p : α → Bool) (f : α → β) (l : List α) :
    l.filterMap (fun i => if p i then some (f i) else none) = (l.filter p).map f := by
  induction l with
  | nil => rfl
  | cons x xs ih =>
    by_cases h : p x = true <;> simp [List.filterMap_cons, List.filter_cons, h, ih]

theorem ownAuto_eq (items : List Item) :
    ownAuto items =
      if items.any (fun i => i.val.isIb && !annotated i) then .error .unannotated
      else .ok (items.filterMap (fun i => if annotated i then some (autoAttr i) else none)) := by
  unfold ownAuto
  rw [filterMap_ite]
  by_cases h : items.any (fun i => i.val.isIb && !annotated i) = true
  · have : (items.filter (fun i => i.val.isIb && !annotated i)).isEmpty = false := by
      rw [List.any_eq_true] at h
      obtain ⟨x, hx, hp⟩ := h
      cases hf : items.filter (fun i => i.val.isIb && !annotated i) with
      | nil =>
        have : x ∈ items.filter (fun i => i.val.isIb && !annotated i) := List.mem_filter.2 ⟨hx, hp⟩
        simp [hf] at this
      | cons _ _ => rfl
    simp [h, this]
  · have hf : items.filter (fun i => i.val.isIb && !annotated i) = [] := by
      rw [List.filter_eq_nil_iff]
      intro a ha hp
      exact h (List.any_eq_true.2 ⟨a, ha, hp⟩)
    simp [h, hf]

/-- `collect_by_mro` in effect: define forces it -/
def byMroEff (c : Cls) : Bool := c.kind == .define || c.collectByMro

theorem finish_err_ne_unannotated (M : Mros) (tbl : Table) (k : Nat) (c : Cls) (b : Bool) (own : List Attr) :
    ((finish M tbl k c b own).err == some ErrKind.unannotated) = false := by
  simp only [finish]
  split <;> simp

/-- what the decorator does, in the Spec's vocabulary: raise the documented error, or finish
    `_transform_attrs` on the declared fields -/
theorem buildClass_eq (M : Mros) (tbl : Table) (k : Nat) (c : Cls) (hk : c.kind ≠ .plain) :
    buildClass M tbl k c =
      if mustRaiseUnannotated c then Built.fail .unannotated
      else finish M tbl k c (byMroEff c) (specOwn c) := by
  cases ht : c.these with
  | some l =>
    have hown : ∀ a, ownAttrs c a = .ok (specOwn c) := by intro a; simp [ownAttrs, specOwn, ht]
    have hta : ∀ a b, transformAttrs M tbl k c a b = finish M tbl k c b (specOwn c) := by
      intro a b; simp [transformAttrs, hown]
    have hm : mustRaiseUnannotated c = false := by simp [mustRaiseUnannotated, ht]
    cases hkind : c.kind with
    | plain => exact absurd hkind hk
    | attrS => simp [buildClass, hkind, hta, hm, byMroEff, kind_beq_ad, kind_beq_dd]
    | define =>
      cases ha : c.autoAttribs <;>
        simp [buildClass, hkind, ha, hta, hm, byMroEff, kind_beq_ad, kind_beq_dd, finish_err_ne_unannotated]
  | none =>
    have hT : ∀ b, transformAttrs M tbl k c true b =
        if hasUnannotated c then Built.fail .unannotated
        else finish M tbl k c b ((c.items.filterMap (fun i => if annotated i then some (autoAttr i) else none))) := by
      intro b
      simp only [transformAttrs, ownAttrs, ht, ownAuto_eq, hasUnannotated, if_true]
      by_cases hu : (c.items.any fun i => i.val.isIb && !annotated i) = true <;> simp [hu]
    have hF : ∀ b, transformAttrs M tbl k c false b = finish M tbl k c b (ownCounter c.items) := by
      intro b; simp [transformAttrs, ownAttrs, ht]
    cases hkind : c.kind with
    | plain => exact absurd hkind hk
    | attrS =>
      cases ha : c.autoAttribs with
      | none => simp [buildClass, hkind, ha, hF, mustRaiseUnannotated, byMroEff, kind_beq_ad, kind_beq_dd, specOwn, ht, specAuto, ownCounter]
      | some b =>
        cases b with
        | false => simp [buildClass, hkind, ha, hF, mustRaiseUnannotated, byMroEff, kind_beq_ad, kind_beq_dd, specOwn, ht, specAuto, ownCounter]
        | true =>
          simp only [buildClass, hkind, ha, hT, mustRaiseUnannotated, byMroEff, kind_beq_ad, kind_beq_dd, specOwn, ht, specAuto,
            beq_self_eq_true, Option.isNone_none, Bool.true_and, Bool.false_or, Bool.true_or]
          by_cases hu : hasUnannotated c = true <;> simp [hu]
    | define =>
      cases ha : c.autoAttribs with
      | none =>
        simp only [buildClass, hkind, ha, hT, hF, mustRaiseUnannotated, byMroEff, kind_beq_ad, kind_beq_dd, specOwn, ht, specAuto]
        by_cases hu : hasUnannotated c = true
        · simp [hu, Built.fail, ownCounter]
        · simp [hu, finish_err_ne_unannotated]
      | some b =>
        cases b with
        | false => simp [buildClass, hkind, ha, hF, mustRaiseUnannotated, byMroEff, kind_beq_ad, kind_beq_dd, specOwn, ht, specAuto, ownCounter]
        | true =>
          simp only [buildClass, hkind, ha, hT, mustRaiseUnannotated, byMroEff, kind_beq_ad, kind_beq_dd, specOwn, ht, specAuto,
            beq_self_eq_true, Option.isNone_none, Bool.true_and, Bool.false_or, Bool.true_or]
          by_cases hu : hasUnannotated c = true <;> simp [hu]

end Attrs.C07
