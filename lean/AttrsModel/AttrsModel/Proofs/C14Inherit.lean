/-
  C14 — names defined by base classes never enter a decision: the model's output depends on the
  base-defined names only through "does the plain class in between define `__setattr__`" (which decides
  whose `__setattr__` the class resolves, i.e. inherited frozen-ness).
-/
import AttrsModel.Model.C14

namespace Attrs.C14

section
variable (c : Case) (l : List String)
  (h : l.contains "__setattr__" = c.baseDefines.contains "__setattr__")
include h

theorem midSetattr_congr : midSetattr { c with baseDefines := l } = midSetattr c := by
  simp only [midSetattr, h]

theorem basesFrozen_congr : basesFrozen { c with baseDefines := l } = basesFrozen c := by
  unfold basesFrozen; rw [midSetattr_congr c l h]

theorem hasFrozenBase_congr : hasFrozenBase { c with baseDefines := l } = hasFrozenBase c := by
  unfold hasFrozenBase; rw [basesFrozen_congr c l h]

theorem isFrozen_congr : isFrozen { c with baseDefines := l } = isFrozen c := by
  unfold isFrozen; rw [hasFrozenBase_congr c l h]; rfl

theorem clsOnSet_congr : clsOnSet { c with baseDefines := l } = clsOnSet c := by
  unfold clsOnSet; rw [basesFrozen_congr c l h]; rfl

theorem builderOnSet_congr : builderOnSet { c with baseDefines := l } = builderOnSet c := by
  unfold builderOnSet clsOnSetV; rw [clsOnSet_congr c l h, isFrozen_congr c l h]

theorem hooks_congr : hooks { c with baseDefines := l } = hooks c := by
  unfold hooks; rw [builderOnSet_congr c l h]; rfl

theorem hashDec_congr : hashDec { c with baseDefines := l } = hashDec c := by
  unfold hashDec; rw [isFrozen_congr c l h]; rfl

theorem firstError_congr : firstError { c with baseDefines := l } = firstError c := by
  unfold firstError
  rw [clsOnSet_congr c l h, isFrozen_congr c l h, hooks_congr c l h, hashDec_congr c l h,
    builderOnSet_congr c l h]
  rfl

theorem decisions_congr : decisions { c with baseDefines := l } = decisions c := by
  unfold decisions
  rw [isFrozen_congr c l h, hooks_congr c l h, hashDec_congr c l h]
  rfl

theorem finalDict_congr : finalDict { c with baseDefines := l } = finalDict c := by
  unfold finalDict
  rw [decisions_congr c l h]
  rfl

theorem model_congr : model { c with baseDefines := l } = model c := by
  unfold model wrapDecide
  rw [firstError_congr c l h, finalDict_congr c l h, decisions_congr c l h]
  rfl

end

end Attrs.C14
