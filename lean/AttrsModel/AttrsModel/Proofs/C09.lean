/-
  C09 — lemmas about the tuple comparison model (`tupleCmp`), its declarative form (`declCmp`),
  converse scripts, strict total orders (abstract and over Nat) and Lean's own lexicographic order.
-/
import AttrsModel.Spec.C09
namespace Attrs.C09

theorem tupleCmp_eq_declCmp (op : Op) (its : List Item) : (tupleCmp op its).1 = declCmp op its := by
  induction its with
  | nil => simp [tupleCmp, declCmp]
  | cons it rest ih =>
    unfold tupleCmp declCmp
    by_cases hs : it.same = true
    · simp only [hs, if_true, List.find?_cons, eqish, Bool.true_or, Bool.not_true]
      rw [ih]; rfl
    · have hs' : it.same = false := by simpa using hs
      by_cases hr : it.s.eq = .raises
      · simp [hs', hr, eqish, Out.isTruthy]
      · by_cases ht : it.s.eq.isTruthy = true
        · simp [hs', hr, ht, eqish, ih, declCmp]
        · have ht' : it.s.eq.isTruthy = false := by simpa using ht
          simp [hs', hr, ht', eqish]

theorem tupleCmp_ne_NI (op : Op) (its : List Item) : (tupleCmp op its).1 ≠ .NI := by
  rw [tupleCmp_eq_declCmp]
  unfold declCmp
  split
  · cases op <;> simp [lenRes]
  · split
    · simp
    · rename_i it _ _
      cases h : it.s.get op <;> simp [Res.ofOut]

/-- the comparisons performed: `==` on every non-identical position up to and including the first
    one that is not equal, then the operator on that one (unless its `==` raised) -/
def declTrace (op : Op) : List Item → List String
  | [] => []
  | it :: rest =>
    if it.same then declTrace op rest
    else if it.s.eq.isTruthy then (it.tag ++ ":eq") :: declTrace op rest
    else if it.s.eq == .raises then [it.tag ++ ":eq"]
    else [it.tag ++ ":eq", it.tag ++ ":ord"]

theorem tupleCmp_trace (op : Op) (its : List Item) : (tupleCmp op its).2 = declTrace op its := by
  induction its with
  | nil => simp [tupleCmp, declTrace]
  | cons it rest ih =>
    unfold tupleCmp declTrace
    by_cases hs : it.same = true
    · simp [hs, ih]
    · have hs' : it.same = false := by simpa using hs
      by_cases hr : it.s.eq = .raises
      · simp [hs', hr, Out.isTruthy]
      · by_cases ht : it.s.eq.isTruthy = true
        · simp [hs', hr, ht, ih]
        · have ht' : it.s.eq.isTruthy = false := by simpa using ht
          simp [hs', hr, ht']

theorem declTrace_allowed (op : Op) (its : List Item) :
    ∀ t ∈ declTrace op its, t ∈ allowedTags its := by
  induction its with
  | nil => simp [declTrace]
  | cons it rest ih =>
    intro t ht
    unfold declTrace at ht
    simp only [allowedTags, List.flatMap_cons, List.mem_append]
    split at ht
    · exact Or.inr (ih t ht)
    · split at ht
      · rcases List.mem_cons.1 ht with h | h
        · left; simp [h]
        · exact Or.inr (ih t h)
      · split at ht
        · left; simp at ht; simp [ht]
        · left; simp at ht; rcases ht with h | h <;> simp [h]

theorem declCmp_all_equal (op : Op) (its : List Item) (h : ∀ it ∈ its, eqish it = true) :
    declCmp op its = lenRes op := by
  unfold declCmp
  have : its.find? (fun it => !eqish it) = none := by
    simp [List.find?_eq_none]; exact h
  rw [this]

theorem declCmp_first_difference (op : Op) (pre post : List Item) (it : Item)
    (hpre : ∀ p ∈ pre, eqish p = true) (hit : eqish it = false) :
    declCmp op (pre ++ it :: post) = if it.s.eq = .raises then .raised else Res.ofOut (it.s.get op) := by
  unfold declCmp
  have : (pre ++ it :: post).find? (fun it => !eqish it) = some it := by
    rw [List.find?_append]
    have h1 : pre.find? (fun it => !eqish it) = none := by
      simp [List.find?_eq_none]; exact hpre
    simp [h1, hit]
  rw [this]; simp

def Item.flip (it : Item) : Item := { it with s := it.s.mirror }

theorem flip_lt_gt (its : List Item) :
    declCmp .lt its = declCmp .gt (its.map Item.flip) ∧ declCmp .le its = declCmp .ge (its.map Item.flip) ∧
    declCmp .gt its = declCmp .lt (its.map Item.flip) ∧ declCmp .ge its = declCmp .le (its.map Item.flip) := by
  induction its with
  | nil => simp [declCmp, lenRes]
  | cons it rest ih =>
    simp only [declCmp, List.map_cons, List.find?_cons] at ih ⊢
    have he : eqish it.flip = eqish it := rfl
    rw [he]
    cases h : eqish it
    · simp [Item.flip, Script.mirror, Script.get]
    · simpa using ih


/-- the values at every position come from a strict total order compatible with `==` and identity -/
def TotalItems (its : List Item) : Prop := ∀ it ∈ its, it.s.total = true ∧ (it.same = true → it.s.eq = .T)

theorem total_step (it : Item) (ht : it.s.total = true) (hs : it.same = true → it.s.eq = .T) :
    (eqish it = true → it.s.eq = .T) ∧
    (eqish it = false → it.s.eq = .F ∧ it.s.le = it.s.lt ∧ it.s.ge = it.s.gt ∧
      ((it.s.lt = .T ∧ it.s.gt = .F) ∨ (it.s.lt = .F ∧ it.s.gt = .T))) := by
  rcases it with ⟨tag, same, ⟨e, l, le, g, ge⟩⟩
  cases same <;> cases e <;> cases l <;> cases g <;>
    simp_all [Script.total, Script.boolean, eqish, Out.isTruthy, ofB]

theorem le_iff_total (its : List Item) (h : TotalItems its) :
    (declCmp .le its).isTruthy = ((declCmp .lt its).isTruthy || its.all eqish) ∧
    (declCmp .ge its).isTruthy = ((declCmp .gt its).isTruthy || its.all eqish) := by
  induction its with
  | nil => simp [declCmp, lenRes, Res.isTruthy]
  | cons it rest ih =>
    have hit := h it List.mem_cons_self
    have hrest : TotalItems rest := fun j hj => h j (List.mem_cons_of_mem _ hj)
    have st := total_step it hit.1 hit.2
    simp only [declCmp, List.find?_cons, List.all_cons] at ih ⊢
    cases he : eqish it
    · obtain ⟨h1, h2, h3, h4⟩ := st.2 he
      rcases h4 with ⟨a, b⟩ | ⟨a, b⟩ <;>
        simp [h1, h2, h3, a, b, Script.get, Res.ofOut, Res.isTruthy]
    · simpa using ih hrest


/-- an abstract value domain: five boolean comparison functions -/
structure Dom (α : Type) where
  eq : α → α → Bool
  lt : α → α → Bool
  le : α → α → Bool
  gt : α → α → Bool
  ge : α → α → Bool

/-- `<` is a strict total order compatible with `==`; `>`, `<=`, `>=` are its derived forms -/
structure Dom.StrictTotal {α : Type} (d : Dom α) : Prop where
  eq_iff : ∀ a b, d.eq a b = true ↔ a = b
  irrefl : ∀ a, d.lt a a = false
  asymm  : ∀ a b, d.lt a b = true → d.lt b a = false
  total  : ∀ a b, a ≠ b → d.lt a b = true ∨ d.lt b a = true
  gt_def : ∀ a b, d.gt a b = d.lt b a
  le_def : ∀ a b, d.le a b = (d.lt a b || d.eq a b)
  ge_def : ∀ a b, d.ge a b = (d.lt b a || d.eq a b)

def Dom.script {α : Type} (d : Dom α) (a b : α) : Script :=
  { eq := ofB (d.eq a b), lt := ofB (d.lt a b), le := ofB (d.le a b), gt := ofB (d.gt a b), ge := ofB (d.ge a b) }

theorem Dom.script_total {α : Type} (d : Dom α) (h : d.StrictTotal) (a b : α) :
    (d.script a b).total = true ∧ (a = b → (d.script a b).eq = .T) ∧ d.script b a = (d.script a b).mirror := by
  have e1 := h.eq_iff a b
  have e2 := h.eq_iff b a
  have g1 := h.gt_def a b
  have g2 := h.gt_def b a
  have l1 := h.le_def a b
  have l2 := h.le_def b a
  have k1 := h.ge_def a b
  have k2 := h.ge_def b a
  by_cases hab : a = b
  · subst hab
    have := h.irrefl a
    simp_all [Dom.script, Script.total, Script.boolean, Script.mirror, ofB]
  · have hba : ¬ b = a := fun h => hab h.symm
    have hne : d.eq a b = false := by
      cases hq : d.eq a b
      · rfl
      · exact absurd (e1.1 hq) hab
    have hne' : d.eq b a = false := by
      cases hq : d.eq b a
      · rfl
      · exact absurd (e2.1 hq) hba
    rcases h.total a b hab with t | t
    · have := h.asymm a b t
      simp_all [Dom.script, Script.total, Script.boolean, Script.mirror, ofB]
    · have := h.asymm b a t
      simp_all [Dom.script, Script.total, Script.boolean, Script.mirror, ofB]

def natDom : Dom Nat :=
  { eq := fun a b => a == b, lt := fun a b => decide (a < b), le := fun a b => decide (a ≤ b),
    gt := fun a b => decide (b < a), ge := fun a b => decide (b ≤ a) }

theorem natDom_strictTotal : natDom.StrictTotal where
  eq_iff := by intro a b; simp [natDom]
  irrefl := by intro a; simp [natDom]
  asymm := by intro a b; simp [natDom]; omega
  total := by intro a b; simp [natDom]; omega
  gt_def := by intro a b; rfl
  le_def := by
    intro a b; simp only [natDom]
    rw [Bool.eq_iff_iff]; simp; omega
  ge_def := by
    intro a b; simp only [natDom]
    rw [Bool.eq_iff_iff]; simp; omega

theorem natScript_eq (a b : Nat) : natScript a b = natDom.script a b := rfl


/-- one tuple position holding the natural numbers `a` (in x) and `b` (in y); `same`: one object -/
def natItem (t : Bool × Nat × Nat) : Item := { tag := "", same := t.1, s := natScript t.2.1 t.2.2 }

theorem ofOut_ofB (b : Bool) : Res.ofOut (ofB b) = Res.ofBool b := by cases b <;> rfl

theorem nat_lex (l : List (Bool × Nat × Nat)) (h : ∀ t ∈ l, t.1 = true → t.2.1 = t.2.2) :
    declCmp .lt (l.map natItem) = Res.ofBool (decide (l.map (·.2.1) < l.map (·.2.2))) ∧
    declCmp .le (l.map natItem) = Res.ofBool (decide (l.map (·.2.1) ≤ l.map (·.2.2))) ∧
    declCmp .gt (l.map natItem) = Res.ofBool (decide (l.map (·.2.2) < l.map (·.2.1))) ∧
    declCmp .ge (l.map natItem) = Res.ofBool (decide (l.map (·.2.2) ≤ l.map (·.2.1))) := by
  induction l with
  | nil => simp [declCmp, lenRes, Res.ofBool]
  | cons t rest ih =>
    obtain ⟨s, a, b⟩ := t
    have hrest : ∀ t ∈ rest, t.1 = true → t.2.1 = t.2.2 := fun t ht => h t (List.mem_cons_of_mem _ ht)
    have hs := h (s, a, b) List.mem_cons_self
    have ih := ih hrest
    simp only [declCmp, List.map_cons, List.find?_cons] at ih ⊢
    by_cases hab : a = b
    · subst hab
      have he : eqish (natItem (s, a, a)) = true := by simp [eqish, natItem, natScript, ofB, Out.isTruthy]
      simp only [he, Bool.not_true]
      simp only [List.cons_lt_cons_iff, List.cons_le_cons_iff, Nat.lt_irrefl, false_or, true_and]
      exact ih
    · have hsf : s = false := by
        cases s
        · rfl
        · exact absurd (hs rfl) hab
      subst hsf
      have he : eqish (natItem (false, a, b)) = false := by
        simp [eqish, natItem, natScript, ofB, Out.isTruthy, hab]
      have hba : ¬ b = a := fun h => hab h.symm
      simp only [he, Bool.not_false]
      simp only [List.cons_lt_cons_iff, List.cons_le_cons_iff, hab, hba, false_and, or_false]
      simp [natItem, natScript, Script.get, ofB, hab]
      have hle : (a ≤ b) ↔ (a < b) := by omega
      have hge : (b ≤ a) ↔ (b < a) := by omega
      simp only [hle, hge]
      by_cases h1 : a < b <;> by_cases h2 : b < a <;> simp [h1, h2, Res.ofOut, Res.ofBool]


/-- the order tuples of two instances holding the numbers `xs` and `ys` -/
def natTuple (xs ys : List Nat) : List Item := (List.zip xs ys).map (fun p => natItem (false, p.1, p.2))

theorem natTuple_lt (xs ys : List Nat) (h : xs.length = ys.length) :
    (tupleCmp .lt (natTuple xs ys)).1 = Res.ofBool (decide (xs < ys)) := by
  have := (nat_lex ((List.zip xs ys).map (fun p => (false, p.1, p.2))) (by intro t ht h; simp at ht; obtain ⟨a, b, _, rfl⟩ := ht; cases h)).1
  rw [tupleCmp_eq_declCmp]
  simp only [natTuple]
  rw [List.map_map] at this
  simp only [List.map_map, Function.comp_def] at this
  have h1 : (List.zip xs ys).map (fun p => p.1) = xs := List.map_fst_zip (by omega)
  have h2 : (List.zip xs ys).map (fun p => p.2) = ys := List.map_snd_zip (by omega)
  rw [h1, h2] at this
  exact this

end Attrs.C09
