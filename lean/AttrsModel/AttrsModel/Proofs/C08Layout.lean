/-
  C08 — one slot per own field, `__weakref__` iff asked for or inherited, `__dict__` iff inherited.
-/
import AttrsModel.Proofs.C08Slots

namespace Attrs.C08

structure WFLayout (c : Case) : Prop where
  weak : ∀ b ∈ c.mro, baseHasSlot "__weakref__" b = true → b.hasWeakref = true
  dict : ∀ b ∈ c.mro, baseHasSlot "__dict__" b = true → b.hasDict = true
  oneBase : ∀ f ∈ c.own, (c.mro.filter (baseHasSlot f)).length ≤ 1

theorem wfLayout_elim (c : Case) (h : wfLayout c = true) : WFLayout c := by
  unfold wfLayout at h
  simp only [Bool.and_eq_true, List.all_eq_true, Bool.or_eq_true, Bool.not_eq_true', decide_eq_true_eq] at h
  obtain ⟨⟨h1, h2⟩, _⟩ := h
  refine ⟨?_, ?_, h2⟩
  · intro b hb hs
    rcases (h1 b hb).1 with h | h
    · rw [hs] at h; cases h
    · exact h
  · intro b hb hs
    rcases (h1 b hb).2 with h | h
    · rw [hs] at h; cases h
    · exact h

theorem wf_layout (c : Case) (h : wf c = true) : WFLayout c := by
  unfold wf at h; simp only [Bool.and_eq_true] at h; exact wfLayout_elim c h.2

theorem own_not_cache (c : Case) (hn : WFNames c) (f : String) (hf : f ∈ c.own) : f ≠ Generated.hashCacheField := by
  intro e
  have : specialNames.contains f = true := by rw [e]; decide
  exact special_not_own c hn f this hf

/-- **one slot**: every own field has exactly one member descriptor along the new MRO — its own new slot, or
    the single base slot of that name which the build re-uses instead of shadowing it. -/
theorem slotCount_own (c : Case) (hn : WFNames c) (hl : WFLayout c) (f : String) (hf : f ∈ c.own) :
    slotCountOf c f = 1 := by
  unfold slotCountOf
  cases hb : c.mro.any (baseHasSlot f) with
  | true =>
    have hnot : (slotNames c).contains f = false := by
      cases h : (slotNames c).contains f with
      | false => rfl
      | true =>
        have hm : f ∈ slotNames c := by simpa using h
        rcases (mem_slotNames_iff c f).1 hm with h1 | h1
        · rw [hb] at h1; cases h1.2.2
        · exact absurd h1.1 (own_not_cache c hn f hf)
    have h1 := filter_length_pos (baseHasSlot f) c.mro hb
    have h2 := hl.oneBase f hf
    simp only [hnot, Bool.false_eq_true, if_false, Nat.zero_add]
    omega
  | false =>
    have hin : (slotNames c).contains f = true := by
      have : f ∈ slotNames c := (mem_slotNames_iff c f).2 (Or.inl ⟨Or.inl hf, hn.disjoint f hf, hb⟩)
      simpa using this
    rw [filter_length_zero _ _ hb, hin]
    rfl

/-- `__weakref__` can only enter `__slots__` through the weakref rule -/
theorem weakref_in_slots_iff (c : Case) (hn : WFNames c) (hb : WFBody c) (hl : WFLayout c)
    (hwi : weakrefInherited c = false) :
    (slotNames c).contains "__weakref__" = addsWeakref c := by
  have hnobase : c.mro.any (baseHasSlot "__weakref__") = false := by
    cases h : c.mro.any (baseHasSlot "__weakref__") with
    | false => rfl
    | true =>
      obtain ⟨b, hbm, hs⟩ := List.any_eq_true.1 h
      have := hl.weak b hbm hs
      have : weakrefInherited c = true := List.any_eq_true.2 ⟨b, hbm, this⟩
      rw [hwi] at this; cases this
  cases ha : addsWeakref c with
  | true =>
    have : "__weakref__" ∈ slotNames c :=
      (mem_slotNames_iff c _).2 (Or.inl ⟨Or.inr (Or.inl ⟨rfl, ha⟩),
        special_not_inherited c hn _ (by decide), hnobase⟩)
    simpa using this
  | false =>
    cases h : (slotNames c).contains "__weakref__" with
    | false => rfl
    | true =>
      have hm : "__weakref__" ∈ slotNames c := by simpa using h
      rcases (mem_slotNames_iff c _).1 hm with ⟨h1 | h1 | h1, _, _⟩ | h1
      · exact absurd h1 (special_not_own c hn _ (by decide))
      · rw [ha] at h1; cases h1.2
      · exact absurd h1 (layout_not_cprop c hb _ (by decide))
      · exact absurd h1.1 (by decide)

/-- the weakref rule fires exactly when `weakref_slot` is on and no class of the MRO provides `__weakref__` -/
theorem addsWeakref_eq (c : Case) (hn : WFNames c) (hwi : weakrefInherited c = false) :
    addsWeakref c = c.weakrefSlot := by
  unfold addsWeakref
  rw [hwi, special_not_attr c hn "__weakref__" (by decide)]
  cases c.weakrefSlot <;> rfl

theorem weakrefable_iff (c : Case) (hn : WFNames c) (hb : WFBody c) (hl : WFLayout c) :
    instWeakrefable c = (c.weakrefSlot || c.mro.any (·.hasWeakref)) := by
  unfold instWeakrefable
  cases hwi : weakrefInherited c with
  | true =>
    have : c.mro.any (·.hasWeakref) = true := hwi
    rw [this]; simp
  | false =>
    have : c.mro.any (·.hasWeakref) = false := hwi
    rw [weakref_in_slots_iff c hn hb hl hwi, addsWeakref_eq c hn hwi, this]

theorem dict_not_in_slots (c : Case) (hn : WFNames c) (hb : WFBody c) : (slotNames c).contains "__dict__" = false := by
  cases h : (slotNames c).contains "__dict__" with
  | false => rfl
  | true =>
    have hm : "__dict__" ∈ slotNames c := by simpa using h
    rcases (mem_slotNames_iff c _).1 hm with ⟨h1 | h1 | h1, _, _⟩ | h1
    · exact absurd h1 (special_not_own c hn _ (by decide))
    · exact absurd h1.1 (by decide)
    · exact absurd h1 (layout_not_cprop c hb _ (by decide))
    · exact absurd h1.1 (by decide)

theorem hasDict_iff (c : Case) (hn : WFNames c) (hb : WFBody c) : instHasDict c = c.mro.any (·.hasDict) := by
  unfold instHasDict
  rw [dict_not_in_slots c hn hb]
  simp

end Attrs.C08
