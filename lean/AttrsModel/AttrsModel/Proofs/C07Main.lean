/-
  C07 — assembly: on every well-formed case outside the known deviations the model's observation
  satisfies the Spec.
-/
import AttrsModel.Proofs.C07Encode

namespace Attrs.C07

theorem buildTable_err (M : Mros) (rest : List Cls) (tbl : Table) {i : Nat} {e : ErrKind}
    (h : buildTable M rest tbl = .error (i, e)) : i < tbl.length + rest.length := by
  induction rest generalizing tbl with
  | nil => simp [buildTable] at h
  | cons c rest ih =>
    simp only [buildTable] at h
    cases herr : (buildClass M tbl tbl.length c).err with
    | some e' =>
      simp only [herr, Except.error.injEq, Prod.mk.injEq] at h
      simp; omega
    | none =>
      simp only [herr] at h
      have := ih _ h
      simp at this ⊢; omega

theorem decomp_last {cs : List Cls} {last : Cls} (h : cs.getLast? = some last) : cs = cs.dropLast ++ [last] := by
  have hne : cs ≠ [] := by intro he; simp [he] at h
  have := List.dropLast_concat_getLast hne
  rw [List.getLast?_eq_some_getLast hne] at h
  simp only [Option.some.injEq] at h
  rw [h] at this
  exact this.symm

/-- the situation after the base classes have been built -/
structure Ctx (c : Case) where
  last : Cls
  tbl : Table
  hlast : c.classes.getLast? = some last
  hbt : buildTable (mroOf c.classes) c.classes.dropLast [] = .ok tbl

theorem Ctx.inv {c : Case} (x : Ctx c) : TInv c.classes x.tbl ∧ x.tbl.length = c.classes.length - 1 := by
  have := buildTable_inv (mroOf c.classes) c.classes c.classes.dropLast [] x.tbl
    (fun i k hk => by simpa using dropLast_get hk) (TInv_nil _) x.hbt
  simpa using this

theorem Ctx.lastCls {c : Case} (x : Ctx c) : lastCls c = x.last := lastCls_eq x.hlast

theorem Ctx.baseTable {c : Case} (x : Ctx c) : baseTable c = x.tbl := by simp [Attrs.C07.baseTable, x.hbt]

theorem Ctx.lastGet {c : Case} (x : Ctx c) : c.classes[x.tbl.length]? = some x.last := by
  rw [x.inv.2]; exact getLast_index x.hlast

theorem known_nil {c : Case} (h : known c = []) : knownLegacy c = false := by
  unfold known at h
  by_cases h1 : knownLegacy c = true <;> simp_all

theorem legacy_eq_mro {c : Case} (x : Ctx c) (hk : known c = []) (hkind : x.last.kind = .attrS)
    (hm : x.last.collectByMro = false) :
    collectLegacy (mroOf c.classes) x.tbl ((specOwn x.last).map (·.name)) x.last.mro.tail =
      collectMro (mroOf c.classes) x.tbl ((specOwn x.last).map (·.name)) x.last.mro.tail := by
  have := known_nil hk
  simp only [knownLegacy, x.lastCls, x.baseTable, hkind, hm, beq_self_eq_true, Bool.not_false, Bool.true_and,
    bne_eq_false_iff_eq] at this
  exact this

theorem last_tail_lt {c : Case} (W : WfFacts c) (x : Ctx c) : ∀ m ∈ x.last.mro.tail, m < x.tbl.length := by
  have hw := W.cls _ _ x.lastGet
  simp only [wfCls, Bool.and_eq_true, List.all_eq_true, decide_eq_true_eq] at hw
  obtain ⟨⟨⟨⟨⟨⟨_, htail⟩, _⟩, _⟩, _⟩, _⟩, _⟩ := hw
  exact htail

/-- **key lemma**: the list handed to the transformer is the declarative one -/
theorem preList_eq_specPre {c : Case} (W : WfFacts c) (hk : known c = []) (x : Ctx c) :
    preList (mroOf c.classes) x.tbl x.last (byMroEff x.last) (specOwn x.last) = specPre c.classes x.last := by
  obtain ⟨hinv, hlen⟩ := x.inv
  have hcm := collectMro_eq_spec ((specOwn x.last).map (·.name)) hinv (specFinalOwn_nodup W) x.last.mro.tail
    (last_tail_lt W x)
  unfold preList specPre kwIf
  by_cases hb : byMroEff x.last = true
  · simp only [hb, if_true, hcm]
  · have hb' : byMroEff x.last = false := by simpa using hb
    simp only [byMroEff, Bool.or_eq_false_iff, beq_eq_false_iff_ne] at hb'
    have hkind : x.last.kind = .attrS := by
      have h1 := W.lastKind
      rw [x.lastCls] at h1
      cases hq : x.last.kind with
      | plain => exact absurd hq h1
      | attrS => rfl
      | define => exact absurd hq hb'.1
    simp only [hb, Bool.false_eq_true, if_false, legacy_eq_mro x hk hkind hb'.2, hcm]

end Attrs.C07
