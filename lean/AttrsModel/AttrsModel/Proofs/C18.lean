/-
  C18 — helper lemmas: algebra of statement sequencing, loops, conjunction / disjunction lists.
-/
import AttrsModel.Spec.C18

namespace Attrs.C18

/-! ### sequencing -/

@[simp] theorem andThen_ok_left (b : R) : andThen ok b = b := by
  simp [andThen, ok]

@[simp] theorem andThen_ok_right (a : R) : andThen a ok = a := by
  unfold andThen ok
  rcases a with ⟨_ | k, t⟩ <;> simp

theorem andThen_assoc (a b c : R) : andThen (andThen a b) c = andThen a (andThen b c) := by
  unfold andThen
  rcases a with ⟨_ | ka, ta⟩ <;> rcases b with ⟨_ | kb, tb⟩ <;> simp [List.append_assoc]

theorem andThen_out (a b : R) : (andThen a b).1 = (match a.1 with | none => b.1 | some k => some k) := by
  unfold andThen
  rcases a with ⟨_ | ka, ta⟩ <;> simp

@[simp] theorem andThen_raise (k : ExcKind) (b : R) : andThen (raise k) b = raise k := by
  simp [andThen, raise]

/-- `except Exception: continue` after `a`, then `b` -/
def orElse (a b : R) : R :=
  match a.1 with
  | none => (none, a.2)
  | some k => if isSub k .exception then (b.1, a.2 ++ b.2) else (some k, a.2)

theorem orElse_assoc (a b c : R) : orElse (orElse a b) c = orElse a (orElse b c) := by
  unfold orElse
  rcases a with ⟨_ | ka, ta⟩
  · simp
  · by_cases ha : isSub ka .exception = true
    · rcases b with ⟨_ | kb, tb⟩
      · simp [ha]
      · by_cases hb : isSub kb .exception = true <;> simp [ha, hb, List.append_assoc]
    · simp [ha]

theorem evalAny_cons (o : Oracle) (v : V) (vs : List V) (x : Nat) :
    evalAny o (v :: vs) x = orElse (eval o v x) (evalAny o vs x) := by
  rw [evalAny]
  unfold orElse
  cases h : (eval o v x).1 <;> simp

theorem evalAll_cons (o : Oracle) (v : V) (vs : List V) (x : Nat) :
    evalAll o (v :: vs) x = andThen (eval o v x) (evalAll o vs x) := by
  rw [evalAll]

@[simp] theorem evalAll_nil (o : Oracle) (x : Nat) : evalAll o [] x = ok := by
  rw [evalAll]

@[simp] theorem evalAny_nil (o : Oracle) (x : Nat) : evalAny o [] x = raise .valueError := by
  rw [evalAny]

theorem evalAll_append (o : Oracle) (as bs : List V) (x : Nat) :
    evalAll o (as ++ bs) x = andThen (evalAll o as x) (evalAll o bs x) := by
  induction as with
  | nil => simp
  | cons a as ih => simp only [List.cons_append, evalAll_cons, ih, andThen_assoc]

theorem orElse_raise_valueError (b : R) : orElse (raise .valueError) b = b := by
  simp [orElse, raise, isSub]

theorem evalAny_append (o : Oracle) (as bs : List V) (x : Nat) :
    evalAny o (as ++ bs) x = orElse (evalAny o as x) (evalAny o bs x) := by
  induction as with
  | nil => simp [orElse_raise_valueError]
  | cons a as ih => simp only [List.cons_append, evalAny_cons, ih, orElse_assoc]

/-! ### the model's outcome is the declared one -/

/-- declared result: accepted, or the exception owed -/
def decl (s : Bool) (k : ExcKind) : Option ExcKind := if s then none else some k

theorem forEach_out {α : Type} (f : α → R) (g : α → Option ExcKind) (h : ∀ y, (f y).1 = g y) (ys : List α) :
    (forEach f ys).1 = firstErr g ys := by
  induction ys with
  | nil => simp [forEach, firstErr, ok]
  | cons y ys ih =>
    simp only [forEach, firstErr, andThen_out, h y]
    cases g y <;> simp [ih]

theorem firstErr_none_iff {α : Type} (g : α → Option ExcKind) (ys : List α) :
    firstErr g ys = none ↔ ∀ y ∈ ys, g y = none := by
  induction ys with
  | nil => simp [firstErr]
  | cons y ys ih =>
    simp only [firstErr, List.mem_cons, forall_eq_or_imp]
    cases h : g y <;> simp [ih]

theorem ofPrim_out (p : PrimRes) (kf : ExcKind) : (ofPrim p kf).1 = decl (p == .t) (primExc p kf) := by
  cases p <;> simp [ofPrim, ok, raise, decl, primExc]

theorem docFunc_eq (fn : ReFuncArg) : docFunc fn = effFunc fn := by
  cases fn <;> rfl


theorem firstErr_none_all {α : Type} (g : α → Option ExcKind) (s : α → Bool) (hs : ∀ i, s i = (g i).isNone)
    (ys : List α) : (firstErr g ys = none) ↔ ys.all s = true := by
  rw [firstErr_none_iff, List.all_eq_true]
  constructor
  · intro h y hy; rw [hs, h y hy]; rfl
  · intro h y hy
    have := h y hy
    rw [hs] at this
    cases hg : g y <;> simp_all

theorem stopR_out (s : Option ExcKind) : (stopR s).1 = s := by
  cases s <;> simp [stopR, ok, raise]

theorem deep_out (cA : Bool) (kA : ExcKind) (A : R) (hA : A.1 = decl cA kA)
    {α : Type} (f : α → R) (g : α → Option ExcKind) (hf : ∀ i, (f i).1 = g i)
    (s : α → Bool) (hs : ∀ i, s i = (g i).isNone) (items : List α) (stop : Option ExcKind) :
    (andThen A (andThen (forEach f items) (stopR stop))).1 =
      decl (cA && stop.isNone && items.all s)
        (if !cA then kA else
          match firstErr g items with
          | some k => k
          | none => (match stop with | some k => k | none => .other)) := by
  rw [andThen_out, hA, andThen_out, forEach_out f g hf, stopR_out]
  cases cA
  · simp [decl]
  · cases hfe : firstErr g items with
    | none =>
      have := (firstErr_none_all g s hs items).1 hfe
      cases stop <;> simp [decl, this]
    | some k =>
      have : items.all s = false := by
        cases hall : items.all s
        · rfl
        · have := (firstErr_none_all g s hs items).2 hall
          simp [this] at hfe
      simp [decl, this]

theorem container_out (o : Oracle) (it : V) (x : Nat) (ih : (eval o it x).1 = decl (sat o it x) (excOf o it x)) :
    (if it.isNoneV then ok else eval o it x).1 = decl (it.isNoneV || sat o it x) (excOf o it x) := by
  cases h : it.isNoneV <;> simp [ih, ok, decl]

theorem lenTest_eq (o : Oracle) (isMax : Bool) (b : Bound) (n : Nat) : lenTest o isMax b n = lenOk o isMax b n := by
  match b with
  | .opaque id => rfl
  | .int m =>
    cases isMax <;> simp only [lenTest, lenOk, PrimRes.ofBool]
    · by_cases h : (n : Int) < m
      · have : ¬ m ≤ (n : Int) := by omega
        simp [h, this]
      · have : m ≤ (n : Int) := by omega
        simp [h, this]
    · by_cases h : (n : Int) > m
      · have : ¬ (n : Int) ≤ m := by omega
        simp [h, this]
      · have : (n : Int) ≤ m := by omega
        simp [h, this]

theorem lenVal_out (o : Oracle) (isMax : Bool) (b : Bound) (x : Nat) :
    (lenVal o isMax b x).1 = decl (lenSat o isMax b x) (lenExc o isMax b x) := by
  unfold lenVal lenSat lenExc
  cases h : o.len x with
  | exc k => simp [raise, decl]
  | ok n =>
    simp only [ofPrim_out, lenTest_eq]
    cases lenOk o isMax b n <;> simp [decl, primExc]

mutual
theorem eval_out (o : Oracle) : ∀ (v : V) (x : Nat), (eval o v x).1 = decl (sat o v x) (excOf o v x)
  | .instOf t, x => by simp [eval, sat, excOf, ofPrim_out]
  | .matchesRe r fl fn, x => by simp [eval, sat, excOf, ofPrim_out, docFunc_eq]
  | .optional v, x => by
      have ih := eval_out o v x
      by_cases h : o.isNone x = true <;> simp [eval, sat, excOf, h, ih, ok, decl]
  | .optionalSeq _ vs, x => by
      have ih := evalAll_out o vs x
      by_cases h : o.isNone x = true <;> simp [eval, sat, excOf, h, ih, ok, decl]
  | .in_ p, x => by
      cases h : o.member p x <;> simp [eval, sat, excOf, inR, h, ok, raise, decl]
      split <;> simp
  | .isCallable, x => by
      by_cases h : o.callable x = true <;> simp [eval, sat, excOf, h, ok, raise, decl]
  | .deepIter m it, x => by
      have ihm := eval_out o m
      have ihit := eval_out o it x
      simp only [eval, sat, excOf]
      exact deep_out _ _ _ (container_out o it x ihit) (α := Item) (fun i => eval o m i.key)
        (fun i => if sat o m i.key then none else some (excOf o m i.key))
        (fun i => by rw [ihm i.key]; rfl) (fun i => sat o m i.key)
        (fun i => by cases sat o m i.key <;> simp) _ _
  | .deepIterSeq _ ms it, x => by
      have ihm := evalAll_out o ms
      have ihit := eval_out o it x
      simp only [eval, sat, excOf]
      exact deep_out _ _ _ (container_out o it x ihit) (α := Item) (fun i => evalAll o ms i.key)
        (fun i => if satAll o ms i.key then none else some (excAll o ms i.key))
        (fun i => by rw [ihm i.key]; rfl) (fun i => satAll o ms i.key)
        (fun i => by cases satAll o ms i.key <;> simp) _ _
  | .deepMap kv vv mv, x => by
      have ihk := eval_out o kv
      have ihv := eval_out o vv
      have ihm := eval_out o mv x
      simp only [eval, sat, excOf]
      exact deep_out _ _ _ (container_out o mv x ihm) (α := Item)
        (fun i => andThen (eval o kv i.key) (getR i.get (fun y => eval o vv y)))
        (fun i => if !sat o kv i.key then some (excOf o kv i.key)
          else match i.get with
            | .ok y => if sat o vv y then none else some (excOf o vv y)
            | .exc k => some k
            | .na => some .other)
        (fun i => by
          rw [andThen_out, ihk i.key]
          cases sat o kv i.key
          · simp [decl]
          · cases hg : i.get <;> simp [decl, getR, raise, ihv])
        (fun i => sat o kv i.key && (match i.get with | .ok y => sat o vv y | _ => false))
        (fun i => by
          cases sat o kv i.key
          · simp
          · cases hg : i.get
            · rename_i y; cases hs : sat o vv y <;> simp [hs]
            · simp
            · simp) _ _
  | .num op b, x => by simp [eval, sat, excOf, ofPrim_out]
  | .maxLen b, x => by simp [eval, sat, excOf, lenVal_out]
  | .minLen b, x => by simp [eval, sat, excOf, lenVal_out]
  | .not_ v _ e, x => by
      have ih := eval_out o v x
      by_cases h : sat o v x = true
      · simp [eval, sat, excOf, notR, ih, h, decl]
      · simp [eval, sat, excOf, notR, ih, h, decl]
        by_cases hc : captures e (excOf o v x) = true <;> simp [hc]
  | .or_ vs, x => by simpa [eval, sat, excOf] using evalAny_out o vs x
  | .and_ vs, x => by simpa [eval, sat, excOf] using evalAll_out o vs x
  | .andRaw _ vs, x => by simpa [eval, sat, excOf] using evalAll_out o vs x
  | .probe p _, x => by
      cases h : o.probe p x <;> simp [eval, sat, excOf, h, decl]
  | .junk, x => by simp [eval, sat, excOf, raise, decl]
  | .noneV, x => by simp [eval, sat, excOf, raise, decl]
theorem evalAll_out (o : Oracle) : ∀ (vs : List V) (x : Nat), (evalAll o vs x).1 = decl (satAll o vs x) (excAll o vs x)
  | [], x => by simp [satAll, decl, ok]
  | v :: vs, x => by
      have ih := eval_out o v x
      have ihs := evalAll_out o vs x
      rw [evalAll_cons, andThen_out, ih, ihs]
      by_cases h : sat o v x = true <;> simp [satAll, excAll, h, decl]
theorem evalAny_out (o : Oracle) : ∀ (vs : List V) (x : Nat), (evalAny o vs x).1 = decl (satAny o vs x) (excAny o vs x)
  | [], x => by simp [satAny, excAny, decl, raise]
  | v :: vs, x => by
      have ih := eval_out o v x
      have ihs := evalAny_out o vs x
      rw [evalAny_cons]
      unfold orElse
      rw [ih]
      by_cases h : sat o v x = true
      · simp [satAny, h, decl]
      · by_cases hs : isSub (excOf o v x) .exception = true
        · simp [satAny, excAny, h, hs, decl, ihs]
        · simp [satAny, excAny, h, hs, decl]
end


end Attrs.C18
