/-
  C13 — the model of `astuple` computes the reference (promised shape, then built), for arbitrary trees,
  with no exclusion.
-/
import AttrsModel.Proofs.C13RefineD

namespace Attrs.C13

def Opts.withFilter (o : Opts) (flt : Filter) : Opts := { o with filter := flt }

@[simp] theorem withFilter_filter (o : Opts) (flt : Filter) : (o.withFilter flt).filter = flt := rfl
@[simp] theorem withFilter_retain (o : Opts) (flt : Filter) : (o.withFilter flt).retain = o.retain := rfl
@[simp] theorem withFilter_tf (o : Opts) (flt : Filter) : (o.withFilter flt).tf = o.tf := rfl
theorem withFilter_self (o : Opts) : o.withFilter o.filter = o := by cases o; rfl

theorem realise_tfOut (tf : TF) (xs : List Out) : realise (tfOut tf xs) = (realiseL xs).map (tfOut tf) := by
  cases tf <;> cases h : realiseL xs <;> simp [tfOut, realise, pyColl, h]

mutual
theorem tfield_refines (o : Opts) : ∀ (v : PVal) (flt : Filter),
    tfield o flt v = realise (shapeTField (o.withFilter flt) v)
  | .atom a, flt => by simp [tfield, shapeTField, realise]
  | .inst c h fs, flt => by
    simp [tfield, shapeTField, realise_tfOut, tupleOf_refines o fs flt]
  | .coll k xs, flt => by
    simp only [tfield, shapeTField, realise, tmembers_refines o xs flt, withFilter_retain]
    congr 1
    funext ys
    exact codeColl_eq_pyColl _ ys
  | .dict dk ps, flt => by
    simp [tfield, shapeTField, realise, tpairs_refines o ps flt]
    rfl

theorem tmember_refines (o : Opts) : ∀ (v : PVal) (flt : Filter),
    tmember o flt v = realise (shapeTMember (o.withFilter flt) v)
  | .atom a, flt => by simp [tmember, shapeTMember, realise]
  | .inst c h fs, flt => by
    simp [tmember, shapeTMember, realise_tfOut, tupleOf_refines o fs flt]
  | .coll k xs, flt => by simp [tmember, shapeTMember, realise_embed]
  | .dict k ps, flt => by simp [tmember, shapeTMember, realise_embed]

theorem tupleOf_refines (o : Opts) : ∀ (fs : List (FI × PVal)) (flt : Filter),
    tupleOf o flt fs = realiseL (shapeTFields (o.withFilter flt) fs)
  | [], flt => by simp [tupleOf, shapeTFields, realiseL]
  | (f, v) :: r, flt => by
    have ihr := tupleOf_refines o r flt
    by_cases hp : passes flt f v = true
    · simp [tupleOf, shapeTFields, hp, realiseL, ihr, tfield_refines o v flt]
    · simp [tupleOf, shapeTFields, hp, ihr]

theorem tmembers_refines (o : Opts) : ∀ (xs : List PVal) (flt : Filter),
    tmembers o flt xs = realiseL (shapeTMembers (o.withFilter flt) xs)
  | [], flt => by simp [tmembers, shapeTMembers, realiseL]
  | x :: r, flt => by
    simp [tmembers, shapeTMembers, realiseL, tmember_refines o x flt, tmembers_refines o r flt]

theorem tpairs_refines (o : Opts) : ∀ (ps : List (PVal × PVal)) (flt : Filter),
    tpairs o flt ps = realiseP (shapeTPairs (o.withFilter flt) ps)
  | [], flt => by simp [tpairs, shapeTPairs, realiseP]
  | (k, v) :: r, flt => by
    simp [tpairs, shapeTPairs, realiseP, tmember_refines o k flt, tmember_refines o v flt,
      tpairs_refines o r flt]
end

end Attrs.C13
