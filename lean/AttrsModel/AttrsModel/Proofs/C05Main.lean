/-
  C05 — the model meets the specification on every well-formed case outside the listed known findings.
-/
import AttrsModel.Proofs.C05Spec

namespace Attrs.C05
open Attrs.Init

theorem known_nil (c : Case) (h : known c = []) :
    notFirstDefiner c = false ∧ k3 c = false ∧ k2 c = false ∧ k11 c = false := by
  unfold known at h
  cases h1 : notFirstDefiner c <;> cases h2 : k3 c <;> cases h3 : k2 c <;> cases h4 : k11 c <;> simp_all

theorem model_meets_spec (c : Case) (hwf : wf c = true) (hk : known c = []) : spec c (model c) = true := by
  obtain ⟨hk1, hk3, hk2, hk11⟩ := known_nil c hk
  unfold wf at hwf
  simp only [Bool.and_eq_true] at hwf
  obtain ⟨⟨⟨_, hcons⟩, hops⟩, hrest⟩ := hwf
  cases hb : buildFrom [] c.classes 0 with
  | error ie =>
    obtain ⟨i, e⟩ := ie
    have := buildFrom_error_hookStuff c.classes [] 0 i e hcons hb
    unfold spec model
    rw [hb]
    exact this
  | ok nodes =>
    rw [hb] at hrest
    dsimp only at hrest
    cases hlf : leafOf c nodes with
    | none => rw [hlf] at hrest; cases hrest
    | some lf =>
      rw [hlf] at hrest
      simp only [Bool.and_eq_true] at hrest
      obtain ⟨⟨⟨hc01, hcall⟩, hlay⟩, _⟩ := hrest
      obtain ⟨l, rest, hnodes, hrs, hrd⟩ := leafOf_some c nodes lf hlf
      -- the leaf resolves the frozen pair (no K05a)
      have hfr : lf.rset = .frozen ∧ lf.rdel = .frozen := by
        unfold notFirstDefiner at hk1
        rw [hb, hnodes] at hk1
        simp only [Bool.or_eq_false_iff, bne_eq_false_iff_eq] at hk1
        exact ⟨hrs.trans hk1.1, hrd.trans hk1.2⟩
      -- no K3 / K2 / K11
      have hk3' : C01.known (effInit c lf.frozen) = [] := by
        unfold k3 at hk3
        rw [hb] at hk3
        dsimp only at hk3
        rw [hlf] at hk3
        dsimp only at hk3
        unfold C01.known
        rw [hk3]
        rfl
      have hk2' : cacheMisplaced c lf.frozen = false := by
        unfold k2 at hk2
        rw [hb] at hk2
        dsimp only at hk2
        rw [hlf] at hk2
        exact hk2
      have hk11' : c.ops.any isCopyOp = true → c.gs ≠ .optOut := by
        intro hany hgs
        unfold k11 at hk11
        rw [hany, hgs] at hk11
        simp at hk11
      -- construction
      have hbody : BodyOK (effInit c lf.frozen).eff c.init.call := bodyOK_of_wf (effInit c lf.frozen) hc01 hk3' hcall
      have hfault : c.init.run.fault = none := by
        unfold C01.wf at hc01
        simp only [Bool.and_eq_true] at hc01
        have h : (effInit c lf.frozen).run.fault = none := by simpa using hc01.1.1.1.1.1.1.1
        exact h
      have hexc : (runInit (effInit c lf.frozen)).exc = none := by
        have := (runInit_spec (effInit c lf.frozen) hbody).2.2.2.1
        have hf' : (effInit c lf.frozen).eff.fault = none := hfault
        rw [hf', hits_none] at this
        exact this
      have hbind : bind (params (effInit c lf.frozen).eff.attrs) (effInit c lf.frozen).call =
          some (envOf c.init.run.attrs c.init.call) := bind_eq c.init.run.attrs c.init.call hcall
      have hraised : (body (effInit c lf.frozen).eff (envOf c.init.run.attrs c.init.call)).raised = none := by
        have := (body_spec (effInit c lf.frozen).eff c.init.call hbody).2.1
        have hf' : (effInit c lf.frozen).eff.fault = none := hfault
        rw [hf', hits_none] at this
        exact this
      unfold spec model
      rw [hb]
      dsimp only
      rw [hlf]
      dsimp only
      rw [hexc, hbind]
      dsimp only
      simp only [beq_self_eq_true, Bool.true_and, Bool.and_eq_true]
      refine ⟨?_, stepsOk_runOps c lf _ c.ops hfr.1 hfr.2 hops hk11'⟩
      unfold startOk
      simp only [Bool.and_eq_true, List.all_eq_true, beq_iff_eq, Bool.or_eq_true, Bool.not_eq_true']
      refine ⟨fun a ha => start_reads c lf.frozen hlay hbody hfault a ha _, ?_⟩
      cases hch : c.init.run.cfg.cacheHash with
      | false => exact Or.inl rfl
      | true => exact Or.inr (start_cache c lf.frozen hlay hch hk2' hraised _)

end Attrs.C05
