/-
  C13 — OLD BEHAVIOUR (before the `fix:` commits for K13a / K13b / K13c), kept only to show that the
  regression cases discriminate: the model of the *unrepaired* `_asdict_anything` / `astuple`
  (members of a collection-valued key converted with `is_key=False`; `cf(items)` tried first, so a one-field
  namedtuple receives the list; `astuple` without `filter=` for instances in dict keys / values) fails the
  specification on each of the three former witnesses, the current model passes.
  Nothing else depends on this file.
-/
import AttrsModel.Spec.C13

namespace Attrs.C13.Old

/-- what the code does: `try: cf(items) except TypeError: (re-raise unless tuple subclass) cf(*items)`.
    For a namedtuple type with exactly one field `cf(items)` does not raise: the field receives the list. -/
def codeColl (k : CKind) (items : List Out) : Except String Out :=
  match k with
  | .ntuple ty =>
    if items.length == 1 then .ok (.coll false (.ntuple ty) [.coll false .list items])
    else .ok (.coll false (.ntuple ty) items)
  | _ => pyColl k items

/-! ## `asdict` (recurse=True) and `_asdict_anything` -/

mutual
/-- `_asdict_anything(val, is_key, filter, dict_factory, retain_collection_types, value_serializer)` -/
def anything (o : Opts) (isKey : Bool) : PVal → Except String Out
  | .atom a => .ok (serLeaf o.ser a)
  | .inst c _ fs => (fieldsD o c fs).map (Out.record o.df)
  | .coll k xs =>
    (itemsD o xs).bind (codeColl (if o.retain then k else if isKey then .tuple else .list))
  | .dict _ ps => (pairsD o ps).bind (pyDict o.df)
/-- the body of `asdict`'s loop for one field that passed the filter, `recurse=True`:
    serializer first, then the four branches on the *serialized* value -/
def fieldD (o : Opts) (c : Nat) (f : FI) : PVal → Except String Out
  | .atom a => .ok (serFieldAtom o.ser c f a)
  | .inst c' h fs =>
    if o.ser == .wrap then .ok (.ser (some c) (some f.name) (embed (.inst c' h fs)))
    else (fieldsD o c' fs).map (Out.record o.df)
  | .coll k xs =>
    if o.ser == .wrap then .ok (.ser (some c) (some f.name) (embed (.coll k xs)))
    else (itemsD o xs).bind (codeColl (if o.retain then k else .list))
  | .dict k ps =>
    if o.ser == .wrap then .ok (.ser (some c) (some f.name) (embed (.dict k ps)))
    else (pairsD o ps).bind (pyDict o.df)
/-- `asdict`'s loop over `fields(inst.__class__)` -/
def fieldsD (o : Opts) (c : Nat) : List (FI × PVal) → Except String (List (String × Out))
  | [] => .ok []
  | (f, v) :: r =>
    if passes o.filter f v then consE ((fieldD o c f v).map (fun x => (f.name, x))) (fieldsD o c r)
    else fieldsD o c r
def itemsD (o : Opts) : List PVal → Except String (List Out)
  | [] => .ok []
  | v :: r => consE (anything o false v) (itemsD o r)
def pairsD (o : Opts) : List (PVal × PVal) → Except String (List (Out × Out))
  | [] => .ok []
  | (k, v) :: r => consE (pairE (anything o true k) (anything o false v)) (pairsD o r)
end

/-- `asdict(inst, recurse, …)`; `fields(inst.__class__)` raises for anything but an attrs instance -/
def asdictTop (o : Opts) (recurse : Bool) : PVal → Except String Out
  | .inst c _ fs =>
    if recurse then (fieldsD o c fs).map (Out.record o.df) else .ok (.record o.df (flatD o c fs))
  | _ => .error "notAnAttrsClass"

mutual
/-- `astuple`'s loop (`recurse=True`) with filter `flt`: the list `rv` -/
def tupleOf (o : Opts) (flt : Filter) : List (FI × PVal) → Except String (List Out)
  | [] => .ok []
  | (f, v) :: r => if passes flt f v then consE (tfield o flt v) (tupleOf o flt r) else tupleOf o flt r
/-- the four branches for one field value -/
def tfield (o : Opts) (flt : Filter) : PVal → Except String Out
  | .atom a => .ok (.atom a)
  | .inst _ _ fs => (tupleOf o flt fs).map (tfOut o.tf)
  | .coll k xs => (tmembers o flt xs).bind (codeColl (if o.retain then k else .list))
  | .dict dk ps => (tpairs o ps).bind (pyDict (if o.retain then dk else .dict))
/-- `astuple(j, …) if has(j.__class__) else j` -/
def tmember (o : Opts) (flt : Filter) : PVal → Except String Out
  | .inst _ _ fs => (tupleOf o flt fs).map (tfOut o.tf)
  | .atom a => .ok (.atom a)
  | .coll k xs => .ok (embed (.coll k xs))
  | .dict k ps => .ok (embed (.dict k ps))
def tmembers (o : Opts) (flt : Filter) : List PVal → Except String (List Out)
  | [] => .ok []
  | v :: r => consE (tmember o flt v) (tmembers o flt r)
/-- dict keys and values: `astuple(kk, tuple_factory=…, retain_collection_types=…)` — no `filter=` -/
def tpairs (o : Opts) : List (PVal × PVal) → Except String (List (Out × Out))
  | [] => .ok []
  | (k, v) :: r => consE (pairE (tmember o .none k) (tmember o .none v)) (tpairs o r)
end

def astupleTop (o : Opts) (recurse : Bool) : PVal → Except String Out
  | .inst _ _ fs =>
    if recurse then (tupleOf o o.filter fs).map (tfOut o.tf) else .ok (tfOut o.tf (flatT o.filter fs))
  | _ => .error "notAnAttrsClass"

def run (c : Case) : Except String Out :=
  match c.api with
  | .asdict => asdictTop c.opts c.recurse c.value
  | .astuple => astupleTop c.opts c.recurse c.value

def model (c : Case) : Obs :=
  { result := Res.ofExcept (run c), argUnchanged := true,
    roundtrip := if roundtripApplies c then some true else none,
    faultFired := false, stable := true,
    filterCalls := if isOkE (run c) then expectedCalls c .filter else none,
    serCalls := if isOkE (run c) then expectedCalls c .ser else none }

end Attrs.C13.Old

namespace Attrs.C13

/-! ### the three former witnesses (also `corpus/C13/k13?-witness.json`) -/

def fx : FI := { name := "x", sig := 0, init := true }
def fy : FI := { name := "y", sig := 1, init := true }
def int (n : Nat) : PVal := .atom (.int n)

/-- `asdict(C({((1,), 2): 3}, 4))` -/
def witnessK13a : Case :=
  { api := .asdict, ng := false, recurse := true, retain := false, filter := .none, dictFactory := .dict,
    tupleFactory := .tuple, ser := .off, fault := none, subst := none,
    value := .inst 0 none [(fx, .dict .dict [(.coll .tuple [.coll .tuple [int 1], int 2], int 3)]), (fy, int 4)] }

/-- `asdict(C(NT1(1), 4), retain_collection_types=True)` -/
def witnessK13b : Case :=
  { api := .asdict, ng := false, recurse := true, retain := true, filter := .none, dictFactory := .dict,
    tupleFactory := .tuple, ser := .off, fault := none, subst := none,
    value := .inst 0 none [(fx, .coll (.ntuple 0) [int 1]), (fy, int 4)] }

/-- `astuple(C({1: C(2, 3)}, 4), filter=exclude("y"))` -/
def witnessK13c : Case :=
  { api := .astuple, ng := false, recurse := true, retain := false, filter := .excl [] ["y"] [],
    dictFactory := .dict, tupleFactory := .tuple, ser := .off, fault := none, subst := none,
    value := .inst 0 none [(fx, .dict .dict [(int 1, .inst 0 none [(fx, int 2), (fy, int 3)])]), (fy, int 4)] }

theorem old_fails_K13a : spec witnessK13a (Old.model witnessK13a) = false := by decide
theorem old_fails_K13b : spec witnessK13b (Old.model witnessK13b) = false := by decide
theorem old_fails_K13c : spec witnessK13c (Old.model witnessK13c) = false := by decide

end Attrs.C13
