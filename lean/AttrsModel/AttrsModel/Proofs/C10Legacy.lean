/-
  C10 — the legacy tuple state: `slots_setstate` assigns `zip(state_attr_names, state)` positionally.
-/
import AttrsModel.Proofs.C10Main

namespace Attrs.C10

/-- distinct keys: a sequence of raw writes leaves, under each key, the value listed for it -/
theorem read_setMany_nodup {L : Layout} (st : List (String × Val)) (hnd : (st.map (·.1)).Nodup)
    {i i' : Inst} (h : setMany (osetattr L) i st = some i') (m : String) :
    read L i' m = match lookup m st with
      | some v => some v
      | none => read L i m := by
  induction st generalizing i with
  | nil => simp only [setMany, Option.some.injEq] at h; subst h; simp [lookup]
  | cons p r ih =>
    cases p with
    | mk n v =>
      simp only [setMany] at h
      cases h1 : osetattr L i n v with
      | none => rw [h1] at h; simp at h
      | some i1 =>
        rw [h1] at h
        simp only [List.map_cons, List.nodup_cons] at hnd
        rw [ih hnd.2 h, read_osetattr h1]
        simp only [lookup]
        by_cases hnm : n = m
        · subst hnm
          have : lookup n r = none := by
            cases hl : lookup n r with
            | none => rfl
            | some w => exact absurd (List.mem_map.2 ⟨(n, w), lookup_mem r hl, rfl⟩) hnd.1
          simp [this]
        · have : ¬ m = n := fun e => hnm e.symm
          simp [hnm, this]

theorem zip_keys_sublist (names : List String) (vals : List Val) :
    ((names.zip vals).map (·.1)).Sublist names := by
  induction names generalizing vals with
  | nil => simp
  | cons n r ih =>
    cases vals with
    | nil => simp
    | cons v vs => simpa using ih vs

def tokAt (i : Nat) : Val := .tok ("t" ++ toString i)

theorem legacyVals_eq (len : Nat) : legacyVals len = (List.range' 0 len).map tokAt := by
  unfold legacyVals; rw [List.range_eq_range']; rfl

theorem lookup_zip_range (names : List String) (k len : Nat) (n : String) :
    lookup n (names.zip ((List.range' k len).map tokAt)) =
      if n ∈ names ∧ indexOf n names < len then some (tokAt (k + indexOf n names)) else none := by
  induction names generalizing k len with
  | nil => simp [lookup]
  | cons m r ih =>
    cases len with
    | zero => simp [lookup]
    | succ len =>
      rw [List.range'_succ]
      simp only [List.map_cons, List.zip_cons_cons, lookup, indexOf]
      by_cases hmn : m = n
      · subst hmn; simp
      · have hnm : ¬ n = m := fun e => hmn e.symm
        simp only [hmn, if_false, ih, List.mem_cons, hnm, false_or, Nat.add_lt_add_iff_right]
        by_cases hc : n ∈ r ∧ indexOf n r < len
        · simp only [hc, and_self, if_true]
          congr 2
          omega
        · simp [hc]

/-- **legacy tuple state**: for an arbitrary list of distinct names and an arbitrary tuple, the generated
    `__setstate__` leaves under every name the value at the same position of the tuple (names beyond the
    tuple's length stay unset); the cache is reset when the class caches -/
theorem setstateTuple_read {L : Layout} {names : List String} {cache : Bool} {vals : List Val} {y : Inst}
    (hnd : names.Nodup) (h : setstateTuple L Inst.empty names cache vals = some y) (m : String)
    (hm : m ≠ CACHE ∨ cache = false) : read L y m = lookup m (names.zip vals) := by
  unfold setstateTuple at h
  cases h1 : setMany (osetattr L) Inst.empty (names.zip vals) with
  | none => rw [h1] at h; simp at h
  | some y1 =>
    rw [h1] at h
    have key : read L y1 m = lookup m (names.zip vals) := by
      rw [read_setMany_nodup _ (List.Nodup.sublist (zip_keys_sublist names vals) hnd) h1, read_empty]
      cases lookup m (names.zip vals) <;> rfl
    cases hc : cache with
    | false =>
      rw [hc] at h
      simp only [Bool.false_eq_true, if_false, Option.some.injEq] at h
      subst h; exact key
    | true =>
      rw [hc] at h
      simp only [if_true] at h
      have hm' : m ≠ CACHE := by
        rcases hm with hm | hm
        · exact hm
        · rw [hc] at hm; cases hm
      rw [read_osetattr_ne h hm']; exact key

theorem setstateTuple_some {L : Layout} (names : List String) (cache : Bool) (vals : List Val)
    (hw : ∀ n ∈ names, writable L n = true) (hc : cache = true → writable L CACHE = true) :
    ∃ y, setstateTuple L Inst.empty names cache vals = some y := by
  unfold setstateTuple
  have : ∀ p ∈ names.zip vals, writable L p.1 = true := by
    intro p hp
    have : p.1 ∈ (names.zip vals).map (·.1) := List.mem_map.2 ⟨p, hp, rfl⟩
    exact hw _ ((zip_keys_sublist names vals).subset this)
  obtain ⟨y1, h1⟩ := setMany_some _ this Inst.empty
  rw [h1]
  cases cache with
  | false => exact ⟨y1, by simp⟩
  | true => simpa using osetattr_some_of_writable (hc rfl) y1 .none

/-- the legacy operation meets its specification on every well-formed case -/
theorem legacy_meets_spec (c : Case) (hwf : wf c = true) (len : Nat) (hop : c.op = .legacy len) :
    spec c (model c) = true := by
  obtain ⟨i0, W⟩ := wf_unpack hwf
  have I := inv_summarize (fullChain c)
  obtain ⟨x, hxe, _, _⟩ := history_spec I W c.hashedBefore
  obtain ⟨f, hfe, _, _⟩ := history_spec I W false
  have hne : ∀ n ∈ (summarize (fullChain c)).names, n ≠ CACHE := fun n hn => mem_names_ne_cache I W.ok hn
  unfold spec model
  simp only [hop, hxe, hfe, gsNames, legacyRun]
  cases hg : (summarize (fullChain c)).gs with
  | dflt => simp
  | user => simp
  | gen names cache own =>
    simp only
    have hsub := I.gsSub _ _ _ hg
    have hnd := I.gsNodup W.ok _ _ _ hg
    have hcn : CACHE ∉ names := fun h => hne _ (hsub _ h) rfl
    obtain ⟨y, hy⟩ := setstateTuple_some (L := (summarize (fullChain c)).layout) names cache (legacyVals len)
      (fun n hn => writable_of_read (W.allSet n (hsub n hn)))
      (fun hc => by subst hc; exact I.gsCacheW _ _ hg)
    rw [hy]
    simp only [observeCopy, beq_self_eq_true, Bool.true_and, beq_iff_eq]
    apply List.map_congr_left
    intro n hn
    rw [setstateTuple_read hnd hy n (Or.inl (hne n hn)), legacyVals_eq, lookup_zip_range]
    by_cases hc : n ∈ names ∧ indexOf n names < len
    · simp [hc, tokAt, Val.str]
    · have : (names.contains n && decide (indexOf n names < len)) = false := by
        simp only [List.contains_eq_mem, Bool.and_eq_false_iff, decide_eq_false_iff_not]
        by_cases h1 : n ∈ names
        · right; exact fun h2 => hc ⟨h1, h2⟩
        · left; exact h1
      simp [hc]


end Attrs.C10
