/-
  C14 — the checks `attrs.wrap` reaches (in code order) fire exactly on the documented error conditions.
-/
import AttrsModel.Proofs.C14Link

namespace Attrs.C14

def eqOrderErr (c : Case) : Bool := match eqOrderOf c with | .error _ => true | .ok _ => false
def clsOnSetErr (c : Case) : Bool := match clsOnSet c with | .error _ => true | .ok _ => false

theorem firstError_none_iff (c : Case) :
    firstError c = none ↔
      (eqOrderErr c = false ∧ clsOnSetErr c = false ∧ (hasCustomSetattr c && isFrozen c) = false ∧
       (strFlag c && !reprDec c && !hasOwn (classDict c.body) "__repr__") = false ∧ (hooks c && hasCustomSetattr c) = false ∧
       (hashLocal c == .bad) = false ∧ (cacheHash c && hashDec c != .gen) = false ∧
       (isFrozen c && effective (builderOnSet c)) = false ∧ (!initDec c && cacheHash c) = false) := by
  unfold firstError eqOrderErr clsOnSetErr
  grind

theorem eqOrderErr_eq (c : Case) (hcmp : c.api = .attrS ∨ c.fCmp = .unset) :
    eqOrderErr c = (cmpMix c || orderNeedsEq c) := by
  unfold eqOrderErr
  rw [eqOrderOf_eq c hcmp]
  cases (cmpMix c || orderNeedsEq c) <;> simp

theorem clsOnSetErr_eq (c : Case) : clsOnSetErr c = frozenBaseHook c := by
  unfold clsOnSetErr
  cases h : frozenBaseHook c
  · obtain ⟨o, ho, _⟩ := (clsOnSet_eq c).2 h
    rw [ho]
  · rw [(clsOnSet_eq c).1 h]

theorem ite_bad (x : HTri) (b : Bool) :
    ((if (x == .non && b) = true then HTri.f else x) == .bad) = (x == .bad) := by
  cases x <;> cases b <;> decide

theorem hashLocal_bad (c : Case) : (hashLocal c == .bad) = (sHash c == .bad) := by
  unfold hashLocal
  rw [Bool.and_assoc, ite_bad, hashArg_eq]
  cases sHash c <;> decide

/-- the documented error list, with the two definitions of Proofs/C14Link folded -/
theorem expectErr_eq (c : Case) :
    expectErr c =
      (cmpMix c || orderNeedsEq c || frozenBaseHook c || (sAuto c && owns c "__setattr__" && sFrozen c) ||
       (sStr c && !wantRepr c && !owns c "__repr__") || (sHooks c && sAuto c && owns c "__setattr__") || (sHash c == .bad) ||
       (sCacheHash c && (wantHash c != .gen || !wantInit c)) || (sFrozen c && sOnSet c != .off)) := by
  unfold expectErr cmpMix orderNeedsEq frozenBaseHook
  simp only [Bool.and_assoc]

/-- **the checks of `attrs.wrap`, in code order, raise exactly on the documented conditions** -/
theorem firstError_none_iff_expectErr (c : Case) (hcmp : c.api = .attrS ∨ c.fCmp = .unset) :
    firstError c = none ↔ expectErr c = false := by
  have hrepr : hasOwn (classDict c.body) "__repr__" = owns c "__repr__" := by
    rw [hasOwn_classDict]; simp [owns]
  rw [firstError_none_iff, expectErr_eq, eqOrderErr_eq c hcmp, clsOnSetErr_eq, hasCustomSetattr_eq,
    isFrozen_eq, strFlag_eq, reprDec_eq, hashLocal_bad, cacheHash_eq, initDec_eq, hrepr]
  by_cases h1 : (cmpMix c || orderNeedsEq c) = true
  · simp [h1]
  have h1' : (cmpMix c || orderNeedsEq c) = false := by simpa using h1
  by_cases h2 : frozenBaseHook c = true
  · simp [h2]
  have h2' : frozenBaseHook c = false := by simpa using h2
  rw [effective_builderOnSet c h2']
  by_cases h3 : (sFrozen c && sOnSet c != .off) = true
  · have : sFrozen c = true := by simp at h3; exact h3.1
    simp [this]
    intros; simp_all
  have h3' : (sFrozen c && sOnSet c != .off) = false := by simpa using h3
  rw [hooks_eq c h2' h3']
  by_cases h4 : sHash c = .bad
  · simp [h4]
  rw [hashDec_eq c hcmp h1' h4]
  have h4' : (sHash c == .bad) = false := by simpa using h4
  rw [h1', h2', h3', h4']
  cases hf : sFrozen c
  · simp
    cases sAuto c <;> cases owns c "__setattr__" <;> cases sStr c <;> cases wantRepr c <;> cases owns c "__repr__" <;>
      cases sHooks c <;> cases sCacheHash c <;> cases wantInit c <;> cases wantHash c <;> simp
  · have : (sOnSet c != .off) = false := by simpa [hf] using h3'
    simp [this]
    cases sAuto c <;> cases owns c "__setattr__" <;> cases sStr c <;> cases wantRepr c <;> cases owns c "__repr__" <;>
      cases sHooks c <;> cases sCacheHash c <;> cases wantInit c <;> cases wantHash c <;> simp

end Attrs.C14
