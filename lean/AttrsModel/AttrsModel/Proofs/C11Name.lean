/-
  C11 — the class-name fragment: `__qualname__.rsplit(">.", 1)[-1]` of a class statement nested in
  functions and classes is the dotted path of the scopes after the last function.
-/
import AttrsModel.Spec.C11Base

namespace Attrs.C11

/-- a prefix without `>` is invisible to the search for the last `">."` -/
theorem findAfterLast_append_of_noGt (p x : List Char) (hp : ∀ c ∈ p, c ≠ '>') :
    findAfterLast (p ++ x) = findAfterLast x := by
  induction p with
  | nil => rfl
  | cons c p ih =>
    have hc : c ≠ '>' := hp c List.mem_cons_self
    have ih' := ih fun d hd => hp d (List.mem_cons_of_mem _ hd)
    simp only [List.cons_append, findAfterLast, ih', hc, if_false]
    cases findAfterLast x <;> rfl

theorem findAfterLast_noGt (x : List Char) (hx : ∀ c ∈ x, c ≠ '>') : findAfterLast x = none := by
  have := findAfterLast_append_of_noGt x [] hx
  simpa [findAfterLast] using this

def seg (s : Scope) : List Char := s.name.toList ++ (if s.fn then ".<locals>.".toList else ['.'])

def qual (scopes : List Scope) (tail : List Char) : List Char := (scopes.map seg).flatten ++ tail

theorem qualChars_eq (c : Cls) : qualChars c = qual c.scopes c.name.toList := rfl

def plain (scopes : List Scope) (tail : List Char) : List Char :=
  (scopes.map fun s => s.name.toList ++ ['.']).flatten ++ tail

theorem qual_eq_plain (scopes : List Scope) (tail : List Char) (h : scopes.any (·.fn) = false) :
    qual scopes tail = plain scopes tail := by
  induction scopes with
  | nil => rfl
  | cons s rest ih =>
    simp only [List.any_cons, Bool.or_eq_false_iff] at h
    have := ih h.2
    simp only [qual, plain, List.map_cons, List.flatten_cons, List.append_assoc] at this ⊢
    simp [seg, h.1, this]

theorem afterLastFn_of_none (scopes : List Scope) (h : scopes.any (·.fn) = false) :
    afterLastFn scopes = scopes := by
  cases scopes with
  | nil => rfl
  | cons s rest =>
    simp only [List.any_cons, Bool.or_eq_false_iff] at h
    simp [afterLastFn, h.1, h.2]

theorem locals_chars : ".<locals>.".toList = ['.', '<', 'l', 'o', 'c', 'a', 'l', 's'] ++ ('>' :: '.' :: []) := by
  decide

/-- **the search finds the text after the last function scope** -/
theorem findAfterLast_qual (scopes : List Scope) (tail : List Char)
    (hn : ∀ s ∈ scopes, ∀ c ∈ s.name.toList, c ≠ '>') (ht : ∀ c ∈ tail, c ≠ '>') :
    findAfterLast (qual scopes tail) =
      if scopes.any (·.fn) then some (plain (afterLastFn scopes) tail) else none := by
  induction scopes with
  | nil => simpa [qual] using findAfterLast_noGt tail ht
  | cons s rest ih =>
    have ih' := ih fun t ht' => hn t (List.mem_cons_of_mem _ ht')
    have hs := hn s List.mem_cons_self
    have hq : qual (s :: rest) tail = seg s ++ qual rest tail := by
      simp [qual, List.append_assoc]
    rw [hq]
    cases hf : s.fn with
    | false =>
      have hseg : ∀ c ∈ seg s, c ≠ '>' := by
        intro c hc
        simp only [seg, hf, Bool.false_eq_true, if_false, List.mem_append, List.mem_singleton] at hc
        rcases hc with hc | rfl
        · exact hs c hc
        · decide
      rw [findAfterLast_append_of_noGt _ _ hseg, ih']
      cases hr : rest.any (·.fn) <;> simp [afterLastFn, hf, hr]
    | true =>
      have hpre : ∀ c ∈ s.name.toList ++ ['.', '<', 'l', 'o', 'c', 'a', 'l', 's'], c ≠ '>' := by
        intro c hc
        rcases List.mem_append.1 hc with hc | hc
        · exact hs c hc
        · intro h; subst h; revert hc; decide
      have hseg : seg s ++ qual rest tail =
          (s.name.toList ++ ['.', '<', 'l', 'o', 'c', 'a', 'l', 's']) ++ ('>' :: '.' :: qual rest tail) := by
        simp [seg, hf, locals_chars, List.append_assoc]
      rw [hseg, findAfterLast_append_of_noGt _ _ hpre]
      simp only [findAfterLast, ih', if_true]
      cases hr : rest.any (·.fn) with
      | true => simp [afterLastFn, hr]
      | false => simp [afterLastFn, hr, hf, qual_eq_plain rest tail hr]

theorem identLike_noGt (s : String) (h : identLike s = true) : ∀ c ∈ s.toList, c ≠ '>' := by
  intro c hc heq
  subst heq
  simp only [identLike, Bool.and_eq_true, List.all_eq_true] at h
  have := h.2 _ hc
  revert this
  decide

/-- **C11_qualname**: for classes with identifier-like names the generated name fragment is the
    documented one -/
theorem displayName_eq (c : Cls) (h : c.wf = true) : displayName c = specName c := by
  unfold displayName specName
  cases c.reprNs with
  | some ns => rfl
  | none =>
    simp only [Cls.wf, Bool.and_eq_true, List.all_eq_true] at h
    obtain ⟨⟨⟨hname, hsc⟩, _⟩, _⟩ := h
    have h1 : ∀ s ∈ c.scopes, ∀ ch ∈ s.name.toList, ch ≠ '>' :=
      fun s hs => identLike_noGt s.name (hsc s hs)
    have h2 := identLike_noGt c.name hname
    have := findAfterLast_qual c.scopes c.name.toList h1 h2
    simp only [rsplitLocals, qualChars_eq, this]
    congr 1
    cases hf : c.scopes.any (·.fn) with
    | true => simp [dotted, plain]
    | false =>
      simp [dotted, plain, qual_eq_plain _ _ hf, afterLastFn_of_none _ hf]

end Attrs.C11
