/-
  C07 — re-declaring the class under test through another front-end gives the same build.
-/
import AttrsModel.Proofs.C07Main

namespace Attrs.C07

theorem mroOf_replaceLast {cs : List Cls} {last last' : Cls} (h : cs.getLast? = some last)
    (hm : last'.mro = last.mro) : mroOf (replaceLast cs last') = mroOf cs := by
  funext b
  have hd := decomp_last h
  unfold mroOf replaceLast
  conv => rhs; rw [hd]
  by_cases hb : b < cs.dropLast.length
  · rw [List.getElem?_append_left hb, List.getElem?_append_left hb]
  · have hb' : cs.dropLast.length ≤ b := by omega
    rw [List.getElem?_append_right hb', List.getElem?_append_right hb']
    cases hq : b - cs.dropLast.length with
    | zero => simp [hm]
    | succ j => simp

theorem resolve_replaceLast {c : Case} (x : Ctx c) (last' : Cls) (hm : last'.mro = x.last.mro) :
    resolve (replaceLast c.classes last') =
      .ok (x.tbl, last', buildClass (mroOf c.classes) x.tbl x.tbl.length last') := by
  unfold resolve
  rw [mroOf_replaceLast x.hlast hm]
  simp only [replaceLast, List.getLast?_concat, List.dropLast_concat, x.hbt]

theorem feKind_cases (fe : Frontend) : feKind fe = .attrS ∨ feKind fe = .define := by
  cases fe <;> simp [feKind]

/-- building the class through any other front-end gives the same result -/
theorem buildClass_twin {c : Case} (W : WfFacts c) (hk : known c = []) (x : Ctx c) (fe0 fe : Frontend)
    (ds : List Decl) (hEq : x.last = encodeCls x.last fe0 ds) :
    buildClass (mroOf c.classes) x.tbl x.tbl.length (encodeCls x.last fe ds) =
      buildClass (mroOf c.classes) x.tbl x.tbl.length x.last := by
  have hkindL : x.last.kind = feKind fe0 := by rw [hEq]; rfl
  have hownL : specOwn x.last = declAttrs ds := by rw [hEq]; exact specOwn_encode _ _ _
  have hmrL : mustRaiseUnannotated x.last = false := by rw [hEq]; exact mustRaise_encode _ _ _
  have hnpL : x.last.kind ≠ .plain := by rw [hEq]; exact kind_encode _ _ _
  rw [buildClass_eq _ _ _ _ (kind_encode _ _ _), buildClass_eq _ _ _ _ hnpL, mustRaise_encode, hmrL,
    specOwn_encode, hownL]
  simp only [Bool.false_eq_true, if_false]
  rw [finish_congr _ _ _ (encodeCls x.last fe ds) x.last _ _ rfl rfl rfl]
  -- only the collection mode can differ
  have hb1 : byMroEff (encodeCls x.last fe ds) = (feKind fe == .define || x.last.collectByMro) := rfl
  rw [hb1]
  by_cases hcm : x.last.collectByMro = true
  · simp [byMroEff, hcm]
  · have hcm' : x.last.collectByMro = false := by simpa using hcm
    have hkA : x.last.kind = .attrS := by
      rcases feKind_cases fe0 with h | h
      · rw [hkindL, h]
      · -- define always collects by MRO (wf)
        have hw := W.cls _ _ x.lastGet
        simp only [wfCls, Bool.and_eq_true, Bool.or_eq_true, bne_iff_ne, ne_eq] at hw
        obtain ⟨⟨⟨⟨_, hd⟩, _⟩, _⟩, _⟩ := hw
        rcases hd with hd | hd
        · exact absurd (hkindL.trans h) hd
        · exact absurd hd hcm
    have hbL : byMroEff x.last = false := by simp [byMroEff, hkA, hcm', kind_beq_ad]
    rw [hbL]
    rcases feKind_cases fe with h | h
    · simp [h, hcm', kind_beq_ad]
    · simp only [h, kind_beq_dd, Bool.true_or]
      have hleg := legacy_eq_mro x hk hkA hcm'
      rw [hownL] at hleg
      unfold finish preList
      simp only [if_true, Bool.false_eq_true, if_false, declAttrs] at hleg ⊢
      rw [hleg]

theorem twin_eq {c : Case} (W : WfFacts c) (hk : known c = []) (x : Ctx c) (fe0 : Frontend) (ds : List Decl)
    (habs : c.abs = some (fe0, ds)) (fe : Frontend) :
    twinFields c fe =
      if (buildClass (mroOf c.classes) x.tbl x.tbl.length x.last).err.isSome then none
      else some ((buildClass (mroOf c.classes) x.tbl x.tbl.length x.last).attrs.map toObs) := by
  have hEq : x.last = encodeCls x.last fe0 ds := by
    have := W.abs
    simp only [habs, x.lastCls] at this
    exact this.1
  simp only [twinFields, x.hlast, habs, fieldsOf, resolve_replaceLast x (encodeCls x.last fe ds) rfl,
    buildClass_twin W hk x fe0 fe ds hEq]

end Attrs.C07
