/-
  C19 (a) — the operational model of the converter combinators refines the reference evaluator.
-/
import AttrsModel.Spec.C19Conv

namespace Attrs.C19.Conv

theorem callArgs_eq (ts tf : Bool) (v : Val) (i f : String) :
    callArgs ts tf v i f = [v.render] ++ (if ts then [i] else []) ++ (if tf then [f] else []) := by
  cases ts <;> cases tf <;> simp [callArgs]

theorem fmtArgs_eq (ts tf : Bool) (v : Val) (i f : String) :
    fmtArgs ts tf v i f = [v.render] ++ (if ts then [i] else []) ++ (if tf then [f] else []) := by
  cases ts <;> cases tf <;> simp [fmtArgs]

@[simp] theorem isConverter_fn (n b) : (Obj.fn n b).isConverter = false := rfl
@[simp] theorem isConverter_userConv (n b ts tf) : (Obj.userConv n b ts tf).isConverter = true := rfl
@[simp] theorem isConverter_wrapConv (o) : (Obj.wrapConv o).isConverter = true := rfl
@[simp] theorem isConverter_pipe3 (cs) : (Obj.pipe3 cs).isConverter = false := rfl
@[simp] theorem isConverter_pipe1 (cs) : (Obj.pipe1 cs).isConverter = false := rfl
@[simp] theorem isConverter_opt3 (c) : (Obj.opt3 c).isConverter = false := rfl
@[simp] theorem isConverter_opt1 (c) : (Obj.opt1 c).isConverter = false := rfl
@[simp] theorem isConverter_dinV (d) : (Obj.dinV d).isConverter = false := rfl
@[simp] theorem isConverter_dinF (g b) : (Obj.dinF g b).isConverter = false := rfl

theorem build_pipe_conv (cs : List ConvTree) (h : (buildL cs).any Obj.isConverter = true) :
    build (.pipe cs) = .wrapConv (.pipe3 (buildL cs)) := by simp [build, h]
theorem build_pipe_plain (cs : List ConvTree) (h : (buildL cs).any Obj.isConverter = false) :
    build (.pipe cs) = .pipe1 (buildL cs) := by simp [build, h]
theorem build_opt_conv (c : ConvTree) (h : (build c).isConverter = true) :
    build (.optional c) = .wrapConv (.opt3 (build c)) := by simp [build, h]
theorem build_opt_plain (c : ConvTree) (h : (build c).isConverter = false) :
    build (.optional c) = .opt1 (build c) := by simp [build, h]

mutual
theorem applyObj_build : ∀ (t : ConvTree) (i f : String) (v : Val) (tr : Trace),
    applyObj (build t) v i f tr = ref t i f v tr
  | .fn n b, i, f, v, tr => by simp [applyObj, build, call, ref]
  | .conv n b ts tf, i, f, v, tr => by
    simp [applyObj, build, call, ref, callArgs_eq]
  | .pipe cs, i, f, v, tr => by
    by_cases h : (buildL cs).any Obj.isConverter = true
    · rw [build_pipe_conv cs h]
      simp only [applyObj, isConverter_wrapConv, if_true, call, ref]
      exact loop3_buildL cs i f v tr
    · have h' : (buildL cs).any Obj.isConverter = false := by simpa using h
      rw [build_pipe_plain cs h']
      simp only [applyObj, isConverter_pipe1, Bool.false_eq_true, if_false, call, ref]
      exact loop1_buildL cs i f v tr h'
  | .optional c, i, f, v, tr => by
    have ih := applyObj_build c i f
    by_cases h : (build c).isConverter = true
    · simp only [applyObj, h, if_true] at ih
      rw [build_opt_conv c h]
      cases v <;> simp [applyObj, call, ref, Val.isNone, ih]
    · have h' : (build c).isConverter = false := by simpa using h
      simp only [applyObj, h'] at ih
      rw [build_opt_plain c h']
      simp only [Bool.false_eq_true, if_false] at ih
      cases v <;> simp [applyObj, call, ref, Val.isNone, ih]
  | .dinV d, i, f, v, tr => by
    cases v <;> simp [applyObj, build, call, ref, Val.isNone]
  | .dinF g b, i, f, v, tr => by
    cases v <;> simp [applyObj, build, call, ref, Val.isNone]
theorem loop3_buildL : ∀ (cs : List ConvTree) (i f : String) (v : Val) (tr : Trace),
    loop3 (buildL cs) v i f tr = refL cs i f v tr
  | [], i, f, v, tr => by simp [buildL, loop3, refL]
  | c :: cs, i, f, v, tr => by
    have h1 := applyObj_build c i f v tr
    unfold applyObj at h1
    simp only [buildL, loop3, refL, h1]
    rcases ref c i f v tr with ⟨r, tr'⟩
    cases r with
    | ok v' => simp only [bindO]; exact loop3_buildL cs i f v' tr'
    | exc e => simp [bindO]
theorem loop1_buildL : ∀ (cs : List ConvTree) (i f : String) (v : Val) (tr : Trace),
    (buildL cs).any Obj.isConverter = false → loop1 (buildL cs) v tr = refL cs i f v tr
  | [], i, f, v, tr, _ => by simp [buildL, loop1, refL]
  | c :: cs, i, f, v, tr, h => by
    simp only [buildL, List.any_cons, Bool.or_eq_false_iff] at h
    have h1 := applyObj_build c i f v tr
    simp only [applyObj, h.1] at h1
    simp only [buildL, loop1, refL]
    rw [show call (build c) (Args.one v) tr = ref c i f v tr from by simpa using h1]
    rcases ref c i f v tr with ⟨r, tr'⟩
    cases r with
    | ok v' => simp only [bindO]; exact loop1_buildL cs i f v' tr' h.2
    | exc e => simp [bindO]
end

/-- the generated `__init__` call coincides with applying the object to (value, self, field) -/
theorem initApply_eq_applyObj (t : ConvTree) (v : Val) (fname : String) (tr : Trace) :
    initApply (build t) v fname tr = applyObj (build t) v selfText (fieldText fname) tr := by
  cases t with
  | fn n b => simp [initApply, applyObj, build]
  | conv n b ts tf =>
    simp [initApply, applyObj, build, call, callArgs_eq, fmtArgs_eq]
  | pipe cs =>
    by_cases h : (buildL cs).any Obj.isConverter = true
    · rw [build_pipe_conv cs h]; simp [initApply, applyObj, call]
    · rw [build_pipe_plain cs (by simpa using h)]; simp [initApply, applyObj]
  | optional c =>
    by_cases h : (build c).isConverter = true
    · rw [build_opt_conv c h]; simp [initApply, applyObj, call]
    · rw [build_opt_plain c (by simpa using h)]; simp [initApply, applyObj]
  | dinV d => simp [initApply, applyObj, build]
  | dinF g b => simp [initApply, applyObj, build]

/-! ### the reference evaluator: fold, append, faults -/

theorem bindO_exc (e : Exc) (tr : Trace) (k : Val → Trace → Out) : bindO (.exc e, tr) k = (.exc e, tr) := rfl
theorem bindO_ok (v : Val) (tr : Trace) (k : Val → Trace → Out) : bindO (.ok v, tr) k = k v tr := rfl

theorem bindO_assoc (o : Out) (k1 k2 : Val → Trace → Out) :
    bindO (bindO o k1) k2 = bindO o (fun v tr => bindO (k1 v tr) k2) := by
  rcases o with ⟨r, tr⟩; cases r <;> rfl

/-- left-to-right Kleisli fold over a list of steps -/
def foldK (steps : List (Val → Trace → Out)) (o : Out) : Out :=
  steps.foldl (fun acc k => bindO acc k) o

theorem foldK_exc (steps : List (Val → Trace → Out)) (e : Exc) (tr : Trace) :
    foldK steps (.exc e, tr) = (.exc e, tr) := by
  induction steps with
  | nil => rfl
  | cons k ks ih => simpa [foldK, bindO] using ih

theorem refL_eq_foldK (cs : List ConvTree) (i f : String) (v : Val) (tr : Trace) :
    refL cs i f v tr = foldK (cs.map (fun c => ref c i f)) (.ok v, tr) := by
  induction cs generalizing v tr with
  | nil => simp [refL, foldK]
  | cons c cs ih =>
    simp only [refL, List.map_cons, foldK, List.foldl_cons, bindO_ok]
    rcases h : ref c i f v tr with ⟨r, tr'⟩
    cases r with
    | ok v' => simpa [bindO, foldK] using ih v' tr'
    | exc e => simpa [bindO, foldK] using (foldK_exc _ e tr').symm

theorem refL_append (as bs : List ConvTree) (i f : String) (v : Val) (tr : Trace) :
    refL (as ++ bs) i f v tr = bindO (refL as i f v tr) (refL bs i f) := by
  induction as generalizing v tr with
  | nil => simp [refL, bindO]
  | cons a as ih =>
    simp only [List.cons_append, refL]
    rcases ref a i f v tr with ⟨r, tr'⟩
    cases r with
    | ok v' => simpa [bindO] using ih v' tr'
    | exc e => simp [bindO]

/-! ### flattening nested pipes -/

mutual
/-- the members of a pipe with nested pipes inlined, to any depth -/
def flat : ConvTree → List ConvTree
  | .pipe cs => flatL cs
  | .fn n b => [.fn n b]
  | .conv n b ts tf => [.conv n b ts tf]
  | .optional c => [.optional c]
  | .dinV d => [.dinV d]
  | .dinF g b => [.dinF g b]
def flatL : List ConvTree → List ConvTree
  | [] => []
  | c :: cs => flat c ++ flatL cs
end

mutual
theorem refL_flat : ∀ (t : ConvTree) (i f : String) (v : Val) (tr : Trace),
    refL (flat t) i f v tr = ref t i f v tr
  | .pipe cs, i, f, v, tr => by simp only [flat, ref]; exact refL_flatL cs i f v tr
  | .fn n b, i, f, v, tr => by
    simp only [flat, refL]; rcases ref (.fn n b) i f v tr with ⟨r, tr'⟩; cases r <;> rfl
  | .conv n b ts tf, i, f, v, tr => by
    simp only [flat, refL]; rcases ref (.conv n b ts tf) i f v tr with ⟨r, tr'⟩; cases r <;> rfl
  | .optional c, i, f, v, tr => by
    simp only [flat, refL]; rcases ref (.optional c) i f v tr with ⟨r, tr'⟩; cases r <;> rfl
  | .dinV d, i, f, v, tr => by
    simp only [flat, refL]; rcases ref (.dinV d) i f v tr with ⟨r, tr'⟩; cases r <;> rfl
  | .dinF g b, i, f, v, tr => by
    simp only [flat, refL]; rcases ref (.dinF g b) i f v tr with ⟨r, tr'⟩; cases r <;> rfl
theorem refL_flatL : ∀ (cs : List ConvTree) (i f : String) (v : Val) (tr : Trace),
    refL (flatL cs) i f v tr = refL cs i f v tr
  | [], i, f, v, tr => by simp [flatL]
  | c :: cs, i, f, v, tr => by
    simp only [flatL, refL_append, refL]
    rw [refL_flat c i f v tr]
    congr 1
    funext v' tr'
    exact refL_flatL cs i f v' tr'
end

/-! ### faults, history, context -/

theorem callFn_exc {n : String} {b : Beh} {args : List String} {tr tr' : Trace} {e : Exc}
    (h : callFn n b args tr = (.exc e, tr')) : e = .user n := by
  cases b <;> simp [callFn] at h <;> exact h.1.symm

theorem callFactory_exc {g : String} {b : Beh} {tr tr' : Trace} {e : Exc}
    (h : callFactory g b tr = (.exc e, tr')) : e = .user g := by
  cases b <;> simp [callFactory] at h <;> exact h.1.symm

mutual
/-- the only exceptions are those raised by user functions (in particular never an arity `TypeError`) -/
theorem ref_exc_user : ∀ (t : ConvTree) (i f : String) (v : Val) (tr tr' : Trace) (e : Exc),
    ref t i f v tr = (.exc e, tr') → ∃ n, e = .user n
  | .fn n b, i, f, v, tr, tr', e, h => ⟨n, callFn_exc (by simpa [ref] using h)⟩
  | .conv n b ts tf, i, f, v, tr, tr', e, h => ⟨n, callFn_exc (by simpa [ref] using h)⟩
  | .pipe cs, i, f, v, tr, tr', e, h => refL_exc_user cs i f v tr tr' e (by simpa [ref] using h)
  | .optional c, i, f, v, tr, tr', e, h => by
    cases v with
    | none => simp [ref, Val.isNone] at h
    | v s => exact ref_exc_user c i f _ tr tr' e (by simpa [ref, Val.isNone] using h)
    | fresh g n => exact ref_exc_user c i f _ tr tr' e (by simpa [ref, Val.isNone] using h)
  | .dinV d, i, f, v, tr, tr', e, h => by simp [ref] at h
  | .dinF g b, i, f, v, tr, tr', e, h => by
    cases v with
    | none => exact ⟨g, callFactory_exc (by simpa [ref, Val.isNone] using h)⟩
    | v s => simp [ref, Val.isNone] at h
    | fresh g n => simp [ref, Val.isNone] at h
theorem refL_exc_user : ∀ (cs : List ConvTree) (i f : String) (v : Val) (tr tr' : Trace) (e : Exc),
    refL cs i f v tr = (.exc e, tr') → ∃ n, e = .user n
  | [], i, f, v, tr, tr', e, h => by simp [refL] at h
  | c :: cs, i, f, v, tr, tr', e, h => by
    simp only [refL] at h
    rcases hc : ref c i f v tr with ⟨r, tr1⟩
    rw [hc] at h
    cases r with
    | ok v' => exact refL_exc_user cs i f v' tr1 tr' e (by simpa [bindO] using h)
    | exc e' =>
      simp only [bindO, Prod.mk.injEq, Res.exc.injEq] at h
      obtain ⟨n, hn⟩ := ref_exc_user c i f v tr tr1 e' hc
      exact ⟨n, by rw [← h.1, hn]⟩
end

theorem callFn_trace (n : String) (b : Beh) (args : List String) (tr : Trace) :
    (callFn n b args tr).2 = tr ++ [callText n args] := by
  cases b <;> simp [callFn]

theorem callFactory_trace (g : String) (b : Beh) (tr : Trace) :
    (callFactory g b tr).2 = tr ++ [callText g []] := by
  cases b <;> simp [callFactory]

mutual
/-- the history is only ever extended -/
theorem ref_trace_extends : ∀ (t : ConvTree) (i f : String) (v : Val) (tr : Trace),
    ∃ evs, (ref t i f v tr).2 = tr ++ evs
  | .fn n b, i, f, v, tr => ⟨_, by simp only [ref]; exact callFn_trace ..⟩
  | .conv n b ts tf, i, f, v, tr => ⟨_, by simp only [ref]; exact callFn_trace ..⟩
  | .pipe cs, i, f, v, tr => by simp only [ref]; exact refL_trace_extends cs i f v tr
  | .optional c, i, f, v, tr => by
    by_cases h : v.isNone = true
    · exact ⟨[], by simp [ref, h]⟩
    · simp only [ref, h]; exact ref_trace_extends c i f v tr
  | .dinV d, i, f, v, tr => ⟨[], by simp [ref]⟩
  | .dinF g b, i, f, v, tr => by
    by_cases h : v.isNone = true
    · exact ⟨_, by simp only [ref, h, if_true]; exact callFactory_trace ..⟩
    · exact ⟨[], by simp [ref, h]⟩
theorem refL_trace_extends : ∀ (cs : List ConvTree) (i f : String) (v : Val) (tr : Trace),
    ∃ evs, (refL cs i f v tr).2 = tr ++ evs
  | [], i, f, v, tr => ⟨[], by simp [refL]⟩
  | c :: cs, i, f, v, tr => by
    obtain ⟨e1, h1⟩ := ref_trace_extends c i f v tr
    simp only [refL]
    rcases hc : ref c i f v tr with ⟨r, tr1⟩
    rw [hc] at h1
    simp only at h1
    cases r with
    | ok v' =>
      obtain ⟨e2, h2⟩ := refL_trace_extends cs i f v' tr1
      exact ⟨e1 ++ e2, by simp only [bindO]; rw [h2, h1, List.append_assoc]⟩
    | exc e => exact ⟨e1, by simpa [bindO] using h1⟩
end

mutual
/-- some `Converter` in the expression asks for the instance or the field -/
def usesCtx : ConvTree → Bool
  | .conv _ _ ts tf => ts || tf
  | .pipe cs => usesCtxL cs
  | .optional c => usesCtx c
  | _ => false
def usesCtxL : List ConvTree → Bool
  | [] => false
  | c :: cs => usesCtx c || usesCtxL cs
end

mutual
theorem ref_ctx_irrelevant : ∀ (t : ConvTree) (i f i' f' : String) (v : Val) (tr : Trace),
    usesCtx t = false → ref t i f v tr = ref t i' f' v tr
  | .fn n b, i, f, i', f', v, tr, _ => by simp [ref]
  | .conv n b ts tf, i, f, i', f', v, tr, h => by
    simp only [usesCtx, Bool.or_eq_false_iff] at h
    simp [ref, h.1, h.2]
  | .pipe cs, i, f, i', f', v, tr, h => by
    simp only [ref]; exact refL_ctx_irrelevant cs i f i' f' v tr (by simpa [usesCtx] using h)
  | .optional c, i, f, i', f', v, tr, h => by
    simp only [ref]; rw [ref_ctx_irrelevant c i f i' f' v tr (by simpa [usesCtx] using h)]
  | .dinV d, i, f, i', f', v, tr, _ => by simp [ref]
  | .dinF g b, i, f, i', f', v, tr, _ => by simp [ref]
theorem refL_ctx_irrelevant : ∀ (cs : List ConvTree) (i f i' f' : String) (v : Val) (tr : Trace),
    usesCtxL cs = false → refL cs i f v tr = refL cs i' f' v tr
  | [], i, f, i', f', v, tr, _ => by simp [refL]
  | c :: cs, i, f, i', f', v, tr, h => by
    simp only [usesCtxL, Bool.or_eq_false_iff] at h
    simp only [refL]
    rw [ref_ctx_irrelevant c i f i' f' v tr h.1]
    congr 1
    funext v' tr'
    exact refL_ctx_irrelevant cs i f i' f' v' tr' h.2
end

/-! ### the model meets the specification -/

theorem initFields_congr (a1 a2 : String → Val → Trace → Out) (h : ∀ n v tr, a1 n v tr = a2 n v tr)
    (fs : List Fld) (v : Val) (tr : Trace) : initFields a1 fs v tr = initFields a2 fs v tr := by
  induction fs generalizing tr with
  | nil => rfl
  | cons f fs ih => simp only [initFields, h, ih]

theorem assignFields_congr (cv : Bool) (a1 a2 : String → Val → Trace → Out) (h : ∀ n v tr, a1 n v tr = a2 n v tr)
    (fs : List Fld) (v : Val) (tr : Trace) : assignFields cv a1 fs v tr = assignFields cv a2 fs v tr := by
  induction fs generalizing tr with
  | nil => rfl
  | cons f fs ih => simp only [assignFields, h, ih]

theorem step_eq_refStep (c : Case) (v : Val) (tr : Trace) :
    step c (build c.tree) v tr = refStep c v tr := by
  cases hm : c.mode <;> simp only [step, refStep, hm, applyObj_build, initRun]
  · rw [initFields_congr _ (fun name v tr => ref c.tree selfText (fieldText name) v tr)]
    intro n v tr; rw [initApply_eq_applyObj, applyObj_build]
  · rw [initFields_congr _ (fun name v tr => ref c.tree selfText (fieldText name) v tr)]
    intro n v tr; rw [initApply_eq_applyObj, applyObj_build]

theorem runInputs_congr (s1 s2 : Val → Trace → List String × Trace) (h : ∀ v tr, s1 v tr = s2 v tr)
    (vs : List Val) (tr : Trace) : runInputs s1 vs tr = runInputs s2 vs tr := by
  induction vs generalizing tr with
  | nil => rfl
  | cons v vs ih => simp only [runInputs, h, ih]

theorem model_eq_expected (c : Case) : model c = expected c := by
  simp only [model, expected]
  rw [runInputs_congr _ _ (step_eq_refStep c)]

/-- each sharing field's `__init__` line hands the converter that field — never a sibling's: the stored values
    and the calls are those of converting with (self, attr.<own name>) field by field -/
theorem initFields_own_field (t : ConvTree) (fs : List Fld) (v : Val) (tr : Trace) :
    initFields (fun name v tr => initApply (build t) v name tr) fs v tr
      = initFields (fun name v tr => ref t selfText (fieldText name) v tr) fs v tr :=
  initFields_congr _ _ (fun n v tr => by rw [initApply_eq_applyObj, applyObj_build]) fs v tr

/-- fields without a converter in front of a converter field change nothing for it: with a convert hook the
    assignment to the converter field is converted in the history as it stood, whatever precedes it -/
theorem assignFields_after_hookless (apply : String → Val → Trace → Out) (pre : List Fld) (f : Fld)
    (hpre : ∀ g ∈ pre, g.kind = .validator ∨ g.kind = .plain) (hf : f.kind = .shared) (v : Val) (tr : Trace) :
    assignFields true apply (pre ++ [f]) v tr
      = (pre.map (fun _ => (Res.ok v).render) ++ [(apply f.name v tr).1.render], (apply f.name v tr).2) := by
  induction pre with
  | nil => simp [assignFields, hf]
  | cons g gs ih =>
    have hg := hpre g List.mem_cons_self
    have ih' := ih (fun x hx => hpre x (List.mem_cons_of_mem _ hx))
    rcases hg with hg | hg <;> simp [assignFields, hg, ih']

end Attrs.C19.Conv
