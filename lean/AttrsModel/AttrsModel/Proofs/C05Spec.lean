/-
  C05 — the model meets the specification: rendering/reading lemmas, one step, arbitrary histories.
-/
import AttrsModel.Proofs.C05Ops
import AttrsModel.Proofs.C05Init
import AttrsModel.Proofs.C05Classes

namespace Attrs.C05
open Attrs.Init

/-! ### reading a rendered snapshot -/

theorem lookupO_map (names : List String) (f : String → Option Val) (n : String)
    (h : names.contains n = true) : lookupO n (names.map (fun m => (m, f m))) = f n := by
  induction names with
  | nil => simp at h
  | cons m rest ih =>
    simp only [List.map_cons, lookupO]
    by_cases hm : (m == n) = true
    · rw [if_pos hm]; rw [beq_iff_eq] at hm; rw [hm]
    · rw [if_neg hm]
      apply ih
      simp only [List.contains_cons, Bool.or_eq_true] at h
      rcases h with h | h
      · exfalso; apply hm; rw [beq_iff_eq] at h ⊢; exact h.symm
      · exact h

theorem lookup_filterMap (names : List String) (f : String → Option Val) (n : String) :
    lookup n (names.filterMap (fun m => (f m).map (fun v => (m, v)))) =
      if names.contains n then f n else none := by
  induction names with
  | nil => simp [lookup]
  | cons m rest ih =>
    rw [List.filterMap_cons]
    by_cases hm : (m == n) = true
    · have hmn : m = n := by rwa [beq_iff_eq] at hm
      subst hmn
      cases hf : f m with
      | none =>
        simp only [Option.map_none]
        rw [ih]
        simp [hf]
      | some v => simp [lookup]
    · have hnm : (n == m) = false := by
        cases h : (n == m)
        · rfl
        · exfalso; apply hm; rw [beq_iff_eq] at h ⊢; exact h.symm
      have hne : n ≠ m := by intro h; rw [h] at hnm; simp at hnm
      cases hf : f m with
      | none =>
        simp only [Option.map_none]
        rw [ih]
        simp [List.contains_cons, hne]
      | some v =>
        simp only [Option.map_some, lookup]
        rw [if_neg hm, ih]
        simp [List.contains_cons, hne]

/-- attribute lookup on the rendering of a state: the slot if there is one, else the instance dict -/
theorem readSnap_render (c : Case) (s : IState) (n : String) :
    readSnap c (render c s) n =
      if c.slotNames.contains n then s.mem n .slot
      else if c.hasDict && c.names.contains n then s.mem n .dict else none := by
  unfold readSnap render
  dsimp only
  split
  · rename_i h; exact lookupO_map _ _ _ h
  · cases hd : c.hasDict with
    | false => simp [lookup]
    | true =>
      simp only [if_true, Bool.true_and]
      exact lookup_filterMap _ _ _

/-! ### the hash cache is the only thing `hash` may move -/

theorem dict_erase (names : List String) (f f' : String → Option Val) (h : ∀ m, m ≠ cacheName → f' m = f m) :
    (names.filterMap (fun m => (f' m).map (fun v => (m, v)))).filter (·.1 != cacheName) =
    (names.filterMap (fun m => (f m).map (fun v => (m, v)))).filter (·.1 != cacheName) := by
  induction names with
  | nil => rfl
  | cons m rest ih =>
    rw [List.filterMap_cons, List.filterMap_cons]
    by_cases hm : m = cacheName
    · subst hm
      cases f' cacheName <;> cases f cacheName <;> simp [ih]
    · rw [h m hm]
      cases f m with
      | none => simpa using ih
      | some v => simp only [Option.map_some, List.filter_cons, ih]

theorem slots_erase (names : List String) (f f' : String → Option Val) (h : ∀ m, m ≠ cacheName → f' m = f m) :
    (names.map (fun m => (m, f' m))).filter (·.1 != cacheName) =
    (names.map (fun m => (m, f m))).filter (·.1 != cacheName) := by
  induction names with
  | nil => rfl
  | cons m rest ih =>
    by_cases hm : m = cacheName
    · subst hm; simp [ih]
    · simp only [List.map_cons, List.filter_cons, h m hm, ih]

theorem eraseCache_write (c : Case) (s : IState) (l : Loc) (v : Option Val) :
    eraseCache (render c (s.write cacheName l v)) = eraseCache (render c s) := by
  have hmem : ∀ (L : Loc) m, m ≠ cacheName → (s.write cacheName l v).mem m L = s.mem m L := by
    intro L m hm
    simp [IState.write, hm]
  unfold eraseCache render
  dsimp only
  congr 1
  · split
    · exact dict_erase _ _ _ (hmem .dict)
    · rfl
  · exact slots_erase _ _ _ (hmem .slot)

/-! ### one step -/

/-- the snapshot an operation reports is the rendering of the state it leaves -/
theorem step_snap (c : Case) (lf : Leaf) (s : IState) (op : Op) :
    (step c lf s op).1.snap = render c (step c lf s op).2 := by
  cases op with
  | set n v => rfl
  | del n => rfl
  | aug n v => unfold step; dsimp only; split <;> rfl
  | hash =>
    unfold step; dsimp only
    split
    · rfl
    · split
      · rfl
      · split
        · rfl
        · split <;> rfl
  | copy => rfl
  | deepcopy => rfl
  | pickle p => rfl
  | evolve ch =>
    unfold step; dsimp only
    split
    · rfl
    · split <;> rfl
  | raise_ => rfl
  | raiseFrom => rfl
  | chain => rfl
  | withTb b => rfl
  | addNote v => unfold step; dsimp only; split <;> rfl

theorem resFlags_frozen (lf : Leaf) (hs : lf.rset = .frozen) : resFlags lf = ["fresh", "frozen"] := by
  simp [resFlags, hs]

theorem step_set_frozen (c : Case) (lf : Leaf) (s : IState) (n : String) (v : Val) (hs : lf.rset = .frozen) :
    step c lf s (.set n v) =
      ({ exc := (frozenSetattr c s n v).1, snap := render c (frozenSetattr c s n v).2, values := none, flags := [] },
       (frozenSetattr c s n v).2) := by
  obtain ⟨rs, rd, fz⟩ := lf
  simp only at hs
  subst hs
  rfl

theorem step_del_frozen (c : Case) (lf : Leaf) (s : IState) (n : String) (hd : lf.rdel = .frozen) :
    step c lf s (.del n) =
      ({ exc := (frozenDelattr c s n).1, snap := render c (frozenDelattr c s n).2, values := none, flags := [] },
       (frozenDelattr c s n).2) := by
  obtain ⟨rs, rd, fz⟩ := lf
  simp only at hd
  subst hd
  rfl

theorem frozenSet_book (c : Case) (s : IState) (n : String) (v : Val)
    (h : (c.excRoot && Generated.frozenExcSetNames.contains n) = true) :
    frozenSetattr c s n v = (none, { s with ex := bookSet s.ex n v }) := by
  unfold frozenSetattr
  rw [if_pos h]
  exact genericSet_book_mem c s n v h

theorem frozenDel_notes (c : Case) (s : IState) (hx : c.excRoot = true) :
    frozenDelattr c s "__notes__" =
      if s.ex.notes.isSome then (none, { s with ex := { s.ex with notes := none } }) else (some .attributeError, s) := by
  have h1 : (c.excRoot && Generated.frozenExcDelNames.contains "__notes__") = true := by rw [hx]; decide
  have h2 : (c.excRoot && bookNames.contains "__notes__") = true := by rw [hx]; decide
  unfold frozenDelattr
  rw [if_pos h1]
  unfold genericDel
  rw [if_pos h2]
  simp

theorem copy_ok (c : Case) (lf : Leaf) (s : IState) (hs : lf.rset = .frozen) (hg : c.gs ≠ .optOut)
    (hall : (fieldVals c (render c s)).all (·.2.isSome) = true) :
    copyResult c lf s = (none, some (fieldVals c (render c s))) := by
  unfold copyResult
  dsimp only
  cases hgs : c.gs with
  | optOut => exact absurd hgs hg
  | attrs => simp [hall]
  | dflt => rfl
  | other => rfl

/-- what `step` reports for copy / deepcopy / pickle -/
def copyObs (c : Case) (lf : Leaf) (s : IState) : StepObs :=
  { exc := (copyResult c lf s).1, snap := render c s, values := (copyResult c lf s).2,
    flags := if (copyResult c lf s).1.isNone then copyFlags c lf s else [] }

/-- **one step meets the specification**: on a leaf whose methods resolve to the frozen pair every
    operation of the alphabet does what `stepOk` demands, judged against the rendering of the state before -/
theorem stepOk_step (c : Case) (lf : Leaf) (s : IState) (op : Op)
    (hs : lf.rset = .frozen) (hd : lf.rdel = .frozen) (hwf : opWf c op = true)
    (hk : isCopyOp op = true → c.gs ≠ .optOut) :
    stepOk c (render c s) op (step c lf s op).1 = true := by
  have hcopy : ∀ o : StepObs, o = copyObs c lf s → c.gs ≠ .optOut →
      (o.snap == render c s &&
        (if (fieldVals c (render c s)).all (·.2.isSome) then
          o.exc == none && o.values == some (fieldVals c (render c s)) && o.flags.contains "fresh" && o.flags.contains "frozen" &&
          (!hashReady c (render c s) || (o.flags.contains "reshash" && o.flags.contains "twin"))
         else true)) = true := by
    intro o ho hg
    subst ho
    unfold copyObs
    by_cases hall : (fieldVals c (render c s)).all (·.2.isSome) = true
    · rw [if_pos hall, copy_ok c lf s hs hg hall]
      cases hh : hashReady c (render c s) <;> simp [copyFlags, hashFlags, resFlags_frozen lf hs, hh]
    · rw [if_neg hall]; simp
  cases op with
  | set n v =>
    unfold stepOk
    dsimp only
    rw [step_set_frozen c lf s n v hs]
    by_cases he : (c.excRoot && documentedSet.contains n) = true
    · have he' : (c.excRoot && Generated.frozenExcSetNames.contains n) = true := by rw [setNames_doc]; exact he
      rw [if_pos he, frozenSet_book c s n v he']
      simp [render]
    · have he' : (c.excRoot && Generated.frozenExcSetNames.contains n) = false := by
        rw [setNames_doc]; simpa using he
      rw [if_neg he, frozenSet_refuses c s n v he']
      simp
  | del n =>
    unfold stepOk
    dsimp only
    rw [step_del_frozen c lf s n hd]
    by_cases he : (c.excRoot && documentedDel.contains n) = true
    · have he' : (c.excRoot && Generated.frozenExcDelNames.contains n) = true := by rw [delNames_doc]; exact he
      rw [if_pos he]
      simp only [Bool.and_eq_true] at he'
      have hn := delNames_notes n he'.2
      subst hn
      rw [frozenDel_notes c s he'.1]
      cases hnotes : s.ex.notes with
      | none => simp [render, hnotes]
      | some l => simp [render, hnotes]
    · have he' : (c.excRoot && Generated.frozenExcDelNames.contains n) = false := by
        rw [delNames_doc]; simpa using he
      rw [if_neg he, frozenDel_refuses c s n he']
      simp
  | aug n v =>
    simp only [opWf, Bool.and_eq_true, Bool.not_eq_true'] at hwf
    have he' : (c.excRoot && Generated.frozenExcSetNames.contains n) = false := by
      rw [setNames_book, hwf.1]; simp
    unfold stepOk readable
    dsimp only
    cases hr : readSnap c (render c s) n with
    | none => simp [step, hr]
    | some cur =>
      have : step c lf s (.aug n v) = step c lf s (.set n (cur ++ v)) := by
        simp only [step, hr]
      rw [this, step_set_frozen c lf s n (cur ++ v) hs, frozenSet_refuses c s n (cur ++ v) he']
      simp
  | hash =>
    unfold stepOk readable
    dsimp only
    cases hn : c.hashNames with
    | none => simp [step, hn]
    | some ns =>
      unfold step
      dsimp only
      rw [hn]
      dsimp only
      split
      · rename_i h1
        simp only [Bool.and_eq_true] at h1
        simp [h1.1, h1.2]
      · split
        · simp
        · split
          · dsimp only
            split
            · simp [eraseCache_write]
            · simp
          · rename_i h3
            simp [h3]
  | copy =>
    simp only [opWf, Bool.and_eq_true, Bool.not_eq_true', bne_iff_ne, ne_eq] at hwf
    exact hcopy _ rfl (hk rfl)
  | deepcopy =>
    simp only [opWf, Bool.and_eq_true, Bool.not_eq_true', bne_iff_ne, ne_eq] at hwf
    exact hcopy _ rfl (hk rfl)
  | pickle p =>
    exact hcopy _ rfl (hk rfl)
  | evolve ch =>
    unfold stepOk step
    dsimp only
    split
    · simp
    · split
      · rename_i e he
        have := runInit_not_frozenInstance { effInit c lf.frozen with call := C12.evolveCall c.init.run.attrs (fieldVals c (render c s)) ch }
        rw [he] at this
        have hne : e ≠ .frozenInstance := fun hc => this (by rw [hc])
        simp [hne]
      · rename_i ho
        cases hh : evolveReady c (runInit { effInit c lf.frozen with call := C12.evolveCall c.init.run.attrs (fieldVals c (render c s)) ch }).values <;>
          simp [evolveFlags, hashFlags, resFlags_frozen lf hs, hh]
  | raise_ => simp [stepOk, step, render]
  | raiseFrom => simp [stepOk, step, render]
  | chain => simp [stepOk, step, render]
  | withTb b => simp [stepOk, step, render]
  | addNote v =>
    simp only [opWf] at hwf
    have he' : (c.excRoot && Generated.frozenExcSetNames.contains "__notes__") = true := by
      rw [hwf]; decide
    unfold stepOk
    dsimp only
    cases hnotes : s.ex.notes with
    | some l => simp [step, render, hnotes]
    | none =>
      have : step c lf s (.addNote v) = step c lf s (.set "__notes__" v) := by
        simp only [step, hnotes]
      rw [this, step_set_frozen c lf s "__notes__" v hs, frozenSet_book c s "__notes__" v he']
      simp [render, hnotes, bookSet]

/-- **arbitrary histories meet the specification** -/
theorem stepsOk_runOps (c : Case) (lf : Leaf) (s : IState) (ops : List Op)
    (hs : lf.rset = .frozen) (hd : lf.rdel = .frozen) (hwf : ops.all (opWf c) = true)
    (hk : ops.any isCopyOp = true → c.gs ≠ .optOut) :
    stepsOk c (render c s) ops (runOps c lf s ops) = true := by
  induction ops generalizing s with
  | nil => rfl
  | cons op rest ih =>
    simp only [List.all_cons, Bool.and_eq_true] at hwf
    unfold runOps stepsOk
    rw [stepOk_step c lf s op hs hd hwf.1 (fun h => hk (by simp [h])), step_snap]
    simp only [Bool.true_and]
    exact ih _ hwf.2 (fun h => hk (by simp [h]))

/-! ### the constructed instance -/

theorem leafOf_some (c : Case) (nodes : List Node) (lf : Leaf) (h : leafOf c nodes = some lf) :
    ∃ l rest, nodes = l :: rest ∧ lf.rset = l.rset ∧ lf.rdel = l.rdel := by
  unfold leafOf at h
  cases nodes with
  | nil => simp at h
  | cons l rest =>
    simp only [List.head?_cons] at h
    split at h
    · rename_i l' o hl ho
      injection h with h
      injection hl with hl
      subst hl
      exact ⟨l, rest, rfl, by rw [← h], by rw [← h]⟩
    · cases h

/-- the storage right after a well-formed constructor call, read through the rendering -/
theorem start_reads (c : Case) (fz : Bool) (hl : layoutWf c = true)
    (hb : BodyOK (effInit c fz).eff c.init.call) (hf : c.init.run.fault = none) (a : Attr) (ha : a ∈ c.init.run.attrs)
    (ex : ExcSnap) :
    readSnap c (render c { mem := (body (effInit c fz).eff (envOf c.init.run.attrs c.init.call)).mem, ex := ex }) a.name =
      C01.expectedValue c.init.run.attrs c.init.call a := by
  have hbs := (body_spec (effInit c fz).eff c.init.call hb).2.2 a ha
  have hfault : (effInit c fz).eff.fault = none := hf
  rw [hfault] at hbs
  simp only [hits_none, Bool.not_false, Bool.and_true] at hbs
  unfold layoutWf at hl
  simp only [Bool.and_eq_true, List.all_eq_true, beq_iff_eq, Bool.or_eq_true] at hl
  obtain ⟨⟨⟨⟨⟨hattrs, _⟩, _⟩, hdict⟩, _⟩, _⟩ := hl
  have h1 := hattrs a ha
  rw [readSnap_render]
  unfold St.read readLoc at hbs
  have hexp : C01.expectedValue c.init.run.attrs c.init.call a =
      (if participates a then some (expVal (effInit c fz).eff c.init.call a) else none) := by
    unfold C01.expectedValue expVal
    rfl
  rw [hexp, ← hbs]
  cases hs : a.isSlot with
  | true =>
    rw [hs] at h1
    rw [← h1.1]
    simp only [if_true]
    rfl
  | false =>
    rw [hs] at h1
    rw [← h1.1]
    have hd : c.hasDict = true := by
      rcases hdict with hd | hd
      · exact hd
      · have := hd a ha; rw [hs] at this; cases this
    have hm : a.name ∈ c.names := by simpa using h1.2
    simp only [hd, Bool.true_and, List.contains_eq_mem, hm, decide_true, if_true, Bool.false_eq_true, if_false]
    rfl

theorem start_cache (c : Case) (fz : Bool) (hl : layoutWf c = true) (hcache : c.init.run.cfg.cacheHash = true)
    (hmis : cacheMisplaced c fz = false)
    (hr : (body (effInit c fz).eff (envOf c.init.run.attrs c.init.call)).raised = none) (ex : ExcSnap) :
    readSnap c (render c { mem := (body (effInit c fz).eff (envOf c.init.run.attrs c.init.call)).mem, ex := ex }) cacheName =
      some "None" := by
  unfold layoutWf at hl
  simp only [Bool.and_eq_true, beq_iff_eq, Bool.or_eq_true, Bool.not_eq_true'] at hl
  obtain ⟨⟨⟨⟨⟨_, hnames⟩, hcs⟩, _⟩, hcd⟩, _⟩ := hl
  rw [hcache] at hcd
  rw [readSnap_render]
  dsimp only
  rw [body_stages] at hr ⊢
  have hc' : (effInit c fz).eff.cfg.cacheHash = true := hcache
  have hfz : (effInit c fz).eff.cfg.frozen = fz := rfl
  have hsl : (effInit c fz).eff.cfg.slots = c.init.run.cfg.slots := rfl
  have hci : (effInit c fz).eff.cacheIsSlot = c.init.run.cacheIsSlot := rfl
  have hr4 : (b4 (effInit c fz).eff (envOf c.init.run.attrs c.init.call)).raised = none := by
    unfold b5 at hr
    split at hr
    · exact hr
    · split at hr <;> exact hr
  unfold b5
  rw [hr4, hc', hfz, hsl, hci]
  simp only [Option.isSome_none, Bool.not_true, Bool.or_false, Bool.false_eq_true, if_false]
  unfold cacheMisplaced at hmis
  rw [hcache] at hmis
  simp only [Bool.true_and] at hmis
  have hname : Generated.hashCacheField = cacheName := rfl
  have hm : cacheName ∈ c.names := by simpa using hnames
  by_cases hfd : (fz && !c.init.run.cfg.slots) = true
  · rw [if_pos hfd]
    have hns : c.slotNames.contains cacheName = false := by
      simp only [Bool.and_eq_true] at hfd
      rw [hfd.1, hfd.2] at hmis
      simpa using hmis
    have hcis : c.init.run.cacheIsSlot = false := by rw [hcs, hns]
    have hd : c.hasDict = true := by
      rcases hcd with (hd | hd) | hd
      · cases hd
      · exact hd
      · rw [hcis] at hd; cases hd
    rw [hns, hname]
    simp [St.write, hd, hm]
  · rw [if_neg hfd]
    cases hcis : c.init.run.cacheIsSlot with
    | true =>
      rw [hcis] at hcs
      rw [← hcs, hname]
      simp [St.write]
    | false =>
      rw [hcis] at hcs
      have hd : c.hasDict = true := by
        rcases hcd with (hd | hd) | hd
        · cases hd
        · exact hd
        · rw [hcis] at hd; cases hd
      rw [← hcs, hname]
      simp [St.write, hd, hm]

end Attrs.C05
