/-
  C13 — one call: the model's result is the reference's (`runPlain c = realise (shape c)`), on every call.
-/
import AttrsModel.Proofs.C13RefineT
import AttrsModel.Proofs.C13RefineS
import AttrsModel.Proofs.C13Eqv

namespace Attrs.C13

theorem realise_serFlat (m : SerMode) (c : Nat) (f : FI) (v : PVal) :
    realise (serFlat m c f v) = .ok (serFlat m c f v) := by
  cases m <;> cases v <;> simp [serFlat, realise, realise_embed] <;> split <;> simp [realise]

theorem shapeDFlat_eq_flatD (o : Opts) (c : Nat) : ∀ fs : List (FI × PVal), shapeDFlat o c fs = flatD o c fs
  | [] => rfl
  | (f, v) :: r => by
    have ih := shapeDFlat_eq_flatD o c r
    by_cases hp : passes o.filter f v = true
    · cases hs : o.ser <;> cases v <;>
        simp [shapeDFlat, flatD, hp, hs, ih, serFlat, serAt, serAppliesV, serApplies, embed]
    · simp [shapeDFlat, flatD, hp, ih]

theorem realiseR_flatD (o : Opts) (c : Nat) : ∀ fs : List (FI × PVal),
    realiseR (flatD o c fs) = .ok (flatD o c fs)
  | [] => rfl
  | (f, v) :: r => by
    have ih := realiseR_flatD o c r
    by_cases hp : passes o.filter f v = true
    · simp [flatD, hp, realiseR, ih, realise_serFlat]
    · simp [flatD, hp, ih]

theorem realiseL_flatT (flt : Filter) : ∀ fs : List (FI × PVal), realiseL (flatT flt fs) = .ok (flatT flt fs)
  | [] => rfl
  | (f, v) :: r => by
    have ih := realiseL_flatT flt r
    by_cases hp : passes flt f v = true
    · simp [flatT, hp, realiseL, ih, realise_embed]
    · simp [flatT, hp, ih]

/-- **the refinement**: the code's result is the promised shape, built -/
theorem run_refines (c : Case) (s : Out) (hs : shape c = some s) : runPlain c = realise s := by
  unfold shape at hs
  cases hv : c.value with
  | atom a => simp [hv] at hs
  | coll k xs => simp [hv] at hs
  | dict k ps => simp [hv] at hs
  | inst cls h fs =>
    simp only [hv] at hs
    cases hapi : c.api <;> cases hrec : c.recurse <;> cases hsub : c.activeSubst <;>
      simp only [hapi, hrec, hsub, Option.some.injEq] at hs <;> subst hs
    · simp [runPlain, hapi, hv, asdictTop, hrec, realise, shapeDFlat_eq_flatD, realiseR_flatD, hsub]
    · rename_i sb
      simp [runPlain, hapi, hv, asdictTopS, hrec, realise, realiseR_flatS, hsub]
    · simp [runPlain, hapi, hv, asdictTop, hrec, realise, fieldsD_refines c.opts cls fs, hsub]
    · rename_i sb
      simp [runPlain, hapi, hv, asdictTopS, hrec, realise, fieldsS_refines c.opts sb cls fs, hsub]
    all_goals first
      | (simp [runPlain, hapi, hv, astupleTop, hrec, realise_tfOut, realiseL_flatT]; done)
      | (have := tupleOf_refines c.opts fs c.opts.filter
         rw [withFilter_self] at this
         simp [runPlain, hapi, hv, astupleTop, hrec, realise_tfOut, this])

/-! ### call counts, recurse=False -/

theorem cFlat_filter (o : Opts) (hf : o.filter ≠ .none) : ∀ fs : List (FI × PVal),
    cFlat o .filter fs = fs.length
  | [] => rfl
  | (f, v) :: r => by
    have ih := cFlat_filter o hf r
    have h1 : (o.filter != Filter.none) = true := by simpa using hf
    by_cases hp : passes o.filter f v = true <;> simp [cFlat, one, h1, hp, ih] <;> omega

theorem cFlat_ser (o : Opts) (hs : o.ser ≠ .off) : ∀ fs : List (FI × PVal),
    cFlat o .ser fs = (fs.filter (fun p => passes o.filter p.1 p.2)).length
  | [] => rfl
  | (f, v) :: r => by
    have ih := cFlat_ser o hs r
    have h1 : (o.ser != SerMode.off) = true := by simpa using hs
    by_cases hp : passes o.filter f v = true <;> simp [cFlat, one, h1, hp, ih] <;> omega

end Attrs.C13
