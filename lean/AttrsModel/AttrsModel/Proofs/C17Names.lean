/-
  C17 — the helper naming scheme as statements about prefixes and suffixes of arbitrary strings.
  A name is `prefix ++ fieldName ++ suffix`; everything here is proved for ALL field names through
  `String.toList` (a string is its list of characters: `String.toList_inj`, `String.toList_append`).
-/
import AttrsModel.Spec.C17

namespace Attrs.C17

theorem affix_toList (a : String × String) (n : String) :
    (affix a n).toList = a.1.toList ++ n.toList ++ a.2.toList := by
  simp [affix, String.toList_append]

/-- a naming function is injective, whatever its affixes are -/
theorem affix_injective (a : String × String) (n m : String) (h : affix a n = affix a m) : n = m := by
  have h' := congrArg String.toList h
  rw [affix_toList, affix_toList] at h'
  have h1 := List.append_cancel_right h'
  have h2 := List.append_cancel_left h1
  exact String.toList_inj.1 h2

/-- neither prefix is a prefix of the other, or neither suffix a suffix of the other -/
def incompatible (a b : String × String) : Bool :=
  (!a.1.toList.isPrefixOf b.1.toList && !b.1.toList.isPrefixOf a.1.toList) ||
  (!a.2.toList.isSuffixOf b.2.toList && !b.2.toList.isSuffixOf a.2.toList)

/-- two naming functions with incompatible affixes never produce the same name -/
theorem affix_disjoint (a b : String × String) (h : incompatible a b = true) (n m : String) :
    affix a n ≠ affix b m := by
  intro he
  have h' := congrArg String.toList he
  rw [affix_toList, affix_toList] at h'
  simp only [incompatible, Bool.or_eq_true, Bool.and_eq_true, Bool.not_eq_true'] at h
  rcases h with ⟨h1, h2⟩ | ⟨h1, h2⟩
  · have p1 : a.1.toList <+: a.1.toList ++ n.toList ++ a.2.toList := by
      rw [List.append_assoc]; exact List.prefix_append _ _
    have p2 : b.1.toList <+: a.1.toList ++ n.toList ++ a.2.toList := by
      rw [h', List.append_assoc]; exact List.prefix_append _ _
    rcases List.prefix_or_prefix_of_prefix p1 p2 with p | p
    · have := List.isPrefixOf_iff_prefix.2 p; simp [h1] at this
    · have := List.isPrefixOf_iff_prefix.2 p; simp [h2] at this
  · have s1 : a.2.toList <:+ a.1.toList ++ n.toList ++ a.2.toList := List.suffix_append _ _
    have s2 : b.2.toList <:+ a.1.toList ++ n.toList ++ a.2.toList := by
      rw [h']; exact List.suffix_append _ _
    rcases List.suffix_or_suffix_of_suffix s1 s2 with p | p
    · have := List.isSuffixOf_iff_suffix.2 p; simp [h1] at this
    · have := List.isSuffixOf_iff_suffix.2 p; simp [h2] at this

/-- could `s` be a name of that scheme at all? -/
def fits (a : String × String) (s : String) : Bool :=
  a.1.toList.isPrefixOf s.toList && a.2.toList.isSuffixOf s.toList &&
  decide (a.1.toList.length + a.2.toList.length ≤ s.toList.length)

/-- a naming function never produces a string that does not fit its affixes -/
theorem affix_ne_of_not_fits (a : String × String) (s : String) (h : fits a s = false) (n : String) :
    affix a n ≠ s := by
  intro he
  have h' := congrArg String.toList he
  rw [affix_toList] at h'
  have p1 : a.1.toList <+: s.toList := by
    rw [← h', List.append_assoc]; exact List.prefix_append _ _
  have p2 : a.2.toList <:+ s.toList := by
    rw [← h']; exact List.suffix_append _ _
  have p3 : a.1.toList.length + a.2.toList.length ≤ s.toList.length := by
    rw [← h']; simp only [List.length_append]; omega
  have e1 := List.isPrefixOf_iff_prefix.2 p1
  have e2 := List.isSuffixOf_iff_suffix.2 p2
  simp [fits, e1, e2, p3] at h

/-- every name attrs puts into the globals of generated methods without deriving it from a field -/
def allFixedNames : List String :=
  Generated.c17ReprFixed ++ Generated.c17EqFixed ++ Generated.c17HashFixed ++ Generated.c17InitFixed ++
  ["_config", "BaseException", "_cached_setattr_get"]

/-- the affixes of the kind of helper an object is -/
def schemeOf : Kind → Option (String × String)
  | .factory => some Generated.c17FactoryAffix
  | .validator => some Generated.c17ValidatorAffix
  | .attribute => some Generated.c17AttributeAffix
  | .converter => some Generated.c17ConverterAffix
  | .key => some Generated.c17EqKeyAffix
  | .reprFn => some Generated.c17ReprAffix
  | _ => none

/-- all pairs of different schemes have incompatible affixes (finite check on the affixes the
    source has now: six distinct prefixes inside the `__attr_` namespace) -/
theorem schemes_incompatible :
    ∀ k k' : Kind, ∀ a b, schemeOf k = some a → schemeOf k' = some b → k ≠ k' →
      incompatible a b = true := by
  intro k k' a b ha hb hne
  cases k <;> cases k' <;> simp_all [schemeOf] <;> subst ha <;> subst hb <;> decide

/-- no fixed helper name fits any scheme -/
theorem fixed_fit_no_scheme :
    ∀ k : Kind, ∀ a, schemeOf k = some a → ∀ s ∈ allFixedNames, fits a s = false := by
  intro k a ha
  cases k <;> simp_all [schemeOf] <;> subst ha <;> decide

theorem hashKey_eq_eqKey : Generated.c17HashKeyAffix = Generated.c17EqKeyAffix := by decide
theorem reprCall_eq_repr : Generated.c17ReprCallAffix = Generated.c17ReprAffix := by decide

end Attrs.C17
