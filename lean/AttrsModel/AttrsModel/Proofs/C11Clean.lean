/-
  C11 — residue freedom of the stateful model: every rendering restores the bookkeeping state it
  was entered with, whatever that state was and whether it returns, raises or runs out of fuel.
-/
import AttrsModel.Spec.C11Base

namespace Attrs.C11

/-! ### resumptions -/

@[simp] theorem run_done (a : α) (s : St) : (Prog.done a).run s = (s, a) := rfl
@[simp] theorem run_step (u : St → St) (k : St → Prog α) (s : St) :
    (Prog.step u k).run s = (k s).run (u s) := rfl

theorem run_bind (p : Prog α) (g : α → Prog β) (s : St) :
    (p.bind g).run s = (g (p.run s).2).run (p.run s).1 := by
  induction p generalizing s with
  | done a => rfl
  | step u k ih => simp [Prog.bind, ih]

/-! ### "restored" -/

/-- `s'` is `s` again: same guard list, same `already_repring` — except that an absent attribute
    may have been created, and is then empty -/
def Restored (s s' : St) : Prop :=
  s'.guard = s.guard ∧ (∀ a, s.already = some a → s'.already = some a) ∧
  (s.already = none → s'.already = none ∨ s'.already = some [])

theorem Restored.refl (s : St) : Restored s s := ⟨rfl, fun _ h => h, fun h => Or.inl h⟩

theorem Restored.trans {s t u : St} (h1 : Restored s t) (h2 : Restored t u) : Restored s u := by
  obtain ⟨g1, a1, n1⟩ := h1
  obtain ⟨g2, a2, n2⟩ := h2
  refine ⟨g2.trans g1, fun a h => a2 a (a1 a h), fun h => ?_⟩
  rcases n1 h with h' | h'
  · exact n2 h'
  · exact Or.inr (a2 _ h')

theorem Restored.alreadyL {s t : St} (h : Restored s t) : t.alreadyL = s.alreadyL := by
  obtain ⟨_, a1, n1⟩ := h
  cases hs : s.already with
  | some a => simp [St.alreadyL, a1 a hs, hs]
  | none => rcases n1 hs with h' | h' <;> simp [St.alreadyL, h', hs]

/-- a computation that restores the state, from every entry state -/
def Clean (p : Prog α) : Prop := ∀ s, Restored s (p.run s).1

theorem clean_done (a : α) : Clean (Prog.done a) := fun s => Restored.refl s

theorem clean_bind {p : Prog α} {g : α → Prog β} (hp : Clean p) (hg : ∀ a, Clean (g a)) :
    Clean (p.bind g) := by
  intro s
  rw [run_bind]
  exact (hp s).trans (hg _ _)

theorem clean_seqP (parts : List (String × Prog Out)) (h : ∀ x ∈ parts, Clean x.2) :
    Clean (seqP parts) := by
  induction parts with
  | nil => exact clean_done _
  | cons x rest ih =>
    obtain ⟨lbl, p⟩ := x
    simp only [seqP]
    refine clean_bind (h (lbl, p) List.mem_cons_self) fun r => ?_
    cases r with
    | ok s =>
      refine clean_bind (ih fun y hy => h y (List.mem_cons_of_mem _ hy)) fun rs => ?_
      cases rs <;> exact clean_done _
    | exc k => exact clean_done _
    | oof => exact clean_done _

theorem clean_render (pre post : String) (parts : List (String × Prog Out))
    (h : ∀ x ∈ parts, Clean x.2) : Clean (render pre post parts) := by
  unfold render
  refine clean_bind (clean_seqP parts h) fun rs => ?_
  cases rs <;> exact clean_done _

theorem clean_callRepr (armed : Bool) (tag : String) (rc : Bool) (fault : Fault) {inner : Prog Out}
    (h : Clean inner) : Clean (callRepr armed tag rc fault inner) := by
  unfold callRepr
  split
  · exact clean_done _
  · split
    · refine clean_bind h fun r => ?_
      cases r with
      | ok s => dsimp only; split <;> exact clean_done _
      | exc k => exact clean_done _
      | oof => exact clean_done _
    · split <;> exact clean_done _

theorem clean_tolerate (tol : Bool) {inner : Prog Out} (h : Clean inner) :
    Clean (tolerate tol inner) := by
  unfold tolerate
  split
  · exact clean_bind h fun _ => clean_done _
  · exact h

theorem clean_evalFrag (rec : Nat → Prog Out) (armed : Bool) (vals : List (String × Nat)) (fr : Frag)
    (h : ∀ i, Clean (rec i)) : Clean (evalFrag rec armed vals fr) := by
  unfold evalFrag
  cases hacc : access vals fr with
  | attrErr => exact clean_done _
  | val i =>
    dsimp only
    cases fr.fmt with
    | bangR => exact h i
    | callG t r f c => exact clean_callRepr _ _ _ _ (clean_tolerate c (h i))
  | nothing =>
    dsimp only
    cases fr.fmt with
    | bangR => exact clean_done _
    | callG t r f c => exact clean_callRepr _ _ _ _ (clean_tolerate c (clean_done _))

/-! ### the two guards -/

theorem erase_cons_self (id : Nat) (l : List Nat) : (id :: l).erase id = l := by
  simp [List.erase_cons_head]

theorem run_withFinally (id : Nat) (body : Prog Out) (s : St) :
    (withFinally id body).run s =
      ({ (body.run s).1 with already := (body.run s).1.already.map (·.erase id) },
       if (body.run s).1.alreadyL.contains id then (body.run s).2 else .exc "keyError") := by
  simp only [withFinally, run_bind, run_step, run_done]

theorem run_attrsRepr_none (id : Nat) (body : Prog Out) (s : St) (h : s.already = none) :
    (attrsRepr id body).run s = (withFinally id body).run { s with already := some [id] } := by
  unfold attrsRepr
  simp only [run_step, h]

theorem run_attrsRepr_hit (id : Nat) (body : Prog Out) (s : St) (a : List Nat)
    (h : s.already = some a) (hc : a.contains id = true) :
    (attrsRepr id body).run s = (s, .ok "...") := by
  have hL : s.alreadyL = a := by simp [St.alreadyL, h]
  unfold attrsRepr
  simp only [run_step, h, hc, hL, if_true, run_done]

theorem run_attrsRepr_miss (id : Nat) (body : Prog Out) (s : St) (a : List Nat)
    (h : s.already = some a) (hc : a.contains id = false) :
    (attrsRepr id body).run s = (withFinally id body).run { s with already := some (id :: a) } := by
  have hL : s.alreadyL = a := by simp [St.alreadyL, h]
  unfold attrsRepr
  simp only [run_step, h, hc, hL, addId, Bool.false_eq_true, ↓reduceIte]

theorem run_guarded_hit (id : Nat) (dots : String) (body : Prog Out) (s : St)
    (hc : s.guard.contains id = true) : (guarded id dots body).run s = (s, .ok dots) := by
  unfold guarded
  simp only [run_step, hc, if_true, run_done]

theorem run_guarded_miss (id : Nat) (dots : String) (body : Prog Out) (s : St)
    (hc : s.guard.contains id = false) :
    (guarded id dots body).run s =
      ({ (body.run { s with guard := id :: s.guard }).1 with
           guard := (body.run { s with guard := id :: s.guard }).1.guard.erase id },
       (body.run { s with guard := id :: s.guard }).2) := by
  unfold guarded
  simp only [run_step, hc, run_bind, run_done, Bool.false_eq_true, ↓reduceIte]

/-- the generated prologue / `finally` restore `already_repring`: the `finally` at work -/
theorem clean_attrsRepr (id : Nat) {body : Prog Out} (h : Clean body) : Clean (attrsRepr id body) := by
  intro s
  cases hs : s.already with
  | none =>
    rw [run_attrsRepr_none id body s hs, run_withFinally]
    obtain ⟨g, a1, _⟩ := h { s with already := some [id] }
    have ha := a1 [id] rfl
    refine ⟨g, fun a h' => by simp [hs] at h', fun _ => Or.inr ?_⟩
    simp [ha]
  | some a =>
    cases hc : a.contains id with
    | true =>
      rw [run_attrsRepr_hit id body s a hs hc]
      exact Restored.refl s
    | false =>
      rw [run_attrsRepr_miss id body s a hs hc, run_withFinally]
      obtain ⟨g, a1, _⟩ := h { s with already := some (id :: a) }
      have ha := a1 (id :: a) rfl
      refine ⟨g, fun a' h' => ?_, fun h' => by simp [hs] at h'⟩
      have : a' = a := by simpa [hs] using h'.symm
      subst this
      simp [ha]

/-- CPython's container guard likewise -/
theorem clean_guarded (id : Nat) (dots : String) {body : Prog Out} (h : Clean body) :
    Clean (guarded id dots body) := by
  intro s
  cases hc : s.guard.contains id with
  | true =>
    rw [run_guarded_hit id dots body s hc]
    exact Restored.refl s
  | false =>
    rw [run_guarded_miss id dots body s hc]
    obtain ⟨g, a1, n1⟩ := h { s with guard := id :: s.guard }
    refine ⟨?_, fun a h' => a1 a h', fun h' => n1 h'⟩
    simp only [g]
    exact erase_cons_self id s.guard

/-- **every rendering restores the state it was entered with** -/
theorem clean_reprNode (h : Heap) (armed : Bool) (fuel id : Nat) : Clean (reprNode h armed fuel id) := by
  induction fuel generalizing id with
  | zero => exact clean_done _
  | succ fuel ih =>
    unfold reprNode
    cases hn : h.nodes[id]? with
    | none => exact clean_done _
    | some node =>
      cases node with
      | atom s => exact clean_done _
      | list items =>
        refine clean_guarded _ _ (clean_render _ _ _ fun x hx => ?_)
        obtain ⟨i, _, rfl⟩ := List.mem_map.1 hx
        exact ih i
      | tuple items =>
        refine clean_guarded _ _ (clean_render _ _ _ fun x hx => ?_)
        obtain ⟨i, _, rfl⟩ := List.mem_map.1 hx
        exact ih i
      | dict items =>
        refine clean_guarded _ _ (clean_render _ _ _ fun x hx => ?_)
        obtain ⟨kv, _, rfl⟩ := List.mem_map.1 hx
        exact ih kv.2
      | inst ci vals =>
        dsimp only
        cases hc : h.classes[ci]? with
        | none => exact clean_done _
        | some c =>
          refine clean_bind (clean_attrsRepr _ (clean_render _ _ _ fun x hx => ?_)) fun _ => clean_done _
          obtain ⟨fr, _, rfl⟩ := List.mem_map.1 hx
          exact clean_evalFrag _ _ _ _ ih

theorem clean_strNode (h : Heap) (armed : Bool) (fuel id : Nat) : Clean (strNode h armed fuel id) := by
  unfold strNode
  split
  · split
    · split
      · exact clean_reprNode _ _ _ _
      · split
        · exact clean_done _
        · exact clean_reprNode _ _ _ _
    · exact clean_reprNode _ _ _ _
  · exact clean_reprNode _ _ _ _

end Attrs.C11
