/-
  C07 — the model's observation meets the Spec.
-/
import AttrsModel.Proofs.C07Twins

namespace Attrs.C07

theorem TInv_snoc {cs : List Cls} {tbl : Table} (M : Mros) (hinv : TInv cs tbl) {c : Cls}
    (hc : cs[tbl.length]? = some c) (herr : (buildClass M tbl tbl.length c).err = none) :
    TInv cs (tbl ++ [tableEntry c (buildClass M tbl tbl.length c)]) := by
  have : buildTable M [c] tbl = .ok (tbl ++ [tableEntry c (buildClass M tbl tbl.length c)]) := by
    simp [buildTable, herr]
  exact (buildTable_inv M cs [c] tbl _ (fun i k hk => by
    cases i with
    | zero => simp only [List.getElem?_cons_zero, Option.some.injEq] at hk; subst hk; simpa using hc
    | succ j => simp at hk) hinv this).1

theorem bne_none_iff (t : Tr) : (t != Tr.none) = !(t == Tr.none) := rfl

/-- what the Spec takes as "the list the tuple must be built from", on the model's output -/
theorem finalList_model (c : Case) (o : Obs) (pre : List Attr) (n : Nat)
    (hpre : specPre c.classes (lastCls c) = pre)
    (hrec : o.received = (if (lastCls c).tr != .none then some pre else none).map (·.map toObs))
    (hret : o.returned = (if (lastCls c).tr != .none then some (applyTr (lastCls c).tr n pre) else none).map (·.map toObs)) :
    finalList c o = some ((applyTr (lastCls c).tr n pre).map toObs) := by
  unfold finalList
  rw [hpre, hrec, hret]
  by_cases htr : (lastCls c).tr = .none
  · simp [htr, applyTr]
  · have h1 : ((lastCls c).tr == Tr.none) = false := by simpa using htr
    simp [bne_none_iff, h1]

theorem filter_toObs (l : List Attr) (p : FieldObs → Bool) :
    (l.map toObs).filter p = (l.filter (fun a => p (toObs a))).map toObs := by
  rw [List.filter_map]; rfl

theorem specViews_okObs {c : Case} (W : WfFacts c) (x : Ctx c)
    (B : Built) (hB : B = buildClass (mroOf c.classes) x.tbl x.tbl.length x.last) (herr : B.err = none) :
    specViews c (okObs c x.tbl x.last B) = true := by
  obtain ⟨hinv, hlen⟩ := x.inv
  have hne : c.classes.length ≠ 0 := by
    intro h; exact W.nonempty (List.eq_nil_of_length_eq_zero h)
  have hinv' : TInv c.classes (x.tbl ++ [tableEntry x.last B]) := by
    rw [hB]; exact TInv_snoc _ hinv x.lastGet (by rw [← hB]; exact herr)
  have hlen' : (x.tbl ++ [tableEntry x.last B]).length = c.classes.length := by simp; omega
  have hnames : (B.attrs.map toObs).map (·.name) = B.attrs.map (·.name) := by
    rw [List.map_map]; rfl
  simp only [specViews, okObs, hnames, beq_self_eq_true, Bool.true_and, Bool.and_true, List.length_map,
    List.length_range, List.isEmpty_map, Bool.and_eq_true]
  refine ⟨⟨⟨?_, ?_⟩, ?_⟩, ?_⟩
  · -- by name / fields_dict, names being distinct
    by_cases hnd : nodupStr (B.attrs.map (·.name)) = true
    · have hnd' := (nodupStr_iff _).1 hnd
      simp only [hnd, Bool.not_true, Bool.false_or, Bool.and_eq_true, beq_iff_eq]
      refine ⟨?_, dictKeys_eq _ [] hnd' (by simp)⟩
      apply List.map_congr_left
      intro p _
      rw [tupleProp_eq _ hnd', indexOf?_map, indexOf?_map]
      rfl
    · simp [hnd]
  · -- has
    rw [List.all_eq_true]
    intro b hb
    have hb' : b < c.classes.length := by simpa using hb
    obtain ⟨h1, h2⟩ := hasOf_spec W hinv' hlen' b hb'
    have hget : ((List.range c.classes.length).map
        (hasOf (mroOf c.classes) (x.tbl ++ [tableEntry x.last B])))[b]? =
          some (hasOf (mroOf c.classes) (x.tbl ++ [tableEntry x.last B]) b) := by
      simp [hb']
    rw [hget]
    simp only [Bool.and_eq_true, Bool.or_eq_true, Bool.not_eq_true', beq_iff_eq, Option.some.injEq]
    constructor
    · by_cases hA : isAttrsCls c.classes b = true
      · exact Or.inr (h1 hA)
      · exact Or.inl (by simpa using hA)
    · by_cases hP : (mroOf c.classes b).all (fun m => !isAttrsCls c.classes m) = true
      · exact Or.inr (h2 hP)
      · exact Or.inl (by simpa using hP)
  · -- match_args
    simp only [matchArgsOf, filter_toObs, List.map_map, beq_iff_eq]
    rfl
  · -- init parameters
    simp only [initParamsOf, filter_toObs, List.map_map, beq_iff_eq]
    rfl

end Attrs.C07

namespace Attrs.C07

theorem twins_all_eq {c : Case} (W : WfFacts c) (hk : known c = []) (x : Ctx c) (v : Option (List FieldObs))
    (hv : v = if (buildClass (mroOf c.classes) x.tbl x.tbl.length x.last).err.isSome then none
      else some ((buildClass (mroOf c.classes) x.tbl x.tbl.length x.last).attrs.map toObs)) :
    ∀ t ∈ c.twins.map (twinFields c), t = v := by
  intro t ht
  cases habs : c.abs with
  | none =>
    have := W.abs
    simp only [habs] at this
    simp [this] at ht
  | some p =>
    obtain ⟨fe0, ds⟩ := p
    obtain ⟨fe, _, rfl⟩ := List.mem_map.1 ht
    rw [twin_eq W hk x fe0 ds habs fe, hv]

theorem model_meets_spec (c : Case) (hwf : wf c = true) (hk : known c = []) : spec c (model c) = true := by
  have W := wf_facts c hwf
  -- the class under test exists in the case
  have hlast : ∃ last, c.classes.getLast? = some last := by
    cases hq : c.classes.getLast? with
    | none => exact absurd (List.getLast?_eq_none_iff.1 hq) W.nonempty
    | some l => exact ⟨l, rfl⟩
  obtain ⟨last, hlast⟩ := hlast
  cases hbt : buildTable (mroOf c.classes) c.classes.dropLast [] with
  | error e =>
    -- a base class failed
    obtain ⟨i, e⟩ := e
    have hi := buildTable_err _ _ _ hbt
    simp only [List.length_nil, List.length_dropLast, Nat.zero_add] at hi
    simp [model, resolve, hlast, hbt, spec, emptyObs, hi]
  | ok tbl =>
    let x : Ctx c := ⟨last, tbl, hlast, hbt⟩
    obtain ⟨hinv, hlen⟩ := x.inv
    have hlc : lastCls c = last := x.lastCls
    have hnp : last.kind ≠ .plain := by rw [← hlc]; exact W.lastKind
    have hB := buildClass_eq (mroOf c.classes) tbl tbl.length last hnp
    have hmodel : model c = obsOf c tbl last (buildClass (mroOf c.classes) tbl tbl.length last) := by
      simp [model, resolve, hlast, hbt]
    have hnlt : ¬ (tbl.length < c.classes.length - 1) := by
      have : tbl.length = c.classes.length - 1 := hlen
      omega
    have hbeq : (tbl.length == c.classes.length - 1) = true := by
      have : tbl.length = c.classes.length - 1 := hlen
      simp [this]
    by_cases hmr : mustRaiseUnannotated last = true
    · -- the documented UnannotatedAttributeError
      rw [hmodel, hB]
      simp [obsOf, hmr, Built.fail, errObs, emptyObs, spec, hnlt, hbeq, specErr, hlc]
    · have hmr' : mustRaiseUnannotated last = false := by simpa using hmr
      simp only [hmr', Bool.false_eq_true, if_false] at hB
      have hpre := preList_eq_specPre W hk x
      -- abbreviations
      generalize hF : finish (mroOf c.classes) tbl tbl.length last (byMroEff last) (specOwn last) = F at hB
      have hFrec : F.received = if last.tr != .none then some (specPre c.classes last) else none := by
        rw [← hF, ← hpre]; rfl
      have hFret : F.returned =
          if last.tr != .none then some (applyTr last.tr tbl.length (specPre c.classes last)) else none := by
        rw [← hF, ← hpre]; rfl
      have hFerr : F.err = if badOrder (applyTr last.tr tbl.length (specPre c.classes last)) then
          some .valueError else none := by
        rw [← hF, ← hpre]; rfl
      have hFattrs : F.attrs = if badOrder (applyTr last.tr tbl.length (specPre c.classes last)) then []
          else (applyTr last.tr tbl.length (specPre c.classes last)).map defaultAlias := by
        rw [← hF, ← hpre]; rfl
      have hfl : ∀ o : Obs, o.received = F.received.map (·.map toObs) →
          o.returned = F.returned.map (·.map toObs) →
          finalList c o = some ((applyTr last.tr tbl.length (specPre c.classes last)).map toObs) := by
        intro o h1 h2
        have := finalList_model c o (specPre c.classes last) tbl.length (by rw [hlc]) (by rw [hlc, h1, hFrec])
          (by rw [hlc, h2, hFret])
        rw [hlc] at this
        exact this
      have htw := twins_all_eq W hk x _ rfl
      rw [hmodel, hB]
      by_cases hbad : badOrder (applyTr last.tr tbl.length (specPre c.classes last)) = true
      · -- mandatory after default in what the transformer returned
        have he : F.err = some .valueError := by rw [hFerr]; simp [hbad]
        simp only [obsOf, he, spec, errObs, emptyObs, hnlt, hbeq, if_true, if_false, specErr]
        rw [hfl _ rfl rfl]
        simp only [obsBadOrder_toObs, Bool.and_eq_true, List.all_eq_true]
        refine ⟨by simpa [badOrder] using hbad, ?_⟩
        intro t ht
        have := htw t ht
        simp only [x, hB, he, Option.isSome_some, if_true] at this
        simp [this]
      · have he : F.err = none := by rw [hFerr]; simp [hbad]
        have hat : F.attrs = (applyTr last.tr tbl.length (specPre c.classes last)).map defaultAlias := by
          rw [hFattrs]; simp [hbad]
        simp only [obsOf, he, spec]
        have hok : (okObs c tbl last F).err = none := rfl
        simp only [hok, specOk, hlc, hmr', Bool.not_false, Bool.true_and, Bool.and_eq_true]
        refine ⟨⟨⟨?_, ?_⟩, ?_⟩, ?_⟩
        · rw [hfl _ rfl rfl]
          simp only [okObs, hat, List.map_map, beq_iff_eq]
          apply List.map_congr_left
          intro a _
          exact toObs_defaultAlias a
        · exact specViews_okObs W x F hB.symm he
        · simp [okObs]
        · rw [List.all_eq_true]
          intro t ht
          have := htw t ht
          simp only [x, hB, he, Option.isSome_none, Bool.false_eq_true, if_false] at this
          simp [this, okObs]

end Attrs.C07
