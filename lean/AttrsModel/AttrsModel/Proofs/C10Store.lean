/-
  C10 — storage lemmas: attribute lookup vs `object.__setattr__`, sequences of writes, state extraction
  (`slots_getstate`) and restoration (`slots_setstate`) for arbitrary name lists.
-/
import AttrsModel.Spec.C10

namespace Attrs.C10

/-- `object.__setattr__(inst, n, …)` can store `n`: there is a slot or a `__dict__` -/
def writable (L : Layout) (n : String) : Bool := decide (n ∈ L.slotNames) || L.hasDict

theorem osetattr_isSome (L : Layout) (i : Inst) (n : String) (v : Val) :
    (osetattr L i n v).isSome = writable L n := by
  unfold osetattr writable
  by_cases h : n ∈ L.slotNames
  · simp [h]
  · cases hd : L.hasDict <;> simp [h]

theorem osetattr_some_of_writable {L : Layout} {n : String} (h : writable L n = true) (i : Inst) (v : Val) :
    ∃ i', osetattr L i n v = some i' := by
  have := osetattr_isSome L i n v
  rw [h] at this
  exact Option.isSome_iff_exists.1 this

theorem writable_of_read {L : Layout} {i : Inst} {n : String} (h : (read L i n).isSome = true) :
    writable L n = true := by
  unfold read at h
  unfold writable
  by_cases hs : n ∈ L.slotNames
  · simp [hs]
  · cases hd : L.hasDict <;> simp [hs, hd] at h ⊢

/-- reading after one raw write -/
theorem read_osetattr {L : Layout} {i i' : Inst} {n : String} {v : Val} (h : osetattr L i n v = some i')
    (m : String) : read L i' m = if m = n then some v else read L i m := by
  unfold osetattr at h
  by_cases hs : n ∈ L.slotNames
  · simp only [hs, if_true, Option.some.injEq] at h
    subst h
    unfold read
    by_cases hm : m = n
    · subst hm; simp [hs]
    · by_cases hms : m ∈ L.slotNames <;> simp [hm, hms]
  · cases hd : L.hasDict
    · simp [hs, hd] at h
    · simp only [hs, hd, if_false, if_true, Option.some.injEq] at h
      subst h
      unfold read
      by_cases hm : m = n
      · subst hm; simp [hs, hd]
      · by_cases hms : m ∈ L.slotNames <;> simp [hm, hms, hd]

theorem read_osetattr_ne {L : Layout} {i i' : Inst} {n : String} {v : Val} (h : osetattr L i n v = some i')
    {m : String} (hm : m ≠ n) : read L i' m = read L i m := by
  rw [read_osetattr h]; simp [hm]

theorem read_osetattr_same {L : Layout} {i i' : Inst} {n : String} {v : Val} (h : osetattr L i n v = some i') :
    read L i' n = some v := by
  rw [read_osetattr h]; simp

theorem read_empty (L : Layout) (n : String) : read L Inst.empty n = none := by
  unfold read Inst.empty
  by_cases hs : n ∈ L.slotNames <;> cases L.hasDict <;> simp [hs]

/-! ### sequences of raw writes -/

theorem setMany_some {L : Layout} (st : List (String × Val)) (hw : ∀ p ∈ st, writable L p.1 = true) (i : Inst) :
    ∃ i', setMany (osetattr L) i st = some i' := by
  induction st generalizing i with
  | nil => exact ⟨i, rfl⟩
  | cons p r ih =>
    obtain ⟨i1, h1⟩ := osetattr_some_of_writable (hw p List.mem_cons_self) i p.2
    obtain ⟨i2, h2⟩ := ih (fun q hq => hw q (List.mem_cons_of_mem _ hq)) i1
    refine ⟨i2, ?_⟩
    cases p with
    | mk n v => simp only [setMany]; simp only at h1; rw [h1]; exact h2

/-- if the value written under a name is a function of the name, the result of a sequence of writes is
    determined by which names were written -/
theorem read_setMany {L : Layout} (g : String → Val) (st : List (String × Val)) (hg : ∀ p ∈ st, p.2 = g p.1)
    {i i' : Inst} (h : setMany (osetattr L) i st = some i') (m : String) :
    read L i' m = if m ∈ st.map (·.1) then some (g m) else read L i m := by
  induction st generalizing i with
  | nil => simp only [setMany, Option.some.injEq] at h; subst h; simp
  | cons p r ih =>
    cases p with
    | mk n v =>
      simp only [setMany] at h
      cases h1 : osetattr L i n v with
      | none => rw [h1] at h; simp at h
      | some i1 =>
        rw [h1] at h
        have hv : v = g n := hg (n, v) List.mem_cons_self
        rw [ih (fun q hq => hg q (List.mem_cons_of_mem _ hq)) h, read_osetattr h1]
        by_cases hmr : m ∈ r.map (·.1)
        · simp [hmr]
        · by_cases hmn : m = n
          · subst hmn; simp [hmr, hv]
          · simp [hmr, hmn]

/-! ### mapMOpt -/

theorem mapMOpt_some {α β : Type} (f : α → Option β) (l : List α) (h : ∀ a ∈ l, (f a).isSome = true) :
    ∃ r, mapMOpt f l = some r := by
  induction l with
  | nil => exact ⟨[], rfl⟩
  | cons a r ih =>
    obtain ⟨b, hb⟩ := Option.isSome_iff_exists.1 (h a List.mem_cons_self)
    obtain ⟨bs, hbs⟩ := ih (fun x hx => h x (List.mem_cons_of_mem _ hx))
    exact ⟨b :: bs, by simp [mapMOpt, hb, hbs]⟩

theorem mapMOpt_congr {α β : Type} (f g : α → Option β) (l : List α) (h : ∀ a ∈ l, f a = g a) :
    mapMOpt f l = mapMOpt g l := by
  induction l with
  | nil => rfl
  | cons a l ih =>
    simp only [mapMOpt]
    rw [h a List.mem_cons_self, ih (fun x hx => h x (List.mem_cons_of_mem _ hx))]

/-! ### `slots_getstate` -/

theorem getstateGen_some {L : Layout} {i : Inst} (names : List String)
    (h : ∀ n ∈ names, (read L i n).isSome = true) : ∃ st, getstateGen L i names = some st := by
  unfold getstateGen
  apply mapMOpt_some
  intro n hn
  have := h n hn
  cases hr : read L i n <;> simp_all

/-- the state has exactly the names, each with the value attribute lookup gives -/
theorem getstateGen_spec {L : Layout} {i : Inst} (names : List String) {st : List (String × Val)}
    (h : getstateGen L i names = some st) :
    st.map (·.1) = names ∧ ∀ p ∈ st, read L i p.1 = some p.2 := by
  unfold getstateGen at h
  induction names generalizing st with
  | nil => simp only [mapMOpt, Option.some.injEq] at h; subst h; simp
  | cons a l ih =>
    simp only [mapMOpt] at h
    cases hr : read L i a with
    | none => simp [hr] at h
    | some v =>
      simp only [hr, Option.map_some] at h
      cases hm : mapMOpt (fun n => (read L i n).map (fun v => (n, v))) l with
      | none => rw [hm] at h; simp at h
      | some bs =>
        rw [hm] at h
        simp only [Option.some.injEq] at h
        subst h
        obtain ⟨ih1, ih2⟩ := ih hm
        refine ⟨by simp [ih1], ?_⟩
        intro p hp
        rcases List.mem_cons.1 hp with hp | hp
        · subst hp; exact hr
        · exact ih2 p hp

theorem getstateGen_none {L : Layout} {i : Inst} (names : List String) (n : String) (hn : n ∈ names)
    (h : read L i n = none) : getstateGen L i names = none := by
  cases hg : getstateGen L i names with
  | none => rfl
  | some st =>
    obtain ⟨h1, h2⟩ := getstateGen_spec names hg
    rw [← h1] at hn
    obtain ⟨p, hp, hpn⟩ := List.mem_map.1 hn
    have := h2 p hp
    rw [hpn, h] at this
    simp at this

/-! ### `slots_setstate` -/

theorem lookup_mem {n : String} {v : Val} (st : List (String × Val)) (h : lookup n st = some v) : (n, v) ∈ st := by
  induction st with
  | nil => simp [lookup] at h
  | cons p r ih =>
    cases p with
    | mk k w =>
      simp only [lookup] at h
      by_cases hk : k = n
      · simp only [hk, if_true, Option.some.injEq] at h
        subst h; subst hk; exact List.mem_cons_self
      · simp only [hk, if_false] at h
        exact List.mem_cons_of_mem _ (ih h)

/-- when the values are a function of the key, lookup finds that value for every key present -/
theorem lookup_of_fun (g : String → Val) (st : List (String × Val)) (hg : ∀ p ∈ st, p.2 = g p.1) (n : String) :
    lookup n st = if n ∈ st.map (·.1) then some (g n) else none := by
  induction st with
  | nil => simp [lookup]
  | cons p r ih =>
    cases p with
    | mk k w =>
      simp only [lookup]
      have hw : w = g k := hg (k, w) List.mem_cons_self
      by_cases hk : k = n
      · subst hk; simp [hw]
      · rw [ih (fun q hq => hg q (List.mem_cons_of_mem _ hq))]
        have : ¬ n = k := fun e => hk e.symm
        simp only [hk, if_false, List.map_cons, List.mem_cons, this, false_or]

/-- **`slots_setstate`, dict state**: for an arbitrary name list and an arbitrary state, exactly the names that
    are both known to the class and present in the state are assigned (to the state's value); every other
    attribute is left as it was (the cache attribute aside, which is reset when the class caches). -/
theorem setstateGen_read {L : Layout} {y y' : Inst} {names : List String} {cache : Bool} {st : List (String × Val)}
    (h : setstateGen L y names cache st = some y') (m : String) (hm : m ≠ CACHE ∨ cache = false) :
    read L y' m = if m ∈ names ∧ (lookup m st).isSome then lookup m st else read L y m := by
  unfold setstateGen at h
  cases h1 : setMany (osetattr L) y (names.filterMap (fun n => (lookup n st).map (fun v => (n, v)))) with
  | none => rw [h1] at h; simp at h
  | some y1 =>
    rw [h1] at h
    have key : read L y1 m = if m ∈ names ∧ (lookup m st).isSome then lookup m st else read L y m := by
      have hg : ∀ p ∈ names.filterMap (fun n => (lookup n st).map (fun v => (n, v))),
          p.2 = (fun k => (lookup k st).getD .none) p.1 := by
        intro p hp
        obtain ⟨n, _, hn⟩ := List.mem_filterMap.1 hp
        cases hl : lookup n st with
        | none => simp [hl] at hn
        | some v => simp only [hl, Option.map_some, Option.some.injEq] at hn; subst hn; simp [hl]
      rw [read_setMany (fun k => (lookup k st).getD .none) _ hg h1]
      have hmem : (m ∈ (names.filterMap (fun n => (lookup n st).map (fun v => (n, v)))).map (·.1)) ↔
          (m ∈ names ∧ (lookup m st).isSome) := by
        constructor
        · intro hx
          obtain ⟨p, hp, hpm⟩ := List.mem_map.1 hx
          obtain ⟨n, hn, hnp⟩ := List.mem_filterMap.1 hp
          cases hl : lookup n st with
          | none => simp [hl] at hnp
          | some v =>
            simp only [hl, Option.map_some, Option.some.injEq] at hnp
            subst hnp
            simp only at hpm
            subst hpm
            exact ⟨hn, by simp [hl]⟩
        · intro ⟨hn, hs⟩
          obtain ⟨v, hv⟩ := Option.isSome_iff_exists.1 hs
          exact List.mem_map.2 ⟨(m, v), List.mem_filterMap.2 ⟨m, hn, by simp [hv]⟩, rfl⟩
      by_cases hc : m ∈ names ∧ (lookup m st).isSome
      · have := hmem.2 hc
        obtain ⟨v, hv⟩ := Option.isSome_iff_exists.1 hc.2
        simp [this, hc, hv]
      · have : ¬ (m ∈ (names.filterMap (fun n => (lookup n st).map (fun v => (n, v)))).map (·.1)) :=
          fun hx => hc (hmem.1 hx)
        simp only [this, if_false]
        simp [hc]
    cases hcache : cache with
    | false =>
      simp only [hcache] at h
      simp only [Bool.false_eq_true, if_false, Option.some.injEq] at h
      subst h; exact key
    | true =>
      simp only [hcache, if_true] at h
      have hm' : m ≠ CACHE := by
        rcases hm with hm | hm
        · exact hm
        · rw [hcache] at hm; simp at hm
      rw [read_osetattr_ne h hm']; exact key

/-- the cache attribute after `slots_setstate` on a caching class -/
theorem setstateGen_cache {L : Layout} {y y' : Inst} {names : List String} {st : List (String × Val)}
    (h : setstateGen L y names true st = some y') : read L y' CACHE = some .none := by
  unfold setstateGen at h
  cases h1 : setMany (osetattr L) y (names.filterMap (fun n => (lookup n st).map (fun v => (n, v)))) with
  | none => rw [h1] at h; simp at h
  | some y1 =>
    rw [h1] at h
    simp only [if_true] at h
    exact read_osetattr_same h

/-- `slots_setstate` succeeds when every name it assigns, and the cache attribute if needed, can be stored -/
theorem setstateGen_some {L : Layout} (y : Inst) (names : List String) (cache : Bool) (st : List (String × Val))
    (hw : ∀ n ∈ names, (lookup n st).isSome = true → writable L n = true)
    (hc : cache = true → writable L CACHE = true) : ∃ y', setstateGen L y names cache st = some y' := by
  unfold setstateGen
  have : ∀ p ∈ names.filterMap (fun n => (lookup n st).map (fun v => (n, v))), writable L p.1 = true := by
    intro p hp
    obtain ⟨n, hn, hnp⟩ := List.mem_filterMap.1 hp
    cases hl : lookup n st with
    | none => simp [hl] at hnp
    | some v =>
      simp only [hl, Option.map_some, Option.some.injEq] at hnp
      subst hnp
      exact hw n hn (by simp [hl])
  obtain ⟨y1, h1⟩ := setMany_some _ this y
  rw [h1]
  cases cache with
  | false => exact ⟨y1, by simp⟩
  | true => simpa using osetattr_some_of_writable (hc rfl) y1 .none

end Attrs.C10
