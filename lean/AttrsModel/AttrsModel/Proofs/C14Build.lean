/-
  C14 — what ends up in the class dict: closed forms of `builderWrites`, `patchOriginal`, `createSlots`
  for arbitrary initial dicts, and the frame theorems ("a key is touched only if …").
-/
import AttrsModel.Proofs.C14Dict

namespace Attrs.C14

/-- the value the builder writes under `n` (last write wins), by name -/
def writeFor (d : Dec) (n : String) : Option Slot :=
  if n == "__setattr__" then
    (if d.hooks then some .gen else if d.isFrozen then some .frozenSetattr else none)
  else if n == "__delattr__" then (if d.isFrozen then some .frozenDelattr else none)
  else if n == "__getstate__" || n == "__setstate__" then (if d.gss then some .gen else none)
  else if n == "__str__" then (if d.str then some .gen else none)
  else if n == "__eq__" || n == "__ne__" then (if d.eq then some .gen else none)
  else if n == "__lt__" || n == "__le__" || n == "__gt__" || n == "__ge__" then
    (if d.order then some .gen else none)
  else if n == "__attrs_own_setattr__" then (if d.hooks then some .vTrue else none)
  else if n == "__hash__" then
    (match d.hash with | .gen => some .gen | .setNone => some .pyNone | .leave => none)
  else if n == "__match_args__" then (if d.matchArgs then some .genTuple else none)
  else if n == "__repr__" then (if d.repr then some .gen else none)
  else if n == "__init__" then (if d.init then some .gen else none)
  else if n == "__attrs_init__" then (if d.init then none else some .gen)
  else none

theorem lastWrite_ite (b : Bool) (l : List (String × Slot)) (n : String) :
    lastWrite (if b then l else []) n = if b then lastWrite l n else none := by
  cases b <;> simp [lastWrite_nil]

theorem lastWrite_ite' (b : Bool) (l l' : List (String × Slot)) (n : String) :
    lastWrite (if b then l else l') n = if b then lastWrite l n else lastWrite l' n := by
  cases b <;> simp

theorem lastWrite_cons_or (w : String × Slot) (ws : List (String × Slot)) (n : String) :
    lastWrite (w :: ws) n = (lastWrite ws n).or (if w.1 == n then some w.2 else none) := by
  rw [lastWrite_cons]; cases lastWrite ws n <;> simp

theorem lastWrite_append_or (a b : List (String × Slot)) (n : String) :
    lastWrite (a ++ b) n = (lastWrite b n).or (lastWrite a n) := by
  rw [lastWrite_append]; cases lastWrite b n <;> simp

/-- **what the builder leaves under a name** (any name): the closed form of the sequence of writes -/
theorem lastWrite_builderWrites (d : Dec) (n : String) :
    lastWrite (builderWrites d) n = writeFor d n := by
  unfold builderWrites writeFor
  simp only [lastWrite_append_or, lastWrite_ite', lastWrite_cons_or, lastWrite_nil]
  by_cases h0 : n = "__setattr__"
  · subst h0; simp +decide; cases d.hooks <;> cases d.isFrozen <;> simp
  by_cases h1 : n = "__delattr__"
  · subst h1; simp +decide
  by_cases h2 : n = "__getstate__"
  · subst h2; simp +decide
  by_cases h3 : n = "__setstate__"
  · subst h3; simp +decide
  by_cases h4 : n = "__str__"
  · subst h4; simp +decide
  by_cases h5 : n = "__eq__"
  · subst h5; simp +decide
  by_cases h6 : n = "__ne__"
  · subst h6; simp +decide
  by_cases h7 : n = "__lt__"
  · subst h7; simp +decide
  by_cases h8 : n = "__le__"
  · subst h8; simp +decide
  by_cases h9 : n = "__gt__"
  · subst h9; simp +decide
  by_cases h10 : n = "__ge__"
  · subst h10; simp +decide
  by_cases h11 : n = "__attrs_own_setattr__"
  · subst h11; simp +decide
  by_cases h12 : n = "__hash__"
  · subst h12; simp +decide; cases d.hash <;> simp
  by_cases h13 : n = "__match_args__"
  · subst h13; simp +decide
  by_cases h14 : n = "__repr__"
  · subst h14; simp +decide
  by_cases h15 : n = "__init__"
  · subst h15; simp +decide
  by_cases h16 : n = "__attrs_init__"
  · subst h16; simp +decide
  have g0 : ¬ "__setattr__" = n := fun e => h0 e.symm
  have g1 : ¬ "__delattr__" = n := fun e => h1 e.symm
  have g2 : ¬ "__getstate__" = n := fun e => h2 e.symm
  have g3 : ¬ "__setstate__" = n := fun e => h3 e.symm
  have g4 : ¬ "__str__" = n := fun e => h4 e.symm
  have g5 : ¬ "__eq__" = n := fun e => h5 e.symm
  have g6 : ¬ "__ne__" = n := fun e => h6 e.symm
  have g7 : ¬ "__lt__" = n := fun e => h7 e.symm
  have g8 : ¬ "__le__" = n := fun e => h8 e.symm
  have g9 : ¬ "__gt__" = n := fun e => h9 e.symm
  have g10 : ¬ "__ge__" = n := fun e => h10 e.symm
  have g11 : ¬ "__attrs_own_setattr__" = n := fun e => h11 e.symm
  have g12 : ¬ "__hash__" = n := fun e => h12 e.symm
  have g13 : ¬ "__match_args__" = n := fun e => h13 e.symm
  have g14 : ¬ "__repr__" = n := fun e => h14 e.symm
  have g15 : ¬ "__init__" = n := fun e => h15 e.symm
  have g16 : ¬ "__attrs_init__" = n := fun e => h16 e.symm
  simp [*]

theorem get_written (cd0 : Dict) (d : Dec) (n : String) :
    (applyWrites cd0 (builderWrites d)).get n = (writeFor d n).getD (cd0.get n) := by
  rw [get_applyWrites, lastWrite_builderWrites]

theorem has_written (cd0 : Dict) (d : Dec) (n : String) :
    (applyWrites cd0 (builderWrites d)).has n = ((writeFor d n).isSome || cd0.has n) := by
  rw [has_applyWrites, lastWrite_builderWrites]

/-- `_patch_original_class` takes the "inherited attrs `__setattr__`, none written" branch -/
def resetsDict (cd0 : Dict) (d : Dec) (inherited : Bool) : Bool :=
  !wroteOwnSetattr d &&
    getattrOwnSetattr (applyWrites (fieldNames.foldl Dict.erase cd0) (builderWrites d)) inherited

/-- after the writes the class has a `__setattr__` of its own (`_has_own_attribute(cls, "__setattr__")`) -/
def dictOwnSetattr (cd0 : Dict) (d : Dec) : Bool :=
  (applyWrites (fieldNames.foldl Dict.erase cd0) (builderWrites d)).has "__setattr__"

/-- **dict build, any initial dict, any name** -/
theorem get_patchOriginal (cd0 : Dict) (d : Dec) (inh : Bool) (n : String) :
    (patchOriginal cd0 d inh).get n =
      if resetsDict cd0 d inh && n == "__setattr__" && !dictOwnSetattr cd0 d then .objSetattr
      else if resetsDict cd0 d inh && n == ownSetattrKey then .vFalse
      else (writeFor d n).getD (if fieldNames.contains n then .absent else cd0.get n) := by
  unfold patchOriginal resetsDict dictOwnSetattr hasOwn
  simp only
  have hk : ("__setattr__" == ownSetattrKey) = false := by decide
  have hk' : (ownSetattrKey == "__setattr__") = false := by decide
  simp only [Dict.has_set, hk, Bool.false_or]
  generalize (applyWrites (fieldNames.foldl Dict.erase cd0) (builderWrites d)).has "__setattr__" = own
  cases hr : (!wroteOwnSetattr d &&
      getattrOwnSetattr (applyWrites (fieldNames.foldl Dict.erase cd0) (builderWrites d)) inh)
  · simp [get_written, get_foldl_erase]
  · simp only [if_true, Bool.true_and]
    by_cases h1 : n = "__setattr__"
    · subst h1
      cases own <;> simp [Dict.get_set, get_written, get_foldl_erase, hk]
    · by_cases h2 : n = ownSetattrKey
      · subst h2
        cases own <;> simp [Dict.get_set, hk']
      · have h1' : (n == "__setattr__") = false := by simpa using h1
        have h2' : (n == ownSetattrKey) = false := by simpa using h2
        cases own <;> simp [Dict.get_set, h1', h2', get_written, get_foldl_erase]

def resetsSlots (cd0 : Dict) (d : Dec) (direct : Bool) : Bool :=
  !wroteOwnSetattr d && !cd0.has "__setattr__" && direct

/-- `type()` finds `__eq__` but no `__hash__` in the namespace attrs hands it -/
def slotsImplicitHash (cd0 : Dict) (d : Dec) : Bool :=
  ((writeFor d "__eq__").isSome || cd0.has "__eq__") && !((writeFor d "__hash__").isSome || cd0.has "__hash__")

/-- the namespace handed to `type()` before the implicit `__hash__` -/
def slotsNs (cd0 : Dict) (d : Dec) (direct : Bool) : Dict :=
  let c2 := slotsDropped.foldl Dict.erase (applyWrites cd0 (builderWrites d))
  if !wroteOwnSetattr d then
    let c := c2.set ownSetattrKey .vFalse
    if !hasOwn cd0 "__setattr__" && direct then c.set "__setattr__" .objSetattr else c
  else c2

theorem createSlots_eq (cd0 : Dict) (d : Dec) (direct : Bool) :
    createSlots cd0 d direct = implicitHash (slotsNs cd0 d direct) := rfl

theorem get_slotsNs (cd0 : Dict) (d : Dec) (direct : Bool) (n : String) :
    (slotsNs cd0 d direct).get n =
      if resetsSlots cd0 d direct && n == "__setattr__" then .objSetattr
      else if !wroteOwnSetattr d && n == ownSetattrKey then .vFalse
      else if slotsDropped.contains n then .absent
      else (writeFor d n).getD (cd0.get n) := by
  unfold slotsNs resetsSlots hasOwn
  generalize hown : cd0.has "__setattr__" = own
  have hk : ("__setattr__" == ownSetattrKey) = false := by decide
  have hk' : (ownSetattrKey == "__setattr__") = false := by decide
  simp only
  by_cases h1 : n = "__setattr__"
  · subst h1
    cases (wroteOwnSetattr d) <;> cases own <;> cases direct <;>
      simp [Dict.get_set, get_foldl_erase, get_written, hk]
  · by_cases h2 : n = ownSetattrKey
    · subst h2
      cases (wroteOwnSetattr d) <;> cases own <;> cases direct <;>
        simp [Dict.get_set, get_foldl_erase, get_written, hk']
    · have h1' : (n == "__setattr__") = false := by simpa using h1
      have h2' : (n == ownSetattrKey) = false := by simpa using h2
      cases (wroteOwnSetattr d) <;> cases own <;> cases direct <;>
        simp [Dict.get_set, get_foldl_erase, get_written, h1', h2']

theorem has_slotsNs (cd0 : Dict) (d : Dec) (direct : Bool) (m : String)
    (h1 : (m == ownSetattrKey) = false) (h2 : (m == "__setattr__") = false)
    (h3 : slotsDropped.contains m = false) :
    (slotsNs cd0 d direct).has m = ((writeFor d m).isSome || cd0.has m) := by
  unfold slotsNs hasOwn
  simp only
  generalize cd0.has "__setattr__" = own
  have h3' : ¬ m ∈ slotsDropped := by simpa using h3
  cases (wroteOwnSetattr d) <;> cases own <;> cases direct <;>
    simp [Dict.has_set, has_foldl_erase, has_written, h1, h2, h3']

/-- **slotted build, any initial dict, any name** -/
theorem get_createSlots (cd0 : Dict) (d : Dec) (direct : Bool) (n : String) :
    (createSlots cd0 d direct).get n =
      if n == "__hash__" && slotsImplicitHash cd0 d then .pyNone
      else if resetsSlots cd0 d direct && n == "__setattr__" then .objSetattr
      else if !wroteOwnSetattr d && n == ownSetattrKey then .vFalse
      else if slotsDropped.contains n then .absent
      else (writeFor d n).getD (cd0.get n) := by
  rw [createSlots_eq, get_implicitHash, get_slotsNs,
    has_slotsNs cd0 d direct "__eq__" (by decide) (by decide) (by decide),
    has_slotsNs cd0 d direct "__hash__" (by decide) (by decide) (by decide)]
  unfold slotsImplicitHash
  simp only [Bool.and_assoc]

end Attrs.C14
