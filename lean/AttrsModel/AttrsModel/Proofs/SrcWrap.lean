/-
  T1b: the body of `attrs(...).wrap(cls)` *as translated from /repo's source on this run* (`Gen.attrs_wrap`,
  Generated/Funcs.lean) against a declarative model of the documented decision table (`wrapModel`): which
  `_ClassBuilder` methods are called, in which order, with which getstate decision, and which definition-time
  errors are raised.

  The decision inputs are 27 booleans / optional booleans (`WrapIn`).  The agreement is proved by kernel evaluation
  (`decide +kernel`, no axioms) exhaustively over four *slices* of that space — each slice varies every input a
  group of decisions reads (8–10 booleans, 256–1 024 rows; each row costs ≈ 20 ms of kernel time, mostly string comparisons of the
  `env`/`ext` look-ups, which is why the slices are kept this small) and holds the others at the values written in
  `base`; together the slices vary every input except `py313`/`ownReplace` (Python 3.13's `__replace__`).  What is NOT proved here is independence across slices (that the
  hash block ignores `repr=`, say); that is visible in the translated text and is covered by the T2 correspondence.
-/
import AttrsModel.Proofs.SrcFuncs
import AttrsModel.Model.C04

namespace Attrs.Src
open Attrs.Py

/-- everything the body of `wrap` reads: closure variables, module constants, facts about the class -/
structure WrapIn where
  frozen : Bool
  frozenBase : Bool          -- `_has_frozen_base_class(cls)`
  autoExc : Bool
  excBase : Bool             -- `issubclass(cls, BaseException)`
  ad : Bool                  -- auto_detect
  ownSetattr : Bool
  gs : Option Bool           -- getstate_setstate
  slots : Bool
  inheritsGs : Bool          -- `_inherits_generated_getstate(cls)`
  ownGetstate : Bool
  ownSetstate : Bool
  repr : Option Bool
  ownRepr : Bool
  str : Bool
  eq_ : Option Bool
  ownEq : Bool
  ownNe : Bool
  order_ : Option Bool
  ownLt : Bool
  ownGe : Bool
  hashArg : Option Bool      -- `hash` after `unsafe_hash` took precedence
  ownHash : Bool
  cache : Bool
  init : Option Bool
  ownInit : Bool
  matchArgs : Bool
  ownMatchArgs : Bool
  py310 : Bool
  py313 : Bool
  ownReplace : Bool

def WrapIn.env (i : WrapIn) : Env := fun k =>
  if k == "frozen" then vBool i.frozen
  else if k == "auto_exc" then vBool i.autoExc
  else if k == "auto_detect" then vBool i.ad
  else if k == "getstate_setstate" then embOB i.gs
  else if k == "slots" then vBool i.slots
  else if k == "repr" then embOB i.repr
  else if k == "str" then vBool i.str
  else if k == "eq_" then embOB i.eq_
  else if k == "order_" then embOB i.order_
  else if k == "hash" then embOB i.hashArg
  else if k == "cache_hash" then vBool i.cache
  else if k == "init" then embOB i.init
  else if k == "match_args" then vBool i.matchArgs
  else if k == "PY_3_10_PLUS" then vBool i.py310
  else if k == "PY_3_13_PLUS" then vBool i.py313
  else vNone

def WrapIn.own (i : WrapIn) (name : String) : Bool :=
  if name == "__setattr__" then i.ownSetattr
  else if name == "__getstate__" then i.ownGetstate
  else if name == "__setstate__" then i.ownSetstate
  else if name == "__repr__" then i.ownRepr
  else if name == "__eq__" then i.ownEq
  else if name == "__ne__" then i.ownNe
  else if name == "__lt__" then i.ownLt
  else if name == "__ge__" then i.ownGe
  else if name == "__hash__" then i.ownHash
  else if name == "__init__" then i.ownInit
  else if name == "__match_args__" then i.ownMatchArgs
  else if name == "__replace__" then i.ownReplace
  else false

def WrapIn.ext (i : WrapIn) : Ext := fun f args =>
  if f == "_has_own_attribute" then
    (match args with
     | [_, .a (.str n)] => vBool (i.own n)
     | _ => vFalse)
  else if f == "_has_frozen_base_class" then vBool i.frozenBase
  else if f == "issubclass" then vBool i.excBase
  else if f == "_inherits_generated_getstate" then vBool i.inheritsGs
  else vFalse

/-- what a run of `wrap` is observed as: the builder calls in order, and the getstate/frozen/exception/own-setattr
    arguments handed to `_ClassBuilder` -/
structure WrapOut where
  calls : List String
  gsArg : PV
  frozenArg : PV
  excArg : PV
  ownSetattrArg : PV
  deriving DecidableEq, Repr

def observe (es : List Eff) : WrapOut :=
  match es with
  | ⟨"_ClassBuilder", [_, _, _, fz, _, gs, _, _, _, ex, _, _, os, _]⟩ :: _ =>
    { calls := es.map (·.name), gsArg := gs, frozenArg := fz, excArg := ex, ownSetattrArg := os }
  | _ => { calls := es.map (·.name), gsArg := vNone, frozenArg := vNone, excArg := vNone, ownSetattrArg := vNone }

def srcWrap (i : WrapIn) : Except PyErr WrapOut :=
  (Gen.attrs_wrap i.env i.ext (vObj 7) []).map (fun r => observe r.2)

/-- `_determine_whether_to_implement`, declaratively: the flag if given, else the default unless auto-detection
    finds an own method of the group -/
def wti (ad : Bool) (flag : Option Bool) (own : Bool) (dflt : Bool) : Bool :=
  match flag with
  | some b => b
  | none => if ad && own then false else dflt

/-- the documented decision table of `attrs(...)` applied to a class -/
def wrapModel (i : WrapIn) : Except PyErr WrapOut :=
  let isFrozen := i.frozen || i.frozenBase
  let isExc := i.autoExc && i.excBase
  let hasOwnSetattr := i.ad && i.ownSetattr
  if hasOwnSetattr && isFrozen then .error .valueError else
  let gs := wti i.ad i.gs (i.ownGetstate || i.ownSetstate) (i.slots || i.inheritsGs)
  let eq := wti i.ad i.eq_ (i.ownEq || i.ownNe) true
  let order := !isExc && wti i.ad i.order_ (i.ownLt || i.ownGe) true
  let f : C04.Facts :=
    { mixErr := false, hashArg := i.hashArg, eqOn := eq, frozenEff := isFrozen, isExc := isExc,
      detected := i.hashArg.isNone && i.ad && i.ownHash, cacheOn := i.cache,
      initOn := wti i.ad i.init i.ownInit true, slotsEff := i.slots }
  let outcome := C04.codeOutcome f
  match C04.defErr f outcome with
  | some .typeError => .error .typeError
  | some .valueError => .error .valueError
  | none =>
    .ok { calls := ["_ClassBuilder"]
            ++ (if wti i.ad i.repr i.ownRepr true then ["add_repr"] else [])
            ++ (if i.str then ["add_str"] else [])
            ++ (if !isExc && eq then ["add_eq"] else [])
            ++ (if order then ["add_order"] else [])
            ++ (if !i.frozen then ["add_setattr"] else [])
            ++ (match outcome with
                | .generated => ["add_hash"]
                | .unhashable => ["make_unhashable"]
                | .untouched => [])
            ++ (if f.initOn then ["add_init"] else ["add_attrs_init"])
            ++ (if i.py313 && !i.ownReplace then ["add_replace"] else [])
            ++ (if i.py310 && i.matchArgs && !i.ownMatchArgs then ["add_match_args"] else [])
            ++ ["build_class"],
          gsArg := vBool gs, frozenArg := vBool isFrozen, excArg := vBool isExc,
          ownSetattrArg := vBool hasOwnSetattr }

instance : DecidableEq (Except PyErr WrapOut)
  | .ok a, .ok b => if h : a = b then isTrue (by rw [h]) else isFalse (by intro h'; cases h'; exact h rfl)
  | .error a, .error b => if h : a = b then isTrue (by rw [h]) else isFalse (by intro h'; cases h'; exact h rfl)
  | .ok _, .error _ => isFalse (by intro h; cases h)
  | .error _, .ok _ => isFalse (by intro h; cases h)

def ob (s v : Bool) : Option Bool := if s then some v else none

/-- values of the inputs a slice does not vary: a plain `@attr.s` class on Python 3.12 -/
def base : WrapIn :=
  { frozen := false, frozenBase := false, autoExc := false, excBase := false, ad := false, ownSetattr := false,
    gs := none, slots := false, inheritsGs := false, ownGetstate := false, ownSetstate := false, repr := none,
    ownRepr := false, str := false, eq_ := none, ownEq := false, ownNe := false, order_ := none, ownLt := false,
    ownGe := false, hashArg := none, ownHash := false, cache := false, init := none, ownInit := false,
    matchArgs := true, ownMatchArgs := false, py310 := true, py313 := false, ownReplace := false }

def sliceHash (hs hv es ev ad oh fz fb eb ch : Bool) : WrapIn :=
  { base with hashArg := ob hs hv, eq_ := ob es ev, ad := ad, ownHash := oh, frozen := fz,
              frozenBase := fb, autoExc := true, excBase := eb, cache := ch }

def sliceMethods (rs rv orr st is iv oi ad ma om : Bool) : WrapIn :=
  { base with repr := ob rs rv, ownRepr := orr, str := st, init := ob is iv, ownInit := oi, ad := ad,
              matchArgs := ma, ownMatchArgs := om }

/-- slice A — the hash block and what it reads (hash, eq, auto_detect, own `__hash__`, frozen-ness incl. inherited,
    exception base under auto_exc, cache_hash): 1 024 rows -/
theorem wrap_slice_hash : ∀ (hs hv es ev ad oh fz fb eb ch : Bool),
    srcWrap (sliceHash hs hv es ev ad oh fz fb eb ch) = wrapModel (sliceHash hs hv es ev ad oh fz fb eb ch) := by
  decide +kernel

/-- slice B — repr / str / init / match_args: 1 024 rows -/
theorem wrap_slice_methods : ∀ (rs rv orr st is iv oi ad ma om : Bool),
    srcWrap (sliceMethods rs rv orr st is iv oi ad ma om) = wrapModel (sliceMethods rs rv orr st is iv oi ad ma om) := by
  decide +kernel

def sliceOrder (es ev os ov oe olt ad eb : Bool) : WrapIn :=
  { base with eq_ := ob es ev, order_ := ob os ov, ownEq := oe, ownLt := olt, ad := ad, autoExc := true, excBase := eb }

def sliceState (gss gsv sl ig og ad osa fz fb : Bool) : WrapIn :=
  { base with gs := ob gss gsv, slots := sl, inheritsGs := ig, ownGetstate := og, ad := ad,
              ownSetattr := osa, frozen := fz, frozenBase := fb }

/-- slice C — eq / order, auto-detection of own comparison methods, the exception carve-out: 256 rows -/
theorem wrap_slice_order : ∀ (es ev os ov oe olt ad eb : Bool),
    srcWrap (sliceOrder es ev os ov oe olt ad eb) = wrapModel (sliceOrder es ev os ov oe olt ad eb) := by
  decide +kernel

/-- slice D — the getstate/setstate decision handed to `_ClassBuilder`, own `__setattr__` against frozen-ness (also
    inherited): 512 rows -/
theorem wrap_slice_state : ∀ (gss gsv sl ig og ad osa fz fb : Bool),
    srcWrap (sliceState gss gsv sl ig og ad osa fz fb) = wrapModel (sliceState gss gsv sl ig og ad osa fz fb) := by
  decide +kernel

/-- the slices are not vacuous: some rows build a class with a generated hash, some are rejected -/
example : wrapModel (sliceHash true true false false false false false false false true) =
    .ok { calls := ["_ClassBuilder", "add_repr", "add_eq", "add_order", "add_setattr", "add_hash", "add_init",
                    "add_match_args", "build_class"],
          gsArg := vFalse, frozenArg := vFalse, excArg := vFalse, ownSetattrArg := vFalse } ∧
    wrapModel (sliceHash false false false false false false false false false true) = .error .typeError ∧
    wrapModel (sliceState false false false false false true true true false) = .error .valueError := by
  decide

end Attrs.Src
