/-
  C08 — `__attrs_init_subclass__` along a chain of builds: every attrs-built level below a definition is
  announced exactly once, with its final class, by the nearest definition above it.
-/
import AttrsModel.Spec.C08

namespace Attrs.C08

/-- what the carried "nearest definer" means for the prefix of levels already defined -/
def DOK (pre : List Level) : Option Nat → Prop
  | none => pre.all (fun l => !l.defines) = true
  | some jd => jd < pre.length ∧ definesAt pre jd = true ∧
      (pre.drop (jd + 1)).all (fun l => !l.defines) = true

theorem dok_isSome (pre : List Level) (d : Option Nat) (h : DOK pre d) : d.isSome = pre.any (·.defines) := by
  cases d with
  | none =>
    simp only [DOK] at h
    simp only [Option.isSome_none]
    symm
    apply List.any_eq_false.2
    intro l hl
    have := List.all_eq_true.1 h l hl
    simpa using this
  | some jd =>
    obtain ⟨hlt, hdef, _⟩ := h
    simp only [Option.isSome_some]
    symm
    have hget : pre[jd]? = some pre[jd] := List.getElem?_eq_getElem hlt
    unfold definesAt at hdef
    rw [hget] at hdef
    exact List.any_eq_true.2 ⟨pre[jd], List.getElem_mem hlt, hdef⟩

theorem dok_step (pre : List Level) (d : Option Nat) (lvl : Level) (h : DOK pre d) :
    DOK (pre ++ [lvl]) (if lvl.defines then some pre.length else d) := by
  cases hdef : lvl.defines with
  | true =>
    simp only [if_true, DOK]
    refine ⟨by simp, ?_, ?_⟩
    · simp [definesAt, hdef]
    · simp
  | false =>
    simp only [Bool.false_eq_true, if_false]
    cases d with
    | none =>
      simp only [DOK] at h ⊢
      simp [List.all_append, h, hdef]
    | some jd =>
      obtain ⟨hlt, hd, hbetween⟩ := h
      refine ⟨by simp; omega, ?_, ?_⟩
      · unfold definesAt at hd ⊢
        rw [List.getElem?_append_left hlt]; exact hd
      · have : List.drop (jd + 1) (pre ++ [lvl]) = List.drop (jd + 1) pre ++ [lvl] := by
          rw [List.drop_append_of_le_length (by omega)]
        rw [this, List.all_append, hbetween]
        simp [hdef]

theorem announced_at (pre rest : List Level) (lvl : Level) :
    announced (pre ++ lvl :: rest) pre.length = (lvl.attrs && !lvl.defines && pre.any (·.defines)) := by
  unfold announced
  have h1 : (pre ++ lvl :: rest)[pre.length]? = some lvl := by simp
  have h2 : (pre ++ lvl :: rest).take pre.length = pre := by simp
  rw [h1, h2]

theorem announced_oob (pre : List Level) (j : Nat) (h : pre.length ≤ j) : announced pre j = false := by
  unfold announced
  have : pre[j]? = none := List.getElem?_eq_none h
  rw [this]

/-- count of calls per level -/
theorem isubGo_count (l pre : List Level) (d : Option Nat) (hd : DOK pre d) (j : Nat) :
    ((isubGo l pre.length d).filter (·.received == j)).length =
      if pre.length ≤ j ∧ announced (pre ++ l) j = true then 1 else 0 := by
  induction l generalizing pre d with
  | nil =>
    simp only [isubGo, List.filter_nil, List.length_nil, List.append_nil]
    by_cases h : pre.length ≤ j
    · rw [announced_oob pre j h]; simp
    · simp [h]
  | cons lvl rest ih =>
    have hih := ih (pre ++ [lvl]) _ (dok_step pre d lvl hd)
    have hlen : (pre ++ [lvl]).length = pre.length + 1 := by simp
    rw [hlen] at hih
    have happ : pre ++ [lvl] ++ rest = pre ++ lvl :: rest := by simp
    rw [happ] at hih
    simp only [isubGo, List.filter_append, List.length_append]
    rw [hih]
    by_cases hj : j = pre.length
    · subst hj
      rw [announced_at, ← dok_isSome pre d hd]
      have h0 : ¬(pre.length + 1 ≤ pre.length ∧ announced (pre ++ lvl :: rest) pre.length = true) := by omega
      simp only [h0, if_false, Nat.add_zero, Nat.le_refl, true_and]
      unfold isubHead
      cases ha : lvl.attrs <;> cases hdf : lvl.defines <;> cases d <;> simp
    · have hhead : ((isubHead lvl pre.length d).filter (·.received == j)).length = 0 := by
        unfold isubHead
        split
        · cases d with
          | none => rfl
          | some jd =>
            have : (pre.length == j) = false := by simpa using fun e => hj e.symm
            simp [List.filter_cons, this]
        · rfl
      rw [hhead]
      have : (pre.length + 1 ≤ j ∧ announced (pre ++ lvl :: rest) j = true) ↔
          (pre.length ≤ j ∧ announced (pre ++ lvl :: rest) j = true) := by
        constructor
        · rintro ⟨h1, h2⟩; exact ⟨by omega, h2⟩
        · rintro ⟨h1, h2⟩; exact ⟨by omega, h2⟩
      simp only [this, Nat.zero_add]

/-- every call is right -/
theorem isubGo_calls (l pre : List Level) (d : Option Nat) (hd : DOK pre d) :
    ∀ cl ∈ isubGo l pre.length d, isubCallOk (pre ++ l) cl = true := by
  induction l generalizing pre d with
  | nil => intro cl h; simp [isubGo] at h
  | cons lvl rest ih =>
    intro cl hcl
    simp only [isubGo, List.mem_append] at hcl
    rcases hcl with hcl | hcl
    · unfold isubHead at hcl
      split at hcl
      · cases d with
        | none => cases hcl
        | some jd =>
          simp only [List.mem_singleton] at hcl
          subst hcl
          obtain ⟨hlt, hdef, hbetween⟩ := hd
          unfold isubCallOk
          have h1 : definesAt (pre ++ lvl :: rest) jd = definesAt pre jd := by
            unfold definesAt; rw [List.getElem?_append_left hlt]
          have h2 : (pre ++ lvl :: rest).take pre.length = pre := by simp
          dsimp only
          rw [h1, h2, hdef, hbetween]
          simp [hlt]
      · cases hcl
    · have := ih (pre ++ [lvl]) _ (dok_step pre d lvl hd) cl (by simpa using hcl)
      simpa using this

theorem isub_meets_spec (c : ISubCase) : isubSpec c (isubModel c) = true := by
  unfold isubSpec isubModel
  simp only [Bool.and_eq_true, List.all_eq_true]
  have hd : DOK [] none := by simp [DOK]
  constructor
  · intro k _
    have := isubGo_count c.chain [] none hd k
    simp only [List.length_nil, Nat.zero_le, true_and, List.nil_append] at this
    rw [this]
    cases announced c.chain k <;> rfl
  · intro cl hcl
    have := isubGo_calls c.chain [] none hd cl hcl
    simpa using this

end Attrs.C08
