/-
  C15 — lemmas about the builder's staging machine (`Step`, `run`): once an exception is set nothing changes;
  steps other than the patch never write the class; the exception a run ends with depends on the checks alone.
-/
import AttrsModel.Proofs.C15

namespace Attrs.C15

theorem step_raised (s : BState) (st : Step) (h : s.exc ≠ none) : step s st = s := by
  cases st <;> simp only [step] <;> cases he : s.exc <;> simp_all

theorem run_raised (steps : List Step) (s : BState) (h : s.exc ≠ none) : run steps s = s := by
  induction steps generalizing s with
  | nil => rfl
  | cons st rest ih =>
    simp only [run, List.foldl_cons] at ih ⊢
    rw [step_raised s st h]
    exact ih s h

def Step.isPatch : Step → Bool
  | .patch _ => true
  | _ => false

theorem step_cls (s : BState) (st : Step) (h : st.isPatch = false) : (step s st).cls = s.cls := by
  cases st with
  | check f e => simp only [step]; split <;> rfl
  | stage k v => simp only [step]; split <;> rfl
  | patch b => simp [Step.isPatch] at h

/-- steps that are not the final patch never write the class, for any step list and any class dict -/
theorem run_cls_of_no_patch (steps : List Step) (s : BState) (h : ∀ st ∈ steps, st.isPatch = false) :
    (run steps s).cls = s.cls := by
  induction steps generalizing s with
  | nil => rfl
  | cons st rest ih =>
    simp only [run, List.foldl_cons] at ih ⊢
    rw [ih (step s st) (fun x hx => h x (List.mem_cons_of_mem _ hx))]
    exact step_cls s st (h st List.mem_cons_self)


theorem step_exc_patch (s : BState) (b : Bool) : (step s (.patch b)).exc = s.exc := by
  simp only [step]; split <;> rfl

theorem step_exc_stage (s : BState) (k : String) (v : Nat) : (step s (.stage k v)).exc = s.exc := by
  simp only [step]; split <;> rfl

/-- which exception a run ends with depends on the checks alone -/
theorem run_exc (steps : List Step) (s : BState) :
    (run steps s).exc = match s.exc with | some e => some e | none => firstFail (checksOf steps) := by
  induction steps generalizing s with
  | nil => cases h : s.exc <;> simp [run, checksOf, firstFail, h]
  | cons st rest ih =>
    cases hs : s.exc with
    | some e =>
      have hne : s.exc ≠ none := by rw [hs]; simp
      rw [run_raised _ _ hne, hs]
    | none =>
      simp only [run, List.foldl_cons] at ih ⊢
      rw [ih]
      cases st with
      | check b e =>
        cases b <;> simp [step, hs, checksOf, firstFail]
      | stage k v => rw [step_exc_stage, hs]; rfl
      | patch b => rw [step_exc_patch, hs]; rfl


end Attrs.C15
