/-
  C08, metamorphic part — the declarative description of a construction (signature, annotations, trace,
  outcome, values, exception args) never reads a field's layout fact `isSlot`, nor `slots` / `frozen` /
  `cache_hash`, nor the bases: so the two builds of one specification, each equal to that description by the
  body theorem of the initializer model (`Proofs/InitBody.lean`), agree.
-/
import AttrsModel.Spec.C08
import AttrsModel.Properties.C02

namespace Attrs.C08
open Attrs.Init
open Attrs.C02 (attrEvents validatorEventsOf preEventArgs preEvents expectedTrace upTo eventsUpTo hits cutAt)

/-! ### generic: list functions whose element functions ignore `isSlot` -/

theorem g_filter_map {β : Type} (p : Attr → Bool) (f g : Attr → β) (hp : ∀ a, p (unslot a) = p a)
    (hg : ∀ a, g (unslot a) = f a) (l : List Attr) :
    ((l.map unslot).filter p).map g = (l.filter p).map f := by
  induction l with
  | nil => rfl
  | cons a l ih =>
    simp only [List.map_cons, List.filter_cons, hp a]
    cases p a <;> simp [ih, hg a]

theorem g_filter_flatMap {β : Type} (p : Attr → Bool) (f g : Attr → List β) (hp : ∀ a, p (unslot a) = p a)
    (hg : ∀ a, g (unslot a) = f a) (l : List Attr) :
    ((l.map unslot).filter p).flatMap g = (l.filter p).flatMap f := by
  induction l with
  | nil => rfl
  | cons a l ih =>
    simp only [List.map_cons, List.filter_cons, hp a]
    cases p a <;> simp [ih, hg a]

theorem g_filter_filterMap {β : Type} (p : Attr → Bool) (f g : Attr → Option β) (hp : ∀ a, p (unslot a) = p a)
    (hg : ∀ a, g (unslot a) = f a) (l : List Attr) :
    ((l.map unslot).filter p).filterMap g = (l.filter p).filterMap f := by
  induction l with
  | nil => rfl
  | cons a l ih =>
    simp only [List.map_cons, List.filter_cons, hp a]
    cases p a <;> simp [ih, hg a, List.filterMap_cons]

theorem g_upTo (p : Attr → Bool) (f g : Attr → List Event) (hp : ∀ a, p (unslot a) = p a)
    (hg : ∀ a, g (unslot a) = f a) (n : String) (l : List Attr) :
    upTo g n ((l.map unslot).filter p) = upTo f n (l.filter p) := by
  induction l with
  | nil => rfl
  | cons a l ih =>
    simp only [List.map_cons, List.filter_cons, hp a]
    cases p a
    · simpa using ih
    · simp only [if_true, upTo, hg a, ih]
      rfl

theorem g_map {β : Type} (f g : Attr → β) (hg : ∀ a, g (unslot a) = f a) (l : List Attr) :
    (l.map unslot).map g = l.map f := by
  rw [List.map_map]
  apply List.map_congr_left
  intro a _
  exact hg a

/-! ### the pieces of the declarative description -/

theorem params_unslot (attrs : List Attr) : params (attrs.map unslot) = params attrs := by
  have h : ((attrs.map unslot).filter (·.init)).map paramOf = (attrs.filter (·.init)).map paramOf :=
    g_filter_map (·.init) paramOf paramOf (fun _ => rfl) (fun _ => rfl) attrs
  unfold params
  rw [h]

theorem rawOf_unslot (attrs : List Attr) (c : Call) (a : Attr) :
    C01.rawOf (attrs.map unslot) c (unslot a) = C01.rawOf attrs c a := by
  unfold C01.rawOf
  rw [params_unslot]
  rfl

theorem expectedValue_unslot (attrs : List Attr) (c : Call) (a : Attr) :
    C01.expectedValue (attrs.map unslot) c (unslot a) = C01.expectedValue attrs c a := by
  unfold C01.expectedValue
  rw [rawOf_unslot]
  rfl

theorem attrEvents_unslot (attrs : List Attr) (c : Call) (a : Attr) :
    attrEvents (attrs.map unslot) c (unslot a) = attrEvents attrs c a := by
  unfold attrEvents
  rw [params_unslot, rawOf_unslot]
  rfl

theorem validatorEventsOf_unslot (attrs : List Attr) (c : Call) :
    validatorEventsOf (attrs.map unslot) c = validatorEventsOf attrs c := by
  unfold validatorEventsOf
  apply g_filter_flatMap participates _ _ (fun _ => rfl)
  intro a
  rw [rawOf_unslot]
  rfl

theorem preEventArgs_unslot (attrs : List Attr) (c : Call) :
    preEventArgs (attrs.map unslot) c = preEventArgs attrs c := by
  unfold preEventArgs
  rw [params_unslot]

theorem sigOf_unslot (attrs : List Attr) : sigOf (attrs.map unslot) = sigOf attrs := by
  unfold sigOf
  rw [params_unslot]

theorem annotationsOf_unslot (attrs : List Attr) : annotationsOf (attrs.map unslot) = annotationsOf attrs := by
  unfold annotationsOf
  rw [g_filter_filterMap participates annotationOf annotationOf (fun _ => rfl) (fun _ => rfl)]

/-- the part of a run input the declarative description reads -/
structure Same (r s : RunIn) : Prop where
  attrs : r.attrs.map unslot = s.attrs.map unslot
  fault : r.fault = s.fault
  pre : r.cfg.pre = s.cfg.pre
  post : r.cfg.post = s.cfg.post
  rv : r.cfg.runValidators = s.cfg.runValidators
  isExc : r.cfg.isExc = s.cfg.isExc

theorem preEvents_same (r s : RunIn) (h : Same r s) (c : Call) : preEvents r c = preEvents s c := by
  unfold preEvents
  rw [h.pre, ← preEventArgs_unslot r.attrs, ← preEventArgs_unslot s.attrs, h.attrs]

theorem fieldEvents_unslot (attrs : List Attr) (c : Call) :
    ((attrs.map unslot).filter participates).flatMap (attrEvents (attrs.map unslot) c) =
      (attrs.filter participates).flatMap (attrEvents attrs c) :=
  g_filter_flatMap participates _ _ (fun _ => rfl) (fun a => attrEvents_unslot attrs c a) attrs

theorem expectedTrace_same (r s : RunIn) (h : Same r s) (c : Call) : expectedTrace r c = expectedTrace s c := by
  unfold expectedTrace
  rw [preEvents_same r s h c, h.rv, h.post, ← fieldEvents_unslot r.attrs, ← fieldEvents_unslot s.attrs,
    ← validatorEventsOf_unslot r.attrs, ← validatorEventsOf_unslot s.attrs, h.attrs]

theorem upTo_unslot (attrs : List Attr) (c : Call) (n : String) :
    upTo (attrEvents (attrs.map unslot) c) n ((attrs.map unslot).filter participates) =
      upTo (attrEvents attrs c) n (attrs.filter participates) :=
  g_upTo participates _ _ (fun _ => rfl) (fun a => attrEvents_unslot attrs c a) n attrs

/-- the per-field value description, as a function of the unslotted list -/
def valueOf (fault : Option EventId) (pre : List Event) (attrs : List Attr) (c : Call) (a : Attr) :
    String × Option Val :=
  (a.name, if hits fault (pre ++ upTo (attrEvents attrs c) a.name (attrs.filter participates)) then none
           else C01.expectedValue attrs c a)

theorem specValues_eq (r : RunIn) (c : Call) :
    specValues r c = r.attrs.map (valueOf r.fault (preEvents r c) r.attrs c) := rfl

theorem valueOf_unslot (fault : Option EventId) (pre : List Event) (attrs : List Attr) (c : Call) (a : Attr) :
    valueOf fault pre (attrs.map unslot) c (unslot a) = valueOf fault pre attrs c a := by
  unfold valueOf
  rw [upTo_unslot, expectedValue_unslot]
  rfl

theorem specValues_same (r s : RunIn) (h : Same r s) (c : Call) : specValues r c = specValues s c := by
  rw [specValues_eq, specValues_eq, preEvents_same r s h c, h.fault]
  rw [← g_map _ _ (valueOf_unslot s.fault (preEvents s c) r.attrs c) r.attrs,
    ← g_map _ _ (valueOf_unslot s.fault (preEvents s c) s.attrs c) s.attrs, h.attrs]

theorem excList_unslot (attrs : List Attr) (c : Call) :
    (((attrs.map unslot).filter participates).filter (·.init)).map
        (fun a => convApply a (C01.rawOf (attrs.map unslot) c a)) =
      ((attrs.filter participates).filter (·.init)).map (fun a => convApply a (C01.rawOf attrs c a)) := by
  rw [List.filter_filter, List.filter_filter]
  apply g_filter_map _ _ _ (fun _ => rfl)
  intro a
  rw [rawOf_unslot]
  rfl

theorem unset_unslot (attrs : List Attr) :
    (attrs.map unslot).map (fun a => (a.name, (none : Option Val))) = attrs.map (fun a => (a.name, none)) :=
  g_map _ _ (fun _ => rfl) attrs

/-! ### from the decidable well-formedness to the hypotheses -/

theorem same_of (c : MetaCase) (h : sameSpec c = true) :
    Same c.on.eff c.off.eff ∧ c.on.call = c.off.call := by
  unfold sameSpec at h
  simp only [Bool.and_eq_true, beq_iff_eq, Bool.not_eq_true'] at h
  obtain ⟨⟨⟨⟨⟨⟨⟨⟨⟨⟨⟨⟨⟨⟨_, _⟩, _⟩, _⟩, h5⟩, h6⟩, h7⟩, h8⟩, _⟩, h10⟩, _⟩, h12⟩, h13⟩, _⟩, _⟩ := h
  exact ⟨⟨h10, h12, h6, h7, h8, h5⟩, h13⟩

theorem obs_ext (o1 o2 : Init.Obs) (h1 : o1.sig = o2.sig) (h2 : o1.annotations = o2.annotations)
    (h3 : o1.exc = o2.exc) (h4 : o1.values = o2.values) (h5 : o1.trace = o2.trace)
    (h6 : o1.excArgs = o2.excArgs) : ({ o1 with cache := none } : Init.Obs) = { o2 with cache := none } := by
  cases o1; cases o2; simp_all

/-- **the two builds construct alike** -/
theorem ctor_agree (c : MetaCase) (hwf : metaWf c = true) (hk : metaKnown c = []) :
    ctorObs c.on = ctorObs c.off := by
  unfold metaWf at hwf
  simp only [Bool.and_eq_true] at hwf
  obtain ⟨⟨hon, hoff⟩, hsame⟩ := hwf
  obtain ⟨hs, hcall⟩ := same_of c hsame
  have hparams : params c.off.run.attrs = params c.on.run.attrs := by
    rw [← params_unslot c.off.run.attrs, ← params_unslot c.on.run.attrs]
    have := hs.attrs
    simp only [eff_attrs] at this
    rw [this]
  have hknown : C01.known c.on = [] ∧ C01.known c.off = [] := by
    unfold metaKnown at hk
    have hk := (List.append_eq_nil_iff.1 hk).1
    have hor : (c.off.eff.attrs.any (C01.misplaced c.off.eff) || c.on.eff.attrs.any (C01.misplaced c.on.eff)) = false := by
      cases h : (c.off.eff.attrs.any (C01.misplaced c.off.eff) || c.on.eff.attrs.any (C01.misplaced c.on.eff)) with
      | false => rfl
      | true => rw [h] at hk; simp at hk
    rw [Bool.or_eq_false_iff] at hor
    unfold C01.known
    rw [hor.1, hor.2]
    exact ⟨rfl, rfl⟩
  unfold caseWf at hon hoff
  simp only [Bool.and_eq_true, Bool.or_eq_true] at hon hoff
  unfold ctorObs
  cases hok : callOk (params c.on.run.attrs) c.on.call with
  | true =>
    have hok' : callOk (params c.off.run.attrs) c.off.call = true := by rw [hparams, ← hcall]; exact hok
    have b1 : BodyOK c.on.eff c.on.call :=
      C02.bodyOK c.on (by unfold C02.wf; simp [hon.1, hok]) (by unfold C02.known; exact hknown.1)
    have b2 : BodyOK c.off.eff c.off.call :=
      C02.bodyOK c.off (by unfold C02.wf; simp [hoff.1, hok']) (by unfold C02.known; exact hknown.2)
    obtain ⟨s1, a1, t1, e1, v1, x1⟩ := runInit_spec c.on b1
    obtain ⟨s2, a2, t2, e2, v2, x2⟩ := runInit_spec c.off b2
    have htr := expectedTrace_same c.on.eff c.off.eff hs c.on.call
    apply obs_ext
    · rw [s1, s2, ← sigOf_unslot c.on.eff.attrs, ← sigOf_unslot c.off.eff.attrs, hs.attrs]
    · rw [a1, a2, ← annotationsOf_unslot c.on.eff.attrs, ← annotationsOf_unslot c.off.eff.attrs, hs.attrs]
    · rw [e1, e2, htr, hs.fault, hcall]
    · rw [v1, v2, specValues_same c.on.eff c.off.eff hs, hcall]
    · rw [t1, t2, htr, hs.fault, hcall]
    · rw [x1, x2, htr, hs.fault, hs.isExc, ← excList_unslot c.on.eff.attrs, ← excList_unslot c.off.eff.attrs,
        hs.attrs, hcall]
  | false =>
    have hok' : callOk (params c.off.run.attrs) c.off.call = false := by rw [hparams, ← hcall]; exact hok
    have n1 : bind (params c.on.eff.attrs) c.on.call = none := bind_none _ _ (by simpa using hok)
    have n2 : bind (params c.off.eff.attrs) c.off.call = none := bind_none _ _ (by simpa using hok')
    unfold runInit
    dsimp only
    rw [n1, n2]
    dsimp only
    rw [← sigOf_unslot c.on.eff.attrs, ← sigOf_unslot c.off.eff.attrs,
      ← annotationsOf_unslot c.on.eff.attrs, ← annotationsOf_unslot c.off.eff.attrs,
      ← unset_unslot c.on.eff.attrs, ← unset_unslot c.off.eff.attrs, hs.attrs]

/-! ### the `__setattr__` reset of the two builds -/

theorem any_unslot (p : Attr → Bool) (hp : ∀ a, p (unslot a) = p a) (l : List Attr) :
    (l.map unslot).any p = l.any p := by
  induction l with
  | nil => rfl
  | cons a l ih => simp only [List.map_cons, List.any_cons, hp a, ih]

theorem clsHookOf_unslot (d f : Bool) (k : ClsOnSet) (attrs : List Attr) :
    clsHookOf d f k (attrs.map unslot) = clsHookOf d f k attrs := by
  unfold clsHookOf
  rw [any_unslot _ (fun _ => rfl), any_unslot _ (fun _ => rfl)]

theorem inSaAttrs_congr (c1 c2 : Cfg) (h : c1.clsHook = c2.clsHook) (a : Attr) : inSaAttrs c1 a = inSaAttrs c2 a := by
  unfold inSaAttrs
  rw [h]

/-- whether the builder writes its own `__setattr__` does not depend on `slots` -/
theorem wrote_same (c : MetaCase) (h : sameSpec c = true) : wroteSetattr c.on = wroteSetattr c.off := by
  have hs := (same_of c h).1
  unfold sameSpec at h
  simp only [Bool.and_eq_true, beq_iff_eq, Bool.not_eq_true'] at h
  obtain ⟨⟨⟨⟨⟨⟨⟨⟨⟨⟨⟨⟨⟨⟨_, _⟩, hfr⟩, _⟩, _⟩, _⟩, _⟩, _⟩, _⟩, hat⟩, _⟩, _⟩, _⟩, hdef⟩, hcls⟩ := h
  have hhook : c.on.eff.cfg.clsHook = c.off.eff.cfg.clsHook := by
    show clsHookOf c.on.isDefine c.on.run.cfg.frozen c.on.clsOnSet c.on.run.attrs =
      clsHookOf c.off.isDefine c.off.run.cfg.frozen c.off.clsOnSet c.off.run.attrs
    rw [← clsHookOf_unslot _ _ _ c.on.run.attrs, ← clsHookOf_unslot _ _ _ c.off.run.attrs, hat, hdef, hfr, hcls]
  unfold wroteSetattr
  have hfr' : c.on.eff.cfg.frozen = c.off.eff.cfg.frozen := hfr
  rw [hfr', ← any_unslot (inSaAttrs c.on.eff.cfg) (fun _ => rfl) c.on.eff.attrs,
    ← any_unslot (inSaAttrs c.off.eff.cfg) (fun _ => rfl) c.off.eff.attrs]
  have : c.on.eff.attrs.map unslot = c.off.eff.attrs.map unslot := hs.attrs
  rw [this]
  have hf : inSaAttrs c.on.eff.cfg = inSaAttrs c.off.eff.cfg := funext (inSaAttrs_congr _ _ hhook)
  rw [hf]

theorem reset_agree_of_known (c : MetaCase) (hk : metaKnown c = []) : metaSlotsReset c = metaDictReset c := by
  unfold metaKnown at hk
  have h2 := (List.append_eq_nil_iff.1 hk).2
  unfold metaResetDiffers at h2
  cases h : (metaSlotsReset c != metaDictReset c) with
  | true => rw [h] at h2; simp at h2
  | false => simpa using h

theorem meta_meets_spec (c : MetaCase) (hwf : metaWf c = true) (hk : metaKnown c = []) :
    metaSpec c (metaModel c) = true := by
  unfold metaSpec metaModel
  rw [ctor_agree c hwf hk, reset_agree_of_known c hk]
  simp

end Attrs.C08
