/-
  C14 — the resulting class dict in documented terms (closed forms used by the property theorems).
-/
import AttrsModel.Proofs.C14Meets

namespace Attrs.C14

/-- what the class's own dict held under `n` before decoration -/
def untouched (c : Case) (n : String) : Slot := (classDict c.body).get n

theorem built_iff (c : Case) : (model c).err = none ↔ firstError c = none := by
  unfold model wrapDecide
  cases h : firstError c <;> simp

theorem model_built (c : Case) (h : firstError c = none) :
    model c = { err := none, slots := (watch c).map (fun n => (n, (finalDict c).get n)) } := by
  unfold model wrapDecide
  rw [h]

/-- every name except `__setattr__`, `__hash__` and attrs' bookkeeping key: told value, else untouched -/
theorem get_final_told (c : Case) (hwf : wf c = true) (hE : expectErr c = false) (n : String)
    (h1 : n ≠ "__setattr__") (h2 : n ≠ ownSetattrKey) (h3 : n ≠ "__hash__")
    (h4 : slotsDropped.contains n = false) :
    (finalDict c).get n = (toldSlot c n).getD (untouched c n) := by
  have hcmp := hcmp_of_wf c hwf
  have hN := noErr_of_expectErr c hE
  have hw := writeFor_eq_told c hcmp hN n h2
  have h1' : (n == "__setattr__") = false := by simpa using h1
  have h2' : (n == ownSetattrKey) = false := by simpa using h2
  have h3' : (n == "__hash__") = false := by simpa using h3
  have h5 : fieldNames.contains n = false := by
    simp only [slotsDropped, fieldNames, List.cons_append, List.nil_append, List.contains_cons,
      List.contains_nil, Bool.or_false, Bool.or_eq_false_iff] at h4 ⊢
    exact h4.1
  unfold finalDict untouched
  cases hs : slots c
  · simp only [Bool.false_eq_true, if_false]
    rw [get_patchOriginal, hw, h1', h2', h5]
    simp
  · simp only [if_true]
    rw [get_createSlots, hw, h1', h2', h3', h4]
    simp

/-- `__hash__`: told value, else untouched — except that the slotted rebuild lets CPython add
    `__hash__ = None` next to an `__eq__` when nothing is there -/
theorem get_final_hash (c : Case) (hwf : wf c = true) (hE : expectErr c = false) :
    (finalDict c).get "__hash__" =
      match wantHash c with
      | .gen => .gen
      | .setNone => .pyNone
      | .leave =>
        if owns c "__hash__" then .user
        else if owns c "__eq__" then .pyNone
        else if sSlots c && wantEq c then .pyNone
        else .absent := by
  have hcmp := hcmp_of_wf c hwf
  have hN := noErr_of_expectErr c hE
  have hw := writeFor_eq_told c hcmp hN "__hash__" (by decide)
  have hwe := writeFor_eq_told c hcmp hN "__eq__" (by decide)
  have ht : toldSlot c "__hash__" =
      (match wantHash c with | .gen => some .gen | .setNone => some .pyNone | .leave => none) := by
    simp +decide [toldSlot]
    cases wantHash c <;> rfl
  have hte : toldSlot c "__eq__" = (if wantEq c then some .gen else none) := by
    simp +decide [toldSlot]
  have hcd : (classDict c.body).get "__hash__" =
      if owns c "__hash__" then .user else if owns c "__eq__" then .pyNone else .absent := by
    rw [get_classDict]; simp [owns]
  have hh : (classDict c.body).has "__hash__" = (owns c "__hash__" || owns c "__eq__") := by
    have := hasOwn_classDict c.body "__hash__"
    unfold hasOwn at this; rw [this]; simp [owns]
  have he : (classDict c.body).has "__eq__" = owns c "__eq__" := by
    have := hasOwn_classDict c.body "__eq__"
    unfold hasOwn at this; rw [this]; simp +decide [owns]
  unfold finalDict
  cases hs : slots c
  · simp only [Bool.false_eq_true, if_false]
    rw [get_patchOriginal, hw, ht, hcd]
    have hs' : sSlots c = false := by rw [← slots_eq]; exact hs
    cases wantHash c <;> simp +decide [fieldNames, ownSetattrKey, hs']
  · simp only [if_true]
    rw [get_createSlots]
    unfold slotsImplicitHash
    rw [hw, hwe, ht, hte, hcd, hh, he]
    have hs' : sSlots c = true := by rw [← slots_eq]; exact hs
    cases wantHash c <;> cases wantEq c <;> cases owns c "__hash__" <;> cases owns c "__eq__" <;>
      simp +decide [slotsDropped, fieldNames, ownSetattrKey, hs']

/-- an attrs-made `__setattr__` is visible where the reset looks for it -/
def hookedVisible (c : Case) : Bool := c.attrsBase == .hooked && (!sSlots c || !c.plainMid)

/-- `__setattr__`: told value; else `object.__setattr__` when an attrs-made `__setattr__` is inherited and
    the body binds none of its own (whatever auto_detect says); else untouched -/
theorem get_final_setattr (c : Case) (hwf : wf c = true) (hE : expectErr c = false) :
    (finalDict c).get "__setattr__" =
      match toldSlot c "__setattr__" with
      | some v => v
      | none =>
        if hookedVisible c && !owns c "__setattr__" then .objSetattr
        else untouched c "__setattr__" := by
  have hcmp := hcmp_of_wf c hwf
  have hN := noErr_of_expectErr c hE
  have hw := writeFor_eq_told c hcmp hN "__setattr__" (by decide)
  have hc := dictOwnSetattr_case c
  have hcs := has_classDict_setattr c
  unfold finalDict untouched hookedVisible
  cases hs : slots c
  · have hs' : sSlots c = false := by rw [← slots_eq]; exact hs
    simp only [Bool.false_eq_true, if_false]
    rw [get_patchOriginal, resetsDict_case c hwf, hc, hw, hs']
    cases ht : toldSlot c "__setattr__" with
    | some v =>
      rw [wrote_of_writeFor_setattr (decisions c) v (by rw [hw, ht])]
      simp +decide [ownSetattrKey]
    | none =>
      unfold inheritedOwnSetattr
      have hwr : wroteOwnSetattr (decisions c) = false := by
        have : writeFor (decisions c) "__setattr__" = none := by rw [hw, ht]
        unfold writeFor at this
        unfold wroteOwnSetattr
        cases h1 : (decisions c).hooks <;> cases h2 : (decisions c).isFrozen <;> simp_all
      rw [hwr]
      cases c.attrsBase <;> cases owns c "__setattr__" <;>
        simp +decide [ownSetattrKey, fieldNames]
  · have hs' : sSlots c = true := by rw [← slots_eq]; exact hs
    simp only [if_true]
    rw [get_createSlots, hw]
    unfold resetsSlots directOwnSetattr
    rw [hcs, hs']
    cases ht : toldSlot c "__setattr__" with
    | some v =>
      rw [wrote_of_writeFor_setattr (decisions c) v (by rw [hw, ht])]
      simp +decide [ownSetattrKey, slotsDropped, fieldNames]
    | none =>
      have hwr : wroteOwnSetattr (decisions c) = false := by
        have : writeFor (decisions c) "__setattr__" = none := by rw [hw, ht]
        unfold writeFor at this
        unfold wroteOwnSetattr
        cases h1 : (decisions c).hooks <;> cases h2 : (decisions c).isFrozen <;> simp_all
      rw [hwr]
      cases c.attrsBase <;> cases c.plainMid <;> cases owns c "__setattr__" <;>
        simp +decide [ownSetattrKey, slotsDropped, fieldNames]

theorem untouched_eq (c : Case) (n : String) :
    untouched c n =
      if owns c n then .user else if n == "__hash__" && owns c "__eq__" then .pyNone else .absent := by
  unfold untouched owns; rw [get_classDict]

theorem untouched_ne_gen (c : Case) (n : String) : untouched c n ≠ .gen := by
  rw [untouched_eq]; split
  · exact fun h => Slot.noConfusion h
  · split <;> exact fun h => Slot.noConfusion h

theorem untouched_ne_genTuple (c : Case) (n : String) : untouched c n ≠ .genTuple := by
  rw [untouched_eq]; split
  · exact fun h => Slot.noConfusion h
  · split <;> exact fun h => Slot.noConfusion h

theorem ite_getD (b : Bool) (v d : Slot) :
    (if b = true then some v else none).getD d = if b = true then v else d := by
  cases b <;> rfl

/-- membership in the list of written keys -/
theorem lastWrite_isSome_iff (ws : List (String × Slot)) (n : String) :
    (lastWrite ws n).isSome = true ↔ n ∈ ws.map Prod.fst := by
  induction ws with
  | nil => simp [lastWrite_nil]
  | cons w ws ih =>
    rw [lastWrite_cons]
    cases h : lastWrite ws n with
    | some v =>
      have : n ∈ ws.map Prod.fst := ih.1 (by rw [h]; rfl)
      simp [this]
    | none =>
      have hn : ¬ n ∈ ws.map Prod.fst := fun hm => by
        have := ih.2 hm; rw [h] at this; exact Bool.noConfusion this
      by_cases hw : w.1 = n
      · simp [hw]
      · have hw' : (w.1 == n) = false := by simpa using hw
        have : ¬ n = w.1 := fun e => hw e.symm
        simp only [hw', Bool.false_eq_true, if_false, Option.isSome_none, List.map_cons, List.mem_cons]
        simp [this, hn]

end Attrs.C14
