/-
  Helper lemmas for the initializer model: the per-attribute step, the fold over the field list,
  the fault cut, validators, and argument binding.
-/
import AttrsModel.Spec.C02

namespace Attrs.Init
open Attrs.C02 (ev cutAt hits)

/-! ### cut / hits algebra -/

theorem hits_nil (f : Option EventId) : hits f [] = false := rfl

theorem hits_cons (f : Option EventId) (e : Event) (es : List Event) :
    hits f (e :: es) = (decide (f = some e.id) || hits f es) := by
  simp [hits]

theorem hits_append (f : Option EventId) (xs ys : List Event) :
    hits f (xs ++ ys) = (hits f xs || hits f ys) := by
  simp [hits, List.any_append]

theorem cutAt_append (f : Option EventId) (xs ys : List Event) :
    cutAt f (xs ++ ys) = if hits f xs then cutAt f xs else xs ++ cutAt f ys := by
  induction xs with
  | nil => simp [hits]
  | cons x xs ih =>
    by_cases hx : f = some x.id
    · simp [cutAt, hits, hx]
    · have : hits f (x :: xs) = hits f xs := by simp [hits, hx]
      simp only [List.cons_append, cutAt, hx, if_false, ih, this]
      split <;> rfl

theorem cutAt_none (es : List Event) : cutAt none es = es := by
  induction es with
  | nil => rfl
  | cons e es ih => simp [cutAt, ih]

theorem cutAt_of_not_hits (f : Option EventId) (es : List Event) (h : hits f es = false) : cutAt f es = es := by
  induction es with
  | nil => rfl
  | cons e es ih =>
    simp only [hits_cons, Bool.or_eq_false_iff, decide_eq_false_iff_not] at h
    simp [cutAt, h.1, ih h.2]

theorem hits_none (es : List Event) : hits none es = false := by
  simp [hits]

/-! ### stores -/

/-- where technique `t` physically puts field `a` -/
def storeLoc (t : Tech) (a : Attr) : Loc :=
  match t with
  | .instDict => .dict
  | _ => readLoc a

theorem tech_assign_no_hook (cfg : Cfg) (b : Bool) (a : Attr) (h : tech cfg b a = .assign) :
    inSaAttrs cfg a = false := by
  unfold tech hasOnSetattr at h
  unfold inSaAttrs
  grind

/-- with the technique the generator chose, a store is a plain write: no hook runs -/
theorem store_tech (st : St) (cfg : Cfg) (f : Option EventId) (b : Bool) (a : Attr) (v : Val) :
    st.store cfg f (tech cfg b a) a v = st.write a.name (storeLoc (tech cfg b a) a) v := by
  cases h : tech cfg b a with
  | instDict => simp [St.store, storeLoc]
  | setattr => simp [St.store, storeLoc]
  | assign =>
    have := tech_assign_no_hook cfg b a h
    simp [St.store, storeLoc, this]

@[simp] theorem write_trace (st : St) (n : String) (l : Loc) (v : Val) : (st.write n l v).trace = st.trace := rfl
@[simp] theorem write_raised (st : St) (n : String) (l : Loc) (v : Val) : (st.write n l v).raised = st.raised := rfl
@[simp] theorem emit_trace (st : St) (f : Option EventId) (e : Event) : (st.emit f e).trace = st.trace ++ [e] := rfl
@[simp] theorem emit_mem (st : St) (f : Option EventId) (e : Event) : (st.emit f e).mem = st.mem := rfl
theorem emit_raised (st : St) (f : Option EventId) (e : Event) :
    (st.emit f e).raised = if f = some e.id then some .user else st.raised := rfl

theorem write_mem_same (st : St) (n : String) (l : Loc) (v : Val) : (st.write n l v).mem n l = some v := by
  simp [St.write]

theorem write_mem_other (st : St) (n n' : String) (l l' : Loc) (v : Val) (h : n' ≠ n) :
    (st.write n l v).mem n' l' = st.mem n' l' := by
  simp [St.write, h]

theorem write_mem_congr (st st' : St) (n : String) (l : Loc) (v : Val) (h : st'.mem = st.mem) :
    (st'.write n l v).mem = (st.write n l v).mem := by
  simp [St.write, h]

/-! ### one attribute -/

abbrev convEvents (a : Attr) (v : Val) : List Event := convEventsOf a v

/-- result of `x = conv(v)`: shape of a state after a step that emitted `es` and, unless one of them failed,
    wrote `w` for field `a` at `l` -/
structure StepPost (f : Option EventId) (st st' : St) (es : List Event) (n : String) (l : Loc) (w : Val) : Prop where
  trace : st'.trace = st.trace ++ cutAt f es
  raised : st'.raised = if hits f es then some .user else none
  mem : st'.mem = if hits f es then st.mem else (st.write n l w).mem

/-- a converter chain (`pipe`): the members' events up to and including a failing one; no member touches the
    instance; if none fails the result is the left-to-right composition -/
theorem runConvs_spec (f : Option EventId) (n : String) (ms : List Conv) :
    ∀ (i : Nat) (v : Val) (st : St), st.raised = none →
      (runConvs f n i ms v st).1.trace = st.trace ++ cutAt f (pipeEvents n i ms v) ∧
      (runConvs f n i ms v st).1.raised = (if hits f (pipeEvents n i ms v) then some .user else none) ∧
      (runConvs f n i ms v st).1.mem = st.mem ∧
      (hits f (pipeEvents n i ms v) = false → (runConvs f n i ms v st).2 = pipeVal n i ms v) := by
  induction ms with
  | nil => intro i v st hr; simp [runConvs, pipeEvents, pipeVal, cutAt, hits, hr]
  | cons c cs ih =>
    intro i v st hr
    by_cases hf : f = some { kind := "conv", field := n, idx := i }
    · simp [runConvs, pipeEvents, cutAt, hits, hf, St.emit]
    · have h1 : (st.emit f { id := { kind := "conv", field := n, idx := i }, args := convEventArgsN n c v }).raised = none := by
        simp [emit_raised, hf, hr]
      have := ih (i + 1) (convValAt n i c v) _ h1
      obtain ⟨t1, t2, t3, t4⟩ := this
      simp only [runConvs, h1, Option.isSome_none, Bool.false_eq_true, if_false, pipeEvents, pipeVal, cutAt, hf,
        hits_cons, decide_false, Bool.false_or]
      refine ⟨?_, t2, ?_, t4⟩
      · rw [t1]; simp
      · rw [t3]; rfl

theorem setField_spec (cfg : Cfg) (f : Option EventId) (b : Bool) (a : Attr) (v : Val) (st : St)
    (hr : st.raised = none) :
    StepPost f st (setField cfg f b a v st) (convEvents a v) a.name (storeLoc (tech cfg b a) a) (convApply a v) := by
  unfold setField convEvents convEventsOf convApply
  cases hc : a.conv with
  | none => constructor <;> simp [store_tech, cutAt, hits, hr]
  | some c =>
    cases hp : a.pipe with
    | none =>
      by_cases hf : f = some { kind := "conv", field := a.name, idx := 0 }
      · constructor <;> simp [store_tech, cutAt, hits, hf, emit_raised, St.emit]
      · constructor
        · simp [store_tech, cutAt, hits, hf, emit_raised, hr]
        · simp [store_tech, cutAt, hits, hf, emit_raised, hr]
        · simp only [store_tech, emit_raised, hf, hr, if_false, Option.isSome_none, Bool.false_eq_true, hits,
            List.any_cons, List.any_nil, Bool.or_false, decide_eq_true_eq]
          exact write_mem_congr _ _ _ _ _ rfl
    | some ms =>
      obtain ⟨t1, t2, t3, t4⟩ := runConvs_spec f a.name ms 0 v st hr
      dsimp only
      generalize runConvs f a.name 0 ms v st = r at *
      cases hh : hits f (pipeEvents a.name 0 ms v) with
      | true =>
        have hrs : r.1.raised.isSome = true := by rw [t2, hh]; rfl
        rw [if_pos hrs]
        exact ⟨t1, by rw [t2, hh], by rw [t3, hh]; rfl⟩
      | false =>
        have hrs : ¬ (r.1.raised.isSome = true) := by rw [t2, hh]; simp
        rw [if_neg hrs, store_tech]
        refine ⟨by rw [write_trace, t1], by rw [write_raised, t2, hh], ?_⟩
        rw [t4 hh, hh]
        simp only [Bool.false_eq_true, if_false]
        exact write_mem_congr _ _ _ _ _ t3

/-- the value passed for a field, as the body sees it in its environment; `none` = use the default -/
def givenEnv (env : List (String × Val)) (a : Attr) : Option Val :=
  if a.init then
    match lookup a.alias env, a.dflt with
    | some v, .factory _ => if v = NOTHING then none else some v
    | some v, _ => some v
    | none, _ => none
  else none

def rawEnv (env : List (String × Val)) (a : Attr) : Val :=
  match givenEnv env a, a.dflt with
  | some v, _ => v
  | none, .value => dfltVal a
  | none, .factory ts => factoryVal a ts
  | none, .none => "?"

def factoryEvents (env : List (String × Val)) (a : Attr) : List Event :=
  match givenEnv env a, a.dflt with
  | none, .factory ts => [ev "factory" a.name 0 (factoryArgs ts)]
  | _, _ => []

def evEnv (env : List (String × Val)) (a : Attr) : List Event :=
  factoryEvents env a ++ convEvents a (rawEnv env a)

theorem stepAttr_raised (cfg : Cfg) (f : Option EventId) (belief : String → Bool) (env : List (String × Val))
    (st : St) (a : Attr) (hr : st.raised.isSome = true) : stepAttr cfg f belief env st a = st := by
  simp [stepAttr, hr]

theorem stepPost_of_factory (cfg : Cfg) (f : Option EventId) (b : Bool) (a : Attr) (ts : Bool) (st : St)
    (hr : st.raised = none) :
    StepPost f st
      (let st1 := callFactory f a ts st
       if st1.raised.isSome then st1 else setField cfg f b a (factoryVal a ts) st1)
      ([ev "factory" a.name 0 (factoryArgs ts)] ++ convEvents a (factoryVal a ts)) a.name
      (storeLoc (tech cfg b a) a) (convApply a (factoryVal a ts)) := by
  by_cases hf : f = some { kind := "factory", field := a.name, idx := 0 }
  · constructor <;> simp [callFactory, emit_raised, ev, hf, cutAt, hits, St.emit]
  · have h1 : (callFactory f a ts st).raised = none := by simp [callFactory, emit_raised, hf, hr]
    have ht : (callFactory f a ts st).trace = st.trace ++ [ev "factory" a.name 0 (factoryArgs ts)] := rfl
    have hm : (callFactory f a ts st).mem = st.mem := rfl
    have := setField_spec cfg f b a (factoryVal a ts) (callFactory f a ts st) h1
    generalize callFactory f a ts st = st1 at *
    have hfe : (f = some (ev "factory" a.name 0 (factoryArgs ts)).id) = False := by simpa [ev] using hf
    constructor
    · simp only [h1, Option.isSome_none, Bool.false_eq_true, if_false, this.trace, ht, List.cons_append,
        List.nil_append, cutAt, hfe, List.append_assoc]
    · simp only [h1, Option.isSome_none, Bool.false_eq_true, if_false, this.raised, List.cons_append,
        List.nil_append, hits_cons, hfe, decide_false, Bool.false_or]
    · simp only [h1, Option.isSome_none, Bool.false_eq_true, if_false, this.mem, List.cons_append,
        List.nil_append, hits_cons, hfe, decide_false, Bool.false_or, hm]
      split
      · rfl
      · exact write_mem_congr _ _ _ _ _ hm

theorem stepAttr_spec (cfg : Cfg) (f : Option EventId) (belief : String → Bool) (env : List (String × Val))
    (st : St) (a : Attr) (hr : st.raised = none) (hp : participates a = true)
    (he : a.init = true → (lookup a.alias env).isSome = true) :
    StepPost f st (stepAttr cfg f belief env st a) (evEnv env a) a.name
      (storeLoc (tech cfg (belief a.name) a) a) (convApply a (rawEnv env a)) := by
  unfold stepAttr evEnv factoryEvents rawEnv givenEnv
  simp only [hr, Option.isSome_none, Bool.false_eq_true, if_false]
  cases hi : a.init with
  | false =>
    cases hd : a.dflt with
    | none => simp [participates, hi, hd] at hp
    | value =>
      have := setField_spec cfg f (belief a.name) a (dfltVal a) st hr
      simpa using this
    | factory ts =>
      have := stepPost_of_factory cfg f (belief a.name) a ts st hr
      simpa using this
  | true =>
    have hl := he hi
    obtain ⟨v, hv⟩ := Option.isSome_iff_exists.1 hl
    cases hd : a.dflt with
    | none =>
      have := setField_spec cfg f (belief a.name) a v st hr
      simpa [hv] using this
    | value =>
      have := setField_spec cfg f (belief a.name) a v st hr
      simpa [hv] using this
    | factory ts =>
      by_cases hn : v = NOTHING
      · have := stepPost_of_factory cfg f (belief a.name) a ts st hr
        simpa [hv, hn] using this
      · have := setField_spec cfg f (belief a.name) a v st hr
        simpa [hv, hn] using this

/-! ### the fold over the field list -/

abbrev stepF (cfg : Cfg) (f : Option EventId) (belief : String → Bool) (env : List (String × Val)) :=
  stepAttr cfg f belief env

theorem fold_raised (cfg : Cfg) (f : Option EventId) (belief : String → Bool) (env : List (String × Val))
    (l : List Attr) (st : St) (hr : st.raised.isSome = true) :
    l.foldl (stepF cfg f belief env) st = st := by
  induction l generalizing st with
  | nil => rfl
  | cons a l ih => simp only [List.foldl_cons, stepF, stepAttr_raised _ _ _ _ _ _ hr]; exact ih st hr

/-- every listed attribute gets a statement and, if it is a parameter, has a value in the environment -/
def FoldOK (env : List (String × Val)) (l : List Attr) : Prop :=
  ∀ a ∈ l, participates a = true ∧ (a.init = true → (lookup a.alias env).isSome = true)

theorem FoldOK.tail {env : List (String × Val)} {a : Attr} {l : List Attr} (h : FoldOK env (a :: l)) : FoldOK env l :=
  fun b hb => h b (List.mem_cons_of_mem _ hb)

theorem fold_trace_raised (cfg : Cfg) (f : Option EventId) (belief : String → Bool) (env : List (String × Val))
    (l : List Attr) (st : St) (hr : st.raised = none) (hok : FoldOK env l) :
    (l.foldl (stepF cfg f belief env) st).trace = st.trace ++ cutAt f (l.flatMap (evEnv env)) ∧
    (l.foldl (stepF cfg f belief env) st).raised = if hits f (l.flatMap (evEnv env)) then some .user else none := by
  induction l generalizing st with
  | nil => simp [cutAt, hits, hr]
  | cons a l ih =>
    have hs := stepAttr_spec cfg f belief env st a hr (hok a List.mem_cons_self).1 (hok a List.mem_cons_self).2
    simp only [List.foldl_cons, List.flatMap_cons, cutAt_append, hits_append]
    by_cases hh : hits f (evEnv env a) = true
    · have hr' : (stepF cfg f belief env st a).raised.isSome = true := by simp [stepF, hs.raised, hh]
      rw [fold_raised _ _ _ _ _ _ hr']
      simp [stepF, hs.trace, hs.raised, hh]
    · have hh' : hits f (evEnv env a) = false := by simpa using hh
      have hr' : (stepF cfg f belief env st a).raised = none := by simp [stepF, hs.raised, hh']
      obtain ⟨h1, h2⟩ := ih _ hr' hok.tail
      simp only [h1, h2, hh', stepF, hs.trace, Bool.false_or, List.append_assoc, Bool.false_eq_true, if_false,
        cutAt_of_not_hits _ _ hh']
      simp

/-- a field that is not in the list is not touched -/
theorem fold_mem_other (cfg : Cfg) (f : Option EventId) (belief : String → Bool) (env : List (String × Val))
    (l : List Attr) (st : St) (hok : FoldOK env l) (n : String) (L : Loc) (hn : ∀ a ∈ l, a.name ≠ n) :
    (l.foldl (stepF cfg f belief env) st).mem n L = st.mem n L := by
  induction l generalizing st with
  | nil => rfl
  | cons a l ih =>
    simp only [List.foldl_cons]
    rw [ih _ hok.tail (fun b hb => hn b (List.mem_cons_of_mem _ hb))]
    cases hr : st.raised with
    | some e => simp [stepF, stepAttr_raised _ _ _ _ _ _ (by simp [hr] : st.raised.isSome = true)]
    | none =>
      have hs := stepAttr_spec cfg f belief env st a hr (hok a List.mem_cons_self).1 (hok a List.mem_cons_self).2
      simp only [stepF, hs.mem]
      split
      · rfl
      · exact write_mem_other _ _ _ _ _ _ (hn a List.mem_cons_self).symm

theorem fold_mem_self (cfg : Cfg) (f : Option EventId) (belief : String → Bool) (env : List (String × Val))
    (l : List Attr) (st : St) (hr : st.raised = none) (hok : FoldOK env l)
    (hnd : (l.map (·.name)).Nodup) (a : Attr) (ha : a ∈ l) (L : Loc) :
    (l.foldl (stepF cfg f belief env) st).mem a.name L =
      if hits f (C02.upTo (evEnv env) a.name l) then st.mem a.name L
      else if L = storeLoc (tech cfg (belief a.name) a) a then some (convApply a (rawEnv env a))
      else st.mem a.name L := by
  induction l generalizing st with
  | nil => cases ha
  | cons b l ih =>
    have hs := stepAttr_spec cfg f belief env st b hr (hok b List.mem_cons_self).1 (hok b List.mem_cons_self).2
    have hnd2 : (∀ x ∈ l, ¬x.name = b.name) ∧ (l.map (·.name)).Nodup := by simpa using hnd
    have hnd' : (l.map (·.name)).Nodup := hnd2.2
    have hbn : ∀ c ∈ l, c.name ≠ b.name := hnd2.1
    simp only [List.foldl_cons, C02.upTo]
    by_cases hba : b.name = a.name
    · -- `b` is `a` itself
      have hab : a = b := by
        rcases List.mem_cons.1 ha with h | h
        · exact h
        · exact absurd hba.symm (hbn a h)
      subst hab
      simp only [BEq.rfl, if_true, List.append_nil]
      rw [fold_mem_other _ _ _ _ _ _ hok.tail _ _ hbn]
      simp only [stepF, hs.mem]
      split
      · rfl
      · simp [St.write]
    · have ha' : a ∈ l := by
        rcases List.mem_cons.1 ha with h | h
        · exact absurd (by rw [h]) hba
        · exact h
      have hne : (b.name == a.name) = false := by simpa using hba
      simp only [hne, Bool.false_eq_true, if_false, hits_append]
      by_cases hh : hits f (evEnv env b) = true
      · have hr' : (stepF cfg f belief env st b).raised.isSome = true := by simp [stepF, hs.raised, hh]
        rw [fold_raised _ _ _ _ _ _ hr']
        simp [stepF, hs.mem, hh]
      · have hh' : hits f (evEnv env b) = false := by simpa using hh
        have hr' : (stepF cfg f belief env st b).raised = none := by simp [stepF, hs.raised, hh']
        rw [ih _ hr' hok.tail hnd' ha']
        have hm : (stepF cfg f belief env st b).mem a.name L = st.mem a.name L := by
          simp only [stepF, hs.mem, hh', Bool.false_eq_true, if_false]
          exact write_mem_other _ _ _ _ _ _ (fun h => hba h.symm)
        simp only [hm, hh', Bool.false_or]

/-! ### validators -/

def valEv (val : Attr → Val) (ai : Attr × Nat) : Event :=
  ev "validator" ai.1.name ai.2 ["self", "attr." ++ ai.1.name, val ai.1]

theorem validators_raised (f : Option EventId) (l : List (Attr × Nat)) (st : St) (hr : st.raised.isSome = true) :
    l.foldl (runValidator f) st = st := by
  induction l generalizing st with
  | nil => rfl
  | cons a l ih =>
    have : runValidator f st a = st := by simp [runValidator, hr]
    simp only [List.foldl_cons, this]; exact ih st hr

theorem validators_fold (f : Option EventId) (val : Attr → Val) (l : List (Attr × Nat)) (st : St)
    (hr : st.raised = none) (hread : ∀ ai ∈ l, st.read ai.1 = some (val ai.1)) :
    (l.foldl (runValidator f) st).trace = st.trace ++ cutAt f (l.map (valEv val)) ∧
    (l.foldl (runValidator f) st).raised = (if hits f (l.map (valEv val)) then some .user else none) ∧
    (l.foldl (runValidator f) st).mem = st.mem := by
  induction l generalizing st with
  | nil => simp [cutAt, hits, hr]
  | cons ai l ih =>
    have hrd := hread ai List.mem_cons_self
    have hstep : runValidator f st ai = st.emit f (valEv val ai) := by
      simp [runValidator, hr, hrd, valEv, ev]
    simp only [List.foldl_cons, List.map_cons, hstep]
    by_cases hf : f = some (valEv val ai).id
    · have hr' : (st.emit f (valEv val ai)).raised.isSome = true := by simp [emit_raised, hf]
      rw [validators_raised _ _ _ hr']
      simp [cutAt, hits, hf, emit_raised]
    · have hr' : (st.emit f (valEv val ai)).raised = none := by simp [emit_raised, hf, hr]
      have hread' : ∀ bi ∈ l, (st.emit f (valEv val ai)).read bi.1 = some (val bi.1) := by
        intro bi hbi
        have := hread bi (List.mem_cons_of_mem _ hbi)
        simpa [St.read] using this
      obtain ⟨h1, h2, h3⟩ := ih _ hr' hread'
      refine ⟨?_, ?_, ?_⟩
      · simp [h1, cutAt, hf, List.append_assoc]
      · simp [h2, hits_cons, hf]
      · simp [h3]

/-! ### argument binding -/

theorem lookup_map_unique {α : Type} (key : α → String) (g : α → Val) (l : List α) (p : α) (hp : p ∈ l)
    (hu : ∀ q ∈ l, key q = key p → g q = g p) :
    lookup (key p) (l.map (fun q => (key q, g q))) = some (g p) := by
  induction l with
  | nil => cases hp
  | cons q l ih =>
    simp only [List.map_cons, lookup]
    by_cases hq : key q = key p
    · simp [hq, hu q List.mem_cons_self hq]
    · have hne : (key q == key p) = false := by simpa using hq
      simp only [hne, Bool.false_eq_true, if_false]
      rcases List.mem_cons.1 hp with h | h
      · exact absurd (by rw [h]) hq
      · exact ih h (fun r hr => hu r (List.mem_cons_of_mem _ hr))

theorem lookup_isSome_of_mem_zip (n : String) (names : List String) (vals : List Val)
    (hn : n ∈ names) (hl : names.length ≤ vals.length) : (lookup n (names.zip vals)).isSome = true := by
  induction names generalizing vals with
  | nil => cases hn
  | cons m names ih =>
    cases vals with
    | nil => simp at hl
    | cons v vals =>
      simp only [List.zip_cons_cons, lookup]
      by_cases hm : m = n
      · simp [hm]
      · have : (m == n) = false := by simpa using hm
        simp only [this, Bool.false_eq_true, if_false]
        rcases List.mem_cons.1 hn with h | h
        · exact absurd h.symm hm
        · exact ih vals h (by simpa using hl)

theorem lookup_isSome_of_any (n : String) (kw : List (String × Val)) (h : kw.any (·.1 == n) = true) :
    (lookup n kw).isSome = true := by
  induction kw with
  | nil => simp at h
  | cons kv kw ih =>
    obtain ⟨k, v⟩ := kv
    simp only [lookup]
    by_cases hk : k = n
    · simp [hk]
    · have hk' : (k == n) = false := by simpa using hk
      simp only [hk', Bool.false_eq_true, if_false]
      apply ih
      simpa [hk] using h

theorem lookup_mem_values (n : String) (l : List (String × Val)) (v : Val) (h : lookup n l = some v) :
    v ∈ l.map (·.2) := by
  induction l with
  | nil => simp [lookup] at h
  | cons kv l ih =>
    obtain ⟨k, w⟩ := kv
    simp only [lookup] at h
    split at h
    · simp at h; simp [h]
    · simp [ih h]

/-- a supplied parameter has a passed value -/
theorem passed_of_supplied (ps : List Param) (c : Call) (p : Param) (h : supplied ps c p = true) :
    (passed ps c p.name).isSome = true := by
  unfold supplied at h
  unfold passed
  rcases Bool.or_eq_true_iff.1 h with h1 | h2
  · have hmem : p.name ∈ (posTaken ps c).map (·.name) := by
      obtain ⟨q, hq, hqn⟩ := List.any_eq_true.1 h1
      exact List.mem_map.2 ⟨q, hq, by simpa using hqn⟩
    have hlen : ((posTaken ps c).map (·.name)).length ≤ c.pos.length := by
      simp [posTaken, List.length_take]; omega
    have := lookup_isSome_of_mem_zip p.name _ c.pos hmem hlen
    obtain ⟨v, hv⟩ := Option.isSome_iff_exists.1 this
    simp [hv]
  · have := lookup_isSome_of_any p.name c.kw h2
    split <;> simp_all

/-- a passed value is one of the call's argument values -/
theorem passed_mem (ps : List Param) (c : Call) (n : String) (v : Val) (h : passed ps c n = some v) :
    v ∈ c.pos ∨ v ∈ c.kw.map (·.2) := by
  unfold passed at h
  split at h
  · rename_i w hw
    have := lookup_mem_values _ _ _ hw
    left
    have h' : w = v := by simpa using h
    subst h'
    obtain ⟨kv, hkv, hkv2⟩ := List.mem_map.1 this
    have := (List.of_mem_zip hkv).2
    rw [← hkv2]; exact this
  · right; exact lookup_mem_values _ _ _ h

theorem paramOf_mem_params (attrs : List Attr) (a : Attr) (ha : a ∈ attrs) (hi : a.init = true) :
    paramOf a ∈ params attrs := by
  unfold params
  have hm : paramOf a ∈ (attrs.filter (·.init)).map paramOf :=
    List.mem_map.2 ⟨a, List.mem_filter.2 ⟨ha, hi⟩, rfl⟩
  cases hk : (paramOf a).kwOnly
  · exact List.mem_append_left _ (List.mem_filter.2 ⟨hm, by simp [hk]⟩)
  · exact List.mem_append_right _ (List.mem_filter.2 ⟨hm, by simp [hk]⟩)

theorem mem_params (attrs : List Attr) (p : Param) (hp : p ∈ params attrs) :
    ∃ b ∈ attrs, b.init = true ∧ p = paramOf b := by
  unfold params at hp
  have : p ∈ (attrs.filter (·.init)).map paramOf := by
    rcases List.mem_append.1 hp with h | h <;> exact (List.mem_filter.1 h).1
  obtain ⟨b, hb, hbp⟩ := List.mem_map.1 this
  exact ⟨b, (List.mem_filter.1 hb).1, by simpa using (List.mem_filter.1 hb).2, hbp.symm⟩

/-- init fields have pairwise distinct aliases -/
def AliasInj (attrs : List Attr) : Prop :=
  ∀ a ∈ attrs, ∀ b ∈ attrs, a.init = true → b.init = true → a.alias = b.alias → a = b

/-- the environment the body runs in after a successful bind -/
def envOf (attrs : List Attr) (c : Call) : List (String × Val) :=
  (params attrs).map (fun p => (p.name, (passed (params attrs) c p.name).getD (p.dflt.getD "?")))

theorem bind_eq (attrs : List Attr) (c : Call) (h : callOk (params attrs) c = true) :
    bind (params attrs) c = some (envOf attrs c) := by
  simp [bind, h, envOf]

theorem bind_none (attrs : List Attr) (c : Call) (h : callOk (params attrs) c = false) :
    bind (params attrs) c = none := by
  simp [bind, h]

theorem env_lookup (attrs : List Attr) (c : Call) (hinj : AliasInj attrs) (a : Attr) (ha : a ∈ attrs)
    (hi : a.init = true) :
    lookup a.alias (envOf attrs c) =
      some ((passed (params attrs) c a.alias).getD ((paramOf a).dflt.getD "?")) := by
  have hp := paramOf_mem_params attrs a ha hi
  have := lookup_map_unique (fun p : Param => p.name)
    (fun p => (passed (params attrs) c p.name).getD (p.dflt.getD "?")) (params attrs) (paramOf a) hp
    (by
      intro q hq hqn
      obtain ⟨b, hb, hbi, hqb⟩ := mem_params attrs q hq
      have : b = a := hinj b hb a ha hbi hi (by simpa [hqb, paramOf] using hqn)
      subst this; rw [hqb])
  simpa [envOf, paramOf] using this

/-! ### bridge: the body's environment view = the call view used by the specification -/

structure BindOK (attrs : List Attr) (c : Call) : Prop where
  ok : callOk (params attrs) c = true
  inj : AliasInj attrs
  posTok : ∀ v ∈ c.pos, v ≠ NOTHING
  kwTok : ∀ kv ∈ c.kw, kv.2 ≠ NOTHING

theorem passed_ne_nothing {attrs : List Attr} {c : Call} (h : BindOK attrs c) (n : String) (v : Val)
    (hv : passed (params attrs) c n = some v) : v ≠ NOTHING := by
  rcases passed_mem _ _ _ _ hv with h1 | h2
  · exact h.posTok v h1
  · obtain ⟨kv, hkv, hkv2⟩ := List.mem_map.1 h2
    rw [← hkv2]; exact h.kwTok kv hkv

theorem mandatory_passed {attrs : List Attr} {c : Call} (h : BindOK attrs c) (a : Attr) (ha : a ∈ attrs)
    (hi : a.init = true) (hd : a.dflt = .none) : (passed (params attrs) c a.alias).isSome = true := by
  have hok := h.ok
  unfold callOk at hok
  simp only [Bool.and_eq_true] at hok
  have hall := hok.2
  have hp := paramOf_mem_params attrs a ha hi
  have := List.all_eq_true.1 hall (paramOf a) hp
  have hdn : (paramOf a).dflt = none := by simp [paramOf, hd]
  simp only [hdn, Option.isSome_none, Bool.false_or] at this
  simpa [paramOf] using passed_of_supplied _ _ _ this

/-- what the spec calls "given": the value passed for the field's parameter -/
def givenCall (attrs : List Attr) (c : Call) (a : Attr) : Option Val :=
  if a.init then passed (params attrs) c a.alias else none

theorem env_isSome {attrs : List Attr} {c : Call} (h : BindOK attrs c) (a : Attr) (ha : a ∈ attrs)
    (hi : a.init = true) : (lookup a.alias (envOf attrs c)).isSome = true := by
  simp [env_lookup attrs c h.inj a ha hi]

theorem bridge {attrs : List Attr} {c : Call} (h : BindOK attrs c) (a : Attr) (ha : a ∈ attrs) :
    rawEnv (envOf attrs c) a = C01.rawOf attrs c a ∧
    factoryEvents (envOf attrs c) a =
      (match givenCall attrs c a, a.dflt with
       | none, .factory ts => [ev "factory" a.name 0 (factoryArgs ts)]
       | _, _ => []) := by
  unfold rawEnv factoryEvents givenEnv C01.rawOf givenCall
  cases hi : a.init with
  | false => cases hd : a.dflt <;> simp
  | true =>
    simp only [if_true, env_lookup attrs c h.inj a ha hi]
    cases hpz : passed (params attrs) c a.alias with
    | some v =>
      have hv := passed_ne_nothing h _ _ hpz
      cases hd : a.dflt <;> simp [hv]
    | none =>
      cases hd : a.dflt with
      | none =>
        have := mandatory_passed h a ha hi hd
        simp [hpz] at this
      | value => simp [paramOf, hd]
      | factory ts => simp [paramOf, hd]

theorem evEnv_bridge {attrs : List Attr} {c : Call} (h : BindOK attrs c) (a : Attr) (ha : a ∈ attrs) :
    evEnv (envOf attrs c) a = C02.attrEvents attrs c a := by
  obtain ⟨h1, h2⟩ := bridge h a ha
  unfold evEnv C02.attrEvents convEvents
  rw [h1, h2]
  rfl

end Attrs.Init
