/-
  C07 — the views (index, name, fields_dict, has, match_args, init parameters) all derive from one list.
-/
import AttrsModel.Proofs.C07Wf

namespace Attrs.C07

theorem indexOf?_lt {α : Type} (p : α → Bool) (l : List α) {j : Nat} (h : indexOf? p l = some j) : j < l.length := by
  induction l generalizing j with
  | nil => simp [indexOf?] at h
  | cons a l ih =>
    simp only [indexOf?] at h
    split at h
    · simp only [Option.some.injEq] at h; subst h; simp
    · cases hq : indexOf? p l with
      | none => simp [hq] at h
      | some i =>
        simp only [hq, Option.map_some, Option.some.injEq] at h
        subst h
        have := ih hq
        simp; omega

theorem indexOf?_none {α : Type} (p : α → Bool) (l : List α) : indexOf? p l = none ↔ ∀ a ∈ l, p a = false := by
  induction l with
  | nil => simp [indexOf?]
  | cons a l ih =>
    simp only [indexOf?]
    by_cases h : p a = true
    · simp [h]
    · simp [h, ih]

theorem indexOf?_snoc {α : Type} (p : α → Bool) (l : List α) (a : α) :
    indexOf? p (l ++ [a]) =
      match indexOf? p l with
      | some i => some i
      | none => if p a then some l.length else none := by
  induction l with
  | nil => simp [indexOf?]
  | cons x l ih =>
    simp only [List.cons_append, indexOf?]
    by_cases h : p x = true
    · simp [h]
    · simp only [h, ih]
      cases indexOf? p l with
      | some i => simp
      | none => by_cases ha : p a = true <;> simp [ha]

/-- with distinct names the property installed for a name reads the (only) index holding that name -/
theorem tupleProp_eq (ns : List String) (h : ns.Nodup) (n : String) :
    tupleProp ns n = indexOf? (· == n) ns := by
  induction ns with
  | nil => simp [tupleProp, indexOf?]
  | cons a l ih =>
    rw [List.nodup_cons] at h
    have ih' := ih h.2
    simp only [tupleProp, List.reverse_cons, indexOf?_snoc, List.length_cons] at ih' ⊢
    cases hq : indexOf? (· == n) l.reverse with
    | some j =>
      have hj := indexOf?_lt _ _ hq
      simp only [List.length_reverse] at hj
      simp only [hq, Option.map_some] at ih' ⊢
      have han : (a == n) = false := by
        have : n ∈ l := by
          by_cases hm : n ∈ l
          · exact hm
          · have : indexOf? (· == n) l.reverse = none := by
              rw [indexOf?_none]; intro x hx
              have hx' : x ∈ l := by simpa using hx
              simp only [beq_eq_false_iff_ne, ne_eq]
              intro hxe; exact hm (hxe ▸ hx')
            simp [this] at hq
        simp only [beq_eq_false_iff_ne, ne_eq]
        intro hae; exact h.1 (hae ▸ this)
      simp only [indexOf?, han, Bool.false_eq_true, if_false, ← ih', Option.map_some, Option.some.injEq]
      omega
    | none =>
      simp only [hq, Option.map_none] at ih' ⊢
      by_cases han : (a == n) = true
      · simp [indexOf?, han]
      · simp [indexOf?, han, ← ih']

theorem dictKeys_eq (ns seen : List String) (h : ns.Nodup) (hd : ∀ n ∈ ns, n ∉ seen) : dictKeys ns seen = ns := by
  induction ns generalizing seen with
  | nil => rfl
  | cons a l ih =>
    rw [List.nodup_cons] at h
    have ha : seen.contains a = false := by simpa using hd a List.mem_cons_self
    simp only [dictKeys, ha, Bool.false_eq_true, if_false]
    rw [ih (a :: seen) h.2]
    intro n hn hmem
    rcases List.mem_cons.1 hmem with rfl | hm
    · exact h.1 hn
    · exact hd n (List.mem_cons_of_mem _ hn) hm

theorem indexOf?_map {α β : Type} (f : α → β) (p : β → Bool) (l : List α) :
    indexOf? p (l.map f) = indexOf? (fun a => p (f a)) l := by
  induction l with
  | nil => rfl
  | cons a l ih => simp [indexOf?, ih]

@[simp] theorem toObs_name (a : Attr) : (toObs a).name = a.name := rfl

theorem toObs_defaultAlias (a : Attr) : toObs (defaultAlias a) = obsAlias (toObs a) := by
  obtain ⟨n, t, tt, inh, hd, i, kw, al⟩ := a
  cases al with
  | none => rfl
  | some s => by_cases h : s.isEmpty = true <;> simp [defaultAlias, obsAlias, toObs, h]

theorem obsBadOrder_toObs (had : Bool) (l : List Attr) :
    obsBadOrderFrom had (l.map toObs) = badOrderFrom had l := by
  induction l generalizing had with
  | nil => rfl
  | cons a l ih =>
    simp only [List.map_cons, obsBadOrderFrom, badOrderFrom, toObs, ih]

/-- `has` on the model's final table -/
theorem hasOf_spec {c : Case} (W : WfFacts c) {tbl : Table} (hinv : TInv c.classes tbl)
    (hlen : tbl.length = c.classes.length) (b : Nat) (hb : b < c.classes.length) :
    (isAttrsCls c.classes b = true → hasOf (mroOf c.classes) tbl b = true) ∧
    ((mroOf c.classes b).all (fun m => !isAttrsCls c.classes m) = true → hasOf (mroOf c.classes) tbl b = false) := by
  obtain ⟨hhead, hall⟩ := mro_facts W c.classes.length b hb (Nat.le_refl _)
  have hfs := findSome_tbl hinv (mroOf c.classes b) (by rw [hlen]; exact hall)
  constructor
  · intro hA
    cases hq : mroOf c.classes b with
    | nil => simp [hq] at hhead
    | cons x tl =>
      simp only [hq, List.head?_cons, Option.some.injEq] at hhead
      subst hhead
      rcases hinv x (by omega) with ⟨_, g2⟩ | ⟨T, g1, _, _⟩
      · simp [hA] at g2
      · simp [hasOf, hq, List.findSome?_cons, g1]
  · intro hP
    have : (mroOf c.classes b).find? (isAttrsCls c.classes) = none := by
      rw [List.find?_eq_none]
      intro m hm
      have := (List.all_eq_true.1 hP) m hm
      simpa using this
    simp [hasOf, hfs, this]

end Attrs.C07
