/-
  C17 — static half of "model meets spec": the intended objects are the ones the field specification
  calls for (`uses_entryOk`), and everything the specification requires is among them (`required_sub`).
-/
import AttrsModel.Proofs.C17Spec

namespace Attrs.C17

theorem entryOk_fx (c : Case) (m n : String)
    (h : (attrsObjectNames.contains n || usedBuiltins.contains n) = true) : entryOk c (fx m n) = true := by
  simp only [entryOk, fx, fixedObj, beq_self_eq_true, Bool.true_and]
  exact h

theorem filtered_mem (c : Case) (f : Field) (h : f ∈ filtered c) : f ∈ c.fields ∧ inInit f = true := by
  simpa [filtered, List.mem_filter] using h

theorem reprUses_ok (c : Case) (u : Entry) (h : u ∈ reprUses c) : entryOk c u = true := by
  simp only [reprUses, List.mem_append, List.mem_cons, List.mem_flatMap, List.mem_filter,
    List.not_mem_nil, or_false] at h
  rcases h with (h | h | h) | ⟨f, ⟨hf, _⟩, h⟩
  · subst h; exact entryOk_fx c _ _ (by decide)
  · subst h; exact entryOk_fx c _ _ (by decide)
  · subst h; exact entryOk_fx c _ _ (by decide)
  · rcases h with h | h
    · split at h
      · rename_i hc
        simp only [List.mem_singleton] at h
        subst h
        simp only [entryOk, use, beq_self_eq_true, Bool.true_and, List.any_eq_true]
        exact ⟨f, hf, by simpa using hc⟩
      · simp at h
    · split at h
      · simp only [List.mem_cons, List.not_mem_nil, or_false] at h
        rcases h with h | h <;> subst h <;> exact entryOk_fx c _ _ (by decide)
      · simp at h

theorem eqUses_ok (c : Case) (u : Entry) (h : u ∈ eqUses c) : entryOk c u = true := by
  simp only [eqUses, List.mem_cons, List.mem_map, List.mem_filter] at h
  rcases h with h | ⟨f, ⟨hf, hc⟩, h⟩
  · subst h; exact entryOk_fx c _ _ (by decide)
  · subst h
    have : (c.fields.any fun g => g.name == f.name && g.eq && g.eqKey && eqKeyName f.name == eqKeyName g.name) = true :=
      List.any_eq_true.2 ⟨f, hf, by simpa using hc⟩
    simp [entryOk, use, this]

theorem hashUses_ok (c : Case) (u : Entry) (h : u ∈ hashUses c) : entryOk c u = true := by
  simp only [hashUses, List.mem_append, List.mem_singleton, List.mem_map, List.mem_filter] at h
  rcases h with ((h | h) | ⟨f, ⟨hf, hc⟩, h⟩) | h
  · subst h; exact entryOk_fx c _ _ (by decide)
  · split at h
    · simp only [List.mem_singleton] at h; subst h; exact entryOk_fx c _ _ (by decide)
    · simp at h
  · subst h
    have : (c.fields.any fun g => g.name == f.name && hashPart g && g.eqKey && hashKeyName f.name == hashKeyName g.name) = true :=
      List.any_eq_true.2 ⟨f, hf, by simpa using hc⟩
    simp [entryOk, use, this]
  · split at h
    · simp only [List.mem_singleton] at h; subst h; exact entryOk_fx c _ _ (by decide)
    · simp at h

theorem fieldBodyUses_ok (c : Case) (f : Field) (hf : f ∈ filtered c) (u : Entry)
    (h : u ∈ fieldBodyUses f) : entryOk c u = true := by
  obtain ⟨hm, hi⟩ := filtered_mem c f hf
  simp only [fieldBodyUses, List.mem_append] at h
  rcases h with ((h | h) | h) | h <;> split at h <;>
    simp only [List.mem_singleton, List.not_mem_nil] at h
  · subst h; exact entryOk_fx c _ _ (by decide)
  · rename_i hc
    subst h
    simp only [entryOk, use, beq_self_eq_true, Bool.true_and, List.any_eq_true]
    exact ⟨f, hm, by simp [initRuns, hi, hc]⟩
  · rename_i hc
    subst h
    simp only [entryOk, use, beq_self_eq_true, Bool.true_and, List.any_eq_true]
    exact ⟨f, hm, by simp [initRuns, hi, hc]⟩
  · subst h; exact entryOk_fx c _ _ (by decide)

theorem initBodyUses_ok (c : Case) (u : Entry) (h : u ∈ initBodyUses c) : entryOk c u = true := by
  simp only [initBodyUses, List.mem_append, List.mem_flatMap] at h
  rcases h with ((h | ⟨f, hf, h⟩) | h) | h
  · split at h
    · simp only [List.mem_singleton] at h; subst h; exact entryOk_fx c _ _ (by decide)
    · simp at h
  · exact fieldBodyUses_ok c f hf u h
  · split at h
    · simp only [List.mem_cons, List.mem_flatMap, List.mem_filter] at h
      rcases h with h | ⟨f, ⟨hf, hv⟩, h⟩
      · subst h; exact entryOk_fx c _ _ (by decide)
      · obtain ⟨hm, hi⟩ := filtered_mem c f hf
        simp only [fieldValUses, hv, if_true, List.mem_cons, List.not_mem_nil, or_false] at h
        rcases h with h | h <;> subst h <;>
          simp only [entryOk, use, beq_self_eq_true, Bool.true_and, List.any_eq_true] <;>
          exact ⟨f, hm, by simp [initRuns, hi, hv]⟩
    · simp at h
  · split at h
    · simp only [List.mem_singleton] at h; subst h; exact entryOk_fx c _ _ (by decide)
    · simp at h

theorem initTopUses_ok (c : Case) (u : Entry) (h : u ∈ initTopUses c) : entryOk c u = true := by
  simp only [initTopUses, List.mem_flatMap] at h
  obtain ⟨f, _, h⟩ := h
  split at h
  · simp only [List.mem_singleton] at h; subst h; exact entryOk_fx c _ _ (by decide)
  · split at h
    · simp only [List.mem_singleton] at h; subst h; exact entryOk_fx c _ _ (by decide)
    · simp at h

/-- every intended object is what the field specification calls for -/
theorem uses_entryOk (c : Case) (u : Entry) (h : u ∈ uses c) : entryOk c u = true := by
  simp only [uses, List.mem_append] at h
  rcases h with ((h | h) | h) | h
  · split at h
    · exact reprUses_ok c u h
    · simp at h
  · split at h
    · exact eqUses_ok c u h
    · simp at h
  · split at h
    · exact hashUses_ok c u h
    · simp at h
  · simp only [initUses, List.mem_append, List.mem_filter] at h
    rcases h with ⟨h, _⟩ | h
    · exact initBodyUses_ok c u h
    · exact initTopUses_ok c u h

theorem entryOk_not_module (c : Case) (u : Entry) (h : entryOk c u = true) : u.obj.kind ≠ .module := by
  intro hk
  simp [entryOk, hk] at h

/-! ### everything the specification requires is loaded and found -/

theorem not_param_of_body (c : Case) (hs : paramShadows c = false) (u : Entry) (h : u ∈ initBodyUses c) :
    (params c).contains u.name = false := by
  cases hp : (params c).contains u.name with
  | false => rfl
  | true =>
    exfalso
    have hmem : u.name ∈ params c := by simpa using hp
    have : paramShadows c = true := by
      simp only [paramShadows, List.any_eq_true, Bool.or_eq_true]
      refine ⟨u.name, hmem, Or.inl ?_⟩
      simp only [initBodyNames, List.contains_iff_mem, List.mem_map]
      exact ⟨u, h, rfl⟩
    simp [hs] at this

theorem mem_uses_of_body (c : Case) (hs : paramShadows c = false) (u : Entry) (h : u ∈ initBodyUses c) :
    u ∈ uses c := by
  simp only [uses, initUses, List.mem_append, List.mem_filter]
  right; left
  exact ⟨h, by rw [not_param_of_body c hs u h]; rfl⟩

theorem mem_body_of_field (c : Case) (f : Field) (hf : f ∈ filtered c) (u : Entry) (h : u ∈ fieldBodyUses f) :
    u ∈ initBodyUses c := by
  simp only [initBodyUses, List.mem_append, List.mem_flatMap]
  left; left; right; exact ⟨f, hf, h⟩

theorem required_sub (c : Case) (hs : paramShadows c = false) (r : Entry) (h : r ∈ required c) :
    r ∈ uses c := by
  simp only [required, List.mem_append, List.mem_flatMap, List.mem_filter] at h
  rcases h with ((((⟨f, ⟨hm, hi⟩, h⟩ | h) | h) | h) | h)
  · have hf : f ∈ filtered c := by simp [filtered, List.mem_filter, hm]; simpa [initRuns] using hi
    apply mem_uses_of_body c hs
    rcases h with (((h | h) | h) | h) | h
    · split at h
      · rename_i hc
        simp only [List.mem_singleton] at h; subst h
        exact mem_body_of_field c f hf _ (by simp [fieldBodyUses, hc, use])
      · simp at h
    · split at h
      · rename_i hc
        simp only [List.mem_singleton] at h; subst h
        exact mem_body_of_field c f hf _ (by simp [fieldBodyUses, hc, use])
      · simp at h
    · split at h
      · rename_i hv
        have hav := anyValidator_of c f hf hv
        simp only [List.mem_cons, List.not_mem_nil, or_false] at h
        simp only [initBodyUses, List.mem_append, hav, if_true, List.mem_cons, List.mem_flatMap, List.mem_filter]
        rcases h with h | h | h
        · subst h; left; right; right
          exact ⟨f, ⟨hf, hv⟩, by simp [fieldValUses, hv, use]⟩
        · subst h; left; right; right
          exact ⟨f, ⟨hf, hv⟩, by simp [fieldValUses, hv, use]⟩
        · subst h; left; right; left; rfl
      · simp at h
    · split at h
      · rename_i hc
        simp only [List.mem_singleton] at h; subst h
        have hc' : f.init = true ∧ hasFactory f = true := by simpa using hc
        exact mem_body_of_field c f hf _ (by simp [fieldBodyUses, hc'.1, hc'.2, fx, fixedObj])
      · simp at h
    · split at h
      · rename_i hc
        simp only [List.mem_singleton] at h; subst h
        refine mem_body_of_field c f hf _ ?_
        simp only [fieldBodyUses, List.mem_append]
        right
        have : ((!f.init && f.dflt == Dflt.value) || takesField f) = true := by
          rw [Bool.or_comm]; exact hc
        simp [this, fx, fixedObj]
      · simp at h
  · split at h
    · rename_i hc
      simp only [List.mem_singleton] at h; subst h
      apply mem_uses_of_body c hs
      simp [initBodyUses, hc, fx, fixedObj]
    · simp at h
  · split at h
    · rename_i hc
      simp only [List.mem_map, List.mem_filter] at h
      obtain ⟨f, hf, h⟩ := h
      subst h
      simp only [uses, List.mem_append, hc, if_true]
      left; left; right
      simp only [eqUses, List.mem_cons, List.mem_map, List.mem_filter]
      right; exact ⟨f, hf, rfl⟩
    · simp at h
  · split at h
    · rename_i hc
      simp only [List.mem_map, List.mem_filter] at h
      obtain ⟨f, hf, h⟩ := h
      subst h
      simp only [uses, List.mem_append, hc, if_true]
      left; right
      simp only [hashUses, List.mem_append, List.mem_map, List.mem_filter]
      left; right; exact ⟨f, hf, rfl⟩
    · simp at h
  · split at h
    · rename_i hc
      simp only [List.mem_map, List.mem_filter] at h
      obtain ⟨f, ⟨hf, hr⟩, h⟩ := h
      subst h
      simp only [uses, List.mem_append, hc, if_true]
      left; left; left
      simp only [reprUses, List.mem_append, List.mem_flatMap, List.mem_filter]
      right
      have hr' : f.repr = .custom := by simpa using hr
      exact ⟨f, ⟨hf, by simp [reprOn, hr']⟩, by simp [hr', use]⟩
    · simp at h

end Attrs.C17
