/-
  C01 — which converter / factory callbacks run: the declarative `C01.expectedCalls` (from the statement) is
  exactly the conv/factory part of C02's complete expected trace, and counting lemmas for "exactly once".
-/
import AttrsModel.Proofs.Init

namespace Attrs.C01
open Attrs.Init
open Attrs.C02 (ev expectedTrace attrEvents preEvents validatorEventsOf)

theorem callsOf_append (xs ys : List Event) : callsOf (xs ++ ys) = callsOf xs ++ callsOf ys := by
  simp [callsOf, List.filter_append]

theorem callsOf_flatMap {α : Type} (f : α → List Event) (l : List α) :
    callsOf (l.flatMap f) = l.flatMap (fun a => callsOf (f a)) := by
  induction l with
  | nil => rfl
  | cons a l ih => simp only [List.flatMap_cons, callsOf_append, ih]

theorem flatMap_nil' {α β : Type} (f : α → List β) (l : List α) (h : ∀ a ∈ l, f a = []) : l.flatMap f = [] := by
  induction l with
  | nil => rfl
  | cons a l ih =>
    simp only [List.flatMap_cons, h a (List.mem_cons_self), List.nil_append]
    exact ih (fun b hb => h b (List.mem_cons_of_mem _ hb))

theorem callsOf_pre (r : RunIn) (c : Call) : callsOf (preEvents r c) = [] := by
  unfold preEvents
  cases r.cfg.pre <;> simp [callsOf, isCall, ev]

theorem callsOf_validators (attrs : List Attr) (c : Call) : callsOf (validatorEventsOf attrs c) = [] := by
  unfold validatorEventsOf
  rw [callsOf_flatMap]
  apply flatMap_nil'
  intro a _
  simp [callsOf, isCall, ev]

theorem callsOf_post (b : Bool) : callsOf (if b then [ev "post" "" 0 []] else []) = [] := by
  cases b <;> simp [callsOf, isCall, ev]

/-- the members of a converter chain, arguments blanked: one `conv` invocation per member, `idx` = position -/
theorem callsOf_pipeEvents (n : String) (ms : List Conv) : ∀ (i : Nat) (v : Val),
    callsOf (pipeEvents n i ms v) =
      (List.range' i ms.length).map (fun j => { id := { kind := "conv", field := n, idx := j }, args := [] }) := by
  induction ms with
  | nil => intro i v; rfl
  | cons c cs ih =>
    intro i v
    have := ih (i + 1) (convValAt n i c v)
    simp only [pipeEvents, List.length_cons, List.range'_succ, List.map_cons]
    rw [← this]
    simp [callsOf, isCall, blankArgs]

/-- the converter callbacks of a field, arguments blanked, are `convCalls`: once for a single converter, every
    member of a chain once, in order -/
theorem callsOf_convEventsOf (a : Attr) (v : Val) : callsOf (convEventsOf a v) = convCalls a := by
  unfold convEventsOf convCalls convCount
  cases a.conv with
  | none => rfl
  | some c =>
    cases a.pipe with
    | none => simp [callsOf, isCall, blankArgs]
    | some ms => simp only [callsOf_pipeEvents, List.range_eq_range']

/-- one field's part: factory iff the value comes from the factory, then converter iff there is one -/
theorem callsOf_attrEvents (attrs : List Attr) (c : Call) (a : Attr) :
    callsOf (attrEvents attrs c a) =
      (if fromFactory attrs c a then [callEv "factory" a.name] else []) ++ convCalls a := by
  unfold attrEvents
  rw [callsOf_append, callsOf_convEventsOf]
  congr 1
  unfold fromFactory valueSupplied hasFactory
  cases hi : a.init <;> cases hd : a.dflt <;>
    cases hp : passed (params attrs) c a.alias <;>
    simp [callsOf, isCall, blankArgs, callEv, ev]

/-- **the link between C01's and C02's declarative traces**: dropping pre-init / validator / post-init events
    and all arguments from the complete expected trace leaves exactly `expectedCalls`. -/
theorem callsOf_expectedTrace (r : RunIn) (c : Call) :
    ((expectedTrace r c).filter isCall).map blankArgs = expectedCalls r.attrs c := by
  show callsOf (expectedTrace r c) = _
  unfold expectedTrace expectedCalls
  rw [callsOf_append, callsOf_append, callsOf_append, callsOf_pre, callsOf_post, callsOf_flatMap]
  have hv : callsOf (if r.cfg.runValidators = true then validatorEventsOf r.attrs c else []) = [] := by
    split
    · exact callsOf_validators _ _
    · rfl
  rw [hv]
  simp only [List.nil_append, List.append_nil]
  have : (fun a => callsOf (attrEvents r.attrs c a)) = _ := funext (callsOf_attrEvents r.attrs c)
  rw [this]

/-! ### counting invocations -/

/-- how often the callback `kind` of field `n` was invoked in a trace -/
def callCount (kind n : String) (t : List Event) : Nat :=
  t.countP (fun e => e.id.kind == kind && e.id.field == n)

theorem callCount_append (k n : String) (xs ys : List Event) :
    callCount k n (xs ++ ys) = callCount k n xs + callCount k n ys := by
  simp [callCount, List.countP_append]

/-- converter / factory invocations are exactly what `callsOf` keeps -/
theorem callCount_callsOf (k n : String) (hk : k = "conv" ∨ k = "factory") (t : List Event) :
    callCount k n (callsOf t) = callCount k n t := by
  induction t with
  | nil => rfl
  | cons e t ih =>
    have hc : callsOf (e :: t) = callsOf [e] ++ callsOf t := callsOf_append [e] t
    have ht : e :: t = [e] ++ t := rfl
    rw [hc, ht, callCount_append, callCount_append, ih]
    congr 1
    have hne : isCall e = false → (e.id.kind == k) = false := by
      intro h
      have h' : ¬e.id.kind = "conv" ∧ ¬e.id.kind = "factory" := by simpa [isCall] using h
      rcases hk with rfl | rfl
      · simpa using h'.1
      · simpa using h'.2
    cases hc : isCall e with
    | true => simp [callsOf, hc, callCount, blankArgs]
    | false => simp [callsOf, hc, callCount, hne hc]

theorem callCount_flatMap_zero (k n : String) (f : Attr → List Event) (l : List Attr)
    (h : ∀ b ∈ l, callCount k n (f b) = 0) : callCount k n (l.flatMap f) = 0 := by
  induction l with
  | nil => rfl
  | cons x l ih =>
    rw [List.flatMap_cons, callCount_append, h x List.mem_cons_self,
      ih (fun b hb => h b (List.mem_cons_of_mem _ hb))]

/-- in a list of fields with distinct names, the invocations counted for field `a` are those of `a`'s own
    statements when no other field's statements mention that name -/
theorem callCount_flatMap_unique (k : String) (f : Attr → List Event) (l : List Attr)
    (hnd : (l.map (·.name)).Nodup) (a : Attr) (ha : a ∈ l)
    (hz : ∀ b ∈ l, b.name ≠ a.name → callCount k a.name (f b) = 0) :
    callCount k a.name (l.flatMap f) = callCount k a.name (f a) := by
  induction l with
  | nil => cases ha
  | cons x l ih =>
    have h2 : (∀ y ∈ l, ¬y.name = x.name) ∧ (l.map (·.name)).Nodup := by simpa using hnd
    rw [List.flatMap_cons, callCount_append]
    rcases List.mem_cons.1 ha with rfl | hal
    · rw [callCount_flatMap_zero k a.name f l (fun b hb => hz b (List.mem_cons_of_mem _ hb) (h2.1 b hb))]
      rfl
    · have hx : x.name ≠ a.name := fun e => h2.1 a hal e.symm
      rw [hz x List.mem_cons_self hx, ih h2.2 hal (fun b hb => hz b (List.mem_cons_of_mem _ hb))]
      simp

/-- the statements of one field, as `expectedCalls` lists them, for every field of the class -/
def fieldCalls (attrs : List Attr) (c : Call) (a : Attr) : List Event :=
  if participates a then
    (if fromFactory attrs c a then [callEv "factory" a.name] else []) ++ convCalls a
  else []

theorem expectedCalls_eq (attrs : List Attr) (c : Call) :
    expectedCalls attrs c = attrs.flatMap (fieldCalls attrs c) := by
  unfold expectedCalls
  generalize hg : (fun a => (if fromFactory attrs c a then [callEv "factory" a.name] else []) ++ convCalls a) = g
  have hf : fieldCalls attrs c = fun a => if participates a then g a else [] := by
    subst hg; rfl
  rw [hf]
  generalize attrs = l
  induction l with
  | nil => rfl
  | cons x l ih =>
    cases hp : participates x <;> simp [hp, ih]

theorem callCount_conv_convCalls (n : String) (b : Attr) :
    callCount "conv" n (convCalls b) = if b.name = n then convCount b else 0 := by
  unfold convCalls callCount
  by_cases hn : b.name = n
  · simp [hn, List.countP_map]
    rw [List.countP_eq_length.2 (by intro x _; simp)]
    simp
  · simp [hn, List.countP_map]

theorem callCount_factory_convCalls (n : String) (b : Attr) : callCount "factory" n (convCalls b) = 0 := by
  unfold convCalls callCount
  simp [List.countP_map]

theorem callCount_conv_field (attrs : List Attr) (c : Call) (n : String) (b : Attr) :
    callCount "conv" n (fieldCalls attrs c b) =
      if b.name = n ∧ participates b = true then convCount b else 0 := by
  unfold fieldCalls
  by_cases hp : participates b = true
  · rw [if_pos hp, callCount_append, callCount_conv_convCalls]
    have : callCount "conv" n (if fromFactory attrs c b then [callEv "factory" b.name] else []) = 0 := by
      split <;> simp [callCount, callEv]
    rw [this]; simp [hp]
  · rw [if_neg hp]; simp [hp, callCount]

theorem callCount_factory_field (attrs : List Attr) (c : Call) (n : String) (b : Attr) :
    callCount "factory" n (fieldCalls attrs c b) =
      if b.name = n ∧ participates b = true ∧ fromFactory attrs c b = true then 1 else 0 := by
  unfold fieldCalls
  by_cases hp : participates b = true
  · rw [if_pos hp, callCount_append, callCount_factory_convCalls]
    cases fromFactory attrs c b <;> by_cases hn : b.name = n <;> simp [callCount, callEv, hn, hp]
  · rw [if_neg hp]; simp [hp, callCount]

/-- **exactly once, and only then** (declarative side): among the invocations the statement allows, the
    converter of a field of the class occurs once if the field participates and has a converter, its factory
    once if the field participates and its value comes from the factory; otherwise not at all. -/
theorem callCount_expectedCalls (attrs : List Attr) (c : Call) (hnd : (attrs.map (·.name)).Nodup)
    (a : Attr) (ha : a ∈ attrs) :
    callCount "conv" a.name (expectedCalls attrs c) = (if participates a then convCount a else 0) ∧
    callCount "factory" a.name (expectedCalls attrs c) =
      (if participates a && fromFactory attrs c a then 1 else 0) := by
  rw [expectedCalls_eq]
  constructor
  · rw [callCount_flatMap_unique "conv" _ attrs hnd a ha
      (fun b _ hb => by rw [callCount_conv_field]; simp [hb]), callCount_conv_field]
    simp
  · rw [callCount_flatMap_unique "factory" _ attrs hnd a ha
      (fun b _ hb => by rw [callCount_factory_field]; simp [hb]), callCount_factory_field]
    simp

/-- every invocation the statement allows is a callback of a participating field of the class -/
theorem expectedCalls_fields (attrs : List Attr) (c : Call) (e : Event) (he : e ∈ expectedCalls attrs c) :
    ∃ a ∈ attrs, participates a = true ∧ e.id.field = a.name := by
  unfold expectedCalls at he
  obtain ⟨a, ha, hea⟩ := List.mem_flatMap.1 he
  have ha' := List.mem_filter.1 ha
  refine ⟨a, ha'.1, ha'.2, ?_⟩
  rcases List.mem_append.1 hea with h | h
  · split at h
    · rw [List.mem_singleton.1 h]; rfl
    · cases h
  · unfold convCalls at h
    obtain ⟨i, _, hi⟩ := List.mem_map.1 h
    rw [← hi]

end Attrs.C01
