/-
  C18 — helper lemmas: the built (spliced) object behaves like the expression as written, and is flat.
-/
import AttrsModel.Proofs.C18

namespace Attrs.C18


theorem evalAll_andItems (o : Oracle) (w : V) (x : Nat) : evalAll o (andItems w) x = eval o w x := by
  cases w <;> simp [andItems, evalAll_cons, eval]

theorem evalAny_orItems_append (o : Oracle) (w : V) (rest : List V) (x : Nat) :
    evalAny o (orItems w ++ rest) x = orElse (eval o w x) (evalAny o rest x) := by
  cases w <;> simp [orItems, evalAny_cons, evalAny_append, eval]

theorem norm_isNoneV (v : V) : (norm v).isNoneV = v.isNoneV := by
  cases v <;> simp [norm, V.isNoneV]

mutual
theorem norm_sound (o : Oracle) : ∀ (v : V) (x : Nat), eval o (norm v) x = eval o v x
  | .instOf _, _ => by simp [norm]
  | .matchesRe _ _ _, _ => by simp [norm]
  | .optional v, x => by simp [norm, eval, norm_sound o v x]
  | .optionalSeq _ vs, x => by simp [norm, eval, normL_all o vs x]
  | .in_ _, _ => by simp [norm]
  | .isCallable, _ => by simp [norm]
  | .deepIter m it, x => by
      have h1 := norm_sound o m
      have h2 := norm_sound o it x
      simp [norm, eval, h1, h2, norm_isNoneV]
  | .deepIterSeq _ ms it, x => by
      have h1 := normL_splice_all o ms
      have h2 := norm_sound o it x
      simp [norm, eval, h1, h2, norm_isNoneV]
  | .deepMap k v m, x => by
      have h1 := norm_sound o k
      have h2 := norm_sound o v
      have h3 := norm_sound o m x
      simp [norm, eval, h1, h2, h3, norm_isNoneV]
  | .num _ _, _ => by simp [norm]
  | .maxLen _, _ => by simp [norm]
  | .minLen _, _ => by simp [norm]
  | .not_ v _ _, x => by simp [norm, eval, norm_sound o v x]
  | .or_ vs, x => by simp [norm, eval, normL_splice_any o vs x]
  | .and_ vs, x => by simp [norm, eval, normL_splice_all o vs x]
  | .andRaw _ vs, x => by simp [norm, eval, normL_all o vs x]
  | .probe _ _, _ => by simp [norm]
  | .junk, _ => by simp [norm]
  | .noneV, _ => by simp [norm]
theorem normL_all (o : Oracle) : ∀ (vs : List V) (x : Nat), evalAll o (normL vs) x = evalAll o vs x
  | [], _ => by simp [normL]
  | v :: vs, x => by simp [normL, evalAll_cons, norm_sound o v x, normL_all o vs x]
theorem normL_splice_all (o : Oracle) : ∀ (vs : List V) (x : Nat),
    evalAll o ((normL vs).flatMap andItems) x = evalAll o vs x
  | [], _ => by simp [normL]
  | v :: vs, x => by
      simp [normL, List.flatMap_cons, evalAll_append, evalAll_andItems, evalAll_cons, norm_sound o v x,
        normL_splice_all o vs x]
theorem normL_splice_any (o : Oracle) : ∀ (vs : List V) (x : Nat),
    evalAny o ((normL vs).flatMap orItems) x = evalAny o vs x
  | [], _ => by simp [normL]
  | v :: vs, x => by
      simp [normL, List.flatMap_cons, evalAny_orItems_append, evalAny_cons, norm_sound o v x,
        normL_splice_any o vs x]
end

/-- and_ flattening, semantically: a conjunction nested in a conjunction may be spliced -/
theorem and_flatten_sem (o : Oracle) (pre mid post : List V) (x : Nat) :
    eval o (.and_ (pre ++ .and_ mid :: post)) x = eval o (.and_ (pre ++ mid ++ post)) x := by
  simp [eval, evalAll_append, evalAll_cons]

theorem or_flatten_sem (o : Oracle) (pre mid post : List V) (x : Nat) :
    eval o (.or_ (pre ++ .or_ mid :: post)) x = eval o (.or_ (pre ++ mid ++ post)) x := by
  simp [eval, evalAny_append, evalAny_cons]

theorem normL_append (as bs : List V) : normL (as ++ bs) = normL as ++ normL bs := by
  induction as with
  | nil => simp [normL]
  | cons a as ih => simp [normL, ih]

theorem and_flatten_struct (pre mid post : List V) :
    norm (.and_ (pre ++ .and_ mid :: post)) = norm (.and_ (pre ++ mid ++ post)) := by
  simp [norm, normL_append, normL, andItems, List.flatMap_append]

theorem or_flatten_struct (pre mid post : List V) :
    norm (.or_ (pre ++ .or_ mid :: post)) = norm (.or_ (pre ++ mid ++ post)) := by
  simp [norm, normL_append, normL, orItems, List.flatMap_append]



def isAndRaw : V → Bool
  | .andRaw _ _ => true
  | _ => false

def isOr : V → Bool
  | .or_ _ => true
  | _ => false

mutual
theorem andItems_norm_flat : ∀ (v : V), source v = true → ∀ w ∈ andItems (norm v), isAndRaw w = false
  | .and_ vs, h => by
      simp only [norm, andItems]
      exact splice_and_flat vs (by simpa [source] using h)
  | .andRaw _ _, h => by simp [source] at h
  | .instOf _, _ => by simp [norm, andItems, isAndRaw]
  | .matchesRe _ _ _, _ => by simp [norm, andItems, isAndRaw]
  | .optional _, _ => by simp [norm, andItems, isAndRaw]
  | .optionalSeq _ _, _ => by simp [norm, andItems, isAndRaw]
  | .in_ _, _ => by simp [norm, andItems, isAndRaw]
  | .isCallable, _ => by simp [norm, andItems, isAndRaw]
  | .deepIter _ _, _ => by simp [norm, andItems, isAndRaw]
  | .deepIterSeq _ _ _, _ => by simp [norm, andItems, isAndRaw]
  | .deepMap _ _ _, _ => by simp [norm, andItems, isAndRaw]
  | .num _ _, _ => by simp [norm, andItems, isAndRaw]
  | .maxLen _, _ => by simp [norm, andItems, isAndRaw]
  | .minLen _, _ => by simp [norm, andItems, isAndRaw]
  | .not_ _ _ _, _ => by simp [norm, andItems, isAndRaw]
  | .or_ _, _ => by simp [norm, andItems, isAndRaw]
  | .probe _ _, _ => by simp [norm, andItems, isAndRaw]
  | .junk, _ => by simp [norm, andItems, isAndRaw]
  | .noneV, _ => by simp [norm, andItems, isAndRaw]
theorem splice_and_flat : ∀ (vs : List V), sourceL vs = true →
    ∀ w ∈ (normL vs).flatMap andItems, isAndRaw w = false
  | [], _ => by simp [normL]
  | v :: vs, h => by
      have hs : source v = true ∧ sourceL vs = true := by simpa [sourceL] using h
      intro w hw
      simp only [normL, List.flatMap_cons, List.mem_append] at hw
      rcases hw with hw | hw
      · exact andItems_norm_flat v hs.1 w hw
      · exact splice_and_flat vs hs.2 w hw
end

mutual
theorem orItems_norm_flat : ∀ (v : V), ∀ w ∈ orItems (norm v), isOr w = false
  | .or_ vs => by
      simp only [norm, orItems]
      exact splice_or_flat vs
  | .and_ _ => by simp [norm, orItems, isOr]
  | .andRaw _ _ => by simp [norm, orItems, isOr]
  | .instOf _ => by simp [norm, orItems, isOr]
  | .matchesRe _ _ _ => by simp [norm, orItems, isOr]
  | .optional _ => by simp [norm, orItems, isOr]
  | .optionalSeq _ _ => by simp [norm, orItems, isOr]
  | .in_ _ => by simp [norm, orItems, isOr]
  | .isCallable => by simp [norm, orItems, isOr]
  | .deepIter _ _ => by simp [norm, orItems, isOr]
  | .deepIterSeq _ _ _ => by simp [norm, orItems, isOr]
  | .deepMap _ _ _ => by simp [norm, orItems, isOr]
  | .num _ _ => by simp [norm, orItems, isOr]
  | .maxLen _ => by simp [norm, orItems, isOr]
  | .minLen _ => by simp [norm, orItems, isOr]
  | .not_ _ _ _ => by simp [norm, orItems, isOr]
  | .probe _ _ => by simp [norm, orItems, isOr]
  | .junk => by simp [norm, orItems, isOr]
  | .noneV => by simp [norm, orItems, isOr]
theorem splice_or_flat : ∀ (vs : List V), ∀ w ∈ (normL vs).flatMap orItems, isOr w = false
  | [] => by simp [normL]
  | v :: vs => by
      intro w hw
      simp only [normL, List.flatMap_cons, List.mem_append] at hw
      rcases hw with hw | hw
      · exact orItems_norm_flat v w hw
      · exact splice_or_flat vs w hw
end


end Attrs.C18
