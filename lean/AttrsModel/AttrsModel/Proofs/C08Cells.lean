/-
  C08 — the closure-cell rewrite: which cells the loop reaches, what every cell holds afterwards.
-/
import AttrsModel.Proofs.C08Layout

namespace Attrs.C08

structure WFCells (c : Case) : Prop where
  idsNodup : (c.cells.map (·.1)).Nodup
  notNew : ∀ iv ∈ c.cells, iv.2 ≠ .new
  fnsOk : ∀ f ∈ allFns c, fnOk c f = true

theorem wfCells_elim (c : Case) (h : wfCells c = true) : WFCells c := by
  unfold wfCells at h
  simp only [Bool.and_eq_true, decide_eq_true_eq, List.all_eq_true, bne_iff_ne] at h
  exact ⟨h.1.1, h.1.2, h.2⟩

theorem wf_cells (c : Case) (h : wf c = true) : WFCells c := by
  unfold wf at h; simp only [Bool.and_eq_true] at h; exact wfCells_elim c h.1.2

theorem lookupN_mem {α : Type} (i : Nat) (l : List (Nat × α)) (v : α) (h : lookupN i l = some v) : (i, v) ∈ l := by
  induction l with
  | nil => simp [lookupN] at h
  | cons jw rest ih =>
    obtain ⟨j, w⟩ := jw
    by_cases hj : j = i
    · simp [lookupN, hj] at h; subst h; subst hj; exact List.mem_cons_self
    · simp [lookupN, hj] at h; exact List.mem_cons_of_mem _ (ih h)

theorem lookupN_of_mem {α : Type} (i : Nat) (l : List (Nat × α)) (v : α) (hn : (l.map (·.1)).Nodup)
    (h : (i, v) ∈ l) : lookupN i l = some v := by
  induction l with
  | nil => cases h
  | cons jw rest ih =>
    obtain ⟨j, w⟩ := jw
    have hn' : (∀ (x : α), ¬(j, x) ∈ rest) ∧ (rest.map (·.1)).Nodup := by simpa using hn
    rcases List.mem_cons.1 h with h | h
    · cases h; simp [lookupN]
    · have : j ≠ i := fun e => hn'.1 v (e ▸ h)
      simp [lookupN, this, ih hn'.2 h]

theorem find_rewrite (r : Nat → Bool) (cells : List (Nat × CellVal)) (i : Nat) :
    (cells.map (fun iv => (iv.1, rewrite (r iv.1) iv.2))).find? (·.1 == i) =
      (lookupN i cells).map (fun v => (i, rewrite (r i) v)) := by
  induction cells with
  | nil => rfl
  | cons iv rest ih =>
    obtain ⟨j, v⟩ := iv
    by_cases h : j = i
    · subst h; simp [lookupN]
    · simp [lookupN, h, ih]

/-- what a cell holds after the build -/
theorem finalCell_eq (c : Case) (i : Nat) :
    finalCell c i = match lookupN i c.cells with
      | some v => rewrite ((reachedCells c).contains (.user i)) v
      | none => .empty := by
  unfold finalCell finalCells
  rw [find_rewrite (fun j => (reachedCells c).contains (.user j)) c.cells i]
  cases lookupN i c.cells <;> rfl

/-- a reached cell never holds the original class afterwards -/
theorem reached_not_old (c : Case) (i : Nat) (h : CellId.user i ∈ reachedCells c) : finalCell c i ≠ .old := by
  rw [finalCell_eq]
  have hc : (reachedCells c).contains (.user i) = true := by simpa using h
  cases lookupN i c.cells with
  | none => simp
  | some v =>
    simp only [hc, rewrite]
    cases v <;> simp

/-- exactly the reached cells that held the original class are rewritten -/
theorem finalCell_new_iff (c : Case) (hw : WFCells c) (i : Nat) :
    finalCell c i = .new ↔ lookupN i c.cells = some .old ∧ CellId.user i ∈ reachedCells c := by
  rw [finalCell_eq]
  cases hl : lookupN i c.cells with
  | none => simp
  | some v =>
    have hnn : v ≠ .new := by
      have : (i, v) ∈ c.cells := lookupN_mem i c.cells v hl
      exact hw.notNew (i, v) this
    cases hr : (reachedCells c).contains (.user i) with
    | true =>
      have hm : CellId.user i ∈ reachedCells c := by simpa using hr
      cases v <;> simp_all [rewrite]
    | false =>
      have hm : CellId.user i ∉ reachedCells c := by
        intro hm; have : (reachedCells c).contains (.user i) = true := by simpa using hm
        rw [hr] at this; cases this
      cases v <;> simp_all [rewrite]

/-- cells holding anything but the original class are never touched -/
theorem finalCell_frame (c : Case) (i : Nat) (v : CellVal) (hl : lookupN i c.cells = some v) (hv : v ≠ .old) :
    finalCell c i = v := by
  rw [finalCell_eq, hl]
  cases v <;> simp_all [rewrite]

/-! ### what the loop reaches -/

theorem reached_of_dict (c : Case) (k : String) (e : Entry) (h : Dict.get (newDict c) k = some e)
    (id : CellId) (hid : id ∈ entryCells e) : id ∈ reachedCells c := by
  unfold reachedCells
  apply List.mem_flatMap.2
  refine ⟨e, List.mem_append_left _ ?_, hid⟩
  exact List.mem_map.2 ⟨(k, e), get_mem _ _ _ h, rfl⟩

theorem reached_of_additional (c : Case) (e : Entry) (h : e ∈ additional c)
    (id : CellId) (hid : id ∈ entryCells e) : id ∈ reachedCells c := by
  unfold reachedCells
  exact List.mem_flatMap.2 ⟨e, List.mem_append_right _ h, hid⟩

theorem cachedProps_nonempty_of_mem (c : Case) (n : String) (f : Fn) (h : (n, f) ∈ cachedProps c) :
    (cachedProps c).isEmpty = false := by
  cases hcp : cachedProps c with
  | nil => rw [hcp] at h; cases h
  | cons _ _ => rfl

theorem reached_of_cprop (c : Case) (n : String) (f : Fn) (h : (n, f) ∈ cachedProps c)
    (i : Nat) (hi : i ∈ f.cells) : CellId.user i ∈ reachedCells c := by
  apply reached_of_additional c (.orig (.fn f))
  · unfold additional
    rw [cachedProps_nonempty_of_mem c n f h]
    apply List.mem_append_left
    exact List.mem_map.2 ⟨(n, f), h, rfl⟩
  · exact List.mem_map.2 ⟨i, hi, rfl⟩

theorem reached_of_origGetattr (c : Case) (e : Entry) (hne : (cachedProps c).isEmpty = false)
    (h : origGetattr c = some e) (id : CellId) (hid : id ∈ entryCells e) : id ∈ reachedCells c := by
  apply reached_of_additional c e _ id hid
  unfold additional
  rw [hne, h]
  simp

/-- with cached properties the new dict's `__getattr__` is the generated one -/
theorem get_getattr_generated (c : Case) (hn : WFNames c) (hb : WFBody c) (hne : (cachedProps c).isEmpty = false) :
    Dict.get (newDict c) "__getattr__" = some (.genGetattr (origGetattr c).isNone) := by
  have hnc : "__getattr__" ∉ cpropNames c := by
    intro h
    obtain ⟨f, hf, _⟩ := mem_cpropNames c _ h
    have := hb.specialNotCprop ("__getattr__", .cprop f) hf rfl
    cases this
  have h5 : "__getattr__" ∉ slotNames0 c := by
    intro h
    rcases (mem_slotNames0 c _ h).1 with h | h | h
    · exact special_not_own c hn _ (by decide) h
    · exact absurd h.1 (by decide)
    · exact hnc h
  rw [get_newDict c _ h5 (by decide), get_cd3 c _ h5 (by decide) (by decide)]
  unfold cd2
  rw [hne]
  simp only [Bool.false_eq_true, if_false]
  exact get_set_same _ _ _

/-- without cached properties `__getattr__` is whatever the body had -/
theorem get_getattr_plain (c : Case) (hn : WFNames c) (he : (cachedProps c).isEmpty = true) (b : Bool) :
    Dict.get (newDict c) "__getattr__" ≠ some (.genGetattr b) := by
  have hnc : "__getattr__" ∉ cpropNames c := by
    unfold cpropNames
    cases hcp : cachedProps c with
    | nil => simp
    | cons _ _ => rw [hcp] at he; cases he
  have h5 : "__getattr__" ∉ slotNames0 c := by
    intro h
    rcases (mem_slotNames0 c _ h).1 with h | h | h
    · exact special_not_own c hn _ (by decide) h
    · exact absurd h.1 (by decide)
    · exact hnc h
  rw [get_newDict_untouched c _ (by decide) (by intro e; exact absurd e (by decide)) hnc (fun _ => he) h5
    (by decide) (by decide) (by decide)]
  intro h
  have hm := get_mem _ _ _ h
  unfold cd0 clsDict at hm
  obtain ⟨hm, _⟩ := List.mem_filter.1 hm
  rcases List.mem_append.1 hm with hm | hm
  · obtain ⟨kv, _, e⟩ := List.mem_map.1 hm
    have := congrArg Prod.snd e
    simp at this
  · cases hs : c.setattrMode <;> rw [hs] at hm <;> simp at hm

/-- the generated `__getattr__`'s own cell is always rewritten: reading an unknown attribute raises
    AttributeError, never TypeError -/
theorem getUnknown_ok (c : Case) (hn : WFNames c) (hb : WFBody c) : (model c).getUnknown = .attributeError := by
  unfold model
  dsimp only
  cases he : (cachedProps c).isEmpty with
  | true =>
    have := get_getattr_plain c hn he true
    have hf : (Dict.get (newDict c) "__getattr__" == some (.genGetattr true)) = false := by
      simpa using this
    rw [hf]; rfl
  | false =>
    have hg := get_getattr_generated c hn hb he
    cases ho : (origGetattr c).isNone with
    | false =>
      rw [ho] at hg
      have hf : (Dict.get (newDict c) "__getattr__" == some (.genGetattr true)) = false := by
        rw [hg]; decide
      rw [hf]; rfl
    | true =>
      rw [ho] at hg
      have hr : CellId.gen ∈ reachedCells c := reached_of_dict c _ _ hg .gen (by simp [entryCells])
      have : genCellFinal c = .new := by
        unfold genCellFinal
        have hc : (reachedCells c).contains .gen = true := by simpa using hr
        rw [hc]; rfl
      rw [this]
      simp

end Attrs.C08
