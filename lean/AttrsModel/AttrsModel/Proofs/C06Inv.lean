/-
  C06 — the invariant that ties the model's class state to the declarative reading of the chain, and the
  definition-time tables.
-/
import AttrsModel.Proofs.C06Define

namespace Attrs.C06
open Attrs.Init (Val Conv Event EventId)

/-- what the model state after defining `pre` has to do with `pre` -/
structure Inv (pre : List Cls) (s : CState) : Prop where
  frozen : (s.impl == .frozen) = frozenOf pre
  attrs : s.attrs = fieldsOf pre
  dict : s.hasDict = hasDictOf pre
  settable : ∀ f ∈ s.attrs, s.hasDict = true ∨ s.slotNames.contains f.name = true
  nodup : (s.attrs.map (·.name)).Nodup
  /-- every slot belongs to a field -/
  slots : ∀ n, s.slotNames.contains n = true → s.attrs.any (fun f => f.name == n) = true

theorem inv_root : Inv [] CState.root := by
  refine ⟨by decide, rfl, rfl, ?_, ?_, ?_⟩
  · intro f hf; simp [CState.root] at hf
  · simp [CState.root]
  · intro n hn; simp [CState.root] at hn

theorem any_name_resolveAttrs (base own : List Field) (n : String)
    (h : base.any (fun f => f.name == n) = true ∨ own.any (fun f => f.name == n) = true) :
    (resolveAttrs base own).any (fun f => f.name == n) = true := by
  unfold resolveAttrs
  rw [List.any_append, Bool.or_eq_true]
  cases ho : own.any (fun f => f.name == n) with
  | true => right; rfl
  | false =>
    left
    rcases h with h | h
    · rw [List.any_eq_true] at h ⊢
      obtain ⟨f, hf, hfn⟩ := h
      refine ⟨f, ?_, hfn⟩
      rw [List.mem_filter]
      refine ⟨hf, ?_⟩
      have hfn' : f.name = n := by simpa using hfn
      rw [hfn']
      simp [ho]
    · rw [ho] at h; cases h

/-! ### projections of `finish` -/

theorem finish_attrs (b : CState) (c : Cls) (e0 : Eff) : (finish b c e0).attrs = resolveAttrs b.attrs c.fields := by
  unfold finish; dsimp only; split <;> (try split) <;> (try split) <;> (try split) <;> rfl

theorem finish_hasDict (b : CState) (c : Cls) (e0 : Eff) : (finish b c e0).hasDict = (b.hasDict || c.givesDict) := by
  unfold finish; dsimp only; split <;> (try split) <;> (try split) <;> (try split) <;> rfl

theorem finish_slotNames (b : CState) (c : Cls) (e0 : Eff) :
    (finish b c e0).slotNames = if c.slots then b.slotNames ++ c.fields.map (·.name) else b.slotNames := by
  unfold finish; dsimp only; split <;> (try split) <;> (try split) <;> (try split) <;> rfl

theorem defineAttrs_ok (b : CState) (c : Cls) (s : CState) (h : defineAttrs b c = .ok s) :
    ∃ e0, eff0Of b c = .ok e0 ∧ rejects b c e0 = false ∧ s = finish b c e0 := by
  unfold defineAttrs at h
  split at h
  · cases h
  · rename_i e0 he
    split at h
    · cases h
    · rename_i hr
      cases h
      exact ⟨e0, he, by simpa using hr, rfl⟩

/-- an accepted frozen class has no hook table: inherited frozenness can never be undone by hooks -/
theorem sa_empty_of_frozen (b : CState) (c : Cls) (e0 : Eff) (hr : rejects b c e0 = false)
    (hf : isFrozenOf b c = true) : (saOf b c e0).isEmpty = true := by
  cases hs : (saOf b c e0).isEmpty with
  | true => rfl
  | false =>
    exfalso
    unfold saOf at hs
    split at hs
    · simp at hs
    · rcases sa_nonempty_frozen_rejected _ _ hs with h | h
      · simp [rejects, hf, h] at hr
      · simp [rejects, hf, h] at hr

theorem finish_frozen (b : CState) (c : Cls) (e0 : Eff) (hr : rejects b c e0 = false) :
    ((finish b c e0).impl == .frozen) = isFrozenOf b c := by
  cases hf : isFrozenOf b c with
  | true =>
    have hs := sa_empty_of_frozen b c e0 hr hf
    unfold finish
    simp [hs, hf]
  | false =>
    have hinh : ((if c.ownSetattr then Impl.user else b.impl) == Impl.frozen) = false := by
      unfold isFrozenOf at hf
      cases ho : c.ownSetattr with
      | true => simp
      | false =>
        simp only [ho, Bool.not_false, Bool.true_and, Bool.or_eq_false_iff] at hf
        simpa using hf.2
    unfold finish
    dsimp only
    simp only [hf]
    split
    · simp
    · simp only [Bool.false_eq_true, if_false]
      split
      · split <;> simp_all
      · split
        · split <;> simp_all
        · exact hinh

/-! ### the invariant is preserved -/

theorem defineCls_inv (pre : List Cls) (b : CState) (c : Cls) (s : CState) (hi : Inv pre b)
    (hw : wfCls c = true) (h : defineCls b c = .ok s) : Inv (pre ++ [c]) s := by
  unfold defineCls at h
  cases hk : c.kind with
  | plain =>
    simp only [hk] at h
    cases h
    unfold wfCls at hw
    simp only [hk, Bool.and_eq_true] at hw
    have hown : c.ownSetattr = false := by simpa using hw.2.1.2
    refine ⟨?_, ?_, ?_, ?_, ?_, ?_⟩
    · rw [frozenOf_snoc]; simp [hk, definePlain, hown, hi.frozen]
    · rw [fieldsOf_snoc]; simp [hk, definePlain, hi.attrs]
    · rw [hasDictOf_snoc]; simp [definePlain, hi.dict]
    · intro f hf
      have := hi.settable f (by simpa [definePlain] using hf)
      rcases this with h1 | h1
      · left; simp [definePlain, h1]
      · right; simpa [definePlain] using h1
    · simpa [definePlain] using hi.nodup
    · intro n hn
      simpa [definePlain] using hi.slots n (by simpa [definePlain] using hn)
  | attrs =>
    simp only [hk] at h
    obtain ⟨e0, he, hr, rfl⟩ := defineAttrs_ok b c s h
    have hnd : (c.fields.map (·.name)).Nodup := by
      unfold wfCls at hw
      simp only [Bool.and_eq_true] at hw
      simpa [distinctNames] using hw.1
    refine ⟨?_, ?_, ?_, ?_, ?_, ?_⟩
    · rw [finish_frozen b c e0 hr, frozenOf_snoc]
      simp only [hk, isFrozenOf, hi.frozen]
      cases c.frozenArg <;> cases c.ownSetattr <;> cases frozenOf pre <;> rfl
    · rw [finish_attrs, fieldsOf_snoc]; simp [hk, hi.attrs]
    · rw [finish_hasDict, hasDictOf_snoc, hi.dict]
    · intro f hf
      rw [finish_attrs, mem_resolveAttrs] at hf
      rw [finish_hasDict, finish_slotNames]
      rcases hf with ⟨hfb, _⟩ | hfo
      · rcases hi.settable f hfb with h1 | h1
        · left; simp [h1]
        · right
          split
          · simp only [List.contains_eq_mem, List.mem_append, decide_eq_true_eq] at h1 ⊢
            left; exact h1
          · exact h1
      · cases hs : c.slots with
        | false => left; simp [Cls.givesDict, hs]
        | true =>
          right
          simp only [if_true, List.contains_eq_mem, List.mem_append, decide_eq_true_eq, List.mem_map]
          right; exact ⟨f, hfo, rfl⟩
    · rw [finish_attrs]
      exact resolveAttrs_nodup _ _ hi.nodup hnd
    · intro n hn
      rw [finish_attrs]
      rw [finish_slotNames] at hn
      apply any_name_resolveAttrs
      cases hs : c.slots with
      | false =>
        simp only [hs, Bool.false_eq_true, if_false] at hn
        left; exact hi.slots n hn
      | true =>
        simp only [hs, if_true, List.contains_eq_mem, List.mem_append, decide_eq_true_eq, Bool.decide_or,
          Bool.or_eq_true] at hn
        rcases hn with hn | hn
        · left; exact hi.slots n (by simpa using hn)
        · right
          rw [List.mem_map] at hn
          obtain ⟨f, hf, hfn⟩ := hn
          rw [List.any_eq_true]
          exact ⟨f, hf, by simp [hfn]⟩

/-! ### the two tables -/

theorem accept_ok (pre : List Cls) (b : CState) (c : Cls) (hi : Inv pre b) (h : mustAccept pre c = true) :
    ∃ s, defineCls b c = .ok s := by
  unfold mustAccept at h
  unfold defineCls
  cases hk : c.kind with
  | plain => exact ⟨_, rfl⟩
  | attrs =>
    simp only [hk, Bool.or_eq_true, Bool.and_eq_true, Bool.not_eq_true', beq_iff_eq] at h
    rcases h with h | ⟨⟨h1, h2⟩, h3⟩
    · cases h
    · have hb : (b.impl == Impl.frozen) = false := by rw [hi.frozen]; exact h1
      obtain ⟨e0, he, _⟩ := eff0_chain b c hb h2
      refine ⟨finish b c e0, ?_⟩
      unfold defineAttrs
      simp only [he]
      have : rejects b c e0 = false := by
        simp [rejects, hasCustomOf, isFrozenOf, h2, h3, hb]
      simp [this]

theorem eff0_hasCls_of_given (b : CState) (c : Cls) (e0 : Eff) (he : eff0Of b c = .ok e0)
    (hg : (match c.clsOn with
      | .bare _ => true
      | .list h => !h.isEmpty
      | _ => false) = true) : e0.hasCls = true := by
  unfold eff0Of defineWrap at he
  cases hc : c.clsOn with
  | unset => simp [hc] at hg
  | noop => simp [hc] at hg
  | bare s =>
    simp only [hc] at he
    cases hd : c.isDefine <;> cases hbf : (b.impl == Impl.frozen) <;> simp [hd, hbf, ClsOn.toEff] at he <;>
      (subst he; rfl)
  | list l =>
    simp only [hc] at he
    cases hd : c.isDefine <;> cases hbf : (b.impl == Impl.frozen) <;> simp [hd, hbf, ClsOn.toEff] at he <;>
      (subst he; rfl)

theorem reject_not_ok (pre : List Cls) (b : CState) (c : Cls) (s : CState) (hi : Inv pre b)
    (h : mustReject pre c = true) (hok : defineCls b c = .ok s) : False := by
  unfold mustReject at h
  simp only [Bool.and_eq_true, beq_iff_eq] at h
  obtain ⟨hk, h⟩ := h
  unfold defineCls at hok
  simp only [hk] at hok
  obtain ⟨e0, he, hr, _⟩ := defineAttrs_ok b c s hok
  have hfs : fieldsOf (pre ++ [c]) = resolveAttrs b.attrs c.fields := by
    rw [fieldsOf_snoc]; simp [hk, hi.attrs]
  have hfr : (c.frozenArg || (frozenOf pre && !c.ownSetattr)) = isFrozenOf b c := by
    simp only [isFrozenOf, hi.frozen]
    cases c.frozenArg <;> cases c.ownSetattr <;> cases frozenOf pre <;> rfl
  rw [hfs, hfr] at h
  simp only [Bool.or_eq_true, Bool.and_eq_true] at h
  simp only [rejects, Bool.or_eq_false_iff, Bool.and_eq_false_iff] at hr
  obtain ⟨⟨⟨hr1, hr2⟩, hr3⟩, hr4⟩ := hr
  rcases h with ⟨hfz, hg⟩ | ⟨⟨hown, hauto⟩, hh⟩
  · -- hooks + frozen
    rcases hg with hg | hg
    · have hcls := eff0_hasCls_of_given b c e0 he hg
      have : effOf b c e0 = e0 := by simp [effOf, hfz]
      rw [this] at hr3
      rcases hr3 with h3 | h3
      · simp [hfz] at h3
      · simp [hcls] at h3
    · rcases hr4 with h4 | h4
      · simp [hfz] at h4
      · rw [List.any_eq_false] at h4
        rw [List.any_eq_true] at hg
        obtain ⟨f, hf, hfg⟩ := hg
        have := h4 f hf
        cases hon : f.onSet <;> simp_all
  · -- own `__setattr__`, auto-detected
    have hcust : hasCustomOf c = true := by simp [hasCustomOf, hown, hauto]
    rcases hh with hfa | ⟨hnf, hany⟩
    · have : isFrozenOf b c = true := by simp [isFrozenOf, hfa]
      rcases hr1 with h1 | h1
      · simp [hcust] at h1
      · simp [this] at h1
    · cases hfa : c.frozenArg with
      | true =>
        have : isFrozenOf b c = true := by simp [isFrozenOf, hfa]
        rcases hr1 with h1 | h1
        · simp [hcust] at h1
        · simp [this] at h1
      | false =>
        have hb : (b.impl == Impl.frozen) = false := by rw [hi.frozen]; simpa using hnf
        have hnfz : isFrozenOf b c = false := by simp [isFrozenOf, hfa, hb]
        obtain ⟨e0', he', hch⟩ := eff0_chain b c hb hfa
        rw [he] at he'
        cases he'
        rw [List.any_eq_true] at hany
        obtain ⟨f, hf, hfe⟩ := hany
        -- the table is not empty
        have hne : (saOf b c e0).isEmpty = false := by
          cases hse : (saOf b c e0).isEmpty with
          | false => rfl
          | true =>
            exfalso
            unfold saOf at hse
            simp only [hfa, Bool.false_eq_true, if_false, effOf, hnfz] at hse
            have hall := (saAttrs_isEmpty _ _).1 hse f hf
            rcases entryOf_vs_fieldChain (resolveAttrs b.attrs c.fields) e0 c hch f hf with h1 | ⟨_, hh, h2, h3⟩
            · rw [hall] at h1
              cases hfc : fieldChain c f with
              | none => simp [hfc] at hfe
              | some hh => simp [hfc] at h1
            · simp only [h2] at hfe
              have := not_inert_of_effective f hh hfe
              simp [this] at h3
        rcases hr2 with h2 | h2
        · simp [hne] at h2
        · simp [hcust] at h2

theorem reject_err (pre : List Cls) (b : CState) (c : Cls) (hi : Inv pre b) (h : mustReject pre c = true) :
    defineCls b c = .error .valueError := by
  cases hd : defineCls b c with
  | ok s => exact absurd hd (fun hd => reject_not_ok pre b c s hi h hd)
  | error e => rw [defineCls_err b c e hd]

/-! ### the observed definition outcome of the model against the tables -/

def defErrOf : Except (Nat × Exc) CState → Option (Nat × Exc)
  | .error e => some e
  | .ok _ => none

theorem defineFrom_err_idx (b : CState) (i : Nat) (cs : List Cls) (j : Nat) (e : Exc)
    (h : defineFrom b i cs = .error (j, e)) : i ≤ j := by
  induction cs generalizing b i with
  | nil => simp [defineFrom] at h
  | cons c rest ih =>
    simp only [defineFrom] at h
    split at h
    · cases h; exact Nat.le_refl _
    · have := ih _ _ h; omega

theorem rejectOk_model (cs : List Cls) (pre : List Cls) (b : CState) (i : Nat) (hi : Inv pre b)
    (hw : cs.all wfCls = true) : rejectOk (defErrOf (defineFrom b i cs)) i pre cs = true := by
  induction cs generalizing pre b i with
  | nil => simp [defineFrom, defErrOf, rejectOk]
  | cons c rest ih =>
    simp only [List.all_cons, Bool.and_eq_true] at hw
    simp only [defineFrom]
    cases hd : defineCls b c with
    | error e =>
      simp only [defErrOf, rejectOk, if_true, Bool.and_eq_true, Bool.not_eq_true', Bool.or_eq_true, beq_iff_eq]
      refine ⟨?_, Or.inr (defineCls_err b c e hd)⟩
      cases hm : mustAccept pre c with
      | false => rfl
      | true =>
        obtain ⟨s, hs⟩ := accept_ok pre b c hi hm
        rw [hs] at hd; cases hd
    | ok s =>
      simp only
      have hnr : mustReject pre c = false := by
        cases hm : mustReject pre c with
        | false => rfl
        | true => exact absurd hd (fun hd => reject_not_ok pre b c s hi hm hd)
      have hinv := defineCls_inv pre b c s hi hw.1 hd
      have hrec := ih (pre ++ [c]) s (i + 1) hinv hw.2
      cases hr : defineFrom s (i + 1) rest with
      | ok rt =>
        rw [hr] at hrec
        simp only [defErrOf] at hrec ⊢
        simp [rejectOk, hnr, hrec]
      | error je =>
        obtain ⟨j, e⟩ := je
        have hij := defineFrom_err_idx s (i + 1) rest j e hr
        have hne : ¬ j = i := by omega
        rw [hr] at hrec
        simp only [defErrOf] at hrec ⊢
        simp [rejectOk, hne, hnr, hrec]

end Attrs.C06
