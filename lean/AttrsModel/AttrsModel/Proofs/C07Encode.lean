/-
  C07 — the five front-end encodings of one abstract declaration list declare the same fields.
-/
import AttrsModel.Proofs.C07Views

namespace Attrs.C07

def declAttrs (ds : List Decl) : List Attr := ds.map (fun d => attrOf d.name d.opts none)

def ibItem (ann : Option String) (p : Decl × Nat) : Item :=
  { name := p.1.name, ann := ann, annTag := none, val := .ib p.2, opts := p.1.opts }

theorem indexed_sorted {α : Type} (l : List α) (i : Nat) :
    (indexed l i).Pairwise (fun a b => a.2 < b.2) ∧ ∀ a ∈ indexed l i, i ≤ a.2 := by
  induction l generalizing i with
  | nil => simp [indexed]
  | cons x xs ih =>
    obtain ⟨h1, h2⟩ := ih (i + 1)
    simp only [indexed, List.pairwise_cons, List.mem_cons]
    refine ⟨⟨fun a ha => by have := h2 a ha; omega, h1⟩, ?_⟩
    rintro a (rfl | ha)
    · exact Nat.le_refl _
    · have := h2 a ha; omega

theorem indexed_map_fst {α : Type} (l : List α) (i : Nat) : (indexed l i).map (·.1) = l := by
  induction l generalizing i with
  | nil => rfl
  | cons x xs ih => simp [indexed, ih]

theorem base_sorted (ann : Option String) (ds : List Decl) :
    ((indexed ds 1).map (ibItem ann)).Pairwise (fun a b => ctr a < ctr b) := by
  rw [List.pairwise_map]
  exact (indexed_sorted ds 1).1

theorem base_filter (ann : Option String) (ds : List Decl) (l : List Item)
    (hl : ∀ i ∈ l, i ∈ (indexed ds 1).map (ibItem ann)) : l.filter (fun i => i.val.isIb) = l := by
  rw [List.filter_eq_self]
  intro i hi
  obtain ⟨p, _, rfl⟩ := List.mem_map.1 (hl i hi)
  rfl

theorem rotate_perm {α : Type} (l : List α) (r : Nat) : (rotate l r).Perm l := by
  unfold rotate
  exact List.perm_append_comm.trans (by rw [List.take_append_drop])

theorem base_map_attr (ann : Option String) (ds : List Decl) (f : Item → Attr)
    (hf : ∀ p : Decl × Nat, f (ibItem ann p) = attrOf p.1.name p.1.opts none) :
    ((indexed ds 1).map (ibItem ann)).map f = declAttrs ds := by
  rw [List.map_map]
  have : (f ∘ ibItem ann) = (fun p : Decl × Nat => attrOf p.1.name p.1.opts none) := by
    funext p; exact hf p
  rw [this, declAttrs, ← indexed_map_fst ds 1, List.map_map, indexed_map_fst]
  rfl

theorem annotated_int (p : Decl × Nat) : annotated (ibItem (some "int") p) = true := by
  have : isClassVar "int" = false := by decide
  simp [annotated, ibItem, this]

theorem annotated_none (p : Decl × Nat) : annotated (ibItem none p) = false := rfl

theorem encodeItems_ib (r : Nat) (ds : List Decl) :
    encodeItems (.ib r) ds = rotate ((indexed ds 1).map (ibItem none)) r := rfl
theorem encodeItems_annot (ds : List Decl) :
    encodeItems .annot ds = (indexed ds 1).map (ibItem (some "int")) := rfl
theorem encodeItems_defineAnnot (ds : List Decl) :
    encodeItems .defineAnnot ds = (indexed ds 1).map (ibItem (some "int")) := rfl
theorem encodeItems_defineField (ds : List Decl) :
    encodeItems .defineField ds = (indexed ds 1).map (ibItem none) := rfl

theorem counterBranch_base (ds : List Decl) (l : List Item)
    (hp : l.Perm ((indexed ds 1).map (ibItem none))) :
    (sortByCounter (l.filter (fun i => i.val.isIb))).map
      (fun i => attrOf i.name i.opts (if i.ann.isSome then i.annTag else none)) = declAttrs ds := by
  rw [base_filter none ds l (fun i hi => hp.mem_iff.1 hi), sortByCounter_eq_of_perm hp (base_sorted none ds)]
  exact base_map_attr none ds _ (fun p => rfl)

theorem autoBranch_base (ds : List Decl) :
    ((indexed ds 1).map (ibItem (some "int"))).filterMap
      (fun i => if annotated i then some (autoAttr i) else none) = declAttrs ds := by
  rw [filterMap_ite]
  have : ((indexed ds 1).map (ibItem (some "int"))).filter annotated = (indexed ds 1).map (ibItem (some "int")) := by
    rw [List.filter_eq_self]
    intro i hi
    obtain ⟨p, _, rfl⟩ := List.mem_map.1 hi
    exact annotated_int p
  rw [this]
  exact base_map_attr _ ds _ (fun p => rfl)

theorem hasUnannotated_int (c : Cls) (ds : List Decl)
    (h : c.items = (indexed ds 1).map (ibItem (some "int"))) : hasUnannotated c = false := by
  simp only [hasUnannotated, h]
  rw [Bool.eq_false_iff]
  intro hany
  obtain ⟨i, hi, hp⟩ := List.any_eq_true.1 hany
  obtain ⟨p, _, rfl⟩ := List.mem_map.1 hi
  simp [annotated_int p] at hp

theorem hasUnannotated_none (c : Cls) (ds : List Decl)
    (h : c.items = (indexed ds 1).map (ibItem none)) : hasUnannotated c = !ds.isEmpty := by
  simp only [hasUnannotated, h]
  cases ds with
  | nil => rfl
  | cons d ds => simp [indexed, ibItem, annotated, Val.isIb]

/-- **the declared fields do not depend on the front-end** -/
theorem specOwn_encode (c : Cls) (fe : Frontend) (ds : List Decl) :
    specOwn (encodeCls c fe ds) = declAttrs ds := by
  cases fe with
  | ib r =>
    simp only [specOwn, encodeCls, feThese, specAuto, feKind, feAuto, encodeItems_ib, Bool.false_eq_true, if_false]
    exact counterBranch_base ds _ (rotate_perm _ r)
  | annot =>
    simp only [specOwn, encodeCls, feThese, specAuto, feKind, feAuto, encodeItems_annot, if_true]
    exact autoBranch_base ds
  | these =>
    simp only [specOwn, encodeCls, feThese, declAttrs, List.map_map]
    rfl
  | defineAnnot =>
    have hu := hasUnannotated_int (encodeCls c .defineAnnot ds) ds rfl
    simp only [specOwn, specAuto, hu]
    simp only [encodeCls, feThese, feKind, feAuto, encodeItems_defineAnnot, Bool.not_false, if_true]
    exact autoBranch_base ds
  | defineField =>
    have hu := hasUnannotated_none (encodeCls c .defineField ds) ds rfl
    simp only [specOwn, specAuto, hu]
    cases ds with
    | nil => rfl
    | cons d ds =>
      simp only [encodeCls, feThese, feKind, feAuto, encodeItems_defineField, List.isEmpty_cons, Bool.not_false,
        Bool.not_true, Bool.false_eq_true, if_false]
      exact counterBranch_base (d :: ds) _ (List.Perm.refl _)

theorem mustRaise_encode (c : Cls) (fe : Frontend) (ds : List Decl) :
    mustRaiseUnannotated (encodeCls c fe ds) = false := by
  cases fe with
  | annot =>
    have hu := hasUnannotated_int (encodeCls c .annot ds) ds rfl
    simp [mustRaiseUnannotated, hu]
  | ib r => simp [mustRaiseUnannotated, encodeCls, feAuto]
  | these => simp [mustRaiseUnannotated, encodeCls, feThese]
  | defineAnnot => simp [mustRaiseUnannotated, encodeCls, feAuto]
  | defineField => simp [mustRaiseUnannotated, encodeCls, feAuto]

theorem kind_encode (c : Cls) (fe : Frontend) (ds : List Decl) : (encodeCls c fe ds).kind ≠ .plain := by
  cases fe <;> simp [encodeCls, feKind]

/-- `finish` looks at the class only through its MRO, class-level kw_only and transformer -/
theorem finish_congr (M : Mros) (tbl : Table) (k : Nat) (c c' : Cls) (b : Bool) (own : List Attr)
    (h1 : c.mro = c'.mro) (h2 : c.kwOnly = c'.kwOnly) (h3 : c.tr = c'.tr) :
    finish M tbl k c b own = finish M tbl k c' b own := by
  unfold finish preList
  rw [h1, h2, h3]

end Attrs.C07
