/-
  C10 — what is observed on the round-tripped instance: equality with the original, the hash pattern against
  the original and a freshly built equal instance.
-/
import AttrsModel.Proofs.C10Trip

namespace Attrs.C10

theorem doEq_go_T (s : Summary) (a b : Inst) (names : List String)
    (h : ∀ n ∈ names, ∃ v, read s.layout a n = some v ∧ read s.layout b n = some v) :
    doEq.go s a b names = .T := by
  induction names with
  | nil => rfl
  | cons n r ih =>
    obtain ⟨v, ha, hb⟩ := h n List.mem_cons_self
    simp only [doEq.go, ha, hb, if_true]
    exact ih (fun m hm => h m (List.mem_cons_of_mem _ hm))

/-- the generated `__eq__` says equal when every compared field reads the same on both sides -/
theorem doEq_T {s : Summary} (I : Inv s) {a b : Inst} {t : String → String}
    (hb : ∀ n ∈ s.names, read s.layout b n = some (.tok (t n)))
    (hab : ∀ n ∈ s.names, read s.layout a n = read s.layout b n) (hne : s.eq.isSome = true) :
    doEq s a b = .T := by
  unfold doEq
  cases he : s.eq with
  | none => rw [he] at hne; simp at hne
  | some names =>
    simp only
    apply doEq_go_T
    intro n hn
    have := I.eqSub _ he n hn
    exact ⟨_, by rw [hab n this]; exact hb n this, hb n this⟩

theorem transfer_none (op : Op) : transfer op .none = .none := by
  unfold transfer; split <;> rfl

theorem isIdentity_gen {s : Summary} {ns : List String} {ch fv ow : Bool} (h : s.hash = .gen ns ch fv ow) :
    isIdentity s = false := by
  unfold isIdentity; rw [h]; rfl

/-- **the hash pattern**: with a generated `__hash__` (outside K1, K2, K5 and an opted-out class inheriting a non-caching pair) the copy, the original and
    a freshly built equal instance are all hashable; the copy hashes like the fresh instance, and like the
    original unless the original was changed after it was hashed -/
theorem hash_facts {s : Summary} (I : Inv s) {c : Case} {i0 x f y : Inst} (W : Wf s c i0)
    (hk1 : k1 s = false) (hk2 : k2 s = false) (hk5 : k5 s c = false)
    (hk10c : inhLosesCache s = false) (hgen : hashGenerated s = true)
    (hx : ∀ n ∈ s.names, read s.layout x n = some (.tok (cur c n)))
    (hf : ∀ n ∈ s.names, read s.layout f n = some (.tok (cur c n)))
    (hcx : read s.layout x CACHE =
      read s.layout (if c.hashedBefore then (doHash s i0).inst else i0) CACHE)
    (hcf : read s.layout f CACHE = read s.layout i0 CACHE)
    (T : TripOK s c.op x y) :
    (doHash s y).res = .ok ∧ (doHash s f).res = .ok ∧ (doHash s x).res = .ok ∧
    (doHash s y).value = (doHash s f).value ∧
    ((c.hashedBefore && c.mutate.isSome) = false → (doHash s y).value = (doHash s x).value) := by
  unfold hashGenerated at hgen
  cases hh : s.hash with
  | identity => rw [hh] at hgen; simp at hgen
  | unhashable => rw [hh] at hgen; simp at hgen
  | gen names cached fv own =>
    have hsub := I.hashSub _ _ _ _ hh
    -- the tuple hashed is the same on all three instances
    obtain ⟨t, ht⟩ := hashTuple_some s.layout x names (fun n hn => by rw [hx n (hsub n hn)]; rfl)
    have hty : hashTuple s.layout y names = some t := by
      rw [hashTuple_congr s.layout y x names (fun n hn => T.fields n (hsub n hn))]; exact ht
    have htf : hashTuple s.layout f names = some t := by
      rw [hashTuple_congr s.layout f x names (fun n hn => by rw [hf n (hsub n hn), hx n (hsub n hn)])]; exact ht
    cases cached with
    | false =>
      obtain ⟨a1, a2⟩ := doHash_uncached hh hty
      obtain ⟨b1, b2⟩ := doHash_uncached hh htf
      obtain ⟨c1, c2⟩ := doHash_uncached hh ht
      exact ⟨a1, b1, c1, by rw [a2, b2], fun _ => by rw [a2, c2]⟩
    | true =>
      -- outside K1 the caching `__hash__` is the class's own
      have hown : own = true := by
        unfold k1 at hk1; rw [hh] at hk1
        cases own with
        | true => rfl
        | false => simp at hk1
      subst hown
      obtain ⟨hn, hlc, hfv⟩ := I.hashOwn _ _ _ hh
      subst hfv
      have hcached : s.cached = true := by unfold Summary.cached; rw [hh]
      have hi0c : read s.layout i0 CACHE = some .none :=
        construct_cache I W.ok W.lastAttrs hlc.symm hk2 W.cons
      -- fresh instance: cache miss
      obtain ⟨b1, b2, _⟩ := doHash_miss hh (by rw [hcf]; exact hi0c) htf
      -- the tuple at construction time
      obtain ⟨t0, ht0⟩ := hashTuple_some s.layout i0 names (fun n hn => W.allSet n (hsub n hn))
      have ht0t : c.mutate = none → t0 = t := by
        intro hm
        have hclean := construct_clean W.cons
        have : hashTuple s.layout i0 names = hashTuple s.layout x names := by
          apply hashTuple_congr
          intro n hn
          have hns := hsub n hn
          obtain ⟨v, hv⟩ := Option.isSome_iff_exists.1 (W.allSet n hns)
          rw [hv, clean_read hclean (mem_names_ne_cache I W.ok hns) hv, hx n hns]
          simp [cur, hm]
        rw [ht0, ht] at this
        exact Option.some.inj this
      -- the original
      have horig : (doHash s x).res = .ok ∧
          (doHash s x).value = (if c.hashedBefore then t0 else t) ∧
          read s.layout x CACHE = (if c.hashedBefore then some (.wrap t0) else some .none) := by
        cases hb : c.hashedBefore with
        | false =>
          rw [hb] at hcx
          simp only [Bool.false_eq_true, if_false] at hcx ⊢
          obtain ⟨c1, c2, _⟩ := doHash_miss hh (by rw [hcx]; exact hi0c) ht
          exact ⟨c1, c2, by rw [hcx]; exact hi0c⟩
        | true =>
          rw [hb] at hcx
          simp only [if_true] at hcx ⊢
          obtain ⟨_, _, d3⟩ := doHash_miss hh hi0c ht0
          obtain ⟨c1, c2, _⟩ := doHash_hit hh (by rw [hcx]; exact d3)
          exact ⟨c1, c2, by rw [hcx]; exact d3⟩
      obtain ⟨c1, c2, c3⟩ := horig
      -- the copy
      have hcopy : (doHash s y).res = .ok ∧ ((doHash s y).value = t ∨
          (c.op = .copy ∧ s.gs = .dflt ∧ c.hashedBefore = true ∧ (doHash s y).value = t0)) := by
        by_cases hg : s.gs = .dflt
        · have hyc := T.cacheDflt hg
          rw [c3] at hyc
          cases hb : c.hashedBefore with
          | false =>
            rw [hb] at hyc
            simp only [Bool.false_eq_true, if_false, Option.map_some, transfer_none] at hyc
            obtain ⟨a1, a2, _⟩ := doHash_miss hh hyc hty
            exact ⟨a1, Or.inl a2⟩
          | true =>
            rw [hb] at hyc
            simp only [if_true, Option.map_some] at hyc
            by_cases hop : c.op = .copy
            · have : transfer c.op (.wrap t0) = .wrap t0 := by unfold transfer; rw [hop]; rfl
              rw [this] at hyc
              obtain ⟨a1, a2, _⟩ := doHash_hit hh hyc
              exact ⟨a1, Or.inr ⟨hop, hg, rfl, a2⟩⟩
            · have : transfer c.op (.wrap t0) = .none := by
                unfold transfer
                have : (c.op == Op.copy) = false := by simpa using hop
                simp [this, sanitize]
              rw [this] at hyc
              obtain ⟨a1, a2, _⟩ := doHash_miss hh hyc hty
              exact ⟨a1, Or.inl a2⟩
        · have hyc := T.cacheGS hg hcached hk1 hk10c
          obtain ⟨a1, a2, _⟩ := doHash_miss hh hyc hty
          exact ⟨a1, Or.inl a2⟩
      obtain ⟨a1, a2⟩ := hcopy
      -- K5 excluded: a shared wrapper is not stale
      have hstale : c.op = .copy → s.gs = .dflt → c.hashedBefore = true → c.mutate = none := by
        intro h1 h2 h3
        unfold k5 at hk5
        rw [h1, h2, h3, hcached] at hk5
        cases hm : c.mutate with
        | none => rfl
        | some m => rw [hm] at hk5; simp at hk5
      refine ⟨a1, b1, c1, ?_, ?_⟩
      · rw [b2]
        rcases a2 with a2 | ⟨h1, h2, h3, a2⟩
        · exact a2
        · rw [a2]; exact ht0t (hstale h1 h2 h3)
      · intro hnm
        rw [c2]
        cases hb : c.hashedBefore with
        | false =>
          simp only [Bool.false_eq_true, if_false]
          rcases a2 with a2 | ⟨_, _, h3, _⟩
          · exact a2
          · rw [hb] at h3; cases h3
        | true =>
          simp only [if_true]
          rw [hb] at hnm
          have hm : c.mutate = none := by
            cases hm : c.mutate with
            | none => rfl
            | some m => rw [hm] at hnm; simp at hnm
          rcases a2 with a2 | ⟨_, _, _, a2⟩
          · rw [a2]; exact (ht0t hm).symm
          · exact a2

end Attrs.C10
