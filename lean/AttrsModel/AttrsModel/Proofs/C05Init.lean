/-
  C05 — the initializer model never reports FrozenInstanceError (its stores bypass `__setattr__`), and on
  a frozen class it never takes the plain-assignment path.
-/
import AttrsModel.Spec.C05
import AttrsModel.Proofs.InitWf

namespace Attrs.C05
open Attrs.Init

/-- the outcome is not a FrozenInstanceError -/
def NF (st : St) : Prop := st.raised ≠ some .frozenInstance

theorem nf_emit (st : St) (f : Option EventId) (e : Event) (h : NF st) : NF (st.emit f e) := by
  unfold NF St.emit at *
  dsimp only
  split
  · simp
  · exact h

theorem nf_write (st : St) (n : String) (l : Loc) (v : Val) (h : NF st) : NF (st.write n l v) := h

theorem nf_store (st : St) (cfg : Cfg) (f : Option EventId) (t : Tech) (a : Attr) (v : Val) (h : NF st) :
    NF (st.store cfg f t a v) := by
  unfold St.store
  cases t
  · dsimp only
    split
    · split
      · exact nf_emit _ _ _ h
      · exact nf_write _ _ _ _ (nf_emit _ _ _ h)
    · exact nf_write _ _ _ _ h
  · exact nf_write _ _ _ _ h
  · exact nf_write _ _ _ _ h

/-- the members of a converter chain only emit events -/
theorem nf_runConvs (f : Option EventId) (n : String) (ms : List Conv) :
    ∀ (i : Nat) (v : Val) (st : St), NF st → NF (runConvs f n i ms v st).1 := by
  induction ms with
  | nil => intro i v st h; exact h
  | cons c cs ih =>
    intro i v st h
    unfold runConvs
    dsimp only
    split
    · exact nf_emit _ _ _ h
    · exact ih _ _ _ (nf_emit _ _ _ h)

theorem nf_setField (cfg : Cfg) (f : Option EventId) (b : Bool) (a : Attr) (v : Val) (st : St) (h : NF st) :
    NF (setField cfg f b a v st) := by
  unfold setField
  split
  · exact nf_store _ _ _ _ _ _ h
  · split
    · dsimp only
      split
      · exact nf_emit _ _ _ h
      · exact nf_store _ _ _ _ _ _ (nf_emit _ _ _ h)
    · dsimp only
      split
      · exact nf_runConvs _ _ _ _ _ _ h
      · exact nf_store _ _ _ _ _ _ (nf_runConvs _ _ _ _ _ _ h)

theorem nf_stepAttr (cfg : Cfg) (f : Option EventId) (belief : String → Bool) (env : List (String × Val))
    (st : St) (a : Attr) (h : NF st) : NF (stepAttr cfg f belief env st a) := by
  unfold stepAttr
  split
  · exact h
  · dsimp only
    have hfac : ∀ ts, NF (if (callFactory f a ts st).raised.isSome = true then callFactory f a ts st
        else setField cfg f (belief a.name) a (factoryVal a ts) (callFactory f a ts st)) := by
      intro ts
      have h1 : NF (callFactory f a ts st) := nf_emit _ _ _ h
      split
      · exact h1
      · exact nf_setField _ _ _ _ _ _ h1
    split
    · split
      · exact h
      · exact nf_setField _ _ _ _ _ _ h
      · exact hfac _
    · split
      · split
        · exact hfac _
        · exact nf_setField _ _ _ _ _ _ h
      · exact nf_setField _ _ _ _ _ _ h
      · unfold NF; simp

theorem nf_foldAttrs (cfg : Cfg) (f : Option EventId) (belief : String → Bool) (env : List (String × Val))
    (l : List Attr) (st : St) (h : NF st) : NF (l.foldl (stepAttr cfg f belief env) st) := by
  induction l generalizing st with
  | nil => exact h
  | cons a l ih => exact ih _ (nf_stepAttr _ _ _ _ _ _ h)

theorem nf_runValidator (f : Option EventId) (st : St) (ai : Attr × Nat) (h : NF st) : NF (runValidator f st ai) := by
  unfold runValidator
  split
  · exact h
  · split
    · unfold NF; simp
    · exact nf_emit _ _ _ h

theorem nf_foldValidators (f : Option EventId) (l : List (Attr × Nat)) (st : St) (h : NF st) :
    NF (l.foldl (runValidator f) st) := by
  induction l generalizing st with
  | nil => exact h
  | cons a l ih => exact ih _ (nf_runValidator _ _ _ h)

/-- the stages of `Init.body`, named -/
def b1 (r : RunIn) (env : List (String × Val)) : St :=
  match r.cfg.pre with
  | .none => St.init
  | .noArgs => St.init.emit r.fault { id := { kind := "pre", field := "", idx := 0 }, args := [] }
  | .withArgs => St.init.emit r.fault { id := { kind := "pre", field := "", idx := 0 }, args := preArgs r.attrs env }

def b2 (r : RunIn) (env : List (String × Val)) : St :=
  (r.attrs.filter participates).foldl (stepAttr r.cfg r.fault r.belief env) (b1 r env)

def b3 (r : RunIn) (env : List (String × Val)) : St :=
  if r.cfg.runValidators then
    (validatorEvents (r.attrs.filter participates)).foldl (runValidator r.fault) (b2 r env) else b2 r env

def b4 (r : RunIn) (env : List (String × Val)) : St :=
  if (b3 r env).raised.isSome || !r.cfg.post then b3 r env else
    (b3 r env).emit r.fault { id := { kind := "post", field := "", idx := 0 }, args := [] }

def b5 (r : RunIn) (env : List (String × Val)) : St :=
  if (b4 r env).raised.isSome || !r.cfg.cacheHash then b4 r env else
    if r.cfg.frozen && !r.cfg.slots then (b4 r env).write Generated.hashCacheField .dict "None"
    else (b4 r env).write Generated.hashCacheField (if r.cacheIsSlot then .slot else .dict) "None"

theorem body_stages (r : RunIn) (env : List (String × Val)) : body r env = b5 r env := rfl

theorem nf_body (r : RunIn) (env : List (String × Val)) : NF (body r env) := by
  have h1 : NF (b1 r env) := by
    unfold b1
    have h0 : NF St.init := by unfold NF St.init; simp
    split
    · exact h0
    · exact nf_emit _ _ _ h0
    · exact nf_emit _ _ _ h0
  have h2 : NF (b2 r env) := nf_foldAttrs _ _ _ _ _ _ h1
  have h3 : NF (b3 r env) := by
    unfold b3; split
    · exact nf_foldValidators _ _ _ h2
    · exact h2
  have h4 : NF (b4 r env) := by
    unfold b4; split
    · exact h3
    · exact nf_emit _ _ _ h3
  rw [body_stages]
  unfold b5
  split
  · exact h4
  · split <;> exact nf_write _ _ _ _ h4

/-- whatever the class, the call and the failing callback: the modelled initializer never ends in a
    FrozenInstanceError — its stores do not go through the class's `__setattr__` -/
theorem runInit_not_frozenInstance (c : Init.Case) : (runInit c).exc ≠ some .frozenInstance := by
  unfold runInit
  dsimp only
  split
  · simp
  · rename_i env _
    have h := nf_body c.eff env
    unfold NF at h
    split
    · rename_i e he
      dsimp only
      intro hc
      apply h
      rw [he]
      exact hc
    · split
      · split <;> simp
      · simp

/-- **init never takes the plain-assignment path on a frozen class** (`_determine_setters`): every store is
    the cached `object.__setattr__` or the instance `__dict__` -/
theorem tech_frozen (cfg : Cfg) (belief : Bool) (a : Attr) (h : cfg.frozen = true) :
    tech cfg belief a = .setattr ∨ tech cfg belief a = .instDict := by
  unfold tech
  rw [if_pos h]
  split
  · exact Or.inl rfl
  · split
    · exact Or.inl rfl
    · exact Or.inr rfl

end Attrs.C05
