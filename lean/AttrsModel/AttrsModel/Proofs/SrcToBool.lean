/-
  T1b: `converters.to_bool` as translated from /repo's source on this run (`Gen.to_bool`) against the tables T1 extracts
  (`Generated.toBoolTrue/False`) and the documented behaviour.
-/
import AttrsModel.Generated.Funcs
import AttrsModel.Generated.Tables

namespace Attrs.Src
open Attrs.Py

/-- a table literal as the Python object -/
def litPV : Lit → PV
  | .bool b => vBool b
  | .int n => vInt n
  | .str s => vStr s
  | .none => vNone
  | .other _ => vObj 0

/-- `r` is the normal return of the value `v` -/
def returns (r : Except PyErr PV) (v : PV) : Bool :=
  match r with
  | .ok x => decide (x = v)
  | .error _ => false

/-- `r` is the raise of `e` -/
def raises (r : Except PyErr PV) (e : PyErr) : Bool :=
  match r with
  | .ok _ => false
  | .error x => decide (x = e)

/-- every entry of the documented truthy table converts to True, every entry of the falsy table to False -/
theorem to_bool_tables (env : Env) (ext : Ext) :
    (Generated.toBoolTrue.all fun l => returns (Gen.to_bool env ext (litPV l)) vTrue) = true ∧
    (Generated.toBoolFalse.all fun l => returns (Gen.to_bool env ext (litPV l)) vFalse) = true := by
  constructor <;> rfl

/-- strings are compared case-insensitively -/
theorem to_bool_upper (env : Env) (ext : Ext) :
    returns (Gen.to_bool env ext (vStr "TRUE")) vTrue = true ∧ returns (Gen.to_bool env ext (vStr "Yes")) vTrue = true ∧
    returns (Gen.to_bool env ext (vStr "oFF")) vFalse = true ∧ returns (Gen.to_bool env ext (vStr "N")) vFalse = true := by
  refine ⟨rfl, rfl, rfl, rfl⟩

/-- anything that is not a str, a bool or an int — and every other int or str — is rejected with ValueError -/
theorem to_bool_rejects (env : Env) (ext : Ext) :
    (∀ n, Gen.to_bool env ext (vObj n) = .error .valueError) ∧
    (∀ n, Gen.to_bool env ext (vFn n) = .error .valueError) ∧
    Gen.to_bool env ext vNone = .error .valueError ∧
    raises (Gen.to_bool env ext (vInt 2)) .valueError = true ∧ raises (Gen.to_bool env ext (vInt (-1))) .valueError = true ∧
    raises (Gen.to_bool env ext (vStr "2")) .valueError = true ∧ raises (Gen.to_bool env ext (vStr "")) .valueError = true := by
  refine ⟨fun n => rfl, fun n => rfl, rfl, rfl, rfl, rfl, rfl⟩

end Attrs.Src
