/-
  C05 — helper lemmas about operations on instances of a class whose `__setattr__`/`__delattr__` resolve to
  the frozen pair.
-/
import AttrsModel.Spec.C05

namespace Attrs.C05
open Attrs.Init

/-! ### the T1 tables against the documented lists (re-checked on every build) -/

theorem setNames_book : Generated.frozenExcSetNames = bookNames := by decide
theorem setNames_doc : Generated.frozenExcSetNames = documentedSet := by decide
theorem delNames_doc : Generated.frozenExcDelNames = documentedDel := by decide

/-- set / delete / augmented assignment -/
def isMutation : Op → Bool
  | .set _ _ | .del _ | .aug _ _ => true
  | _ => false

/-- the operation writes a BaseException bookkeeping attribute the frozen methods let through -/
def exempt (c : Case) : Op → Bool
  | .set n _ => c.excRoot && Generated.frozenExcSetNames.contains n
  | .aug n _ => c.excRoot && Generated.frozenExcSetNames.contains n
  | .del n => c.excRoot && Generated.frozenExcDelNames.contains n
  | _ => false

/-- the operation is one of the documented bookkeeping writes on an exception instance -/
def exemptDoc (c : Case) : Op → Bool
  | .set n _ => c.excRoot && documentedSet.contains n
  | .aug n _ => c.excRoot && documentedSet.contains n
  | .del n => c.excRoot && documentedDel.contains n
  | _ => false

theorem frozenSet_refuses (c : Case) (s : IState) (n : String) (v : Val)
    (h : (c.excRoot && Generated.frozenExcSetNames.contains n) = false) :
    frozenSetattr c s n v = (some .frozenInstance, s) := by
  unfold frozenSetattr; rw [h]; rfl

theorem frozenDel_refuses (c : Case) (s : IState) (n : String)
    (h : (c.excRoot && Generated.frozenExcDelNames.contains n) = false) :
    frozenDelattr c s n = (some .frozenInstance, s) := by
  unfold frozenDelattr; rw [h]; rfl

/-- **one step**: on a frozen leaf a non-exempt mutation leaves the state as it is and raises -/
theorem step_frozen (c : Case) (lf : Leaf) (s : IState) (op : Op)
    (hs : lf.rset = .frozen) (hd : lf.rdel = .frozen) (hm : isMutation op = true) (he : exempt c op = false) :
    (step c lf s op).2 = s ∧ (step c lf s op).1.snap = render c s ∧ (step c lf s op).1.values = none ∧
    ((step c lf s op).1.exc = some .frozenInstance ∨
      (∃ n v, op = .aug n v ∧ readSnap c (render c s) n = none ∧ (step c lf s op).1.exc = some .attributeError)) := by
  cases op with
  | set n v =>
    simp only [exempt] at he
    simp [step, doSet, hs, frozenSet_refuses c s n v he]
  | del n =>
    simp only [exempt] at he
    simp [step, doDel, hd, frozenDel_refuses c s n he]
  | aug n v =>
    simp only [exempt] at he
    cases hr : readSnap c (render c s) n with
    | none => simp [step, hr]
    | some cur => simp [step, hr, doSet, hs, frozenSet_refuses c s n (cur ++ v) he]
  | _ => simp [isMutation] at hm

/-- **arbitrary histories** of non-exempt mutations: the state at the end is the state at the start, every
    snapshot on the way equals the first one, every outcome is an error -/
theorem runOps_frozen (c : Case) (lf : Leaf) (s : IState) (ops : List Op)
    (hs : lf.rset = .frozen) (hd : lf.rdel = .frozen)
    (hops : ∀ op ∈ ops, isMutation op = true ∧ exempt c op = false) :
    finalState c lf s ops = s ∧ (runOps c lf s ops).length = ops.length ∧
    ∀ o ∈ runOps c lf s ops, o.snap = render c s ∧ o.values = none ∧
      (o.exc = some .frozenInstance ∨ o.exc = some .attributeError) := by
  induction ops with
  | nil => simp [finalState, runOps]
  | cons op rest ih =>
    obtain ⟨h1, h2⟩ := hops op List.mem_cons_self
    obtain ⟨e1, e2, e3, e4⟩ := step_frozen c lf s op hs hd h1 h2
    have ih' := ih (fun o ho => hops o (List.mem_cons_of_mem _ ho))
    unfold finalState runOps
    rw [e1]
    refine ⟨ih'.1, by simp [ih'.2.1], ?_⟩
    intro o ho
    rcases List.mem_cons.1 ho with rfl | ho
    · refine ⟨e2, e3, ?_⟩
      rcases e4 with e4 | ⟨_, _, _, _, e4⟩
      · exact Or.inl e4
      · exact Or.inr e4
    · exact ih'.2.2 o ho

/-! ### what the exempt operations do -/

theorem genericSet_book_mem (c : Case) (s : IState) (n : String) (v : Val)
    (h : (c.excRoot && Generated.frozenExcSetNames.contains n) = true) :
    genericSet c s n v = (none, { s with ex := bookSet s.ex n v }) := by
  unfold genericSet
  rw [setNames_book] at h
  rw [h]; rfl

theorem frozenSet_mem (c : Case) (s : IState) (n : String) (v : Val) :
    (frozenSetattr c s n v).2.mem = s.mem := by
  unfold frozenSetattr
  split
  · rename_i h; rw [genericSet_book_mem c s n v h]
  · rfl

theorem delNames_notes (n : String) (h : Generated.frozenExcDelNames.contains n = true) : n = "__notes__" := by
  rw [delNames_doc] at h
  simpa [documentedDel] using h

theorem frozenDel_mem (c : Case) (s : IState) (n : String) : (frozenDelattr c s n).2.mem = s.mem := by
  unfold frozenDelattr
  split
  · rename_i h
    simp only [Bool.and_eq_true] at h
    have hn := delNames_notes n h.2
    subst hn
    unfold genericDel
    have : (c.excRoot && bookNames.contains "__notes__") = true := by simp [h.1, bookNames]
    rw [this]
    simp only [if_true, beq_self_eq_true]
    split <;> rfl
  · rfl

/-- **nothing but the hash cache ever moves**: whatever operation of the alphabet is applied to an instance
    of a frozen leaf — mutation attempts, bookkeeping writes on exceptions, hashing, copying, evolving,
    raising — every storage location other than the hash cache keeps its content -/
theorem step_mem (c : Case) (lf : Leaf) (s : IState) (op : Op) (hs : lf.rset = .frozen) (hd : lf.rdel = .frozen)
    (n : String) (l : Loc) (hn : n ≠ cacheName) : (step c lf s op).2.mem n l = s.mem n l := by
  cases op with
  | set n' v => simp [step, doSet, hs, frozenSet_mem]
  | del n' => simp [step, doDel, hd, frozenDel_mem]
  | aug n' v =>
    unfold step
    dsimp only
    split
    · rfl
    · simp [doSet, hs, frozenSet_mem]
  | hash =>
    unfold step
    dsimp only
    split
    · rfl
    · split
      · rfl
      · split
        · rfl
        · split
          · dsimp only
            split
            · simp [IState.write, hn]
            · rfl
          · rfl
  | copy => rfl
  | deepcopy => rfl
  | pickle p => rfl
  | evolve ch =>
    unfold step
    dsimp only
    split
    · rfl
    · split <;> rfl
  | raise_ => rfl
  | raiseFrom => rfl
  | chain => rfl
  | withTb b => rfl
  | addNote v =>
    unfold step
    dsimp only
    split
    · rfl
    · simp [doSet, hs, frozenSet_mem]

theorem finalState_mem (c : Case) (lf : Leaf) (s : IState) (ops : List Op) (hs : lf.rset = .frozen)
    (hd : lf.rdel = .frozen) (n : String) (l : Loc) (hn : n ≠ cacheName) :
    (finalState c lf s ops).mem n l = s.mem n l := by
  induction ops generalizing s with
  | nil => rfl
  | cons op rest ih =>
    unfold finalState
    rw [ih, step_mem c lf s op hs hd n l hn]

end Attrs.C05
