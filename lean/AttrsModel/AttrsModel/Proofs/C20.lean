/-
  C20 — helper lemmas: sequential callbacks = cut of the declarative list; the hook resolution of the model
  against the documented table; construction through the initializer model; the bracket-counting lemmas.
-/
import AttrsModel.Spec.C20
import AttrsModel.Properties.C02

namespace Attrs.C20
open Attrs.Init

/-! ## Calling a list of callbacks one after the other -/

def callMany (fault : Option EventId) (es : List EventId) (r : Run) : Run := es.foldl (Run.call fault) r

theorem callMany_nil (fault : Option EventId) (r : Run) : callMany fault [] r = r := rfl

theorem callMany_cons (fault : Option EventId) (e : EventId) (es : List EventId) (r : Run) :
    callMany fault (e :: es) r = callMany fault es (r.call fault e) := rfl

theorem callMany_append (fault : Option EventId) (xs ys : List EventId) (r : Run) :
    callMany fault (xs ++ ys) r = callMany fault ys (callMany fault xs r) := by
  simp [callMany, List.foldl_append]

theorem callMany_raised (fault : Option EventId) (es : List EventId) (r : Run) (h : r.raised = true) :
    callMany fault es r = r := by
  induction es generalizing r with
  | nil => rfl
  | cons e es ih => rw [callMany_cons]; simp only [Run.call, h, if_true]; exact ih r h

/-- running callbacks until one raises = the list cut after the faulty one -/
theorem callMany_spec (fault : Option EventId) (es : List EventId) (r : Run) (h : r.raised = false) :
    callMany fault es r = { events := r.events ++ cutIds fault es, raised := hitsIds fault es } := by
  induction es generalizing r with
  | nil => cases r; simp_all [callMany, cutIds, hitsIds]
  | cons e es ih =>
    rw [callMany_cons]
    by_cases hf : fault = some e
    · have : (r.call fault e) = { events := r.events ++ [e], raised := true } := by
        simp [Run.call, h, hf]
      rw [this, callMany_raised _ _ _ rfl]
      simp [cutIds, hitsIds, hf]
    · have : (r.call fault e) = { events := r.events ++ [e], raised := false } := by
        simp [Run.call, h, hf]
      rw [this, ih _ rfl]
      simp [cutIds, hitsIds, hf, List.append_assoc]

theorem callMany_start (fault : Option EventId) (es : List EventId) :
    callMany fault es Run.start = { events := cutIds fault es, raised := hitsIds fault es } := by
  rw [callMany_spec _ _ _ rfl]; simp [Run.start]

theorem callValidators_eq (fault : Option EventId) (f : Field) (r : Run) :
    callValidators fault f r = callMany fault ((List.range f.validators).map (valId f)) r := by
  simp [callValidators, callMany, List.foldl_map]

theorem foldl_callMany {α : Type} (fault : Option EventId) (g : α → List EventId) (l : List α) (r : Run) :
    l.foldl (fun r a => callMany fault (g a) r) r = callMany fault (l.flatMap g) r := by
  induction l generalizing r with
  | nil => rfl
  | cons a l ih => simp only [List.foldl_cons, List.flatMap_cons, callMany_append]; exact ih _

theorem runValidate_eq (cls : Cls) (run : Bool) (fault : Option EventId) :
    runValidate run fault cls.fields = callMany fault (validatePlan cls run) Run.start := by
  unfold runValidate validatePlan
  cases run
  · simp [callMany_nil]
  · simp only [Bool.not_true, Bool.false_eq_true, if_false, if_true, validatorPlan]
    rw [← foldl_callMany]
    congr 1
    funext r f
    exact callValidators_eq fault f r

theorem runPrim_eq (run : Bool) (fault : Option EventId) (f : Field) (r : Run) (pos : Nat) (p : Prim) :
    runPrim run fault f r pos p = callMany fault (primPlan run f pos p) r := by
  cases p
  · simp [runPrim, primPlan, callMany_cons, callMany_nil]
  · cases hc : f.conv <;> simp [runPrim, primPlan, hc, callMany_cons, callMany_nil]
  · cases run <;> simp [runPrim, primPlan, callMany_nil, callValidators_eq]

theorem runChain_eq (run : Bool) (fault : Option EventId) (f : Field) (pos : Nat) (l : List Prim) (r : Run) :
    runChain run fault f pos l r = callMany fault (chainPlan run f pos l) r := by
  induction l generalizing pos r with
  | nil => rfl
  | cons p ps ih => simp only [runChain, chainPlan, callMany_append, runPrim_eq]; exact ih _ _

/-- the pipe extracted from the source (`_DEFAULT_ON_SETATTR`) is convert, then validate -/
theorem defaultChain_eq : defaultChain = [.convert, .validate] := by decide

/-- the hook resolution of `define.wrap` + `add_setattr` is the documented table -/
theorem saHook_hooked (cls : Cls) (f : Field) : (saHook cls f).getD [] = hooked cls f := by
  unfold saHook hooked clsLevel
  rw [defaultChain_eq]
  cases f.onSet <;> cases cls.clsOnSet <;> cases cls.isDefine <;> simp

theorem runAssign_eq (cls : Cls) (run : Bool) (fault : Option EventId) (f : Field) :
    runAssign cls run fault f = callMany fault (assignPlan cls run f) Run.start := by
  have h := saHook_hooked cls f
  unfold runAssign assignPlan
  rw [← h]
  cases saHook cls f with
  | none => simp [chainPlan, callMany_nil]
  | some l => simp [runChain_eq]

theorem exc_of_run (fault : Option EventId) (plan : List EventId) :
    (callMany fault plan Run.start).exc = (if hitsIds fault plan then some .user else none) := by
  rw [callMany_start]; rfl

theorem events_of_run (fault : Option EventId) (plan : List EventId) :
    (callMany fault plan Run.start).events = cutIds fault plan := by
  rw [callMany_start]

/-! ## Construction through the initializer model -/

theorem initCase_wf_run (cls : Cls) (run : Bool) (fault : Option EventId) :
    C02.wf (initCase cls run fault) = C02.wf (initCase cls true fault) := rfl

theorem initCase_known (cls : Cls) (run : Bool) (fault : Option EventId) :
    C02.known (initCase cls run fault) = [] := by
  simp [C02.known, C01.known, C01.misplaced, initCase, Case.eff, toAttr, List.any_map]

theorem cutAt_ids (fault : Option EventId) (es : List Event) :
    (C02.cutAt fault es).map (·.id) = cutIds fault (es.map (·.id)) := by
  induction es with
  | nil => rfl
  | cons e es ih =>
    simp only [C02.cutAt, List.map_cons, cutIds]
    split <;> simp [ih]

theorem hits_ids (fault : Option EventId) (es : List Event) :
    C02.hits fault es = hitsIds fault (es.map (·.id)) := by
  simp [C02.hits, hitsIds, List.any_map, Function.comp_def]

theorem participates_toAttr (kw : Bool) (fields : List Field) :
    (fields.map (toAttr kw)).filter participates = (fields.filter Field.participates).map (toAttr kw) := by
  rw [List.filter_map]
  congr 1

theorem validatorEvents_ids_gen (kw : Bool) (g : Attr → List Val) (fields : List Field) :
    ((fields.map (toAttr kw)).flatMap (fun a =>
        (List.range a.validators).map (fun i => C02.ev "validator" a.name i (g a)))).map (·.id)
      = validatorPlan fields := by
  unfold validatorPlan
  induction fields with
  | nil => rfl
  | cons f fs ih =>
    simp only [List.map_cons, List.flatMap_cons, List.map_append, ih]
    simp [toAttr, C02.ev, valId, Function.comp_def]

theorem validatorEvents_ids (kw : Bool) (c : Call) (fields : List Field) :
    (C02.validatorEventsOf (fields.map (toAttr kw)) c).map (·.id)
      = validatorPlan (fields.filter Field.participates) := by
  unfold C02.validatorEventsOf
  rw [participates_toAttr]
  exact validatorEvents_ids_gen kw _ _

/-- the callbacks of a construction that are not validators and run before them: the pre-init hook, then
    per field its factory (argument left out) and its converter — as the initializer specification lists them -/
def beforePart (cls : Cls) : List EventId :=
  (C02.preEvents (initCase cls true none).eff (initCase cls true none).call ++
    ((initCase cls true none).eff.attrs.filter participates).flatMap
      (C02.attrEvents (initCase cls true none).eff.attrs (initCase cls true none).call)).map (·.id)

/-- the post-init hook -/
def afterPart (cls : Cls) : List EventId :=
  if cls.post then [{ kind := "post", field := "", idx := 0 }] else []

/-- the shape of a construction: hooks, factories and converters do not depend on the switch; the
    validators sit between them and the post-init hook, iff enabled -/
theorem constructPlan_struct (cls : Cls) (run : Bool) :
    constructPlan cls run = beforePart cls ++
      (if run then validatorPlan (cls.fields.filter Field.participates) else []) ++ afterPart cls := by
  unfold constructPlan C02.expectedTrace beforePart afterPart
  have h1 : (initCase cls run none).eff.attrs = cls.fields.map (toAttr cls.kwOnly) := rfl
  have h1' : (initCase cls true none).eff.attrs = cls.fields.map (toAttr cls.kwOnly) := rfl
  have h2 : (initCase cls run none).eff.cfg.runValidators = run := rfl
  have h3 : (initCase cls run none).eff.cfg.post = cls.post := rfl
  have h4 : C02.preEvents (initCase cls run none).eff (initCase cls run none).call
      = C02.preEvents (initCase cls true none).eff (initCase cls true none).call := rfl
  have h5 : (initCase cls run none).call = (initCase cls true none).call := rfl
  rw [h1, h1', h2, h3, h4, h5]
  simp only [List.map_append]
  congr 1
  · congr 1
    cases run
    · simp
    · simp [validatorEvents_ids]
  · cases cls.post <;> simp [C02.ev]

theorem beforePart_kind (cls : Cls) : ∀ e ∈ beforePart cls, e.kind = "pre" ∨ e.kind = "factory" ∨ e.kind = "conv" := by
  intro e he
  unfold beforePart at he
  obtain ⟨ev, hev, rfl⟩ := List.mem_map.1 he
  rcases List.mem_append.1 hev with h | h
  · left
    unfold C02.preEvents at h
    split at h
    · cases h
    · simp only [List.mem_singleton] at h; simp [h, C02.ev]
    · simp only [List.mem_singleton] at h; simp [h, C02.ev]
  · right
    obtain ⟨a, _, ha⟩ := List.mem_flatMap.1 h
    exact (C02.C02_attr_events_named _ _ _ ev ha).2

theorem afterPart_kind (cls : Cls) : ∀ e ∈ afterPart cls, e.kind = "post" := by
  intro e he
  unfold afterPart at he
  split at he
  · simp only [List.mem_singleton] at he; simp [he]
  · cases he

/-! ### the callbacks before the validators, spelled out (distinct field names) -/

def preId : EventId := { kind := "pre", field := "", idx := 0 }
def factoryId (f : Field) : EventId := { kind := "factory", field := f.name, idx := 0 }

theorem lookup_none_of_not_mem (n : String) (l : List (String × Val)) (h : ∀ kv ∈ l, kv.1 ≠ n) :
    lookup n l = none := by
  induction l with
  | nil => rfl
  | cons kv l ih =>
    obtain ⟨k, v⟩ := kv
    have hk : k ≠ n := h (k, v) List.mem_cons_self
    simp only [lookup, beq_iff_eq, hk, if_false]
    exact ih (fun kv hkv => h kv (List.mem_cons_of_mem _ hkv))

theorem passed_defaulted_none (cls : Cls) (hn : (cls.fields.map (·.name)).Nodup) (f : Field) (hf : f ∈ cls.fields)
    (hnp : f.passed = false) (ps : List Param) :
    passed ps (initCase cls true none).call f.name = none := by
  unfold passed
  have hpos : (initCase cls true none).call.pos = [] := rfl
  simp only [hpos, List.zip_nil_right, lookup]
  apply lookup_none_of_not_mem
  intro kv hkv
  have hkw : (initCase cls true none).call.kw = (cls.fields.filter Field.passed).map (fun f => (f.name, "v." ++ f.name)) := rfl
  rw [hkw] at hkv
  obtain ⟨g, hg, rfl⟩ := List.mem_map.1 hkv
  have hg' := List.mem_filter.1 hg
  intro hname
  have : g = f := nodup_map_inj (·.name) cls.fields hn g hg'.1 f hf hname
  subst this
  simp [hnp] at hg'

/-- what one field contributes before the validators: its factory if it has one (the argument is never
    passed for a defaulted parameter; an `init=False` field has no parameter), then its converter -/
def fieldCallbacks (f : Field) : List EventId :=
  (match f.dflt with
   | .factory _ => [factoryId f]
   | _ => []) ++ (if f.conv then [convId f] else [])

theorem attrEvents_explicit (cls : Cls) (hn : (cls.fields.map (·.name)).Nodup) (f : Field) (hf : f ∈ cls.fields)
    (A : List Attr) :
    (C02.attrEvents A (initCase cls true none).call (toAttr cls.kwOnly f)).map (·.id) = fieldCallbacks f := by
  unfold C02.attrEvents fieldCallbacks
  cases hi : f.init
  · cases hd : f.dflt <;> cases hc : f.conv <;>
      simp [toAttr, hi, hd, hc, C02.ev, convId, factoryId, convEventsOf]
  · cases hd : f.dflt with
    | none =>
      cases hc : f.conv <;> simp [toAttr, hi, hd, hc, C02.ev, convId, convEventsOf] <;> split <;> simp
    | value =>
      have hp := passed_defaulted_none cls hn f hf (by simp [Field.passed, hd]) (params A)
      cases hc : f.conv <;> simp [toAttr, hi, hd, hc, C02.ev, convId, hp, convEventsOf]
    | factory ts =>
      have hp := passed_defaulted_none cls hn f hf (by simp [Field.passed, hd]) (params A)
      cases hc : f.conv <;> simp [toAttr, hi, hd, hc, C02.ev, convId, factoryId, hp, convEventsOf]

theorem beforePart_explicit (cls : Cls) (hn : (cls.fields.map (·.name)).Nodup) :
    beforePart cls = (if cls.pre = .none then [] else [preId]) ++
      (cls.fields.filter Field.participates).flatMap fieldCallbacks := by
  unfold beforePart
  have h1 : (initCase cls true none).eff.attrs = cls.fields.map (toAttr cls.kwOnly) := rfl
  rw [h1, participates_toAttr, List.map_append]
  congr 1
  · unfold C02.preEvents
    have : (initCase cls true none).eff.cfg.pre = cls.pre := rfl
    rw [this]
    cases cls.pre <;> simp [C02.ev, preId]
  · rw [List.map_flatMap, List.flatMap_map]
    apply flatMap_congr'
    intro f hf
    exact attrEvents_explicit cls hn f (List.mem_filter.1 hf).1 _

theorem expectedTrace_ids (cls : Cls) (run : Bool) (fault : Option EventId) :
    (C02.expectedTrace (initCase cls run fault).eff (initCase cls run fault).call).map (·.id)
      = constructPlan cls run := rfl

/-- the callbacks a construction runs, and how it ends, for a class that is well-formed for the
    initializer model: all converters, then all validators iff the switch is on, cut after the faulty one -/
theorem construct_spec (cls : Cls) (run : Bool) (fault : Option EventId)
    (hwf : C02.wf (initCase cls true fault) = true) :
    (runInit (initCase cls run fault)).trace.map (·.id) = cutIds fault (constructPlan cls run) ∧
    (runInit (initCase cls run fault)).exc = (if hitsIds fault (constructPlan cls run) then some .user else none) := by
  have hw : C02.wf (initCase cls run fault) = true := by rw [initCase_wf_run]; exact hwf
  have hk := initCase_known cls run fault
  have hf : (initCase cls run fault).eff.fault = fault := rfl
  constructor
  · rw [C02.C02_fault_prefix _ hw hk, cutAt_ids, expectedTrace_ids, hf]
  · rw [C02.C02_exception_propagates _ hw hk, hits_ids, expectedTrace_ids, hf]

/-! ## Brackets -/

/-- the switch positions observed before the enters that are still open, innermost first; `d` = how many
    of the innermost open ones to skip -/
def opens : Nat → List (Op × Bool) → List Bool
  | _, [] => []
  | d, (op, r) :: rest =>
    if op.isEnter then (match d with | 0 => r :: opens 0 rest | d' + 1 => opens d' rest)
    else if op.isExit then opens (d + 1) rest
    else opens d rest

theorem opens_succ (d : Nat) (h : List (Op × Bool)) : opens (d + 1) h = (opens d h).tail := by
  induction h generalizing d with
  | nil => rfl
  | cons x rest ih =>
    obtain ⟨op, r⟩ := x
    simp only [opens]
    split
    · cases d with
      | zero => simp
      | succ d' => simp [ih]
    · split
      · exact ih _
      · exact ih _

theorem entryState_opens (d : Nat) (h : List (Op × Bool)) : entryState d h = (opens d h).head? := by
  induction h generalizing d with
  | nil => rfl
  | cons x rest ih =>
    obtain ⟨op, r⟩ := x
    simp only [entryState, opens]
    split
    · cases d with
      | zero => simp
      | succ d' => simp [ih]
    · split
      · exact ih _
      · exact ih _

/-! ## Histories, frames, event lists, the model against the specification -/

theorem runSt_append (st : St) (xs ys : List Op) : runSt st (xs ++ ys) = runSt (runSt st xs) ys := by
  simp [runSt, List.foldl_append]

theorem runOpsWith_append (stf : St → Op → St) (c : Case) (st : St) (xs ys : List Op) :
    runOpsWith stf c st (xs ++ ys) = runOpsWith stf c st xs ++ runOpsWith stf c (xs.foldl stf st) ys := by
  induction xs generalizing st with
  | nil => rfl
  | cons x xs ih => simp [runOpsWith, ih]

theorem runOpsWith_length (stf : St → Op → St) (c : Case) (st : St) (ops : List Op) :
    (runOpsWith stf c st ops).length = ops.length := by
  induction ops generalizing st with
  | nil => rfl
  | cons x xs ih => simp [runOpsWith, ih]

theorem stepObs_ops (c : Case) (o : List Op) (st st' : St) (op : Op) :
    stepObs { c with ops := o } st st' op = stepObs c st st' op := by cases op <;> rfl

theorem runOpsWith_ops (stf : St → Op → St) (c : Case) (o : List Op) (st : St) (l : List Op) :
    runOpsWith stf { c with ops := o } st l = runOpsWith stf c st l := by
  induction l generalizing st with
  | nil => rfl
  | cons x xs ih => simp only [runOpsWith, stepObs_ops, ih]

theorem toBool_ofBool (b : Bool) : (B3.ofBool b).toBool? = some b := by cases b <;> rfl

theorem stepObs_views (c : Case) (st st' : St) (op : Op) :
    (stepObs c st st' op).run = B3.ofBool st'.run ∧ (stepObs c st st' op).disabled = B3.ofBool (!st'.run) := by
  cases op <;> simp only [stepObs, mkStep, and_self]
  all_goals (repeat' split) <;> simp

theorem views_steps (stf : St → Op → St) (c : Case) (st : St) (ops : List Op) :
    ∀ s ∈ runOpsWith stf c st ops, ∃ b : Bool, s.run = B3.ofBool b ∧ s.disabled = B3.ofBool (!b) := by
  induction ops generalizing st with
  | nil => simp [runOpsWith]
  | cons op ops ih =>
    intro s hs
    simp only [runOpsWith, List.mem_cons] at hs
    rcases hs with h | h
    · exact ⟨(stf st op).run, h ▸ stepObs_views c st _ op⟩
    · exact ih _ s h

/-- a history segment that keeps `d` of the surrounding contexts open at most leaves everything below them
    on the stack untouched; the segment's final depth is the number of entries on top -/
theorem stack_frame (body : List Op) :
    ∀ (d d' : Nat) (st : St) (p base : List Bool), bal d body = some d' → st.stack = p ++ base → p.length = d →
      ∃ p', (runSt st body).stack = p' ++ base ∧ p'.length = d' := by
  induction body with
  | nil =>
    intro d d' st p base hb hs hp
    simp only [bal, Option.some.injEq] at hb
    exact ⟨p, by simpa [runSt] using hs, hb ▸ hp⟩
  | cons op ops ih =>
    intro d d' st p base hb hs hp
    have hrun : runSt st (op :: ops) = runSt (stepSt st op) ops := rfl
    rw [hrun]
    simp only [bal] at hb
    by_cases he : op.isEnter = true
    · simp only [he, if_true] at hb
      refine ih (d + 1) d' (stepSt st op) (st.run :: p) base hb ?_ (by simp [hp])
      cases op <;> simp [Op.isEnter] at he
      simp [stepSt, hs]
    · by_cases hx : op.isExit = true
      · simp only [he, hx, if_true] at hb
        cases d with
        | zero => simp at hb
        | succ d0 =>
          simp only at hb
          cases p with
          | nil => simp at hp
          | cons v p0 =>
            refine ih d0 d' (stepSt st op) p0 base hb ?_ (by simpa using hp)
            cases op <;> simp [Op.isExit] at hx <;> simp [stepSt, hs]
      · simp only [he, hx] at hb
        refine ih d d' (stepSt st op) p base hb ?_ hp
        cases op <;> simp [Op.isEnter, Op.isExit] at he hx <;> simp [stepSt, hs]
        split <;> simp [hs]

/-- inside a block validators stay disabled as long as nobody touches the setters, however deep the
    nesting gets and however inner blocks are left -/
theorem disabled_frame (body : List Op) :
    ∀ (d d' : Nat) (st : St) (p base : List Bool), bal d body = some d' → st.stack = p ++ base → p.length = d →
      st.run = false → (∀ v ∈ p, v = false) →
      (∀ op ∈ body, (∀ a, op ≠ .setDisabled a) ∧ (∀ a, op ≠ .setRun a)) →
      (runSt st body).run = false := by
  induction body with
  | nil => intro d d' st p base _ _ _ hr _ _; simpa [runSt] using hr
  | cons op ops ih =>
    intro d d' st p base hb hs hp hr hall hno
    have hrun : runSt st (op :: ops) = runSt (stepSt st op) ops := rfl
    rw [hrun]
    have hno' : ∀ o ∈ ops, (∀ a, o ≠ .setDisabled a) ∧ (∀ a, o ≠ .setRun a) :=
      fun o ho => hno o (List.mem_cons_of_mem _ ho)
    have hop := hno op List.mem_cons_self
    simp only [bal] at hb
    cases op with
    | setDisabled a => exact absurd rfl (hop.1 a)
    | setRun a => exact absurd rfl (hop.2 a)
    | enter =>
      simp only [Op.isEnter, if_true] at hb
      refine ih (d + 1) d' _ (st.run :: p) base hb (by simp [stepSt, hs]) (by simp [hp]) rfl ?_ hno'
      intro v hv
      rcases List.mem_cons.1 hv with h | h
      · rw [h, hr]
      · exact hall v h
    | exit | exitExc =>
      simp only [Op.isEnter, Op.isExit, Bool.false_eq_true, if_false, if_true] at hb
      cases d with
      | zero => simp at hb
      | succ d0 =>
        simp only at hb
        cases p with
        | nil => simp at hp
        | cons v p0 =>
          refine ih d0 d' _ p0 base hb (by simp [stepSt, hs]) (by simpa using hp) ?_ ?_ hno'
          · simp [stepSt, hs, hall v List.mem_cons_self]
          · exact fun w hw => hall w (List.mem_cons_of_mem _ hw)
    | getDisabled | getRun | construct _ | validate _ | assign _ _ _ =>
      simp only [Op.isEnter, Op.isExit, Bool.false_eq_true, if_false] at hb
      exact ih d d' _ p base hb (by simp [stepSt, hs]) hp (by simp [stepSt, hr]) hall hno'

theorem cutIds_of_not_hits (fault : Option EventId) (es : List EventId) (h : hitsIds fault es = false) :
    cutIds fault es = es := by
  induction es with
  | nil => rfl
  | cons e es ih =>
    simp only [hitsIds, List.any_cons, Bool.or_eq_false_iff, decide_eq_false_iff_not] at h
    simp only [cutIds, h.1, if_false]
    rw [ih (by simpa [hitsIds] using h.2)]

theorem hitsIds_none (es : List EventId) : hitsIds none es = false := by simp [hitsIds]

theorem validatorPlan_kind (fields : List Field) : ∀ e ∈ validatorPlan fields, e.kind = "validator" := by
  intro e he
  obtain ⟨f, _, hf⟩ := List.mem_flatMap.1 he
  obtain ⟨i, _, rfl⟩ := List.mem_map.1 hf
  rfl

def isValidator (e : EventId) : Bool := e.kind == "validator"

theorem filter_all_false {α : Type} (p : α → Bool) (l : List α) (h : ∀ a ∈ l, p a = false) : l.filter p = [] := by
  apply List.filter_eq_nil_iff.2
  intro a ha; simp [h a ha]

theorem filter_all_true {α : Type} (p : α → Bool) (l : List α) (h : ∀ a ∈ l, p a = true) : l.filter p = l :=
  List.filter_eq_self.2 h

theorem chainPlan_switch (f : Field) (l : List Prim) (pos : Nat) :
    chainPlan false f pos l = (chainPlan true f pos l).filter (fun e => !isValidator e) := by
  induction l generalizing pos with
  | nil => rfl
  | cons p ps ih =>
    simp only [chainPlan, List.filter_append, ← ih]
    congr 1
    cases p
    · simp [primPlan, isValidator, hookId]
    · cases hc : f.conv <;> simp [primPlan, hc, isValidator, convId]
    · simp only [primPlan, Bool.false_eq_true, if_false, if_true]
      symm
      apply filter_all_false
      intro e he
      obtain ⟨i, _, rfl⟩ := List.mem_map.1 he
      simp [isValidator, valId]

theorem mem_chainPlan_validator (run : Bool) (f : Field) (l : List Prim) (pos : Nat) :
    (∃ e ∈ chainPlan run f pos l, isValidator e = true) ↔
      (run = true ∧ Prim.validate ∈ l ∧ 0 < f.validators) := by
  induction l generalizing pos with
  | nil => simp [chainPlan]
  | cons p ps ih =>
    simp only [chainPlan, List.mem_append, List.mem_cons]
    constructor
    · rintro ⟨e, he | he, hv⟩
      · cases p
        · simp [primPlan, hookId] at he; subst he; simp [isValidator] at hv
        · cases hc : f.conv <;> simp [primPlan, hc, convId] at he
          subst he; simp [isValidator] at hv
        · cases run
          · simp [primPlan] at he
          · simp only [primPlan, if_true, List.mem_map, List.mem_range] at he
            obtain ⟨i, hi, _⟩ := he
            exact ⟨rfl, Or.inl rfl, Nat.lt_of_le_of_lt (Nat.zero_le _) hi⟩
      · obtain ⟨h1, h2, h3⟩ := (ih (pos + 1)).1 ⟨e, he, hv⟩
        exact ⟨h1, Or.inr h2, h3⟩
    · rintro ⟨hr, hm | hm, hn⟩
      · subst hm hr
        exact ⟨valId f 0, Or.inl (by simp [primPlan]; exact ⟨0, hn, rfl⟩), rfl⟩
      · obtain ⟨e, he, hv⟩ := (ih (pos + 1)).2 ⟨hr, hm, hn⟩
        exact ⟨e, Or.inr he, hv⟩

theorem cutIds_mem (fault : Option EventId) (es : List EventId) : ∀ e ∈ cutIds fault es, e ∈ es := by
  induction es with
  | nil => simp [cutIds]
  | cons x xs ih =>
    intro e he
    simp only [cutIds] at he
    split at he
    · simp only [List.mem_singleton] at he; simp [he]
    · rcases List.mem_cons.1 he with h | h
      · simp [h]
      · exact List.mem_cons_of_mem _ (ih e h)

theorem filter_cutIds_nil (fault : Option EventId) (p : EventId → Bool) (es : List EventId)
    (h : es.filter p = []) : (cutIds fault es).filter p = [] := by
  rw [List.filter_eq_nil_iff] at h ⊢
  exact fun e he => h e (cutIds_mem fault es e he)

theorem opens_frame (body : List (Op × Bool)) :
    ∀ (d d' : Nat) (h : List (Op × Bool)) (q base : List Bool), bal d (body.map (·.1)) = some d' →
      opens 0 h = q ++ base → q.length = d →
      ∃ p, opens 0 (body.reverse ++ h) = p ++ base ∧ p.length = d' := by
  induction body with
  | nil =>
    intro d d' h q base hb hs hq
    simp only [List.map_nil, bal, Option.some.injEq] at hb
    exact ⟨q, by simpa using hs, hb ▸ hq⟩
  | cons x xs ih =>
    intro d d' h q base hb hs hq
    obtain ⟨op, r⟩ := x
    have hrev : ((op, r) :: xs).reverse ++ h = xs.reverse ++ ((op, r) :: h) := by simp
    rw [hrev]
    simp only [List.map_cons, bal] at hb
    by_cases he : op.isEnter = true
    · simp only [he, if_true] at hb
      exact ih (d + 1) d' _ (r :: q) base hb (by simp [opens, he, hs]) (by simp [hq])
    · by_cases hx : op.isExit = true
      · simp only [he, hx, if_true] at hb
        cases d with
        | zero => simp at hb
        | succ d0 =>
          simp only at hb
          cases q with
          | nil => simp at hq
          | cons v q0 =>
            refine ih d0 d' _ q0 base hb ?_ (by simpa using hq)
            simp only [opens, he, hx, if_true, Bool.false_eq_true, if_false]
            rw [opens_succ, hs]; rfl
      · simp only [he, hx] at hb
        exact ih d d' _ q base hb (by simp [opens, he, hx, hs]) hq

/-- cutting commutes with dropping a tail that the filter rejects anyway -/
theorem filter_cut_append (fault : Option EventId) (q : EventId → Bool) (A B : List EventId)
    (hA : ∀ e ∈ A, q e = true) (hB : ∀ e ∈ B, q e = false) :
    (cutIds fault (A ++ B)).filter q = cutIds fault A := by
  induction A with
  | nil => simpa [cutIds] using filter_cutIds_nil fault q B (filter_all_false q B hB)
  | cons a A ih =>
    have ha : q a = true := hA a List.mem_cons_self
    have ih' := ih (fun e he => hA e (List.mem_cons_of_mem _ he))
    simp only [List.cons_append, cutIds]
    split
    · simp [ha]
    · simp [ha, ih']

theorem beforePart_notPost (cls : Cls) : ∀ e ∈ beforePart cls, (e.kind != "post") = true := by
  intro e he
  rcases beforePart_kind cls e he with h | h | h <;> simp [h]

theorem beforePart_preGuard (cls : Cls) : ∀ e ∈ beforePart cls, preGuard e = true := by
  intro e he
  rcases beforePart_kind cls e he with h | h | h <;> simp [preGuard, h]

/-- the switch as the model's `__init__` finds it at the validators step, spelled out: the position at the
    start of the call moved by the body once per call of the probing callback among pre-init hook, factories
    and converters (up to a failing one) -/
theorem guardRun_eq (c : Case) (cls : Cls) (run : Bool)
    (hwf : C02.wf (initCase cls true c.fault) = true) :
    guardRun c cls run = iterB (probeCount c (cutIds c.fault (beforePart cls))) (bodyStep c) run := by
  unfold guardRun
  have h := (construct_spec cls false c.fault hwf).1
  simp only [h, constructPlan_struct, Bool.false_eq_true, if_false, List.append_nil]
  rw [filter_cut_append c.fault (fun e => e.kind != "post") _ _ (beforePart_notPost cls)
        (fun e he => by simp [afterPart_kind cls e he])]

/-- the callbacks observed before the validators step of a construction -/
theorem preGuard_of_construct (fault : Option EventId) (cls : Cls) (g : Bool) :
    (cutIds fault (constructPlan cls g)).filter preGuard = cutIds fault (beforePart cls) := by
  rw [constructPlan_struct, List.append_assoc]
  apply filter_cut_append fault preGuard _ _ (beforePart_preGuard cls)
  intro e he
  rcases List.mem_append.1 he with h | h
  · split at h
    · simp [preGuard, validatorPlan_kind _ e h]
    · cases h
  · simp [preGuard, afterPart_kind cls e h]

theorem stepOk_model (c : Case) (hI : ∀ cls ∈ c.classes, C02.wf (initCase cls true c.fault) = true) (st : St)
    (hist : List (Op × Bool)) (op : Op) (hs : st.stack = opens 0 hist)
    (hx : op.isExit = true → st.stack ≠ [])
    (ha : opOk c op = true) :
    stepOk c hist st.run op (stepObs c st (stepSt st op) op) = true := by
  have hv := stepObs_views c st (stepSt st op) op
  unfold stepOk
  rw [hv.1, hv.2, toBool_ofBool]
  simp only [beq_self_eq_true, Bool.true_and]
  obtain ⟨run, stack⟩ := st
  cases op with
  | setDisabled a => cases a <;> cases run <;> simp [stepObs, mkStep, stepSt, Arg.asBool, Arg.truthy, B3.ofBool]
  | setRun a => cases a <;> cases run <;> simp [stepObs, mkStep, stepSt, Arg.asBool, B3.ofBool]
  | getDisabled => simp [stepObs, mkStep, stepSt]
  | getRun => simp [stepObs, mkStep, stepSt]
  | enter => simp [stepObs, mkStep, stepSt, B3.ofBool]
  | exit =>
    cases stack with
    | nil => exact absurd rfl (hx rfl)
    | cons p rest =>
      have : entryState 0 hist = some p := by rw [entryState_opens, ← hs]; rfl
      simp [stepObs, mkStep, stepSt, this]
  | exitExc =>
    cases stack with
    | nil => exact absurd rfl (hx rfl)
    | cons p rest =>
      have : entryState 0 hist = some p := by rw [entryState_opens, ← hs]; rfl
      simp [stepObs, mkStep, stepSt, this]
  | construct k =>
    cases hk : c.classes[k]? with
    | none => simp [opOk, hk] at ha
    | some cls =>
      have hw := hI cls (List.mem_of_getElem? hk)
      have h := construct_spec cls (guardRun c cls run) c.fault hw
      simp only [runOutcome, stepObs, hk, mkStep, stepSt, h.1, h.2, preGuard_of_construct,
        ← guardRun_eq c cls run hw, beq_self_eq_true, Bool.and_self]
  | assign k i v =>
    cases hk : c.classes[k]? with
    | none => simp [opOk, hk] at ha
    | some cls =>
      cases hf : cls.fields[i]? with
      | none => simp [opOk, hk, hf] at ha
      | some f =>
        simp only [hk, hf, runOutcome, stepObs, mkStep, stepSt, runAssign_eq, events_of_run, exc_of_run,
          beq_self_eq_true, Bool.and_self]
  | validate k =>
    cases hk : c.classes[k]? with
    | none => simp [opOk, hk] at ha
    | some cls =>
      simp only [hk, runOutcome, stepObs, mkStep, stepSt, runValidate_eq, events_of_run, exc_of_run,
        beq_self_eq_true, Bool.and_self]

theorem specGo_model (c : Case) (hI : ∀ cls ∈ c.classes, C02.wf (initCase cls true c.fault) = true) :
    ∀ (ops : List Op) (st : St) (hist : List (Op × Bool)),
      st.stack = opens 0 hist →
      (bal st.stack.length ops).isSome = true →
      (∀ op ∈ ops, opOk c op = true) →
      specGo c hist st.run ops (runOpsWith stepSt c st ops) = true := by
  intro ops
  induction ops with
  | nil => intro st hist _ _ _; rfl
  | cons op ops ih =>
    intro st hist hs hb ha
    simp only [runOpsWith, specGo, Bool.and_eq_true]
    have hx : op.isExit = true → st.stack ≠ [] := by
      intro hx hnil
      have he : op.isEnter = false := by cases op <;> simp [Op.isExit] at hx <;> rfl
      simp [bal, hx, he, hnil] at hb
    refine ⟨stepOk_model c hI st hist op hs hx (ha op List.mem_cons_self), ?_⟩
    rw [(stepObs_views c st (stepSt st op) op).1, toBool_ofBool]
    refine ih (stepSt st op) ((op, st.run) :: hist) ?_ ?_ (fun o ho => ha o (List.mem_cons_of_mem _ ho))
    · -- the saved entry states are the ones the bracket counting finds
      cases op <;> simp only [stepSt, opens, Op.isEnter, Op.isExit, Bool.false_eq_true, if_false, if_true, hs]
      · split <;> simp [hs]
      all_goals
        rw [opens_succ]
        cases hst : st.stack with
        | nil => exact absurd hst (hx rfl)
        | cons p rest => rw [← hs, hst]; rfl
    · simp only [bal] at hb
      cases op <;> simp only [Op.isEnter, Op.isExit, Bool.false_eq_true, if_false, if_true] at hb <;>
        simp only [stepSt, List.length_cons]
      any_goals exact hb
      · split <;> exact hb
      all_goals
        cases hst : st.stack with
        | nil => exact absurd hst (hx rfl)
        | cons p rest => simpa [hst] using hb

/-- observations depend on the case only through its classes, the faulty callback and the probing callback -/
theorem stepObs_congr (c c' : Case) (h1 : c.classes = c'.classes) (h2 : c.fault = c'.fault)
    (h3 : c.probe = c'.probe) (h4 : c.body = c'.body) (st st' : St) (op : Op) :
    stepObs c st st' op = stepObs c' st st' op := by
  have hb : bodyStep c = bodyStep c' := by funext b; simp only [bodyStep, h4]
  cases op <;> simp only [stepObs, guardRun, probeCount, hb, h1, h2, h3]

theorem runOpsWith_congr (stf : St → Op → St) (c c' : Case) (h1 : c.classes = c'.classes) (h2 : c.fault = c'.fault)
    (h3 : c.probe = c'.probe) (h4 : c.body = c'.body)
    (st : St) (l : List Op) : runOpsWith stf c st l = runOpsWith stf c' st l := by
  induction l generalizing st with
  | nil => rfl
  | cons x xs ih => simp only [runOpsWith, stepObs_congr c c' h1 h2 h3 h4, ih]

theorem opOk_noProbe (c : Case) (op : Op) : opOk { c with probe := none } op = opOk c op := by
  cases op <;> rfl

/-- consecutive runs of the body, each from where the previous one left the cell -/
theorem nestedRuns_model (c : Case) (hI : ∀ cls ∈ c.classes, C02.wf (initCase cls true c.fault) = true)
    (hb : (bal 0 c.body).isSome = true) (hok : ∀ op ∈ c.body, opOk c op = true) :
    ∀ (n : Nat) (cur : Bool),
      nestedRuns c cur ((List.range n).map (fun j => runBody c (iterB j (bodyStep c) cur))) = true := by
  intro n
  induction n with
  | zero => intro cur; rfl
  | succ n ih =>
    intro cur
    rw [List.range_succ_eq_map]
    simp only [List.map_cons, List.map_map, nestedRuns, Bool.and_eq_true]
    refine ⟨?_, ?_⟩
    · exact specGo_model { c with probe := none } hI c.body { run := cur, stack := [] } [] rfl hb
        (fun op hop => by rw [opOk_noProbe]; exact hok op hop)
    · exact ih (bodyStep c cur)

/-- the nested observations of the model satisfy the nested part of the specification -/
theorem nestedOk_model (c : Case) (hI : ∀ cls ∈ c.classes, C02.wf (initCase cls true c.fault) = true)
    (hb : (bal 0 c.body).isSome = true) (hok : ∀ op ∈ c.body, opOk c op = true) :
    ∀ (ops : List Op) (st : St),
      nestedOk c st.run ops (runOpsWith stepSt c st ops) (runNestedWith stepSt c st ops) = true := by
  intro ops
  induction ops with
  | nil => intro st; rfl
  | cons op ops ih =>
    intro st
    simp only [runOpsWith, runNestedWith, nestedOk, Bool.and_eq_true]
    refine ⟨⟨?_, ?_⟩, ?_⟩
    · have hev : (stepObs c st (stepSt st op) op).events = (stepObs c st st op).events := by
        cases op <;> simp only [stepObs, mkStep] <;> (repeat' split) <;> rfl
      simp [nestedOf, hev]
    · exact nestedRuns_model c hI hb hok _ st.run
    · rw [(stepObs_views c st (stepSt st op) op).1, toBool_ofBool]
      exact ih _

end Attrs.C20
