/-
  C10 — exception classes (auto_exc): `BaseException.__reduce__` rebuilds the instance as `cls(*args)` and hands
  the instance `__dict__` to `__setstate__`.  What the generated `__init__` leaves where, for arbitrary field
  lists, and what the rebuilt instance therefore holds.
-/
import AttrsModel.Proofs.C10Legacy

namespace Attrs.C10

/-- the frozen-dict store technique puts `n` into `__dict__` although a slot of that name shadows it (K3) -/
def misplaced (s : Summary) (n : String) : Bool :=
  s.frozen && !s.lastSlots && !s.belief n && decide (n ∈ s.slotNames)

/-- one store of the generated `__init__` -/
theorem read_initStore {s : Summary} (hd : s.hasDict = true) {i i' : Inst} {n : String} {v : Val}
    (h : initStore s i n v = some i') (m : String) :
    read s.layout i' m = if m = n ∧ misplaced s n = false then some v else read s.layout i m := by
  unfold initStore at h
  split at h
  · rename_i hc
    simp only [Option.some.injEq] at h; subst h
    have hmis : misplaced s n = decide (n ∈ s.slotNames) := by
      unfold misplaced; rw [hc]; simp
    unfold read dictWrite Summary.layout
    simp only [hd, if_true]
    by_cases hm : m = n
    · subst hm
      by_cases hs : m ∈ s.slotNames
      · simp [hs, hmis]
      · simp [hs, hmis]
    · by_cases hs : m ∈ s.slotNames <;> simp [hs, hm]
  · rename_i hc
    have hmis : misplaced s n = false := by
      unfold misplaced
      cases h1 : (s.frozen && !s.lastSlots && !s.belief n) with
      | true => exact absurd h1 hc
      | false => simp
    rw [read_osetattr h]
    simp [hmis]

theorem read_setMany_initStore {s : Summary} (hd : s.hasDict = true) (g : String → Val) (st : List (String × Val))
    (hg : ∀ p ∈ st, p.2 = g p.1) {i i' : Inst} (h : setMany (initStore s) i st = some i') (m : String) :
    read s.layout i' m =
      if m ∈ st.map (·.1) ∧ misplaced s m = false then some (g m) else read s.layout i m := by
  induction st generalizing i with
  | nil => simp only [setMany, Option.some.injEq] at h; subst h; simp
  | cons p r ih =>
    cases p with
    | mk n v =>
      simp only [setMany] at h
      cases h1 : initStore s i n v with
      | none => rw [h1] at h; simp at h
      | some i1 =>
        rw [h1] at h
        have hv : v = g n := hg (n, v) List.mem_cons_self
        rw [ih (fun q hq => hg q (List.mem_cons_of_mem _ hq)) h, read_initStore hd h1]
        by_cases hmr : m ∈ r.map (·.1) ∧ misplaced s m = false
        · simp [hmr]
        · by_cases hmn : m = n
          · subst hmn
            by_cases hmis : misplaced s m = false
            · have : ¬ m ∈ r.map (·.1) := fun hx => hmr ⟨hx, hmis⟩
              simp [hmis, hv] at this ⊢
            · simp [hmis]
          · have : ¬ (m ∈ r.map (·.1) ∧ misplaced s m = false) := hmr
            simp only [List.map_cons, List.mem_cons, hmn, false_or, false_and, if_false]

theorem initStore_some {s : Summary} (hd : s.hasDict = true) (i : Inst) (n : String) (v : Val) :
    ∃ i', initStore s i n v = some i' := by
  unfold initStore
  split
  · exact ⟨_, rfl⟩
  · exact osetattr_some_of_writable (by unfold writable Summary.layout; simp [hd]) i v

theorem setMany_initStore_some {s : Summary} (hd : s.hasDict = true) (st : List (String × Val)) (i : Inst) :
    ∃ i', setMany (initStore s) i st = some i' := by
  induction st generalizing i with
  | nil => exact ⟨i, rfl⟩
  | cons p r ih =>
    cases p with
    | mk n v =>
      obtain ⟨i1, h1⟩ := initStore_some hd i n v
      obtain ⟨i2, h2⟩ := ih i1
      exact ⟨i2, by simp only [setMany, h1]; exact h2⟩

def initNames (s : Summary) : List String := (s.attrs.filter (·.1.init)).map (·.1.name)
def uninitNames (s : Summary) : List String := (s.attrs.filter (!·.1.init)).map (·.1.name)

theorem valOf_keys (tokOf : String → String) (fs : List (Field × Bool)) :
    (fs.map (valOf tokOf)).map (·.1) = fs.map (·.1.name) := by
  rw [List.map_map]; rfl

theorem valOf_fun (tokOf : String → String) (fs : List (Field × Bool)) :
    ∀ p ∈ fs.map (valOf tokOf), p.2 = (fun n => Val.tok (tokOf n)) p.1 := by
  intro p hp
  obtain ⟨f, _, hf⟩ := List.mem_map.1 hp
  subst hf; rfl

/-- **the generated `__init__` of a non-caching class**, for arbitrary field lists: afterwards attribute lookup
    finds exactly the init fields that were not misplaced (K3) and, if they were assigned, the init=False ones -/
theorem construct_read {s : Summary} (hd : s.hasDict = true) (hlc : s.lastCache = false) (tokOf : String → String)
    (au : Bool) : ∃ i, construct s tokOf au = some i ∧ ∀ m, read s.layout i m =
      if m ∈ uninitNames s ∧ au = true then some (.tok (tokOf m))
      else if m ∈ initNames s ∧ misplaced s m = false then some (.tok (tokOf m)) else none := by
  obtain ⟨i1, h1⟩ := setMany_initStore_some hd ((s.attrs.filter (·.1.init)).map (valOf tokOf)) Inst.empty
  have r1 := read_setMany_initStore hd (fun n => Val.tok (tokOf n)) _ (valOf_fun tokOf _) h1
  have hc : initCache s i1 = some i1 := by unfold initCache; simp [hlc]
  unfold construct
  rw [h1]
  simp only [hc]
  cases au with
  | false =>
    refine ⟨i1, by simp, ?_⟩
    intro m
    unfold initNames uninitNames
    rw [r1 m, valOf_keys, read_empty]
    have : ¬ (m ∈ (s.attrs.filter (!·.1.init)).map (·.1.name) ∧ false = true) := fun h => by cases h.2
    rw [if_neg this]
  | true =>
    have hw : ∀ p ∈ (s.attrs.filter (!·.1.init)).map (valOf tokOf), writable s.layout p.1 = true := by
      intro p _; unfold writable Summary.layout; simp [hd]
    obtain ⟨i2, h2⟩ := setMany_some _ hw i1
    refine ⟨i2, by simpa using h2, ?_⟩
    intro m
    unfold initNames uninitNames
    rw [read_setMany (fun n => Val.tok (tokOf n)) _ (valOf_fun tokOf _) h2, valOf_keys, r1 m, valOf_keys, read_empty]
    by_cases hu : m ∈ (s.attrs.filter (!·.1.init)).map (·.1.name)
    · rw [if_pos hu, if_pos ⟨hu, rfl⟩]
    · have hu' : ¬ (m ∈ (s.attrs.filter (!·.1.init)).map (·.1.name) ∧ true = true) := fun h => hu h.1
      rw [if_neg hu, if_neg hu']

/-! ### nothing of a slot's name lives in `__dict__` (outside K3) -/

def DictOK (s : Summary) (i : Inst) : Prop := ∀ n ∈ s.slotNames, i.dict n = none

theorem dictOK_osetattr {s : Summary} {i i' : Inst} {n : String} {v : Val} (hk : DictOK s i)
    (h : osetattr s.layout i n v = some i') : DictOK s i' := by
  unfold osetattr Summary.layout at h
  intro m hm
  split at h
  · simp only [Option.some.injEq] at h; subst h; exact hk m hm
  · rename_i hn
    split at h
    · simp only [Option.some.injEq] at h; subst h
      have : m ≠ n := fun e => hn (e ▸ hm)
      simp [this, hk m hm]
    · simp at h

theorem dictOK_setMany {s : Summary} (st : List (String × Val)) {i i' : Inst} (hk : DictOK s i)
    (h : setMany (osetattr s.layout) i st = some i') : DictOK s i' := by
  induction st generalizing i with
  | nil => simp only [setMany, Option.some.injEq] at h; subst h; exact hk
  | cons p r ih =>
    cases p with
    | mk n v =>
      simp only [setMany] at h
      cases h1 : osetattr s.layout i n v with
      | none => rw [h1] at h; simp at h
      | some i1 => rw [h1] at h; exact ih (dictOK_osetattr hk h1) h

theorem dictOK_setMany_initStore {s : Summary} (st : List (String × Val)) (hm : ∀ p ∈ st, misplaced s p.1 = false)
    {i i' : Inst} (hk : DictOK s i) (h : setMany (initStore s) i st = some i') : DictOK s i' := by
  induction st generalizing i with
  | nil => simp only [setMany, Option.some.injEq] at h; subst h; exact hk
  | cons p r ih =>
    cases p with
    | mk n v =>
      simp only [setMany] at h
      cases h1 : initStore s i n v with
      | none => rw [h1] at h; simp at h
      | some i1 =>
        rw [h1] at h
        refine ih (fun q hq => hm q (List.mem_cons_of_mem _ hq)) ?_ h
        unfold initStore at h1
        split at h1
        · rename_i hc
          simp only [Option.some.injEq] at h1; subst h1
          have hmis := hm (n, v) List.mem_cons_self
          unfold misplaced at hmis
          rw [hc] at hmis
          have hns : n ∉ s.slotNames := by simpa using hmis
          intro m hms
          have : m ≠ n := fun e => hns (e ▸ hms)
          simp [dictWrite, this, hk m hms]
        · exact dictOK_osetattr hk h1

theorem construct_dictOK {s : Summary} (hlc : s.lastCache = false) {tokOf : String → String} {au : Bool} {i : Inst}
    (hm : ∀ n ∈ initNames s, misplaced s n = false) (h : construct s tokOf au = some i) : DictOK s i := by
  unfold construct at h
  cases h1 : setMany (initStore s) Inst.empty ((s.attrs.filter (·.1.init)).map (valOf tokOf)) with
  | none => rw [h1] at h; simp at h
  | some i1 =>
    rw [h1] at h
    simp only at h
    have k1 : DictOK s i1 := by
      refine dictOK_setMany_initStore _ ?_ (fun n _ => rfl) h1
      intro p hp
      apply hm
      have : p.1 ∈ ((s.attrs.filter (·.1.init)).map (valOf tokOf)).map (·.1) := List.mem_map.2 ⟨p, hp, rfl⟩
      rw [valOf_keys] at this
      exact this
    have hc : initCache s i1 = some i1 := by unfold initCache; simp [hlc]
    rw [hc] at h
    simp only at h
    split at h
    · exact dictOK_setMany _ k1 h
    · simp only [Option.some.injEq] at h; subst h; exact k1

theorem lookup_filterMap (names : List String) (d : String → Option Val) (f : Val → Val) (m : String) :
    lookup m (names.filterMap (fun n => (d n).map (fun v => (n, f v)))) =
      if m ∈ names then (d m).map f else none := by
  induction names with
  | nil => simp [lookup]
  | cons n r ih =>
    simp only [List.filterMap_cons]
    cases hd : d n with
    | none =>
      simp only [Option.map_none]
      rw [ih]
      by_cases hmn : m = n
      · subst hmn; simp [hd]
      · simp [hmn]
    | some v =>
      simp only [Option.map_some, lookup]
      by_cases hnm : n = m
      · subst hnm; simp [hd]
      · have : ¬ m = n := fun e => hnm e.symm
        simp [hnm, this, ih]

theorem nodup_name_inj (l : List (Field × Bool)) (hnd : (l.map (·.1.name)).Nodup) :
    ∀ a ∈ l, ∀ b ∈ l, a.1.name = b.1.name → a = b := by
  induction l with
  | nil => intro a ha; cases ha
  | cons z r ih =>
    intro a ha b hb hab
    simp only [List.map_cons, List.nodup_cons] at hnd
    cases List.mem_cons.1 ha with
    | inl h1 =>
      cases List.mem_cons.1 hb with
      | inl h2 => rw [h1, h2]
      | inr h2 => exact absurd (List.mem_map.2 ⟨b, h2, by rw [← hab, h1]⟩) hnd.1
    | inr h1 =>
      cases List.mem_cons.1 hb with
      | inl h2 => exact absurd (List.mem_map.2 ⟨a, h1, by rw [hab, h2]⟩) hnd.1
      | inr h2 => exact ih hnd.2 a h1 b h2 hab

theorem excInv_of_exc {c : Case} (he : c.exc = true) : ExcInv (summarize (fullChain c)) := by
  unfold fullChain summarize
  rw [he]
  simp only [if_true, List.foldl_cons]
  exact excInv_foldl _ _ excInv_root

theorem fullChain_of_not_exc {c : Case} (he : c.exc = false) : fullChain c = c.chain := by
  unfold fullChain; simp [he]

/-- everything about one exception case outside K10d / K10e -/
theorem exc_run {c : Case} (hwf : wf c = true) (hk : known c = []) (hl : isLegacy c.op = false) (he : c.exc = true) :
    ∃ x f y, model c = observeCopy (summarize (fullChain c)) c x f y ∧
      (∀ n ∈ (summarize (fullChain c)).names,
        read (summarize (fullChain c)).layout y n = some (.tok (cur c n))) ∧
      read (summarize (fullChain c)).layout y CACHE = none := by
  obtain ⟨i0, W⟩ := wf_unpack hwf
  have I := inv_summarize (fullChain c)
  have E : ExcInv (summarize (fullChain c)) := by
    unfold fullChain summarize
    rw [he]
    simp only [if_true, List.foldl_cons]
    exact excInv_foldl _ _ excInv_root
  obtain ⟨_, _, _, _, _, hk10d, hk10e⟩ := known_nil hk hl
  generalize hs : summarize (fullChain c) = s at *
  have hd := E.hasDict
  have hlc := E.noCache W.ok
  have hne : ∀ n ∈ s.names, n ≠ CACHE := fun n hn => mem_names_ne_cache I W.ok hn
  obtain ⟨x, hxe, hx, _⟩ := history_spec I W c.hashedBefore
  obtain ⟨f, hfe, _, _⟩ := history_spec I W false
  -- the original: which fields sit where
  obtain ⟨i0', hi0', r0⟩ := construct_read hd hlc v0 c.assignUnset
  rw [W.cons] at hi0'
  cases hi0'
  have mem_split : ∀ n ∈ s.names, (n ∈ initNames s) ∨ (n ∈ uninitNames s) := by
    intro n hn
    obtain ⟨p, hp, hpn⟩ := List.mem_map.1 hn
    cases hi : p.1.init with
    | true => exact Or.inl (List.mem_map.2 ⟨p, List.mem_filter.2 ⟨hp, by simp [hi]⟩, hpn⟩)
    | false => exact Or.inr (List.mem_map.2 ⟨p, List.mem_filter.2 ⟨hp, by simp [hi]⟩, hpn⟩)
  have disj : ∀ n, n ∈ initNames s → n ∈ uninitNames s → False := by
    intro n h1 h2
    obtain ⟨p, hp, hpn⟩ := List.mem_map.1 h1
    obtain ⟨q, hq, hqn⟩ := List.mem_map.1 h2
    have hpi := (List.mem_filter.1 hp).2
    have hqi := (List.mem_filter.1 hq).2
    have hpq : p = q :=
      nodup_name_inj s.attrs (I.nodup W.ok) p (List.mem_filter.1 hp).1 q (List.mem_filter.1 hq).1 (by rw [hpn, hqn])
    subst hpq
    simp at hpi hqi
    rw [hpi] at hqi; cases hqi
  have notMis : ∀ n ∈ initNames s, misplaced s n = false := by
    intro n hn
    have hns : n ∈ s.names := by
      obtain ⟨p, hp, hpn⟩ := List.mem_map.1 hn
      exact List.mem_map.2 ⟨p, (List.mem_filter.1 hp).1, hpn⟩
    have hset := W.allSet n hns
    rw [r0 n] at hset
    have hnu : ¬ n ∈ uninitNames s := fun h => disj n hn h
    cases hm : misplaced s n with
    | false => rfl
    | true => simp [hnu, hn, hm] at hset
  -- `x.dict` holds exactly the fields that are not slots
  have hdx : DictOK s x := by
    unfold history at hxe
    rw [W.cons] at hxe
    simp only at hxe
    have k0 : DictOK s i0 := construct_dictOK hlc notMis W.cons
    have k1 : DictOK s (if c.hashedBefore = true then (doHash s i0).inst else i0) := by
      have : (doHash s i0).inst = i0 := by unfold doHash; rw [E.noHash]
      rw [this]; simp [k0]
    cases hm : c.mutate with
    | none => rw [hm] at hxe; simp only [Option.some.injEq] at hxe; subst hxe; exact k1
    | some m => rw [hm] at hxe; exact dictOK_osetattr k1 hxe
  have hxd : ∀ n ∈ s.names, (n ∈ s.slotNames → x.dict n = none) ∧
      (n ∉ s.slotNames → x.dict n = some (.tok (cur c n))) := by
    intro n hn
    refine ⟨fun h => hdx n h, fun h => ?_⟩
    have := hx n hn
    unfold read Summary.layout at this
    simpa [h, hd] using this
  -- the rebuilt instance `cls(*args)`
  obtain ⟨y0, hy0, ry0⟩ := construct_read hd hlc (argTok c) false
  -- the state handed to `__setstate__`
  have hlook : ∀ m, lookup m (dictState s c.op x) =
      if m ∈ s.names then (x.dict m).map (transfer c.op) else none :=
    fun m => lookup_filterMap s.names x.dict (transfer c.op) m
  have stFun : ∀ p ∈ dictState s c.op x, p.2 = (fun k => transfer c.op ((x.dict k).getD .none)) p.1 := by
    intro p hp
    obtain ⟨n, _, hnp⟩ := List.mem_filterMap.1 hp
    cases hdn : x.dict n with
    | none => simp [hdn] at hnp
    | some v => simp only [hdn, Option.map_some, Option.some.injEq] at hnp; subst hnp; simp [hdn]
  have stKeys : ∀ m, m ∈ (dictState s c.op x).map (·.1) ↔ (m ∈ s.names ∧ (x.dict m).isSome = true) := by
    intro m
    constructor
    · intro h
      obtain ⟨p, hp, hpm⟩ := List.mem_map.1 h
      obtain ⟨n, hn, hnp⟩ := List.mem_filterMap.1 hp
      cases hdn : x.dict n with
      | none => simp [hdn] at hnp
      | some v =>
        simp only [hdn, Option.map_some, Option.some.injEq] at hnp
        subst hnp; simp only at hpm; subst hpm
        exact ⟨hn, by simp [hdn]⟩
    · intro ⟨hn, hsome⟩
      obtain ⟨v, hv⟩ := Option.isSome_iff_exists.1 hsome
      exact List.mem_map.2 ⟨(m, transfer c.op v), List.mem_filterMap.2 ⟨m, hn, by simp [hv]⟩, rfl⟩
  -- the final reads, given that `__setstate__` behaved as a sequence of raw writes of the state
  have final : ∀ y, (∀ m, read s.layout y m =
        if m ∈ s.names ∧ (x.dict m).isSome = true then (x.dict m).map (transfer c.op) else read s.layout y0 m) →
      (∀ n ∈ s.names, read s.layout y n = some (.tok (cur c n))) ∧ read s.layout y CACHE = none := by
    intro y hy
    constructor
    · intro n hn
      rw [hy n]
      by_cases hsl : n ∈ s.slotNames
      · have := (hxd n hn).1 hsl
        simp only [this, Option.isSome_none, Bool.false_eq_true, and_false, if_false]
        rw [ry0 n]
        -- K10e excluded: a slot field is an init field whose value `args` still has
        have hk' : ∀ p ∈ s.attrs, p.1.name = n →
            p.1.init = true ∧ ¬ (c.mutate = some n ∧ c.mutInPlace = false) := by
          intro p hp hpn
          unfold k10e at hk10e
          rw [he] at hk10e
          simp only [Bool.true_and, List.any_eq_false, Bool.and_eq_true, decide_eq_true_eq, Bool.or_eq_true,
            Bool.not_eq_true', beq_iff_eq, not_and, not_or] at hk10e
          have := hk10e p hp (by rw [hpn]; exact hsl)
          rw [hpn] at this
          refine ⟨by simpa using this.1, ?_⟩
          intro ⟨h1, h2⟩
          exact this.2 h1 (by simpa using h2)
        obtain ⟨p, hp, hpn⟩ := List.mem_map.1 hn
        obtain ⟨hinit, hmut⟩ := hk' p hp hpn
        have hin : n ∈ initNames s := List.mem_map.2 ⟨p, List.mem_filter.2 ⟨hp, by simp [hinit]⟩, hpn⟩
        have : argTok c n = cur c n := by
          unfold argTok cur
          by_cases hm : c.mutate = some n
          · cases hip : c.mutInPlace with
            | true => simp [hm]
            | false => exact absurd ⟨hm, hip⟩ hmut
          · simp [hm]
        simp [hin, notMis n hin, this]
      · have := (hxd n hn).2 hsl
        simp [this, hn, transfer_tok]
    · rw [hy CACHE]
      have hcn : CACHE ∉ s.names := fun h => hne _ h rfl
      simp only [hcn, false_and, if_false]
      rw [ry0 CACHE]
      have h1 : CACHE ∉ uninitNames s := fun h => by
        obtain ⟨p, hp, hpn⟩ := List.mem_map.1 h
        exact hcn (List.mem_map.2 ⟨p, (List.mem_filter.1 hp).1, hpn⟩)
      have h2 : CACHE ∉ initNames s := fun h => by
        obtain ⟨p, hp, hpn⟩ := List.mem_map.1 h
        exact hcn (List.mem_map.2 ⟨p, (List.mem_filter.1 hp).1, hpn⟩)
      simp [h1, h2]
  have hw : ∀ n, writable s.layout n = true := fun n => by unfold writable Summary.layout; simp [hd]
  -- run the model
  have hrt : ∃ y, excRoundtrip s c x = .ok y ∧
      (∀ n ∈ s.names, read s.layout y n = some (.tok (cur c n))) ∧ read s.layout y CACHE = none := by
    unfold excRoundtrip
    rw [hy0]
    simp only
    cases hg : s.gs with
    | user =>
      have := I.optUser.2 hg
      rw [(W.excOk he).1] at this; cases this
    | gen names cache own =>
      simp only
      -- the pair is the class's own: it knows every field, and the class does not cache
      have hown : own = true := by
        cases own with
        | true => rfl
        | false =>
          have := I.optUser.1 (I.gsInherited W.lastAttrs _ _ hg)
          rw [(W.excOk he).1] at this; cases this
      subst hown
      obtain ⟨hnames, hcache⟩ := I.gsOwn _ _ hg
      rw [hlc] at hcache
      subst hcache; subst hnames
      obtain ⟨y, hy⟩ := setstateGen_some y0 s.names false (dictState s c.op x) (fun n _ _ => hw n) (fun h => by cases h)
      rw [hy]
      refine ⟨y, rfl, final y ?_⟩
      intro m
      rw [setstateGen_read hy m (Or.inr rfl), hlook m]
      by_cases hm : m ∈ s.names
      · cases hdm : x.dict m <;> simp [hm, hdm]
      · simp [hm]
    | dflt =>
      simp only
      have hfro : (s.frozen && !(dictState s c.op x).isEmpty) = false := by
        unfold k10d at hk10d
        rw [he, hg, hxe] at hk10d
        simpa using hk10d
      rw [hfro]
      simp only [Bool.false_eq_true, if_false]
      obtain ⟨y, hy⟩ := setMany_some (L := s.layout) (dictState s c.op x) (fun p _ => hw p.1) y0
      rw [hy]
      refine ⟨y, rfl, final y ?_⟩
      intro m
      rw [read_setMany (fun k => transfer c.op ((x.dict k).getD .none)) _ stFun hy m]
      by_cases hm : m ∈ (dictState s c.op x).map (·.1)
      · have := (stKeys m).1 hm
        obtain ⟨v, hv⟩ := Option.isSome_iff_exists.1 this.2
        simp [hm, this.1, hv]
      · have : ¬ (m ∈ s.names ∧ (x.dict m).isSome = true) := fun h => hm ((stKeys m).2 h)
        simp [hm, this]
  obtain ⟨y, hy, hfields, hcache⟩ := hrt
  refine ⟨x, f, y, ?_, hfields, hcache⟩
  unfold model
  rw [hs]
  simp only [hxe, hfe, he, if_true]
  cases hop : c.op with
  | legacy len => rw [hop] at hl; simp [isLegacy] at hl
  | copy => simp only [hy]
  | deepcopy => simp only [hy]
  | pickle p => simp only [hy]

end Attrs.C10
