/-
  C13 — basic lemmas: the `Except` plumbing (`consE`, `pairE`), lengths, `realise` on untouched values.
-/
import AttrsModel.Spec.C13

namespace Attrs.C13

@[simp] theorem consE_ok_ok {α : Type} (x : α) (xs : List α) :
    consE (.ok x : Except String α) (.ok xs) = .ok (x :: xs) := rfl
@[simp] theorem consE_error {α : Type} (e : String) (r : Except String (List α)) :
    consE (.error e : Except String α) r = .error e := rfl
@[simp] theorem consE_ok_error {α : Type} (x : α) (e : String) :
    consE (.ok x : Except String α) (.error e : Except String (List α)) = .error e := rfl
@[simp] theorem pairE_ok_ok {α β : Type} (x : α) (y : β) :
    pairE (.ok x : Except String α) (.ok y : Except String β) = .ok (x, y) := rfl
@[simp] theorem pairE_error {α β : Type} (e : String) (r : Except String β) :
    pairE (.error e : Except String α) r = .error e := rfl
@[simp] theorem pairE_ok_error {α β : Type} (x : α) (e : String) :
    pairE (.ok x : Except String α) (.error e : Except String β) = .error e := rfl
@[simp] theorem bind_ok' {α β : Type} (x : α) (f : α → Except String β) :
    (Except.ok x : Except String α).bind f = f x := rfl
@[simp] theorem bind_error' {α β : Type} (e : String) (f : α → Except String β) :
    (Except.error e : Except String α).bind f = .error e := rfl
@[simp] theorem map_ok' {α β : Type} (x : α) (f : α → β) :
    (Except.ok x : Except String α).map f = .ok (f x) := rfl
@[simp] theorem map_error' {α β : Type} (e : String) (f : α → β) :
    (Except.error e : Except String α).map f = .error e := rfl

theorem consE_eq_ok {α : Type} {a : Except String α} {r : Except String (List α)} {l : List α}
    (h : consE a r = .ok l) : ∃ x xs, a = .ok x ∧ r = .ok xs ∧ l = x :: xs := by
  cases a with
  | error e => simp at h
  | ok x => cases r with
    | error e => simp at h
    | ok xs => simp at h; exact ⟨x, xs, rfl, rfl, h.symm⟩

theorem pairE_eq_ok {α β : Type} {a : Except String α} {b : Except String β} {p : α × β}
    (h : pairE a b = .ok p) : a = .ok p.1 ∧ b = .ok p.2 := by
  cases a with
  | error e => simp at h
  | ok x => cases b with
    | error e => simp at h
    | ok y => simp at h; subst h; exact ⟨rfl, rfl⟩

theorem map_eq_ok {α β : Type} {a : Except String α} {f : α → β} {y : β}
    (h : a.map f = .ok y) : ∃ x, a = .ok x ∧ y = f x := by
  cases a with
  | error e => simp at h
  | ok x => simp at h; exact ⟨x, rfl, h.symm⟩

theorem bind_eq_ok {α β : Type} {a : Except String α} {f : α → Except String β} {y : β}
    (h : a.bind f = .ok y) : ∃ x, a = .ok x ∧ f x = .ok y := by
  cases a with
  | error e => simp at h
  | ok x => exact ⟨x, rfl, h⟩

/-! lengths -/

theorem realiseL_length : ∀ (xs : List Out) (ys : List Out), realiseL xs = .ok ys → ys.length = xs.length
  | [], ys, h => by simp [realiseL] at h; subst h; rfl
  | x :: r, ys, h => by
    simp only [realiseL] at h
    obtain ⟨y, ys', _, h2, h3⟩ := consE_eq_ok h
    subst h3
    simp [realiseL_length r ys' h2]

theorem shapeDItems_length (o : Opts) (ctx : Ctx) : ∀ xs : List PVal, (shapeDItems o ctx xs).length = xs.length
  | [] => by simp [shapeDItems]
  | x :: r => by simp [shapeDItems, shapeDItems_length o ctx r]

theorem shapeTMembers_length (o : Opts) : ∀ xs : List PVal, (shapeTMembers o xs).length = xs.length
  | [] => by simp [shapeTMembers]
  | x :: r => by simp [shapeTMembers, shapeTMembers_length o r]

/-! `realise` leaves untouched values alone -/

theorem realise_embed (v : PVal) : realise (embed v) = .ok (embed v) := by
  cases v with
  | atom a => simp [embed, realise]
  | inst c h fs => simp [embed, realise]
  | coll k xs =>
    cases k <;> cases xs <;> simp [embed, realise, realiseL, pyColl]
  | dict k ps => simp [embed, realise]

theorem realise_serAt (m : SerMode) (ctx : Ctx) (v : PVal) :
    realise (serAt m ctx (embed v)) = .ok (serAt m ctx (embed v)) := by
  cases m <;> cases ctx <;> simp [serAt, realise, realise_embed]

/-- `_make_collection` builds what it should, for every collection class -/
theorem codeColl_eq_pyColl (k : CKind) (ys : List Out) : codeColl k ys = pyColl k ys := by
  cases k <;> simp [codeColl, pyColl]

end Attrs.C13
