/-
  C07 — single-inheritance chains: the legacy collector and the MRO collector agree.
  `Tup O ms` is the tuple of the first class of the chain `ms` when every class inherits everything from the
  tuple of its base except what it re-declares (`O b` = the class's own, non-inherited fields).
-/
import AttrsModel.Proofs.C07Props

namespace Attrs.C07

section Chain
variable (O : Nat → List Attr)

def Tup : List Nat → List Attr
  | [] => []
  | b :: rest => ((Tup rest).filter (fun a => !(names (O b)).contains a.name)).map inherit ++ O b

/-- the table holds, for every class of the chain, the tuple a chain produces -/
def ChainOk (M : Mros) (tbl : Table) : List Nat → Prop
  | [] => True
  | b :: rest => (getattrAttrs M tbl b = Tup O (b :: rest) ∧ ownTuple tbl b = Tup O (b :: rest)) ∧
      (∀ a ∈ O b, a.inherited = false) ∧ (names (O b)).Nodup ∧ ChainOk M tbl rest

variable {O}

theorem Tup_nodup {M : Mros} {tbl : Table} (ms : List Nat) (h : ChainOk O M tbl ms) : (names (Tup O ms)).Nodup := by
  induction ms with
  | nil => simp [Tup]
  | cons b rest ih =>
    obtain ⟨_, _, hn, hr⟩ := h
    simp only [Tup, names_append, names_map_inherit]
    rw [List.nodup_append]
    refine ⟨List.Nodup.sublist (List.Sublist.map _ List.filter_sublist) (ih hr), hn, ?_⟩
    intro n hn1 n' hn2 he
    subst he
    obtain ⟨a, ha, rfl⟩ := mem_names.1 hn1
    have := (List.mem_filter.1 ha).2
    simp at this
    exact this hn2

theorem Tup_names_mono (b : Nat) (rest : List Nat) : ∀ n ∈ names (Tup O rest), n ∈ names (Tup O (b :: rest)) := by
  intro n hn
  simp only [Tup, names_append, names_map_inherit, List.mem_append]
  by_cases h : n ∈ names (O b)
  · exact Or.inr h
  · left
    obtain ⟨a, ha, rfl⟩ := mem_names.1 hn
    exact mem_names.2 ⟨a, List.mem_filter.2 ⟨ha, by simpa using h⟩, rfl⟩

theorem inherit_inherit (a : Attr) : inherit (inherit a) = inherit a := rfl

/-- what one class of a chain exposes to the MRO collector: its own block -/
theorem expose_chain {M : Mros} {tbl : Table} (taken : List String) (b : Nat) (rest : List Nat)
    (h : ChainOk O M tbl (b :: rest)) :
    expose M tbl taken b = ((O b).filter (fun a => !taken.contains a.name)).map inherit := by
  obtain ⟨⟨_, hT⟩, hO, _, _⟩ := h
  simp only [expose, hT, Tup, List.filter_append]
  have h1 : (((Tup O rest).filter (fun a => !(names (O b)).contains a.name)).map inherit).filter
      (fun a => !(a.inherited || taken.contains a.name)) = [] := by
    rw [List.filter_eq_nil_iff]
    intro a ha
    obtain ⟨x, _, rfl⟩ := List.mem_map.1 ha
    simp
  have h2 : (O b).filter (fun a => !(a.inherited || taken.contains a.name)) =
      (O b).filter (fun a => !taken.contains a.name) := by
    apply List.filter_congr
    intro a ha
    simp [hO a ha]
  rw [h1, h2]; rfl

theorem collectMro_chain {M : Mros} {tbl : Table} (taken : List String) (ms : List Nat) (h : ChainOk O M tbl ms) :
    collectMro M tbl taken ms = ((Tup O ms).filter (fun a => !taken.contains a.name)).map inherit := by
  rw [collectMro, mroGather, keepLast_flatMap_reverse]
  induction ms with
  | nil => rfl
  | cons b rest ih =>
    have hE := expose_chain taken b rest h
    obtain ⟨_, _, hn, hr⟩ := h
    have hEn : (names (expose M tbl taken b)).Nodup := by
      rw [hE, names_map_inherit]
      exact List.Nodup.sublist (List.Sublist.map _ List.filter_sublist) hn
    simp only [Rr, ih hr, keepLast_of_nodup hEn, Tup, List.filter_append, List.map_append]
    congr 1
    · rw [hE, List.filter_map, List.filter_map, List.map_map, List.filter_filter, List.filter_filter]
      have : (inherit ∘ inherit) = inherit := by funext a; rfl
      rw [this]
      congr 1
      apply List.filter_congr
      intro a _
      simp only [Function.comp_def, inherit_name, names_map_inherit]
      rw [Bool.eq_iff_iff]
      simp only [Bool.and_eq_true, Bool.not_eq_true', List.contains_eq_mem, decide_eq_false_iff_not]
      constructor
      · rintro ⟨h1, h2⟩
        refine ⟨h2, ?_⟩
        intro hm; apply h1
        obtain ⟨x, hx, he⟩ := mem_names.1 hm
        exact mem_names.2 ⟨x, List.mem_filter.2 ⟨hx, by rw [he]; simpa using h2⟩, he⟩
      · rintro ⟨h1, h2⟩
        refine ⟨?_, h1⟩
        intro hm; apply h2
        obtain ⟨x, hx, he⟩ := mem_names.1 hm
        exact mem_names.2 ⟨x, (List.mem_filter.1 hx).1, he⟩

/-! #### the legacy walk -/

theorem legacyInner_nodup (l : List Attr) (hl : (names l).Nodup) (taken : List String) (acc : List Attr) :
    (legacyInner l taken acc).1 = acc ++ (l.filter (fun a => !taken.contains a.name)).map inherit ∧
    ∀ n, n ∈ (legacyInner l taken acc).2 ↔ (n ∈ taken ∨ n ∈ names l) := by
  induction l generalizing taken acc with
  | nil => simp [legacyInner]
  | cons x l ih =>
    rw [names_cons, List.nodup_cons] at hl
    simp only [legacyInner]
    by_cases hx : taken.contains x.name = true
    · obtain ⟨h1, h2⟩ := ih hl.2 taken acc
      simp only [hx, if_true, h1, List.filter_cons, Bool.not_true, Bool.false_eq_true, if_false, true_and]
      intro n
      rw [h2 n, names_cons, List.mem_cons]
      have hx' : x.name ∈ taken := by simpa using hx
      constructor
      · rintro (h | h); exact Or.inl h; exact Or.inr (Or.inr h)
      · rintro (h | rfl | h); exact Or.inl h; exact Or.inl hx'; exact Or.inr h
    · obtain ⟨h1, h2⟩ := ih hl.2 (x.name :: taken) (acc ++ [inherit x])
      have hx' : taken.contains x.name = false := by simpa using hx
      simp only [hx, h1, List.filter_cons, hx', Bool.not_false, if_true, List.map_cons, Bool.false_eq_true, if_false]
      constructor
      · rw [List.append_assoc]
        congr 2
        simp only [List.singleton_append, List.cons.injEq, true_and]
        congr 1
        apply List.filter_congr
        intro a ha
        have : a.name ≠ x.name := by
          intro he; exact hl.1 (he ▸ mem_names.2 ⟨a, ha, rfl⟩)
        simp [List.contains_cons, this]
      · intro n
        rw [h2 n, names_cons, List.mem_cons, List.mem_cons]
        constructor
        · rintro ((rfl | h) | h); exact Or.inr (Or.inl rfl); exact Or.inl h; exact Or.inr (Or.inr h)
        · rintro (h | rfl | h); exact Or.inl (Or.inr h); exact Or.inl (Or.inl rfl); exact Or.inr h

theorem legacyInner_skip (l : List Attr) (taken : List String) (acc : List Attr)
    (h : ∀ a ∈ l, a.name ∈ taken) : legacyInner l taken acc = (acc, taken) := by
  induction l with
  | nil => rfl
  | cons x l ih =>
    have hx : taken.contains x.name = true := by simpa using h x List.mem_cons_self
    simp only [legacyInner, hx, if_true]
    exact ih (fun a ha => h a (List.mem_cons_of_mem _ ha))

theorem legacyOuter_skip {M : Mros} {tbl : Table} (ms : List Nat) (taken : List String) (acc : List Attr)
    (h : ChainOk O M tbl ms) (hall : ∀ n ∈ names (Tup O ms), n ∈ taken) :
    legacyOuter M tbl ms taken acc = acc := by
  induction ms with
  | nil => rfl
  | cons b rest ih =>
    obtain ⟨⟨hT, _⟩, _, _, hr⟩ := h
    simp only [legacyOuter]
    rw [legacyInner_skip _ _ _ (by
      intro a ha; rw [hT] at ha; exact hall _ (mem_names.2 ⟨a, ha, rfl⟩))]
    exact ih hr (fun n hn => hall n (Tup_names_mono b rest n hn))

theorem collectLegacy_chain {M : Mros} {tbl : Table} (taken : List String) (ms : List Nat) (h : ChainOk O M tbl ms) :
    collectLegacy M tbl taken ms = ((Tup O ms).filter (fun a => !taken.contains a.name)).map inherit := by
  cases ms with
  | nil => rfl
  | cons b rest =>
    have hnd := Tup_nodup (b :: rest) h
    obtain ⟨⟨hT, _⟩, _, _, hr⟩ := h
    simp only [collectLegacy, legacyOuter, hT]
    obtain ⟨h1, h2⟩ := legacyInner_nodup (Tup O (b :: rest)) hnd taken []
    rw [legacyOuter_skip rest _ _ hr (fun n hn => (h2 n).2 (Or.inr (Tup_names_mono b rest n hn))), h1]
    rfl

end Chain

end Attrs.C07
