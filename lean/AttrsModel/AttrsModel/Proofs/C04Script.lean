/-
  C04, T3 — lemmas: the generated operand tuple evaluates to the model's hash inputs (arbitrary field lists).
-/
import AttrsModel.Model.C04IR
import AttrsModel.Proofs.C04Run

namespace Attrs.C04.IR
open Attrs.C04

theorem evalOperands_gen (c : Case) (salt : Nat) :
    ∀ (fs : List Field) (k : Nat) (vals : List Nat), fs.length + k ≤ vals.length →
      evalOperands c salt vals (genOperands k fs) = .ok ((partVals c.key fs (vals.drop k)).map c.vh) := by
  intro fs
  induction fs with
  | nil => intro k vals _; simp [genOperands, evalOperands, partVals]
  | cons f fs ih =>
    intro k vals hl
    have hk : k < vals.length := by simp at hl; omega
    have hd : vals.drop k = vals[k] :: vals.drop (k + 1) := List.drop_eq_getElem_cons hk
    have hih := ih (k + 1) vals (by simp at hl ⊢; omega)
    have hget : vals[k]? = some vals[k] := List.getElem?_eq_getElem hk
    unfold genOperands
    rw [hd]
    by_cases hp : hashPart f = true
    · by_cases hkey : (f.eq == EqArg.key) = true
      · simp [hp, hkey, evalOperands, evalOperand, hget, hih, partVals, keyed]
      · simp [hp, hkey, evalOperands, evalOperand, hget, hih, partVals, keyed]
    · simp [hp, hih, partVals]

/-- the generated tuple evaluates to the model's hash inputs -/
theorem evalOperands_genHash (c : Case) (n : Node) (vals : List Nat) (hl : n.fields.length ≤ vals.length) :
    evalOperands c (n.k + 2) vals (Operand.salt :: genOperands 0 n.fields) = .ok (fresh c n vals) := by
  have := evalOperands_gen c (n.k + 2) n.fields 0 vals (by simpa using hl)
  simp only [List.drop_zero] at this
  simp [evalOperands, evalOperand, this, fresh, hashInputs]

end Attrs.C04.IR
