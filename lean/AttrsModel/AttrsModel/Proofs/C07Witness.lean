/-
  C07 — concrete cases used by the witness theorems and non-vacuity examples.
-/
import AttrsModel.Proofs.C07ChainModel

namespace Attrs.C07

def o0 (tag : Nat) : FOpts := { hasDefault := false, init := true, kwOnly := false, alias := none, tag := some tag }

def ibI (n : String) (ctr tag : Nat) : Item :=
  { name := n, ann := none, annTag := none, val := .ib ctr, opts := o0 tag }

def mkCls (kind : Kind) (mro : List Nat) (items : List Item) (byMro : Bool) : Cls :=
  { kind := kind, mro := mro, items := items, these := none,
    autoAttribs := (match kind with | .define => none | _ => some false), collectByMro := byMro, kwOnly := false, tr := .none }

/-- #428: A(x) ← B(), A ← C(x), D(B, C) with the legacy collector -/
def witnessK7 : Case :=
  { classes := [mkCls .attrS [0] [ibI "x" 1 0] true, mkCls .attrS [1, 0] [] true,
                mkCls .attrS [2, 0] [ibI "x" 1 2] true, mkCls .attrS [3, 1, 2, 0] [] false],
    abs := none, twins := [], probes := ["x"] }

/-- the same hierarchy collected by MRO: no deviation -/
def diamondMro : Case :=
  { witnessK7 with classes := [mkCls .attrS [0] [ibI "x" 1 0] true, mkCls .attrS [1, 0] [] true,
                mkCls .attrS [2, 0] [ibI "x" 1 2] true, mkCls .attrS [3, 1, 2, 0] [] true] }

/-- A(x) ← P plain, A ← B(y), D(P, B) under define -/
def witnessK07a : Case :=
  { classes := [mkCls .attrS [0] [ibI "x" 1 0] true, mkCls .plain [1, 0] [] false,
                mkCls .attrS [2, 0] [ibI "y" 1 2] true, mkCls .define [3, 1, 2, 0] [] true],
    abs := none, twins := [], probes := ["x", "y"] }

/-- a chain A(x, y) ← P plain ← C(y) legacy: plain intermediate class, shadowing, no deviation -/
def chainCase : Case :=
  { classes := [mkCls .attrS [0] [ibI "x" 1 0, ibI "y" 2 0] false, mkCls .plain [1, 0] [] false,
                mkCls .attrS [2, 1, 0] [ibI "y" 1 2] false],
    abs := none, twins := [], probes := ["x", "y", "q"] }

/-- A(x) ← B(y) legacy ← C(x) define: a single-inheritance chain -/
def chain3 : List Cls :=
  [mkCls .attrS [0] [ibI "x" 1 0] true, mkCls .attrS [1, 0] [ibI "y" 1 1] false, mkCls .define [2, 1, 0] [ibI "x" 1 2] true]

end Attrs.C07
