/-
  C13 — structural facts about the model's output for arbitrary trees: keys, which kinds of node can occur
  (no instances left, every scalar serialized, no serializer node without serializer), positional astuple.
-/
import AttrsModel.Proofs.C13Basic

namespace Attrs.C13

/-! ### keys -/

def passing (flt : Filter) (fs : List (FI × PVal)) : List (FI × PVal) :=
  fs.filter (fun p => passes flt p.1 p.2)

theorem fieldsD_keys (o : Opts) (c : Nat) : ∀ (fs : List (FI × PVal)) (items : List (String × Out)),
    fieldsD o c fs = .ok items → items.map (·.1) = (passing o.filter fs).map (·.1.name)
  | [], items, h => by simp [fieldsD] at h; subst h; simp [passing]
  | (f, v) :: r, items, h => by
    by_cases hp : passes o.filter f v = true
    · simp only [fieldsD, hp, if_true] at h
      obtain ⟨x, xs, h1, h2, h3⟩ := consE_eq_ok h
      obtain ⟨y, _, hy⟩ := map_eq_ok h1
      subst h3 hy
      have ih := fieldsD_keys o c r xs h2
      simp only [passing] at ih
      simp [passing, hp, ih]
    · simp [fieldsD, hp] at h
      have ih := fieldsD_keys o c r items h
      simp only [passing] at ih
      simp [passing, hp, ih]

theorem flatD_keys (o : Opts) (c : Nat) : ∀ (fs : List (FI × PVal)),
    (flatD o c fs).map (·.1) = (passing o.filter fs).map (·.1.name)
  | [] => by simp [flatD, passing]
  | (f, v) :: r => by
    have ih := flatD_keys o c r
    by_cases hp : passes o.filter f v = true <;> simp_all [flatD, passing]

theorem flatD_off (o : Opts) (c : Nat) (hs : o.ser = .off) : ∀ (fs : List (FI × PVal)),
    flatD o c fs = (passing o.filter fs).map (fun p => (p.1.name, embed p.2))
  | [] => by simp [flatD, passing]
  | (f, v) :: r => by
    have ih := flatD_off o c hs r
    by_cases hp : passes o.filter f v = true <;> simp_all [flatD, passing, serFlat]

theorem flatT_eq (flt : Filter) : ∀ (fs : List (FI × PVal)),
    flatT flt fs = (passing flt fs).map (fun p => embed p.2)
  | [] => by simp [flatT, passing]
  | (f, v) :: r => by
    have ih := flatT_eq flt r
    by_cases hp : passes flt f v = true <;> simp_all [flatT, passing]

/-! ### every object of an embedded value is the very same object (but the empty tuple) -/

mutual
def untouched : Out → Bool
  | .atom _ => true
  | .inst s _ _ fs => s && untouchedF fs
  | .ser _ _ _ => false
  | .coll s k xs => (s || (k == .tuple && xs.isEmpty)) && untouchedL xs
  | .dict s _ ps => s && untouchedP ps
  | .record _ _ => false
def untouchedF : List (FI × Out) → Bool
  | [] => true
  | (_, v) :: r => untouched v && untouchedF r
def untouchedL : List Out → Bool
  | [] => true
  | v :: r => untouched v && untouchedL r
def untouchedP : List (Out × Out) → Bool
  | [] => true
  | (k, v) :: r => untouched k && untouched v && untouchedP r
end

mutual
theorem untouched_embed : ∀ v : PVal, untouched (embed v) = true
  | .atom a => by simp [embed, untouched]
  | .inst c h fs => by simp [embed, untouched, untouchedF_embedF fs]
  | .coll k xs => by
    cases k <;> cases xs <;> simp [embed, untouched, untouchedL, untouchedL_embedL]
  | .dict k ps => by simp [embed, untouched, untouchedP_embedP ps]
theorem untouchedF_embedF : ∀ fs : List (FI × PVal), untouchedF (embedF fs) = true
  | [] => by simp [embedF, untouchedF]
  | (f, v) :: r => by simp [embedF, untouchedF, untouched_embed v, untouchedF_embedF r]
theorem untouchedL_embedL : ∀ xs : List PVal, untouchedL (embedL xs) = true
  | [] => by simp [embedL, untouchedL]
  | v :: r => by simp [embedL, untouchedL, untouched_embed v, untouchedL_embedL r]
theorem untouchedP_embedP : ∀ ps : List (PVal × PVal), untouchedP (embedP ps) = true
  | [] => by simp [embedP, untouchedP]
  | (k, v) :: r => by simp [embedP, untouchedP, untouched_embed k, untouched_embed v, untouchedP_embedP r]
end

/-! ### which nodes occur in a result (not looking into serializer results) -/

/-- no bare scalar — int / str / None — (`banAtom`) / attrs instance (`banInst`) / serializer result (`banSer`) occurs in the value,
    serializer results not being looked into -/
structure Ban where
  atom : Bool
  inst : Bool
  ser : Bool

mutual
def clean (b : Ban) : Out → Bool
  | .atom a => !(b.atom && a.isScalar)
  | .inst _ _ _ _ => !b.inst
  | .ser _ _ _ => !b.ser
  | .coll _ _ xs => cleanL b xs
  | .dict _ _ ps => cleanP b ps
  | .record _ ps => cleanR b ps
def cleanL (b : Ban) : List Out → Bool
  | [] => true
  | v :: r => clean b v && cleanL b r
def cleanP (b : Ban) : List (Out × Out) → Bool
  | [] => true
  | (k, v) :: r => clean b k && clean b v && cleanP b r
def cleanR (b : Ban) : List (String × Out) → Bool
  | [] => true
  | (_, v) :: r => clean b v && cleanR b r
end

theorem cleanL_eq_all (b : Ban) : ∀ xs : List Out, cleanL b xs = xs.all (clean b)
  | [] => rfl
  | x :: r => by simp [cleanL, cleanL_eq_all b r]

theorem cleanP_eq_all (b : Ban) : ∀ ps : List (Out × Out),
    cleanP b ps = ps.all (fun p => clean b p.1 && clean b p.2)
  | [] => rfl
  | (k, v) :: r => by simp [cleanP, cleanP_eq_all b r]

theorem dedupe_fold_mem (ys : List Out) : ∀ (acc : List Out) (y : Out),
    y ∈ ys.foldl (fun acc x => if acc.any (fun y => pyEq y x) then acc else acc ++ [x]) acc → y ∈ acc ∨ y ∈ ys := by
  induction ys with
  | nil => intro acc y h; exact Or.inl h
  | cons x r ih =>
    intro acc y h
    simp only [List.foldl_cons] at h
    rcases ih _ y h with h | h
    · split at h
      · exact Or.inl h
      · rcases List.mem_append.1 h with h | h
        · exact Or.inl h
        · simp at h; subst h; exact Or.inr (by simp)
    · exact Or.inr (by simp [h])

theorem dedupe_mem {ys : List Out} {y : Out} (h : y ∈ dedupe ys) : y ∈ ys := by
  rcases dedupe_fold_mem ys [] y h with h | h
  · simp at h
  · exact h

theorem dictInsert_all (P : Out × Out → Prop) (Q : Out → Prop) (hP : ∀ k v, P (k, v) ↔ (Q k ∧ Q v))
    (acc : List (Out × Out)) (kv : Out × Out) (ha : ∀ p ∈ acc, P p) (hk : P kv) :
    ∀ p ∈ dictInsert acc kv, P p := by
  intro p hp
  unfold dictInsert at hp
  split at hp
  · obtain ⟨q, hq, rfl⟩ := List.mem_map.1 hp
    split
    · have h1 := (hP q.1 q.2).1 (ha q hq)
      have h2 := (hP kv.1 kv.2).1 hk
      exact (hP _ _).2 ⟨h1.1, h2.2⟩
    · exact ha q hq
  · rcases List.mem_append.1 hp with h | h
    · exact ha p h
    · simp at h; subst h; exact hk

theorem dictFold_all (P : Out × Out → Prop) (Q : Out → Prop) (hP : ∀ k v, P (k, v) ↔ (Q k ∧ Q v))
    (ps : List (Out × Out)) : ∀ (acc : List (Out × Out)), (∀ p ∈ acc, P p) → (∀ p ∈ ps, P p) →
    ∀ p ∈ ps.foldl dictInsert acc, P p := by
  induction ps with
  | nil => intro acc ha _ p hp; exact ha p hp
  | cons x r ih =>
    intro acc ha hps
    simp only [List.foldl_cons]
    apply ih
    · exact dictInsert_all P Q hP acc x ha (hps x (by simp))
    · intro p hp; exact hps p (by simp [hp])

theorem pyColl_clean (b : Ban) (k : CKind) (ys : List Out) (out : Out) (h : pyColl k ys = .ok out)
    (hy : cleanL b ys = true) : clean b out = true := by
  cases k <;> simp only [pyColl] at h
  · cases h; simpa [clean] using hy
  · cases h; simpa [clean] using hy
  · cases h; simpa [clean] using hy
  all_goals
    split at h
    · cases h
      simp only [clean, cleanL_eq_all, List.all_eq_true] at hy ⊢
      exact fun y hy' => hy y (dedupe_mem hy')
    · cases h

theorem codeColl_clean (b : Ban) (k : CKind) (ys : List Out) (out : Out) (h : codeColl k ys = .ok out)
    (hy : cleanL b ys = true) : clean b out = true :=
  pyColl_clean b k ys out (by rw [← codeColl_eq_pyColl]; exact h) hy

theorem pyDict_clean (b : Ban) (k : DKind) (ps : List (Out × Out)) (out : Out) (h : pyDict k ps = .ok out)
    (hy : cleanP b ps = true) : clean b out = true := by
  unfold pyDict at h
  split at h
  · cases h
    simp only [clean, cleanP_eq_all, List.all_eq_true] at hy ⊢
    intro p hp
    have := dictFold_all (fun p => (clean b p.1 && clean b p.2) = true) (fun x => clean b x = true)
      (by intro k v; simp) ps [] (by simp) hy p hp
    exact this
  · cases h

/-- what the options allow to ban: scalars only if a serializer wraps them, serializer results only if
    there is no serializer -/
def Ban.fits (b : Ban) (o : Opts) : Prop :=
  (b.atom = true → o.ser ≠ .off ∧ o.ser ≠ .subst) ∧ (b.ser = true → o.ser = .off)

mutual
theorem anything_clean (b : Ban) (o : Opts) (hb : b.fits o) : ∀ (v : PVal) (isKey : Bool) (out : Out),
    anything o isKey v = .ok out → clean b out = true
  | .atom a, _, out, h => by
    simp only [anything, Except.ok.injEq] at h
    subst h
    cases hs : o.ser <;> cases hba : b.atom <;> cases hbs : b.ser <;> cases ha : a.isScalar <;>
      simp_all [serLeaf, serApplies, clean, Ban.fits]
  | .inst c hh fs, _, out, h => by
    simp only [anything] at h
    obtain ⟨items, h1, rfl⟩ := map_eq_ok h
    simpa [clean] using fieldsD_clean b o hb c fs items h1
  | .coll k xs, isKey, out, h => by
    simp only [anything] at h
    obtain ⟨ys, h1, h2⟩ := bind_eq_ok h
    exact codeColl_clean b _ ys out h2 (itemsD_clean b o hb xs isKey ys h1)
  | .dict dk ps, _, out, h => by
    simp only [anything] at h
    obtain ⟨qs, h1, h2⟩ := bind_eq_ok h
    exact pyDict_clean b _ qs out h2 (pairsD_clean b o hb ps qs h1)
theorem fieldD_clean (b : Ban) (o : Opts) (hb : b.fits o) (c : Nat) (f : FI) : ∀ (v : PVal) (out : Out),
    fieldD o c f v = .ok out → clean b out = true
  | .atom a, out, h => by
    simp only [fieldD, Except.ok.injEq] at h
    subst h
    cases hs : o.ser <;> cases hba : b.atom <;> cases hbs : b.ser <;> cases ha : a.isScalar <;>
      simp_all [serFieldAtom, serApplies, clean, Ban.fits]
  | .inst c' hh fs, out, h => by
    simp only [fieldD] at h
    split at h
    · cases h
      rename_i hw
      have hw : o.ser = .wrap := by simpa using hw
      cases hbs : b.ser <;> simp_all [clean, Ban.fits]
    · obtain ⟨items, h1, rfl⟩ := map_eq_ok h
      simpa [clean] using fieldsD_clean b o hb c' fs items h1
  | .coll k xs, out, h => by
    simp only [fieldD] at h
    split at h
    · cases h
      rename_i hw
      have hw : o.ser = .wrap := by simpa using hw
      cases hbs : b.ser <;> simp_all [clean, Ban.fits]
    · obtain ⟨ys, h1, h2⟩ := bind_eq_ok h
      exact codeColl_clean b _ ys out h2 (itemsD_clean b o hb xs false ys h1)
  | .dict dk ps, out, h => by
    simp only [fieldD] at h
    split at h
    · cases h
      rename_i hw
      have hw : o.ser = .wrap := by simpa using hw
      cases hbs : b.ser <;> simp_all [clean, Ban.fits]
    · obtain ⟨qs, h1, h2⟩ := bind_eq_ok h
      exact pyDict_clean b _ qs out h2 (pairsD_clean b o hb ps qs h1)
theorem fieldsD_clean (b : Ban) (o : Opts) (hb : b.fits o) (c : Nat) : ∀ (fs : List (FI × PVal))
    (items : List (String × Out)), fieldsD o c fs = .ok items → cleanR b items = true
  | [], items, h => by simp [fieldsD] at h; subst h; rfl
  | (f, v) :: r, items, h => by
    simp only [fieldsD] at h
    split at h
    · obtain ⟨x, xs, h1, h2, rfl⟩ := consE_eq_ok h
      obtain ⟨y, hy, rfl⟩ := map_eq_ok h1
      simp [cleanR, fieldD_clean b o hb c f v y hy, fieldsD_clean b o hb c r xs h2]
    · exact fieldsD_clean b o hb c r items h
theorem itemsD_clean (b : Ban) (o : Opts) (hb : b.fits o) : ∀ (xs : List PVal) (isKey : Bool) (ys : List Out),
    itemsD o isKey xs = .ok ys → cleanL b ys = true
  | [], _, ys, h => by simp [itemsD] at h; subst h; rfl
  | x :: r, isKey, ys, h => by
    simp only [itemsD] at h
    obtain ⟨y, ys', h1, h2, rfl⟩ := consE_eq_ok h
    simp [cleanL, anything_clean b o hb x isKey y h1, itemsD_clean b o hb r isKey ys' h2]
theorem pairsD_clean (b : Ban) (o : Opts) (hb : b.fits o) : ∀ (ps : List (PVal × PVal))
    (qs : List (Out × Out)), pairsD o ps = .ok qs → cleanP b qs = true
  | [], qs, h => by simp [pairsD] at h; subst h; rfl
  | (k, v) :: r, qs, h => by
    simp only [pairsD] at h
    obtain ⟨q, qs', h1, h2, rfl⟩ := consE_eq_ok h
    obtain ⟨hk, hv⟩ := pairE_eq_ok h1
    simp [cleanP, anything_clean b o hb k true q.1 hk, anything_clean b o hb v false q.2 hv,
      pairsD_clean b o hb r qs' h2]
end

/-! ### what the constructors return -/

theorem pyColl_shape {k : CKind} {ys : List Out} {out : Out} (h : pyColl k ys = .ok out) :
    ∃ items, out = .coll false k items := by
  cases k <;> simp only [pyColl] at h
  · cases h; exact ⟨_, rfl⟩
  · cases h; exact ⟨_, rfl⟩
  · cases h; exact ⟨_, rfl⟩
  all_goals (split at h <;> cases h; exact ⟨_, rfl⟩)

theorem codeColl_shape {k : CKind} {ys : List Out} {out : Out} (h : codeColl k ys = .ok out) :
    ∃ items, out = .coll false k items :=
  pyColl_shape (by rw [← codeColl_eq_pyColl]; exact h)

theorem pyDict_shape {k : DKind} {ps : List (Out × Out)} {out : Out} (h : pyDict k ps = .ok out) :
    ∃ items, out = .dict false k items := by
  unfold pyDict at h; split at h <;> cases h; exact ⟨_, rfl⟩

/-! ### astuple is positional -/

def seqE {α : Type} : List (Except String α) → Except String (List α)
  | [] => .ok []
  | a :: r => consE a (seqE r)

theorem tupleOf_positional (o : Opts) (flt : Filter) : ∀ fs : List (FI × PVal),
    tupleOf o flt fs = seqE ((passing flt fs).map (fun p => tfield o flt p.2))
  | [] => by simp [tupleOf, passing, seqE]
  | (f, v) :: r => by
    have ih := tupleOf_positional o flt r
    by_cases hp : passes flt f v = true <;> simp_all [tupleOf, passing, seqE]

theorem seqE_length {α : Type} : ∀ (l : List (Except String α)) (ys : List α), seqE l = .ok ys → ys.length = l.length
  | [], ys, h => by simp [seqE] at h; subst h; rfl
  | a :: r, ys, h => by
    simp only [seqE] at h
    obtain ⟨x, xs, _, h2, rfl⟩ := consE_eq_ok h
    simp [seqE_length r xs h2]

end Attrs.C13
