/-
  C18 — helper lemmas: equal parameters give equal (and hash-equal) built validators.
-/
import AttrsModel.Proofs.C18Norm

namespace Attrs.C18

theorem pand_t {a b : PrimRes} : pand a b = .t ↔ a = .t ∧ b = .t := by
  cases a <;> simp [pand]

def isAnd : V → Bool
  | .and_ _ => true
  | _ => false

theorem andItems_norm_of_not_and (v : V) (hs : source v = true) (h : isAnd v = false) :
    andItems (norm v) = [norm v] := by
  cases v <;> simp_all [norm, andItems, isAnd, source]

theorem orItems_norm_of_not_or (v : V) (h : isOr v = false) : orItems (norm v) = [norm v] := by
  cases v <;> simp_all [norm, orItems, isOr]

theorem veqL_append (eo : EqOracle) : ∀ (A B C D : List V),
    veqL eo true A B = .t → veqL eo true C D = .t → veqL eo true (A ++ C) (B ++ D) = .t
  | [], B, C, D, h1, h2 => by
      cases B with
      | nil => simpa using h2
      | cons b B => simp [veqL, PrimRes.ofBool] at h1
  | a :: A, B, C, D, h1, h2 => by
      cases B with
      | nil => simp [veqL] at h1
      | cons b B =>
        simp only [veqL, Bool.not_true, Bool.false_and, if_false, pand_t, Bool.false_eq_true] at h1
        simp only [List.cons_append, veqL, Bool.not_true, Bool.false_and, if_false, pand_t, Bool.false_eq_true]
        exact ⟨h1.1, veqL_append eo A B C D h1.2 h2⟩

theorem veqL_single (eo : EqOracle) (a b : V) : veqL eo true [a] [b] = veq eo a b := by
  simp [veqL, PrimRes.ofBool]
  cases veq eo a b <;> simp [pand]

theorem sameUpTo_isAnd (eo : EqOracle) (v w : V) (h : sameUpTo eo v w = true) : isAnd v = isAnd w := by
  cases v <;> cases w <;> simp_all [sameUpTo, isAnd]

theorem sameUpTo_isOr (eo : EqOracle) (v w : V) (h : sameUpTo eo v w = true) : isOr v = isOr w := by
  cases v <;> cases w <;> simp_all [sameUpTo, isOr]

theorem veqL_andItems (eo : EqOracle) (v w : V) (h1 : source v = true) (h2 : source w = true)
    (hs : sameUpTo eo v w = true) (h : veq eo (norm v) (norm w) = .t) :
    veqL eo true (andItems (norm v)) (andItems (norm w)) = .t := by
  have hand := sameUpTo_isAnd eo v w hs
  cases hv : isAnd v
  · rw [andItems_norm_of_not_and v h1 hv, andItems_norm_of_not_and w h2 (by rw [← hand, hv]), veqL_single]
    exact h
  · cases v <;> simp [isAnd] at hv
    cases w <;> simp [isAnd] at hand
    simpa [norm, andItems, veq] using h

theorem veqL_orItems (eo : EqOracle) (v w : V)
    (hs : sameUpTo eo v w = true) (h : veq eo (norm v) (norm w) = .t) :
    veqL eo true (orItems (norm v)) (orItems (norm w)) = .t := by
  have hor := sameUpTo_isOr eo v w hs
  cases hv : isOr v
  · rw [orItems_norm_of_not_or v hv, orItems_norm_of_not_or w (by rw [← hor, hv]), veqL_single]
    exact h
  · cases v <;> simp [isOr] at hv
    cases w <;> simp [isOr] at hor
    simpa [norm, orItems, veq] using h

theorem sameUpToL_length (eo : EqOracle) : ∀ (vs ws : List V), sameUpToL eo vs ws = true → vs.length = ws.length
  | [], ws, h => by cases ws <;> simp_all [sameUpToL]
  | v :: vs, ws, h => by
      cases ws with
      | nil => simp [sameUpToL] at h
      | cons w ws =>
        simp [sameUpToL] at h
        simp [sameUpToL_length eo vs ws h.2]

theorem normL_length : ∀ (vs : List V), (normL vs).length = vs.length
  | [] => by simp [normL]
  | v :: vs => by simp [normL, normL_length vs]

theorem boundEq_of_same (eo : EqOracle) (b b' : Bound) (h : boundSame eo b b' = true) : boundEq eo b b' = .t := by
  cases b <;> cases b' <;> simp_all [boundSame, boundEq, PrimRes.ofBool]

mutual
theorem veq_norm (eo : EqOracle) : ∀ (v w : V), source v = true → source w = true →
    sameUpTo eo v w = true → k9 eo v w = false → coherent eo v w = true →
    veq eo (norm v) (norm w) = .t
  | .instOf t, w, _, _, hs, _, _ => by
      cases w <;> simp [sameUpTo] at hs
      simp [norm, veq, hs]
  | .matchesRe r fl fn, w, _, _, hs, _, hc => by
      cases w <;> simp [sameUpTo] at hs
      obtain ⟨⟨h1, h2⟩, h3⟩ := hs
      subst h2 h3
      simp [coherent, h1] at hc
      simp [norm, veq, pand_t, hc, PrimRes.ofBool]
  | .optional v, w, h1, h2, hs, hk, hc => by
      cases w <;> simp [sameUpTo] at hs
      rename_i v'
      simp only [source] at h1 h2
      simp only [k9] at hk
      simp only [coherent] at hc
      simpa [norm, veq] using veq_norm eo v v' h1 h2 hs hk hc
  | .optionalSeq t vs, w, h1, h2, hs, hk, hc => by
      cases w <;> simp [sameUpTo] at hs
      rename_i t' vs'
      obtain ⟨ht, hs⟩ := hs
      subst ht
      simp only [source] at h1 h2
      simp only [k9] at hk
      simp only [coherent] at hc
      have := (veqL_norm eo vs vs' h1 h2 hs hk hc).1 t
      simpa [norm, veq] using this
  | .in_ p, w, _, _, hs, hk, _ => by
      cases w <;> simp [sameUpTo] at hs
      simp [k9, hs] at hk
      simp [norm, veq, pand_t, hs, hk]
  | .isCallable, w, _, _, hs, _, _ => by
      cases w <;> simp [sameUpTo] at hs
      simp [norm, veq]
  | .deepIter m it, w, h1, h2, hs, hk, hc => by
      cases w <;> simp [sameUpTo] at hs
      rename_i m' it'
      simp [source] at h1 h2
      simp [k9] at hk
      simp [coherent] at hc
      have a := veq_norm eo m m' h1.1 h2.1 hs.1 hk.1 hc.1
      have b := veq_norm eo it it' h1.2 h2.2 hs.2 hk.2 hc.2
      simp [norm, veq, pand_t, a, b]
  | .deepIterSeq t ms it, w, h1, h2, hs, hk, hc => by
      cases w <;> simp [sameUpTo] at hs
      rename_i t' ms' it'
      simp [source] at h1 h2
      simp [k9] at hk
      simp [coherent] at hc
      have a := (veqL_norm eo ms ms' h1.1 h2.1 hs.1.2 hk.1 hc.1).2.1
      have b := veq_norm eo it it' h1.2 h2.2 hs.2 hk.2 hc.2
      simp [norm, veq, pand_t, a, b]
  | .deepMap k v m, w, h1, h2, hs, hk, hc => by
      cases w <;> simp [sameUpTo] at hs
      rename_i k' v' m'
      simp [source] at h1 h2
      simp [k9] at hk
      simp [coherent] at hc
      have a := veq_norm eo k k' h1.1.1 h2.1.1 hs.1.1 hk.1.1 hc.1.1
      have b := veq_norm eo v v' h1.1.2 h2.1.2 hs.1.2 hk.1.2 hc.1.2
      have c := veq_norm eo m m' h1.2 h2.2 hs.2 hk.2 hc.2
      simp [norm, veq, pand_t, a, b, c]
  | .num op b, w, _, _, hs, _, _ => by
      cases w <;> simp [sameUpTo] at hs
      simp [norm, veq, pand_t, hs, PrimRes.ofBool]
  | .maxLen b, w, _, _, hs, _, _ => by
      cases w <;> simp [sameUpTo] at hs
      simp [norm, veq, boundEq_of_same eo _ _ hs]
  | .minLen b, w, _, _, hs, _, _ => by
      cases w <;> simp [sameUpTo] at hs
      simp [norm, veq, boundEq_of_same eo _ _ hs]
  | .not_ v m e, w, h1, h2, hs, hk, hc => by
      cases w <;> simp [sameUpTo] at hs
      rename_i v' m' e'
      simp only [source] at h1 h2
      simp only [k9] at hk
      simp only [coherent] at hc
      have a := veq_norm eo v v' h1 h2 hs.1.1 hk hc
      simp [norm, veq, pand_t, a, hs.1.2, hs.2, PrimRes.ofBool]
  | .or_ vs, w, h1, h2, hs, hk, hc => by
      cases w <;> simp [sameUpTo] at hs
      rename_i vs'
      simp only [source] at h1 h2
      simp only [k9] at hk
      simp only [coherent] at hc
      have := (veqL_norm eo vs vs' h1 h2 hs hk hc).2.2
      simpa [norm, veq] using this
  | .and_ vs, w, h1, h2, hs, hk, hc => by
      cases w <;> simp [sameUpTo] at hs
      rename_i vs'
      simp only [source] at h1 h2
      simp only [k9] at hk
      simp only [coherent] at hc
      have := (veqL_norm eo vs vs' h1 h2 hs hk hc).2.1
      simpa [norm, veq] using this
  | .andRaw _ _, _, h1, _, _, _, _ => by simp [source] at h1
  | .probe p r, w, _, _, hs, _, _ => by
      cases w <;> simp [sameUpTo] at hs
      simp [norm, veq, hs, PrimRes.ofBool]
  | .junk, w, _, _, hs, _, _ => by
      cases w <;> simp [sameUpTo] at hs
      simp [norm, veq]
  | .noneV, w, _, _, hs, _, _ => by
      cases w <;> simp [sameUpTo] at hs
      simp [norm, veq]
theorem veqL_norm (eo : EqOracle) : ∀ (vs ws : List V), sourceL vs = true → sourceL ws = true →
    sameUpToL eo vs ws = true → k9L eo vs ws = false → coherentL eo vs ws = true →
    (∀ t, veqL eo t (normL vs) (normL ws) = .t) ∧
    veqL eo true ((normL vs).flatMap andItems) ((normL ws).flatMap andItems) = .t ∧
    veqL eo true ((normL vs).flatMap orItems) ((normL ws).flatMap orItems) = .t
  | [], ws, _, _, hs, _, _ => by
      cases ws <;> simp [sameUpToL] at hs
      simp [normL, veqL, PrimRes.ofBool]
  | v :: vs, ws, h1, h2, hs, hk, hc => by
      cases ws with
      | nil => simp [sameUpToL] at hs
      | cons w ws =>
        simp [sameUpToL] at hs
        simp [sourceL] at h1 h2
        simp [k9L] at hk
        simp [coherentL] at hc
        have a := veq_norm eo v w h1.1 h2.1 hs.1 hk.1 hc.1
        have b := veqL_norm eo vs ws h1.2 h2.2 hs.2 hk.2 hc.2
        have hl := sameUpToL_length eo vs ws hs.2
        refine ⟨?_, ?_, ?_⟩
        · intro t
          simp [normL, veqL, pand_t, a, b.1 t, normL_length, hl]
        · simp only [normL, List.flatMap_cons]
          exact veqL_append eo _ _ _ _ (veqL_andItems eo v w h1.1 h2.1 hs.1 a) b.2.1
        · simp only [normL, List.flatMap_cons]
          exact veqL_append eo _ _ _ _ (veqL_orItems eo v w hs.1 a) b.2.2
end


end Attrs.C18
