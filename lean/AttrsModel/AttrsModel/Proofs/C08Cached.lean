/-
  C08 — the generated `__getattr__` for cached properties as a two-state machine per (instance, name):
  over arbitrary read histories every pair is computed exactly once and every read returns that value.
-/
import AttrsModel.Spec.C08

namespace Attrs.C08

structure CInv (st : CState) : Prop where
  nodup : st.log.Nodup
  hit : ∀ a ∈ st.log, st.stored.find? (·.1 == a) = some (a, token a 1)
  miss : ∀ a, a ∉ st.log → st.stored.find? (·.1 == a) = none

theorem cinv_init : CInv { stored := [], log := [] } where
  nodup := List.nodup_nil
  hit := by intro a h; cases h
  miss := by intro a _; rfl

theorem read_spec (st : CState) (a : Access) (h : CInv st) :
    CInv (st.read a).1 ∧ (st.read a).2 = token a 1 ∧
    (st.read a).1.log = if a ∈ st.log then st.log else st.log ++ [a] := by
  by_cases ha : a ∈ st.log
  · have hf := h.hit a ha
    unfold CState.read
    rw [hf]
    simp [ha, h]
  · have hf := h.miss a ha
    have hcount : (st.log.filter (· == a)).length = 0 := by
      have : st.log.filter (· == a) = [] := by
        apply List.filter_eq_nil_iff.2
        intro b hb hba
        have : b = a := by simpa using hba
        exact ha (this ▸ hb)
      rw [this]; rfl
    unfold CState.read
    rw [hf]
    dsimp only
    rw [hcount]
    refine ⟨⟨?_, ?_, ?_⟩, rfl, by simp [ha]⟩
    · apply List.nodup_append.2
      refine ⟨h.nodup, by simp, ?_⟩
      intro x hx y hy
      simp only [List.mem_singleton] at hy
      subst hy
      exact fun e => ha (e ▸ hx)
    · intro b hb
      rcases List.mem_append.1 hb with hb | hb
      · have hne : a ≠ b := fun e => ha (e ▸ hb)
        have : (a == b) = false := by simpa using hne
        simp only [List.find?_cons, this]
        exact h.hit b hb
      · simp only [List.mem_singleton] at hb
        subst hb
        simp
    · intro b hb
      have hb1 : b ∉ st.log := fun hm => hb (List.mem_append_left _ hm)
      have hne : a ≠ b := fun e => hb (e ▸ List.mem_append_right _ (List.mem_singleton.2 rfl))
      have : (a == b) = false := by simpa using hne
      simp only [List.find?_cons, this]
      exact h.miss b hb1

/-- the machine over an arbitrary history -/
theorem runAccesses_spec (accs : List Access) (st : CState) (h : CInv st) :
    CInv (runAccesses accs st).1 ∧
    (runAccesses accs st).2 = accs.map (fun a => token a 1) ∧
    (∀ a, a ∈ (runAccesses accs st).1.log ↔ a ∈ st.log ∨ a ∈ accs) := by
  induction accs generalizing st with
  | nil => exact ⟨h, rfl, fun a => by simp [runAccesses]⟩
  | cons a rest ih =>
    obtain ⟨h1, h2, h3⟩ := read_spec st a h
    obtain ⟨i1, i2, i3⟩ := ih (st.read a).1 h1
    simp only [runAccesses]
    refine ⟨i1, by rw [i2, h2]; rfl, ?_⟩
    intro b
    rw [i3 b, h3]
    by_cases ha : a ∈ st.log
    · simp only [ha, if_true, List.mem_cons]
      constructor
      · rintro (hb | hb)
        · exact Or.inl hb
        · exact Or.inr (Or.inr hb)
      · rintro (hb | hb | hb)
        · exact Or.inl hb
        · exact Or.inl (hb ▸ ha)
        · exact Or.inr hb
    · simp only [ha, if_false, List.mem_append, List.mem_cons, List.not_mem_nil, or_false]
      constructor
      · rintro ((hb | hb) | hb)
        · exact Or.inl hb
        · exact Or.inr (Or.inl hb)
        · exact Or.inr (Or.inr hb)
      · rintro (hb | hb | hb)
        · exact Or.inl (Or.inl hb)
        · exact Or.inl (Or.inr hb)
        · exact Or.inr hb

end Attrs.C08
