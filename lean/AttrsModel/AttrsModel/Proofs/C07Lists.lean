/-
  C07 — list lemmas about the de-duplication pass of `_collect_base_attrs` (`keepFirst`/`keepLast`).
-/
import AttrsModel.Spec.C07

namespace Attrs.C07

def names (l : List Attr) : List String := l.map (·.name)

@[simp] theorem names_nil : names [] = [] := rfl
@[simp] theorem names_cons (a : Attr) (l : List Attr) : names (a :: l) = a.name :: names l := rfl
@[simp] theorem names_append (l r : List Attr) : names (l ++ r) = names l ++ names r := by
  simp [names]
@[simp] theorem names_reverse (l : List Attr) : names l.reverse = (names l).reverse := by
  simp [names]
theorem mem_names {l : List Attr} {n : String} : n ∈ names l ↔ ∃ a ∈ l, a.name = n := by
  simp [names]

theorem keepFirst_snoc (xs : List Attr) (a : Attr) (seen : List String) :
    keepFirst (xs ++ [a]) seen =
      keepFirst xs seen ++ (if seen.contains a.name || (names xs).contains a.name then [] else [a]) := by
  induction xs generalizing seen with
  | nil => simp [keepFirst]
  | cons x xs ih =>
    simp only [List.cons_append, keepFirst, names_cons]
    by_cases hx : seen.contains x.name = true
    · simp only [hx, if_true, ih]
      congr 1
      have hxs : x.name ∈ seen := by simpa using hx
      by_cases hax : a.name = x.name
      · have : a.name ∈ seen := by rw [hax]; exact hxs
        simp [this]
      · simp [hax]
    · simp only [hx, ih, List.cons_append]
      congr 2
      by_cases h1 : a.name ∈ seen <;> by_cases h2 : a.name = x.name <;> by_cases h3 : a.name ∈ names xs <;>
        simp [h1, h2, h3]

theorem keepLast_nil : keepLast [] = [] := rfl

/-- the recursive reading of "keep the furthest at the back": an element is dropped iff a later one
    has its name -/
theorem keepLast_cons (a : Attr) (l : List Attr) :
    keepLast (a :: l) = if a.name ∈ names l then keepLast l else a :: keepLast l := by
  unfold keepLast
  rw [List.reverse_cons, keepFirst_snoc]
  by_cases h : a.name ∈ names l
  · simp [h]
  · simp [h]

theorem mem_of_mem_keepLast {l : List Attr} {a : Attr} (h : a ∈ keepLast l) : a ∈ l := by
  induction l with
  | nil => simp [keepLast_nil] at h
  | cons x l ih =>
    rw [keepLast_cons] at h
    split at h
    · exact List.mem_cons_of_mem _ (ih h)
    · rcases List.mem_cons.1 h with h | h
      · exact h ▸ List.mem_cons_self
      · exact List.mem_cons_of_mem _ (ih h)

theorem mem_names_keepLast {l : List Attr} {n : String} : n ∈ names (keepLast l) ↔ n ∈ names l := by
  induction l with
  | nil => simp [keepLast_nil]
  | cons x l ih =>
    rw [keepLast_cons]
    by_cases h : x.name ∈ names l
    · rw [if_pos h, ih, names_cons, List.mem_cons]
      constructor
      · exact Or.inr
      · rintro (rfl | h')
        · exact h
        · exact h'
    · rw [if_neg h, names_cons, names_cons, List.mem_cons, List.mem_cons, ih]

theorem keepLast_nodup (l : List Attr) : (names (keepLast l)).Nodup := by
  induction l with
  | nil => simp [keepLast_nil]
  | cons x l ih =>
    rw [keepLast_cons]
    by_cases h : x.name ∈ names l
    · rw [if_pos h]; exact ih
    · rw [if_neg h, names_cons, List.nodup_cons]
      exact ⟨fun hm => h (mem_names_keepLast.1 hm), ih⟩

theorem keepLast_of_nodup {l : List Attr} (h : (names l).Nodup) : keepLast l = l := by
  induction l with
  | nil => rfl
  | cons x l ih =>
    rw [names_cons, List.nodup_cons] at h
    rw [keepLast_cons, if_neg h.1, ih h.2]

theorem keepLast_append (l b : List Attr) :
    keepLast (l ++ b) = (keepLast l).filter (fun a => !(names b).contains a.name) ++ keepLast b := by
  induction l with
  | nil => simp [keepLast_nil]
  | cons x l ih =>
    rw [List.cons_append, keepLast_cons, keepLast_cons, ih]
    by_cases h1 : x.name ∈ names l
    · simp [h1]
    · by_cases h2 : x.name ∈ names b
      · simp [h1, h2, List.filter_cons]
      · simp [h1, h2, List.filter_cons]

/-- the survivor for a name is its last occurrence -/
theorem keepLast_find (l : List Attr) (n : String) :
    (keepLast l).find? (fun a => a.name == n) = l.reverse.find? (fun a => a.name == n) := by
  induction l with
  | nil => rfl
  | cons x l ih =>
    rw [keepLast_cons, List.reverse_cons, List.find?_append]
    by_cases h : x.name ∈ names l
    · rw [if_pos h, ih]
      by_cases hx : x.name = n
      · -- a later element has the name too
        obtain ⟨a, ha, han⟩ := mem_names.1 h
        have : (l.reverse.find? (fun a => a.name == n)).isSome := by
          rw [List.find?_isSome]; exact ⟨a, by simpa using ha, by simpa [hx] using han⟩
        cases hf : l.reverse.find? (fun a => a.name == n) with
        | none => simp [hf] at this
        | some v => simp
      · have : (x.name == n) = false := by simpa using hx
        cases hf : l.reverse.find? (fun a => a.name == n) <;> simp [this]
    · rw [if_neg h]
      by_cases hx : x.name = n
      · have hnone : l.reverse.find? (fun a => a.name == n) = none := by
          rw [List.find?_eq_none]
          intro a ha hn
          apply h
          have : a.name = n := by simpa using hn
          exact mem_names.2 ⟨a, by simpa using ha, this.trans hx.symm⟩
        simp [List.find?_cons, hx, hnone]
      · have : (x.name == n) = false := by simpa using hx
        have e : (x :: keepLast l).find? (fun a => a.name == n) = l.reverse.find? (fun a => a.name == n) := by
          rw [List.find?_cons, this]; exact ih
        rw [e]
        cases hf : l.reverse.find? (fun a => a.name == n) <;> simp [this]

end Attrs.C07
