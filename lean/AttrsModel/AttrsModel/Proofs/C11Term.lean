/-
  C11 — termination: the ancestor path grows with every nested compound node, so the nesting
  depth is bounded by the number of heap nodes not yet on the path; fuel `|heap| + 1` is enough
  for every graph, and more fuel never changes a rendering.
-/
import AttrsModel.Spec.C11Base

namespace Attrs.C11

theorem countP_lt_of_mem {α : Type} {p q : α → Bool} {l : List α} {a : α} (ha : a ∈ l)
    (hpa : p a = true) (hqa : q a = false) (hqp : ∀ x, q x = true → p x = true) :
    l.countP q < l.countP p := by
  induction l with
  | nil => cases ha
  | cons x rest ih =>
    have hmono : rest.countP q ≤ rest.countP p := List.countP_mono_left fun y _ hy => hqp y hy
    simp only [List.countP_cons]
    rcases List.mem_cons.1 ha with rfl | hmem
    · simp only [hpa, hqa, if_true, Bool.false_eq_true, if_false]; omega
    · have := ih hmem
      cases hq : q x with
      | true => simp only [hqp x hq, if_true]; omega
      | false => cases hp : p x <;> simp <;> omega

/-- heap nodes that are not on the ancestor path -/
def unvisited (h : Heap) (anc : List Nat) : Nat :=
  (List.range h.nodes.length).countP fun i => !anc.contains i

theorem unvisited_cons_lt (h : Heap) (anc : List Nat) (id : Nat) (hv : id < h.nodes.length)
    (hn : anc.contains id = false) : unvisited h (id :: anc) < unvisited h anc := by
  unfold unvisited
  refine countP_lt_of_mem (a := id) (List.mem_range.2 hv) (by rw [hn]; rfl) (by simp) ?_
  intro x hx
  simp only [List.contains_cons, Bool.not_or, Bool.and_eq_true] at hx
  exact hx.2

theorem unvisited_nil_lt_fuel (h : Heap) : unvisited h [] < h.fuel := by
  unfold unvisited Heap.fuel
  have := List.countP_le_length (p := fun i => !([] : List Nat).contains i) (l := List.range h.nodes.length)
  simp only [List.length_range] at this
  omega

theorem lt_length_of_getElem? {α : Type} {l : List α} {i : Nat} {a : α} (h : l[i]? = some a) :
    i < l.length := by
  rcases Nat.lt_or_ge i l.length with hlt | hge
  · exact hlt
  · rw [List.getElem?_eq_none hge] at h; cases h

/-! ### no fuel exhaustion -/

theorem collect_error_ne_oof (parts : List (String × Out)) (h : ∀ x ∈ parts, x.2 ≠ .oof) :
    ∀ e, collect parts = .error e → e ≠ .oof := by
  induction parts with
  | nil => intro e he; simp [collect] at he
  | cons x rest ih =>
    obtain ⟨lbl, o⟩ := x
    have ho : o ≠ .oof := h (lbl, o) List.mem_cons_self
    have ih' := ih fun y hy => h y (List.mem_cons_of_mem _ hy)
    intro e he
    cases o with
    | ok s =>
      simp only [collect] at he
      cases hc : collect rest with
      | ok l => simp [hc] at he
      | error e' =>
        simp only [hc, Except.error.injEq] at he
        subst he
        exact ih' _ hc
    | exc k => simp only [collect, Except.error.injEq] at he; subst he; simp
    | oof => exact absurd rfl ho

theorem fmt_ne_oof (pre post : String) (parts : List (String × Out)) (h : ∀ x ∈ parts, x.2 ≠ .oof) :
    fmt pre post parts ≠ .oof := by
  unfold fmt
  cases hc : collect parts with
  | ok l => simp
  | error e => exact collect_error_ne_oof parts h e hc

theorem swallow_ne_oof (o : Out) (h : o ≠ .oof) : swallow o ≠ .oof := by
  cases o <;> simp_all [swallow]

theorem showCall_ne_oof (armed : Bool) (tag : String) (rc : Bool) (fault : Fault) (inner : Out)
    (h : inner ≠ .oof) : showCall armed tag rc fault inner ≠ .oof := by
  unfold showCall
  split
  · simp
  · split
    · cases inner with
      | ok s => dsimp only; split <;> simp
      | exc k => simp
      | oof => exact absurd rfl h
    · split <;> simp

theorem showWith_ne_oof (armed : Bool) (r : ReprArg) (inner : Out) (h : inner ≠ .oof) :
    showWith armed r inner ≠ .oof := by
  unfold showWith
  cases r with
  | on => exact h
  | off => exact h
  | call tag rc fault tol =>
    dsimp only
    refine showCall_ne_oof _ _ _ _ _ ?_
    split
    · exact swallow_ne_oof _ h
    · exact h

theorem specField_ne_oof (rec : Nat → Out) (armed : Bool) (vals : List (String × Nat)) (f : Field)
    (h : ∀ i, rec i ≠ .oof) : specField rec armed vals f ≠ .oof := by
  unfold specField
  cases vals.lookup f.name with
  | some i => exact showWith_ne_oof _ _ _ (h i)
  | none =>
    dsimp only
    split
    · simp
    · exact showWith_ne_oof _ _ _ (by simp)

theorem mapOk_ne_oof (f : String → String) (o : Out) (h : o ≠ .oof) : mapOk f o ≠ .oof := by
  cases o <;> simp_all [mapOk]

/-- **no rendering runs out of fuel** when the fuel exceeds the number of unvisited nodes -/
theorem specVal_ne_oof (nm : Cls → String) (h : Heap) (armed : Bool) :
    ∀ fuel anc id, unvisited h anc < fuel → specVal nm h armed fuel anc id ≠ .oof := by
  intro fuel
  induction fuel with
  | zero => intro anc id hlt; omega
  | succ fuel ih =>
    intro anc id hlt
    unfold specVal
    cases hn : h.nodes[id]? with
    | none => simp
    | some node =>
      have hv := lt_length_of_getElem? hn
      have hchild : anc.contains id = false → ∀ i, specVal nm h armed fuel (id :: anc) i ≠ .oof := by
        intro hc i
        have := unvisited_cons_lt h anc id hv hc
        exact ih (id :: anc) i (by omega)
      cases node with
      | atom s => simp
      | list items =>
        dsimp only
        cases hc : anc.contains id with
        | true => simp
        | false =>
          simp only [Bool.false_eq_true, if_false]
          refine fmt_ne_oof _ _ _ fun x hx => ?_
          obtain ⟨i, _, rfl⟩ := List.mem_map.1 hx
          exact hchild hc i
      | tuple items =>
        dsimp only
        cases hc : anc.contains id with
        | true => simp
        | false =>
          simp only [Bool.false_eq_true, if_false]
          refine fmt_ne_oof _ _ _ fun x hx => ?_
          obtain ⟨i, _, rfl⟩ := List.mem_map.1 hx
          exact hchild hc i
      | dict items =>
        dsimp only
        cases hc : anc.contains id with
        | true => simp
        | false =>
          simp only [Bool.false_eq_true, if_false]
          refine fmt_ne_oof _ _ _ fun x hx => ?_
          obtain ⟨kv, _, rfl⟩ := List.mem_map.1 hx
          exact hchild hc kv.2
      | inst ci vals =>
        dsimp only
        cases hcl : h.classes[ci]? with
        | none => simp
        | some c =>
          dsimp only
          refine mapOk_ne_oof _ _ ?_
          cases hc : anc.contains id with
          | true => simp
          | false =>
            simp only [Bool.false_eq_true, if_false]
            refine fmt_ne_oof _ _ _ fun x hx => ?_
            obtain ⟨f, _, rfl⟩ := List.mem_map.1 hx
            exact specField_ne_oof _ _ _ _ (hchild hc)

/-! ### more fuel changes nothing -/

/-- one unfolding of `specVal`, with the recursive calls abstracted -/
def specStep (nm : Cls → String) (h : Heap) (armed : Bool) (rec : List Nat → Nat → Out) (anc : List Nat) (id : Nat) : Out :=
  match h.nodes[id]? with
  | none => .exc "dangling"
  | some (.atom s) => .ok s
  | some (.list items) =>
    if anc.contains id then .ok "[...]"
    else fmt "[" "]" (items.map fun i => ("", rec (id :: anc) i))
  | some (.tuple items) =>
    if anc.contains id then .ok "(...)"
    else fmt "(" (if items.length = 1 then ",)" else ")") (items.map fun i => ("", rec (id :: anc) i))
  | some (.dict items) =>
    if anc.contains id then .ok "{...}"
    else fmt "{" "}" (items.map fun kv => (kv.1 ++ ": ", rec (id :: anc) kv.2))
  | some (.inst ci vals) =>
    match h.classes[ci]? with
    | none => .exc "dangling"
    | some c =>
      mapOk (ovrText c)
        (if anc.contains id then .ok "..."
         else fmt (nm c ++ "(") ")"
          ((c.fields.filter enabled).map fun f =>
            (f.name ++ "=", specField (rec (id :: anc)) armed vals f)))

theorem specVal_succ (nm : Cls → String) (h : Heap) (armed : Bool) (fuel : Nat) (anc : List Nat) (id : Nat) :
    specVal nm h armed (fuel + 1) anc id = specStep nm h armed (specVal nm h armed fuel) anc id := by
  rw [specVal]; rfl

theorem specStep_congr (nm : Cls → String) (h : Heap) (armed : Bool) (r1 r2 : List Nat → Nat → Out) (anc : List Nat)
    (id : Nat)
    (hr : anc.contains id = false → id < h.nodes.length → r1 (id :: anc) = r2 (id :: anc)) :
    specStep nm h armed r1 anc id = specStep nm h armed r2 anc id := by
  unfold specStep
  cases hn : h.nodes[id]? with
  | none => rfl
  | some node =>
    cases hc : anc.contains id with
    | true => cases node <;> rfl
    | false => rw [hr hc (lt_length_of_getElem? hn)]

theorem specVal_fuel_succ (nm : Cls → String) (h : Heap) (armed : Bool) :
    ∀ fuel anc id, unvisited h anc < fuel →
      specVal nm h armed (fuel + 1) anc id = specVal nm h armed fuel anc id := by
  intro fuel
  induction fuel with
  | zero => intro anc id hlt; omega
  | succ fuel ih =>
    intro anc id hlt
    rw [specVal_succ, specVal_succ]
    refine specStep_congr nm h armed _ _ anc id fun hc hv => ?_
    funext i
    have := unvisited_cons_lt h anc id hv hc
    exact ih (id :: anc) i (by omega)

theorem specVal_fuel_irrelevant (nm : Cls → String) (h : Heap) (armed : Bool) (anc : List Nat) (id : Nat) :
    ∀ extra fuel, unvisited h anc < fuel →
      specVal nm h armed (fuel + extra) anc id = specVal nm h armed fuel anc id := by
  intro extra
  induction extra with
  | zero => intros; rfl
  | succ e ih =>
    intro fuel hlt
    rw [← Nat.add_assoc, specVal_fuel_succ nm h armed (fuel + e) anc id (by omega), ih fuel hlt]

/-! ### the class-name part is a parameter -/

theorem specStep_congr_name (nm1 nm2 : Cls → String) (h : Heap) (armed : Bool)
    (rec : List Nat → Nat → Out) (anc : List Nat) (id : Nat) (hnm : ∀ c ∈ h.classes, nm1 c = nm2 c) :
    specStep nm1 h armed rec anc id = specStep nm2 h armed rec anc id := by
  unfold specStep
  cases hn : h.nodes[id]? with
  | none => rfl
  | some node =>
    cases node with
    | inst ci vals =>
      dsimp only
      cases hc : h.classes[ci]? with
      | none => rfl
      | some c => dsimp only; rw [hnm c (List.mem_of_getElem? hc)]
    | _ => rfl

theorem specVal_congr_name (nm1 nm2 : Cls → String) (h : Heap) (armed : Bool)
    (hnm : ∀ c ∈ h.classes, nm1 c = nm2 c) :
    ∀ fuel anc id, specVal nm1 h armed fuel anc id = specVal nm2 h armed fuel anc id := by
  intro fuel
  induction fuel with
  | zero => intros; rfl
  | succ fuel ih =>
    intro anc id
    rw [specVal_succ, specVal_succ, specStep_congr_name nm1 nm2 h armed _ anc id hnm]
    refine specStep_congr nm2 h armed _ _ anc id fun _ _ => ?_
    funext i
    exact ih (id :: anc) i

end Attrs.C11
