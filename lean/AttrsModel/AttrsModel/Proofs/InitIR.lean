/-
  T3 — compiler correctness of the model's script generator: executing `genInit r` with the IR interpreter
  of Model/InitIR.lean is the direct semantics `body r` (then `BaseException.__init__` for exception classes).
  One lemma per statement form, a fold lemma over the attribute list, then the assembly.
-/
import AttrsModel.Proofs.InitWf
import AttrsModel.Spec.C01

namespace Attrs.Init

/-! ### running statement lists -/

theorem run_nil (r : RunIn) (env : List (String × Val)) (x : XSt) : run r env [] x = x := rfl

theorem run_cons (r : RunIn) (env : List (String × Val)) (s : Stmt) (ss : List Stmt) (x : XSt) :
    run r env (s :: ss) x = run r env ss (execStmt r env x s) := rfl

theorem run_append (r : RunIn) (env : List (String × Val)) (s1 s2 : List Stmt) (x : XSt) :
    run r env (s1 ++ s2) x = run r env s2 (run r env s1 x) := by
  simp [run, List.foldl_append]

theorem execStmt_raised (r : RunIn) (env : List (String × Val)) (x : XSt) (s : Stmt)
    (hr : x.st.raised.isSome = true) : execStmt r env x s = x := by
  simp [execStmt, hr]

theorem run_raised (r : RunIn) (env : List (String × Val)) (ss : List Stmt) (x : XSt)
    (hr : x.st.raised.isSome = true) : run r env ss x = x := by
  induction ss with
  | nil => rfl
  | cons s ss ih => rw [run_cons, execStmt_raised r env x s hr, ih]

/-! ### names identify fields -/

theorem find_name (l : List Attr) (a : Attr) (ha : a ∈ l) (hnd : (l.map (·.name)).Nodup) :
    l.find? (·.name == a.name) = some a := by
  induction l with
  | nil => cases ha
  | cons b l ih =>
    have h2 : (∀ y ∈ l, ¬y.name = b.name) ∧ (l.map (·.name)).Nodup := by simpa using hnd
    rcases List.mem_cons.1 ha with hab | hal
    · subst hab; simp
    · have hne : (b.name == a.name) = false := by
        have := h2.1 a hal
        simpa using fun h => this h.symm
      rw [List.find?_cons, hne]
      exact ih hal h2.2

theorem attrOf_mem (r : RunIn) (a : Attr) (ha : a ∈ r.attrs) (hnd : (r.attrs.map (·.name)).Nodup) :
    attrOf r a.name = a := by
  unfold attrOf
  rw [find_name r.attrs a ha hnd]
  rfl

/-! ### stores -/

theorem applyStore_tech (r : RunIn) (a : Attr) (v : Val) (st : St) :
    applyStore r (tech r.cfg (r.belief a.name) a) a a.conv v st = setField r.cfg r.fault (r.belief a.name) a v st := by
  unfold applyStore setField
  cases a.conv <;> rfl

/-- the technique chosen for a participating field finds its local bound once the declarations ran -/
theorem techReady_gen (r : RunIn) (a : Attr) (ha : a ∈ r.attrs.filter participates) :
    techReady (needsCachedSetattr r) (r.cfg.frozen && !r.cfg.slots) (tech r.cfg (r.belief a.name) a) = true := by
  have hany : hasOnSetattr r.cfg a = true → (r.attrs.filter participates).any (hasOnSetattr r.cfg) = true := by
    intro h
    exact List.any_eq_true.2 ⟨a, ha, h⟩
  unfold techReady needsCachedSetattr tech
  cases hf : r.cfg.frozen <;> cases hs : r.cfg.slots <;> cases hh : hasOnSetattr r.cfg a <;>
    cases hb : r.belief a.name <;> cases hc : a.conv.isSome <;> simp_all

/-! ### one attribute -/

theorem x_eta (x : XSt) : ({ x with st := x.st } : XSt) = x := rfl

/-- the statements generated for one attribute execute as `stepAttr` -/
theorem run_genAttr (r : RunIn) (env : List (String × Val)) (a : Attr) (x : XSt)
    (hat : attrOf r a.name = a)
    (hready : x.st.raised.isSome = false →
      techReady x.hasSetattr x.hasInstDict (tech r.cfg (r.belief a.name) a) = true) :
    run r env (genAttr r a) x = { x with st := stepAttr r.cfg r.fault r.belief env x.st a } := by
  cases hr : x.st.raised.isSome with
  | true => rw [run_raised r env _ x hr, stepAttr_raised _ _ _ _ _ _ hr]
  | false =>
    have hrdy := hready hr
    unfold genAttr stepAttr
    cases hi : a.init <;> cases hd : a.dflt <;> cases hl : lookup a.alias env <;>
      simp [run, execStmt, execStore, genStore, hr, hat, hrdy, applyStore_tech, XSt.fail, hl]
    all_goals (repeat' split) <;> rfl

/-! ### the attribute list -/

theorem run_genAttrs (r : RunIn) (env : List (String × Val)) (l : List Attr) (x : XSt)
    (hat : ∀ a ∈ l, attrOf r a.name = a)
    (hready : x.st.raised.isSome = false →
      ∀ a ∈ l, techReady x.hasSetattr x.hasInstDict (tech r.cfg (r.belief a.name) a) = true) :
    run r env (l.flatMap (genAttr r)) x = { x with st := l.foldl (stepAttr r.cfg r.fault r.belief env) x.st } := by
  induction l generalizing x with
  | nil => rfl
  | cons a l ih =>
    rw [List.flatMap_cons, run_append,
      run_genAttr r env a x (hat a (List.mem_cons_self ..)) (fun h => hready h a (List.mem_cons_self ..))]
    rw [ih _ (fun b hb => hat b (List.mem_cons_of_mem _ hb))]
    · rfl
    · intro h b hb
      cases hr : x.st.raised.isSome with
      | false => exact hready hr b (List.mem_cons_of_mem _ hb)
      | true =>
        exfalso
        have : (stepAttr r.cfg r.fault r.belief env x.st a).raised.isSome = true := by
          rw [stepAttr_raised _ _ _ _ _ _ hr]; exact hr
        simp only [this] at h
        cases h

/-! ### validators -/

theorem validatorEvents_cons (a : Attr) (l : List Attr) :
    validatorEvents (a :: l) = (List.range a.validators).map (fun i => (a, i)) ++ validatorEvents l := by
  simp [validatorEvents]

theorem validatorEvents_filter (l : List Attr) :
    validatorEvents (l.filter (·.validators != 0)) = validatorEvents l := by
  induction l with
  | nil => rfl
  | cons a l ih =>
    cases h : a.validators with
    | zero => simp [h, validatorEvents_cons, ih]
    | succ n => simp [h, validatorEvents_cons, ih]

theorem run_validator_lines (r : RunIn) (l : List Attr) (st : St) (hat : ∀ a ∈ l, attrOf r a.name = a) :
    (l.map (·.name)).foldl (runValidatorsOf r) st = (validatorEvents l).foldl (runValidator r.fault) st := by
  induction l generalizing st with
  | nil => rfl
  | cons a l ih =>
    rw [List.map_cons, List.foldl_cons, validatorEvents_cons, List.foldl_append,
      ih _ (fun b hb => hat b (List.mem_cons_of_mem _ hb))]
    congr 1
    unfold runValidatorsOf
    rw [hat a (List.mem_cons_self ..), List.foldl_map]

theorem run_genValidators (r : RunIn) (env : List (String × Val)) (x : XSt)
    (hat : ∀ a ∈ r.attrs, attrOf r a.name = a) :
    run r env (genValidators r) x =
      { x with st := if r.cfg.runValidators then
          (validatorEvents (r.attrs.filter participates)).foldl (runValidator r.fault) x.st else x.st } := by
  have hat' : ∀ a ∈ (r.attrs.filter participates).filter (·.validators != 0), attrOf r a.name = a :=
    fun a ha => hat a (List.mem_filter.1 (List.mem_filter.1 ha).1).1
  cases hr : x.st.raised.isSome with
  | true =>
    rw [run_raised r env _ x hr, validators_raised _ _ _ hr]
    cases r.cfg.runValidators <;> rfl
  | false =>
    unfold genValidators
    cases hv : r.cfg.runValidators <;>
      cases he : ((r.attrs.filter participates).filter (·.validators != 0)).isEmpty
    · simp only [he, Bool.false_eq_true, if_false, run, List.foldl_cons, List.foldl_nil, execStmt, hr, hv]
    · simp only [he, if_true, run, List.foldl_nil, Bool.false_eq_true, if_false]
    · simp only [he, Bool.false_eq_true, if_false, run, List.foldl_cons, List.foldl_nil, execStmt, hr, if_true]
      rw [run_validator_lines r _ _ hat', validatorEvents_filter]
      simp only [hv, if_true]
    · have hnil : (r.attrs.filter participates).filter (·.validators != 0) = [] := List.isEmpty_iff.1 he
      have : validatorEvents (r.attrs.filter participates) = [] := by
        rw [← validatorEvents_filter, hnil]; rfl
      simp only [he, if_true, run, List.foldl_nil, this]

/-! ### parameters and pre-init -/

theorem iparam_toParam (a : Attr) : (iparamOf a).toParam = paramOf a := by
  unfold iparamOf IParam.toParam paramOf dfltVal
  cases a.dflt <;> rfl

theorem map_filter_kw (q : Bool → Bool) (ps : List IParam) :
    (ps.filter (fun p => q p.kwOnly)).map IParam.toParam = (ps.map IParam.toParam).filter (fun p => q p.kwOnly) := by
  induction ps with
  | nil => rfl
  | cons p ps ih =>
    have hk : (IParam.toParam p).kwOnly = p.kwOnly := rfl
    simp only [List.filter_cons, List.map_cons, hk]
    cases q p.kwOnly <;> simp [ih]

/-- the script's parameter list is the model's -/
theorem genParams_toParam (attrs : List Attr) : (genParams attrs).map IParam.toParam = params attrs := by
  have hm : ((attrs.filter (·.init)).map iparamOf).map IParam.toParam = (attrs.filter (·.init)).map paramOf := by
    rw [List.map_map]
    apply List.map_congr_left
    intro a _
    exact iparam_toParam a
  unfold genParams params
  simp only [List.map_append]
  rw [map_filter_kw (fun b => !b), map_filter_kw (fun b => b), hm]

theorem preArgs_script (attrs : List Attr) (env : List (String × Val)) :
    (((genParams attrs).filter (!·.kwOnly)).map (·.name)).map (fun p => (lookup p env).getD "?") ++
    (((genParams attrs).filter (·.kwOnly)).map (·.name)).map (fun p => p ++ "=" ++ (lookup p env).getD "?") =
    preArgs attrs env := by
  unfold preArgs
  simp only []
  rw [← genParams_toParam, ← map_filter_kw (fun b => !b), ← map_filter_kw (fun b => b)]
  simp only [List.map_map]
  rfl

/-! ### the pieces of `body` -/

def bPre (r : RunIn) (env : List (String × Val)) : St :=
  match r.cfg.pre with
  | .none => St.init
  | .noArgs => St.init.emit r.fault { id := { kind := "pre", field := "", idx := 0 }, args := [] }
  | .withArgs => St.init.emit r.fault { id := { kind := "pre", field := "", idx := 0 }, args := preArgs r.attrs env }

def bVal (r : RunIn) (st : St) : St :=
  if r.cfg.runValidators then (validatorEvents (r.attrs.filter participates)).foldl (runValidator r.fault) st else st

def bPost (r : RunIn) (st : St) : St :=
  if st.raised.isSome || !r.cfg.post then st else
    st.emit r.fault { id := { kind := "post", field := "", idx := 0 }, args := [] }

def bHash (r : RunIn) (st : St) : St :=
  if st.raised.isSome || !r.cfg.cacheHash then st else
    if r.cfg.frozen && !r.cfg.slots then st.write (cacheAttrOf r).name .dict "None"
    else st.write (cacheAttrOf r).name (readLoc (cacheAttrOf r)) "None"

theorem body_decomp (r : RunIn) (env : List (String × Val)) :
    body r env = bHash r (bPost r (bVal r
      ((r.attrs.filter participates).foldl (stepAttr r.cfg r.fault r.belief env) (bPre r env)))) := rfl

theorem run_genPre (r : RunIn) (env : List (String × Val)) :
    run r env (genPre r) XSt.init = { XSt.init with st := bPre r env } := by
  unfold genPre bPre
  cases r.cfg.pre
  · rfl
  · rfl
  · simp only [run, List.foldl_cons, List.foldl_nil, execStmt, XSt.init, St.init, Option.isSome_none,
      Bool.false_eq_true, if_false, preArgs_script]

theorem run_genDecls (r : RunIn) (env : List (String × Val)) (x : XSt) (hr : x.st.raised.isSome = false) :
    run r env (genDecls r) x =
      { x with hasSetattr := x.hasSetattr || needsCachedSetattr r,
               hasInstDict := x.hasInstDict || (r.cfg.frozen && !r.cfg.slots) } := by
  unfold genDecls
  cases needsCachedSetattr r <;> cases r.cfg.frozen <;> cases r.cfg.slots <;>
    simp [run, execStmt, hr]

theorem run_post (r : RunIn) (env : List (String × Val)) (x : XSt) :
    run r env (if r.cfg.post then [Stmt.postInit] else []) x = { x with st := bPost r x.st } := by
  unfold bPost
  cases r.cfg.post <;> cases hr : x.st.raised.isSome <;> simp [run, execStmt, hr]

theorem run_hash (r : RunIn) (env : List (String × Val)) (x : XSt)
    (hs : x.hasSetattr = needsCachedSetattr r) (hi : x.hasInstDict = (r.cfg.frozen && !r.cfg.slots)) :
    run r env (if r.cfg.cacheHash then [Stmt.hashCacheReset (hashTech r.cfg)] else []) x =
      { x with st := bHash r x.st } := by
  obtain ⟨st, hs0, hi0, ea⟩ := x
  simp only at hs hi
  subst hs hi
  unfold bHash hashTech
  cases hc : r.cfg.cacheHash <;> cases hr : st.raised.isSome <;> cases hf : r.cfg.frozen <;>
    cases hsl : r.cfg.slots <;>
    simp [run, execStmt, hr, techReady, needsCachedSetattr, hc, hf, hsl]

theorem run_genTail (r : RunIn) (env : List (String × Val)) (x : XSt)
    (hs : x.hasSetattr = needsCachedSetattr r) (hi : x.hasInstDict = (r.cfg.frozen && !r.cfg.slots)) :
    run r env (genTail r) x = { x with st := bHash r (bPost r x.st) } := by
  unfold genTail
  rw [run_append, run_post, run_hash r env { x with st := bPost r x.st } hs hi]

/-! ### `BaseException.__init__` -/

theorem mapM_names (r : RunIn) (st : St) (l : List Attr) (hat : ∀ a ∈ l, attrOf r a.name = a) :
    (l.map (·.name)).mapM (fun f => st.read (attrOf r f)) = l.mapM st.read := by
  induction l with
  | nil => rfl
  | cons a l ih =>
    simp only [List.map_cons, List.mapM_cons, hat a (List.mem_cons_self ..),
      ih (fun b hb => hat b (List.mem_cons_of_mem _ hb))]

theorem run_genExc (r : RunIn) (env : List (String × Val)) (x : XSt)
    (hat : ∀ a ∈ r.attrs, attrOf r a.name = a) (hx : x.excArgs = none) :
    (run r env (genExc r) x).st = (withExc r x.st).1 ∧ (run r env (genExc r) x).excArgs = (withExc r x.st).2 := by
  have hm := mapM_names r x.st ((r.attrs.filter participates).filter (·.init))
    (fun a ha => hat a (List.mem_filter.1 (List.mem_filter.1 ha).1).1)
  unfold genExc withExc excArgs
  cases he : r.cfg.isExc <;> cases hr : x.st.raised.isSome
  · simp [run, hx]
  · simp [run, hx]
  · simp only [if_true, run, List.foldl_cons, List.foldl_nil, execStmt, hr, Bool.false_eq_true, if_false, hm,
      Bool.not_true, Bool.or_self]
    cases ((r.attrs.filter participates).filter (·.init)).mapM x.st.read <;> simp [XSt.fail, hx]
  · simp [run, execStmt, hr, hx]

/-! ### assembly -/

theorem body_of_pre_raised (r : RunIn) (env : List (String × Val)) (hr : (bPre r env).raised.isSome = true) :
    body r env = bPre r env := by
  rw [body_decomp]
  have h2 := fold_raised r.cfg r.fault r.belief env (r.attrs.filter participates) (bPre r env) hr
  unfold stepF at h2
  rw [h2]
  have h3 : bVal r (bPre r env) = bPre r env := by
    unfold bVal; rw [validators_raised _ _ _ hr]; simp
  have h4 : bPost r (bPre r env) = bPre r env := by unfold bPost; simp [hr]
  have h5 : bHash r (bPre r env) = bPre r env := by unfold bHash; simp [hr]
  rw [h3, h4, h5]

theorem run_genLines (r : RunIn) (env : List (String × Val)) (hnd : (r.attrs.map (·.name)).Nodup) :
    (run r env (genLines r) XSt.init).st = (withExc r (body r env)).1 ∧
    (run r env (genLines r) XSt.init).excArgs = (withExc r (body r env)).2 := by
  have hat : ∀ a ∈ r.attrs, attrOf r a.name = a := fun a ha => attrOf_mem r a ha hnd
  unfold genLines
  rw [run_append, run_append, run_append, run_append, run_append, run_genPre]
  cases hr : (bPre r env).raised.isSome with
  | true =>
    have hx : ({ XSt.init with st := bPre r env } : XSt).st.raised.isSome = true := hr
    rw [run_raised _ _ (genDecls r) _ hx, run_raised _ _ _ _ hx, run_raised _ _ (genValidators r) _ hx,
      run_raised _ _ (genTail r) _ hx, run_raised _ _ (genExc r) _ hx, body_of_pre_raised r env hr]
    unfold withExc
    simp [hr, XSt.init]
  | false =>
    have hx : ({ XSt.init with st := bPre r env } : XSt).st.raised.isSome = false := hr
    rw [run_genDecls r env _ hx]
    rw [run_genAttrs r env (r.attrs.filter participates) _
      (fun a ha => hat a (List.mem_filter.1 ha).1)
      (fun _ a ha => by simpa [XSt.init] using techReady_gen r a ha)]
    rw [run_genValidators r env _ hat]
    rw [run_genTail r env _ (by simp [XSt.init]) (by simp [XSt.init])]
    rw [body_decomp]
    exact run_genExc r env _ hat rfl

/-- **compiler correctness of the model generator**: executing the generated script is `body`, followed by
    `BaseException.__init__` for exception classes -/
theorem script_correct (r : RunIn) (env : List (String × Val)) (hnd : (r.attrs.map (·.name)).Nodup) :
    (execScript (genInit r) r env).st = (withExc r (body r env)).1 ∧
    (execScript (genInit r) r env).excArgs = (withExc r (body r env)).2 := by
  have h := run_genLines r env hnd
  unfold execScript genInit
  simp only []
  cases he : (genLines r).isEmpty with
  | false => simpa [he] using h
  | true =>
    have hnil : genLines r = [] := List.isEmpty_iff.1 he
    rw [hnil] at h
    simpa [he, run, execStmt, XSt.init, St.init] using h

/-- the observation computed from the generated script is the model's observation, for every call -/
theorem scriptObs_genInit (c : Case) (hnd : (c.run.attrs.map (·.name)).Nodup) :
    scriptObs (genInit c.eff) c.eff c.call = runInit c := by
  have hp : (genInit c.eff).params.map IParam.toParam = params c.eff.attrs := genParams_toParam _
  unfold scriptObs runInit
  simp only [hp]
  cases hb : bind (params c.eff.attrs) c.call with
  | none => simp [sigOf]
  | some env =>
    obtain ⟨h1, h2⟩ := script_correct c.eff env (by simpa using hnd)
    simp only [h1, h2]
    unfold withExc
    cases hr : (body c.eff env).raised with
    | some e => simp [sigOf, cacheAttrOf, hr]
    | none =>
      cases he : c.eff.cfg.isExc with
      | false => simp [sigOf, cacheAttrOf, hr]
      | true =>
        cases hx : excArgs c.eff.attrs (body c.eff env) <;>
          simp [sigOf, cacheAttrOf, hr, St.read]

end Attrs.Init
