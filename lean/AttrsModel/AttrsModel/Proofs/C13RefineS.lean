/-
  C13 — with the substituting serializer (hostile results: None, falsy values, NOTHING, containers, attrs
  instances, for some or all inputs) the model of `asdict` / `_asdict_anything` still computes the reference.
-/
import AttrsModel.Proofs.C13RefineD

namespace Attrs.C13

theorem coll_eq {o : Opts} (S : List Out) (km kt : CKind) (hk : km = kt) :
    (realiseL S).bind (codeColl km) = (realiseL S).bind (pyColl kt) := by
  subst hk
  congr 1
  funext ys
  exact codeColl_eq_pyColl _ ys

mutual
theorem anythingS_refines (o : Opts) (s : Subst) : ∀ (v : PVal) (ctx : Ctx) (isKey : Bool), notField ctx →
    ctxOK o ctx isKey → anythingS o s isKey v = realise (shapeS o s ctx v)
  | .atom a, ctx, isKey, hnf, _ => by
    cases ctx with
    | field c f => exact absurd hnf (by simp [notField])
    | member => by_cases hh : s.target.hits none (.atom a) = true <;> simp [anythingS, shapeS, hh, realise, realise_embed]
    | key => by_cases hh : s.target.hits none (.atom a) = true <;> simp [anythingS, shapeS, hh, realise, realise_embed]
  | .inst c h fs, ctx, isKey, hnf, _ => by
    cases ctx with
    | field c f => exact absurd hnf (by simp [notField])
    | member => simp [anythingS, shapeS, realise, fieldsS_refines o s c fs]
    | key => simp [anythingS, shapeS, realise, fieldsS_refines o s c fs]
  | .coll k xs, ctx, isKey, hnf, hc => by
    have hitems := itemsS_refines o s xs (memberCtx ctx) isKey (notField_member ctx) (ctxOK_member hnf hc)
    cases ctx with
    | field c f => exact absurd hnf (by simp [notField])
    | member =>
      simp only [anythingS, shapeS, realise, hitems]
      exact coll_eq (o := o) _ _ _ (targetKind_of_ctxOK hc k)
    | key =>
      simp only [anythingS, shapeS, realise, hitems]
      exact coll_eq (o := o) _ _ _ (targetKind_of_ctxOK hc k)
  | .dict dk ps, ctx, isKey, hnf, _ => by
    cases ctx with
    | field c f => exact absurd hnf (by simp [notField])
    | member => simp [anythingS, shapeS, realise, pairsS_refines o s ps]
    | key => simp [anythingS, shapeS, realise, pairsS_refines o s ps]

theorem fieldS_refines (o : Opts) (s : Subst) (c : Nat) (f : FI) : ∀ (v : PVal),
    fieldS o s c f v = realise (shapeS o s (.field c f) v)
  | .atom a => by
    by_cases hh : s.target.hits (some f.name) (.atom a) = true
    · simp [fieldS, shapeS, hh, fieldD_refines o.noSer c f s.repl]
    · simp [fieldS, shapeS, hh, realise]
  | .inst c' h fs => by
    by_cases hh : s.target.hits (some f.name) (.inst c' h fs) = true
    · simp [fieldS, shapeS, hh, fieldD_refines o.noSer c f s.repl]
    · simp [fieldS, shapeS, hh, realise, fieldsS_refines o s c' fs]
  | .coll k xs => by
    by_cases hh : s.target.hits (some f.name) (.coll k xs) = true
    · simp [fieldS, shapeS, hh, fieldD_refines o.noSer c f s.repl]
    · have hitems := itemsS_refines o s xs .member false (by simp [notField]) (Or.inr (by simp))
      have hk : (if o.retain then k else CKind.list) = targetKind o (.field c f) k := by
        unfold targetKind; cases o.retain <;> simp
      simp only [fieldS, shapeS, hh, realise, hitems, memberCtx, if_false, Bool.false_eq_true]
      exact coll_eq (o := o) _ _ _ hk
  | .dict dk ps => by
    by_cases hh : s.target.hits (some f.name) (.dict dk ps) = true
    · simp [fieldS, shapeS, hh, fieldD_refines o.noSer c f s.repl]
    · simp [fieldS, shapeS, hh, realise, pairsS_refines o s ps]

theorem fieldsS_refines (o : Opts) (s : Subst) (c : Nat) : ∀ (fs : List (FI × PVal)),
    fieldsS o s c fs = realiseR (shapeSFields o s c fs)
  | [] => by simp [fieldsS, shapeSFields, realiseR]
  | (f, v) :: r => by
    have ihr := fieldsS_refines o s c r
    by_cases hp : passes o.filter f v = true
    · simp [fieldsS, shapeSFields, hp, realiseR, ihr, fieldS_refines o s c f v]
    · simp [fieldsS, shapeSFields, hp, ihr]

theorem itemsS_refines (o : Opts) (s : Subst) : ∀ (xs : List PVal) (ctx : Ctx) (isKey : Bool), notField ctx →
    ctxOK o ctx isKey → itemsS o s isKey xs = realiseL (shapeSItems o s ctx xs)
  | [], _, _, _, _ => by simp [itemsS, shapeSItems, realiseL]
  | x :: r, ctx, isKey, hnf, hc => by
    simp [itemsS, shapeSItems, realiseL, anythingS_refines o s x ctx isKey hnf hc,
      itemsS_refines o s r ctx isKey hnf hc]

theorem pairsS_refines (o : Opts) (s : Subst) : ∀ (ps : List (PVal × PVal)),
    pairsS o s ps = realiseP (shapeSPairs o s ps)
  | [] => by simp [pairsS, shapeSPairs, realiseP]
  | (k, v) :: r => by
    simp [pairsS, shapeSPairs, realiseP,
      anythingS_refines o s k .key true (by simp [notField]) (Or.inr (by simp)),
      anythingS_refines o s v .member false (by simp [notField]) (Or.inr (by simp)),
      pairsS_refines o s r]
end

theorem realiseR_flatS (o : Opts) (s : Subst) : ∀ fs : List (FI × PVal),
    realiseR (flatS o s fs) = .ok (flatS o s fs)
  | [] => rfl
  | (f, v) :: r => by
    have ih := realiseR_flatS o s r
    by_cases hp : passes o.filter f v = true
    · by_cases hh : s.target.hits (some f.name) v = true <;> simp [flatS, hp, hh, realiseR, ih, realise_embed]
    · simp [flatS, hp, ih]

end Attrs.C13
