/-
  The body of the generated initializer equals its declarative description: trace = the expected trace
  cut after the failing callback, outcome, and every field's value.
-/
import AttrsModel.Proofs.Init

namespace Attrs.Init
open Attrs.C02 (ev cutAt hits upTo preEvents expectedTrace attrEvents validatorEventsOf preEventArgs eventsUpTo)

/-! ### segments -/

/-- a piece of the body taking `st` to `st'` whose callbacks are `es` -/
structure Seg (f : Option EventId) (st st' : St) (es : List Event) : Prop where
  run : st.raised = none →
    st'.trace = st.trace ++ cutAt f es ∧ st'.raised = (if hits f es then some .user else none)
  skip : st.raised.isSome = true → st' = st

theorem Seg.comp {f : Option EventId} {s0 s1 s2 : St} {e1 e2 : List Event}
    (h1 : Seg f s0 s1 e1) (h2 : Seg f s1 s2 e2) : Seg f s0 s2 (e1 ++ e2) := by
  constructor
  · intro hr
    obtain ⟨ht, hra⟩ := h1.run hr
    by_cases hh : hits f e1 = true
    · have : s1.raised.isSome = true := by simp [hra, hh]
      rw [h2.skip this]
      simp [ht, hra, hh, cutAt_append, hits_append]
    · have hh' : hits f e1 = false := by simpa using hh
      have hr1 : s1.raised = none := by simp [hra, hh']
      obtain ⟨ht2, hra2⟩ := h2.run hr1
      simp [ht2, hra2, ht, hh', cutAt_append, hits_append, cutAt_of_not_hits _ _ hh', List.append_assoc]
  · intro hr
    rw [h2.skip (by rw [h1.skip hr]; exact hr), h1.skip hr]

theorem Seg.nil (f : Option EventId) (st : St) : Seg f st st [] :=
  ⟨fun hr => by simp [cutAt, hits, hr], fun _ => rfl⟩

theorem Seg.emit_one (f : Option EventId) (st : St) (e : Event) (hr : st.raised = none) :
    Seg f st (st.emit f e) [e] := by
  constructor
  · intro _
    by_cases hf : f = some e.id <;> simp [cutAt, hits, hf, emit_raised, hr]
  · intro h; simp [hr] at h

/-! ### the environment seen by pre-init -/

theorem env_lookup_param (attrs : List Attr) (c : Call) (hinj : AliasInj attrs) (p : Param)
    (hp : p ∈ params attrs) :
    lookup p.name (envOf attrs c) = some ((passed (params attrs) c p.name).getD (p.dflt.getD "?")) := by
  obtain ⟨b, hb, hbi, hpb⟩ := mem_params attrs p hp
  subst hpb
  simpa [paramOf] using env_lookup attrs c hinj b hb hbi

theorem preArgs_eq (attrs : List Attr) (c : Call) (hinj : AliasInj attrs) :
    preArgs attrs (envOf attrs c) = preEventArgs attrs c := by
  unfold preArgs preEventArgs
  have hval : ∀ p ∈ params attrs,
      (lookup p.name (envOf attrs c)).getD "?" =
        (match passed (params attrs) c p.name with | some v => v | none => p.dflt.getD "?") := by
    intro p hp
    rw [env_lookup_param attrs c hinj p hp]
    cases passed (params attrs) c p.name <;> rfl
  dsimp only
  congr 1
  · apply List.map_congr_left
    intro p hp
    rw [hval p (List.mem_filter.1 hp).1]
    cases passed (params attrs) c p.name <;> rfl
  · apply List.map_congr_left
    intro p hp
    rw [hval p (List.mem_filter.1 hp).1]
    cases passed (params attrs) c p.name <;> rfl

/-! ### the whole body -/

structure BodyOK (r : RunIn) (c : Call) : Prop where
  bind : BindOK r.attrs c
  nodup : (r.attrs.map (·.name)).Nodup
  cacheName : ∀ a ∈ r.attrs, a.name ≠ Generated.hashCacheField
  visible : ∀ a ∈ r.attrs, C01.misplaced r a = false

theorem upTo_congr (g h : Attr → List Event) (n : String) (l : List Attr) (hgh : ∀ b ∈ l, g b = h b) :
    upTo g n l = upTo h n l := by
  induction l with
  | nil => rfl
  | cons b l ih =>
    simp only [upTo, hgh b List.mem_cons_self]
    rw [ih (fun x hx => hgh x (List.mem_cons_of_mem _ hx))]

theorem flatMap_congr' {α β : Type} (g h : α → List β) (l : List α) (hgh : ∀ b ∈ l, g b = h b) :
    l.flatMap g = l.flatMap h := by
  induction l with
  | nil => rfl
  | cons b l ih =>
    simp only [List.flatMap_cons, hgh b List.mem_cons_self]
    rw [ih (fun x hx => hgh x (List.mem_cons_of_mem _ hx))]

/-- the events before a field's store are among all field events -/
theorem hits_upTo (f : Option EventId) (g : Attr → List Event) (n : String) (l : List Attr)
    (h : hits f (upTo g n l) = true) : hits f (l.flatMap g) = true := by
  induction l with
  | nil => simp [upTo, hits] at h
  | cons b l ih =>
    simp only [upTo, hits_append, Bool.or_eq_true] at h
    simp only [List.flatMap_cons, hits_append, Bool.or_eq_true]
    rcases h with h | h
    · exact Or.inl h
    · split at h
      · simp [hits] at h
      · exact Or.inr (ih h)

def lst (r : RunIn) : List Attr := r.attrs.filter participates

theorem foldOK_of (r : RunIn) (c : Call) (h : BodyOK r c) : FoldOK (envOf r.attrs c) (lst r) := by
  intro a ha
  have ha' := List.mem_filter.1 ha
  exact ⟨ha'.2, fun hi => env_isSome h.bind a ha'.1 hi⟩

theorem lst_nodup (r : RunIn) (h : (r.attrs.map (·.name)).Nodup) : ((lst r).map (·.name)).Nodup := by
  unfold lst
  exact List.Nodup.sublist (List.Sublist.map _ List.filter_sublist) h

theorem name_inj (l : List Attr) (h : (l.map (·.name)).Nodup) (a : Attr) (ha : a ∈ l) (b : Attr) (hb : b ∈ l)
    (hab : a.name = b.name) : a = b := by
  induction l with
  | nil => cases ha
  | cons x l ih =>
    have h2 : (∀ y ∈ l, ¬y.name = x.name) ∧ (l.map (·.name)).Nodup := by simpa using h
    rcases List.mem_cons.1 ha with ha1 | ha2
    · rcases List.mem_cons.1 hb with hb1 | hb2
      · rw [ha1, hb1]
      · exact absurd (by rw [← hab, ha1]) (h2.1 b hb2)
    · rcases List.mem_cons.1 hb with hb1 | hb2
      · exact absurd (by rw [hab, hb1]) (h2.1 a ha2)
      · exact ih h2.2 ha2 hb2

/-- the state after the field statements -/
def st1Of (r : RunIn) (c : Call) : St :=
  match r.cfg.pre with
  | .none => St.init
  | .noArgs => St.init.emit r.fault { id := { kind := "pre", field := "", idx := 0 }, args := [] }
  | .withArgs => St.init.emit r.fault
      { id := { kind := "pre", field := "", idx := 0 }, args := preArgs r.attrs (envOf r.attrs c) }

theorem seg_pre (r : RunIn) (c : Call) (h : BodyOK r c) :
    Seg r.fault St.init (st1Of r c) (preEvents r c) ∧ (st1Of r c).mem = St.init.mem := by
  unfold st1Of preEvents
  cases r.cfg.pre with
  | none => exact ⟨Seg.nil _ _, rfl⟩
  | noArgs => exact ⟨Seg.emit_one _ _ _ rfl, rfl⟩
  | withArgs =>
    rw [preArgs_eq r.attrs c h.bind.inj]
    exact ⟨Seg.emit_one _ _ _ rfl, rfl⟩

def st2Of (r : RunIn) (c : Call) : St :=
  (lst r).foldl (stepAttr r.cfg r.fault r.belief (envOf r.attrs c)) (st1Of r c)

theorem seg_attrs (r : RunIn) (c : Call) (h : BodyOK r c) :
    Seg r.fault (st1Of r c) (st2Of r c) ((lst r).flatMap (attrEvents r.attrs c)) := by
  have hcongr : (lst r).flatMap (attrEvents r.attrs c) = (lst r).flatMap (evEnv (envOf r.attrs c)) :=
    flatMap_congr' _ _ _ (fun b hb => (evEnv_bridge h.bind b (List.mem_filter.1 hb).1).symm)
  rw [hcongr]
  constructor
  · intro hr
    exact fold_trace_raised r.cfg r.fault r.belief _ (lst r) _ hr (foldOK_of r c h)
  · intro hr
    exact fold_raised r.cfg r.fault r.belief _ (lst r) _ hr

/-- the value the property assigns to a participating field -/
def expVal (r : RunIn) (c : Call) (a : Attr) : Val := convApply a (C01.rawOf r.attrs c a)

theorem visible_loc (r : RunIn) (c : Call) (h : BodyOK r c) (a : Attr) (ha : a ∈ lst r) :
    storeLoc (tech r.cfg (r.belief a.name) a) a = readLoc a := by
  have ha' := List.mem_filter.1 ha
  have hv := h.visible a ha'.1
  unfold C01.misplaced at hv
  unfold storeLoc readLoc
  cases ht : tech r.cfg (r.belief a.name) a <;> simp_all

/-- value of every field after the field statements -/
theorem st2_read (r : RunIn) (c : Call) (h : BodyOK r c) (a : Attr) (ha : a ∈ r.attrs) :
    (st2Of r c).read a =
      if participates a && !hits r.fault (eventsUpTo r c a) then some (expVal r c a) else none := by
  have hok := foldOK_of r c h
  have hmem1 := (seg_pre r c h).2
  have hseg1 := (seg_pre r c h).1
  unfold St.read st2Of
  cases hp : participates a with
  | false =>
    have hn : ∀ b ∈ lst r, b.name ≠ a.name := by
      intro b hb hba
      have hb' := List.mem_filter.1 hb
      have := name_inj r.attrs h.nodup b hb'.1 a ha hba
      subst this
      simp [hp] at hb'
    have := fold_mem_other r.cfg r.fault r.belief (envOf r.attrs c) (lst r) (st1Of r c) hok a.name (readLoc a) hn
    simp only [stepF] at this
    rw [this, hmem1]
    simp [St.init]
  | true =>
    have hal : a ∈ lst r := List.mem_filter.2 ⟨ha, hp⟩
    simp only [Bool.true_and]
    unfold eventsUpTo
    rw [hits_append]
    have hup : upTo (attrEvents r.attrs c) a.name (lst r) = upTo (evEnv (envOf r.attrs c)) a.name (lst r) :=
      upTo_congr _ _ _ _ (fun b hb => (evEnv_bridge h.bind b (List.mem_filter.1 hb).1).symm)
    by_cases hpre : hits r.fault (preEvents r c) = true
    · -- pre-init failed: nothing runs
      have hr1 : (st1Of r c).raised.isSome = true := by
        have := (hseg1.run rfl).2
        simp [this, hpre]
      have := fold_raised r.cfg r.fault r.belief (envOf r.attrs c) (lst r) (st1Of r c) hr1
      simp only [stepF] at this
      rw [this, hmem1]
      simp [hpre, St.init]
    · have hpre' : hits r.fault (preEvents r c) = false := by simpa using hpre
      have hr1 : (st1Of r c).raised = none := by
        have := (hseg1.run rfl).2
        simp [this, hpre']
      have := fold_mem_self r.cfg r.fault r.belief (envOf r.attrs c) (lst r) (st1Of r c) hr1 hok
        (lst_nodup r h.nodup) a hal (readLoc a)
      simp only [stepF] at this
      rw [this, hmem1, visible_loc r c h a hal, ← hup]
      have hraw := (bridge h.bind a ha).1
      simp only [hpre', Bool.false_or, lst, expVal, hraw, St.init]
      split <;> simp_all

/-! ### validators, post-init, hash cache -/

def st3Of (r : RunIn) (c : Call) : St :=
  if r.cfg.runValidators then (validatorEvents (lst r)).foldl (runValidator r.fault) (st2Of r c) else st2Of r c

theorem validatorEvents_map (r : RunIn) (c : Call) :
    (validatorEvents (lst r)).map (valEv (expVal r c)) = validatorEventsOf r.attrs c := by
  unfold validatorEvents validatorEventsOf lst valEv expVal
  simp only [List.map_flatMap, List.map_map]
  rfl

/-- no failure before the validators ⇒ every participating field is populated with its expected value -/
theorem populated (r : RunIn) (c : Call) (h : BodyOK r c) (hr2 : (st2Of r c).raised = none) :
    ∀ a ∈ lst r, (st2Of r c).read a = some (expVal r c a) := by
  intro a ha
  have ha' := List.mem_filter.1 ha
  have hseg := (seg_pre r c h).1.comp (seg_attrs r c h)
  have hra := (hseg.run rfl).2
  rw [hr2] at hra
  have hnh : hits r.fault (preEvents r c ++ (lst r).flatMap (attrEvents r.attrs c)) = false := by
    by_cases hh : hits r.fault (preEvents r c ++ (lst r).flatMap (attrEvents r.attrs c)) = true
    · simp [hh] at hra
    · simpa using hh
  have hup : hits r.fault (eventsUpTo r c a) = false := by
    unfold eventsUpTo
    rw [hits_append] at hnh ⊢
    simp only [Bool.or_eq_false_iff] at hnh ⊢
    refine ⟨hnh.1, ?_⟩
    by_cases hh : hits r.fault (upTo (attrEvents r.attrs c) a.name (List.filter participates r.attrs)) = true
    · have h1 := hits_upTo _ _ _ _ hh
      have h2 := hnh.2
      unfold lst at h2
      rw [h1] at h2
      cases h2
    · simpa using hh
  rw [st2_read r c h a ha'.1]
  simp [ha'.2, hup]

theorem seg_validators (r : RunIn) (c : Call) (h : BodyOK r c) :
    Seg r.fault (st2Of r c) (st3Of r c) (if r.cfg.runValidators then validatorEventsOf r.attrs c else []) ∧
    (st3Of r c).mem = (st2Of r c).mem := by
  unfold st3Of
  cases hv : r.cfg.runValidators with
  | false => exact ⟨by simpa using Seg.nil _ _, by simp⟩
  | true =>
    simp only [if_true]
    rw [← validatorEvents_map]
    cases hr2 : (st2Of r c).raised with
    | some e =>
      have hs : (st2Of r c).raised.isSome = true := by simp [hr2]
      rw [validators_raised _ _ _ hs]
      exact ⟨⟨fun hn => by simp [hr2] at hn, fun _ => rfl⟩, rfl⟩
    | none =>
      have hread : ∀ ai ∈ validatorEvents (lst r), (st2Of r c).read ai.1 = some (expVal r c ai.1) := by
        intro ai hai
        unfold validatorEvents at hai
        obtain ⟨a, ha, hai2⟩ := List.mem_flatMap.1 hai
        obtain ⟨i, _, hi⟩ := List.mem_map.1 hai2
        rw [← hi]
        exact populated r c h hr2 a ha
      obtain ⟨h1, h2, h3⟩ := validators_fold r.fault (expVal r c) (validatorEvents (lst r)) (st2Of r c) hr2 hread
      exact ⟨⟨fun _ => ⟨h1, h2⟩, fun hs => by simp [hr2] at hs⟩, h3⟩

def st4Of (r : RunIn) (c : Call) : St :=
  if (st3Of r c).raised.isSome || !r.cfg.post then st3Of r c else
    (st3Of r c).emit r.fault { id := { kind := "post", field := "", idx := 0 }, args := [] }

theorem seg_post (r : RunIn) (c : Call) :
    Seg r.fault (st3Of r c) (st4Of r c) (if r.cfg.post then [ev "post" "" 0 []] else []) ∧
    (st4Of r c).mem = (st3Of r c).mem := by
  unfold st4Of
  cases hp : r.cfg.post with
  | false => simp only [Bool.not_false, Bool.or_true, if_true]; exact ⟨by simpa using Seg.nil _ _, trivial⟩
  | true =>
    cases hr : (st3Of r c).raised with
    | some e =>
      simp only [Option.isSome_some, Bool.true_or, if_true]
      exact ⟨⟨fun hn => by simp [hr] at hn, fun _ => rfl⟩, trivial⟩
    | none =>
      simp only [Option.isSome_none, Bool.not_true, Bool.or_false, Bool.false_eq_true, if_false, if_true]
      exact ⟨Seg.emit_one _ _ _ hr, rfl⟩

def cacheAttr (r : RunIn) : Attr := { hashCacheAttr with isSlot := r.cacheIsSlot }

def st5Of (r : RunIn) (c : Call) : St :=
  if (st4Of r c).raised.isSome || !r.cfg.cacheHash then st4Of r c else
    if r.cfg.frozen && !r.cfg.slots then (st4Of r c).write (cacheAttr r).name .dict "None"
    else (st4Of r c).write (cacheAttr r).name (readLoc (cacheAttr r)) "None"

theorem body_eq (r : RunIn) (c : Call) : body r (envOf r.attrs c) = st5Of r c := rfl

theorem st5_trace_raised (r : RunIn) (c : Call) :
    (st5Of r c).trace = (st4Of r c).trace ∧ (st5Of r c).raised = (st4Of r c).raised := by
  unfold st5Of
  split
  · exact ⟨rfl, rfl⟩
  · split <;> exact ⟨rfl, rfl⟩

theorem st5_mem (r : RunIn) (c : Call) (n : String) (L : Loc) (hn : n ≠ Generated.hashCacheField) :
    (st5Of r c).mem n L = (st4Of r c).mem n L := by
  unfold st5Of
  split
  · rfl
  · split <;> exact write_mem_other _ _ _ _ _ _ hn

/-- **the body theorem**: trace, outcome and field values of the generated initializer -/
theorem body_spec (r : RunIn) (c : Call) (h : BodyOK r c) :
    (body r (envOf r.attrs c)).trace = cutAt r.fault (expectedTrace r c) ∧
    (body r (envOf r.attrs c)).raised = (if hits r.fault (expectedTrace r c) then some .user else none) ∧
    ∀ a ∈ r.attrs, (body r (envOf r.attrs c)).read a =
      if participates a && !hits r.fault (eventsUpTo r c a) then some (expVal r c a) else none := by
  have hseg := (((seg_pre r c h).1.comp (seg_attrs r c h)).comp (seg_validators r c h).1).comp (seg_post r c).1
  have hrun := hseg.run rfl
  have htr := st5_trace_raised r c
  rw [body_eq]
  refine ⟨?_, ?_, ?_⟩
  · rw [htr.1, hrun.1]; simp [expectedTrace, St.init, lst]
  · rw [htr.2, hrun.2]; simp [expectedTrace, lst]
  · intro a ha
    unfold St.read
    rw [st5_mem r c a.name _ (h.cacheName a ha), (seg_post r c).2, (seg_validators r c h).2]
    exact st2_read r c h a ha

/-! ### the whole call -/

theorem mapM_some {α β : Type} (g : α → Option β) (h : α → β) (l : List α) (hg : ∀ a ∈ l, g a = some (h a)) :
    l.mapM g = some (l.map h) := by
  induction l with
  | nil => rfl
  | cons a l ih =>
    simp [List.mapM_cons, hg a List.mem_cons_self, ih (fun b hb => hg b (List.mem_cons_of_mem _ hb))]

theorem hits_eventsUpTo (r : RunIn) (c : Call) (a : Attr)
    (h : hits r.fault (eventsUpTo r c a) = true) : hits r.fault (expectedTrace r c) = true := by
  unfold eventsUpTo at h
  unfold expectedTrace
  rw [hits_append] at h
  simp only [hits_append, Bool.or_eq_true] at h ⊢
  rcases h with h | h
  · exact Or.inl (Or.inl (Or.inl h))
  · exact Or.inl (Or.inl (Or.inr (hits_upTo _ _ _ _ h)))

/-- the declarative value list of the specification -/
def specValues (r : RunIn) (c : Call) : List (String × Option Val) :=
  r.attrs.map (fun a =>
    (a.name, if hits r.fault (eventsUpTo r c a) then none else C01.expectedValue r.attrs c a))

theorem values_eq (r : RunIn) (c : Call) (h : BodyOK r c) :
    r.attrs.map (fun a => (a.name, (body r (envOf r.attrs c)).read a)) = specValues r c := by
  unfold specValues
  apply List.map_congr_left
  intro a ha
  rw [(body_spec r c h).2.2 a ha]
  unfold C01.expectedValue expVal
  cases participates a <;> cases hits r.fault (eventsUpTo r c a) <;> simp

theorem excArgs_eq (r : RunIn) (c : Call) (h : BodyOK r c) (hnh : hits r.fault (expectedTrace r c) = false) :
    excArgs r.attrs (body r (envOf r.attrs c)) =
      some (((r.attrs.filter participates).filter (·.init)).map (fun a => convApply a (C01.rawOf r.attrs c a))) := by
  unfold excArgs
  apply mapM_some
  intro a ha
  have ha1 := List.mem_filter.1 ha
  have ha2 := List.mem_filter.1 ha1.1
  rw [(body_spec r c h).2.2 a ha2.1]
  have : hits r.fault (eventsUpTo r c a) = false := by
    by_cases hh : hits r.fault (eventsUpTo r c a) = true
    · rw [hits_eventsUpTo r c a hh] at hnh; cases hnh
    · simpa using hh
  simp [ha2.2, this, expVal]

/-- **the call theorem**: every observable of a well-formed call of the modelled initializer -/
theorem runInit_spec (c : Case) (h : BodyOK c.eff c.call) :
    (runInit c).sig = sigOf c.eff.attrs ∧ (runInit c).annotations = annotationsOf c.eff.attrs ∧
    (runInit c).trace = cutAt c.eff.fault (expectedTrace c.eff c.call) ∧
    (runInit c).exc = (if hits c.eff.fault (expectedTrace c.eff c.call) then some .user else none) ∧
    (runInit c).values = specValues c.eff c.call ∧
    (runInit c).excArgs = (if c.eff.cfg.isExc && !hits c.eff.fault (expectedTrace c.eff c.call) then
        some (((c.eff.attrs.filter participates).filter (·.init)).map
          (fun a => convApply a (C01.rawOf c.eff.attrs c.call a)))
      else none) := by
  have hb := body_spec c.eff c.call h
  have hv := values_eq c.eff c.call h
  unfold runInit
  dsimp only
  rw [bind_eq c.eff.attrs c.call h.bind.ok]
  dsimp only
  cases hh : hits c.eff.fault (expectedTrace c.eff c.call) with
  | true =>
    have hr : (body c.eff (envOf c.eff.attrs c.call)).raised = some .user := by simp [hb.2.1, hh]
    simp only [hr, hb.1, hv]
    simp
  | false =>
    have hr : (body c.eff (envOf c.eff.attrs c.call)).raised = none := by simp [hb.2.1, hh]
    simp only [hr]
    cases hx : c.eff.cfg.isExc with
    | false => simp [hb.1, hv]
    | true =>
      simp only [if_true, excArgs_eq c.eff c.call h hh, hb.1, hv]
      simp

end Attrs.Init
