/-
  C18 — helper lemmas: equal hashable parameters give hashable, hash-equal built validators.
-/
import AttrsModel.Proofs.C18Eq

set_option linter.unusedSimpArgs false

namespace Attrs.C18

@[simp] theorem first_none_right (a : Option ExcKind) : first a none = a := by
  cases a <;> rfl

theorem first_eq_none {a b : Option ExcKind} : first a b = none ↔ a = none ∧ b = none := by
  cases a <;> simp [first]

theorem vhashL_append (eo : EqOracle) (A B : List V) :
    vhashL eo (A ++ B) = first (vhashL eo A) (vhashL eo B) := by
  induction A with
  | nil => simp [vhashL, first]
  | cons a A ih =>
    simp only [List.cons_append, vhashL, ih]
    cases vhash eo a <;> simp [first]

theorem vhashL_andItems_norm (eo : EqOracle) (v : V) (h : source v = true) :
    vhashL eo (andItems (norm v)) = vhash eo (norm v) := by
  cases v <;> simp_all [norm, andItems, vhashL, vhash, source]

theorem vhashL_orItems_norm (eo : EqOracle) (v : V) :
    vhashL eo (orItems (norm v)) = vhash eo (norm v) := by
  cases v <;> simp [norm, orItems, vhashL, vhash]

theorem vhashEqL_append (eo : EqOracle) : ∀ (A B C D : List V),
    vhashEqL eo A B = true → vhashEqL eo C D = true → vhashEqL eo (A ++ C) (B ++ D) = true
  | [], B, C, D, h1, h2 => by
      cases B with
      | nil => simpa using h2
      | cons b B => simp [vhashEqL] at h1
  | a :: A, B, C, D, h1, h2 => by
      cases B with
      | nil => simp [vhashEqL] at h1
      | cons b B =>
        simp only [vhashEqL, Bool.and_eq_true] at h1
        simp only [List.cons_append, vhashEqL, Bool.and_eq_true]
        exact ⟨h1.1, vhashEqL_append eo A B C D h1.2 h2⟩

theorem vhashEqL_andItems (eo : EqOracle) (v w : V) (h1 : source v = true) (h2 : source w = true)
    (hs : sameUpTo eo v w = true) (h : vhashEq eo (norm v) (norm w) = true) :
    vhashEqL eo (andItems (norm v)) (andItems (norm w)) = true := by
  have hand := sameUpTo_isAnd eo v w hs
  cases hv : isAnd v
  · rw [andItems_norm_of_not_and v h1 hv, andItems_norm_of_not_and w h2 (by rw [← hand, hv])]
    simpa [vhashEqL] using h
  · cases v <;> simp [isAnd] at hv
    cases w <;> simp [isAnd] at hand
    simpa [norm, andItems, vhashEq] using h

theorem vhashEqL_orItems (eo : EqOracle) (v w : V)
    (hs : sameUpTo eo v w = true) (h : vhashEq eo (norm v) (norm w) = true) :
    vhashEqL eo (orItems (norm v)) (orItems (norm w)) = true := by
  have hor := sameUpTo_isOr eo v w hs
  cases hv : isOr v
  · rw [orItems_norm_of_not_or v hv, orItems_norm_of_not_or w (by rw [← hor, hv])]
    simpa [vhashEqL] using h
  · cases v <;> simp [isOr] at hv
    cases w <;> simp [isOr] at hor
    simpa [norm, orItems, vhashEq] using h

theorem cohLeaf_use (eo : EqOracle) (s p p' : Nat) (hc : cohLeaf eo s p p' = true)
    (h1 : eo.peq s p p' = .t) (h2 : eo.phash s p = .t) (h3 : eo.phash s p' = .t) : eo.phashEq s p p' = true := by
  simpa [cohLeaf, h1, h2, h3] using hc

theorem bound_hash (eo : EqOracle) (b b' : Bound) (hs : boundSame eo b b' = true) (hc : cohBound eo b b' = true)
    (h1 : boundHashable eo b = true) (h2 : boundHashable eo b' = true) :
    boundHash eo b = none ∧ boundHash eo b' = none ∧ boundHashEq eo b b' = true := by
  cases b <;> cases b' <;> simp_all [boundSame, cohBound, boundHashable, boundHash, boundHashEq, primErr]
  exact cohLeaf_use eo 4 _ _ hc hs h1 h2

/-- the three facts about hashes of a pair of built objects -/
def HashOK (eo : EqOracle) (a b : V) : Prop :=
  vhash eo a = none ∧ vhash eo b = none ∧ vhashEq eo a b = true

def HashOKL (eo : EqOracle) (A B : List V) : Prop :=
  vhashL eo A = none ∧ vhashL eo B = none ∧ vhashEqL eo A B = true

mutual
theorem vhash_norm (eo : EqOracle) : ∀ (v w : V), source v = true → source w = true →
    sameUpTo eo v w = true → k9 eo v w = false → coherent eo v w = true →
    paramsHashable eo v = true → paramsHashable eo w = true →
    HashOK eo (norm v) (norm w)
  | .instOf t, w, _, _, hs, _, hc, p1, p2 => by
      cases w <;> simp [sameUpTo] at hs
      simp [paramsHashable] at p1 p2
      simp [coherent] at hc
      simp [HashOK, norm, vhash, vhashEq, primErr, p1, p2, cohLeaf_use eo 0 _ _ hc hs p1 p2]
  | .matchesRe r fl fn, w, _, _, hs, _, hc, _, _ => by
      cases w <;> simp [sameUpTo] at hs
      obtain ⟨⟨h1, h2⟩, h3⟩ := hs
      subst h2 h3
      simp [coherent, h1] at hc
      simp [HashOK, norm, vhash, vhashEq, hc]
  | .optional v, w, h1, h2, hs, hk, hc, p1, p2 => by
      cases w <;> simp [sameUpTo] at hs
      rename_i v'
      simp only [source] at h1 h2
      simp only [k9] at hk
      simp only [coherent] at hc
      simp only [paramsHashable] at p1 p2
      simpa [HashOK, norm, vhash, vhashEq] using vhash_norm eo v v' h1 h2 hs hk hc p1 p2
  | .optionalSeq t vs, w, h1, h2, hs, hk, hc, p1, p2 => by
      cases w <;> simp [sameUpTo] at hs
      rename_i t' vs'
      obtain ⟨ht, hs⟩ := hs
      subst ht
      simp only [source] at h1 h2
      simp only [k9] at hk
      simp only [coherent] at hc
      simp [paramsHashable] at p1 p2
      have := (vhashL_norm eo vs vs' h1 h2 hs hk hc p1.2 p2.2).1
      simpa [HashOK, HashOKL, norm, vhash, vhashEq, p1.1] using this
  | .in_ p, w, _, _, hs, hk, hc, p1, p2 => by
      cases w <;> simp [sameUpTo] at hs
      simp [k9, hs] at hk
      simp [paramsHashable] at p1 p2
      simp [coherent, p1, p2] at hc
      simp [HashOK, norm, vhash, vhashEq, primErr, hc, cohLeaf_use eo 2 _ _ hc.1.1 hk hc.1.2 hc.2]
  | .isCallable, w, _, _, hs, _, _, _, _ => by
      cases w <;> simp [sameUpTo] at hs
      simp [HashOK, norm, vhash, vhashEq]
  | .deepIter m it, w, h1, h2, hs, hk, hc, p1, p2 => by
      cases w <;> simp [sameUpTo] at hs
      rename_i m' it'
      simp [source] at h1 h2
      simp [k9] at hk
      simp [coherent] at hc
      simp [paramsHashable] at p1 p2
      have a := vhash_norm eo m m' h1.1 h2.1 hs.1 hk.1 hc.1 p1.1 p2.1
      have b := vhash_norm eo it it' h1.2 h2.2 hs.2 hk.2 hc.2 p1.2 p2.2
      simp [HashOK] at a b
      simp [HashOK, norm, vhash, vhashEq, first_eq_none, a, b]
  | .deepIterSeq t ms it, w, h1, h2, hs, hk, hc, p1, p2 => by
      cases w <;> simp [sameUpTo] at hs
      rename_i t' ms' it'
      simp [source] at h1 h2
      simp [k9] at hk
      simp [coherent] at hc
      simp [paramsHashable] at p1 p2
      have a := (vhashL_norm eo ms ms' h1.1 h2.1 hs.1.2 hk.1 hc.1 p1.1.2 p2.1.2).2.1
      have b := vhash_norm eo it it' h1.2 h2.2 hs.2 hk.2 hc.2 p1.2 p2.2
      simp [HashOK, HashOKL] at a b
      simp [HashOK, norm, vhash, vhashEq, first_eq_none, a, b]
  | .deepMap k v m, w, h1, h2, hs, hk, hc, p1, p2 => by
      cases w <;> simp [sameUpTo] at hs
      rename_i k' v' m'
      simp [source] at h1 h2
      simp [k9] at hk
      simp [coherent] at hc
      simp [paramsHashable] at p1 p2
      have a := vhash_norm eo k k' h1.1.1 h2.1.1 hs.1.1 hk.1.1 hc.1.1 p1.1.1 p2.1.1
      have b := vhash_norm eo v v' h1.1.2 h2.1.2 hs.1.2 hk.1.2 hc.1.2 p1.1.2 p2.1.2
      have c := vhash_norm eo m m' h1.2 h2.2 hs.2 hk.2 hc.2 p1.2 p2.2
      simp [HashOK] at a b c
      simp [HashOK, norm, vhash, vhashEq, first_eq_none, a, b, c]
  | .num op b, w, _, _, hs, _, hc, p1, p2 => by
      cases w <;> simp [sameUpTo] at hs
      simp [paramsHashable] at p1 p2
      simp [coherent] at hc
      simp [HashOK, norm, vhash, vhashEq, primErr, p1, p2, hs.1, cohLeaf_use eo 3 _ _ hc hs.2 p1 p2]
  | .maxLen b, w, _, _, hs, _, hc, p1, p2 => by
      cases w <;> simp [sameUpTo] at hs
      simp [paramsHashable] at p1 p2
      simp [coherent] at hc
      simpa [HashOK, norm, vhash, vhashEq] using bound_hash eo _ _ hs hc p1 p2
  | .minLen b, w, _, _, hs, _, hc, p1, p2 => by
      cases w <;> simp [sameUpTo] at hs
      simp [paramsHashable] at p1 p2
      simp [coherent] at hc
      simpa [HashOK, norm, vhash, vhashEq] using bound_hash eo _ _ hs hc p1 p2
  | .not_ v m e, w, h1, h2, hs, hk, hc, p1, p2 => by
      cases w <;> simp [sameUpTo] at hs
      rename_i v' m' e'
      simp only [source] at h1 h2
      simp only [k9] at hk
      simp only [coherent] at hc
      simp [paramsHashable] at p1 p2
      have a := vhash_norm eo v v' h1 h2 hs.1.1 hk hc p1.1 p2.1
      simp [HashOK] at a
      simp [HashOK, norm, vhash, vhashEq, a, hs.1.2, hs.2]
  | .or_ vs, w, h1, h2, hs, hk, hc, p1, p2 => by
      cases w <;> simp [sameUpTo] at hs
      rename_i vs'
      simp only [source] at h1 h2
      simp only [k9] at hk
      simp only [coherent] at hc
      simp only [paramsHashable] at p1 p2
      have := (vhashL_norm eo vs vs' h1 h2 hs hk hc p1 p2).2.2
      simpa [HashOK, HashOKL, norm, vhash, vhashEq] using this
  | .and_ vs, w, h1, h2, hs, hk, hc, p1, p2 => by
      cases w <;> simp [sameUpTo] at hs
      rename_i vs'
      simp only [source] at h1 h2
      simp only [k9] at hk
      simp only [coherent] at hc
      simp only [paramsHashable] at p1 p2
      have := (vhashL_norm eo vs vs' h1 h2 hs hk hc p1 p2).2.1
      simpa [HashOK, HashOKL, norm, vhash, vhashEq] using this
  | .andRaw _ _, _, h1, _, _, _, _, _, _ => by simp [source] at h1
  | .probe p r, w, _, _, hs, _, _, _, _ => by
      cases w <;> simp [sameUpTo] at hs
      simp [HashOK, norm, vhash, vhashEq, hs]
  | .junk, w, _, _, hs, _, _, _, _ => by
      cases w <;> simp [sameUpTo] at hs
      simp [HashOK, norm, vhash, vhashEq]
  | .noneV, w, _, _, hs, _, _, _, _ => by
      cases w <;> simp [sameUpTo] at hs
      simp [HashOK, norm, vhash, vhashEq]
theorem vhashL_norm (eo : EqOracle) : ∀ (vs ws : List V), sourceL vs = true → sourceL ws = true →
    sameUpToL eo vs ws = true → k9L eo vs ws = false → coherentL eo vs ws = true →
    paramsHashableL eo vs = true → paramsHashableL eo ws = true →
    HashOKL eo (normL vs) (normL ws) ∧
    HashOKL eo ((normL vs).flatMap andItems) ((normL ws).flatMap andItems) ∧
    HashOKL eo ((normL vs).flatMap orItems) ((normL ws).flatMap orItems)
  | [], ws, _, _, hs, _, _, _, _ => by
      cases ws <;> simp [sameUpToL] at hs
      simp [HashOKL, normL, vhashL, vhashEqL]
  | v :: vs, ws, h1, h2, hs, hk, hc, p1, p2 => by
      cases ws with
      | nil => simp [sameUpToL] at hs
      | cons w ws =>
        simp [sameUpToL] at hs
        simp [sourceL] at h1 h2
        simp [k9L] at hk
        simp [coherentL] at hc
        simp [paramsHashableL] at p1 p2
        have a := vhash_norm eo v w h1.1 h2.1 hs.1 hk.1 hc.1 p1.1 p2.1
        have b := vhashL_norm eo vs ws h1.2 h2.2 hs.2 hk.2 hc.2 p1.2 p2.2
        obtain ⟨a1, a2, a3⟩ := a
        obtain ⟨⟨b1, b2, b3⟩, ⟨c1, c2, c3⟩, ⟨d1, d2, d3⟩⟩ := b
        refine ⟨⟨?_, ?_, ?_⟩, ⟨?_, ?_, ?_⟩, ⟨?_, ?_, ?_⟩⟩
        · simp [normL, vhashL, first_eq_none, a1, b1]
        · simp [normL, vhashL, first_eq_none, a2, b2]
        · simp [normL, vhashEqL, a3, b3]
        · simp [normL, List.flatMap_cons, vhashL_append, vhashL_andItems_norm eo v h1.1, first_eq_none, a1, c1]
        · simp [normL, List.flatMap_cons, vhashL_append, vhashL_andItems_norm eo w h2.1, first_eq_none, a2, c2]
        · simp only [normL, List.flatMap_cons]
          exact vhashEqL_append eo _ _ _ _ (vhashEqL_andItems eo v w h1.1 h2.1 hs.1 a3) c3
        · simp [normL, List.flatMap_cons, vhashL_append, vhashL_orItems_norm, first_eq_none, a1, d1]
        · simp [normL, List.flatMap_cons, vhashL_append, vhashL_orItems_norm, first_eq_none, a2, d2]
        · simp only [normL, List.flatMap_cons]
          exact vhashEqL_append eo _ _ _ _ (vhashEqL_orItems eo v w hs.1 a3) d3
end


end Attrs.C18
