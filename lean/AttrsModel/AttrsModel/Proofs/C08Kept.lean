/-
  C08 — well-formedness in Prop form, and the "kept" theorem: a body entry that survives the field-name
  filter, is not a cached property and is not one of the keys the build writes is the identical object in
  the new class dict.
-/
import AttrsModel.Proofs.C08Struct

namespace Attrs.C08

structure WFNames (c : Case) : Prop where
  ownNodup : c.own.Nodup
  inhNodup : c.inherited.Nodup
  disjoint : ∀ n ∈ c.own, c.inherited.contains n = false
  special : ∀ n ∈ attrNames c, specialNames.contains n = false

structure WFBody (c : Case) : Prop where
  keysNodup : (c.body.map (·.1)).Nodup
  reserved : ∀ kv ∈ c.body, reservedKeys.contains kv.1 = false
  layoutPlain : ∀ kv ∈ c.body, ["__dict__", "__weakref__", "__slots__"].contains kv.1 = true → kv.2 = .plain
  specialNotCprop : ∀ kv ∈ c.body,
    ["__getattr__", "__setattr__", "__attrs_init_subclass__"].contains kv.1 = true → isCpropItem kv.2 = false
  custom : c.body.any (·.1 == "__setattr__") = c.customSetattr
  customMode : c.customSetattr = true → c.setattrMode = .none

theorem wfNames_elim (c : Case) (h : wfNames c = true) : WFNames c := by
  unfold wfNames distinct at h
  simp only [Bool.and_eq_true, decide_eq_true_eq, List.all_eq_true, Bool.not_eq_true'] at h
  obtain ⟨⟨⟨h1, h2⟩, h3⟩, h4⟩ := h
  exact ⟨h1, h2, h3, h4⟩

theorem wfBody_elim (c : Case) (h : wfBody c = true) : WFBody c := by
  unfold wfBody distinct at h
  simp only [Bool.and_eq_true, decide_eq_true_eq, List.all_eq_true, Bool.not_eq_true', Bool.or_eq_true,
    beq_iff_eq] at h
  obtain ⟨⟨⟨⟨⟨⟨h1, h2⟩, h3⟩, h4⟩, h5⟩, h6⟩, _⟩ := h
  refine ⟨h1, h2, ?_, ?_, h5, ?_⟩
  · intro kv hkv hc
    rcases h3 kv hkv with h | h
    · rw [hc] at h; cases h
    · exact h
  · intro kv hkv hc
    rcases h4 kv hkv with h | h
    · rw [hc] at h; cases h
    · exact h
  · intro hc
    rcases h6 with h | h
    · rw [hc] at h; cases h
    · exact h

theorem wf_names (c : Case) (h : wf c = true) : WFNames c := by
  unfold wf at h; simp only [Bool.and_eq_true] at h; exact wfNames_elim c h.1.1.1

theorem wf_body (c : Case) (h : wf c = true) : WFBody c := by
  unfold wf at h; simp only [Bool.and_eq_true] at h; exact wfBody_elim c h.1.1.2

/-- membership in a literal list of names, as inequalities -/
theorem not_reserved (k : String) (h : reservedKeys.contains k = false) :
    k ≠ "__attrs_own_setattr__" ∧ k ≠ "__qualname__" ∧ k ≠ "__delattr__" ∧ k ≠ Generated.hashCacheField := by
  unfold reservedKeys at h
  simp only [List.contains_cons, List.contains_nil, Bool.or_false, Bool.or_eq_false_iff, beq_eq_false_iff_ne] at h
  exact ⟨h.1, h.2.1, h.2.2.1, h.2.2.2⟩

theorem keepKey_elim (c : Case) (k : String) (h : keepKey c k = true) :
    (attrNames c).contains k = false ∧ k ≠ "__dict__" ∧ k ≠ "__weakref__" := by
  unfold keepKey at h
  simp only [Bool.and_eq_true, Bool.not_eq_true', bne_iff_ne] at h
  exact ⟨h.1.1, h.1.2, h.2⟩

theorem own_in_attrNames (c : Case) (n : String) (h : n ∈ c.own) : (attrNames c).contains n = true := by
  unfold attrNames
  simp [h]

/-- a key kept by the filter is not a slot name unless it is a cached property -/
theorem keep_not_slotName0 (c : Case) (k : String) (hk : keepKey c k = true) (h3 : k ∉ cpropNames c) :
    k ∉ slotNames0 c := by
  intro h
  obtain ⟨ha, hd, hw⟩ := keepKey_elim c k hk
  rcases (mem_slotNames0 c k h).1 with h | h | h
  · rw [own_in_attrNames c k h] at ha; cases ha
  · exact hw h.1
  · exact h3 h

/-- what the filtered copy holds under a body key -/
theorem get_cd0_body (c : Case) (hb : WFBody c) (k : String) (it : Item) (hm : (k, it) ∈ c.body)
    (hk : keepKey c k = true) : Dict.get (cd0 c) k = some (.orig it) := by
  rw [get_cd0, hk]
  simp only [if_true]
  unfold clsDict
  rw [get_append, get_map_orig c.body k it hb.keysNodup hm]

/-- **kept**: the new class dict holds the identical object under every body key that survives the filter,
    is not a cached property, is not `__slots__`, and is not a `__getattr__` shadowed by the generated one -/
theorem kept (c : Case) (hb : WFBody c) (k : String) (it : Item) (hm : (k, it) ∈ c.body)
    (hk : keepKey c k = true) (hc : ∀ f, it ≠ .cprop f) (hs : k ≠ "__slots__")
    (hg : k = "__getattr__" → (cachedProps c).isEmpty = true) :
    Dict.get (newDict c) k = some (.orig it) := by
  obtain ⟨r1, r2, _, r4⟩ := not_reserved k (hb.reserved (k, it) hm)
  have h3 := not_cpropName c k it hb.keysNodup hm hc
  have h2 : k = "__setattr__" → c.customSetattr = true := by
    intro e
    rw [← hb.custom]
    exact List.any_eq_true.2 ⟨(k, it), hm, by simp [e]⟩
  rw [get_newDict_untouched c k r1 h2 h3 hg (keep_not_slotName0 c k hk h3) hs r2 r4]
  exact get_cd0_body c hb k it hm hk

end Attrs.C08
