/-
  C07 — names of declared fields are distinct; the non-inherited part of a built tuple is what the class
  declares (`specFinalOwn`), whatever the table of its bases holds.
-/
import AttrsModel.Proofs.C07Own

namespace Attrs.C07

theorem nodupStr_iff (l : List String) : nodupStr l = true ↔ l.Nodup := by
  induction l with
  | nil => simp [nodupStr]
  | cons a l ih => simp [nodupStr, ih]

theorem nodupNat_iff (l : List Nat) : nodupNat l = true ↔ l.Nodup := by
  induction l with
  | nil => simp [nodupNat]
  | cons a l ih => simp [nodupNat, ih]

@[simp] theorem attrOf_name (n : String) (o : FOpts) (t : Option Nat) : (attrOf n o t).name = n := rfl
@[simp] theorem attrOf_inherited (n : String) (o : FOpts) (t : Option Nat) : (attrOf n o t).inherited = false := rfl
@[simp] theorem autoAttr_name (i : Item) : (autoAttr i).name = i.name := by
  unfold autoAttr; split <;> rfl
@[simp] theorem autoAttr_inherited (i : Item) : (autoAttr i).inherited = false := by
  unfold autoAttr; split <;> rfl
@[simp] theorem defaultAlias_name (a : Attr) : (defaultAlias a).name = a.name := by
  unfold defaultAlias; split <;> (try split) <;> rfl
@[simp] theorem defaultAlias_inherited (a : Attr) : (defaultAlias a).inherited = a.inherited := by
  unfold defaultAlias; split <;> (try split) <;> rfl
@[simp] theorem setKw_inherited (a : Attr) : (setKw a).inherited = a.inherited := rfl

theorem names_map_defaultAlias (l : List Attr) : names (l.map defaultAlias) = names l := by
  simp [names, Function.comp_def]

theorem names_kwIf (b : Bool) (l : List Attr) : names (kwIf b l) = names l := by
  cases b <;> simp [kwIf, names_map_setKw]

/-- item names of the declared fields, whichever branch discovers them -/
theorem names_specOwn (c : Cls) :
    names (specOwn c) =
      match c.these with
      | some l => l.map (·.1)
      | none =>
        if specAuto c then (c.items.filter annotated).map (·.name)
        else (sortByCounter (c.items.filter (fun i => i.val.isIb))).map (·.name) := by
  unfold specOwn
  cases c.these with
  | some l => simp [names, Function.comp_def]
  | none =>
    by_cases h : specAuto c = true
    · simp [h, filterMap_ite, names, Function.comp_def]
    · simp [h, names, Function.comp_def]

theorem specOwn_nodup {k : Nat} {c : Cls} (hwf : wfCls k c = true) : (names (specOwn c)).Nodup := by
  rw [names_specOwn]
  simp only [wfCls, Bool.and_eq_true, nodupStr_iff] at hwf
  obtain ⟨⟨⟨_, hitems⟩, _⟩, hthese⟩ := hwf
  cases ht : c.these with
  | some l => simpa [ht, nodupStr_iff] using hthese
  | none =>
    simp only
    split
    · exact List.Nodup.sublist (List.Sublist.map _ List.filter_sublist) hitems
    · exact ((sortByCounter_perm _).map _).nodup_iff.2
        (List.Nodup.sublist (List.Sublist.map _ List.filter_sublist) hitems)

theorem names_specOwn_subset (c : Cls) : ∀ n ∈ names (specOwn c), n ∈ declNames c := by
  intro n hn
  rw [names_specOwn] at hn
  unfold declNames
  cases ht : c.these with
  | some l => simp only [ht] at hn; exact List.mem_append_right _ hn
  | none =>
    simp only [ht] at hn
    apply List.mem_append_left
    split at hn
    · obtain ⟨i, hi, rfl⟩ := List.mem_map.1 hn
      exact List.mem_map.2 ⟨i, (List.mem_filter.1 hi).1, rfl⟩
    · obtain ⟨i, hi, rfl⟩ := List.mem_map.1 hn
      exact List.mem_map.2 ⟨i, (List.mem_filter.1 (mem_sortByCounter.1 hi)).1, rfl⟩

theorem specOwn_not_inherited (c : Cls) : ∀ a ∈ specOwn c, a.inherited = false := by
  intro a ha
  unfold specOwn at ha
  cases ht : c.these with
  | some l =>
    simp only [ht, List.mem_map] at ha
    obtain ⟨⟨n, o⟩, _, rfl⟩ := ha; rfl
  | none =>
    simp only [ht] at ha
    split at ha
    · rw [filterMap_ite, List.mem_map] at ha
      obtain ⟨i, _, rfl⟩ := ha; simp
    · rw [List.mem_map] at ha
      obtain ⟨i, _, rfl⟩ := ha; rfl

/-! ### transformers -/

theorem names_applyTr_nodup (tr : Tr) (k : Nat) (l : List Attr) (h : (names l).Nodup)
    (hadd : ∀ n ∈ addName tr, n ∉ names l) : (names (applyTr tr k l)).Nodup := by
  cases tr with
  | none => exact h
  | ident => exact h
  | reverse =>
    simp only [applyTr, names_reverse]
    exact (List.reverse_perm _).nodup_iff.2 h
  | drop n => exact List.Nodup.sublist (List.Sublist.map _ List.filter_sublist) h
  | add n o =>
    simp only [applyTr, names_append, names_cons, names_nil, attrOf_name]
    rw [List.nodup_append]
    refine ⟨h, by simp, ?_⟩
    intro a ha b hb
    simp only [List.mem_singleton] at hb
    subst hb
    intro hab; subst hab
    exact hadd _ (by simp [addName]) ha
  | kwOnly => simpa [applyTr, names_map_setKw] using h

/-- the non-inherited part of what a transformer returns depends only on the non-inherited input -/
theorem applyTr_filter_own (tr : Tr) (k : Nat) (X Y : List Attr) (hX : ∀ x ∈ X, x.inherited = true) :
    (applyTr tr k (X ++ Y)).filter (fun a => !a.inherited) = (applyTr tr k Y).filter (fun a => !a.inherited) := by
  have hXf : ∀ (p : Attr → Bool), (X.filter p).filter (fun a => !a.inherited) = [] := by
    intro p
    rw [List.filter_eq_nil_iff]
    intro a ha
    simp [hX a (List.mem_filter.1 ha).1]
  have hX0 : X.filter (fun a => !a.inherited) = [] := by
    rw [List.filter_eq_nil_iff]; intro a ha; simp [hX a ha]
  cases tr with
  | none => simp [applyTr, List.filter_append, hX0]
  | ident => simp [applyTr, List.filter_append, hX0]
  | reverse =>
    simp only [applyTr, List.reverse_append, List.filter_append, List.filter_reverse, hX0]
    simp
  | drop n => simp only [applyTr, List.filter_append, hXf]; simp
  | add n o => simp [applyTr, List.filter_append, hX0]
  | kwOnly =>
    simp only [applyTr, List.map_append, List.filter_append]
    have : (X.map setKw).filter (fun a => !a.inherited) = [] := by
      rw [List.filter_eq_nil_iff]
      intro a ha
      obtain ⟨x, hx, rfl⟩ := List.mem_map.1 ha
      simp [hX x hx]
    simp [this]

/-! ### collected attributes are flagged inherited -/

theorem collectMro_inherited (M : Mros) (tbl : Table) (taken : List String) (ms : List Nat) :
    ∀ a ∈ collectMro M tbl taken ms, a.inherited = true := by
  intro a ha
  have := mem_of_mem_keepLast ha
  simp only [mroGather, List.mem_flatMap, expose, List.mem_map] at this
  obtain ⟨_, _, b, _, rfl⟩ := this
  rfl

theorem legacyInner_inherited (l : List Attr) (taken : List String) (acc : List Attr)
    (hacc : ∀ a ∈ acc, a.inherited = true) : ∀ a ∈ (legacyInner l taken acc).1, a.inherited = true := by
  induction l generalizing taken acc with
  | nil => simpa [legacyInner] using hacc
  | cons x l ih =>
    simp only [legacyInner]
    split
    · exact ih _ _ hacc
    · apply ih
      intro a ha
      rcases List.mem_append.1 ha with h | h
      · exact hacc a h
      · simp only [List.mem_singleton] at h; subst h; rfl

theorem legacyOuter_inherited (M : Mros) (tbl : Table) (bs : List Nat) (taken : List String) (acc : List Attr)
    (hacc : ∀ a ∈ acc, a.inherited = true) : ∀ a ∈ legacyOuter M tbl bs taken acc, a.inherited = true := by
  induction bs generalizing taken acc with
  | nil => simpa [legacyOuter] using hacc
  | cons b bs ih =>
    simp only [legacyOuter]
    exact ih _ _ (legacyInner_inherited _ _ _ hacc)

theorem collectLegacy_inherited (M : Mros) (tbl : Table) (taken : List String) (ms : List Nat) :
    ∀ a ∈ collectLegacy M tbl taken ms, a.inherited = true :=
  legacyOuter_inherited M tbl ms taken [] (by simp)

/-- **non-inherited part of a built tuple** = the class's own declarations after kw_only, its transformer
    and alias defaulting, independent of the bases -/
theorem finish_own (M : Mros) (tbl : Table) (k : Nat) (c : Cls) (b : Bool) (own : List Attr)
    (herr : (finish M tbl k c b own).err = none) :
    (finish M tbl k c b own).attrs.filter (fun a => !a.inherited) =
      ((applyTr c.tr k (kwIf c.kwOnly own)).filter (fun a => !a.inherited)).map defaultAlias := by
  have hbad : badOrder (applyTr c.tr k (preList M tbl c b own)) = false := by
    simp only [finish] at herr
    by_cases hb : badOrder (applyTr c.tr k (preList M tbl c b own)) = true
    · simp [hb] at herr
    · simpa using hb
  simp only [finish, hbad]
  have hmap : ∀ l : List Attr, (l.map defaultAlias).filter (fun a => !a.inherited) =
      (l.filter (fun a => !a.inherited)).map defaultAlias := by
    intro l; simp [List.filter_map, Function.comp_def]
  simp only [Bool.false_eq_true, if_false, hmap]
  congr 1
  unfold preList
  apply applyTr_filter_own
  intro x hx
  by_cases hkw : c.kwOnly = true <;> by_cases hb : b = true
  · simp only [hkw, hb, if_true, List.mem_map] at hx
    obtain ⟨y, hy, rfl⟩ := hx
    exact collectMro_inherited M tbl _ _ y hy
  · simp only [hkw, hb, if_true, List.mem_map] at hx
    obtain ⟨y, hy, rfl⟩ := hx
    exact collectLegacy_inherited M tbl _ _ y hy
  · simp only [hkw, hb, if_true] at hx
    exact collectMro_inherited M tbl _ _ x hx
  · simp only [hkw, hb] at hx
    exact collectLegacy_inherited M tbl _ _ x hx

end Attrs.C07
