/-
  C09 — case-level lemmas: the model's order tuple is the documented one, what the four methods and
  the operators of a class with generated ordering return, and the pieces of `C09_model_meets_spec`.
-/
import AttrsModel.Proofs.C09
import AttrsModel.Proofs.C09Tables

namespace Attrs.C09

theorem field_ok (f : Field) :
    f.resolved.isNone = fieldRejected f ∧
    (fieldRejected f = false → f.orderPart = (declPart f).1 ∧ f.orderView = (declPart f).2) := by
  obtain ⟨h1, h2⟩ := field_table f.cmp f.eq f.order f rfl rfl rfl
  refine ⟨h1, fun h => ?_⟩
  have := h2 h
  exact ⟨congrArg Prod.fst this, congrArg Prod.snd this⟩

theorem fieldErrs_decl (c : Case) : fieldErrs c = (c.fields.filter fieldRejected).map (·.name) := by
  unfold fieldErrs
  congr 1
  apply List.filter_congr
  intro f _
  exact (field_ok f).1

theorem mkItem_decl (fwd idn : Bool) (f : Field) (h : fieldRejected f = false) :
    mkItem fwd idn f = declItem fwd idn f := by
  obtain ⟨_, hv⟩ := (field_ok f).2 h
  unfold mkItem declItem
  rw [hv]
  cases (declPart f).2 <;> rfl

theorem orderItems_decl (c : Case) (fwd : Bool) (h : ∀ f ∈ c.fields, fieldRejected f = false) :
    orderItems c false fwd = declItems c fwd := by
  unfold orderItems declItems attrList
  simp only [Bool.false_eq_true, if_false]
  have hmem : ∀ f ∈ (c.fields.filter (·.inBase) ++ c.fields.filter (fun f => !f.inBase)), fieldRejected f = false := by
    intro f hf
    rcases List.mem_append.1 hf with hf | hf
    · exact h f (List.mem_filter.1 hf).1
    · exact h f (List.mem_filter.1 hf).1
  have hfilt : (c.fields.filter (·.inBase) ++ c.fields.filter (fun f => !f.inBase)).filter Field.orderPart
      = (c.fields.filter (·.inBase) ++ c.fields.filter (fun f => !f.inBase)).filter (fun f => (declPart f).1) := by
    apply List.filter_congr
    intro f hf
    exact ((field_ok f).2 (hmem f hf)).1
  rw [hfilt]
  apply List.map_congr_left
  intro f hf
  exact mkItem_decl fwd _ f (hmem f (List.mem_filter.1 hf).1)

theorem keyTags_decl (c : Case) (h : ∀ f ∈ c.fields, fieldRejected f = false) :
    keyTags c false = declKeyTags c := by
  unfold keyTags declKeyTags attrList
  simp only [Bool.false_eq_true, if_false]
  have hmem : ∀ f ∈ (c.fields.filter (·.inBase) ++ c.fields.filter (fun f => !f.inBase)), fieldRejected f = false := by
    intro f hf
    rcases List.mem_append.1 hf with hf | hf
    · exact h f (List.mem_filter.1 hf).1
    · exact h f (List.mem_filter.1 hf).1
  have hfilt : (c.fields.filter (·.inBase) ++ c.fields.filter (fun f => !f.inBase)).filter
        (fun f => f.orderPart && f.orderView != .raw)
      = (c.fields.filter (·.inBase) ++ c.fields.filter (fun f => !f.inBase)).filter
        (fun f => (declPart f).1 && (declPart f).2 != .raw) := by
    apply List.filter_congr
    intro f hf
    obtain ⟨h1, h2⟩ := (field_ok f).2 (hmem f hf)
    rw [h1, h2]
  rw [hfilt]
  apply List.map_congr_left
  intro f hf
  obtain ⟨_, h2⟩ := (field_ok f).2 (hmem f (List.mem_filter.1 hf).1)
  rw [h2]

theorem built_fields (c : Case) (hb : built c = true) : ∀ f ∈ c.fields, fieldRejected f = false := by
  intro f hf
  have h2 : (fieldErrs c).isEmpty = true := by
    unfold built at hb; simp at hb; simpa using hb.2
  rw [fieldErrs_decl] at h2
  cases hr : fieldRejected f
  · rfl
  · exfalso
    have : f.name ∈ (c.fields.filter fieldRejected).map (·.name) :=
      List.mem_map.2 ⟨f, List.mem_filter.2 ⟨hf, hr⟩, rfl⟩
    have hnil : (c.fields.filter fieldRejected).map (·.name) = [] := by simpa using h2
    rw [hnil] at this
    cases this

theorem built_clsErr (c : Case) (hb : built c = true) : clsErr c = .ok := by
  unfold built at hb; simp at hb; exact hb.1

theorem rhsKls_same (c : Case) (h : sameClass c = true) : rhsKls c.rhs = .C := by
  unfold sameClass at h
  cases hr : c.rhs <;> simp_all [rhsKls]

theorem rhsKls_other (c : Case) (h : sameClass c = false) : rhsKls c.rhs ≠ .C := by
  unfold sameClass at h
  cases hr : c.rhs <;> simp_all [rhsKls]

theorem status_gen (c : Case) (hg : generated c = true) (op : Op) : statusOf c op = .gen := by
  simp [statusOf, hg]

theorem status_not_gen (c : Case) (hg : generated c = false) (op : Op) : statusOf c op ≠ .gen := by
  unfold statusOf
  simp only [hg, Bool.false_eq_true, if_false]
  split
  · simp
  · split <;> simp

/-- a class with generated ordering, same-class operand: the method is the tuple comparison -/
theorem direct_same (c : Case) (hg : generated c = true) (hs : sameClass c = true) (op : Op) (selfIsX : Bool) :
    callImpl c (resolve c .C op) op selfIsX = tupleCmp op (orderItems c false selfIsX) := by
  simp [resolve, status_gen c hg, implOfStatus, callImpl, rhsKls_same c hs]

theorem binop_same (c : Case) (hg : generated c = true) (hs : sameClass c = true) (op : Op) (lIsX : Bool) :
    binop c op lIsX = (tupleCmp op (orderItems c false lIsX)).1 := by
  unfold binop
  have hk := rhsKls_same c hs
  simp only [hk]
  have hd := direct_same c hg hs op lIsX
  have hne := tupleCmp_ne_NI op (orderItems c false lIsX)
  cases lIsX <;> simp_all [properSub]

/-- a class with generated ordering, operand of any other class: every method involved says NotImplemented -/
theorem callImpl_other (c : Case) (hg : generated c = true) (hs : sameClass c = false) (k : Kls) (op : Op) (b : Bool) :
    callImpl c (resolve c k op) op b = (.NI, []) := by
  have hk := rhsKls_other c hs
  cases k
  · simp [resolve, status_gen c hg, implOfStatus, callImpl, hk]
  · cases hso : c.subOrdered <;> simp [resolve, status_gen c hg, implOfStatus, callImpl, hk, hso]
  · cases hbo : c.baseOrdered <;> simp [resolve, callImpl, hk, hbo]
  · simp [resolve, callImpl]

theorem binop_other (c : Case) (hg : generated c = true) (hs : sameClass c = false) (op : Op) (lIsX : Bool) :
    binop c op lIsX = .typeErr := by
  unfold binop
  simp [callImpl_other c hg hs]

/-- the tuple pair seen from `y` is the converse of the one seen from `x` -/
theorem declItems_rev (c : Case) : declItems c false = (declItems c true).map Item.flip := by
  unfold declItems
  rw [List.map_map]
  apply List.map_congr_left
  intro f _
  rfl

theorem orderly_total (c : Case) (ho : orderly c = true) : TotalItems (declItems c true) := by
  unfold orderly at ho
  simp only [List.all_eq_true, Bool.and_eq_true] at ho
  intro it hit
  have := ho it hit
  simp only [Bool.or_eq_true, Bool.not_eq_true', beq_iff_eq] at this
  refine ⟨this.1, fun hs => ?_⟩
  rcases this.2 with h | h
  · rw [hs] at h; cases h
  · exact h

theorem map_filter_patch (g : Field → Field) (q : Field → Bool) (L : List Field)
    (hq : ∀ f ∈ L, q (g f) = q f) : (L.map g).filter q = (L.filter q).map g := by
  induction L with
  | nil => rfl
  | cons f rest ih =>
    have h1 := hq f List.mem_cons_self
    have h2 := ih (fun f hf => hq f (List.mem_cons_of_mem _ hf))
    simp only [List.map_cons, List.filter_cons, h1]
    split <;> simp [h2]

theorem patch_filter_map {β : Type} (g : Field → Field) (p : Field → Bool) (m : Field → β) (L : List Field)
    (hp : ∀ f ∈ L, p (g f) = p f) (hm : ∀ f ∈ L, p f = true → m (g f) = m f) :
    ((L.map g).filter p).map m = (L.filter p).map m := by
  induction L with
  | nil => rfl
  | cons f rest ih =>
    have h1 := hp f List.mem_cons_self
    have h2 := ih (fun f hf => hp f (List.mem_cons_of_mem _ hf)) (fun f hf => hm f (List.mem_cons_of_mem _ hf))
    simp only [List.map_cons, List.filter_cons, h1]
    cases hpf : p f
    · simpa using h2
    · simp [h2, hm f List.mem_cons_self hpf]

end Attrs.C09
