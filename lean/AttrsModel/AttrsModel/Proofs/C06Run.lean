/-
  C06 — run time: one assignment of the model against `stepOk` / `ctorOk`, histories by induction.
-/
import AttrsModel.Proofs.C06Inv

namespace Attrs.C06
open Attrs.Init (Val Conv Event EventId)

/-! ### the store -/

theorem lookup_filter_ne (st : Store) (n m : String) (h : m ≠ n) :
    Init.lookup m (st.filter (fun kv => kv.1 != n)) = Init.lookup m st := by
  induction st with
  | nil => rfl
  | cons kv rest ih =>
    obtain ⟨k, v⟩ := kv
    by_cases hk : k = n
    · subst hk
      have hkm : (k == m) = false := by simpa using (fun hh : k = m => h hh.symm)
      simp [Init.lookup, hkm, ih]
    · have : (k != n) = true := by simpa using hk
      simp only [List.filter_cons, this, if_true, Init.lookup, ih]

theorem get_set (st : Store) (n m : String) (v : Val) :
    (st.set n v).get m = if m = n then some v else st.get m := by
  unfold Store.set Store.get
  simp only [Init.lookup]
  by_cases h : m = n
  · subst h; simp
  · have hnm : (n == m) = false := by simpa using (fun hh : n = m => h hh.symm)
    simp only [hnm, h, if_false, Bool.false_eq_true]
    exact lookup_filter_ne st n m h

theorem snapshot_set (ps : List String) (st : Store) (n : String) (v : Val) :
    snapshot ps (st.set n v) = Snap.update (snapshot ps st) n v := by
  unfold snapshot Snap.update
  rw [List.map_map]
  apply List.map_congr_left
  intro m _
  simp only [Function.comp, get_set]
  by_cases h : m = n <;> simp [h]

theorem snapGet_snapshot (ps : List String) (st : Store) (n : String) (hn : n ∈ ps) :
    Snap.get (snapshot ps st) n = st.get n := by
  unfold Snap.get snapshot
  induction ps with
  | nil => cases hn
  | cons p rest ih =>
    simp only [List.map_cons, List.find?_cons]
    by_cases hp : p = n
    · subst hp; simp
    · have : (p == n) = false := by simpa using hp
      simp only [this]
      rcases List.mem_cons.1 hn with h | h
      · exact absurd h.symm hp
      · exact ih h

/-! ### clean chains never see a frozen or user-written `__setattr__` -/

def Impl.plainish : Impl → Bool
  | .object => true
  | .hooked _ => true
  | _ => false

theorem plainish_not_frozen (i : Impl) (h : i.plainish = true) : (i == Impl.frozen) = false := by
  cases i <;> simp_all [Impl.plainish]

def cleanCls (c : Cls) : Bool := !c.frozenArg && !c.ownSetattr

theorem defineCls_clean (b : CState) (c : Cls) (hb : b.impl.plainish = true) (hc : cleanCls c = true) :
    ∃ s, defineCls b c = .ok s ∧ s.impl.plainish = true := by
  unfold cleanCls at hc
  simp only [Bool.and_eq_true, Bool.not_eq_true'] at hc
  obtain ⟨hfa, hown⟩ := hc
  have hbf := plainish_not_frozen _ hb
  unfold defineCls
  cases hk : c.kind with
  | plain => exact ⟨_, rfl, by simp [definePlain, hown, hb]⟩
  | attrs =>
    obtain ⟨e0, he, _⟩ := eff0_chain b c hbf hfa
    have hnf : isFrozenOf b c = false := by simp [isFrozenOf, hfa, hbf]
    have hr : rejects b c e0 = false := by simp [rejects, hasCustomOf, hnf, hown]
    refine ⟨finish b c e0, by simp [defineAttrs, he, hr], ?_⟩
    unfold finish
    dsimp only
    simp only [hnf, hown, hasCustomOf, Bool.and_false, Bool.not_false, Bool.true_and, Bool.false_eq_true, if_false]
    split
    · rfl
    · split
      · split <;> first | rfl | exact hb
      · split
        · rfl
        · exact hb

theorem defineFrom_clean (cs : List Cls) (b : CState) (i : Nat) (hb : b.impl.plainish = true)
    (hc : cs.all cleanCls = true) : ∃ s, defineFrom b i cs = .ok s ∧ s.impl.plainish = true := by
  induction cs generalizing b i with
  | nil => exact ⟨b, rfl, hb⟩
  | cons c rest ih =>
    simp only [List.all_cons, Bool.and_eq_true] at hc
    obtain ⟨s, hs, hp⟩ := defineCls_clean b c hb hc.1
    obtain ⟨t, ht, hq⟩ := ih s (i + 1) hp hc.2
    exact ⟨t, by simp [defineFrom, hs, ht], hq⟩

theorem defineFrom_inv (cs : List Cls) (pre : List Cls) (b : CState) (i : Nat) (s : CState) (hi : Inv pre b)
    (hw : cs.all wfCls = true) (h : defineFrom b i cs = .ok s) : Inv (pre ++ cs) s := by
  induction cs generalizing pre b i with
  | nil => simp only [defineFrom] at h; cases h; simpa using hi
  | cons c rest ih =>
    simp only [List.all_cons, Bool.and_eq_true] at hw
    simp only [defineFrom] at h
    cases hd : defineCls b c with
    | error e => rw [hd] at h; cases h
    | ok t =>
      rw [hd] at h
      have := ih (pre ++ [c]) t (i + 1) (defineCls_inv pre b c t hi hw.1 hd) hw.2 h
      simpa [List.append_assoc] using this

theorem defineFrom_snoc (pre : List Cls) (l : Cls) (b : CState) (i : Nat) (rt : CState)
    (h : defineFrom b i (pre ++ [l]) = .ok rt) :
    ∃ s, defineFrom b i pre = .ok s ∧ defineCls s l = .ok rt := by
  induction pre generalizing b i with
  | nil =>
    simp only [List.nil_append, defineFrom] at h
    cases hd : defineCls b l with
    | error e => rw [hd] at h; cases h
    | ok t => rw [hd] at h; cases h; exact ⟨b, rfl, hd⟩
  | cons c rest ih =>
    simp only [List.cons_append, defineFrom] at h ⊢
    cases hd : defineCls b c with
    | error e => rw [hd] at h; cases h
    | ok t =>
      rw [hd] at h
      obtain ⟨s, hs, hl⟩ := ih t (i + 1) h
      exact ⟨s, by simpa using hs, hl⟩

/-! ### what the class under test looks like outside K6 -/

/-- everything the run-time argument needs to know about the finished leaf class -/
structure Leaf (cs : List Cls) (rt : CState) (l : Cls) (e0 : Eff) : Prop where
  last : cs.getLast? = some l
  inv : Inv cs rt
  chain : e0.chain = clsChain l
  impl : (rt.impl = .hooked (saAttrs rt.attrs (normalise rt.attrs e0)) ∧ rt.wroteHooks = true) ∨
         (rt.impl = .object ∧ (saAttrs rt.attrs (normalise rt.attrs e0)).isEmpty = true)

theorem leaf_of_clean (c : Case) (rt : CState) (hw : wf c = true) (hc : clean c.cls = true)
    (hd : defineChain c.cls = .ok rt) (hk : rt.inheritsHooks = false) :
    ∃ l e0, Leaf c.cls rt l e0 := by
  unfold wf at hw
  simp only [Bool.and_eq_true] at hw
  obtain ⟨hwf, hlast⟩ := hw
  -- split off the leaf
  cases hgl : c.cls.getLast? with
  | none => simp [hgl] at hlast
  | some l =>
    simp only [hgl, beq_iff_eq] at hlast
    obtain ⟨pre, hpre⟩ : ∃ pre, c.cls = pre ++ [l] := List.getLast?_eq_some_iff.1 hgl
    have hinv : Inv c.cls rt := by
      have := defineFrom_inv c.cls [] CState.root 0 rt inv_root hwf hd
      simpa using this
    rw [hpre] at hd hc hwf
    unfold defineChain at hd
    obtain ⟨b, hb, hl⟩ := defineFrom_snoc pre l CState.root 0 rt hd
    have hcl : (pre ++ [l]).all cleanCls = true := by simpa [clean, cleanCls] using hc
    rw [List.all_append, Bool.and_eq_true] at hcl
    obtain ⟨hcpre, hcl⟩ := hcl
    simp only [List.all_cons, List.all_nil, Bool.and_true] at hcl
    obtain ⟨b', hb', hplain⟩ := defineFrom_clean pre CState.root 0 rfl hcpre
    rw [hb] at hb'; cases hb'
    have hbf := plainish_not_frozen _ hplain
    unfold cleanCls at hcl
    simp only [Bool.and_eq_true, Bool.not_eq_true'] at hcl
    obtain ⟨hfa, hown⟩ := hcl
    obtain ⟨e0, he, hch⟩ := eff0_chain b l hbf hfa
    unfold defineCls at hl
    simp only [hlast] at hl
    obtain ⟨e0', he', hr, hfin⟩ := defineAttrs_ok b l rt hl
    rw [he] at he'; cases he'
    have hnf : isFrozenOf b l = false := by simp [isFrozenOf, hfa, hbf]
    have hattrs : rt.attrs = resolveAttrs b.attrs l.fields := by rw [hfin, finish_attrs]
    have hsa : saOf b l e0 = saAttrs rt.attrs (normalise rt.attrs e0) := by
      simp [saOf, hfa, effOf, hnf, hattrs]
    refine ⟨l, e0, hgl, hinv, hch, ?_⟩
    rw [← hsa]
    -- the branches of `finish`
    have hfin' := hfin
    unfold finish at hfin'
    dsimp only at hfin'
    simp only [hnf, hown, hasCustomOf, Bool.and_false, Bool.not_false, Bool.true_and, Bool.false_eq_true,
      if_false] at hfin'
    cases hse : (saOf b l e0).isEmpty with
    | false =>
      left
      simp only [hse, Bool.not_false, if_true] at hfin'
      rw [hfin']
      exact ⟨rfl, rfl⟩
    | true =>
      right
      refine ⟨?_, rfl⟩
      simp only [hse, Bool.not_true, Bool.false_eq_true, if_false] at hfin'
      -- either reset to object's, or inherited from a base that is object's or hooked
      have himpl : rt.impl = .object ∨ (rt.impl = b.impl ∧ rt.wroteHooks = false) := by
        rw [hfin']
        split
        · split
          · left; rfl
          · right; exact ⟨rfl, rfl⟩
        · split
          · left; rfl
          · right; exact ⟨rfl, rfl⟩
      rcases himpl with h | ⟨h, hwr⟩
      · exact h
      · cases hbi : b.impl with
        | object => rw [h, hbi]
        | hooked t =>
          exfalso
          simp [CState.inheritsHooks, h, hbi, Impl.isHooked, hwr] at hk
        | frozen => simp [hbi, Impl.plainish] at hplain
        | user => simp [hbi, Impl.plainish] at hplain

/-! ### one assignment -/

@[simp] theorem retype_user (k : Option FaultKind) (t : String) : retype k (.user t) = faultExc k t := rfl
@[simp] theorem retype_attributeError (k : Option FaultKind) : retype k .attributeError = .attributeError := rfl
@[simp] theorem retype_frozenAttribute (k : Option FaultKind) : retype k .frozenAttribute = .frozenAttribute := rfl
@[simp] theorem retype_frozenInstance (k : Option FaultKind) : retype k .frozenInstance = .frozenInstance := rfl

theorem hitPos_lt (fault : Option Nat) (n p : Nat) (h : hitPos fault n = some p) : p < n := by
  unfold hitPos at h
  cases fault with
  | none => simp at h
  | some q =>
    simp only at h
    split at h
    · cases h; assumption
    · cases h

theorem fieldOf_mem (cs : List Cls) (n : String) (f : Field) (h : fieldOf cs n = some f) :
    f ∈ fieldsOf cs ∧ f.name = n := by
  unfold fieldOf at h
  exact ⟨List.mem_of_find?_eq_some h, by simpa using List.find?_some h⟩

/-- the model's assignment in closed form on a class described by `Leaf` -/
theorem assign_leaf (cs : List Cls) (rt : CState) (l : Cls) (e0 : Eff) (hl : Leaf cs rt l e0)
    (rv : Bool) (fault : Option Nat) (st : Store) (n : String) (v : Val) :
    assign rt rv fault st n v =
      assignHooked rt rv fault st n v (saAttrs rt.attrs (normalise rt.attrs e0)) := by
  rcases hl.impl with ⟨h, _⟩ | ⟨h, hs⟩
  · simp only [assign, h]
  · have : saAttrs rt.attrs (normalise rt.attrs e0) = [] := by simpa using hs
    simp only [assign, h, this, assignHooked, List.find?_nil]

theorem chainVal_default (f : Field) (v : Val) :
    chainVal f [.convert, .validate] v = Init.convApply f.toInit v := rfl

/-- **one step of the model satisfies `stepOk`**, and under define's default a successful step leaves
    `convApply` in the store -/
theorem step_ok (cs : List Cls) (rt : CState) (l : Cls) (e0 : Eff) (hl : Leaf cs rt l e0)
    (rv : Bool) (fault : Option Nat) (k : Option FaultKind) (ps : List String) (st : Store) (a : Assign)
    (ct : Option Val) :
    let r := assign rt rv fault st a.name a.value
    stepOk cs rv fault k (snapshot ps st) a
        { exc := r.2.exc.map (retype k), trace := r.2.trace, values := snapshot ps r.1, ctor := ct } = true ∧
    (isDefineDefault cs a.name = true → r.2.exc = none →
      ∃ f, fieldOf cs a.name = some f ∧ r.1.get a.name = some (Init.convApply f.toInit a.value)) := by
  intro r
  have hr : r = assign rt rv fault st a.name a.value := rfl
  rw [assign_leaf cs rt l e0 hl, assignHooked, find_saAttrs _ _ _ hl.inv.nodup] at hr
  have hfo : fieldOf cs a.name = rt.attrs.find? (fun f => f.name == a.name) := by
    unfold fieldOf; rw [hl.inv.attrs]
  unfold stepOk effChain isDefineDefault
  rw [hl.last]
  simp only
  rw [hfo]
  cases hfind : rt.attrs.find? (fun f => f.name == a.name) with
  | none =>
    -- not a field: plain store, possible iff there is a `__dict__`
    simp only [hfind] at hr
    have hslot : rt.slotNames.contains a.name = false := by
      cases hc : rt.slotNames.contains a.name with
      | false => rfl
      | true =>
        have := hl.inv.slots a.name hc
        rw [List.any_eq_true] at this
        obtain ⟨f, hf, hfn⟩ := this
        have := List.find?_eq_none.1 hfind f hf
        simp [hfn] at this
    simp only [Option.isSome_none, Bool.false_or, ← hl.inv.dict]
    unfold plainStore at hr
    simp only [hslot, Bool.or_false] at hr
    refine ⟨?_, by simp⟩
    cases hd : rt.hasDict with
    | true => simp [hr, hd, snapshot_set]
    | false => simp [hr, hd]
  | some f =>
    have hfm : f ∈ rt.attrs := List.mem_of_find?_eq_some hfind
    have hfn : f.name = a.name := by simpa using List.find?_some hfind
    have hset : (rt.hasDict || rt.slotNames.contains a.name) = true := by
      rw [Bool.or_eq_true]
      rcases hl.inv.settable f hfm with h | h
      · exact Or.inl h
      · rw [hfn] at h; exact Or.inr h
    have hplain : ∀ (x : Val) (tr : List Event),
        plainStore rt st a.name x tr = (st.set a.name x, { exc := none, trace := tr }) := by
      intro x tr; unfold plainStore; rw [if_pos hset]
    simp only [hfind] at hr
    simp only [Option.isSome_some, Bool.true_or, if_true]
    rcases entryOf_vs_fieldChain rt.attrs e0 l hl.chain f hfm with he | ⟨he, h, hfc, hin⟩
    · cases hfc : fieldChain l f with
      | none =>
        rw [he, hfc] at hr
        simp only [Option.map_none, hplain] at hr
        refine ⟨by simp [hr, snapshot_set], ?_⟩
        intro hdd _
        exfalso
        simp only [Bool.and_eq_true, beq_iff_eq] at hdd
        simp [fieldChain, hdd.2, clsChain, hdd.1.1, hdd.1.2] at hfc
      | some h =>
        rw [he, hfc] at hr
        simp only [Option.map_some, runPipe_spec] at hr
        cases hh : hitPos fault (chainEvents rv f h a.value).length with
        | some p =>
          simp only [hh] at hr
          have hp := hitPos_lt _ _ _ hh
          have hget : (chainEvents rv f h a.value)[p]? = some ((chainEvents rv f h a.value)[p]) :=
            List.getElem?_eq_getElem hp
          simp only [hget, Option.map_some, Option.get!_some] at hr
          refine ⟨by simp [hr, hh, hget], ?_⟩
          intro _ hexc
          simp [hr] at hexc
        | none =>
          simp only [hh] at hr
          cases hfz : h.contains Setter.frozen with
          | true =>
            simp only [hfz, if_true] at hr
            have hfz' : Setter.frozen ∈ h := List.contains_iff_mem.1 hfz
            refine ⟨by simp [hr, hh, hfz'], ?_⟩
            intro _ hexc
            simp [hr] at hexc
          | false =>
            simp only [hfz, Bool.false_eq_true, if_false, hplain] at hr
            have hfz' : Setter.frozen ∉ h := by
              intro hm; rw [List.contains_iff_mem.2 hm] at hfz; cases hfz
            refine ⟨by simp [hr, hh, hfz', snapshot_set], ?_⟩
            intro hdd _
            simp only [Bool.and_eq_true, beq_iff_eq] at hdd
            have : h = [.convert, .validate] := by
              simp [fieldChain, hdd.2, clsChain, hdd.1.1, hdd.1.2] at hfc
              exact hfc.symm
            subst this
            exact ⟨f, rfl, by simp [hr, get_set, chainVal_default]⟩
    · -- the builder dropped a chain that cannot do anything: a plain store is what the chain would do
      obtain ⟨e1, e2, e3⟩ := inert_spec rv f h a.value hin
      rw [he] at hr
      simp only [hplain] at hr
      simp only [hfc, Option.map_some, e1, List.length_nil]
      have hh : hitPos fault 0 = none := by
        unfold hitPos; cases fault <;> simp
      have e3' : Setter.frozen ∉ h := by
        intro hm; rw [List.contains_iff_mem.2 hm] at e3; cases e3
      refine ⟨by simp [hr, hh, e3', e2, snapshot_set], ?_⟩
      intro hdd _
      simp only [Bool.and_eq_true, beq_iff_eq] at hdd
      have : h = [.convert, .validate] := by
        simp [fieldChain, hdd.2, clsChain, hdd.1.1, hdd.1.2] at hfc
        exact hfc.symm
      subst this
      refine ⟨f, rfl, ?_⟩
      rw [← chainVal_default, e2]
      simp [hr, get_set]

/-! ### construction -/

theorem foldl_set_get (l : List Field) (val : Field → Val) (st : Store) (n : String)
    (hn : (l.map (·.name)).Nodup) :
    (l.foldl (fun (st : Store) g => st.set g.name (val g)) st).get n =
      match l.find? (fun f => f.name == n) with
      | some f => some (val f)
      | none => st.get n := by
  induction l generalizing st with
  | nil => rfl
  | cons g rest ih =>
    simp only [List.map_cons, List.nodup_cons] at hn
    simp only [List.foldl_cons, List.find?_cons]
    rw [ih _ hn.2]
    by_cases hg : g.name = n
    · have : (g.name == n) = true := by simp [hg]
      simp only [this]
      have hnone : rest.find? (fun f => f.name == n) = none := by
        rw [List.find?_eq_none]
        intro x hx hxn
        apply hn.1
        rw [List.mem_map]
        exact ⟨x, hx, by rw [hg]; simpa using hxn⟩
      simp [hnone, get_set, hg]
    · have : (g.name == n) = false := by simpa using hg
      simp only [this]
      cases rest.find? (fun f => f.name == n) with
      | some f => rfl
      | none =>
        simp only [get_set]
        have : ¬ n = g.name := fun h => hg h.symm
        simp [this]

def setOpt (st : Store) (n : String) : Option Val → Store
  | none => st
  | some x => st.set n x

theorem foldl_setOpt_get (l : List Field) (val : Field → Option Val) (st : Store) (n : String)
    (hn : (l.map (·.name)).Nodup) :
    (l.foldl (fun (st : Store) g => setOpt st g.name (val g)) st).get n =
      match l.find? (fun f => f.name == n) with
      | some f => (match val f with
        | some x => some x
        | none => st.get n)
      | none => st.get n := by
  induction l generalizing st with
  | nil => rfl
  | cons g rest ih =>
    simp only [List.map_cons, List.nodup_cons] at hn
    simp only [List.foldl_cons, List.find?_cons]
    rw [ih _ hn.2]
    by_cases hg : g.name = n
    · have : (g.name == n) = true := by simp [hg]
      simp only [this]
      have hnone : rest.find? (fun f => f.name == n) = none := by
        rw [List.find?_eq_none]
        intro x hx hxn
        apply hn.1
        rw [List.mem_map]
        exact ⟨x, hx, by rw [hg]; simpa using hxn⟩
      rw [hnone]
      cases val g with
      | none => rfl
      | some x => simp [setOpt, get_set, hg]
    · have : (g.name == n) = false := by simpa using hg
      simp only [this]
      have hne : ¬ n = g.name := fun h => hg h.symm
      have hget : (setOpt st g.name (val g)).get n = st.get n := by
        cases val g with
        | none => rfl
        | some x => simp [setOpt, get_set, hne]
      cases rest.find? (fun f => f.name == n) with
      | some f => simp only [hget]
      | none => exact hget

theorem construct_plain (rt : CState) (rv : Bool) (arg : Field → Val) (hk : rt.inheritsHooks = false) :
    construct rt rv arg =
      some (rt.attrs.foldl (fun (st : Store) g =>
        setOpt st g.name ((ctorInput arg g).map (Init.convApply g.toInit))) []) := by
  unfold construct
  simp only [hk, Bool.false_eq_true, if_false]
  generalize ([] : Store) = st0
  induction rt.attrs generalizing st0 with
  | nil => rfl
  | cons g rest ih =>
    simp only [List.foldl_cons]
    cases hci : ctorInput arg g with
    | none => simpa [setOpt] using ih st0
    | some raw => simpa [setOpt] using ih (Store.set st0 g.name (Init.convApply g.toInit raw))

theorem ctorVal_plain (cs : List Cls) (rt : CState) (rv : Bool) (a : Assign) (f : Field) (hinv : Inv cs rt)
    (hk : rt.inheritsHooks = false) (hf : fieldOf cs a.name = some f) (hinit : f.init = true) :
    ctorVal rt rv a = some (Init.convApply f.toInit a.value) := by
  have hfind : rt.attrs.find? (fun g => g.name == a.name) = some f := by
    unfold fieldOf at hf; rw [hinv.attrs]; exact hf
  have hfn : f.name = a.name := by simpa using List.find?_some hfind
  have hany : rt.attrs.any (fun g => g.name == a.name && g.init) = true := by
    rw [List.any_eq_true]
    exact ⟨f, List.mem_of_find?_eq_some hfind, by simp [hfn, hinit]⟩
  unfold ctorVal
  rw [if_pos hany, construct_plain rt rv _ hk]
  simp only
  rw [foldl_setOpt_get _ _ _ _ hinv.nodup, hfind]
  simp [ctorInput, hinit, hfn]

end Attrs.C06
