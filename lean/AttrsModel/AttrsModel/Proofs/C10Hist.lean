/-
  C10 — the original instance: what the generated `__init__` and the history leave in storage, and how the
  generated `__hash__` behaves on it.
-/
import AttrsModel.Proofs.C10Fold

namespace Attrs.C10

/-! ### the hash method -/

theorem hashTuple_congr (L : Layout) (a b : Inst) (names : List String)
    (h : ∀ n ∈ names, read L a n = read L b n) : hashTuple L a names = hashTuple L b names := by
  unfold hashTuple
  apply mapMOpt_congr
  intro n hn
  rw [h n hn]

theorem hashTuple_some (L : Layout) (a : Inst) (names : List String)
    (h : ∀ n ∈ names, (read L a n).isSome = true) : ∃ t, hashTuple L a names = some t := by
  unfold hashTuple
  apply mapMOpt_some
  intro n hn
  have := h n hn
  cases hr : read L a n <;> simp_all

/-- hashing touches nothing but the cache attribute -/
theorem doHash_read (s : Summary) (i : Inst) (m : String) (hm : m ≠ CACHE) :
    read s.layout (doHash s i).inst m = read s.layout i m := by
  unfold doHash
  cases hh : s.hash with
  | identity => rfl
  | unhashable => rfl
  | gen names cached fv ow =>
    simp only
    cases cached with
    | false =>
      simp only [Bool.not_false, if_true]
      cases hashTuple s.layout i names <;> rfl
    | true =>
      simp only [Bool.not_true, Bool.false_eq_true, if_false]
      cases hr : read s.layout i CACHE with
      | none => rfl
      | some v =>
        cases v with
        | wrap h => rfl
        | tok t =>
          simp only
          cases hashTuple s.layout i names with
          | none => rfl
          | some h =>
            simp only
            split
            · rfl
            · cases ho : osetattr s.layout i CACHE (.wrap h) with
              | none => rfl
              | some i' => exact read_osetattr_ne ho hm
        | none =>
          simp only
          cases hashTuple s.layout i names with
          | none => rfl
          | some h =>
            simp only
            split
            · rfl
            · cases ho : osetattr s.layout i CACHE (.wrap h) with
              | none => rfl
              | some i' => exact read_osetattr_ne ho hm

/-- a non-caching generated `__hash__` hashes the current field values -/
theorem doHash_uncached {s : Summary} {names : List String} {fv ow : Bool} (hh : s.hash = .gen names false fv ow)
    {i : Inst} {t : List String} (ht : hashTuple s.layout i names = some t) :
    (doHash s i).res = .ok ∧ (doHash s i).value = t := by
  unfold doHash
  rw [hh]
  simp [ht]

/-- cache miss: compute from the current field values, store the wrapper, return the value -/
theorem doHash_miss {s : Summary} {names : List String} {ow : Bool} (hh : s.hash = .gen names true s.frozen ow)
    {i : Inst} (hc : read s.layout i CACHE = some .none) {t : List String}
    (ht : hashTuple s.layout i names = some t) :
    (doHash s i).res = .ok ∧ (doHash s i).value = t ∧
      read s.layout (doHash s i).inst CACHE = some (.wrap t) := by
  have hw : writable s.layout CACHE = true := writable_of_read (by rw [hc]; rfl)
  obtain ⟨i', hi'⟩ := osetattr_some_of_writable hw i (.wrap t)
  unfold doHash
  rw [hh]
  simp only [Bool.not_true, Bool.false_eq_true, if_false, hc, ht]
  have : (!s.frozen && s.frozen) = false := by cases s.frozen <;> rfl
  simp only [this, Bool.false_eq_true, if_false, hi']
  refine ⟨?_, ?_, ?_⟩ <;> first | rfl | trivial | exact read_osetattr_same hi'

/-- cache hit: the stored value is returned, nothing is recomputed -/
theorem doHash_hit {s : Summary} {names : List String} {fv ow : Bool} (hh : s.hash = .gen names true fv ow)
    {i : Inst} {t : List String} (hc : read s.layout i CACHE = some (.wrap t)) :
    (doHash s i).res = .ok ∧ (doHash s i).value = t ∧ (doHash s i).computed = false := by
  unfold doHash
  rw [hh]
  simp [hc]

/-! ### the initializer -/

/-- everything stored under a field name is that field's token -/
def Clean (tokOf : String → String) (i : Inst) : Prop :=
  ∀ n, n ≠ CACHE → (∀ v, i.slot n = some v → v = .tok (tokOf n)) ∧ (∀ v, i.dict n = some v → v = .tok (tokOf n))

theorem clean_empty (tokOf : String → String) : Clean tokOf Inst.empty := by
  intro n _; simp [Inst.empty]

theorem clean_osetattr {tokOf : String → String} {L : Layout} {i i' : Inst} {n : String} {v : Val}
    (hc : Clean tokOf i) (hv : n = CACHE ∨ v = .tok (tokOf n)) (h : osetattr L i n v = some i') : Clean tokOf i' := by
  unfold osetattr at h
  intro m hm
  split at h
  · simp only [Option.some.injEq] at h; subst h
    refine ⟨?_, (hc m hm).2⟩
    intro w hw
    simp only at hw
    by_cases hmn : m = n
    · subst hmn
      simp only [if_true, Option.some.injEq] at hw
      rcases hv with hv | hv
      · exact absurd hv hm
      · rw [← hw]; exact hv
    · simp only [hmn, if_false] at hw; exact (hc m hm).1 w hw
  · split at h
    · simp only [Option.some.injEq] at h; subst h
      refine ⟨(hc m hm).1, ?_⟩
      intro w hw
      simp only at hw
      by_cases hmn : m = n
      · subst hmn
        simp only [if_true, Option.some.injEq] at hw
        rcases hv with hv | hv
        · exact absurd hv hm
        · rw [← hw]; exact hv
      · simp only [hmn, if_false] at hw; exact (hc m hm).2 w hw
    · simp at h

theorem clean_dictWrite {tokOf : String → String} {i : Inst} {n : String} {v : Val}
    (hc : Clean tokOf i) (hv : n = CACHE ∨ v = .tok (tokOf n)) : Clean tokOf (dictWrite i n v) := by
  intro m hm
  refine ⟨(hc m hm).1, ?_⟩
  intro w hw
  simp only [dictWrite] at hw
  by_cases hmn : m = n
  · subst hmn
    simp only [if_true, Option.some.injEq] at hw
    rcases hv with hv | hv
    · exact absurd hv hm
    · rw [← hw]; exact hv
  · simp only [hmn, if_false] at hw; exact (hc m hm).2 w hw

theorem clean_setMany {tokOf : String → String} (wr : Inst → String → Val → Option Inst)
    (hwr : ∀ i i' n, Clean tokOf i → wr i n (.tok (tokOf n)) = some i' → Clean tokOf i')
    (fs : List (Field × Bool)) {i i' : Inst} (hc : Clean tokOf i)
    (h : setMany wr i (fs.map (valOf tokOf)) = some i') : Clean tokOf i' := by
  induction fs generalizing i with
  | nil => simp only [List.map_nil, setMany, Option.some.injEq] at h; subst h; exact hc
  | cons f r ih =>
    simp only [List.map_cons, valOf, setMany] at h
    cases h1 : wr i f.1.name (.tok (tokOf f.1.name)) with
    | none => rw [h1] at h; simp at h
    | some i1 => rw [h1] at h; exact ih (hwr _ _ _ hc h1) h

theorem clean_initStore {tokOf : String → String} (s : Summary) (i i' : Inst) (n : String)
    (hc : Clean tokOf i) (h : initStore s i n (.tok (tokOf n)) = some i') : Clean tokOf i' := by
  unfold initStore at h
  split at h
  · simp only [Option.some.injEq] at h; subst h; exact clean_dictWrite hc (Or.inr rfl)
  · exact clean_osetattr hc (Or.inr rfl) h

theorem clean_read {tokOf : String → String} {L : Layout} {i : Inst} (hc : Clean tokOf i) {n : String}
    (hn : n ≠ CACHE) {v : Val} (h : read L i n = some v) : v = .tok (tokOf n) := by
  unfold read at h
  split at h
  · exact (hc n hn).1 v h
  · split at h
    · exact (hc n hn).2 v h
    · simp at h

theorem construct_clean {s : Summary} {tokOf : String → String} {au : Bool} {i : Inst}
    (h : construct s tokOf au = some i) : Clean tokOf i := by
  unfold construct at h
  cases h1 : setMany (initStore s) Inst.empty ((s.attrs.filter (·.1.init)).map (valOf tokOf)) with
  | none => rw [h1] at h; simp at h
  | some i1 =>
    rw [h1] at h
    simp only at h
    have c1 : Clean tokOf i1 := clean_setMany _ (clean_initStore s) _ (clean_empty tokOf) h1
    cases h2 : initCache s i1 with
    | none => rw [h2] at h; simp at h
    | some i2 =>
      rw [h2] at h
      have c2 : Clean tokOf i2 := by
        unfold initCache at h2
        split at h2
        · simp only [Option.some.injEq] at h2; subst h2; exact c1
        · split at h2
          · simp only [Option.some.injEq] at h2; subst h2; exact clean_dictWrite c1 (Or.inl rfl)
          · exact clean_osetattr c1 (Or.inl rfl) h2
      simp only at h
      split at h
      · exact clean_setMany _ (fun a b n hc hw => clean_osetattr hc (Or.inr rfl) hw) _ c2 h
      · simp only [Option.some.injEq] at h; subst h; exact c2

theorem mem_names_ne_cache {s : Summary} (I : Inv s) (hok : s.ok = true) {n : String} (hn : n ∈ s.names) :
    n ≠ CACHE := by
  have := I.namesOk hok n hn
  unfold reserved at this
  intro e
  subst e
  simp at this

/-- K2 excluded: the cache attribute written by `__init__` is the one `__hash__` reads -/
theorem construct_cache {s : Summary} (I : Inv s) (hok : s.ok = true) (hla : s.lastAttrs = true)
    (hlc : s.lastCache = true) (hk2 : k2 s = false) {tokOf : String → String} {au : Bool} {i : Inst}
    (h : construct s tokOf au = some i) : read s.layout i CACHE = some .none := by
  unfold construct at h
  cases h1 : setMany (initStore s) Inst.empty ((s.attrs.filter (·.1.init)).map (valOf tokOf)) with
  | none => rw [h1] at h; simp at h
  | some i1 =>
    rw [h1] at h
    simp only at h
    cases h2 : initCache s i1 with
    | none => rw [h2] at h; simp at h
    | some i2 =>
      rw [h2] at h
      have c2 : read s.layout i2 CACHE = some .none := by
        unfold initCache at h2
        rw [hlc] at h2
        simp only [Bool.not_true, Bool.false_eq_true, if_false] at h2
        split at h2
        · rename_i hf
          simp only [Option.some.injEq] at h2; subst h2
          simp only [Bool.and_eq_true, Bool.not_eq_true'] at hf
          have hns : CACHE ∉ s.slotNames := by
            unfold k2 at hk2
            simp only [hlc, hf.1, hf.2, Bool.not_false, Bool.and_true, Bool.true_and,
              decide_eq_false_iff_not] at hk2
            exact hk2
          have hd : s.hasDict = true := I.dictOfLast hf.2 hla
          unfold read dictWrite Summary.layout
          simp [hns, hd]
        · exact read_osetattr_same h2
      simp only at h
      split at h
      · have hg : ∀ p ∈ (s.attrs.filter (!·.1.init)).map (valOf tokOf), p.2 = (fun n => Val.tok (tokOf n)) p.1 := by
          intro p hp
          obtain ⟨f, _, hf⟩ := List.mem_map.1 hp
          subst hf; rfl
        rw [read_setMany (fun n => Val.tok (tokOf n)) _ hg h]
        have : CACHE ∉ ((s.attrs.filter (!·.1.init)).map (valOf tokOf)).map (·.1) := by
          intro hx
          obtain ⟨p, hp, hpn⟩ := List.mem_map.1 hx
          obtain ⟨f, hf, hfp⟩ := List.mem_map.1 hp
          subst hfp
          simp only [valOf] at hpn
          have : f.1.name ∈ s.names := List.mem_map.2 ⟨f, (List.mem_filter.1 hf).1, rfl⟩
          exact mem_names_ne_cache I hok this hpn
        rw [if_neg this]; exact c2
      · simp only [Option.some.injEq] at h; subst h; exact c2

/-! ### the history -/

structure Wf (s : Summary) (c : Case) (i0 : Inst) : Prop where
  lastAttrs : s.lastAttrs = true
  ok : s.ok = true
  mutIn : ∀ m, c.mutate = some m → m ∈ s.names
  proto : ∀ p, c.op = .pickle p → p ≤ 5
  excOk : c.exc = true → s.anyOptOutOrUser = false ∧ isLegacy c.op = false
  cons : construct s v0 c.assignUnset = some i0
  allSet : ∀ n ∈ s.names, (read s.layout i0 n).isSome = true

theorem wf_unpack {c : Case} (h : wf c = true) : ∃ i0, Wf (summarize (fullChain c)) c i0 := by
  unfold wf at h
  simp only [Bool.and_eq_true] at h
  obtain ⟨⟨⟨⟨⟨⟨⟨⟨_, h1⟩, h2⟩, h3⟩, h4⟩, _⟩, _⟩, h7⟩, h5⟩ := h
  cases hc : construct (summarize (fullChain c)) v0 c.assignUnset with
  | none => rw [hc] at h5; simp at h5
  | some i0 =>
    rw [hc] at h5
    simp only [List.all_eq_true] at h5
    refine ⟨i0, h1, h2, ?_, ?_, ?_, hc, h5⟩
    · intro m hm
      rw [hm] at h3
      simpa using h3
    · intro p hp
      rw [hp] at h4
      simpa using h4
    · intro he
      rw [he] at h7
      simpa using h7

/-- the instance the operation is applied to (`hashed = c.hashedBefore`) and the freshly built equal
    instance (`hashed = false`) -/
theorem history_spec {s : Summary} (I : Inv s) {c : Case} {i0 : Inst} (W : Wf s c i0) (hashed : Bool) :
    ∃ x, history s c hashed = some x ∧
      (∀ n ∈ s.names, read s.layout x n = some (.tok (cur c n))) ∧
      read s.layout x CACHE = read s.layout (if hashed then (doHash s i0).inst else i0) CACHE := by
  have hclean := construct_clean W.cons
  -- the instance after the optional hashing step
  have h1 : ∀ n ∈ s.names, read s.layout (if hashed then (doHash s i0).inst else i0) n = some (.tok (v0 n)) := by
    intro n hn
    have hne := mem_names_ne_cache I W.ok hn
    have hr : read s.layout (if hashed then (doHash s i0).inst else i0) n = read s.layout i0 n := by
      cases hashed
      · rfl
      · exact doHash_read s i0 n hne
    rw [hr]
    obtain ⟨v, hv⟩ := Option.isSome_iff_exists.1 (W.allSet n hn)
    rw [hv, clean_read hclean hne hv]
  unfold history
  rw [W.cons]
  simp only
  cases hm : c.mutate with
  | none =>
    refine ⟨_, rfl, ?_, rfl⟩
    intro n hn
    rw [h1 n hn]
    simp [cur, hm]
  | some m =>
    simp only
    have hmn := W.mutIn m hm
    have hw : writable s.layout m = true := writable_of_read (by rw [h1 m hmn]; rfl)
    obtain ⟨x, hx⟩ := osetattr_some_of_writable hw (if hashed then (doHash s i0).inst else i0) (.tok (m0 m))
    refine ⟨x, hx, ?_, ?_⟩
    · intro n hn
      rw [read_osetattr hx]
      by_cases hnm : n = m
      · subst hnm; simp [cur, hm]
      · have : ¬ m = n := fun e => hnm e.symm
        simp [hnm, cur, hm, this, h1 n hn]
    · exact read_osetattr_ne hx (fun e => mem_names_ne_cache I W.ok hmn e.symm)

end Attrs.C10
