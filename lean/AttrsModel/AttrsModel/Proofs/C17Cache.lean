/-
  C17 — the linecache loop as a transition system: entries are never overwritten, and a thread that
  has left the loop (or has its code object) owns an entry holding exactly its script.  Invariant
  under every step of every thread, hence over all interleavings and any number of threads.
-/
import AttrsModel.Spec.C17

namespace Attrs.C17

/-! ### the cache -/

theorem get_append_single (c : Cache) (k v k' : String) :
    Cache.get (c ++ [(k, v)]) k' =
      (match c.get k' with | some x => some x | none => if k == k' then some v else none) := by
  induction c with
  | nil => simp [Cache.get]
  | cons x c ih =>
    obtain ⟨a, b⟩ := x
    simp only [List.cons_append, Cache.get]
    by_cases h : (a == k') = true
    · simp [h]
    · simp only [h, ih]; rfl

/-- `setdefault` never changes what an existing key maps to -/
theorem setdefault_mono (c : Cache) (k v k' v' : String) (h : c.get k' = some v') :
    (c.setdefault k v).1.get k' = some v' := by
  simp only [Cache.setdefault]
  cases hk : c.get k with
  | some old => simpa using h
  | none => simp [get_append_single, h]

/-- the value `setdefault` returns is what the key maps to afterwards -/
theorem setdefault_get (c : Cache) (k v : String) :
    (c.setdefault k v).1.get k = some (c.setdefault k v).2 := by
  simp only [Cache.setdefault]
  cases hk : c.get k with
  | some old => simpa using hk
  | none => simp [get_append_single, hk]

/-! ### the invariant -/

/-- what a thread's phase promises about the shared cache -/
def ThreadOk (cache : Cache) (t : Thread) : Prop :=
  match t.phase with
  | .looping => True
  | .compiling fn => cache.get fn = some t.script
  | .finished code => cache.get code.filename = some code.source ∧ code.source = t.script

def Good (s : State) : Prop := ∀ t ∈ s.threads, ThreadOk s.cache t

theorem threadOk_mono (c c' : Cache) (hm : ∀ k v, c.get k = some v → c'.get k = some v) (t : Thread)
    (h : ThreadOk c t) : ThreadOk c' t := by
  unfold ThreadOk at *
  split
  · trivial
  · rename_i fn hp; rw [hp] at h; exact hm _ _ h
  · rename_i code hp; rw [hp] at h; exact ⟨hm _ _ h.1, h.2⟩

theorem stepThread_mono (cache : Cache) (t : Thread) (k v : String) (h : cache.get k = some v) :
    (stepThread cache t).1.get k = some v := by
  unfold stepThread
  split
  · dsimp only
    split <;> exact setdefault_mono _ _ _ _ _ h
  · exact h
  · exact h

theorem stepThread_ok (cache : Cache) (t : Thread) (h : ThreadOk cache t) :
    ThreadOk (stepThread cache t).1 (stepThread cache t).2 := by
  unfold stepThread
  split
  · rename_i hp
    dsimp only
    split
    · rename_i heq
      have hg := setdefault_get cache (candidate t.base t.count) t.script
      have : (cache.setdefault (candidate t.base t.count) t.script).2 = t.script := by simpa using heq
      rw [this] at hg
      simpa [ThreadOk] using hg
    · simp [ThreadOk, hp]
  · rename_i fn hp
    have : cache.get fn = some t.script := by simpa [ThreadOk, hp] using h
    simp [ThreadOk, this]
  · exact h

theorem stepThread_script (cache : Cache) (t : Thread) :
    (stepThread cache t).2.script = t.script ∧ (stepThread cache t).2.base = t.base := by
  unfold stepThread
  split
  · dsimp only; split <;> simp
  · simp
  · simp

theorem step_mono (s : State) (i : Nat) (k v : String) (h : s.cache.get k = some v) :
    (step s i).cache.get k = some v := by
  unfold step
  split
  · exact h
  · exact stepThread_mono _ _ _ _ h

theorem step_good (s : State) (i : Nat) (h : Good s) : Good (step s i) := by
  unfold step
  split
  · exact h
  · rename_i t ht
    intro t' ht'
    dsimp only at ht' ⊢
    rcases List.mem_or_eq_of_mem_set ht' with hm | he
    · exact threadOk_mono _ _ (fun k v hk => stepThread_mono _ _ _ _ hk) t' (h t' hm)
    · subst he
      exact stepThread_ok _ _ (h t (List.mem_of_getElem? ht))

theorem step_scripts (s : State) (i : Nat) :
    (step s i).threads.map (·.script) = s.threads.map (·.script) := by
  unfold step
  split
  · rfl
  · rename_i t ht
    dsimp only
    apply List.ext_getElem?
    intro j
    simp only [List.getElem?_map, List.getElem?_set]
    by_cases hij : i = j
    · subst hij
      have hlt : i < s.threads.length := by
        rcases Nat.lt_or_ge i s.threads.length with h | h
        · exact h
        · rw [List.getElem?_eq_none h] at ht; cases ht
      have hget : s.threads[i] = t := by
        have := List.getElem?_eq_getElem hlt
        rw [this] at ht; simpa using ht
      simp [hlt, hget, (stepThread_script s.cache t).1]
    · simp [hij]

theorem run_mono (s : State) (sched : List Nat) (k v : String) (h : s.cache.get k = some v) :
    (run s sched).cache.get k = some v := by
  induction sched generalizing s with
  | nil => exact h
  | cons i rest ih => exact ih (step s i) (step_mono s i k v h)

theorem run_good (s : State) (sched : List Nat) (h : Good s) : Good (run s sched) := by
  induction sched generalizing s with
  | nil => exact h
  | cons i rest ih => exact ih (step s i) (step_good s i h)

theorem run_scripts (s : State) (sched : List Nat) :
    (run s sched).threads.map (·.script) = s.threads.map (·.script) := by
  induction sched generalizing s with
  | nil => rfl
  | cons i rest ih => exact (ih (step s i)).trans (step_scripts s i)

theorem run_append (s : State) (a b : List Nat) : run s (a ++ b) = run (run s a) b := by
  simp [run, List.foldl_append]

theorem good_start (pre : Cache) (ts : List Thread) (h : ∀ t ∈ ts, t.phase = .looping) :
    Good { cache := pre, threads := ts } := by
  intro t ht
  simp [ThreadOk, h t ht]

theorem code_of_good (s : State) (h : Good s) (t : Thread) (ht : t ∈ s.threads) (code : Code)
    (hc : t.code? = some code) : s.cache.get code.filename = some t.script ∧ code.source = t.script := by
  have := h t ht
  unfold Thread.code? at hc
  split at hc
  · rename_i k hp
    simp only [Option.some.injEq] at hc
    subst hc
    simp only [ThreadOk, hp] at this
    exact ⟨this.2 ▸ this.1, this.2⟩
  · cases hc

/-! ### running alone is a schedule -/

theorem finishThread_is_run (s : State) (i fuel : Nat) : ∃ sched, finishThread s i fuel = run s sched := by
  induction fuel generalizing s with
  | zero => exact ⟨[], rfl⟩
  | succ n ih =>
    unfold finishThread
    split
    · exact ⟨[], rfl⟩
    · split
      · exact ⟨[], rfl⟩
      · obtain ⟨sched, hs⟩ := ih (step s i)
        exact ⟨i :: sched, by rw [hs]; rfl⟩

theorem foldl_finish_is_run (l : List Nat) (s : State) :
    ∃ sched, l.foldl (fun st i => finishThread st i (st.cache.length + 3)) s = run s sched := by
  induction l generalizing s with
  | nil => exact ⟨[], rfl⟩
  | cons i rest ih =>
    simp only [List.foldl_cons]
    obtain ⟨s1, h1⟩ := finishThread_is_run s i (s.cache.length + 3)
    obtain ⟨s2, h2⟩ := ih (finishThread s i (s.cache.length + 3))
    exact ⟨s1 ++ s2, by rw [h2, h1, run_append]⟩

theorem finishAll_is_run (s : State) : ∃ sched, finishAll s = run s sched :=
  foldl_finish_is_run _ s

theorem stepOp_is_run (s : State) (i : Nat) : ∃ sched, stepOp s i = run s sched := by
  unfold stepOp
  split
  · exact ⟨[], rfl⟩
  · split
    · exact ⟨[], rfl⟩
    · dsimp only
      split
      · split
        · exact ⟨[i, i], rfl⟩
        · exact ⟨[i], rfl⟩
      · exact ⟨[i], rfl⟩

theorem foldl_stepOp_is_run (l : List Nat) (s : State) : ∃ sched, l.foldl stepOp s = run s sched := by
  induction l generalizing s with
  | nil => exact ⟨[], rfl⟩
  | cons i rest ih =>
    simp only [List.foldl_cons]
    obtain ⟨s1, h1⟩ := stepOp_is_run s i
    obtain ⟨s2, h2⟩ := ih (stepOp s i)
    exact ⟨s1 ++ s2, by rw [h2, h1, run_append]⟩

end Attrs.C17
