/-
  C19 (b), (c) — lemmas for to_bool, default_if_none's argument checks and the filters.
-/
import AttrsModel.Spec.C19ToBool
import AttrsModel.Spec.C19Filt

namespace Attrs.C19.ToBool

/-- T1: the tables extracted from the source are the documented ones, and the lowering step is there -/
theorem tables_documented :
    Generated.toBoolTrue = docTrue ∧ Generated.toBoolFalse = docFalse ∧ Generated.toBoolLowers = true := by
  decide

theorem str_beq (a x : String) : (a == x) = decide (x = a) := by
  by_cases h : x = a
  · simp [h]
  · have : ¬ a = x := fun h' => h h'.symm
    simp [h, this]

theorem inTable_docTrue_str (x : String) : inTable docTrue (.str x) = docTrueStrs.contains x := by
  simp [inTable, docTrue, docTrueStrs, pyEq, str_beq]

theorem inTable_docFalse_str (x : String) : inTable docFalse (.str x) = docFalseStrs.contains x := by
  simp [inTable, docFalse, docFalseStrs, pyEq, str_beq]

theorem toBool_str (s : String) : toBool (.str s) = specRes (.str s) := by
  obtain ⟨h1, h2, h3⟩ := tables_documented
  simp only [toBool, toBoolWith, h1, h2, h3, if_true, inTable_docTrue_str, inTable_docFalse_str, specRes]

theorem toBool_bool (b : Bool) : toBool (.bool b) = specRes (.bool b) := by
  obtain ⟨h1, h2, h3⟩ := tables_documented
  cases b
  · simp [toBool, toBoolWith, h1, h2, inTable, docTrue, docFalse, pyEq, specRes, boolInt]
  · simp [toBool, toBoolWith, h1, inTable, docTrue, pyEq, specRes, boolInt]

theorem toBool_int (n : Int) : toBool (.int n) = specRes (.int n) := by
  obtain ⟨h1, h2, h3⟩ := tables_documented
  by_cases h1' : n = 1
  · subst h1'; simp [toBool, toBoolWith, h1, inTable, docTrue, pyEq, specRes, boolInt]
  · by_cases h0 : n = 0
    · subst h0; simp [toBool, toBoolWith, h1, h2, inTable, docTrue, docFalse, pyEq, specRes, boolInt]
    · have e1 : ¬ (1 : Int) = n := fun h => h1' h.symm
      have e0 : ¬ (0 : Int) = n := fun h => h0 h.symm
      simp [toBool, toBoolWith, h1, h2, inTable, docTrue, docFalse, pyEq, specRes, boolInt, h1', h0, e1, e0]

theorem pyEq_numEq (lit : Lit) (n : Int) : pyEq lit (.numEq n) = pyEq lit (.int n) := by
  cases lit <;> rfl

/-- a number equal to an int is treated exactly like that int (this is K10 when the int is 0 or 1) -/
theorem toBool_numEq (n : Int) : toBool (.numEq n) = toBool (.int n) := by
  simp only [toBool, toBoolWith, inTable, pyEq_numEq]
  rfl

theorem toBool_other : toBool .other = .valueError := by
  obtain ⟨h1, h2, _⟩ := tables_documented
  simp [toBool, toBoolWith, h1, h2, inTable, docTrue, docFalse, pyEq]

/-- every value outside K10 gets exactly the documented answer -/
theorem toBool_spec (v : TbVal) (hk : known ⟨v⟩ = []) : toBool v = specRes v := by
  cases v with
  | str s => exact toBool_str s
  | bool b => exact toBool_bool b
  | int n => exact toBool_int n
  | numEq n =>
    rw [toBool_numEq, toBool_int]
    simp only [known] at hk
    by_cases h : n = 0 ∨ n = 1
    · simp [h] at hk
    · have h0 : ¬ n = 0 := fun e => h (Or.inl e)
      have h1 : ¬ n = 1 := fun e => h (Or.inr e)
      simp [specRes, h0, h1]
  | other => exact toBool_other

theorem lowerS_toList (s : String) : (lowerS s).toList = s.toList.map Char.toLower := by
  simp [lowerS]

/-- a string whose characters lower to the characters of `w` lowers to `w` -/
theorem lowerS_of_variant (s w : String) (h : s.toList.map Char.toLower = w.toList) : lowerS s = w := by
  simp [lowerS, h, String.ofList_toList]

theorem toBool_case_insensitive (s s' : String) (h : lowerS s = lowerS s') :
    toBool (.str s) = toBool (.str s') := by
  simp only [toBool_str, specRes, h]

end Attrs.C19.ToBool

namespace Attrs.C19.Filt

/-- the three-way split followed by three membership tests is a search over the items of `what` -/
theorem includeF_eq_any (what : List What) (a : AttrId) (t : String) :
    includeF what a t = what.any (selects a t) := by
  induction what with
  | nil => simp [includeF, splitWhat]
  | cons w ws ih =>
    simp only [includeF, splitWhat] at ih ⊢
    cases w with
    | type t' =>
      simp only [List.filterMap_cons, List.any_cons, selects, List.contains_cons] at ih ⊢
      rw [← ih]; simp [Bool.or_assoc, Bool.beq_comm]
    | name s =>
      simp only [List.filterMap_cons, List.any_cons, selects, List.contains_cons] at ih ⊢
      rw [← ih]; simp [Bool.or_assoc, Bool.or_left_comm, Bool.beq_comm]
    | attr b =>
      simp only [List.filterMap_cons, List.any_cons, selects, List.contains_cons] at ih ⊢
      rw [← ih]; simp [Bool.or_assoc, Bool.or_left_comm, Bool.beq_comm]
    | junk =>
      simp only [List.filterMap_cons, List.any_cons, selects, Bool.false_or] at ih ⊢
      exact ih

theorem excludeF_eq_not (what : List What) (a : AttrId) (t : String) :
    excludeF what a t = !includeF what a t := rfl

end Attrs.C19.Filt
