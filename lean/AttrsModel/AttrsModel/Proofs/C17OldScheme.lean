/-
  C17 — OLD SCHEME: decided counterexamples for the behaviour that was repaired in attrs
  (`fix:` commits K17a and K17b, see fixes/C17/).  Nothing here is about the current source: the old
  affixes and the old (empty) helper dict of `_make_eq_script` are written out literally.  These
  statements document what the theorems of Properties/C17.lean exclude; the same inputs are
  regression cases in corpus/C17/.
-/
import AttrsModel.Proofs.C17Globals

namespace Attrs.C17.Old

/-- old key scheme `_<n>_key` (eq and hash scripts) and old repr scheme `<n>_repr` -/
def keyAffix : String × String := ("_", "_key")
def reprAffix : String × String := ("", "_repr")

/-- K17b, old scheme: the affixes are compatible with every `__attr_…` scheme … -/
theorem old_key_repr_compatible_with_init_schemes :
    incompatible keyAffix Generated.c17FactoryAffix = false ∧
    incompatible keyAffix Generated.c17ValidatorAffix = false ∧
    incompatible keyAffix Generated.c17AttributeAffix = false ∧
    incompatible keyAffix Generated.c17ConverterAffix = false ∧
    incompatible reprAffix Generated.c17FactoryAffix = false ∧
    incompatible reprAffix Generated.c17ValidatorAffix = false ∧
    incompatible reprAffix Generated.c17AttributeAffix = false ∧
    incompatible reprAffix Generated.c17ConverterAffix = false := by decide

/-- … and they did collide: the key helper of field `_attr_factory_foo` is the factory helper of field
    `foo_key`; the repr helper of `__attr_validator_foo` is the validator helper of `foo_repr`; a
    shorter overlap exists too (`_attr_factory` / `key`). -/
theorem old_scheme_names_coincide :
    affix keyAffix "_attr_factory_foo" = factoryName "foo_key" ∧
    affix keyAffix "_attr_factory" = factoryName "key" ∧
    affix keyAffix "_attr_attribute_foo" = attributeName "foo_key" ∧
    affix reprAffix "__attr_validator_foo" = validatorName "foo_repr" ∧
    affix reprAffix "__attr_converter_foo" = converterName "foo_repr" := by decide

/-- with one shared globals dict the later script's object won: the eq script bound the key of
    `_attr_factory_foo`, the init script (merged last) the factory of `foo_key`, and `__eq__` found the
    factory. -/
theorem old_scheme_eq_finds_factory :
    let eqDict : Globs := [(affix keyAffix "_attr_factory_foo", ⟨.key, "_attr_factory_foo"⟩)]
    let initDict : Globs := [(factoryName "foo_key", ⟨.factory, "foo_key"⟩)]
    lookup (eqDict ++ initDict) (affix keyAffix "_attr_factory_foo") = some ⟨.factory, "foo_key"⟩ := by
  decide

/-- K17a, old `_make_eq_script` (`globs = {}`): a name the helper dicts do not bind is looked up in the
    module's dict, so whatever the module calls `NotImplemented` is what `__eq__` returned. -/
theorem old_notImplemented_shadowed (helpers modul : Globs) (o : Obj)
    (hh : lookup helpers "NotImplemented" = none) (hm : lookup modul "NotImplemented" = some o) :
    lookup (modul ++ helpers) "NotImplemented" = some o := by
  rw [lookup_append, hh]; exact hm

/-- instance: the old eq dict of a class without key functions was empty -/
example : lookup ([("NotImplemented", moduleObj "NotImplemented")] ++ ([] : Globs)) "NotImplemented"
    = some (moduleObj "NotImplemented") := by decide

/-- older still (before `fix:` 6e29105): with the prefix `"__attr_"` for the Attribute global, fields
    `x` and `validator_x` collided. -/
theorem old_attribute_prefix_collides :
    affix ("__attr_", "") "validator_x" = affix Generated.c17ValidatorAffix "x" ∧
    incompatible ("__attr_", "") Generated.c17ValidatorAffix = false := by decide

end Attrs.C17.Old
