/-
  C07 — the table the model builds for a single-inheritance chain of attrs classes (no transformers, no
  class-level kw_only) is a chain table in the sense of `ChainOk`, whatever collector each class uses.
-/
import AttrsModel.Proofs.C07Chain

namespace Attrs.C07

/-- MRO of the k-th class of a chain: k, k-1, …, 0 -/
def chainMro : Nat → List Nat
  | 0 => [0]
  | k + 1 => (k + 1) :: chainMro k

/-- own block of class `b` as it sits in tuples: declared fields with default aliases filled in -/
def Oown (cs : List Cls) (b : Nat) : List Attr := (specOwn (clsAt cs b)).map defaultAlias

structure ChainHier (cs : List Cls) : Prop where
  cls : ∀ k c, cs[k]? = some c →
    c.kind ≠ .plain ∧ c.tr = .none ∧ c.kwOnly = false ∧ c.mro = chainMro k ∧ wfCls k c = true

def CInv (cs : List Cls) (tbl : Table) : Prop :=
  ∀ k, k < tbl.length → tbl[k]? = some (some (Tup (Oown cs) (chainMro k)))

theorem chainMro_head (k : Nat) : ∃ tl, chainMro k = k :: tl := by
  cases k with
  | zero => exact ⟨[], rfl⟩
  | succ j => exact ⟨chainMro j, rfl⟩

theorem defaultAlias_idem (a : Attr) : defaultAlias (defaultAlias a) = defaultAlias a := by
  obtain ⟨n, t, tt, inh, hd, i, kw, al⟩ := a
  cases al with
  | none =>
    simp only [defaultAlias]
    by_cases h : (lstripUnderscore n).isEmpty = true <;> simp [h]
  | some s =>
    by_cases h : s.isEmpty = true
    · simp only [defaultAlias, h, if_true]
      by_cases h2 : (lstripUnderscore n).isEmpty = true <;> simp [h2]
    · simp [defaultAlias, h]

theorem defaultAlias_inherit (a : Attr) : defaultAlias (inherit a) = inherit (defaultAlias a) := by
  obtain ⟨n, t, tt, inh, hd, i, kw, al⟩ := a
  cases al with
  | none => rfl
  | some s => by_cases h : s.isEmpty = true <;> simp [defaultAlias, inherit, h]

theorem Tup_aliased (cs : List Cls) (ms : List Nat) : ∀ a ∈ Tup (Oown cs) ms, defaultAlias a = a := by
  induction ms with
  | nil => intro a ha; simp [Tup] at ha
  | cons b rest ih =>
    intro a ha
    simp only [Tup, List.mem_append, List.mem_map, List.mem_filter] at ha
    rcases ha with ⟨x, ⟨hx, _⟩, rfl⟩ | ha
    · rw [defaultAlias_inherit, ih x hx]
    · simp only [Oown, List.mem_map] at ha
      obtain ⟨y, _, rfl⟩ := ha
      exact defaultAlias_idem y

theorem Oown_facts {cs : List Cls} (H : ChainHier cs) (b : Nat) :
    (∀ a ∈ Oown cs b, a.inherited = false) ∧ (names (Oown cs b)).Nodup := by
  constructor
  · intro a ha
    simp only [Oown, List.mem_map] at ha
    obtain ⟨y, hy, rfl⟩ := ha
    rw [defaultAlias_inherited]
    exact specOwn_not_inherited _ y hy
  · rw [Oown, names_map_defaultAlias]
    cases hq : cs[b]? with
    | none =>
      have : clsAt cs b = default := by simp [clsAt, hq]
      rw [this]; decide
    | some c =>
      rw [clsAt_of_get hq]
      exact specOwn_nodup (H.cls b c hq).2.2.2.2

theorem getattr_chain {cs : List Cls} {tbl : Table} (M : Mros) (hM : ∀ j, j < tbl.length → M j = chainMro j)
    (hinv : CInv cs tbl) (k : Nat) (hk : k < tbl.length) :
    getattrAttrs M tbl k = Tup (Oown cs) (chainMro k) := by
  obtain ⟨tl, htl⟩ := chainMro_head k
  have h1 : M k = k :: tl := by rw [hM k hk, htl]
  unfold getattrAttrs
  rw [h1, List.findSome?_cons, hinv k hk]
  rfl

theorem own_chain {cs : List Cls} {tbl : Table} (hinv : CInv cs tbl) (k : Nat) (hk : k < tbl.length) :
    ownTuple tbl k = Tup (Oown cs) (chainMro k) := by
  unfold ownTuple
  rw [hinv k hk]
  rfl

theorem chainOk_of_inv {cs : List Cls} {tbl : Table} (H : ChainHier cs) (M : Mros)
    (hM : ∀ j, j < tbl.length → M j = chainMro j) (hinv : CInv cs tbl) (k : Nat) (hk : k < tbl.length) :
    ChainOk (Oown cs) M tbl (chainMro k) := by
  induction k with
  | zero =>
    exact ⟨⟨getattr_chain M hM hinv 0 hk, own_chain hinv 0 hk⟩, (Oown_facts H 0).1, (Oown_facts H 0).2, trivial⟩
  | succ j ih =>
    exact ⟨⟨getattr_chain M hM hinv (j + 1) hk, own_chain hinv (j + 1) hk⟩, (Oown_facts H (j + 1)).1, (Oown_facts H (j + 1)).2,
      ih (by omega)⟩

/-- both collectors on the tail of the k-th chain class -/
theorem collect_chain_tail {cs : List Cls} {tbl : Table} (H : ChainHier cs) (M : Mros)
    (hM : ∀ j, j < tbl.length → M j = chainMro j) (hinv : CInv cs tbl) (k : Nat) (hk : k ≤ tbl.length)
    (taken : List String) (b : Bool) :
    (if b then collectMro M tbl taken (chainMro k).tail else collectLegacy M tbl taken (chainMro k).tail) =
      ((Tup (Oown cs) (chainMro k).tail).filter (fun a => !taken.contains a.name)).map inherit := by
  cases k with
  | zero => cases b <;> rfl
  | succ j =>
    have hok := chainOk_of_inv H M hM hinv j (by omega)
    cases b
    · simp only [chainMro, List.tail_cons, Bool.false_eq_true, if_false]; exact collectLegacy_chain taken _ hok
    · simp only [chainMro, List.tail_cons, if_true]; exact collectMro_chain taken _ hok

theorem Tup_chainMro (cs : List Cls) (k : Nat) :
    Tup (Oown cs) (chainMro k) =
      ((Tup (Oown cs) (chainMro k).tail).filter (fun a => !(names (Oown cs k)).contains a.name)).map inherit ++
        Oown cs k := by
  cases k <;> rfl

/-- the tuple the model builds for the next class of a chain -/
theorem build_chain_step {cs : List Cls} {tbl : Table} (H : ChainHier cs) (M : Mros)
    (hM : ∀ j, j < tbl.length → M j = chainMro j) (hinv : CInv cs tbl) {c : Cls}
    (hc : cs[tbl.length]? = some c) (herr : (buildClass M tbl tbl.length c).err = none) :
    (buildClass M tbl tbl.length c).attrs = Tup (Oown cs) (chainMro tbl.length) := by
  obtain ⟨hk, htr, hkw, hmro, _⟩ := H.cls _ c hc
  rw [buildClass_eq M tbl _ c hk] at herr ⊢
  by_cases hm : mustRaiseUnannotated c = true
  · simp [hm, Built.fail] at herr
  · have hm' : mustRaiseUnannotated c = false := by simpa using hm
    simp only [hm', Bool.false_eq_true, if_false] at herr ⊢
    have hbad : badOrder (applyTr c.tr tbl.length (preList M tbl c (byMroEff c) (specOwn c))) = false := by
      simp only [finish] at herr
      by_cases hb : badOrder (applyTr c.tr tbl.length (preList M tbl c (byMroEff c) (specOwn c))) = true
      · simp [hb] at herr
      · simpa using hb
    have hcoll := collect_chain_tail H M hM hinv tbl.length (Nat.le_refl _)
      ((specOwn c).map (·.name)) (byMroEff c)
    simp only [finish, hbad, Bool.false_eq_true, if_false]
    simp only [htr, applyTr, preList, hkw, Bool.false_eq_true, if_false, hmro, hcoll, List.map_append]
    rw [Tup_chainMro]
    have hO : Oown cs tbl.length = (specOwn c).map defaultAlias := by simp [Oown, clsAt_of_get hc]
    have hnames : names (Oown cs tbl.length) = (specOwn c).map (·.name) := by
      rw [hO, names_map_defaultAlias]; rfl
    rw [hnames, hO]
    congr 1
    rw [List.map_map]
    apply List.map_congr_left
    intro a ha
    simp only [Function.comp]
    rw [defaultAlias_inherit, Tup_aliased cs _ a (List.mem_filter.1 ha).1]

theorem CInv_snoc {cs : List Cls} {tbl : Table} (hinv : CInv cs tbl) (T : List Attr)
    (hT : T = Tup (Oown cs) (chainMro tbl.length)) : CInv cs (tbl ++ [some T]) := by
  intro k hk
  by_cases hlt : k < tbl.length
  · rw [List.getElem?_append_left hlt]; exact hinv k hlt
  · have : k = tbl.length := by simp at hk; omega
    subst this
    simp [hT]

theorem buildTable_chain {cs : List Cls} (H : ChainHier cs) (rest : List Cls) (tbl tbl' : Table)
    (hrest : ∀ i c, rest[i]? = some c → cs[tbl.length + i]? = some c)
    (hinv : CInv cs tbl) (hok : buildTable (mroOf cs) rest tbl = .ok tbl') :
    CInv cs tbl' ∧ tbl'.length = tbl.length + rest.length := by
  induction rest generalizing tbl with
  | nil =>
    simp only [buildTable, Except.ok.injEq] at hok
    subst hok; exact ⟨hinv, by simp⟩
  | cons c rest ih =>
    have hc : cs[tbl.length]? = some c := by simpa using hrest 0 c (by simp)
    have hM : ∀ j, j < tbl.length → mroOf cs j = chainMro j := by
      intro j hj
      have hjl : j < cs.length := by
        have := (List.getElem?_eq_some_iff.1 hc).1; omega
      have hg : cs[j]? = some cs[j] := by simp [hjl]
      simp only [mroOf, hg]
      exact (H.cls j _ hg).2.2.2.1
    simp only [buildTable] at hok
    cases herr : (buildClass (mroOf cs) tbl tbl.length c).err with
    | some e => simp [herr] at hok
    | none =>
      simp only [herr] at hok
      have hk := (H.cls _ c hc).1
      have hentry : tableEntry c (buildClass (mroOf cs) tbl tbl.length c) =
          some (buildClass (mroOf cs) tbl tbl.length c).attrs := by simp [tableEntry, hk]
      rw [hentry] at hok
      have hinv' := CInv_snoc hinv _ (build_chain_step H (mroOf cs) hM hinv hc herr)
      have hrest' : ∀ i c', rest[i]? = some c' →
          cs[(tbl ++ [some (buildClass (mroOf cs) tbl tbl.length c).attrs]).length + i]? = some c' := by
        intro i c' hi
        have := hrest (i + 1) c' (by simpa using hi)
        simpa [Nat.add_assoc, Nat.add_comm 1 i] using this
      obtain ⟨h1, h2⟩ := ih _ hrest' hinv' hok
      refine ⟨h1, ?_⟩
      rw [h2]; simp; omega

end Attrs.C07
