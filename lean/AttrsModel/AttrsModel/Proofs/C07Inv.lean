/-
  C07 — invariant of the table of base classes built by the model, and the main collection theorem:
  `_collect_base_attrs` on that table = the Spec's declarative inherited block.
-/
import AttrsModel.Proofs.C07Table

namespace Attrs.C07

/-- entry `b` is absent exactly for plain classes; otherwise its non-inherited part is what class `b` declares -/
def TInv (cs : List Cls) (tbl : Table) : Prop :=
  ∀ b, b < tbl.length →
    (tbl[b]? = some none ∧ isAttrsCls cs b = false) ∨
    (∃ T, tbl[b]? = some (some T) ∧ isAttrsCls cs b = true ∧
      T.filter (fun a => !a.inherited) = specFinalOwn cs b)

theorem TInv_nil (cs : List Cls) : TInv cs [] := by intro b hb; simp at hb

theorem isAttrsCls_of_get {cs : List Cls} {b : Nat} {c : Cls} (h : cs[b]? = some c) :
    isAttrsCls cs b = (c.kind != .plain) := by simp [isAttrsCls, h]

theorem clsAt_of_get {cs : List Cls} {b : Nat} {c : Cls} (h : cs[b]? = some c) : clsAt cs b = c := by
  simp [clsAt, h]

theorem kind_ne_plain_iff (k : Kind) : (k != .plain) = true ↔ k ≠ .plain := by
  cases k <;> decide

theorem buildTable_inv (M : Mros) (cs : List Cls) (rest : List Cls) (tbl tbl' : Table)
    (hrest : ∀ i c, rest[i]? = some c → cs[tbl.length + i]? = some c)
    (hinv : TInv cs tbl) (hok : buildTable M rest tbl = .ok tbl') :
    TInv cs tbl' ∧ tbl'.length = tbl.length + rest.length := by
  induction rest generalizing tbl with
  | nil =>
    simp only [buildTable, Except.ok.injEq] at hok
    subst hok; exact ⟨hinv, by simp⟩
  | cons c rest ih =>
    have hc : cs[tbl.length]? = some c := by simpa using hrest 0 c (by simp)
    simp only [buildTable] at hok
    cases herr : (buildClass M tbl tbl.length c).err with
    | some e => simp [herr] at hok
    | none =>
      simp only [herr] at hok
      have hrest' : ∀ i c', rest[i]? = some c' →
          cs[(tbl ++ [tableEntry c (buildClass M tbl tbl.length c)]).length + i]? = some c' := by
        intro i c' hi
        have := hrest (i + 1) c' (by simpa using hi)
        simpa [Nat.add_assoc, Nat.add_comm 1 i] using this
      have hinv' : TInv cs (tbl ++ [tableEntry c (buildClass M tbl tbl.length c)]) := by
        intro b hb
        by_cases hlt : b < tbl.length
        · have := hinv b hlt
          simpa [List.getElem?_append_left hlt] using this
        · have hbe : b = tbl.length := by
            simp only [List.length_append, List.length_singleton] at hb; omega
          subst hbe
          simp only [List.getElem?_append_right (Nat.le_refl _), Nat.sub_self, List.getElem?_cons_zero,
            Option.some.injEq]
          by_cases hk : c.kind = .plain
          · left
            simp [tableEntry, hk, isAttrsCls_of_get hc]
          · right
            refine ⟨(buildClass M tbl tbl.length c).attrs, by simp [tableEntry, hk], ?_, ?_⟩
            · rw [isAttrsCls_of_get hc]; exact (kind_ne_plain_iff _).2 hk
            · rw [buildClass_eq M tbl _ c hk] at herr ⊢
              by_cases hm : mustRaiseUnannotated c = true
              · simp [hm, Built.fail] at herr
              · have hm' : mustRaiseUnannotated c = false := by simpa using hm
                simp only [hm', Bool.false_eq_true, if_false] at herr ⊢
                rw [finish_own M tbl _ c _ _ herr]
                simp [specFinalOwn, isAttrsCls_of_get hc, clsAt_of_get hc, (kind_ne_plain_iff _).2 hk]
      obtain ⟨h1, h2⟩ := ih _ hrest' hinv' hok
      refine ⟨h1, ?_⟩
      rw [h2]; simp; omega

/-- what one table entry exposes to a subclass that takes `taken` -/
theorem expose_of_entry {cs : List Cls} {taken : List String} {T : List Attr} {j : Nat}
    (hT : T.filter (fun a => !a.inherited) = specFinalOwn cs j) :
    (T.filter (fun a => !(a.inherited || taken.contains a.name))).map inherit = Dspec cs taken j := by
  simp only [Dspec, ← hT, List.filter_filter]
  congr 1
  apply List.filter_congr
  intro a _
  cases a.inherited <;> simp

theorem findSome_tbl {cs : List Cls} {tbl : Table} (hinv : TInv cs tbl) (L : List Nat)
    (hL : ∀ m ∈ L, m < tbl.length) :
    L.findSome? (fun m => (tbl[m]?).join) = (L.find? (isAttrsCls cs)).bind (fun j => (tbl[j]?).join) := by
  induction L with
  | nil => rfl
  | cons m L ih =>
    have hm := hL m List.mem_cons_self
    have ih' := ih (fun x hx => hL x (List.mem_cons_of_mem _ hx))
    rcases hinv m hm with ⟨h1, h2⟩ | ⟨T, h1, h2, _⟩
    · simp [List.findSome?_cons, List.find?_cons, h1, h2, ih']
    · simp [List.findSome?_cons, List.find?_cons, h1, h2]

theorem specFinalOwn_plain {cs : List Cls} {m : Nat} (h : isAttrsCls cs m = false) : specFinalOwn cs m = [] := by
  simp [specFinalOwn, h]

/-- the blocks exposed by the model's table are `Good` -/
theorem good_of_inv {cs : List Cls} {tbl : Table} (taken : List String) (hinv : TInv cs tbl)
    (ms : List Nat) (hms : ∀ m ∈ ms, m < tbl.length) :
    Good (expose (mroOf cs) tbl taken) (Dspec cs taken) (isAttrsCls cs) ms := by
  induction ms with
  | nil => trivial
  | cons m rest ih =>
    have hm := hms m List.mem_cons_self
    refine ⟨?_, ih (fun x hx => hms x (List.mem_cons_of_mem _ hx))⟩
    rcases hinv m hm with ⟨h1, h2⟩ | ⟨T, h1, h2, h3⟩
    · -- plain class: owns no tuple
      simp only [h2, Bool.false_eq_true, if_false]
      exact ⟨by simp [expose, ownTuple, h1], by simp [Dspec, specFinalOwn_plain h2]⟩
    · simp only [h2, if_true]
      simp only [expose, ownTuple, h1, Option.join_some]
      exact expose_of_entry h3

/-- **main collection theorem**: on the model's table, gather + keep-last is the declarative rule -/
theorem collectMro_eq_spec {cs : List Cls} {tbl : Table} (taken : List String) (hinv : TInv cs tbl)
    (hnodup : ∀ m, (names (specFinalOwn cs m)).Nodup)
    (ms : List Nat) (hms : ∀ m ∈ ms, m < tbl.length) :
    collectMro (mroOf cs) tbl taken ms = specInh cs taken [] ms := by
  rw [specInh_nil_eq_Ss, collectMro, mroGather, keepLast_flatMap_reverse]
  apply Rr_eq_Ss _ _ (isAttrsCls cs)
  · intro m
    simp only [Dspec, names_map_inherit]
    exact List.Nodup.sublist (List.Sublist.map _ List.filter_sublist) (hnodup m)
  · exact good_of_inv taken hinv ms hms

end Attrs.C07
