/-
  C18 — helper lemmas: order of evaluation (first failure) and the values handed to sub-validators.
-/
import AttrsModel.Proofs.C18

namespace Attrs.C18
/-- first failure: trace and outcome of a conjunction -/
theorem and_first_failure (o : Oracle) (pre : List V) (v : V) (post : List V) (x : Nat) (k : ExcKind)
    (hpre : ∀ u ∈ pre, (eval o u x).1 = none) (hv : (eval o v x).1 = some k) :
    evalAll o (pre ++ v :: post) x = (some k, pre.flatMap (fun u => (eval o u x).2) ++ (eval o v x).2) := by
  induction pre with
  | nil => simp [evalAll_cons, andThen, hv]
  | cons u pre ih =>
    have hu := hpre u (by simp)
    have := ih (fun w hw => hpre w (by simp [hw]))
    simp [evalAll_cons, this, andThen, hu, List.flatMap_cons]

theorem and_all_accept (o : Oracle) (vs : List V) (x : Nat) (h : ∀ u ∈ vs, (eval o u x).1 = none) :
    evalAll o vs x = (none, vs.flatMap (fun u => (eval o u x).2)) := by
  induction vs with
  | nil => simp [ok]
  | cons u vs ih =>
    have hu := h u (by simp)
    have := ih (fun w hw => h w (by simp [hw]))
    simp [evalAll_cons, this, andThen, hu, List.flatMap_cons]

/-- either every element accepts, or the list splits at the first failure -/
theorem and_split (o : Oracle) (vs : List V) (x : Nat) :
    (∀ u ∈ vs, (eval o u x).1 = none) ∨
    ∃ pre v post k, vs = pre ++ v :: post ∧ (∀ u ∈ pre, (eval o u x).1 = none) ∧ (eval o v x).1 = some k := by
  induction vs with
  | nil => left; simp
  | cons u vs ih =>
    cases hu : (eval o u x).1 with
    | some k => right; exact ⟨[], u, vs, k, by simp, by simp, hu⟩
    | none =>
      rcases ih with h | ⟨pre, v, post, k, rfl, hp, hv⟩
      · left; intro w hw; rcases List.mem_cons.1 hw with rfl | hw
        · exact hu
        · exact h w hw
      · right; refine ⟨u :: pre, v, post, k, by simp, ?_, hv⟩
        intro w hw; rcases List.mem_cons.1 hw with rfl | hw
        · exact hu
        · exact hp w hw

theorem not_involution (o : Oracle) (v : V) (m m' : Nat) (e : ExcArg) (x : Nat)
    (hve : captures e .valueError = true) :
    (eval o (.not_ (.not_ v m e) m' e) x).1 =
      (match (eval o v x).1 with
       | none => none
       | some k => if captures e k then some .valueError else some k) := by
  simp only [eval, notR]
  cases h : (eval o v x).1 with
  | none => simp [hve]
  | some k => by_cases hc : captures e k = true <;> simp [hc]

/-! values passed down -/

/-- `y` is `x` or a member / key / mapped value reached from `x` by iteration -/
inductive Reach (o : Oracle) : Nat → Nat → Prop
  | refl (x : Nat) : Reach o x x
  | key {x y : Nat} (i : Item) : Reach o x y → i ∈ (o.iter y).items → Reach o x i.key
  | val {x y z : Nat} (i : Item) : Reach o x y → i ∈ (o.iter y).items → i.get = .ok z → Reach o x z

theorem Reach.trans {o : Oracle} {x y z : Nat} (h1 : Reach o x y) (h2 : Reach o y z) : Reach o x z := by
  induction h2 with
  | refl => exact h1
  | key i _ hi ih => exact Reach.key i ih hi
  | val i _ hi hg ih => exact Reach.val i ih hi hg

theorem mem_andThen {a b : R} {e : Ev} (h : e ∈ (andThen a b).2) : e ∈ a.2 ∨ e ∈ b.2 := by
  unfold andThen at h
  rcases a with ⟨_ | k, t⟩ <;> simp at h
  · exact h
  · exact Or.inl h

theorem mem_orElse {a b : R} {e : Ev} (h : e ∈ (orElse a b).2) : e ∈ a.2 ∨ e ∈ b.2 := by
  unfold orElse at h
  rcases a with ⟨_ | k, t⟩ <;> simp at h
  · exact Or.inl h
  · split at h
    · simpa using h
    · exact Or.inl h

theorem mem_forEach {α : Type} {f : α → R} {ys : List α} {e : Ev} (h : e ∈ (forEach f ys).2) :
    ∃ y ∈ ys, e ∈ (f y).2 := by
  induction ys with
  | nil => simp [forEach, ok] at h
  | cons y ys ih =>
    simp only [forEach] at h
    rcases mem_andThen h with h | h
    · exact ⟨y, by simp, h⟩
    · obtain ⟨z, hz, hm⟩ := ih h
      exact ⟨z, by simp [hz], hm⟩

theorem notR_trace (e : ExcArg) (r : R) : (notR e r).2 = r.2 := by
  unfold notR
  rcases r with ⟨_ | k, t⟩
  · rfl
  · simp only; split <;> rfl

theorem stopR_trace (s : Option ExcKind) : (stopR s).2 = [] := by
  cases s <;> rfl

theorem ofPrim_trace (p : PrimRes) (k : ExcKind) : (ofPrim p k).2 = [] := by
  cases p <;> rfl

theorem inR_trace (p : PrimRes) : (inR p).2 = [] := by
  cases p <;> simp [inR, ok, raise]
  split <;> rfl

theorem lenVal_trace (o : Oracle) (b : Bool) (bd : Bound) (x : Nat) : (lenVal o b bd x).2 = [] := by
  unfold lenVal
  cases o.len x <;> simp [raise, ofPrim_trace]

mutual
theorem trace_reach (o : Oracle) : ∀ (v : V) (x : Nat), ∀ e ∈ (eval o v x).2, Reach o x e.2
  | .instOf _, x => by simp [eval, ofPrim_trace]
  | .matchesRe _ _ _, x => by simp [eval, ofPrim_trace]
  | .optional v, x => by
      intro e he
      simp only [eval] at he
      split at he
      · simp [ok] at he
      · exact trace_reach o v x e he
  | .optionalSeq _ vs, x => by
      intro e he
      simp only [eval] at he
      split at he
      · simp [ok] at he
      · exact traceAll_reach o vs x e he
  | .in_ _, x => by simp [eval, inR_trace]
  | .isCallable, x => by
      intro e he
      simp only [eval] at he
      split at he <;> simp [ok, raise] at he
  | .deepIter m it, x => by
      intro e he
      simp only [eval] at he
      rcases mem_andThen he with h | h
      · split at h
        · simp [ok] at h
        · exact trace_reach o it x e h
      · rcases mem_andThen h with h | h
        · obtain ⟨i, hi, hm⟩ := mem_forEach h
          exact Reach.trans (Reach.key i (Reach.refl x) hi) (trace_reach o m i.key e hm)
        · simp [stopR_trace] at h
  | .deepIterSeq _ ms it, x => by
      intro e he
      simp only [eval] at he
      rcases mem_andThen he with h | h
      · split at h
        · simp [ok] at h
        · exact trace_reach o it x e h
      · rcases mem_andThen h with h | h
        · obtain ⟨i, hi, hm⟩ := mem_forEach h
          exact Reach.trans (Reach.key i (Reach.refl x) hi) (traceAll_reach o ms i.key e hm)
        · simp [stopR_trace] at h
  | .deepMap kv vv mv, x => by
      intro e he
      simp only [eval] at he
      rcases mem_andThen he with h | h
      · split at h
        · simp [ok] at h
        · exact trace_reach o mv x e h
      · rcases mem_andThen h with h | h
        · obtain ⟨i, hi, hm⟩ := mem_forEach h
          rcases mem_andThen hm with hk | hg
          · exact Reach.trans (Reach.key i (Reach.refl x) hi) (trace_reach o kv i.key e hk)
          · cases hget : i.get with
            | ok y =>
              rw [hget] at hg
              simp only [getR] at hg
              exact Reach.trans (Reach.val i (Reach.refl x) hi hget) (trace_reach o vv y e hg)
            | exc k => rw [hget] at hg; simp [getR, raise] at hg
            | na => rw [hget] at hg; simp [getR, raise] at hg
        · simp [stopR_trace] at h
  | .num _ _, x => by simp [eval, ofPrim_trace]
  | .maxLen _, x => by simp [eval, lenVal_trace]
  | .minLen _, x => by simp [eval, lenVal_trace]
  | .not_ v _ _, x => by
      intro e he
      simp only [eval, notR_trace] at he
      exact trace_reach o v x e he
  | .or_ vs, x => by
      intro e he
      simp only [eval] at he
      exact traceAny_reach o vs x e he
  | .and_ vs, x => by
      intro e he
      simp only [eval] at he
      exact traceAll_reach o vs x e he
  | .andRaw _ vs, x => by
      intro e he
      simp only [eval] at he
      exact traceAll_reach o vs x e he
  | .probe p _, x => by
      intro e he
      simp only [eval, List.mem_singleton] at he
      subst he
      exact Reach.refl x
  | .junk, x => by simp [eval, raise]
  | .noneV, x => by simp [eval, raise]
theorem traceAll_reach (o : Oracle) : ∀ (vs : List V) (x : Nat), ∀ e ∈ (evalAll o vs x).2, Reach o x e.2
  | [], x => by simp [ok]
  | v :: vs, x => by
      intro e he
      rw [evalAll_cons] at he
      rcases mem_andThen he with h | h
      · exact trace_reach o v x e h
      · exact traceAll_reach o vs x e h
theorem traceAny_reach (o : Oracle) : ∀ (vs : List V) (x : Nat), ∀ e ∈ (evalAny o vs x).2, Reach o x e.2
  | [], x => by simp [raise]
  | v :: vs, x => by
      intro e he
      rw [evalAny_cons] at he
      rcases mem_orElse he with h | h
      · exact trace_reach o v x e h
      · exact traceAny_reach o vs x e h
end


end Attrs.C18
